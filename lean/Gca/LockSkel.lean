/-
Lock skeletons: a small structured language into which the extractor
transcribes the control flow of every Go function that matters for locking
(lock / unlock / defer-unlock / return / process exit / guarded field access /
call / if / loop / break / continue), a big-step semantics in which every
locking mistake is an explicit outcome `bad`, and a checker `check` that is
proved sound once, for all programs: `check = true` implies that no execution
of the skeleton (any path through ifs, any number of loop iterations) ever
 - unlocks a mutex that is not held,
 - locks a mutex while any mutex is held (no nesting, no self-deadlock),
 - touches a guarded field without its mutex,
 - calls a function that takes locks while holding one, or a function that
   assumes a lock without holding it (the extractor also renders every call that
   waits for a peer - a read or write on a network connection, on an HTTP
   response writer or request body, an outgoing HTTP request, a dial, a sleep -
   as `callLocking`: such a call, too, has to be made with no mutex held, or a
   silent peer stops everybody who needs that mutex),
 - returns (or falls off the end) with a mutex still held after its deferred unlocks ran.
The checker is then evaluated by the kernel (`decide`) on the skeletons
regenerated from the source on every run (Gca/Tie/Locks.lean).
-/
namespace Gca.Lock

inductive Stmt where
  | lock (m : String)
  | unlock (m : String)
  | deferUnlock (m : String)
  | ret
  | exit                                   -- panic / logger.Fatal / os.Exit: the path ends, nothing to release
  | access (mutex : String)                -- access to a field guarded by `mutex`
  | callLocking                            -- call of a function that acquires locks itself, or that waits for a peer
  | callAssuming (mutex : String)          -- call of a function that requires `mutex` to be held
  | ite (a b : List Stmt)
  | loop (body : List Stmt)
  | brk
  | cont
deriving Repr

abbrev Prog := List Stmt

/-- Held mutexes and pending deferred unlocks (most recent first). -/
structure St where
  held   : List String
  defers : List String
deriving DecidableEq, Repr

inductive Out where
  | norm (s : St)     -- fell through
  | brk (s : St)      -- left by `break`
  | cont (s : St)     -- left by `continue`
  | done              -- returned with nothing held, or the process exited
  | bad               -- a locking mistake happened
deriving DecidableEq, Repr

/-- Run the deferred unlocks at function exit: `none` if one of them finds its mutex not held. -/
def runDefers : List String → List String → Option (List String)
  | held, [] => some held
  | held, m :: ds => if m ∈ held then runDefers (held.erase m) ds else none

def atReturn (s : St) : Out :=
  match runDefers s.held s.defers with
  | some [] => .done
  | _ => .bad

/-! ### Semantics -/

mutual
inductive RunS : Stmt → St → Out → Prop where
  | lock_ok (m s) : s.held = [] → RunS (.lock m) s (.norm { s with held := [m] })
  | lock_bad (m s) : s.held ≠ [] → RunS (.lock m) s .bad
  | unlock_ok (m s) : m ∈ s.held → RunS (.unlock m) s (.norm { s with held := s.held.erase m })
  | unlock_bad (m s) : m ∉ s.held → RunS (.unlock m) s .bad
  | defer_ (m s) : RunS (.deferUnlock m) s (.norm { s with defers := m :: s.defers })
  | ret (s) : RunS .ret s (atReturn s)
  | exit (s) : RunS .exit s .done
  | access_ok (m s) : m ∈ s.held → RunS (.access m) s (.norm s)
  | access_bad (m s) : m ∉ s.held → RunS (.access m) s .bad
  | callL_ok (s) : s.held = [] → RunS .callLocking s (.norm s)
  | callL_bad (s) : s.held ≠ [] → RunS .callLocking s .bad
  | callA_ok (m s) : m ∈ s.held → RunS (.callAssuming m) s (.norm s)
  | callA_bad (m s) : m ∉ s.held → RunS (.callAssuming m) s .bad
  | ite_l (a b s o) : RunP a s o → RunS (.ite a b) s o
  | ite_r (a b s o) : RunP b s o → RunS (.ite a b) s o
  | loop_skip (body s) : RunS (.loop body) s (.norm s)
  | loop_brk (body s s') : RunP body s (.brk s') → RunS (.loop body) s (.norm s')
  | loop_end (body s o) : RunP body s o → (o = .done ∨ o = .bad) → RunS (.loop body) s o
  | loop_next (body s s' o) : RunP body s (.norm s') → RunS (.loop body) s' o → RunS (.loop body) s o
  | loop_cont (body s s' o) : RunP body s (.cont s') → RunS (.loop body) s' o → RunS (.loop body) s o
  | brk (s) : RunS .brk s (.brk s)
  | cont (s) : RunS .cont s (.cont s)
inductive RunP : List Stmt → St → Out → Prop where
  | nil (s) : RunP [] s (.norm s)
  | step (x xs s s' o) : RunS x s (.norm s') → RunP xs s' o → RunP (x :: xs) s o
  | stop (x xs s o) : RunS x s o → (∀ s', o ≠ .norm s') → RunP (x :: xs) s o
end

/-- A whole function body: falling off the end is a return. -/
inductive RunF : Prog → St → Out → Prop where
  | fall (p s s') : RunP p s (.norm s') → RunF p s (atReturn s')
  | other (p s o) : RunP p s o → (∀ s', o ≠ .norm s') → RunF p s o

/-! ### Checker -/

/-- Abstract result of a block: the possible states at its three kinds of exit
(`none` = a mistake is possible). -/
structure Res where
  norm : List St := []
  brk  : List St := []
  cont : List St := []
deriving Repr

def Res.merge (a b : Res) : Res := ⟨a.norm ++ b.norm, a.brk ++ b.brk, a.cont ++ b.cont⟩

/-- Abstract flow, by recursion on a fuel argument (so that the kernel can
evaluate it); running out of fuel rejects, which is the safe answer. -/
def flowS : Nat → Stmt → St → Option Res
  | 0, _, _ => none
  | fuel+1, st, s =>
    let flowP : List Stmt → St → Option Res := fun p s0 =>
      p.foldl (fun (acc : Option Res) x => match acc with
        | none => none
        | some r =>
          -- run `x` from every state in which the prefix can fall through
          let step := r.norm.foldl (fun (a : Option Res) s1 => match a, flowS fuel x s1 with
            | some a, some b => some (a.merge b)
            | _, _ => none) (some {})
          match step with
          | none => none
          | some r' => some { norm := r'.norm, brk := r.brk ++ r'.brk, cont := r.cont ++ r'.cont })
        (some { norm := [s0] })
    match st with
    | .lock m => if s.held = [] then some { norm := [{ s with held := [m] }] } else none
    | .unlock m => if m ∈ s.held then some { norm := [{ s with held := s.held.erase m }] } else none
    | .deferUnlock m => some { norm := [{ s with defers := m :: s.defers }] }
    | .ret => if atReturn s = .done then some {} else none
    | .exit => some {}
    | .access m => if m ∈ s.held then some { norm := [s] } else none
    | .callLocking => if s.held = [] then some { norm := [s] } else none
    | .callAssuming m => if m ∈ s.held then some { norm := [s] } else none
    | .ite a b => match flowP a s, flowP b s with
      | some ra, some rb => some (ra.merge rb)
      | _, _ => none
    | .loop body => match flowP body s with
      | none => none
      | some r =>
        -- the body must be lock-neutral on every path that comes back to the loop head
        if r.norm.all (· = s) && r.cont.all (· = s) then some { norm := s :: r.brk } else none
    | .brk => some { brk := [s] }
    | .cont => some { cont := [s] }

/-- A block: statements in sequence, each run from every fall-through state of the prefix. -/
def flowP (fuel : Nat) (p : List Stmt) (s0 : St) : Option Res :=
  p.foldl (fun (acc : Option Res) x => match acc with
    | none => none
    | some r =>
      let step := r.norm.foldl (fun (a : Option Res) s1 => match a, flowS fuel x s1 with
        | some a, some b => some (a.merge b)
        | _, _ => none) (some {})
      match step with
      | none => none
      | some r' => some { norm := r'.norm, brk := r.brk ++ r'.brk, cont := r.cont ++ r'.cont })
    (some { norm := [s0] })

/-- Fuel: an upper bound on the nesting depth of if/loop in any Go function (rejecting beyond it). -/
def fuelFor (_p : Prog) : Nat := 40

/-- A function body started with `held` mutexes (empty for entry points; the
object's mutex for helpers that are only called under it): no mistake on any
path, and every way of falling off the end is a clean return. `break`/`continue`
outside a loop do not occur in Go. -/
def check (p : Prog) (held : List String) : Bool :=
  match flowP (fuelFor p) p ⟨held, []⟩ with
  | none => false
  | some r => r.norm.all (fun s => atReturn s = .done) && r.brk.isEmpty && r.cont.isEmpty

/-- Helpers that are only called with mutex `m` held behave, for the purpose of
this analysis, like a function that acquires `m` on entry and releases it when
it returns: every access and every call inside sees `m` held, a `return`
anywhere is fine, taking another lock or releasing `m` is a mistake. -/
def checkAssuming (p : Prog) (m : String) : Bool := check (.lock m :: .deferUnlock m :: p) []

end Gca.Lock
