import Gca.Hex
import Gca.Server.Model
/-
Canonical text renderings shared (by specification) with the Go harness: both
sides render their state the same way, the driver compares strings / hashes.
Anything that came out of a Go map is sorted here.
-/
namespace Gca.Canon
open Gca Gca.Srv

def joinWith (sep : String) (l : List String) : String := sep.intercalate l

def sortStrings (l : List String) : List String := (l.toArray.qsort (· < ·)).toList

/-- FNV-1a, 64 bit. -/
def fnv64 (s : String) : UInt64 :=
  s.toUTF8.foldl (fun h b => (h ^^^ b.toUInt64) * 1099511628211) 14695981039346656037

def hex64 (x : UInt64) : String :=
  String.ofList ((List.range 16).map (fun i => hexDigit ((x >>> (UInt64.ofNat (4 * (15 - i)))).toNat % 16)))

def sparse {α} (l : List α) (isZero : α → Bool) (show_ : α → String) : String :=
  let rec go : Nat → List α → List String → List String
    | _, [], acc => acc.reverse
    | i, x :: xs, acc => go (i+1) xs (if isZero x then acc else (s!"{i}.{show_ x}") :: acc)
  joinWith "," (go 0 l [])

def week (w : Week) : String :=
  let devs := sortStrings (w.devs.map (fun d =>
    s!"{hx d.key}:{sparse d.powers (· == 0) toString}:{sparse d.impacts (· == 0) toString}"))
  s!"tso={w.tso};" ++ joinWith ";" devs

/-- Blank-slot test with a pointer-equality fast path (blank slots share the one `Report.zero` object). -/
def isBlank (r : Report) : Bool :=
  @decide (r = Report.zero) (withPtrEqDecEq r Report.zero (fun _ => inferInstance))

def dev (id : Nat) (d : Srv.Dev) : String :=
  s!"{id}:{hexOfBytes (Auth.encode d.auth)}:{sparse d.reports isBlank (fun r => hexOfBytes (Report.encode r))}:{sparse d.impact (· == 0) toString}"

def natSort (l : List Nat) : List Nat := (l.toArray.qsort (· < ·)).toList

def snapshot (s : State) : String :=
  let devs := (natSort (s.devices.map (·.1))).filterMap (fun id => (FMap.get s.devices id).map (dev id))
  let short := sortStrings (s.shortIds.map (fun p => s!"{hx p.1}:{p.2}"))
  let migs := sortStrings (s.migs.map (fun p => s!"{hx p.1}:{hx (Migration.encode p.2)}"))
  joinWith "|" [
    s!"off={s.off}", s!"avail={if s.gcaAvail then 1 else 0}", s!"gca={hx s.gcaKey}",
    s!"bans={joinWith "," ((natSort s.bans).map toString)}",
    s!"devs={joinWith ";" devs}", s!"short={joinWith "," short}",
    s!"hist={joinWith "#" (s.history.map week)}",
    s!"rr={joinWith "," (s.recentR.map (fun r => hexOfBytes (Report.encode r)))}",
    s!"ra={joinWith "," (s.recentA.map (fun a => hexOfBytes (Auth.encode a)))}",
    s!"servers={hx (AuthServer.encodeList s.servers)}", s!"migs={joinWith "," migs}"]

def disk (d : Disk) : String :=
  joinWith "|" [
    s!"gca={match d.gcaKey with | none => "absent" | some k => hx k}",
    s!"auths={hx (d.auths.foldr (fun a acc => Auth.encode a ++ acc) [])}",
    s!"reports={hx (d.reports.foldr (fun r acc => Report.encode r ++ acc) [])}",
    s!"weeks={joinWith "#" (d.weeks.map week)}"]

partial def bitBytes : List Bool → List UInt8
  | [] => []
  | l => let chunk := l.take 8
         let v := (chunk.zipIdx.foldl (fun acc (b, i) => if b then acc + 2^i else acc) 0 : Nat)
         UInt8.ofNat v :: bitBytes (l.drop 8)

def bits (l : List Bool) : String := hx (bitBytes l)

def out : Out → String
  | .ok => "ok" | .okNew => "new" | .refused => "refused" | .banned => "banned"
  | .dropped => "dropped" | .stored => "stored"
  | .stats w =>
    -- outside the proved model: the reply is JSON, which has no notation for NaN or the infinities, so a
    -- week that holds a non-finite impact rate (exponent bits all ones) cannot be served: HTTP 500
    if w.devs.any (fun d => d.impacts.any (fun b => b / 2^52 % 2048 == 2047)) then "refused" else week w
  | .syncRefused => "refused"
  | .syncReply key off b mig servers =>
    let m := match mig with
      | none => s!"servers={hx (AuthServer.encodeList servers)}"
      | some m => s!"mig={hx (Migration.tail m ++ m.sig)}"
    s!"key={hx key} off={off} bits={bits b} {m}"
  | .startFailed => "fail" | .panic => "PANIC"

end Gca.Canon
