import Gca.Driver.Canon
import Gca.Timeslot
import Gca.RateLimiter
import Gca.Props.C19
import Gca.EventLog
import Gca.Codec.ServerMap
import Gca.Client.Model
import Std.Data.HashMap
/-
Line-protocol driver. Each input line is `<kind> <k=v ...> => <observed>` as
written by the Go harness while it drove the real code; the driver runs the
same operation on the model and prints a MISMATCH line when the model's
canonical output differs from what was observed. Lines starting with `v `
fill the signature-verification oracle; `#` lines are comments.
-/
namespace Gca.Driver
open Gca Gca.Srv Gca.Canon

abbrev Args := List (String × String)

def parseArgs (toks : List String) : Args :=
  toks.filterMap (fun t => match t.splitOn "=" with
    | k :: v :: rest => some (k, "=".intercalate (v :: rest))
    | _ => none)

def arg (a : Args) (k : String) : String := (a.lookup k).getD ""
def argNat (a : Args) (k : String) : Nat := (arg a k).toNat!
def argInt (a : Args) (k : String) : Int := (arg a k).toInt!
def argHex (a : Args) (k : String) : Bytes := (bytesOfHex (arg a k)).getD []

structure St where
  oracle : Std.HashMap String Bool := {}
  srv    : State := {}
  srvUp  : Bool := false
  cfg    : Cfg := {}
  el     : Option EL.Log := none
  rl     : RL.State := RL.init 0 0
  hist   : Cl.Hist := ⟨0, []⟩
  cl     : Option Cl.Client := none
  latest : Nat := 0
  lines  : Nat := 0
  mism   : Nat := 0
  misses : Nat := 0
  -- rendering caches for the server snapshot (a device string is recomputed only when an op can touch it)
  devC   : Std.HashMap Nat String := {}
  histC  : Array String := #[]
  rrC    : String := ""
  rrN    : Nat := 0
  devDirty : List Nat := []   -- devices whose cached rendering is stale (rendered again when a snapshot is needed)
  -- the process was killed (SIGKILL) somewhere inside the last operation: its single disk write either
  -- happened or not. `srv` holds the state with the write, `alt` the state without it; the next start decides.
  alt    : Option State := none
  -- a sync round that is held inside a failed attempt while another round runs: attempts left, servers failed so far
  clPend : Option (Nat × List Bytes × Bytes) := none
  quiet  : Bool := false

def mkV (o : Std.HashMap String Bool) (dflt : Bool) : Verify :=
  fun k m s => (o.get? (hexOfBytes k ++ "|" ++ hexOfBytes m ++ "|" ++ hexOfBytes s)).getD dflt

def noSign : Bytes → Bytes := fun _ => []

def parseAuthServers (b : Bytes) : List AuthServer := (AuthServer.decodeList b.length b).getD []

/-- Servers given field by field (`key,banned,loc,http,tcp,udp,sig;...`): the only way to pass
entries whose location does not fit the wire format. -/
def parseServerFields (s : String) : List AuthServer :=
  (if s.isEmpty then [] else s.splitOn ";").filterMap (fun e => match e.splitOn "," with
    | [k, b, loc, h, t, u, sg] =>
      some ⟨(bytesOfHex k).getD [], b == "1", (bytesOfHex loc).getD [], h.toNat!, t.toNat!, u.toNat!, (bytesOfHex sg).getD []⟩
    | _ => none)

def parseMigration (a : Args) : Migration :=
  let servers := if (a.lookup "slist").isSome then parseServerFields (arg a "slist") else parseAuthServers (argHex a "servers")
  ⟨argHex a "eq", argHex a "gca", argNat a "id", servers, argHex a "sig"⟩

/-- Translate one server line into a model operation. -/
def srvOp (kind : String) (a : Args) : Option Op :=
  match kind with
  | "srv.dgram" => some (.dgram (argNat a "now") (argHex a "d"))
  | "srv.register" => some (.register (argHex a "key") (argHex a "sig"))
  | "srv.authorize" => (Auth.decode (argHex a "a")).map .authorize
  | "srv.rotate" => some .rotate
  | "srv.tick" => some (.tick (argNat a "now"))
  | "srv.restart" => some (.restart (argHex a "fresh") (argNat a "now"))
  | "srv.stats" => some (.stats (argNat a "tso"))
  | "srv.sync" => some (.sync (argNat a "id"))
  | "srv.authserver" =>
    match AuthServer.decodeList (argHex a "e").length (argHex a "e") with
    | some [e] => some (.authServer e)
    | _ => -- entries that the wire decoder cannot represent (location over 255 bytes) are given field-wise
      some (.authServer ⟨argHex a "key", arg a "banned" == "1", argHex a "loc", argNat a "http",
                         argNat a "tcp", argNat a "udp", argHex a "sig"⟩)
  | "srv.migrate" => some (.migrate (parseMigration a))
  | "srv.impact" => some (.impact (argNat a "id") (argNat a "ts") (argNat a "rate"))
  | _ => none

def report (st : St) (what model impl : String) : IO St := do
  if !st.quiet then
    IO.println s!"MISMATCH line={st.lines} {what} model=[{model}] impl=[{impl}]"
  return { st with mism := st.mism + 1 }

/-- Compare observed text: either a full canonical string or `#<fnv64>` of it. -/
def sameObs (model obs : String) : Bool :=
  if obs.startsWith "#" then ("#" ++ hex64 (fnv64 model)) == obs else model == obs

/-- Signature checks the model will consult for an operation; every one of them must have an oracle row. -/
def needed (s : State) : Op → List (Key × Bytes × Bytes)
  | .dgram _ d =>
    if d.length < 80 then [] else
    match Report.decode (d.take 80) with
    | none => []
    | some r => match FMap.get s.devices r.id with
      | none => []
      | some dv => [(dv.auth.key, Report.signingBytes r, r.sig)]
  | .register k sig => if s.gcaAvail then [] else [(s.tempKey, Registration.signingBytes k, sig)]
  | .authorize a => if s.gcaAvail then [(s.gcaKey, Auth.signingBytes a, a.sig)] else []
  | .authServer a => if a.loc.length > 255 then [] else [(s.gcaKey, AuthServer.signingBytes a, a.sig)]
  | .migrate m => (s.gcaKey, Migration.signingBytes m, m.sig) ::
      m.servers.filterMap (fun a => if a.loc.length > 255 then none else some (m.newGCA, AuthServer.signingBytes a, a.sig))
  | .restart _ _ =>
    let gk := match s.disk.gcaKey with | some k => if k.length = 32 then k else zeros 32 | none => zeros 32
    s.disk.auths.map (fun a => (gk, Auth.signingBytes a, a.sig)) ++
    s.disk.reports.filterMap (fun r => (s.disk.auths.find? (fun a => a.id == r.id)).map
      (fun a => (a.key, Report.signingBytes r, r.sig)))
  | _ => []

/-- Device ids whose rendering an operation can change; `none` = all of them. -/
def touched : Op → Option (List Nat)
  | .dgram _ d => some (match Report.decode (d.take 80) with | some r => [r.id] | none => [])
  | .authorize a => some [a.id]
  | .impact id _ _ => some [id]
  | .register _ _ | .stats _ | .sync _ | .authServer _ | .migrate _ => some []
  | _ => none

def refresh (st : St) (old : State) (op : Option Op) : St :=
  let s := st.srv
  let (devC, devDirty) := match op.bind touched with
    | some ids => (st.devC, ids ++ st.devDirty)
    | none => (s.devices.foldl (fun (c : Std.HashMap Nat String) p => c.insert p.1 (dev p.1 p.2)) {}, [])
  let histC := if s.history.length == st.histC.size && op.isSome then st.histC
    else if s.history.length == st.histC.size + 1 && op.isSome then
      match s.history.getLast? with | some w => st.histC.push (week w) | none => st.histC
    else (s.history.map week).toArray
  let (rrC, rrN) :=
    if op.isSome && s.recentR.length == old.recentR.length then (st.rrC, st.rrN)
    else if op.isSome && s.recentR.length == st.rrN + 1 && st.rrN == old.recentR.length then
      match s.recentR.getLast? with
      | some r => ((if st.rrN == 0 then "" else st.rrC ++ ",") ++ hexOfBytes (Report.encode r), st.rrN + 1)
      | none => (st.rrC, st.rrN)
    else (joinWith "," (s.recentR.map (fun r => hexOfBytes (Report.encode r))), s.recentR.length)
  { st with devC := devC, devDirty := devDirty, histC := histC, rrC := rrC, rrN := rrN }

/-- Render the devices an operation touched since the last snapshot. -/
def flushDev (st : St) : St :=
  if st.devDirty.isEmpty then st else
  let s := st.srv
  let devC := st.devDirty.eraseDups.foldl (fun (c : Std.HashMap Nat String) id => match FMap.get s.devices id with
      | some d => c.insert id (dev id d)
      | none => c.erase id) st.devC
  { st with devC := devC, devDirty := [] }

/-- Same text as `Canon.snapshot`, assembled from the caches. -/
def snapshotC (st : St) : String :=
  let s := st.srv
  let devs := (natSort (s.devices.map (·.1))).filterMap (fun id => st.devC.get? id)
  let short := sortStrings (s.shortIds.map (fun p => s!"{hx p.1}:{p.2}"))
  let migs := sortStrings (s.migs.map (fun p => s!"{hx p.1}:{hx (Migration.encode p.2)}"))
  joinWith "|" [
    s!"off={s.off}", s!"avail={if s.gcaAvail then 1 else 0}", s!"gca={hx s.gcaKey}",
    s!"bans={joinWith "," ((natSort s.bans).map toString)}",
    s!"devs={joinWith ";" devs}", s!"short={joinWith "," short}",
    s!"hist={joinWith "#" st.histC.toList}",
    s!"rr={st.rrC}",
    s!"ra={joinWith "," (s.recentA.map (fun a => hexOfBytes (Auth.encode a)))}",
    s!"servers={hx (AuthServer.encodeList s.servers)}", s!"migs={joinWith "," migs}",
    s!"dl={s.disk.auths.length},{s.disk.reports.length},{s.disk.weeks.length}"]

def handleSrvOp (st : St) (kind : String) (a : Args) (obs : String) : IO St := do
  match srvOp kind a with
  | none => report st kind "unparsable-op" obs
  | some op =>
    let missing := (needed st.srv op).filter (fun (k, m, sg) =>
      !(st.oracle.contains (hexOfBytes k ++ "|" ++ hexOfBytes m ++ "|" ++ hexOfBytes sg)))
    let st := if missing.isEmpty then st else { st with misses := st.misses + 1 }
    if !missing.isEmpty then
      IO.println s!"ORACLE-MISS line={st.lines} {kind}"
    let old := st.srv
    let (s1, o1) := step st.cfg (mkV st.oracle false) noSign st.srv op
    if obs == "CRASH" then
      -- the process died inside this operation after its file write: only the disk effect survives
      return refresh { st with srv := s1 } old (some op)
    if obs == "MAYBE" then
      -- the process was killed at an arbitrary instant inside this operation
      return refresh { st with srv := s1, alt := some old } old (some op)
    let st := refresh { st with srv := s1 } old (some op)
    -- observed: "<out>" optionally followed by " #<hash of snapshot after the op>"
    let (obsOut, obsHash) := match obs.splitOn " #" with
      | [x, h] => (x, some ("#" ++ h))
      | _ => (obs, none)
    let mOut := out o1
    -- "?": the output of an operation that ran inside a parallel burst is not known individually
    let st ← if obsOut == "?" || sameObs mOut obsOut then pure st else report st kind mOut obsOut
    match obsHash with
    | none => return st
    | some h =>
      let st := flushDev st
      let m := snapshotC st
      if sameObs m h then return st else report st (kind ++ ":state-after") ("#" ++ hex64 (fnv64 m)) h


def handleSrv (st : St) (kind : String) (a : Args) (obs : String) : IO St := do
  match kind with
  | "srv.cfg" =>
    return { st with cfg := { maxRecent := argNat a "maxRecent", maxRecentAuth := argNat a "maxRecentAuth" } }
  | "srv.boot" =>
    -- a first start on the installed directory; `srv.seedweek` lines before it put archived weeks there
    -- (`boot` is `load` on the empty disk, which is what `st.srv.disk` is when no week was seeded)
    let r := load st.cfg (mkV st.oracle false) noSign st.srv.disk (argHex a "temp") (argHex a "fresh") (argNat a "now")
    match r with
    | some s =>
      let st := refresh { st with srv := s, srvUp := true } {} none
      if obs != "ok" then report st kind "ok" obs else return st
    | none => if obs != "fail" then report st kind "fail" obs else return st
  | "srv.seedweek" =>
    -- the directory was installed with a statistics history already in it (a server that has been running
    -- for years): one archived week without devices; the window then starts 2016 slots after it
    let w : Week := { devs := [], tso := argNat a "tso", sig := zeros 64 }
    return { st with srv := { st.srv with disk := { st.srv.disk with weeks := st.srv.disk.weeks ++ [w] } } }
  | "srv.damage" =>
    -- the medium flipped one bit of a stored record (the process is down). The record-level disk of the
    -- model changes accordingly; what a start makes of it is the model's `load`
    let d := st.srv.disk
    let bit := argNat a "bit"
    let flip (bs : Bytes) : Bytes := bs.zipIdx.map (fun (x, i) => if i == bit / 8 then x ^^^ ((1 : UInt8) <<< UInt8.ofNat (bit % 8)) else x)
    let idx := argNat a "idx"
    let d' := if arg a "file" == "auths" then
        match d.auths[idx]? with
        | some r => match Auth.decode (flip (Auth.encode r)) with
          | some r' => { d with auths := d.auths.set idx r' }
          | none => d
        | none => d
      else
        match d.reports[idx]? with
        | some r => match Report.decode (flip (Report.encode r)) with
          | some r' => { d with reports := d.reports.set idx r' }
          | none => d
        | none => d
    return { st with srv := { st.srv with disk := d' } }
  | "srv.startfault" =>
    -- a file of the directory could not be read when the server was started (an I/O error, not "no such
    -- file"): the start has to fail - a server that comes up without what it could not read has forgotten
    -- facts it had accepted - and nothing is changed by the attempt
    if obs == "fail" then return st else report st kind "fail" obs
  | "srv.tear" =>
    -- a crash left the directory in a torn state (the process is gone: only the disk matters)
    let d := st.srv.disk
    -- kind=bytes: a log ends inside a record (an append cut short by a kill). The partial record belongs to
    -- no completed operation; a start drops it (repair F25), so the record-level disk of the model is unchanged
    if arg a "kind" == "bytes" then return st
    let d' := if arg a "kind" == "gca" then { d with gcaKey := some [] }
              else { d with reports := d.reports.take (argNat a "n") }
    return { st with srv := { st.srv with disk := d' } }
  | "srv.restart" =>
    match st.alt with
      | none => handleSrvOp st kind a obs
      | some altS =>
        -- try "the write happened", then "it did not"; report (against the first) only if neither explains the start
        let base := { st with alt := none }
        let a1 ← handleSrvOp { base with quiet := true } kind a obs
        if a1.mism == st.mism then return { a1 with quiet := false } else
        let st2 := refresh { base with srv := altS } altS none
        let a2 ← handleSrvOp { st2 with quiet := true } kind a obs
        if a2.mism == st.mism then return { a2 with quiet := false } else
        handleSrvOp base kind a obs
  | "srv.snap" =>
    let st := flushDev st
    let m := snapshotC st
    if sameObs m obs then return st else report st kind m obs
  | "srv.disk" =>
    let m := disk st.srv.disk
    if sameObs m obs then return st else report st kind m obs
  | "srv.recent" =>
    let m := match recentQuery st.srv (argHex a "key") with
      | none => "refused"
      | some (reps, off) => s!"off={off} reports={sparse reps isBlank (fun r => hexOfBytes (Report.encode r))}"
    if sameObs m obs then return st else report st kind m obs
  | "srv.http" =>
    -- a request no handler can accept (wrong method, unparsable query or body, empty structure): it must
    -- be answered (a handler panic shows as a transport error) and leave the state as it was
    let (obsOut, obsHash) := match obs.splitOn " #" with
      | [x, h] => (x, some ("#" ++ h))
      | _ => (obs, none)
    let st ← if obsOut == "answered" then pure st else report st kind "answered" obsOut
    match obsHash with
    | none => return st
    | some h =>
      let st := flushDev st
      let m := snapshotC st
      if sameObs m h then return st else report st (kind ++ ":state-after") ("#" ++ hex64 (fnv64 m)) h
  | "srv.tcpshort" | "srv.noeffect" =>
    -- tcpshort: fewer than the four request bytes, then end of stream: nothing is answered, nothing changes.
    -- noeffect: an order whose persistence step was made to fail (the key file could not be written):
    -- it has to be refused and nothing may change, in memory or on disk.
    let want := if kind == "srv.tcpshort" then "empty" else "refused"
    let (obsOut, obsHash) := match obs.splitOn " #" with
      | [x, h] => (x, some ("#" ++ h))
      | _ => (obs, none)
    let st ← if obsOut == want then pure st else report st kind want obsOut
    match obsHash with
    | none => return st
    | some h =>
      let st := flushDev st
      let m := snapshotC st
      if sameObs m h then return st else report st (kind ++ ":state-after") ("#" ++ hex64 (fnv64 m)) h
  | "srv.shutdown" =>
    -- idle or half-sent connections were open on the sync port when the server was stopped
    if obs == "ok" then return st else report st kind "ok" obs
  | "srv.parcheck" =>
    if obs == "ok" then return st else report st kind "ok" obs
  | "srv.servers" =>
    let m := hx (AuthServer.encodeList st.srv.servers)
    if sameObs m obs then return st else report st kind m obs
  | "srv.equipment" =>
    let eq := equipmentQuery st.srv
    let m := joinWith ";" ((natSort (eq.map (·.1))).filterMap (fun id =>
      (eq.find? (fun p => p.1 == id)).map (fun p => s!"{id}:{hexOfBytes (Auth.encode p.2)}")))
    if sameObs m obs then return st else report st kind m obs
  | _ => handleSrvOp st kind a obs

/-! Small stateless families -/

def parseSparse (s : String) (n : Nat) : List Nat :=
  let pairs := (s.splitOn ",").filterMap (fun e => match e.splitOn "." with
    | [i, v] => match i.toNat?, v.toNat? with
      | some i, some v => some (i, v)
      | _, _ => none
    | _ => none)
  let arr := pairs.foldl (fun (acc : Array Nat) (i, v) => acc.setIfInBounds i v) (Array.replicate n 0)
  arr.toList

def parseWeek (a : Args) : Week :=
  let devs := ((arg a "devs").splitOn ";").filterMap (fun d => match d.splitOn ":" with
    | [k, ps, is] => some (⟨(bytesOfHex k).getD [], parseSparse ps weekSlots, parseSparse is weekSlots⟩ : Gca.Dev)
    | _ => none)
  ⟨devs, argNat a "tso", argHex a "sig"⟩

def optNat : Option Nat → String | none => "none" | some n => toString n

def handlePure (st : St) (kind : String) (a : Args) (obs : String) : IO St := do
  let chk (m : String) : IO St := if m == obs then pure st else report st kind m obs
  match kind with
  | "ts.toslot" => chk (optNat (TS.toSlot (argInt a "g") (argInt a "t")))
  | "ts.tounix" => chk (toString (TS.toUnix (argInt a "g") (argNat a "s")))
  | "ts.now" =>
    -- the production clock: the current timeslot, read between two readings of the system clock
    let g := argInt a "g"
    (match TS.toSlot g (argInt a "lo"), TS.toSlot g (argInt a "hi"), obs.toNat? with
      | some lo, some hi, some cur => if lo ≤ cur && cur ≤ hi then pure st else report st kind s!"{lo}..{hi}" obs
      | _, _, _ => report st kind "a timeslot" obs)
  | "ts.cadence" =>
    chk (if TS.cadenceSafe (argInt a "trig") (TS.slotsOfNs (argInt a "per_ns")) (argInt a "half") (argInt a "win") (argInt a "shift")
         then "ok" else "unsafe")
  | "ts.window" => chk (if decide (TS.inWindow (argInt a "ts") (argInt a "now")) then "in" else "out")
  | "codec.report.enc" =>
    chk (hx (Report.encode ⟨argNat a "id", argNat a "ts", argNat a "p", argHex a "sig"⟩))
  | "codec.report.sb" =>
    chk (hx (Report.signingBytes ⟨argNat a "id", argNat a "ts", argNat a "p", []⟩))
  | "codec.report.dec" =>
    chk (match Report.decode (argHex a "b") with
      | none => "none"
      | some r => s!"{r.id} {r.ts} {r.p} {hx r.sig}")
  | "codec.auth.dec" =>
    chk (match Auth.decode (argHex a "b") with
      | none => "none"
      | some x => s!"{x.id} {hx x.key} {x.lat} {x.lon} {x.cap} {x.debt} {x.exp} {x.ini} {x.fee} {hx x.sig}")
  | "codec.auth.enc" =>
    let x : Auth := ⟨argNat a "id", argHex a "key", argNat a "lat", argNat a "lon", argNat a "cap",
                     argNat a "debt", argNat a "exp", argNat a "ini", argNat a "fee", argHex a "sig"⟩
    chk (s!"{hx (Auth.encode x)} {hx (Auth.signingBytes x)}")
  | "codec.as.enc" =>
    let x : AuthServer := ⟨argHex a "key", arg a "banned" == "1", argHex a "loc", argNat a "http",
                           argNat a "tcp", argNat a "udp", argHex a "sig"⟩
    chk (s!"{hx (AuthServer.encode x)} {hx (AuthServer.signingBytes x)}")
  | "codec.as.declist" =>
    chk (match AuthServer.decodeList (argHex a "b").length (argHex a "b") with
      | none => "none"
      | some l => joinWith ";" (l.map (fun x =>
          s!"{hx x.key},{if x.banned then 1 else 0},{hx x.loc},{x.http},{x.tcp},{x.udp},{hx x.sig}")))
  | "codec.mig.enc" =>
    let m := parseMigration a
    chk (s!"{hx (Migration.encode m)} {hx (Migration.signingBytes m)}")
  | "codec.reg.sb" => chk (hx (Registration.signingBytes (argHex a "key")))
  | "codec.smap.dec" =>
    -- the Go decoder builds a map: later entries overwrite earlier ones; compared sorted by key
    chk (match CServer.decodeMap (argHex a "b").length (argHex a "b") with
      | none => "none"
      | some l =>
        let m : FMap Bytes CServer := l.foldl (fun acc e => FMap.set acc e.1 e.2) []
        joinWith ";" (sortStrings (m.map (fun e =>
          s!"{hx e.1},{if e.2.banned then 1 else 0},{hx e.2.loc},{e.2.http},{e.2.tcp},{e.2.udp}"))))
  | "codec.week.enc" =>
    let w := parseWeek a
    chk (s!"{hex64 (fnv64 (hx (Week.encode w)))} {hex64 (fnv64 (hx (Week.signingBytes w)))}")
  | "codec.stream.dec" =>
    let b := argHex a "b"
    chk (match decodeStream (b.length / 68 + 1) b with
      | none => "none"
      | some ws => joinWith "#" (ws.map (fun w => week w ++ "/" ++ hx w.sig)))
  | "crypto.check" => chk "ok"
  -- property oracles evaluated on the implementation side (archives re-verified with the real decoders)
  | "c14.archive" => chk "ok"
  | "c14.rate" => chk "ok"
  | "c08.check" => chk "ok"
  -- the real reporting loop against a server that accepts every connection and never answers: the rounds
  -- it holds must not keep later rounds from starting (schedule: `c11_retry_after_failure`)
  | "c11.check" => chk "ok"
  | "c05.crash" => chk "ok"
  | "codec.smap.enc1" =>
    let e : CEntry := (argHex a "key", ⟨arg a "banned" == "1", argHex a "loc", argNat a "http", argNat a "tcp", argNat a "udp"⟩)
    chk (match CServer.encodeMap [e] with | none => "none" | some b => hx b)
  | _ => report st kind "unknown-line-kind" obs

/-! Event log and rate limiter -/

def elCanon (l : EL.Log) : String :=
  let es := sortStrings (l.entries.map (fun e => s!"{hx e.line}:{joinWith "," (e.ups.map toString)}"))
  s!"size={l.size};" ++ joinWith ";" es

def handleEL (st : St) (kind : String) (a : Args) (obs : String) : IO St := do
  match kind with
  | "el.new" =>
    return { st with el := some (EL.init (argInt a "expiry") (argNat a "maxB") (argNat a "maxLine")) }
  | _ =>
    match st.el with
    | none => report st kind "no-logger" obs
    | some l =>
      let r : Option EL.Log := match kind with
        | "el.printf" => EL.printf l (argInt a "now") (argHex a "line")
        | "el.expire" => some (EL.expire l (argInt a "now"))
        | "el.dump" => (EL.dump l (argInt a "now")).map (·.1)
        | _ => none
      match r with
      | none =>
        let st := { st with el := none }
        if obs == "PANIC" then return st else report st kind "PANIC" obs
      | some l' =>
        let st := { st with el := some l' }
        -- dump additionally carries the order; ties in last-update make it ambiguous, then only the set is compared
        if kind == "el.dump" then
          match EL.dump l (argInt a "now") with
          | some (_, order) =>
            let lasts := l'.entries.filterMap (fun e => e.ups.getLast?)
            let tie := lasts.length != lasts.eraseDups.length
            let m := elCanon l' ++ " order=" ++ (if tie then "tie" else joinWith "," (order.map hx))
            let obs' := if tie then (obs.splitOn " order=").head! ++ " order=tie" else obs
            if m == obs' then return st else report st kind m obs'
          | none => report st kind "PANIC" obs
        else
          let m := elCanon l'
          if m == obs then return st else report st kind m obs

def handleRL (st : St) (kind : String) (a : Args) (obs : String) : IO St := do
  match kind with
  | "rl.new" => return { st with rl := RL.init (argInt a "limit") (argInt a "rate") }
  | "rl.allow" =>
    let (s', b) := RL.allow st.rl (argInt a "now")
    let st := { st with rl := s' }
    let m := (if b then "1" else "0") ++ " reqs=" ++ joinWith "," (s'.reqs.map toString)
    if m == obs then return st else report st kind m obs
  | "rl.judge" =>
    -- concurrent callers: the conclusion of the C19 theorems is evaluated on the implementation's
    -- admissions (exact times) and rejections (caller-side intervals; only certain violations count)
    let limit := argInt a "limit"
    let rate := argInt a "rate"
    let adm := ((arg a "adm").splitOn ",").filterMap String.toInt?
    let rej := ((arg a "rej").splitOn ",").filterMap (fun s => match s.splitOn ":" with
      | [b, e] => match b.toInt?, e.toInt? with
        | some b, some e => some (b, e)
        | _, _ => none
      | _ => none)
    let ivs (s : String) : List (Int × Int) := (s.splitOn ",").filterMap (fun s => match s.splitOn ":" with
      | [b, e] => match b.toInt?, e.toInt? with
        | some b, some e => some (b, e)
        | _, _ => none
      | _ => none)
    let admi := ivs (arg a "admi")
    let bound := adm.all (fun t => decide ((RL.countIn adm (t - rate) t : Int) ≤ max limit 0))
    -- a rejected call has seen `limit` admissions inside its window; every admitted call whose caller-side
    -- interval reaches into (b - rate, e] is counted, so too few of them is a certain violation
    let starved := rej.any (fun (b, e) => decide (((admi.filter (fun (ab, ae) => b - rate < ae ∧ ab ≤ e)).length : Int) < limit))
    let m := if !bound then "BOUND-EXCEEDED" else if starved then "STARVED" else "ok"
    -- the conclusions of the C19 theorems must hold of what the implementation did, and the harness
    -- (which evaluates the same two conditions in Go) must agree
    if m == "ok" && obs == "ok" then return st else report st kind "ok" (if m == "ok" then obs else m ++ " / " ++ obs)
  | _ => report st kind "unknown-line-kind" obs

/-! Client: history store, calibration, energy rows -/

def histCanon (h : Cl.Hist) : String := s!"origin={h.origin} slots={joinWith "," (h.slots.map toString)}"

def optTok (s : String) : Option (Option Nat) :=
  if s == "absent" then none else if s == "none" then some none else some s.toNat?

/-- amd64 `uint64(float64)` for values whose truncation fits 64 signed bits; `none` otherwise. -/
def f2u (x : Float) : Option Nat :=
  if x.isNaN || x.abs >= 9223372036854775808.0 then none
  else if x >= 0 then some x.toUInt64.toNat
  else some ((18446744073709551616 - (0 - x).toUInt64.toNat) % 18446744073709551616)

def parseCServers (s : String) : FMap Bytes CServer :=
  (s.splitOn ";").filterMap (fun e => match e.splitOn "," with
    | [k, b, loc, h, t, u] => some ((bytesOfHex k).getD [], (⟨b == "1", (bytesOfHex loc).getD [], h.toNat!, t.toNat!, u.toNat!⟩ : CServer))
    | _ => none)

def canonCServers (m : FMap Bytes CServer) : String :=
  joinWith ";" (sortStrings (m.map (fun e =>
    s!"{hx e.1},{if e.2.banned then 1 else 0},{hx e.2.loc},{e.2.http},{e.2.tcp},{e.2.udp}")))

def parseRecs (s : String) : List Cl.Record :=
  (if s.isEmpty then [] else s.splitOn ",").filterMap (fun e => match e.splitOn "." with
    | [t, v] => match t.toNat?, v.toNat? with
      | some t, some v => some ⟨t, v⟩
      | _, _ => none
    | _ => none)

def handleCl (st : St) (kind : String) (a : Args) (obs : String) : IO St := do
  match kind with
  | "cl.loop.start" =>
    -- client (re)start: every record of the file is saved, nothing is sent
    let (h, l) := Cl.startup st.hist (parseRecs (arg a "recs"))
    return { st with hist := h, latest := l }
  | "cl.loop.iter" =>
    -- the harness waits several loop iterations after each file edit: the sends of the first iteration
    -- on the new content are all there is (later iterations send nothing new)
    let recs := parseRecs (arg a "recs")
    let (h, l, sent) := Cl.loopIter st.hist st.latest recs
    let (h2, l2, sent2) := Cl.loopIter h l recs
    let st := { st with hist := h2, latest := l2 }
    let m := s!"{joinWith "," ((sent ++ sent2).map (fun r => s!"{r.ts}.{r.energy}"))} {histCanon h2}"
    if m == obs then return st else report st kind m obs
  | "cl.client.new" =>
    let sv := parseCServers (arg a "servers")
    return { st with cl := some { pubKey := argHex a "ck", gcaKey := argHex a "gk", shortId := argNat a "id", servers := sv,
                                   primary := [], hist := st.hist, diskServers := sv, diskGCA := argHex a "gk",
                                   diskShortId := argNat a "id" } }
  | "cl.round" =>
    match st.cl with
    | none => report st kind "no-client" obs
    | some c =>
      let c := { c with hist := st.hist }
      let V : Cl.Verify := fun k m sg => (st.oracle.get? (hexOfBytes k ++ "|" ++ hexOfBytes m ++ "|" ++ hexOfBytes sg)).getD false
      let now := argNat a "now"
      let choices : List (Bytes × Cl.Attempt) := (if (arg a "choices").isEmpty then [] else (arg a "choices").splitOn ";").filterMap (fun ch =>
        match ch.splitOn ":" with
        | [k, "fail"] => some ((bytesOfHex k).getD [], Cl.Attempt.fail)
        | [k, "ok", stream] =>
          let key := (bytesOfHex k).getD []
          let r := (Cl.readFramed ((bytesOfHex stream).getD [])).bind (fun resp => Cl.parseReply V c.pubKey c.gcaKey key now resp)
          some (key, match r with | some p => Cl.Attempt.ok p | none => Cl.Attempt.fail)
        | _ => none)
      let (c', out) := Cl.syncRound c choices
      let st := { st with cl := some c' }
      let latest := argNat a "latest"
      -- readfault=1: every read of the history store failed during this round (I/O error): a slot that cannot
      -- be read is skipped, so nothing is retransmitted
      let (res, resent) := match out with
        | .synced p _ => ("synced", if argNat a "readfault" == 1 then [] else Cl.resend c'.hist latest p.off p.bits)
        | .badChoice => ("BADCHOICE", [])
        | _ => ("failed", [])
      let disk := s!"gca={hx c'.diskGCA} id={c'.diskShortId} servers={canonCServers c'.diskServers}"
      let m := s!"{res} lockfree=1 sigs=true gk={hx c'.gcaKey} id={c'.shortId} servers={canonCServers c'.servers} disk=[{disk}] resent={joinWith "," (resent.map (fun r => s!"{r.ts}.{r.energy}"))}"
      -- the server the client reports to from now on: after a round that synced it is the server that
      -- answered (attempts that never reached a listener are not in `choices`, so nothing is said about
      -- the primary server after a round that failed)
      let (obs, prim) := match obs.splitOn " primary=" with
        | [x, p] => (x, some p)
        | _ => (obs, none)
      let st ← if m == obs then pure st else report st kind m obs
      match prim, out with
      | some p, .synced _ via => if hx via == p then return st else report st (kind ++ ":primary") (hx via) p
      | some p, .badChoice => let _ := p; return st
      | some p, _ =>
        -- a round that failed: if anything was eligible when it started it made an attempt, and every attempt
        -- points the client at a server that is known and not banned (c11_primary_after_attempt); giving up
        -- does not fall back to anything else
        if c.servers.any (fun e => Cl.eligible c [] e.1) then
          match c.servers.find? (fun e => hx e.1 == p) with
          | some e => if e.2.banned then report st (kind ++ ":primary") "a server that is not banned" (p ++ " (banned)") else return st
          | none => report st (kind ++ ":primary") "a known server" p
        else return st
      | _, _ => return st
  | "cl.round.begin" =>
    -- a round starts and is held inside its first attempt(s), all of which will fail
    match st.cl with
    | none => report st kind "no-client" obs
    | some c =>
      let keys := ((arg a "choices").splitOn ";").filterMap (fun ch => match ch.splitOn ":" with
        | [k, "fail"] => (bytesOfHex k)
        | _ => none)
      let (c', out) := Cl.attempts c 5 [] (keys.map (fun k => (k, Cl.Attempt.fail)))
      -- the round reads the GCA key once, when it starts, and checks every reply of the round against that key
      let st := { st with cl := some c', clPend := some (5 - keys.length, keys.reverse, c.gcaKey) }
      match out with
      | .badChoice => report st kind "eligible-choice" "BADCHOICE"
      | _ => return st
  | "cl.round.end" =>
    -- the held round goes on: it decides with the client's CURRENT knowledge (another round may have
    -- adopted a reply meanwhile) and with the servers it has itself seen fail
    match st.cl, st.clPend with
    | some c, some (n, failed, gk0) =>
      let c := { c with hist := st.hist }
      let V : Cl.Verify := fun k m sg => (st.oracle.get? (hexOfBytes k ++ "|" ++ hexOfBytes m ++ "|" ++ hexOfBytes sg)).getD false
      let now := argNat a "now"
      let choices : List (Bytes × Cl.Attempt) := (if (arg a "choices").isEmpty then [] else (arg a "choices").splitOn ";").filterMap (fun ch =>
        match ch.splitOn ":" with
        | [k, "fail"] => some ((bytesOfHex k).getD [], Cl.Attempt.fail)
        | [k, "ok", stream] =>
          let key := (bytesOfHex k).getD []
          let r := (Cl.readFramed ((bytesOfHex stream).getD [])).bind (fun resp => Cl.parseReply V c.pubKey gk0 key now resp)
          some (key, match r with | some p => Cl.Attempt.ok p | none => Cl.Attempt.fail)
        | _ => none)
      let (c', out) := match Cl.attempts c n failed choices with
        | (c1, .synced p k) => (Cl.adopt c1 p, Cl.RoundOut.synced p k)
        | r => r
      let st := { st with cl := some c', clPend := none }
      let latest := argNat a "latest"
      let (res, resent) := match out with
        | .synced p _ => ("synced", Cl.resend c'.hist latest p.off p.bits)
        | .badChoice => ("BADCHOICE", [])
        | _ => ("failed", [])
      let disk := s!"gca={hx c'.diskGCA} id={c'.diskShortId} servers={canonCServers c'.diskServers}"
      let m := s!"{res} lockfree=1 sigs=true gk={hx c'.gcaKey} id={c'.shortId} servers={canonCServers c'.servers} disk=[{disk}] resent={joinWith "," (resent.map (fun r => s!"{r.ts}.{r.energy}"))}"
      -- the server the client reports to from now on: after a round that synced it is the server that
      -- answered (attempts that never reached a listener are not in `choices`, so nothing is said about
      -- the primary server after a round that failed)
      let (obs, prim) := match obs.splitOn " primary=" with
        | [x, p] => (x, some p)
        | _ => (obs, none)
      let st ← if m == obs then pure st else report st kind m obs
      match prim, out with
      | some p, .synced _ via => if hx via == p then return st else report st (kind ++ ":primary") (hx via) p
      | _, _ => return st
    | _, _ => report st kind "no-held-round" obs
  | "cl.restart" =>
    match st.cl with
    | none => report st kind "no-client" obs
    | some c =>
      let c' := { c with gcaKey := c.diskGCA, shortId := c.diskShortId, servers := c.diskServers, primary := [] }
      let st := { st with cl := some c' }
      let m := s!"gk={hx c'.gcaKey} id={c'.shortId} servers={canonCServers c'.servers}"
      if m == obs then return st else report st kind m obs
  | "cl.hist.new" => return { st with hist := ⟨argNat a "origin", []⟩ }
  | "cl.hist.save" =>
    match st.hist.save (argNat a "ts") (argNat a "v") with
    | none =>
      let m := "err " ++ histCanon st.hist
      if m == obs then return st else report st kind m obs
    | some h' =>
      let st := { st with hist := h' }
      let m := "ok " ++ histCanon h'
      if m == obs then return st else report st kind m obs
  | "cl.hist.readfault" =>
    -- reads of the history file fail (I/O error), writes would succeed: where the store has to look at
    -- the file (slot inside the range) both operations report the error and the file stays as it is;
    -- before the origin a load answers 0 without reading, and a save is refused by the range guard
    let ts := argNat a "ts"
    let loadOk := decide (ts < st.hist.origin)
    let m := s!"save=false load={loadOk} " ++ histCanon st.hist
    if m == obs then return st else report st kind m obs
  | "cl.hist.writefault" =>
    -- writes of the history file fail, reads work: the save succeeds only when it has nothing to write (the
    -- slot already holds exactly this value); in every other case it reports an error and the file stays
    let ts := argNat a "ts"; let v := argNat a "v"
    let ok := match st.hist.load ts with
      | some cur => decide (st.hist.origin ≤ ts) && cur == v && (st.hist.save ts v).isSome
      | none => false
    let m := s!"save={ok} " ++ histCanon st.hist
    if m == obs then return st else report st kind m obs
  | "cl.hist.load" =>
    let m := match st.hist.load (argNat a "ts") with | none => "err" | some v => toString v
    if m == obs then return st else report st kind m obs
  | "cl.hist.probe" =>
    -- range guards on an empty store (the slot list is not materialised)
    let origin := argNat a "origin"; let ts := argNat a "ts"
    let inRange := decide (origin ≤ ts ∧ ts - origin < Cl.maxHistorySlots)
    let m := s!"save={inRange} load={decide (ts < origin) || inRange} origin-slot=0"
    if m == obs then return st else report st kind m obs
  | "cl.ct" =>
    let r := Cl.readCT (arg a "present" == "1") (optTok (arg a "l1")) (optTok (arg a "l2")) (argNat a "dm", argNat a "dd")
    let m := match r with | none => "error" | some (x, y) => s!"{x} {y}"
    if m == obs then return st else report st kind m obs
  | "cl.reply" =>
    -- the bytes the fake server wrote: 2-byte length prefix, then the reply
    let stream := argHex a "resp"
    let V : Cl.Verify := fun k m sg => (st.oracle.get? (hexOfBytes k ++ "|" ++ hexOfBytes m ++ "|" ++ hexOfBytes sg)).getD false
    let r := (Cl.readFramed stream).bind (fun resp =>
      Cl.parseReply V (argHex a "ck") (argHex a "gk") (argHex a "sk") (argNat a "now") resp)
    let m := match r with
      | none => "err"
      | some p => s!"off={p.off} bits={hx p.bits} newgca={hx p.newGCA} newid={p.newId} servers={hx (AuthServer.encodeList p.servers)}"
    if m == obs then return st else report st kind m obs
  | "cl.energy" =>
    let mult := Float.ofBits (UInt64.ofNat (argNat a "mult"))
    let dv := Float.ofBits (UInt64.ofNat (argNat a "div"))
    -- rows: <nfields>:<ts|none>:<float bits|none>; the float part of the rule is evaluated with hardware doubles
    let rows := ((arg a "rows").splitOn ";").filterMap (fun r => match r.splitOn ":" with
      | [nf, ts, x] =>
        let reading : Option Cl.Reading := match x.toNat? with
          | none => some .unparsable
          | some bits =>
            let xf := Float.ofBits (UInt64.ofNat bits)
            if xf > -24.0 && xf < 24.0 then some .small
            else (f2u (mult * xf / dv)).map .scaled
        some ((⟨nf.toNat!, ts.toInt?, reading.getD (.scaled 0)⟩ : Cl.Row), reading.isNone)
      | _ => none)
    let recs := rows.filterMap (fun (r, unspec) => (Cl.rowRecord (argInt a "g") r).map (fun rc => (rc, unspec)))
    -- records whose scaled value does not fit 64 signed bits are compared by position only
    let obsL := if obs.isEmpty then [] else obs.splitOn ","
    let mL := recs.map (fun (rc, unspec) => if unspec then s!"{rc.ts}.*" else s!"{rc.ts}.{rc.energy}")
    let same := mL.length == obsL.length && (mL.zip obsL).all (fun (m, o) =>
      if m.endsWith ".*" then (o.splitOn ".").head? == (m.splitOn ".").head? else m == o)
    if same then return st else report st kind (joinWith "," mL) obs
  | _ => report st kind "unknown-line-kind" obs

def handleLine (st : St) (line : String) : IO St := do
  let st := { st with lines := st.lines + 1 }
  let line := line.trimAscii.toString
  if line.isEmpty || line.startsWith "# " then return st
  if line.startsWith "v " then
    match line.splitOn " " with
    | [_, k, m, s, b] => return { st with oracle := st.oracle.insert (k ++ "|" ++ m ++ "|" ++ s) (b == "1") }
    | _ => report st "v" "bad-oracle-row" line
  else
    let (lhs, obs) := match line.splitOn " => " with
      | [l, r] => (l, r)
      | l :: rest => (l, " => ".intercalate rest)
      | [] => ("", "")
    match lhs.splitOn " " with
    | [] => return st
    | kind :: toks =>
      let a := parseArgs toks
      if kind == "scenario" then
        return { st with oracle := {}, srv := {}, srvUp := false, el := none }
      else if kind.startsWith "srv." then handleSrv st kind a obs
      else if kind.startsWith "el." then handleEL st kind a obs
      else if kind.startsWith "rl." then handleRL st kind a obs
      else if kind.startsWith "cl." then handleCl st kind a obs
      else handlePure st kind a obs

partial def loop (h : IO.FS.Stream) (st : St) : IO St := do
  let line ← h.getLine
  if line.isEmpty then return st
  let st ← handleLine st line
  loop h st

def main : IO UInt32 := do
  let st ← loop (← IO.getStdin) {}
  IO.println s!"DONE lines={st.lines} mismatches={st.mism} oracle_misses={st.misses}"
  return (if st.mism == 0 && st.misses == 0 then 0 else 1)

end Gca.Driver
