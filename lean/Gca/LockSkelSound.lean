import Gca.LockSkel
/-
Soundness of the lock-skeleton checker, once and for all programs.
-/
namespace Gca.Lock

/-! ### Helper definitions: the two folds of `flowP`, named -/

/-- An outcome is accounted for by an abstract result. -/
def Good (o : Out) (r : Res) : Prop :=
  o ≠ .bad ∧ (∀ s', o = .norm s' → s' ∈ r.norm) ∧ (∀ s', o = .brk s' → s' ∈ r.brk) ∧
    (∀ s', o = .cont s' → s' ∈ r.cont)

def Res.le (a b : Res) : Prop :=
  (∀ s, s ∈ a.norm → s ∈ b.norm) ∧ (∀ s, s ∈ a.brk → s ∈ b.brk) ∧ (∀ s, s ∈ a.cont → s ∈ b.cont)

theorem Res.le_refl (a : Res) : a.le a := ⟨fun _ h => h, fun _ h => h, fun _ h => h⟩

theorem Res.le_trans {a b c : Res} (h1 : a.le b) (h2 : b.le c) : a.le c :=
  ⟨fun s h => h2.1 s (h1.1 s h), fun s h => h2.2.1 s (h1.2.1 s h), fun s h => h2.2.2 s (h1.2.2 s h)⟩

theorem Res.le_merge_left (a b : Res) : a.le (a.merge b) := by
  refine ⟨?_, ?_, ?_⟩ <;> intro s h <;> simp [Res.merge, h]

theorem Res.le_merge_right (a b : Res) : b.le (a.merge b) := by
  refine ⟨?_, ?_, ?_⟩ <;> intro s h <;> simp [Res.merge, h]

theorem Good.mono {o : Out} {a b : Res} (h : Good o a) (hab : a.le b) : Good o b :=
  ⟨h.1, fun s e => hab.1 s (h.2.1 s e), fun s e => hab.2.1 s (h.2.2.1 s e),
    fun s e => hab.2.2 s (h.2.2.2 s e)⟩

/-- The inner fold function of `flowP`. -/
def innerF (f : St → Option Res) (a : Option Res) (s1 : St) : Option Res :=
  match a, f s1 with
  | some a, some b => some (a.merge b)
  | _, _ => none

/-- The outer fold function of `flowP`. -/
def outerG (fuel : Nat) (acc : Option Res) (x : Stmt) : Option Res :=
  match acc with
  | none => none
  | some r =>
    match r.norm.foldl (innerF (flowS fuel x)) (some {}) with
    | none => none
    | some r' => some { norm := r'.norm, brk := r.brk ++ r'.brk, cont := r.cont ++ r'.cont }

theorem flowP_eq (fuel : Nat) (p : List Stmt) (s : St) :
    flowP fuel p s = p.foldl (outerG fuel) (some { norm := [s] }) := rfl

theorem flowS_ite (fuel : Nat) (a b : List Stmt) (s : St) :
    flowS (fuel+1) (.ite a b) s = (match flowP fuel a s, flowP fuel b s with
      | some ra, some rb => some (ra.merge rb)
      | _, _ => none) := rfl

theorem flowS_loop (fuel : Nat) (body : List Stmt) (s : St) :
    flowS (fuel+1) (.loop body) s = (match flowP fuel body s with
      | none => none
      | some r =>
        if r.norm.all (· = s) && r.cont.all (· = s) then some { norm := s :: r.brk } else none) := rfl

theorem inner_none (f : St → Option Res) (l : List St) : l.foldl (innerF f) none = none := by
  induction l with
  | nil => rfl
  | cons x xs ih => simpa [List.foldl, innerF] using ih

theorem inner_some (f : St → Option Res) (l : List St) : ∀ (a r : Res),
    l.foldl (innerF f) (some a) = some r →
    a.le r ∧ ∀ s1, s1 ∈ l → ∃ b, f s1 = some b ∧ b.le r := by
  induction l with
  | nil =>
    intro a r h
    simp at h
    subst h
    exact ⟨Res.le_refl _, by simp⟩
  | cons x xs ih =>
    intro a r h
    rw [List.foldl_cons] at h
    cases hf : f x with
    | none =>
      have : innerF f (some a) x = none := by simp [innerF, hf]
      rw [this, inner_none] at h
      cases h
    | some b =>
      have : innerF f (some a) x = some (a.merge b) := by simp [innerF, hf]
      rw [this] at h
      obtain ⟨h1, h2⟩ := ih _ _ h
      refine ⟨Res.le_trans (Res.le_merge_left a b) h1, ?_⟩
      intro s1 hs1
      rcases List.mem_cons.mp hs1 with e | e
      · subst e
        exact ⟨b, hf, Res.le_trans (Res.le_merge_right a b) h1⟩
      · exact h2 s1 e

theorem outer_none (fuel : Nat) (l : List Stmt) : l.foldl (outerG fuel) none = none := by
  induction l with
  | nil => rfl
  | cons x xs ih => simpa [List.foldl, outerG] using ih

/-- Soundness of `flowS` at a given fuel. -/
def PS (fuel : Nat) : Prop :=
  ∀ x s r, flowS fuel x s = some r → ∀ o, RunS x s o → Good o r

/-- Block soundness, generalised over the accumulator of the outer fold. -/
theorem outer_sound (fuel : Nat) (hP : PS fuel) (xs : List Stmt) : ∀ (acc r : Res),
    xs.foldl (outerG fuel) (some acc) = some r →
    (∀ s, s ∈ acc.brk → s ∈ r.brk) ∧ (∀ s, s ∈ acc.cont → s ∈ r.cont) ∧
    ∀ s, s ∈ acc.norm → ∀ o, RunP xs s o → Good o r := by
  induction xs with
  | nil =>
    intro acc r h
    simp at h
    subst h
    refine ⟨fun _ h => h, fun _ h => h, ?_⟩
    intro s hs o hr
    cases hr
    refine ⟨by simp, ?_, by simp, by simp⟩
    intro s' e
    cases e
    exact hs
  | cons x xs ih =>
    intro acc r h
    rw [List.foldl_cons] at h
    cases hi : acc.norm.foldl (innerF (flowS fuel x)) (some {}) with
    | none =>
      have : outerG fuel (some acc) x = none := by simp [outerG, hi]
      rw [this, outer_none] at h
      cases h
    | some r' =>
      have : outerG fuel (some acc) x =
          some { norm := r'.norm, brk := acc.brk ++ r'.brk, cont := acc.cont ++ r'.cont } := by
        simp [outerG, hi]
      rw [this] at h
      obtain ⟨hb, hc, hn⟩ := ih _ _ h
      obtain ⟨_, hin⟩ := inner_some _ _ _ _ hi
      refine ⟨fun s hs => hb s (by simp [hs]), fun s hs => hc s (by simp [hs]), ?_⟩
      intro s hs o hr
      obtain ⟨b, hfb, hle⟩ := hin s hs
      have hx := hP x s b hfb
      cases hr with
      | step _ _ _ s' _ h1 h2 =>
        have := (hx _ h1).2.1 s' rfl
        exact hn s' (hle.1 s' this) o h2
      | stop _ _ _ _ h1 h2 =>
        have g := hx _ h1
        refine ⟨g.1, ?_, ?_, ?_⟩
        · intro s' e
          exact absurd e (h2 s')
        · intro s' e
          exact hb s' (by simp [hle.2.1 s' (g.2.2.1 s' e)])
        · intro s' e
          exact hc s' (by simp [hle.2.2 s' (g.2.2.2 s' e)])

theorem flowP_sound_of (fuel : Nat) (hP : PS fuel) (p : List Stmt) (s : St) (r : Res)
    (h : flowP fuel p s = some r) (o : Out) (hr : RunP p s o) : Good o r := by
  rw [flowP_eq] at h
  exact (outer_sound fuel hP p _ r h).2.2 s (by simp) o hr

/-- Loops: every iteration starts again in the entry state. -/
theorem loop_sound (body : List Stmt) (s : St) (r : Res)
    (hQ : ∀ o, RunP body s o → Good o r)
    (hn : ∀ s', s' ∈ r.norm → s' = s) (hc : ∀ s', s' ∈ r.cont → s' = s)
    {x : Stmt} {s0 : St} {o : Out} (h : RunS x s0 o) :
    x = .loop body → s0 = s → Good o { norm := s :: r.brk } := by
  apply RunS.rec
    (motive_1 := fun x s0 o _ => x = .loop body → s0 = s → Good o { norm := s :: r.brk })
    (motive_2 := fun _ _ _ _ => True) (t := h)
  case loop_skip =>
    intro body' s1 e1 e2
    subst e2
    exact ⟨by simp, by simp, by simp, by simp⟩
  case loop_brk =>
    intro body' s1 s' hb _ e1 e2
    cases e1
    subst e2
    have g := hQ _ hb
    refine ⟨by simp, ?_, by simp, by simp⟩
    intro s'' e
    cases e
    simp [g.2.2.1 s' rfl]
  case loop_end =>
    intro body' s1 o hb ho _ e1 e2
    cases e1
    subst e2
    have g := hQ _ hb
    rcases ho with ho | ho
    · subst ho
      exact ⟨by simp, by simp, by simp, by simp⟩
    · exact absurd ho g.1
  case loop_next =>
    intro body' s1 s' o hb hl _ ih e1 e2
    cases e1
    subst e2
    have g := hQ _ hb
    exact ih rfl (hn s' (g.2.1 s' rfl))
  case loop_cont =>
    intro body' s1 s' o hb hl _ ih e1 e2
    cases e1
    subst e2
    have g := hQ _ hb
    exact ih rfl (hc s' (g.2.2.2 s' rfl))
  all_goals (intros; first | trivial | (rename_i e _; cases e))

theorem Good.single_norm (s : St) : Good (.norm s) { norm := [s] } :=
  ⟨by simp, by simp, by simp, by simp⟩

theorem Good.done (r : Res) : Good .done r := ⟨by simp, by simp, by simp, by simp⟩

theorem PS_all (fuel : Nat) : PS fuel := by
  induction fuel with
  | zero =>
    intro x s r h
    simp [flowS] at h
  | succ n ih =>
    intro x s r h o hr
    cases x with
    | lock m =>
      cases hr with
      | lock_ok _ _ hh => simp [flowS, hh] at h; subst h; exact Good.single_norm _
      | lock_bad _ _ hh => simp [flowS, hh] at h
    | unlock m =>
      cases hr with
      | unlock_ok _ _ hh => simp [flowS, hh] at h; subst h; exact Good.single_norm _
      | unlock_bad _ _ hh => simp [flowS, hh] at h
    | deferUnlock m =>
      cases hr
      simp [flowS] at h; subst h; exact Good.single_norm _
    | ret =>
      cases hr
      simp only [flowS] at h
      split at h
      · rename_i e; rw [e]; exact Good.done _
      · cases h
    | exit => cases hr; exact Good.done _
    | access m =>
      cases hr with
      | access_ok _ _ hh => simp [flowS, hh] at h; subst h; exact Good.single_norm _
      | access_bad _ _ hh => simp [flowS, hh] at h
    | callLocking =>
      cases hr with
      | callL_ok _ hh => simp [flowS, hh] at h; subst h; exact Good.single_norm _
      | callL_bad _ hh => simp [flowS, hh] at h
    | callAssuming m =>
      cases hr with
      | callA_ok _ _ hh => simp [flowS, hh] at h; subst h; exact Good.single_norm _
      | callA_bad _ _ hh => simp [flowS, hh] at h
    | ite a b =>
      rw [flowS_ite] at h
      split at h
      · rename_i ra rb ha hb
        cases h
        cases hr with
        | ite_l _ _ _ _ hp =>
          exact (flowP_sound_of n ih a s ra ha o hp).mono (Res.le_merge_left _ _)
        | ite_r _ _ _ _ hp =>
          exact (flowP_sound_of n ih b s rb hb o hp).mono (Res.le_merge_right _ _)
      · cases h
    | brk => cases hr; simp [flowS] at h; subst h; exact ⟨by simp, by simp, by simp, by simp⟩
    | cont => cases hr; simp [flowS] at h; subst h; exact ⟨by simp, by simp, by simp, by simp⟩
    | loop body =>
      rw [flowS_loop] at h
      split at h
      · cases h
      · rename_i r0 hb
        split at h
        · rename_i hall
          cases h
          simp only [Bool.and_eq_true, List.all_eq_true, decide_eq_true_eq] at hall
          exact loop_sound body s r0 (fun o ho => flowP_sound_of n ih body s r0 hb o ho)
            hall.1 hall.2 hr rfl rfl
        · cases h

/-- If the abstract flow of a block succeeds, no concrete run of the block is
`bad`, and every concrete outcome is accounted for by the abstract result. -/
theorem flowP_sound (fuel : Nat) (p : List Stmt) (s : St) (r : Res) (h : flowP fuel p s = some r) (o : Out) (hr : RunP p s o) :
    o ≠ .bad ∧ (∀ s', o = .norm s' → s' ∈ r.norm) ∧ (∀ s', o = .brk s' → s' ∈ r.brk) ∧
    (∀ s', o = .cont s' → s' ∈ r.cont) :=
  flowP_sound_of fuel (PS_all fuel) p s r h o hr

/-- Main theorem: a function body that passes `check` from the given entry
state never makes a locking mistake on any path, and every completed execution
ends `done` (returned with every mutex released, or the process exited). -/
theorem check_sound (p : Prog) (held : List String) (h : check p held = true) (o : Out)
    (hr : RunF p ⟨held, []⟩ o) : o = .done := by
  unfold check at h
  split at h
  · cases h
  · rename_i r hf
    simp only [Bool.and_eq_true, List.all_eq_true, decide_eq_true_eq, List.isEmpty_iff] at h
    obtain ⟨⟨hn, hb⟩, hc⟩ := h
    cases hr with
    | fall s' hp =>
      have g := flowP_sound _ _ _ _ hf _ hp
      exact hn s' (g.2.1 s' rfl)
    | other _ hp hno =>
      have g := flowP_sound _ _ _ _ hf _ hp
      cases o with
      | norm s' => exact absurd rfl (hno s')
      | brk s' => have := g.2.2.1 s' rfl; rw [hb] at this; cases this
      | cont s' => have := g.2.2.2 s' rfl; rw [hc] at this; cases this
      | done => rfl
      | bad => exact absurd rfl g.1

/-- A run of a block that does not fall through is also a run of any extension of the block. -/
theorem RunP_append_stop (q : List Stmt) : ∀ (p : List Stmt) (s : St) (o : Out),
    RunP p s o → (∀ s', o ≠ .norm s') → RunP (p ++ q) s o := by
  intro p
  induction p with
  | nil =>
    intro s o hr hno
    cases hr
    exact absurd rfl (hno s)
  | cons x xs ih =>
    intro s o hr hno
    cases hr with
    | step _ _ _ s' _ h1 h2 => exact RunP.step _ _ _ s' _ h1 (ih s' o h2 hno)
    | stop _ _ _ _ h1 h2 => exact RunP.stop _ _ _ _ h1 h2

/-- Helpers that are called with mutex `m` held (modelled as acquiring it on entry
and releasing it on return): no mistake on any path. -/
theorem checkAssuming_sound (p : Prog) (m : String) (h : checkAssuming p m = true) (o : Out)
    (hr : RunF (.lock m :: .deferUnlock m :: p) ⟨[], []⟩ o) : o = .done :=
  check_sound _ [] h o hr

/-- Non-vacuity: the checker rejects the two classic mistakes and accepts the correct shapes. -/
example : check [.lock "mu", .ite [.ret] [], .unlock "mu"] [] = false ∧          -- early return with the lock held
    check [.lock "mu", .ite [.unlock "mu", .ret] [], .unlock "mu"] [] = true ∧
    check [.lock "mu", .deferUnlock "mu", .ite [.ret] [], .access "mu"] [] = true ∧
    check [.lock "mu", .lock "other", .unlock "other", .unlock "mu"] [] = false ∧   -- nesting
    check [.loop [.lock "mu", .ite [.brk] [], .unlock "mu"]] [] = false ∧            -- break with the lock held
    check [.loop [.lock "mu", .ite [.unlock "mu", .cont] [], .unlock "mu"]] [] = true ∧
    check [.access "mu"] [] = false := by decide

end Gca.Lock
