/-
Finite maps as association lists (Go maps). All reasoning goes through `get`:
`set`, `del` are characterised by how they change `get`, so iteration order is
never observable in a theorem.
-/
namespace Gca

abbrev FMap (κ : Type) (α : Type) := List (κ × α)

namespace FMap
variable {κ : Type} [DecidableEq κ] {α : Type}

def get (m : FMap κ α) (k : κ) : Option α :=
  match m with
  | [] => none
  | (k', v) :: r => if k' = k then some v else get r k

def has (m : FMap κ α) (k : κ) : Bool := (get m k).isSome

def del (m : FMap κ α) (k : κ) : FMap κ α :=
  match m with
  | [] => []
  | (k', v) :: r => if k' = k then del r k else (k', v) :: del r k

/-- Replace in place if present (keeps the position), else append. -/
def set (m : FMap κ α) (k : κ) (v : α) : FMap κ α :=
  match m with
  | [] => [(k, v)]
  | (k', v') :: r => if k' = k then (k, v) :: r else (k', v') :: set r k v

def keys (m : FMap κ α) : List κ := m.map (·.1)

@[simp] theorem get_nil (k : κ) : get ([] : FMap κ α) k = none := rfl

theorem get_set_same (m : FMap κ α) (k : κ) (v : α) : get (set m k v) k = some v := by
  induction m with
  | nil => simp [set, get]
  | cons p r ih =>
    obtain ⟨k', v'⟩ := p
    by_cases h : k' = k <;> simp [set, get, h, ih]

theorem get_set_ne (m : FMap κ α) (k k2 : κ) (v : α) (h : k ≠ k2) : get (set m k v) k2 = get m k2 := by
  induction m with
  | nil => simp [set, get, h]
  | cons p r ih =>
    obtain ⟨k', v'⟩ := p
    by_cases h1 : k' = k
    · subst h1; simp [set, get, h]
    · by_cases h2 : k' = k2
      · subst h2; simp [set, get, h1]
      · simp [set, get, h1, h2, ih]

theorem get_del_same (m : FMap κ α) (k : κ) : get (del m k) k = none := by
  induction m with
  | nil => rfl
  | cons p r ih =>
    obtain ⟨k', v'⟩ := p
    by_cases h : k' = k <;> simp [del, get, h, ih]

theorem get_del_ne (m : FMap κ α) (k k2 : κ) (h : k ≠ k2) : get (del m k) k2 = get m k2 := by
  induction m with
  | nil => rfl
  | cons p r ih =>
    obtain ⟨k', v'⟩ := p
    by_cases h1 : k' = k
    · subst h1; simp [del, get, h, ih]
    · by_cases h2 : k' = k2
      · subst h2; simp [del, get, h1]
      · simp [del, get, h1, h2, ih]

theorem get_some_mem {m : FMap κ α} {k : κ} {v : α} (h : get m k = some v) : (k, v) ∈ m := by
  induction m with
  | nil => simp at h
  | cons p r ih =>
    obtain ⟨k', v'⟩ := p
    by_cases h1 : k' = k
    · simp [get, h1] at h; simp [h1, h]
    · simp [get, h1] at h; simp [ih h]

theorem has_eq_isSome (m : FMap κ α) (k : κ) : has m k = (get m k).isSome := rfl

/-- `get` through a key-preserving `List.map`. -/
theorem get_map_val {β : Type} (m : FMap κ α) (f : α → β) (k : κ) :
    get (m.map (fun p => (p.1, f p.2)) : FMap κ β) k = (get m k).map f := by
  induction m with
  | nil => rfl
  | cons p r ih =>
    obtain ⟨k', v'⟩ := p
    by_cases h : k' = k <;> simp [get, h, ih]

end FMap
end Gca
