/-
glow/timeslot_u.go (UnixToTimeslot, TimeslotToUnix), glow/timeslot.go
(production CurrentTimeslot and GenesisTime), and the slot arithmetic shared by
server and client. Specification side: unbounded integers.
-/
namespace Gca.TS

/-- Seconds per timeslot. -/
def slotSeconds : Int := 300

/-- `UnixToTimeslot` with genesis `g`: `none` = the error return. Times before
genesis and times beyond the last 32-bit timeslot are refused. -/
def toSlot (g t : Int) : Option Nat :=
  if t < g then none else
  let d := (t - g) / 300
  if d > 4294967295 then none else some d.toNat

/-- `TimeslotToUnix`. -/
def toUnix (g : Int) (s : Nat) : Int := g + (s : Int) * 300

/-- The acceptance window of the report listener: within 432 slots of `now`. -/
def inWindow (ts now : Int) : Prop := now - 432 ≤ ts ∧ ts ≤ now + 432

instance (ts now : Int) : Decidable (inWindow ts now) := by unfold inWindow; infer_instance

/-- The rotation cadence is safe: rotation trigger `trig`, check period `per` (slots), acceptance
half-width `half`, window length `win`, rotation step `shift`. -/
def cadenceSafe (trig per half win shift : Int) : Bool :=
  decide (trig + per + half < win ∧ half + shift ≤ trig)

/-- A duration in nanoseconds as a number of timeslots, rounded up. -/
def slotsOfNs (ns : Int) : Int := (ns + (300 * 1000000000 - 1)) / (300 * 1000000000)

/-- Days since 1970-01-01 to (year, month, day), proleptic Gregorian calendar
(the standard era-based algorithm, integer arithmetic only). -/
def civilFromDays (z0 : Int) : Int × Int × Int :=
  let z := z0 + 719468
  let era := (if z ≥ 0 then z else z - 146096) / 146097
  let doe := z - era * 146097
  let yoe := (doe - doe / 1460 + doe / 36524 - doe / 146096) / 365
  let y := yoe + era * 400
  let doy := doe - (365 * yoe + yoe / 4 - yoe / 100)
  let mp := (5 * doy + 2) / 153
  let d := doy - (153 * mp + 2) / 5 + 1
  let m := if mp < 10 then mp + 3 else mp - 9
  (if m ≤ 2 then y + 1 else y, m, d)

/-- Unix time to (year, month, day, hour, minute, second, weekday) with 0 = Sunday. -/
def civil (t : Int) : Int × Int × Int × Int × Int × Int × Int :=
  let days := t / 86400
  let sod := t % 86400
  let (y, m, d) := civilFromDays days
  (y, m, d, sod / 3600, sod % 3600 / 60, sod % 60, (days + 4) % 7)

end Gca.TS
