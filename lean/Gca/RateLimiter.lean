/-
glow/rate_limiter.go: sliding-window rate limiter. Time is an integer
(nanoseconds of the monotonic clock); `Allow` is one critical section that reads
the clock inside it, so any schedule of callers is a sequence of calls with
non-decreasing times.
-/
namespace Gca.RL

structure State where
  limit : Int         -- Go int, may be ≤ 0
  rate  : Int         -- window length, time.Duration
  reqs  : List Int    -- admission times still remembered, oldest first
deriving DecidableEq, Repr

/-- `Allow()` at clock value `now`. The Go loop finds the first remembered
admission that is `After(now - rate)` and keeps the list from there on. -/
def allow (s : State) (now : Int) : State × Bool :=
  let exp := now - s.rate
  let kept := s.reqs.dropWhile (fun t => ¬ (t > exp))
  if (kept.length : Int) < s.limit then
    ({ s with reqs := kept ++ [now] }, true)
  else
    ({ s with reqs := kept }, false)

def init (limit rate : Int) : State := ⟨limit, rate, []⟩

/-- Run a sequence of calls; returns the final state and the admission verdicts. -/
def run (s : State) : List Int → State × List Bool
  | [] => (s, [])
  | t :: ts =>
    let (s', b) := allow s t
    let (s'', bs) := run s' ts
    (s'', b :: bs)

/-- The admitted call times of a run. -/
def admitted (s : State) (ts : List Int) : List Int :=
  (ts.zip (run s ts).2).filterMap (fun (t, b) => if b then some t else none)

end Gca.RL
