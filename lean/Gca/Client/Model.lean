import Gca.Basic
import Gca.FMap
import Gca.Codec.Report
import Gca.Codec.AuthServer
import Gca.Codec.ServerMap
/-
The client (client/*.go): history store, energy-row rule, sync-reply parser,
server-list merge / migration adoption, the five-attempt sync round and the
resend loop. Signature verification is a parameter `V`; the choice of server
(a cryptographically random shuffle in Go) is an input of the round.
-/
namespace Gca.Cl

abbrev Key := Bytes
abbrev Verify := Key → Bytes → Bytes → Bool

/-! ### History store (client/history.go) -/

/-- history.dat: a 4-byte origin followed by one uint32 per timeslot. -/
structure Hist where
  origin : Nat
  slots  : List Nat
deriving DecidableEq, Repr

def maxHistorySlots : Nat := 2^30 - 1

/-- `staticLoadReading`: `none` = error return. Reading past the end of the file gives 0. -/
def Hist.load (h : Hist) (ts : Nat) : Option Nat :=
  if ts < h.origin then some 0 else
  if ts - h.origin ≥ maxHistorySlots then none else
  some (h.slots.getD (ts - h.origin) 0)

/-- Write 4 bytes at slot `i`, extending the file with zeros if needed (`WriteAt`). -/
def writeSlot (slots : List Nat) (i v : Nat) : List Nat :=
  if i < slots.length then slots.set i v else slots ++ List.replicate (i - slots.length) 0 ++ [v]

/-- `staticSaveReading`: `none` = error return (state unchanged). -/
def Hist.save (h : Hist) (ts v : Nat) : Option Hist :=
  if ts < h.origin then none else
  if ts - h.origin ≥ maxHistorySlots then none else
  match h.load ts with
  | none => none
  | some cur =>
    if cur = v then some h else
    if cur ≠ 0 then none else
    some { h with slots := writeSlot h.slots (ts - h.origin) v }

/-! ### Energy rows (client/reports.go, staticReadEnergyFile) -/

/-- One CSV record as the reader sees it: number of fields, the result of
parsing the first column as an integer and (if present) of parsing the second
column as a float, given as the scaled outcome computed with the float
operations of the platform: `small` = |x| < 24, otherwise `uint64(m*x/d)`. -/
inductive Reading where
  | unparsable                -- strconv.ParseFloat failed
  | small                     -- -24 < x < 24
  | scaled (v : Nat)          -- uint64(multiplier * x / divider)
deriving DecidableEq, Repr

structure Row where
  nfields : Nat
  ts      : Option Int        -- strconv.ParseInt(record[0], 10, 64)
  reading : Reading
deriving DecidableEq, Repr

structure Record where
  ts     : Nat
  energy : Nat
deriving DecidableEq, Repr

/-- Timeslot of a unix time (`glow.UnixToTimeslot` with genesis `g`). -/
def toSlot (g t : Int) : Option Nat :=
  if t < g then none else
  let d := (t - g) / 300
  if d > 4294967295 then none else some d.toNat

/-- The record a row yields, if any. `none` = the row is skipped. -/
def rowRecord (g : Int) (r : Row) : Option Record :=
  if r.nfields < 2 then none else
  match r.ts with
  | none => none
  | some t =>
    match toSlot g t with
    | none => none
    | some slot =>
      some ⟨slot, match r.reading with | .unparsable => 3 | .small => 2 | .scaled v => v⟩

def readEnergy (g : Int) (rows : List Row) : List Record := rows.filterMap (rowRecord g)

/-- `readCTSettingsFile`: absent file = the build's defaults; otherwise the
first line is the multiplier and the second the divider (as float bit patterns;
`some none` = the line exists but does not parse, `none` = the line is missing).
`none` result = error return. -/
def readCT (present : Bool) (l1 l2 : Option (Option Nat)) (dflt : Nat × Nat) : Option (Nat × Nat) :=
  if !present then some dflt else
  match l1, l2 with
  | some (some m), some (some d) => some (m, d)
  | _, _ => none

/-! ### The reporting loop (launchSendReports / threadedSendReports) -/

/-- Start-up: every record of the energy file is saved (nothing is sent); the
latest timeslot among the records whose save succeeded is remembered. -/
def startup (h : Hist) (recs : List Record) : Hist × Nat :=
  recs.foldl (fun (acc : Hist × Nat) r =>
    match acc.1.save r.ts (r.energy % 2^32) with
    | none => acc
    | some h' => (h', if r.ts > acc.2 then r.ts else acc.2)) (h, 0)

/-- One iteration of the loop on the records just read: a record is sent iff
its save succeeded and its timeslot is newer than `latest`; afterwards `latest`
advances to the newest timeslot among ALL records read. -/
def loopIter (h : Hist) (latest : Nat) (recs : List Record) : Hist × Nat × List Record :=
  let (h', sent) := recs.foldl (fun (acc : Hist × List Record) r =>
    match acc.1.save r.ts (r.energy % 2^32) with
    | none => acc
    | some h' => (h', if r.ts > latest then acc.2 ++ [r] else acc.2)) (h, [])
  (h', recs.foldl (fun l r => if r.ts > l then r.ts else l) latest, sent)

/-! ### When the loop starts a sync round -/

/-- After each iteration `ticks` is incremented; a sync round is launched (and
`ticks` reset) when it reaches 60, or - if the previous round failed (`status = 0`) -
when `ticks % 4 = 3`. -/
def shouldSync (ticks : Nat) (status : Nat) : Bool := decide (ticks ≥ 60) || (status == 0 && ticks % 4 == 3)

/-- One iteration of the scheduling counter: returns the new counter and whether a round starts. -/
def tickStep (ticks status : Nat) : Nat × Bool :=
  if shouldSync (ticks + 1) status then (0, true) else (ticks + 1, false)

/-- Run the counter over the sequence of sync statuses observed at each iteration. -/
def tickRun : Nat → List Nat → List Bool
  | _, [] => []
  | ticks, st :: rest => let (t', b) := tickStep ticks st; b :: tickRun t' rest

/-! ### Sync reply (server/sync_listener_tcp.go builds, client/reports.go parses) -/

structure Parsed where
  off     : Nat
  bits    : Bytes              -- 504 bytes
  newGCA  : Key
  newId   : Nat
  servers : List AuthServer
deriving DecidableEq, Repr

def migrationPrefix : Bytes := ascii "EquipmentMigration"

/-- `staticServerSync` from the point where the `respLen` bytes have been read.
`now` is the client's clock (uint64 seconds). `none` = error return. -/
def parseReply (V : Verify) (clientKey gcaKey gcasKey : Key) (now : Nat) (resp : Bytes) : Option Parsed :=
  let n := resp.length
  if n < 712 then none else
  let signingTime := unle ((resp.drop (n - 72)).take 8)
  -- uint64 arithmetic, wrapping like the Go code
  if (now + 86400) % 2^64 < signingTime ∨ (now + 2^64 - 86400) % 2^64 > signingTime then none else
  let sig := resp.drop (n - 64)
  if !V gcasKey (resp.take (n - 64)) sig then none else
  let equipmentKey := resp.take 32
  let off := unle ((resp.drop 32).take 4)
  let bits := (resp.drop 36).take 504
  let newGCA := (resp.drop 540).take 32
  let newId := unle ((resp.drop 572).take 4)
  let newGCASig := (resp.drop (n - 136)).take 64
  if equipmentKey ≠ clientKey then none else
  let migBytes := equipmentKey ++ (resp.drop 540).take (n - 136 - 540)
  if newGCA ≠ zeros 32 ∧ !V gcaKey (migrationPrefix ++ migBytes) newGCASig then none else
  let region := (resp.drop 576).take (n - 136 - 576)
  match AuthServer.decodeList region.length region with
  | none => none
  | some servers =>
    if newGCA ≠ zeros 32 ∧ servers = [] then none else
    let vk := if newGCA ≠ zeros 32 then newGCA else gcaKey
    if servers.any (fun a => !V vk (AuthServer.signingBytes a) a.sig) then none else
    some ⟨off, bits, newGCA, newId, servers⟩

/-- What the server puts on the wire after the 2-byte length prefix
(`managedHandleSyncConn`), `sgn` being its signature over everything before. -/
def buildReply (sgn : Bytes → Bytes) (key : Key) (off : Nat) (bits : Bytes) (mig : Option Migration)
    (servers : List AuthServer) (time : Nat) : Bytes :=
  let mid := match mig with
    | some m => Migration.tail m ++ m.sig
    | none => zeros 36 ++ (AuthServer.encodeList servers ++ zeros 64)
  let body := key ++ (leBytes 4 off ++ (bits ++ (mid ++ leBytes 8 time)))
  body ++ sgn body

/-- The 16-bit length prefix and the read of exactly that many bytes: `none` =
short read / closed connection. Returns the reply body. -/
def readFramed (stream : Bytes) : Option Bytes :=
  if stream.length < 2 then none else
  let n := unle (stream.take 2)
  if (stream.drop 2).length < n then none else some ((stream.drop 2).take n)

/-! ### Client state, merge, migration, round -/

structure Client where
  pubKey  : Key
  gcaKey  : Key
  shortId : Nat
  servers : FMap Key CServer
  primary : Key
  hist    : Hist
  /-- gcaServers.dat, gcaPubKey.dat, shortID.dat as last written -/
  diskServers : FMap Key CServer
  diskGCA     : Key
  diskShortId : Nat
deriving DecidableEq, Repr

def toC (a : AuthServer) : CServer := ⟨a.banned, a.loc, a.http, a.tcp, a.udp⟩

/-- The merge rule: an entry is written if the key is new or the signed entry says banned. -/
def mergeServers (m : FMap Key CServer) : List AuthServer → FMap Key CServer
  | [] => m
  | a :: as => mergeServers (if !(m.has a.key) || a.banned then m.set a.key (toC a) else m) as

/-- Adoption of a successful reply (the critical section after the attempts loop). -/
def adopt (c : Client) (p : Parsed) : Client :=
  if p.newGCA ≠ c.gcaKey ∧ p.newGCA ≠ zeros 32 then
    let ns := mergeServers [] p.servers
    { c with gcaKey := p.newGCA, shortId := p.newId, servers := ns,
             diskGCA := p.newGCA, diskShortId := p.newId, diskServers := ns }
  else
    let ns := mergeServers c.servers p.servers
    { c with servers := ns, diskServers := ns }

/-- Servers eligible for an attempt: known, not banned, not failed in this round. -/
def eligible (c : Client) (failed : List Key) (k : Key) : Bool :=
  match c.servers.get k with
  | none => false
  | some s => !s.banned && !failed.contains k

inductive Attempt where
  | fail                      -- dial refused, reset, short read, bad reply: `staticServerSync` returned an error
  | ok (p : Parsed)
deriving DecidableEq, Repr

inductive RoundOut where
  | gaveUp                    -- five failures
  | noServers                 -- nothing eligible
  | synced (p : Parsed) (via : Key)
  | badChoice                 -- the reported choice was not eligible (would contradict the selection rule)
deriving DecidableEq, Repr

/-- The attempts loop of `threadedSyncWithServer`: `choices` gives, for each
attempt, the server the shuffle picked and what the sync call returned. The
mutex is taken and released inside each iteration and is free on every exit. -/
def attempts (c : Client) : Nat → List Key → List (Key × Attempt) → Client × RoundOut
  | 0, _, _ => (c, .gaveUp)
  | _+1, _, [] => (c, .gaveUp)
  | n+1, failed, (k, a) :: rest =>
    if !(c.servers.any (fun p => eligible c failed p.1)) then (c, .noServers) else
    if !eligible c failed k then (c, .badChoice) else
    let c := { c with primary := k }
    match a with
    | .ok p => (c, .synced p k)
    | .fail => attempts c n (k :: failed) rest

def syncRound (c : Client) (choices : List (Key × Attempt)) : Client × RoundOut :=
  match attempts c 5 [] choices with
  | (c', .synced p k) => (adopt c' p, .synced p k)
  | r => r

/-! ### Resend loop -/

/-- One byte from up to 8 flags, flag `j` at bit `j` (server: `bitfield[i/8] |= 1 << (i%8)`). -/
def packByte (l : List Bool) : UInt8 :=
  UInt8.ofNat ((l.zipIdx.map (fun (b, j) => if b then 2^j else 0)).sum)

/-- The 504-byte bitfield of 4032 flags. -/
def packBits : Nat → List Bool → Bytes
  | 0, _ => []
  | n+1, l => packByte (l.take 8) :: packBits n (l.drop 8)

def bitSet (bits : Bytes) (i : Nat) : Bool := (bits.getD (i / 8) 0).toNat / 2^(i % 8) % 2 = 1

/-- uint32 → int32 → uint64 (`uint64(int32(powerOutput))`). -/
def signExt32 (v : Nat) : Nat := if v < 2^31 then v else 2^64 - 2^32 + v

/-- The records the client retransmits after a reply `(off, bits)` when its
latest reading is for timeslot `latest`. The loop index is a uint32 and
`latest - off` wraps like the Go code. -/
def resend (h : Hist) (latest off : Nat) (bits : Bytes) : List Record :=
  let last := (latest + 2^32 - off) % 2^32
  (List.range (min (last + 1) 4032)).filterMap (fun i =>
    if bitSet bits i then none else
    match h.load ((i + off) % 2^32) with
    | none => none
    | some v => if v < 2 then none else some ⟨(i + off) % 2^32, signExt32 v⟩)

end Gca.Cl
