import Gca.Server.Inv
import Gca.Props.C02
/-
Helper lemmas for C04 (restart preserves every accepted fact). Nothing here
mentions `Sync`; the lemmas describe
 * `loadCoreFrom`: `load` after the `server.keys` handling and before catch-up,
 * the authorization observables `aobs` on which the live path `saveEquipment`
   and the replay path `replayAuth` act alike,
 * what `integrate` / `replayReports` do to slots, files and everything else,
 * absorption of repeated reports by `slotStep`.
-/
namespace Gca.Srv
open FMap

/-! ### `load` split in two -/

/-- `loadFrom` without the final catch-up rotations. -/
def loadCoreFrom (cfg : Cfg) (V : Verify) (srvPub : Key) (d : Disk) (tempKey : Key) : Option State :=
  if srvPub.length ≠ 32 then none else
  let gk : Option (Key × Bool) := match d.gcaKey with
    | none => some (zeros 32, false)
    | some [] => some (zeros 32, false)
    | some k => if k.length = 32 then some (k, true) else none
  match gk with
  | none => none
  | some (gcaKey, avail) =>
  if d.auths.any (fun a => !V gcaKey (Auth.signingBytes a) a.sig) then none else
  let s0 : State := { gcaKey := gcaKey, gcaAvail := avail, tempKey := tempKey, srvPub := srvPub, disk := d }
  let s1 := d.auths.foldl (replayAuth cfg) s0
  let s2 := { s1 with history := d.weeks,
                      off := match d.weeks.getLast? with | none => 0 | some w => w.tso + week }
  replayReports cfg V s2 d.reports

theorem c04h_loadFrom_eq_core (cfg : Cfg) (V : Verify) (sgn : Bytes → Bytes) (srvPub : Key) (d : Disk)
    (tempKey : Key) (now : Nat) :
    loadFrom cfg V sgn srvPub d tempKey now =
      match loadCoreFrom cfg V srvPub d tempKey with
      | none => none
      | some s3 => match catchUp sgn now (now / week + 2) s3 with
        | (s4, .ok) => some s4
        | _ => none := by
  unfold loadFrom loadCoreFrom
  by_cases h1 : srvPub.length ≠ 32
  · simp only [if_pos h1]
  · simp only [if_neg h1]
    cases hg : d.gcaKey with
    | none => simp only []; split <;> rfl
    | some k =>
      cases k with
      | nil => simp only []; split <;> rfl
      | cons c cs =>
        simp only []
        by_cases hl : (c :: cs).length = 32
        · simp only [if_pos hl]; split <;> rfl
        · simp only [if_neg hl]

/-! ### Absorption of repeated reports -/

theorem c04h_fold_same (cap : Nat) (x : Report) (xs : List Report) (h : ∀ y ∈ xs, y = x) :
    xs.foldl (slotStep cap) x = x := by
  induction xs with
  | nil => rfl
  | cons y ys ih =>
    have hy : y = x := h y (by simp)
    subst hy
    rw [List.foldl_cons]
    have : slotStep cap y y = y := by simp [slotStep]
    rw [this]
    exact ih (fun z hz => h z (by simp [hz]))

theorem c04h_slot_absorb (cap : Nat) (l : List Report) (r : Report) (hv : ∀ x ∈ l, ValidP x) (hr : r ∈ l) :
    slotStep cap (l.foldl (slotStep cap) Report.zero) r = l.foldl (slotStep cap) Report.zero := by
  cases l with
  | nil => simp at hr
  | cons x xs =>
    have hx : ValidP x := hv x (by simp)
    rw [List.foldl_cons]
    have hz : ¬ Report.zero = x := by
      intro h; apply hx.1; rw [← h]; rfl
    have hzp : Report.zero.p = 0 := rfl
    by_cases ho : overCapacity x.p cap = true
    · have hp : (slotStep cap Report.zero x).p = 1 := by
        simp [slotStep, hz, ho, hzp]
      rw [c02h_foldl_banned cap _ xs hp]
      exact c02h_slotStep_banned cap _ r hp
    · have ho' : overCapacity x.p cap = false := by simpa using ho
      have hs : slotStep cap Report.zero x = x := by
        simp [slotStep, hz, ho', hzp]
      rw [hs]
      by_cases hall : ∀ y ∈ xs, y = x
      · rw [c04h_fold_same cap x xs hall]
        have : r = x := by
          rcases List.mem_cons.mp hr with h | h
          · exact h
          · exact hall r h
        subst this
        simp [slotStep]
      · have hp : (xs.foldl (slotStep cap) x).p = 1 := by
          rw [c02h_foldl_stored cap x xs hx]
          have : xs.all (fun y => decide (y = x)) = false := by
            rw [Bool.eq_false_iff]; intro h; apply hall
            simpa [List.all_eq_true] using h
          simp [this]
        exact c02h_slotStep_banned cap _ r hp

/-- Folding again a list of reports that were all folded before changes nothing. -/
theorem c04h_absorb_list (cap : Nat) (l l2 : List Report) (hv : ∀ x ∈ l, ValidP x) (hsub : ∀ x ∈ l2, x ∈ l) :
    l2.foldl (slotStep cap) (l.foldl (slotStep cap) Report.zero) = l.foldl (slotStep cap) Report.zero := by
  induction l2 with
  | nil => rfl
  | cons y ys ih =>
    rw [List.foldl_cons, c04h_slot_absorb cap l y hv (hsub y (by simp))]
    exact ih (fun x hx => hsub x (by simp [hx]))

/-! ### Authorization observables -/

/-- What the two authorization paths must agree on: authorization per id, key
index, banned ids. -/
structure AObs where
  auth  : Nat → Option Auth
  short : Key → Option Nat
  ban   : Nat → Bool

def aobs (s : State) : AObs :=
  ⟨fun id => (s.devices.get id).map (·.auth), fun k => s.shortIds.get k, fun id => s.bans.contains id⟩

def AObs.empty : AObs := ⟨fun _ => none, fun _ => none, fun _ => false⟩

/-- One record of the authorization file, on observables. -/
def AObs.step (o : AObs) (a : Auth) : AObs :=
  if o.ban a.id then o else
  match o.auth a.id with
  | some cur =>
    if Auth.encode cur = Auth.encode a then o else
    ⟨fun id => if a.id = id then none else o.auth id,
     fun k => if cur.key = k then none else o.short k,
     fun id => o.ban id || decide (id = a.id)⟩
  | none =>
    if (o.short a.key).isSome then o else
    ⟨fun id => if a.id = id then some a else o.auth id,
     fun k => if a.key = k then some a.id else o.short k,
     o.ban⟩

theorem c04h_aobs_iff (r m : State) :
    aobs r = aobs m ↔
      (∀ id, (r.devices.get id).map (·.auth) = (m.devices.get id).map (·.auth)) ∧
      (∀ k, r.shortIds.get k = m.shortIds.get k) ∧ (∀ id, id ∈ r.bans ↔ id ∈ m.bans) := by
  constructor
  · intro h
    have h1 : (aobs r).auth = (aobs m).auth := by rw [h]
    have h2 : (aobs r).short = (aobs m).short := by rw [h]
    have h3 : (aobs r).ban = (aobs m).ban := by rw [h]
    refine ⟨fun id => congrFun h1 id, fun k => congrFun h2 k, fun id => ?_⟩
    have := congrFun h3 id
    simp only [aobs] at this
    rw [← List.contains_iff_mem, ← List.contains_iff_mem, this]
  · intro ⟨h1, h2, h3⟩
    simp only [aobs, AObs.mk.injEq]
    refine ⟨funext h1, funext h2, funext fun id => ?_⟩
    rw [Bool.eq_iff_iff, List.contains_iff_mem, List.contains_iff_mem]
    exact h3 id

theorem c04h_aobs_banDevice (s : State) (id : Nat) (cur : Auth) :
    aobs (banDevice s id cur) =
      ⟨fun i => if id = i then none else (aobs s).auth i,
       fun k => if cur.key = k then none else (aobs s).short k,
       fun i => (aobs s).ban i || decide (i = id)⟩ := by
  simp only [aobs, banDevice, AObs.mk.injEq]
  refine ⟨funext fun i => ?_, funext fun k => ?_, funext fun i => ?_⟩
  · by_cases e : id = i
    · subst e; simp [get_del_same]
    · simp [e, get_del_ne _ _ _ e]
  · by_cases e : cur.key = k
    · subst e; simp [get_del_same]
    · simp [e, get_del_ne _ _ _ e]
  · simp [List.contains_eq_mem]

theorem c04h_aobs_replayAuth (cfg : Cfg) (s : State) (a : Auth) :
    aobs (replayAuth cfg s a) = (aobs s).step a := by
  unfold replayAuth AObs.step
  have hb : (aobs s).ban a.id = s.bans.contains a.id := rfl
  have ha : (aobs s).auth a.id = (s.devices.get a.id).map (·.auth) := rfl
  have hs : (aobs s).short a.key = s.shortIds.get a.key := rfl
  rw [hb, ha, hs]
  split
  · rfl
  · cases hd : s.devices.get a.id with
    | some cur =>
      simp only [Option.map_some]
      split
      · rfl
      · rw [c04h_aobs_banDevice]; rfl
    | none =>
      simp only [Option.map_none]
      rw [has_eq_isSome]
      split
      · rfl
      · simp only [aobs, AObs.mk.injEq]
        refine ⟨funext fun i => ?_, funext fun k => ?_, trivial⟩
        · by_cases e : a.id = i
          · subst e; simp [get_set_same, newDev]
          · simp [e, get_set_ne _ _ _ _ e]
        · by_cases e : a.key = k
          · subst e; simp [get_set_same]
          · simp [e, get_set_ne _ _ _ _ e]

theorem c04h_aobs_foldl (cfg : Cfg) (l : List Auth) (s : State) :
    aobs (l.foldl (replayAuth cfg) s) = l.foldl AObs.step (aobs s) := by
  induction l generalizing s with
  | nil => rfl
  | cons a t ih => rw [List.foldl_cons, List.foldl_cons, ih, c04h_aobs_replayAuth]

/-! ### The live authorization path -/

/-- The three outcomes of `saveEquipment`: nothing happens, conflict (record appended,
device removed, id banned), new device (record appended, device added). -/
theorem c04h_save_cases (cfg : Cfg) (s : State) (a : Auth) :
    (saveEquipment cfg s a).1 = s ∨
    (∃ cur, s.bans.contains a.id = false ∧ s.devices.get a.id = some cur ∧ authEq cur.auth a = false ∧
      (saveEquipment cfg s a).1 =
        banDevice { s with disk := { s.disk with auths := s.disk.auths ++ [a] },
                           recentA := pushRecent cfg.maxRecentAuth s.recentA a } a.id cur.auth) ∨
    (s.bans.contains a.id = false ∧ s.devices.get a.id = none ∧ s.shortIds.get a.key = none ∧
      (saveEquipment cfg s a).1 =
        { s with disk := { s.disk with auths := s.disk.auths ++ [a] },
                 recentA := pushRecent cfg.maxRecentAuth s.recentA a,
                 shortIds := s.shortIds.set a.key a.id, devices := s.devices.set a.id (newDev a) }) := by
  unfold saveEquipment
  split
  · exact Or.inl rfl
  · rename_i hb
    have hb' : s.bans.contains a.id = false := by simpa using hb
    split
    · rename_i cur hc
      split
      · exact Or.inl rfl
      · rename_i he
        exact Or.inr (Or.inl ⟨cur, hb', hc, by simpa using he, rfl⟩)
    · rename_i hc
      split
      · exact Or.inl rfl
      · rename_i hk
        refine Or.inr (Or.inr ⟨hb', hc, ?_, rfl⟩)
        rw [has_eq_isSome] at hk
        cases hg : s.shortIds.get a.key with
        | none => rfl
        | some v => rw [hg] at hk; simp at hk

theorem c04h_floatEq_self (x : Nat) (h : isNaN x = false) : floatEq x x = true := by
  simp [floatEq, h]

/-- Go struct inequality of a stored well-formed authorization and an incoming
well-formed one without NaN coordinates means different bytes on disk. -/
theorem c04h_authEq_false_encode (x a : Auth) (hx : x.WF) (ha : a.WF)
    (h1 : isNaN a.lat = false) (h2 : isNaN a.lon = false) (h : authEq x a = false) :
    Auth.encode x ≠ Auth.encode a := by
  intro he
  have := Auth.encode_inj hx ha he
  subst this
  have : authEq x x = true := by
    simp [authEq, c04h_floatEq_self _ h1, c04h_floatEq_self _ h2]
  rw [this] at h
  cases h

/-! ### Frames -/

/-- Everything `integrate` and `replayReports` leave alone. -/
structure RFrame (s s' : State) : Prop where
  gcaKey   : s'.gcaKey = s.gcaKey
  gcaAvail : s'.gcaAvail = s.gcaAvail
  srvPub   : s'.srvPub = s.srvPub
  shortIds : s'.shortIds = s.shortIds
  bans     : s'.bans = s.bans
  off      : s'.off = s.off
  history  : s'.history = s.history
  srvKeys  : s'.disk.srvKeys = s.disk.srvKeys
  dGca     : s'.disk.gcaKey = s.disk.gcaKey
  auths    : s'.disk.auths = s.disk.auths
  weeks    : s'.disk.weeks = s.disk.weeks

theorem RFrame.refl (s : State) : RFrame s s := ⟨rfl, rfl, rfl, rfl, rfl, rfl, rfl, rfl, rfl, rfl, rfl⟩

theorem RFrame.trans {a b c : State} (h1 : RFrame a b) (h2 : RFrame b c) : RFrame a c :=
  ⟨h2.gcaKey.trans h1.gcaKey, h2.gcaAvail.trans h1.gcaAvail, h2.srvPub.trans h1.srvPub,
   h2.shortIds.trans h1.shortIds, h2.bans.trans h1.bans, h2.off.trans h1.off, h2.history.trans h1.history,
   h2.srvKeys.trans h1.srvKeys, h2.dGca.trans h1.dGca, h2.auths.trans h1.auths, h2.weeks.trans h1.weeks⟩

/-! ### `integrate` -/

theorem c04h_integrateDev_false {off : Nat} {d d' : Dev} {r : Report}
    (h : integrateDev off d r = some (d', false)) : d' = d := by
  unfold integrateDev at h
  split at h
  · cases h; rfl
  split at h
  · cases h; rfl
  split at h
  · cases h
  split at h
  · cases h; rfl
  split at h
  · cases h; rfl
  cases h

/-- `integrate` on a state whose device exists, below the window end: it succeeds,
appends the report exactly when it was recorded, and applies `slotStep` to the
slot of the report (if the report is not older than the window). -/
theorem c04h_integrate_spec (cfg : Cfg) (s : State) (r : Report) (d : Dev)
    (hd : s.devices.get r.id = some d) (hlen : d.reports.length = window) :
    ∃ s' d' b, integrate cfg s r = some (s', b) ∧ RFrame s s' ∧ (b = false → s' = s) ∧
      (b = true → r.ts < s.off + window) ∧
      s'.disk.reports = s.disk.reports ++ (if b then [r] else []) ∧
      s'.devices.get r.id = some d' ∧ (∀ id, id ≠ r.id → s'.devices.get id = s.devices.get id) ∧
      d'.auth = d.auth ∧ d'.reports.length = window ∧
      ∀ i, i < window → d'.reports[i]? =
        some (if r.ts = s.off + i then slotStep d.auth.cap (d.reports[i]?.getD Report.zero) r
              else d.reports[i]?.getD Report.zero) := by
  have hget : ∀ i, i < window → d.reports[i]? = some (d.reports[i]?.getD Report.zero) := by
    intro i hi
    rw [List.getElem?_eq_getElem (by omega)]; rfl
  by_cases hhi' : s.off + window ≤ r.ts
  · have hi := c02h_integrateDev_outside s.off d r (Or.inr hhi')
    refine ⟨s, d, false, ?_, RFrame.refl s, fun _ => rfl, fun h => (by cases h), by simp, hd, fun _ _ => rfl,
      rfl, hlen, ?_⟩
    · unfold integrate; rw [hd]; simp only [hi]
    · intro i hi'
      rw [if_neg (by omega)]; exact hget i hi'
  have hhi : r.ts < s.off + window := by omega
  by_cases hlo : s.off ≤ r.ts
  · obtain ⟨d', b, hi, ha, _, hl, hslot, hother⟩ := c02h_integrateDev_spec s.off d r hlen hlo hhi
    have hslots : ∀ i, i < window → d'.reports[i]? =
        some (if r.ts = s.off + i then slotStep d.auth.cap (d.reports[i]?.getD Report.zero) r
              else d.reports[i]?.getD Report.zero) := by
      intro i hi'
      by_cases e : r.ts = s.off + i
      · have : i = r.ts - s.off := by omega
        subst this; rw [if_pos e]; exact hslot
      · rw [if_neg e, hother i (by omega)]; exact hget i hi'
    cases b with
    | false =>
      have : d' = d := c04h_integrateDev_false hi
      subst this
      refine ⟨s, d', false, ?_, RFrame.refl s, fun _ => rfl, fun _ => hhi, by simp, hd, fun _ _ => rfl, rfl, hlen,
        hslots⟩
      unfold integrate; rw [hd]; simp only [hi]
    | true =>
      refine ⟨{ s with devices := s.devices.set r.id d',
                       recentR := pushRecent cfg.maxRecent s.recentR r,
                       disk := { s.disk with reports := s.disk.reports ++ [r] } },
        d', true, ?_, ?_, ?_, fun _ => hhi, ?_, ?_, ?_, ha, hl, hslots⟩
      · unfold integrate; rw [hd]; simp only [hi]
      · exact ⟨rfl, rfl, rfl, rfl, rfl, rfl, rfl, rfl, rfl, rfl, rfl⟩
      · intro h; cases h
      · simp
      · exact get_set_same _ _ _
      · intro id hne; exact get_set_ne _ _ _ _ (Ne.symm hne)
  · have hi := c02h_integrateDev_outside s.off d r (Or.inl (by omega))
    refine ⟨s, d, false, ?_, RFrame.refl s, fun _ => rfl, fun _ => hhi, by simp, hd, fun _ _ => rfl, rfl, hlen,
      ?_⟩
    · unfold integrate; rw [hd]; simp only [hi]
    · intro i hi'
      rw [if_neg (by omega)]; exact hget i hi'

/-! ### `replayReports` -/

/-- The devices of `s'` are those of `s` with the reports `rs` folded into their slots. -/
def DevFold (off : Nat) (rs : List Report) (s s' : State) : Prop :=
  (∀ id, s.devices.get id = none → s'.devices.get id = none) ∧
  ∀ id d, s.devices.get id = some d → ∃ d', s'.devices.get id = some d' ∧ d'.auth = d.auth ∧
    d'.reports.length = window ∧
    ∀ i, i < window → d'.reports[i]? =
      some ((rs.filter (fun r => r.id = id ∧ r.ts = off + i)).foldl (slotStep d.auth.cap)
        (d.reports[i]?.getD Report.zero))

/-- Replaying a report file whose records all belong to a banned id or to a live
device that signed them, below the window end: the replay succeeds, re-appends
some of the records, folds each record into its slot, and leaves the rest alone. -/
theorem c04h_replay_spec (cfg : Cfg) (V : Verify) (rs : List Report) (s : State) (hinv : Inv s)
    (hok : ∀ r ∈ rs, r.id ∉ s.bans → ∃ d, s.devices.get r.id = some d ∧
      V d.auth.key (Report.signingBytes r) r.sig = true) :
    ∃ s', replayReports cfg V s rs = some s' ∧ RFrame s s' ∧
      (∃ again, s'.disk.reports = s.disk.reports ++ again ∧ ∀ x ∈ again, x ∈ rs) ∧
      DevFold s.off rs s s' := by
  induction rs generalizing s with
  | nil =>
    refine ⟨s, rfl, RFrame.refl s, ⟨[], by simp, by simp⟩, fun _ h => h, ?_⟩
    intro id d hd
    refine ⟨d, hd, rfl, (hinv.devOk id d hd).2.1, ?_⟩
    intro i hi
    have hl := (hinv.devOk id d hd).2.1
    rw [List.getElem?_eq_getElem (by omega)]; rfl
  | cons r rs ih =>
    by_cases hb : s.bans.contains r.id = true
    · have hmem : r.id ∈ s.bans := List.contains_iff_mem.mp hb
      obtain ⟨s', hrep, hfr, hag, hnone, hsome⟩ := ih s hinv (fun x hx => hok x (by simp [hx]))
      refine ⟨s', ?_, hfr, ?_, hnone, ?_⟩
      · rw [replayReports, if_pos hb]; exact hrep
      · obtain ⟨again, h1, h2⟩ := hag
        exact ⟨again, h1, fun x hx => by simp [h2 x hx]⟩
      · intro id d hd
        obtain ⟨d', h1, h2, h3, h4⟩ := hsome id d hd
        refine ⟨d', h1, h2, h3, ?_⟩
        intro i hi
        have hne : r.id ≠ id := by
          intro e; rw [e] at hmem; rw [hinv.banned id hmem] at hd; cases hd
        rw [List.filter_cons_of_neg (by simp [hne])]
        exact h4 i hi
    · have hnm : r.id ∉ s.bans := fun h => hb (List.contains_iff_mem.mpr h)
      obtain ⟨d0, hd0, hv⟩ := hok r (by simp) hnm
      have hl0 := (hinv.devOk r.id d0 hd0).2.1
      obtain ⟨s1, d1, b, hint, hf1, _, _, hdisk1, hget1, hoth1, ha1, hl1, hsl1⟩ :=
        c04h_integrate_spec cfg s r d0 hd0 hl0
      have hinv1 : Inv s1 := inv_integrate cfg s s1 r b hinv hint
      have hok1 : ∀ x ∈ rs, x.id ∉ s1.bans → ∃ d, s1.devices.get x.id = some d ∧
          V d.auth.key (Report.signingBytes x) x.sig = true := by
        intro x hx hxb
        rw [hf1.bans] at hxb
        obtain ⟨dx, h1, h2⟩ := hok x (by simp [hx]) hxb
        by_cases e : x.id = r.id
        · rw [e] at h1 ⊢
          rw [hd0] at h1; cases h1
          exact ⟨d1, hget1, by rw [ha1]; exact h2⟩
        · exact ⟨dx, by rw [hoth1 _ e]; exact h1, h2⟩
      obtain ⟨s', hrep, hfr, hag, hnone, hsome⟩ := ih s1 hinv1 hok1
      refine ⟨s', ?_, hf1.trans hfr, ?_, ?_, ?_⟩
      · rw [replayReports, if_neg hb, hd0]
        simp only [hv, Bool.not_true, Bool.false_eq_true, if_false, hint]
        exact hrep
      · obtain ⟨again, h1, h2⟩ := hag
        refine ⟨(if b then [r] else []) ++ again, ?_, ?_⟩
        · rw [h1, hdisk1, List.append_assoc]
        · intro x hx
          rcases List.mem_append.mp hx with hx | hx
          · cases b <;> simp at hx
            simp [hx]
          · simp [h2 x hx]
      · intro id hid
        apply hnone
        by_cases e : id = r.id
        · rw [e, hd0] at hid; cases hid
        · rw [hoth1 _ e]; exact hid
      · intro id d hd
        by_cases e : id = r.id
        · rw [e, hd0] at hd; cases hd
          obtain ⟨d', h1, h2, h3, h4⟩ := hsome r.id d1 hget1
          refine ⟨d', by rw [e]; exact h1, h2.trans ha1, h3, ?_⟩
          intro i hi
          rw [h4 i hi, hsl1 i hi, Option.getD_some, ha1, hf1.off, e]
          by_cases et : r.ts = s.off + i
          · rw [if_pos et, List.filter_cons_of_pos (by simp [et]), List.foldl_cons]
          · rw [if_neg et, List.filter_cons_of_neg (by simp [et])]
        · have hd1 : s1.devices.get id = some d := by rw [hoth1 _ e]; exact hd
          obtain ⟨d', h1, h2, h3, h4⟩ := hsome id d hd1
          refine ⟨d', h1, h2, h3, ?_⟩
          intro i hi
          rw [h4 i hi, hf1.off, List.filter_cons_of_neg (by simp [Ne.symm e])]

/-! ### Small facts about the replay of the authorization file -/

theorem c04h_replayAuth_srvPub (cfg : Cfg) (s : State) (a : Auth) : (replayAuth cfg s a).srvPub = s.srvPub := by
  unfold replayAuth
  split
  · rfl
  · split
    · split <;> rfl
    · split <;> rfl

theorem c04h_foldl_replayAuth_srvPub (cfg : Cfg) (l : List Auth) (s : State) :
    (l.foldl (replayAuth cfg) s).srvPub = s.srvPub := by
  induction l generalizing s with
  | nil => rfl
  | cons a t ih => rw [List.foldl_cons, ih, c04h_replayAuth_srvPub]

/-- Every device has an empty window. -/
def Blank (s : State) : Prop := ∀ id d, s.devices.get id = some d → d.reports = blankReports

theorem c04h_replayAuth_blank (cfg : Cfg) (s : State) (a : Auth) (h : Blank s) : Blank (replayAuth cfg s a) := by
  unfold replayAuth
  split
  · exact h
  · split
    · split
      · exact h
      · intro id d hd
        simp only [banDevice] at hd
        by_cases e : a.id = id
        · subst e; rw [get_del_same] at hd; cases hd
        · rw [get_del_ne _ _ _ e] at hd; exact h id d hd
    · split
      · exact h
      · intro id d hd
        simp only at hd
        by_cases e : a.id = id
        · subst e; rw [get_set_same] at hd; cases hd; rfl
        · rw [get_set_ne _ _ _ _ e] at hd; exact h id d hd

theorem c04h_foldl_replayAuth_blank (cfg : Cfg) (l : List Auth) (s : State) (h : Blank s) :
    Blank (l.foldl (replayAuth cfg) s) := by
  induction l generalizing s with
  | nil => exact h
  | cons a t ih => exact ih _ (c04h_replayAuth_blank cfg s a h)

theorem c04h_blank_getD (i : Nat) : (blankReports[i]?).getD Report.zero = Report.zero := by
  simp only [blankReports, List.getElem?_replicate]
  split <;> rfl

theorem c04h_buildStats_ok (sgn : Bytes → Bytes) (s : State) (h : Inv s) : ∃ w, buildStats sgn s s.off = some w := by
  have h0 : s.off % week = 0 := by rw [h.offHist]; exact Nat.mul_mod_right _ _
  unfold buildStats
  rw [if_neg (by simp [h0]), if_neg (Nat.lt_irrefl _), if_neg (by omega)]
  exact ⟨_, rfl⟩

/-! ### `loadCoreFrom` on a directory the server wrote itself -/

/-- Window offset computed from the archive file at start-up. -/
def loadOff (ws : List Week) : Nat := match ws.getLast? with | none => 0 | some w => w.tso + week

theorem c04h_loadOff (ws : List Week) (hw : ∀ k (h : k < ws.length), (ws[k]).tso = week * k) :
    loadOff ws = week * ws.length := (histInv_of_weeks ws hw).offHist

theorem c04h_loadCoreFrom_eq (cfg : Cfg) (V : Verify) (srvPub : Key) (d : Disk) (tempKey gk : Key) (av : Bool)
    (hl : srvPub.length = 32) (hg : GcaInv gk av d.gcaKey)
    (hsig : ∀ a ∈ d.auths, V gk (Auth.signingBytes a) a.sig = true) :
    loadCoreFrom cfg V srvPub d tempKey =
      replayReports cfg V
        { d.auths.foldl (replayAuth cfg)
            { gcaKey := gk, gcaAvail := av, tempKey := tempKey, srvPub := srvPub, disk := d } with
          history := d.weeks, off := loadOff d.weeks } d.reports := by
  have hany : d.auths.any (fun a => !V gk (Auth.signingBytes a) a.sig) = false := by
    rw [List.any_eq_false]
    intro a ha
    simp [hsig a ha]
  unfold loadCoreFrom
  rw [if_neg (by simp [hl])]
  cases av with
  | false =>
    obtain ⟨rfl, hd⟩ := hg.gcaUn rfl
    rcases hd with hd | hd <;> simp only [hd] <;> rw [if_neg (by simp [hany])] <;> rfl
  | true =>
    obtain ⟨hd, hlen⟩ := hg.gcaAv rfl
    cases gk with
    | nil => simp at hlen
    | cons c cs =>
      simp only [hd, if_pos hlen]
      rw [if_neg (by simp [hany])]
      rfl

/-! ### Devices through observables -/

theorem c04h_aobs_dev {a b : State} (h : aobs a = aobs b) :
    (∀ id, b.devices.get id = none → a.devices.get id = none) ∧
    ∀ id d, b.devices.get id = some d → ∃ d', a.devices.get id = some d' ∧ d'.auth = d.auth := by
  have h1 := ((c04h_aobs_iff a b).mp h).1
  constructor
  · intro id hd
    have := h1 id
    rw [hd] at this
    simpa using this
  · intro id d hd
    have := h1 id
    rw [hd] at this
    simpa using this

theorem c04h_aobs_of_devFold {off : Nat} {rs : List Report} {a b : State}
    (hs : b.shortIds = a.shortIds) (hb : b.bans = a.bans) (h : DevFold off rs a b) : aobs b = aobs a := by
  refine (c04h_aobs_iff b a).mpr ⟨fun id => ?_, fun k => by rw [hs], fun id => by rw [hb]⟩
  cases hd : a.devices.get id with
  | none => rw [h.1 id hd]
  | some d =>
    obtain ⟨d', h1, h2, _⟩ := h.2 id d hd
    rw [h1]; simp [h2]

/-! ### The replay path on the two records the live path appends -/

theorem c04h_replayAuth_conflict (cfg : Cfg) (s : State) (a : Auth) (cur : Dev)
    (hb : s.bans.contains a.id = false) (hc : s.devices.get a.id = some cur)
    (hne : Auth.encode cur.auth ≠ Auth.encode a) :
    replayAuth cfg s a =
      banDevice { s with recentA := pushRecent cfg.maxRecentAuth s.recentA a } a.id cur.auth := by
  unfold replayAuth
  rw [if_neg (by rw [hb]; simp), hc]
  simp only [if_neg hne]

theorem c04h_replayAuth_new (cfg : Cfg) (s : State) (a : Auth)
    (hb : s.bans.contains a.id = false) (hc : s.devices.get a.id = none) (hk : s.shortIds.get a.key = none) :
    replayAuth cfg s a =
      { s with recentA := pushRecent cfg.maxRecentAuth s.recentA a,
               shortIds := s.shortIds.set a.key a.id, devices := s.devices.set a.id (newDev a) } := by
  unfold replayAuth
  rw [if_neg (by rw [hb]; simp), hc]
  simp only [has_eq_isSome, hk, Option.isSome_none, Bool.false_eq_true, if_false]

/-! ### Trivial and single-report instances of `DevFold` -/

theorem c04h_devFold_nil (off : Nat) (s s' : State) (hinv : Inv s)
    (hnone : ∀ id, s.devices.get id = none → s'.devices.get id = none)
    (hsome : ∀ id d, s.devices.get id = some d → ∃ d', s'.devices.get id = some d' ∧ d'.auth = d.auth ∧
      d'.reports = d.reports) : DevFold off [] s s' := by
  refine ⟨hnone, ?_⟩
  intro id d hd
  obtain ⟨d', h1, h2, h3⟩ := hsome id d hd
  have hl := (hinv.devOk id d hd).2.1
  refine ⟨d', h1, h2, by rw [h3]; exact hl, ?_⟩
  intro i hi
  rw [h3, List.getElem?_eq_getElem (by omega)]; rfl

theorem c04h_devFold_refl (off : Nat) (s s' : State) (hinv : Inv s) (hdev : s'.devices = s.devices) :
    DevFold off [] s s' :=
  c04h_devFold_nil off s s' hinv (fun id h => by rw [hdev]; exact h)
    (fun id d h => ⟨d, by rw [hdev]; exact h, rfl, rfl⟩)

/-- `integrate` that recorded its report, as a `DevFold` over the one-element list. -/
theorem c04h_devFold_single (s s' : State) (r : Report) (d d' : Dev) (hinv : Inv s)
    (hd : s.devices.get r.id = some d) (hget : s'.devices.get r.id = some d')
    (hoth : ∀ id, id ≠ r.id → s'.devices.get id = s.devices.get id)
    (ha : d'.auth = d.auth) (hl : d'.reports.length = window)
    (hsl : ∀ i, i < window → d'.reports[i]? =
        some (if r.ts = s.off + i then slotStep d.auth.cap (d.reports[i]?.getD Report.zero) r
              else d.reports[i]?.getD Report.zero)) :
    DevFold s.off [r] s s' := by
  constructor
  · intro id hid
    have e : id ≠ r.id := by intro e; rw [e, hd] at hid; cases hid
    rw [hoth id e]; exact hid
  · intro id x hx
    by_cases e : id = r.id
    · rw [e, hd] at hx; cases hx
      refine ⟨d', by rw [e]; exact hget, ha, hl, ?_⟩
      intro i hi
      rw [hsl i hi, e]
      by_cases et : r.ts = s.off + i
      · rw [if_pos et, List.filter_cons_of_pos (by simp [et])]; rfl
      · rw [if_neg et, List.filter_cons_of_neg (by simp [et])]; rfl
    · have hl' := (hinv.devOk id x hx).2.1
      refine ⟨x, by rw [hoth id e]; exact hx, rfl, hl', ?_⟩
      intro i hi
      rw [List.filter_cons_of_neg (by simp [Ne.symm e]), List.getElem?_eq_getElem (by omega)]; rfl

end Gca.Srv
