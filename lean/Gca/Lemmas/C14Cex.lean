import Gca.Props.C14
namespace Gca.Srv
open Gca

def cxOnes : Bytes := List.replicate 32 1
def cxV : Verify := fun k _ _ => decide (k = cxOnes)
def cxA1 : Auth := ⟨1, zeros 32, 0, 0, 1000, 0, 0, 0, 0, zeros 64⟩
def cxA2 : Auth := { cxA1 with debt := 7 }
def cxR : Report := ⟨1, 5, 500, zeros 64⟩
def cxS : State :=
  { gcaKey := cxOnes, gcaAvail := true, srvPub := zeros 32, bans := [1],
    disk := { srvKeys := some (zeros 32), gcaKey := some cxOnes, auths := [cxA1, cxA2], reports := [cxR] } }

theorem cx_sync : Sync {} cxV cxS := by
  have hd : (cxS.disk.auths.foldl (replayAuth {}) (base cxS)).devices = [] := by decide +kernel
  have hs : (cxS.disk.auths.foldl (replayAuth {}) (base cxS)).shortIds = [] := by decide +kernel
  have hb : (cxS.disk.auths.foldl (replayAuth {}) (base cxS)).bans = [1] := by decide +kernel
  refine ⟨?_, ⟨zeros 32, rfl, by decide, rfl⟩, ?_, ?_, ?_, ?_, ?_, ?_⟩
  · refine Inv.ofParts ⟨?_, ?_, ?_, ?_, ?_, ?_⟩ ⟨rfl, fun k hk => absurd hk (Nat.not_lt_zero k), rfl⟩
      ⟨fun h => (by cases h), fun _ => ⟨rfl, by decide⟩⟩
    · intro id d h; cases h
    · intro id d h; cases h
    · intro k id h; cases h
    · intro id _; rfl
    · exact List.nodup_nil
    · exact List.nodup_nil
  · simp only [hd, hs, hb]
    exact ⟨fun _ => rfl, fun _ => rfl, fun _ => Iff.rfl⟩
  · intro a _; rfl
  · intro r hr hb
    have : r = cxR := by simpa [cxS] using hr
    subst this
    exact absurd (by decide : cxR.id ∈ cxS.bans) hb
  · intro id d h; cases h
  · intro id d h; cases h
  · intro h; cases h

/-- `c14_report_has_auth` as stated (from `Sync` alone) is false. -/
theorem cx_report_has_auth_false :
    ¬ (∀ (cfg : Cfg) (V : Verify) (s : State), Sync cfg V s → (∀ m sg, V (zeros 32) m sg = false) →
        ∀ r ∈ s.disk.reports, ∃ a ∈ s.disk.auths, a.id = r.id ∧ V a.key (Report.signingBytes r) r.sig = true) := by
  intro h
  obtain ⟨a, ha, _, hv⟩ := h {} cxV cxS cx_sync (fun _ _ => (by decide : decide (zeros 32 = cxOnes) = false)) cxR (by decide)
  have hk : a.key = zeros 32 := by
    have : a = cxA1 ∨ a = cxA2 := by simpa [cxS] using ha
    rcases this with e | e <;> rw [e] <;> rfl
  rw [hk] at hv
  exact absurd hv (by decide)

/-- and so is the first clause of `c14_closed` (take `sa = sb = sc = se`, no operations). -/
theorem cx_closed_false :
    ¬ (∀ (cfg : Cfg) (V : Verify) (sgn : Bytes → Bytes) (sa sb sc se : State),
        Sync cfg V sa → Reach cfg V sgn sa sb → Reach cfg V sgn sb sc → Reach cfg V sgn sc se →
        (∀ m sg, V (zeros 32) m sg = false) →
        (∀ r ∈ sb.disk.reports, ∃ a ∈ sc.disk.auths, a.id = r.id ∧ V a.key (Report.signingBytes r) r.sig = true) ∧
        (∀ a ∈ sc.disk.auths, ∃ k, se.disk.gcaKey = some k ∧ V k (Auth.signingBytes a) a.sig = true) ∧
        (∃ x, se.disk.weeks = sa.disk.weeks ++ x)) := by
  intro h
  have hr : Reach {} cxV (fun _ => []) cxS cxS := ⟨[], by simp, rfl⟩
  obtain ⟨h1, _⟩ := h {} cxV (fun _ => []) cxS cxS cxS cxS cx_sync hr hr hr (fun _ _ => (by decide : decide (zeros 32 = cxOnes) = false))
  obtain ⟨a, ha, _, hv⟩ := h1 cxR (by decide)
  have hk : a.key = zeros 32 := by
    have : a = cxA1 ∨ a = cxA2 := by simpa [cxS] using ha
    rcases this with e | e <;> rw [e] <;> rfl
  rw [hk] at hv
  exact absurd hv (by decide)

#print axioms cx_report_has_auth_false
#print axioms cx_closed_false
end Gca.Srv
