import Gca.Basic
/-
glow/event_log.go: EventLogger. Lines are byte strings (Go `len(string)` and
`key[:n]` count bytes). Time is an integer (nanoseconds). The Go map is modelled
as a list of entries with distinct lines, in insertion order; the eviction and
dump orders come from a stable sort by last update, so ties are resolved by
insertion order in the model while Go leaves them open (sort.Slice is not
stable and map iteration order is random) - comparisons with the
implementation are therefore made modulo ties.
A step that would panic in Go (index out of range) returns `none`.
-/
namespace Gca.EL

structure Entry where
  line : Bytes
  ups  : List Int      -- update times, oldest first
deriving DecidableEq, Repr

structure Log where
  expiry  : Int        -- logExpiry
  maxB    : Nat        -- logMaxBytes
  maxLine : Nat        -- logMaxLineBytes
  entries : List Entry
  size    : Int        -- logSizeBytes (the logger's own counter)
deriving DecidableEq, Repr

def init (expiry : Int) (maxB maxLine : Nat) : Log := ⟨expiry, maxB, maxLine, [], 0⟩

def cost (e : Entry) : Int := 2 * e.line.length

/-- `ExpireLogs(now)`: drop the leading updates strictly before `now - expiry`
from every entry; entries left without updates are deleted and their size is
given back. -/
def expire (l : Log) (now : Int) : Log :=
  let cut := now - l.expiry
  let es := l.entries.map (fun e => { e with ups := e.ups.dropWhile (fun t => t < cut) })
  let dead := es.filter (fun e => e.ups.isEmpty)
  { l with entries := es.filter (fun e => !e.ups.isEmpty),
           size := l.size - (dead.map cost).sum }

/-- Last update of an entry; `none` where Go would index an empty slice. -/
def lastUp (e : Entry) : Option Int := e.ups.getLast?

/-- Insert into a list sorted by last update (ascending), after equal keys. -/
def insertByLast (e : Entry) (k : Int) : List (Entry × Int) → List (Entry × Int)
  | [] => [(e, k)]
  | (f, kf) :: r => if k < kf then (e, k) :: (f, kf) :: r else (f, kf) :: insertByLast e k r

/-- Stable sort of the entries by last update; `none` if some entry has no update. -/
def sortByLast : List Entry → Option (List (Entry × Int))
  | [] => some []
  | e :: es => match lastUp e, sortByLast es with
    | some k, some r => some (insertByLast e k r)
    | _, _ => none

/-- The eviction loop: remove entries from the front of `order` while the new
line does not fit. Returns the evicted lines and the new size; `none` = index
out of range on an empty `order`. -/
def evict (need : Int) (maxB : Nat) : List (Entry × Int) → Int → Option (List Bytes × Int)
  | order, size =>
    if need + size > maxB then
      match order with
      | [] => none
      | (e, _) :: r => match evict need maxB r (size - cost e) with
        | none => none
        | some (ev, sz) => some (e.line :: ev, sz)
    else some ([], size)

/-- `Printf` at clock value `now` with the already formatted line `raw`. -/
def printf (l : Log) (now : Int) (raw : Bytes) : Option Log :=
  let l := expire l now
  let key := if raw.length > l.maxLine then raw.take l.maxLine else raw
  let need : Int := 2 * key.length
  if need > l.maxB then some l else
  if l.entries.any (fun e => e.line == key) then
    some { l with entries := l.entries.map (fun e => if e.line == key then { e with ups := e.ups ++ [now] } else e) }
  else
    let order := if need + l.size > l.maxB then sortByLast l.entries else some []
    match order with
    | none => none
    | some order =>
      match evict need l.maxB order l.size with
      | none => none
      | some (ev, sz) =>
        some { l with entries := (l.entries.filter (fun e => !ev.contains e.line)) ++ [⟨key, [now]⟩],
                      size := sz + need }

/-- `DumpLogEntries` at clock value `now`: the expired log and the lines ordered
by last update (ascending). -/
def dump (l : Log) (now : Int) : Option (Log × List Bytes) :=
  let l := expire l now
  match sortByLast l.entries with
  | none => none
  | some order => some (l, order.map (fun p => p.1.line))

inductive Op where
  | printf (now : Int) (line : Bytes)
  | expire (now : Int)
  | dump (now : Int)
deriving Repr

def step (l : Log) : Op → Option Log
  | .printf now line => printf l now line
  | .expire now => some (expire l now)
  | .dump now => (dump l now).map (·.1)

def run (l : Log) : List Op → Option Log
  | [] => some l
  | op :: ops => match step l op with
    | none => none
    | some l' => run l' ops

end Gca.EL
