import Gca.Basic
/-
glow/report.go: EquipmentReport, Serialize, DeserializeReport, SigningBytes.
-/
namespace Gca

structure Report where
  id  : Nat      -- ShortID   uint32
  ts  : Nat      -- Timeslot  uint32
  p   : Nat      -- PowerOutput uint64
  sig : Bytes    -- Signature [64]byte
deriving DecidableEq, Repr, Inhabited

namespace Report

/-- Go zero value of the struct (an empty slot). -/
def zero : Report := ⟨0, 0, 0, zeros 64⟩

/-- Values representable by the Go struct. -/
def WF (r : Report) : Prop :=
  r.id < 2^32 ∧ r.ts < 2^32 ∧ r.p < 2^64 ∧ r.sig.length = 64

instance (r : Report) : Decidable r.WF := by unfold WF; infer_instance

/-- `EquipmentReport.Serialize`: 80 bytes. -/
def encode (r : Report) : Bytes :=
  leBytes 4 r.id ++ (leBytes 4 r.ts ++ (leBytes 8 r.p ++ r.sig))

/-- `DeserializeReport`: refuses anything but 80 bytes. -/
def decode (b : Bytes) : Option Report :=
  if b.length ≠ 80 then none else
  some ⟨unle (b.take 4), unle ((b.drop 4).take 4), unle ((b.drop 8).take 8), b.drop 16⟩

/-- `EquipmentReport.SigningBytes`: ASCII prefix, then id, timeslot, power. -/
def prefixStr : String := "EquipmentReport"
def signingBytes (r : Report) : Bytes :=
  ascii prefixStr ++ (leBytes 4 r.id ++ (leBytes 4 r.ts ++ leBytes 8 r.p))

theorem encode_length (r : Report) (h : r.sig.length = 64) : (encode r).length = 80 := by
  simp [encode, h]

theorem decode_encode (r : Report) (h : r.WF) : decode (encode r) = some r := by
  obtain ⟨h1, h2, h3, h4⟩ := h
  have hl : (encode r).length = 80 := encode_length r h4
  simp only [decode, hl, ne_eq, not_true_eq_false, ↓reduceIte]
  simp only [encode]
  rw [take_app _ _ (leBytes_length 4 _), drop_app _ _ (leBytes_length 4 _)]
  rw [take_app _ _ (leBytes_length 4 _)]
  have e8 : List.drop 8 (leBytes 4 r.id ++ (leBytes 4 r.ts ++ (leBytes 8 r.p ++ r.sig)))
      = leBytes 8 r.p ++ r.sig := by
    rw [← List.append_assoc]; exact drop_app _ _ (by simp)
  have e16 : List.drop 16 (leBytes 4 r.id ++ (leBytes 4 r.ts ++ (leBytes 8 r.p ++ r.sig)))
      = r.sig := by
    rw [← List.append_assoc, ← List.append_assoc]; exact drop_app _ _ (by simp)
  rw [e8, e16, take_app _ _ (leBytes_length 8 _)]
  rw [unle_leBytes_of_lt (by simpa using h1), unle_leBytes_of_lt (by simpa using h2),
      unle_leBytes_of_lt (by simpa using h3)]

theorem decode_wf {b : Bytes} {r : Report} (h : decode b = some r) : r.WF := by
  unfold decode at h
  split at h
  · cases h
  · rename_i hl
    have hl : b.length = 80 := by simpa using hl
    cases h
    refine ⟨?_, ?_, ?_, ?_⟩
    · have := unle_lt (b.take 4); simp [hl] at this; simpa using this
    · have := unle_lt ((b.drop 4).take 4); simp [hl] at this; simpa using this
    · have := unle_lt ((b.drop 8).take 8); simp [hl] at this; simpa using this
    · simp [hl]

theorem decode_none_of_length {b : Bytes} (h : b.length ≠ 80) : decode b = none := by
  simp [decode, h]

theorem encode_decode {b : Bytes} {r : Report} (h : decode b = some r) : encode r = b := by
  unfold decode at h
  split at h
  · cases h
  · rename_i hl
    have hl : b.length = 80 := by simpa using hl
    cases h
    simp only [encode]
    rw [leBytes_unle' _ (by simp [hl]), leBytes_unle' _ (by simp [hl]), leBytes_unle' _ (by simp [hl])]
    have : b.drop 16 = (b.drop 8).drop 8 := by simp
    rw [this, List.take_append_drop]
    have : b.drop 8 = (b.drop 4).drop 4 := by simp
    rw [this, List.take_append_drop, List.take_append_drop]

/-- Signing bytes determine the signed fields (injectivity). -/
theorem signingBytes_inj {r s : Report} (hr : r.WF) (hs : s.WF)
    (h : signingBytes r = signingBytes s) : r.id = s.id ∧ r.ts = s.ts ∧ r.p = s.p := by
  unfold signingBytes at h
  have h := List.append_cancel_left h
  obtain ⟨a, h⟩ := app_inj (by simp) h
  obtain ⟨b, c⟩ := app_inj (by simp) h
  exact ⟨leBytes_inj (by simpa using hr.1) (by simpa using hs.1) a,
         leBytes_inj (by simpa using hr.2.1) (by simpa using hs.2.1) b,
         leBytes_inj (by simpa using hr.2.2.1) (by simpa using hs.2.2.1) c⟩

end Report
end Gca
