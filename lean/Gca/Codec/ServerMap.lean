import Gca.Basic
/-
client/gcaserver.go: SerializeGCAServerMap / UntrustedDeserializeGCAServerMap
(gcaServers.dat). The Go map is iterated in arbitrary order; the model encodes
a list of entries (the order the map happened to yield) and decodes to the list
of entries in file order; `toMap` is the map the Go decoder builds (later
entries overwrite earlier ones with the same key).
-/
namespace Gca

structure CServer where
  banned : Bool
  loc    : Bytes
  http   : Nat
  tcp    : Nat
  udp    : Nat
deriving DecidableEq, Repr, Inhabited

abbrev CEntry := Bytes × CServer

namespace CServer

def WF (e : CEntry) : Prop :=
  e.1.length = 32 ∧ e.2.loc.length < 2^16 ∧ e.2.http < 2^16 ∧ e.2.tcp < 2^16 ∧ e.2.udp < 2^16

instance (e : CEntry) : Decidable (WF e) := by unfold WF; infer_instance

def encode1 (e : CEntry) : Bytes :=
  e.1 ++ ([if e.2.banned then 1 else 0] ++ (leBytes 2 e.2.loc.length ++ (e.2.loc ++
  (leBytes 2 e.2.http ++ (leBytes 2 e.2.tcp ++ leBytes 2 e.2.udp)))))

/-- `SerializeGCAServerMap`: refuses a location longer than 65535 bytes. -/
def encodeMap : List CEntry → Option Bytes
  | [] => some []
  | e :: es =>
    if e.2.loc.length > 0xFFFF then none else
    match encodeMap es with
    | none => none
    | some r => some (encode1 e ++ r)

/-- One entry of `UntrustedDeserializeGCAServerMap`. -/
def decode1 (b : Bytes) : Option (CEntry × Bytes) :=
  if b.length < 32 then none else
  let (key, b) := rd 32 b
  if b.length < 1 then none else
  let (bn, b) := rd 1 b
  if b.length < 2 then none else
  let (ll, b) := rd 2 b
  let n := unle ll
  if b.length < n then none else
  let (loc, b) := rd n b
  if b.length < 6 then none else
  let (http, b) := rd 2 b
  let (tcp, b) := rd 2 b
  let (udp, b) := rd 2 b
  some ((key, ⟨unle bn != 0, loc, unle http, unle tcp, unle udp⟩), b)

def decodeMap : Nat → Bytes → Option (List CEntry)
  | 0, b => if b.isEmpty then some [] else none
  | fuel+1, b =>
    if b.isEmpty then some [] else
    match decode1 b with
    | none => none
    | some (e, r) => match decodeMap fuel r with
      | none => none
      | some es => some (e :: es)

theorem encode1_length (e : CEntry) (h : WF e) : (encode1 e).length = 41 + e.2.loc.length := by
  simp [encode1, h.1]; omega

theorem decode1_encode1 (e : CEntry) (r : Bytes) (h : WF e) : decode1 (encode1 e ++ r) = some (e, r) := by
  have hl := encode1_length e h
  obtain ⟨h1, h2, h3, h4, h5⟩ := h
  unfold decode1
  rw [if_neg (by simp [hl] <;> omega)]
  simp only [encode1, List.append_assoc]
  rw [rd_app _ _ h1]; simp only
  rw [if_neg (by simp)]
  rw [rd_app _ _ (by simp)]; simp only
  rw [if_neg (by simp <;> omega)]
  rw [rd_app _ _ (leBytes_length 2 _)]; simp only
  rw [unle_leBytes_of_lt (by simpa using h2)]
  rw [if_neg (by simp <;> omega)]
  rw [rd_app _ _ rfl]; simp only
  rw [if_neg (by simp <;> omega)]
  rw [rd_app _ _ (leBytes_length 2 _)]; simp only
  rw [rd_app _ _ (leBytes_length 2 _)]; simp only
  rw [rd_app _ _ (leBytes_length 2 _)]; simp only
  rw [unle_leBytes_of_lt (by simpa using h3), unle_leBytes_of_lt (by simpa using h4),
      unle_leBytes_of_lt (by simpa using h5)]
  have : (unle [if e.2.banned = true then (1 : UInt8) else 0] != 0) = e.2.banned := by
    cases e.2.banned <;> simp [unle]
  rw [this]

theorem encodeMap_some (es : List CEntry) (h : ∀ e ∈ es, WF e) :
    ∃ b, encodeMap es = some b ∧ es.length ≤ b.length ∧
      ∀ fuel, es.length ≤ fuel → decodeMap fuel b = some es := by
  induction es with
  | nil => exact ⟨[], rfl, by simp, fun fuel _ => by cases fuel <;> simp [decodeMap]⟩
  | cons e es ih =>
    obtain ⟨b, hb, hlen, hdec⟩ := ih (fun x hx => h x (by simp [hx]))
    have he := h e (by simp)
    have hl := encode1_length e he
    refine ⟨encode1 e ++ b, ?_, ?_, ?_⟩
    · have : ¬ e.2.loc.length > 0xFFFF := by have := he.2.1; omega
      simp [encodeMap, this, hb]
    · simp [hl]; omega
    · intro fuel hf
      cases fuel with
      | zero => simp at hf
      | succ fuel =>
        have hne : (encode1 e ++ b).isEmpty = false := by
          cases hx : encode1 e with
          | nil => rw [hx] at hl; simp at hl; omega
          | cons x xs => simp
        simp only [decodeMap, hne, decode1_encode1 e _ he]
        rw [hdec fuel (by simpa using hf)]
        simp

/-- A location longer than 65535 bytes is refused by the encoder. -/
theorem encodeMap_none_of_long (e : CEntry) (es : List CEntry) (h : e.2.loc.length > 0xFFFF) :
    encodeMap (e :: es) = none := by
  simp [encodeMap, h]

end CServer
end Gca
