import Gca.Basic
/-
glow/equipment_authorization.go: EquipmentAuthorization (148 bytes on disk),
SigningBytes = "EquipmentAuthorization" ++ first 84 bytes.
Floats are carried as their IEEE-754 bit patterns (`math.Float64bits`).
-/
namespace Gca

structure Auth where
  id   : Nat     -- ShortID uint32
  key  : Bytes   -- PublicKey [32]byte
  lat  : Nat     -- Float64bits(Latitude)
  lon  : Nat     -- Float64bits(Longitude)
  cap  : Nat     -- Capacity uint64
  debt : Nat     -- Debt uint64
  exp  : Nat     -- Expiration uint32
  ini  : Nat     -- Initialization uint32
  fee  : Nat     -- ProtocolFee uint64
  sig  : Bytes   -- Signature [64]byte
deriving DecidableEq, Repr, Inhabited

namespace Auth

def WF (a : Auth) : Prop :=
  a.id < 2^32 ∧ a.key.length = 32 ∧ a.lat < 2^64 ∧ a.lon < 2^64 ∧ a.cap < 2^64 ∧
  a.debt < 2^64 ∧ a.exp < 2^32 ∧ a.ini < 2^32 ∧ a.fee < 2^64 ∧ a.sig.length = 64

instance (a : Auth) : Decidable a.WF := by unfold WF; infer_instance

/-- The 84 signed bytes (everything but the signature). -/
def body (a : Auth) : Bytes :=
  leBytes 4 a.id ++ (a.key ++ (leBytes 8 a.lat ++ (leBytes 8 a.lon ++ (leBytes 8 a.cap ++
  (leBytes 8 a.debt ++ (leBytes 4 a.exp ++ (leBytes 4 a.ini ++ leBytes 8 a.fee)))))))

def encode (a : Auth) : Bytes := body a ++ a.sig

def prefixStr : String := "EquipmentAuthorization"
def signingBytes (a : Auth) : Bytes := ascii prefixStr ++ body a

def decode (b : Bytes) : Option Auth :=
  if b.length ≠ 148 then none else
  let (id, b) := rd 4 b;  let (key, b) := rd 32 b
  let (lat, b) := rd 8 b; let (lon, b) := rd 8 b
  let (cap, b) := rd 8 b; let (debt, b) := rd 8 b
  let (exp, b) := rd 4 b; let (ini, b) := rd 4 b
  let (fee, b) := rd 8 b
  some ⟨unle id, key, unle lat, unle lon, unle cap, unle debt, unle exp, unle ini, unle fee, b⟩

theorem body_length (a : Auth) (h : a.key.length = 32) : (body a).length = 84 := by
  simp [body, h]

theorem encode_length (a : Auth) (h : a.WF) : (encode a).length = 148 := by
  simp [encode, body_length a h.2.1, h.2.2.2.2.2.2.2.2.2]

theorem decode_encode (a : Auth) (h : a.WF) : decode (encode a) = some a := by
  have hl := encode_length a h
  obtain ⟨h1, h2, h3, h4, h5, h6, h7, h8, h9, h10⟩ := h
  unfold decode
  rw [if_neg (by rw [hl]; simp)]
  simp only [encode, body, List.append_assoc]
  rw [rd_app _ _ (leBytes_length 4 _)]; simp only
  rw [rd_app _ _ h2]; simp only
  rw [rd_app _ _ (leBytes_length 8 _)]; simp only
  rw [rd_app _ _ (leBytes_length 8 _)]; simp only
  rw [rd_app _ _ (leBytes_length 8 _)]; simp only
  rw [rd_app _ _ (leBytes_length 8 _)]; simp only
  rw [rd_app _ _ (leBytes_length 4 _)]; simp only
  rw [rd_app _ _ (leBytes_length 4 _)]; simp only
  rw [rd_app _ _ (leBytes_length 8 _)]; simp only
  rw [unle_leBytes_of_lt (by simpa using h1), unle_leBytes_of_lt (by simpa using h3),
      unle_leBytes_of_lt (by simpa using h4), unle_leBytes_of_lt (by simpa using h5),
      unle_leBytes_of_lt (by simpa using h6), unle_leBytes_of_lt (by simpa using h7),
      unle_leBytes_of_lt (by simpa using h8), unle_leBytes_of_lt (by simpa using h9)]

theorem decode_none_of_length {b : Bytes} (h : b.length ≠ 148) : decode b = none := by
  simp [decode, h]

/-- Distinct well-formed authorizations have distinct encodings. -/
theorem encode_inj {a b : Auth} (ha : a.WF) (hb : b.WF) (h : encode a = encode b) : a = b := by
  have := congrArg decode h
  rw [decode_encode a ha, decode_encode b hb] at this
  exact Option.some.inj this

theorem body_inj {a b : Auth} (ha : a.WF) (hb : b.WF) (h : body a = body b) :
    { a with sig := [] } = { b with sig := [] } := by
  have h1 : encode { a with sig := b.sig } = encode b := by
    show body { a with sig := b.sig } ++ b.sig = body b ++ b.sig
    have : body { a with sig := b.sig } = body a := rfl
    rw [this, h]
  have hwf : ({ a with sig := b.sig } : Auth).WF := by
    obtain ⟨h1, h2, h3, h4, h5, h6, h7, h8, h9, _⟩ := ha
    exact ⟨h1, h2, h3, h4, h5, h6, h7, h8, h9, hb.2.2.2.2.2.2.2.2.2⟩
  have := encode_inj hwf hb h1
  cases a; cases b; simp_all

/-- Signing bytes determine every signed field. -/
theorem signingBytes_inj {a b : Auth} (ha : a.WF) (hb : b.WF)
    (h : signingBytes a = signingBytes b) : { a with sig := [] } = { b with sig := [] } :=
  body_inj ha hb (List.append_cancel_left h)

end Auth
end Gca
