import Gca.Basic
/-
server/api_device_stats.go: DeviceStats, AllDeviceStats, SigningBytes,
Serialize and DeserializeStreamAllDeviceStats (the weekly-statistics stream in
allDeviceStats.dat). Impact rates are carried as IEEE-754 bit patterns.
-/
namespace Gca

/-- Slots per week. -/
def weekSlots : Nat := 2016

structure Dev where
  key     : Bytes      -- PublicKey [32]byte
  powers  : List Nat   -- [2016]uint64
  impacts : List Nat   -- [2016]float64 as bits
deriving DecidableEq, Repr, Inhabited

structure Week where
  devs : List Dev
  tso  : Nat           -- TimeslotOffset uint32
  sig  : Bytes         -- [64]byte
deriving DecidableEq, Repr, Inhabited

namespace Dev
def WF (d : Dev) : Prop :=
  d.key.length = 32 ∧ d.powers.length = weekSlots ∧ d.impacts.length = weekSlots ∧
  (∀ v ∈ d.powers, v < 256 ^ 8) ∧ (∀ v ∈ d.impacts, v < 256 ^ 8)

def encode (d : Dev) : Bytes := d.key ++ (leWords 8 d.powers ++ leWords 8 d.impacts)

theorem encode_length (d : Dev) (h : d.WF) : (encode d).length = 32 + 16 * weekSlots := by
  obtain ⟨h1, h2, h3, _, _⟩ := h
  simp [encode, h1, h2, h3]; omega

/-- One device of `DeserializeStreamAllDeviceStats` (the per-word length checks
of the Go loop fail exactly when fewer than 8*2016 bytes remain). -/
def decode1 (b : Bytes) : Option (Dev × Bytes) :=
  if b.length < 32 then none else
  let (key, b) := rd 32 b
  if b.length < 8 * weekSlots then none else
  let (ps, b) := rdWords 8 weekSlots b
  if b.length < 8 * weekSlots then none else
  let (is, b) := rdWords 8 weekSlots b
  some (⟨key, ps, is⟩, b)

theorem decode1_encode (d : Dev) (r : Bytes) (h : d.WF) : decode1 (encode d ++ r) = some (d, r) := by
  have hl := encode_length d h
  obtain ⟨h1, h2, h3, h4, h5⟩ := h
  unfold decode1
  rw [if_neg (by simp [hl] <;> omega)]
  simp only [encode, List.append_assoc]
  rw [rd_app _ _ h1]; simp only
  rw [if_neg (by simp [h2] <;> omega)]
  rw [← h2, rdWords_leWords 8 _ _ h4]; simp only
  rw [h2, if_neg (by simp [h3] <;> omega)]
  rw [← h3, rdWords_leWords 8 _ _ h5]
end Dev

def encodeDevs : List Dev → Bytes
  | [] => []
  | d :: ds => Dev.encode d ++ encodeDevs ds

def decodeDevs : Nat → Bytes → Option (List Dev × Bytes)
  | 0, b => some ([], b)
  | n+1, b => match Dev.decode1 b with
    | none => none
    | some (d, r) => match decodeDevs n r with
      | none => none
      | some (ds, r') => some (d :: ds, r')

theorem decodeDevs_encodeDevs (ds : List Dev) (r : Bytes) (h : ∀ d ∈ ds, d.WF) :
    decodeDevs ds.length (encodeDevs ds ++ r) = some (ds, r) := by
  induction ds with
  | nil => simp [decodeDevs, encodeDevs]
  | cons d ds ih =>
    simp only [List.length_cons, decodeDevs, encodeDevs, List.append_assoc,
      Dev.decode1_encode d _ (h d (by simp)), ih (fun e he => h e (by simp [he]))]

namespace Week

def WF (w : Week) : Prop :=
  w.devs.length < 2^32 ∧ (∀ d ∈ w.devs, d.WF) ∧ w.tso < 2^32 ∧ w.sig.length = 64

/-- The signed part: device count, devices, timeslot offset. -/
def body (w : Week) : Bytes :=
  leBytes 4 w.devs.length ++ (encodeDevs w.devs ++ leBytes 4 w.tso)

def prefixStr : String := "AllDeviceStats"
def signingBytes (w : Week) : Bytes := ascii prefixStr ++ body w
def encode (w : Week) : Bytes := body w ++ w.sig

/-- `DeserializeStreamAllDeviceStats`: one record and the rest of the stream. -/
def decode1 (b : Bytes) : Option (Week × Bytes) :=
  if b.length < 4 then none else
  let (n, b) := rd 4 b
  match decodeDevs (unle n) b with
  | none => none
  | some (ds, b) =>
    if b.length < 4 then none else
    let (tso, b) := rd 4 b
    if b.length < 64 then none else
    let (sig, b) := rd 64 b
    some (⟨ds, unle tso, sig⟩, b)

theorem decode1_encode (w : Week) (r : Bytes) (h : w.WF) : decode1 (encode w ++ r) = some (w, r) := by
  obtain ⟨h1, h2, h3, h4⟩ := h
  unfold decode1
  rw [if_neg (by simp [encode, body] <;> omega)]
  simp only [encode, body, List.append_assoc]
  rw [rd_app _ _ (leBytes_length 4 _)]; simp only
  rw [unle_leBytes_of_lt (by simpa using h1), decodeDevs_encodeDevs _ _ h2]; simp only
  rw [if_neg (by simp <;> omega)]
  rw [rd_app _ _ (leBytes_length 4 _)]; simp only
  rw [if_neg (by simp [h4])]
  rw [rd_app _ _ h4, unle_leBytes_of_lt (by simpa using h3)]

theorem encode_length_pos (w : Week) : 0 < (encode w).length := by
  simp [encode, body]; omega

end Week

def encodeStream : List Week → Bytes
  | [] => []
  | w :: ws => Week.encode w ++ encodeStream ws

/-- The loading loop of `loadEquipmentHistory`: decode records until the data is
used up; `none` = "unable to decode all device stats". -/
def decodeStream : Nat → Bytes → Option (List Week)
  | 0, b => if b.isEmpty then some [] else none
  | fuel+1, b =>
    if b.isEmpty then some [] else
    match Week.decode1 b with
    | none => none
    | some (w, r) => match decodeStream fuel r with
      | none => none
      | some ws => some (w :: ws)

theorem decodeStream_encodeStream (ws : List Week) (h : ∀ w ∈ ws, w.WF) (fuel : Nat)
    (hf : ws.length ≤ fuel) : decodeStream fuel (encodeStream ws) = some ws := by
  induction ws generalizing fuel with
  | nil => cases fuel <;> simp [encodeStream, decodeStream]
  | cons w ws ih =>
    cases fuel with
    | zero => simp at hf
    | succ fuel =>
      have hne : (Week.encode w ++ encodeStream ws).isEmpty = false := by
        have := Week.encode_length_pos w
        cases hw : Week.encode w with
        | nil => rw [hw] at this; simp at this
        | cons x xs => simp
      simp only [encodeStream, decodeStream, hne, Week.decode1_encode w _ (h w (by simp))]
      rw [ih (fun v hv => h v (by simp [hv])) fuel (by simpa using hf)]
      simp

end Gca
