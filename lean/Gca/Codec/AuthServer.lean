import Gca.Basic
/-
server/authorized_servers.go (AuthorizedServer.Serialize / SigningBytes),
server/api_equipment_migrate.go (EquipmentMigration), and
server/api_server_gca_auth.go (GCARegistration.SigningBytes).
The only decoder of an AuthorizedServer in the code base is the loop in the
client's sync-reply parser (client/reports.go); `decode1`/`decodeList` follow it.
-/
namespace Gca

structure AuthServer where
  key    : Bytes   -- PublicKey [32]byte
  banned : Bool
  loc    : Bytes   -- Location string
  http   : Nat     -- uint16
  tcp    : Nat
  udp    : Nat
  sig    : Bytes   -- GCAAuthorization [64]byte
deriving DecidableEq, Repr, Inhabited

namespace AuthServer

def WF (a : AuthServer) : Prop :=
  a.key.length = 32 ∧ a.loc.length < 256 ∧ a.http < 2^16 ∧ a.tcp < 2^16 ∧ a.udp < 2^16 ∧
  a.sig.length = 64

instance (a : AuthServer) : Decidable a.WF := by unfold WF; infer_instance

def bannedByte (b : Bool) : Bytes := [if b then 1 else 0]

/-- Everything but the signature. The length byte is `byte(len(Location))`,
i.e. the length modulo 256, exactly as the Go code writes it. -/
def body (a : AuthServer) : Bytes :=
  a.key ++ (bannedByte a.banned ++ (leBytes 1 a.loc.length ++ (a.loc ++
  (leBytes 2 a.http ++ (leBytes 2 a.tcp ++ leBytes 2 a.udp)))))

def encode (a : AuthServer) : Bytes := body a ++ a.sig

def prefixStr : String := "AuthorizedServer"
def signingBytes (a : AuthServer) : Bytes := ascii prefixStr ++ body a

theorem encode_length (a : AuthServer) (h : a.WF) : (encode a).length = 104 + a.loc.length := by
  obtain ⟨h1, _, _, _, _, h6⟩ := h
  simp [encode, body, bannedByte, h1, h6]; omega

/-- One iteration of the client's parsing loop over the region that holds the
server entries: `none` is the loop's "length mismatch" error. -/
def decode1 (b : Bytes) : Option (AuthServer × Bytes) :=
  if b.length < 34 then none else
  let (key, b) := rd 32 b
  let (bn, b) := rd 1 b
  let (ll, b) := rd 1 b
  let n := unle ll
  if b.length < n + 70 then none else
  let (loc, b) := rd n b
  let (http, b) := rd 2 b
  let (tcp, b) := rd 2 b
  let (udp, b) := rd 2 b
  let (sig, b) := rd 64 b
  some (⟨key, unle bn != 0, loc, unle http, unle tcp, unle udp, sig⟩, b)

/-- The whole loop (`for i < end`); fuel bounds the number of iterations and
is always taken as the region length (every iteration consumes ≥ 104 bytes). -/
def decodeList : Nat → Bytes → Option (List AuthServer)
  | 0, b => if b.isEmpty then some [] else none
  | fuel+1, b =>
    if b.isEmpty then some [] else
    match decode1 b with
    | none => none
    | some (a, r) => match decodeList fuel r with
      | none => none
      | some as => some (a :: as)

def encodeList : List AuthServer → Bytes
  | [] => []
  | a :: as => encode a ++ encodeList as

theorem decode1_encode (a : AuthServer) (r : Bytes) (h : a.WF) :
    decode1 (encode a ++ r) = some (a, r) := by
  have hl := encode_length a h
  obtain ⟨h1, h2, h3, h4, h5, h6⟩ := h
  unfold decode1
  rw [if_neg (by simp [hl]; omega)]
  simp only [encode, body, List.append_assoc]
  rw [rd_app _ _ h1]; simp only
  rw [rd_app _ _ (by simp [bannedByte])]; simp only
  rw [rd_app _ _ (leBytes_length 1 _)]; simp only
  rw [unle_leBytes_of_lt (by simpa using h2)]
  rw [if_neg (by simp [h6]; omega)]
  rw [rd_app _ _ rfl]; simp only
  rw [rd_app _ _ (leBytes_length 2 _)]; simp only
  rw [rd_app _ _ (leBytes_length 2 _)]; simp only
  rw [rd_app _ _ (leBytes_length 2 _)]; simp only
  rw [rd_app _ _ h6]; simp only
  rw [unle_leBytes_of_lt (by simpa using h3), unle_leBytes_of_lt (by simpa using h4),
      unle_leBytes_of_lt (by simpa using h5)]
  have : (unle (bannedByte a.banned) != 0) = a.banned := by
    cases a.banned <;> simp [bannedByte, unle]
  rw [this]

theorem encode_ne_nil (a : AuthServer) (h : a.WF) : encode a ≠ [] := by
  intro e; have := encode_length a h; rw [e] at this; simp at this; omega

theorem encodeList_length_ge (as : List AuthServer) (h : ∀ a ∈ as, a.WF) :
    as.length ≤ (encodeList as).length := by
  induction as with
  | nil => simp
  | cons a as ih =>
    have := encode_length a (h a (by simp))
    have := ih (fun b hb => h b (by simp [hb]))
    simp [encodeList, *]; omega

theorem decodeList_encodeList (as : List AuthServer) (h : ∀ a ∈ as, a.WF) (fuel : Nat)
    (hf : as.length ≤ fuel) : decodeList fuel (encodeList as) = some as := by
  induction as generalizing fuel with
  | nil => cases fuel <;> simp [encodeList, decodeList]
  | cons a as ih =>
    have ha := h a (by simp)
    cases fuel with
    | zero => simp at hf
    | succ fuel =>
      have hne : (encode a ++ encodeList as).isEmpty = false := by
        simp [encode_ne_nil a ha]
      simp only [encodeList, decodeList, hne, decode1_encode a _ ha]
      rw [ih (fun b hb => h b (by simp [hb])) fuel (by simpa using hf)]
      simp

end AuthServer

/-- `EquipmentMigration`. -/
structure Migration where
  equipment : Bytes   -- [32]byte
  newGCA    : Bytes   -- [32]byte
  newId     : Nat     -- uint32
  servers   : List AuthServer
  sig       : Bytes   -- [64]byte
deriving DecidableEq, Repr, Inhabited

namespace Migration

def WF (m : Migration) : Prop :=
  m.equipment.length = 32 ∧ m.newGCA.length = 32 ∧ m.newId < 2^32 ∧
  (∀ a ∈ m.servers, a.WF) ∧ m.sig.length = 64

/-- The part of the order that follows the equipment key (this is what the
sync reply carries, the key itself appears earlier in the reply). -/
def tail (m : Migration) : Bytes :=
  m.newGCA ++ (leBytes 4 m.newId ++ AuthServer.encodeList m.servers)

def body (m : Migration) : Bytes := m.equipment ++ tail m
def encode (m : Migration) : Bytes := body m ++ m.sig
def prefixStr : String := "EquipmentMigration"
def signingBytes (m : Migration) : Bytes := ascii prefixStr ++ body m

end Migration

/-- `GCARegistration.SigningBytes`. -/
def Registration.prefixStr : String := "GCARegistration"
def Registration.signingBytes (key : Bytes) : Bytes := ascii Registration.prefixStr ++ key

end Gca
