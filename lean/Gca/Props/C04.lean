import Gca.Server.Inv
import Gca.Props.C02
import Gca.Props.C03
import Gca.Lemmas.SyncLemmas
/-
C04 - Restart preserves every accepted fact.

`Sync s` says that memory is what the files say: replaying the authorization
file gives the same devices, key index and bans; every report in the report
file belongs to a live device (or a banned id), verifies, and lies below the
window end; every slot in memory is the fold of the per-slot rule over the
reports on disk for it. Every operation preserves `Sync` (live path and replay
path are two different programs, as in the code), and loading a `Sync` disk
reproduces the observable state. The authorized-server list and migration
orders are documented as not yet persisted and are not part of `Obs`; impact
rates of the live window are memory-only as well.
-/
namespace Gca.Srv

/-- `load` without the final catch-up rotations. -/
def loadCore (cfg : Cfg) (V : Verify) (d : Disk) (tempKey fresh : Key) : Option State :=
  let (srvPub, d) := match d.srvKeys with
    | none => (fresh, { d with srvKeys := some fresh })
    | some [] => (fresh, { d with srvKeys := some fresh })
    | some k => (k, d)
  if srvPub.length ≠ 32 then none else
  let gk : Option (Key × Bool) := match d.gcaKey with
    | none => some (zeros 32, false)
    | some [] => some (zeros 32, false)
    | some k => if k.length = 32 then some (k, true) else none
  match gk with
  | none => none
  | some (gcaKey, avail) =>
  if d.auths.any (fun a => !V gcaKey (Auth.signingBytes a) a.sig) then none else
  let s0 : State := { gcaKey := gcaKey, gcaAvail := avail, tempKey := tempKey, srvPub := srvPub, disk := d }
  let s1 := d.auths.foldl (replayAuth cfg) s0
  let s2 := { s1 with history := d.weeks,
                      off := match d.weeks.getLast? with | none => 0 | some w => w.tso + week }
  replayReports cfg V s2 d.reports

theorem c04h_loadCore_eq (cfg : Cfg) (V : Verify) (d : Disk) (tempKey fresh : Key) :
    loadCore cfg V d tempKey fresh = loadCoreFrom cfg V (loadKeys d fresh).1 (loadKeys d fresh).2 tempKey := by
  unfold loadCore loadKeys
  cases hk : d.srvKeys with
  | none => rfl
  | some k => cases k <;> rfl

theorem load_eq_core (cfg : Cfg) (V : Verify) (sgn : Bytes → Bytes) (d : Disk) (tempKey fresh : Key) (now : Nat) :
    load cfg V sgn d tempKey fresh now =
      match loadCore cfg V d tempKey fresh with
      | none => none
      | some s3 => match catchUp sgn now (now / week + 2) s3 with
        | (s4, .ok) => some s4
        | _ => none := by
  rw [load_eq, c04h_loadCore_eq, c04h_loadFrom_eq_core]
  rfl

/-- What a restart must preserve: GCA key and flag, authorizations, key index,
bans, per-slot stored reports of every device, window offset, archived weeks. -/
structure ObsEq (s t : State) : Prop where
  gcaKey   : t.gcaKey = s.gcaKey
  gcaAvail : t.gcaAvail = s.gcaAvail
  auths    : ∀ id, (t.devices.get id).map (·.auth) = (s.devices.get id).map (·.auth)
  reports  : ∀ id, (t.devices.get id).map (·.reports) = (s.devices.get id).map (·.reports)
  short    : ∀ k, t.shortIds.get k = s.shortIds.get k
  bans     : ∀ id, id ∈ t.bans ↔ id ∈ s.bans
  off      : t.off = s.off
  history  : t.history = s.history

/-- The state with empty maps from which `loadEquipment` replays the authorization file. -/
def base (s : State) : State :=
  { gcaKey := s.gcaKey, gcaAvail := s.gcaAvail, tempKey := s.tempKey, srvPub := s.srvPub, disk := s.disk }

/-- Memory is in sync with the files. -/
structure Sync (cfg : Cfg) (V : Verify) (s : State) : Prop where
  inv      : Inv s
  keysOk   : ∃ k, s.disk.srvKeys = some k ∧ k.length = 32 ∧ s.srvPub = k
  authSim  : let r := s.disk.auths.foldl (replayAuth cfg) (base s)
             (∀ id, (r.devices.get id).map (·.auth) = (s.devices.get id).map (·.auth)) ∧
             (∀ k, r.shortIds.get k = s.shortIds.get k) ∧ (∀ id, id ∈ r.bans ↔ id ∈ s.bans)
  authSig  : ∀ a ∈ s.disk.auths, V s.gcaKey (Auth.signingBytes a) a.sig = true
  repOk    : ∀ r ∈ s.disk.reports, r.id ∉ s.bans →
               ∃ d, s.devices.get r.id = some d ∧ V d.auth.key (Report.signingBytes r) r.sig = true ∧
                 ValidP r ∧ r.ts < s.off + window
  slots    : ∀ id d, s.devices.get id = some d → ∀ i, i < window →
               d.reports[i]? = some ((s.disk.reports.filter (fun r => r.id = id ∧ r.ts = s.off + i)).foldl
                 (slotStep d.auth.cap) Report.zero)
  authWF   : ∀ id d, s.devices.get id = some d → d.auth.WF
  noAuthUnreg : s.gcaAvail = false → s.disk.auths = []


/-! ### Helper lemmas -/

/-- `Sync.authSim` says: running the authorization file on observables gives the observables of memory. -/
theorem c04h_authSim_iff (cfg : Cfg) (s : State) :
    (let r := s.disk.auths.foldl (replayAuth cfg) (base s)
     (∀ id, (r.devices.get id).map (·.auth) = (s.devices.get id).map (·.auth)) ∧
     (∀ k, r.shortIds.get k = s.shortIds.get k) ∧ (∀ id, id ∈ r.bans ↔ id ∈ s.bans)) ↔
    s.disk.auths.foldl AObs.step AObs.empty = aobs s := by
  have hb : aobs (base s) = AObs.empty := rfl
  rw [← hb, ← c04h_aobs_foldl]
  exact (c04h_aobs_iff _ _).symm

/-- General preservation lemma: the authorization side is observably unchanged,
the report file grew by `extra` (records of live devices that verify), and the
slots are the old ones with `extra` folded in. -/
theorem c04h_sync_extend (cfg : Cfg) (V : Verify) (s s' : State) (extra : List Report) (h : Sync cfg V s)
    (hinv : Inv s') (hkeys : s'.disk.srvKeys = s.disk.srvKeys) (hpub : s'.srvPub = s.srvPub)
    (hauths : s'.disk.auths = s.disk.auths) (hobs : aobs s' = aobs s)
    (hsig : ∀ a ∈ s'.disk.auths, V s'.gcaKey (Auth.signingBytes a) a.sig = true)
    (hno : s'.gcaAvail = false → s'.disk.auths = [])
    (hoff : s'.off = s.off) (hrep : s'.disk.reports = s.disk.reports ++ extra)
    (hextra : ∀ x ∈ extra, x.id ∉ s.bans → ∃ d, s.devices.get x.id = some d ∧
      V d.auth.key (Report.signingBytes x) x.sig = true ∧ ValidP x ∧ x.ts < s.off + window)
    (hdev : DevFold s.off extra s s') : Sync cfg V s' := by
  obtain ⟨_, _, hob⟩ := (c04h_aobs_iff s' s).mp hobs
  have hdev' : ∀ id d', s'.devices.get id = some d' → ∃ d, s.devices.get id = some d ∧ d'.auth = d.auth ∧
      ∀ i, i < window → d'.reports[i]? =
        some ((extra.filter (fun r => r.id = id ∧ r.ts = s.off + i)).foldl (slotStep d.auth.cap)
          (d.reports[i]?.getD Report.zero)) := by
    intro id d' hd'
    cases hd : s.devices.get id with
    | none => rw [hdev.1 id hd] at hd'; cases hd'
    | some d =>
      obtain ⟨d'', h1, h2, _, h4⟩ := hdev.2 id d hd
      rw [hd'] at h1; cases h1
      exact ⟨d, rfl, h2, h4⟩
  refine ⟨hinv, ?_, ?_, hsig, ?_, ?_, ?_, hno⟩
  · obtain ⟨k, h1, h2, h3⟩ := h.keysOk
    exact ⟨k, by rw [hkeys]; exact h1, h2, by rw [hpub]; exact h3⟩
  · exact (c04h_authSim_iff cfg s').mpr (by rw [hauths, hobs]; exact (c04h_authSim_iff cfg s).mp h.authSim)
  · intro x hx hxb
    rw [hrep] at hx
    have hxb' : x.id ∉ s.bans := fun hh => hxb ((hob x.id).mpr hh)
    have : ∃ d, s.devices.get x.id = some d ∧ V d.auth.key (Report.signingBytes x) x.sig = true ∧
        ValidP x ∧ x.ts < s.off + window := by
      rcases List.mem_append.mp hx with hx | hx
      · exact h.repOk x hx hxb'
      · exact hextra x hx hxb'
    obtain ⟨d, h1, h2, h3, h4⟩ := this
    obtain ⟨d', g1, g2, _⟩ := hdev.2 x.id d h1
    exact ⟨d', g1, by rw [g2]; exact h2, h3, by rw [hoff]; exact h4⟩
  · intro id d' hd' i hi
    obtain ⟨d, h1, h2, h3⟩ := hdev' id d' hd'
    rw [h3 i hi, h.slots id d h1 i hi, Option.getD_some, hrep, List.filter_append, List.foldl_append, hoff, h2]
  · intro id d' hd'
    obtain ⟨d, h1, h2, _⟩ := hdev' id d' hd'
    rw [h2]; exact h.authWF id d h1

theorem c04h_sync_rotate (cfg : Cfg) (V : Verify) (sgn : Bytes → Bytes) (s : State) (h : Sync cfg V s) :
    Sync cfg V (rotate sgn s).1 := by
  have hinv' := (inv_rotate sgn s h.inv).2
  obtain ⟨w, hw⟩ := c04h_buildStats_ok sgn s h.inv
  rw [c03h_rotate_eq sgn s w hw] at hinv' ⊢
  simp only at hinv' ⊢
  have hobs : aobs { s with history := s.history ++ [w],
                            disk := { s.disk with weeks := s.disk.weeks ++ [w] },
                            devices := s.devices.map (fun p => (p.1, shiftDev p.2)),
                            off := s.off + week } = aobs s := by
    refine (c04h_aobs_iff _ _).mpr ⟨fun id => ?_, fun _ => rfl, fun _ => Iff.rfl⟩
    show ((FMap.get (s.devices.map (fun p => (p.1, shiftDev p.2))) id).map (·.auth)) = _
    rw [FMap.get_map_val]
    cases s.devices.get id <;> rfl
  have hget : ∀ id d', FMap.get (s.devices.map (fun p => (p.1, shiftDev p.2))) id = some d' →
      ∃ d, s.devices.get id = some d ∧ d' = shiftDev d := by
    intro id d' hd'
    rw [FMap.get_map_val] at hd'
    cases hd : s.devices.get id with
    | none => rw [hd] at hd'; cases hd'
    | some d => rw [hd] at hd'; cases hd'; exact ⟨d, rfl, rfl⟩
  refine ⟨hinv', h.keysOk, ?_, h.authSig, ?_, ?_, ?_, h.noAuthUnreg⟩
  · exact (c04h_authSim_iff cfg _).mpr (by rw [hobs]; exact (c04h_authSim_iff cfg s).mp h.authSim)
  · intro r hr hb
    obtain ⟨d, h1, h2, h3, h4⟩ := h.repOk r hr hb
    refine ⟨shiftDev d, ?_, h2, h3, ?_⟩
    · show FMap.get (s.devices.map (fun p => (p.1, shiftDev p.2))) r.id = _
      rw [FMap.get_map_val, h1]; rfl
    · show r.ts < s.off + week + window
      omega
  · intro id d' hd' i hi
    obtain ⟨d, hd, rfl⟩ := hget id d' hd'
    have hl := (h.inv.devOk id d hd).2.1
    show (shiftList Report.zero d.reports)[i]? =
      some ((s.disk.reports.filter (fun r => r.id = id ∧ r.ts = s.off + week + i)).foldl
        (slotStep d.auth.cap) Report.zero)
    by_cases hlt : i < week
    · rw [c03h_shiftList_lo _ _ hl i hlt, h.slots id d hd (i + week) (by unfold window week at *; omega)]
      have e : s.off + (i + week) = s.off + week + i := by omega
      rw [e]
    · rw [c03h_shiftList_hi _ _ hl i (by omega) hi]
      have hnil : s.disk.reports.filter (fun r => r.id = id ∧ r.ts = s.off + week + i) = [] := by
        rw [List.filter_eq_nil_iff]
        intro r hr hp
        simp only [decide_eq_true_eq] at hp
        have hnb : r.id ∉ s.bans := by
          intro hb
          rw [hp.1] at hb
          rw [h.inv.banned id hb] at hd; cases hd
        obtain ⟨_, _, _, _, h4⟩ := h.repOk r hr hnb
        unfold window week at *; omega
      rw [hnil]; rfl
  · intro id d' hd'
    obtain ⟨d, hd, rfl⟩ := hget id d' hd'
    exact h.authWF id d hd

theorem c04h_sync_catchUp (cfg : Cfg) (V : Verify) (sgn : Bytes → Bytes) (now fuel : Nat) (s : State)
    (h : Sync cfg V s) : Sync cfg V (catchUp sgn now fuel s).1 := by
  induction fuel generalizing s with
  | zero => exact h
  | succ n ih =>
    unfold catchUp
    split
    · exact h
    · have h1 := (inv_rotate sgn s h.inv).1
      have h2 := c04h_sync_rotate cfg V sgn s h
      generalize rotate sgn s = p at h1 h2
      obtain ⟨s', o⟩ := p
      simp only at h1 h2
      subst h1
      exact ih s' h2

theorem c04h_sync_loadCore (cfg : Cfg) (V : Verify) (s : State) (fresh : Key) (h : Sync cfg V s) :
    ∃ t, loadCore cfg V s.disk s.tempKey fresh = some t ∧ ObsEq s t ∧ Sync cfg V t := by
  obtain ⟨k, hk1, hk2, hk3⟩ := h.keysOk
  have hkeys : loadKeys s.disk fresh = (s.srvPub, s.disk) := by
    unfold loadKeys; rw [hk1]
    cases k with
    | nil => simp at hk2
    | cons c cs => simp only; rw [hk3]
  rw [c04h_loadCore_eq, hkeys]
  simp only
  rw [c04h_loadCoreFrom_eq cfg V s.srvPub s.disk s.tempKey s.gcaKey s.gcaAvail (by rw [hk3]; exact hk2)
    ⟨h.inv.gcaUn, h.inv.gcaAv⟩ h.authSig]
  -- the state after the replay of the authorization file
  have hobs1 : aobs (s.disk.auths.foldl (replayAuth cfg) (base s)) = aobs s := by
    rw [c04h_aobs_foldl]; exact (c04h_authSim_iff cfg s).mp h.authSim
  have hP := foldl_replayAuth_LoadP cfg s.disk s.gcaKey s.gcaAvail s.disk.auths (base s)
    ⟨MapsInv.nil, rfl, rfl, rfl, rfl, rfl⟩
  have hpub1 := c04h_foldl_replayAuth_srvPub cfg s.disk.auths (base s)
  have hblank := c04h_foldl_replayAuth_blank cfg s.disk.auths (base s)
    (fun id d hd => by simp [base] at hd)
  change ∃ t, replayReports cfg V
      { s.disk.auths.foldl (replayAuth cfg) (base s) with
        history := s.disk.weeks, off := loadOff s.disk.weeks } s.disk.reports = some t ∧ _
  generalize s.disk.auths.foldl (replayAuth cfg) (base s) = s1 at hobs1 hP hpub1 hblank
  obtain ⟨hm, h1, h2, h3, _, _⟩ := hP
  have hwk : ∀ k (hk : k < s.disk.weeks.length), (s.disk.weeks[k]).tso = week * k := by
    rw [h.inv.histDisk]; exact h.inv.histTso
  have hoff2 : loadOff s.disk.weeks = s.off := by
    rw [c04h_loadOff _ hwk, h.inv.offHist, h.inv.histDisk]
  have hinv2 : Inv { s1 with history := s.disk.weeks, off := loadOff s.disk.weeks } := by
    refine Inv.ofParts hm ⟨c04h_loadOff _ hwk, hwk, ?_⟩ ?_
    · show s1.disk.weeks = s.disk.weeks
      rw [h1]
    · show GcaInv s1.gcaKey s1.gcaAvail s1.disk.gcaKey
      rw [h1, h2, h3]; exact ⟨h.inv.gcaUn, h.inv.gcaAv⟩
  obtain ⟨_, _, hob1⟩ := (c04h_aobs_iff s1 s).mp hobs1
  obtain ⟨hnone1, hsome1⟩ := c04h_aobs_dev hobs1
  have hok : ∀ r ∈ s.disk.reports,
      r.id ∉ ({ s1 with history := s.disk.weeks, off := loadOff s.disk.weeks } : State).bans →
      ∃ d, ({ s1 with history := s.disk.weeks, off := loadOff s.disk.weeks } : State).devices.get r.id = some d ∧
        V d.auth.key (Report.signingBytes r) r.sig = true := by
    intro r hr hb
    have hb' : r.id ∉ s.bans := fun hh => hb ((hob1 r.id).mpr hh)
    obtain ⟨d, g1, g2, _, _⟩ := h.repOk r hr hb'
    obtain ⟨d1, g3, g4⟩ := hsome1 r.id d g1
    exact ⟨d1, g3, by rw [g4]; exact g2⟩
  obtain ⟨t, hrep, hfr, ⟨again, hag1, hag2⟩, hdf⟩ :=
    c04h_replay_spec cfg V s.disk.reports _ hinv2 hok
  have hinvt : Inv t := inv_replayReports cfg V _ t s.disk.reports hinv2 hrep
  have hobst : aobs t = aobs s := by
    rw [← hobs1]
    exact c04h_aobs_of_devFold hfr.shortIds hfr.bans hdf
  -- slots of the reloaded state are the slots in memory
  have hslots : ∀ id d, s.devices.get id = some d → ∃ d', t.devices.get id = some d' ∧ d'.auth = d.auth ∧
      d'.reports = d.reports := by
    intro id d hd
    obtain ⟨d1, g1, g2⟩ := hsome1 id d hd
    obtain ⟨d', g3, g4, g5, g6⟩ := hdf.2 id d1 g1
    refine ⟨d', g3, g4.trans g2, ?_⟩
    have hl := (h.inv.devOk id d hd).2.1
    apply List.ext_getElem?
    intro i
    by_cases hi : i < window
    · rw [g6 i hi, h.slots id d hd i hi, hblank id d1 g1, c04h_blank_getD, g2]
      show some ((s.disk.reports.filter (fun r => r.id = id ∧ r.ts = loadOff s.disk.weeks + i)).foldl _ _) = _
      rw [hoff2]
    · rw [List.getElem?_eq_none (by omega), List.getElem?_eq_none (by omega)]
  have hobsEq : ObsEq s t := by
    obtain ⟨ha, hs, hb⟩ := (c04h_aobs_iff t s).mp hobst
    refine ⟨hfr.gcaKey.trans h2, hfr.gcaAvail.trans h3, ha, ?_, hs, hb, hfr.off.trans hoff2,
      hfr.history.trans h.inv.histDisk⟩
    intro id
    cases hd : s.devices.get id with
    | none => rw [hdf.1 id (hnone1 id hd)]
    | some d =>
      obtain ⟨d', g1, _, g3⟩ := hslots id d hd
      rw [g1]; simp [g3]
  refine ⟨t, hrep, hobsEq, ?_⟩
  refine c04h_sync_extend cfg V s t again h hinvt (hfr.srvKeys.trans (by show s1.disk.srvKeys = _; rw [h1]))
    (hfr.srvPub.trans hpub1) (hfr.auths.trans (by show s1.disk.auths = _; rw [h1])) hobst ?_ ?_
    (hfr.off.trans hoff2) ?_ ?_ ?_
  · intro a ha
    rw [hfr.auths] at ha
    rw [hfr.gcaKey]
    show V s1.gcaKey _ _ = true
    rw [h2]
    exact h.authSig a (by rw [← h1]; exact ha)
  · intro hav
    rw [hfr.auths]
    show s1.disk.auths = []
    rw [h1]
    exact h.noAuthUnreg (by rw [← h3]; rw [hfr.gcaAvail] at hav; exact hav)
  · rw [hag1]
    show s1.disk.reports ++ again = _
    rw [h1]
  · intro x hx hb
    exact h.repOk x (hag2 x hx) hb
  · refine ⟨fun id hd => hdf.1 id (hnone1 id hd), ?_⟩
    intro id d hd
    obtain ⟨d', g1, g2, g3⟩ := hslots id d hd
    refine ⟨d', g1, g2, by rw [g3]; exact (h.inv.devOk id d hd).2.1, ?_⟩
    intro i hi
    rw [g3, h.slots id d hd i hi, Option.getD_some]
    have hnb : id ∉ s.bans := by
      intro hb; rw [h.inv.banned id hb] at hd; cases hd
    rw [c04h_absorb_list]
    · intro x hx
      obtain ⟨hx1, hx2⟩ := List.mem_filter.mp hx
      simp only [decide_eq_true_eq] at hx2
      obtain ⟨_, _, _, hv, _⟩ := h.repOk x hx1 (by rw [hx2.1]; exact hnb)
      exact hv
    · intro x hx
      obtain ⟨hx1, hx2⟩ := List.mem_filter.mp hx
      exact List.mem_filter.mpr ⟨hag2 x hx1, hx2⟩

/-- `c04h_sync_extend` for a step that leaves alone everything but devices, report file and
memory-only lists. -/
theorem c04h_sync_extend_frame (cfg : Cfg) (V : Verify) (s s' : State) (extra : List Report) (h : Sync cfg V s)
    (hinv : Inv s') (hf : RFrame s s') (hrep : s'.disk.reports = s.disk.reports ++ extra)
    (hextra : ∀ x ∈ extra, x.id ∉ s.bans → ∃ d, s.devices.get x.id = some d ∧
      V d.auth.key (Report.signingBytes x) x.sig = true ∧ ValidP x ∧ x.ts < s.off + window)
    (hdev : DevFold s.off extra s s') : Sync cfg V s' := by
  refine c04h_sync_extend cfg V s s' extra h hinv hf.srvKeys hf.srvPub hf.auths
    (c04h_aobs_of_devFold hf.shortIds hf.bans hdev) ?_ ?_ hf.off hrep hextra hdev
  · intro a ha
    rw [hf.auths] at ha
    rw [hf.gcaKey]; exact h.authSig a ha
  · intro hav
    rw [hf.auths]; exact h.noAuthUnreg (by rw [← hf.gcaAvail]; exact hav)

theorem c04h_sync_boot0 (cfg : Cfg) (V : Verify) (tempKey fresh : Key) (hf : fresh.length = 32) :
    loadCore cfg V {} tempKey fresh = some { tempKey := tempKey, srvPub := fresh, disk := { srvKeys := some fresh } } ∧
    Sync cfg V { tempKey := tempKey, srvPub := fresh, disk := { srvKeys := some fresh } } := by
  constructor
  · rw [c04h_loadCore_eq]
    show loadCoreFrom cfg V fresh { srvKeys := some fresh } tempKey = _
    rw [c04h_loadCoreFrom_eq cfg V fresh _ tempKey (zeros 32) false hf
      ⟨fun _ => ⟨rfl, Or.inl rfl⟩, fun h => by cases h⟩ (by intro a ha; cases ha)]
    rfl
  · refine ⟨Inv.ofParts MapsInv.nil ⟨rfl, fun k hk => absurd hk (Nat.not_lt_zero k), rfl⟩
        ⟨fun _ => ⟨rfl, Or.inl rfl⟩, fun h => by cases h⟩,
      ⟨fresh, rfl, hf, rfl⟩, (c04h_authSim_iff cfg _).mpr rfl, ?_, ?_, ?_, ?_, fun _ => rfl⟩
    · intro a ha; cases ha
    · intro r hr; cases hr
    · intro id d hd; cases hd
    · intro id d hd; cases hd

/-- A restart from a state in sync: the core load succeeds and reproduces the
observable state, then the catch-up rotations run. -/
theorem c04h_restart_eq (cfg : Cfg) (V : Verify) (sgn : Bytes → Bytes) (s : State) (fresh : Key) (now : Nat)
    (h : Sync cfg V s) :
    ∃ t, loadCore cfg V s.disk s.tempKey fresh = some t ∧ ObsEq s t ∧ Sync cfg V t ∧
      load cfg V sgn s.disk s.tempKey fresh now = some (catchUp sgn now (now / week + 2) t).1 := by
  obtain ⟨t, ht, hobs, hst⟩ := c04h_sync_loadCore cfg V s fresh h
  refine ⟨t, ht, hobs, hst, ?_⟩
  rw [load_eq_core, ht]
  simp only
  have h1 := (inv_catchUp sgn now (now / week + 2) t hst.inv).1
  generalize catchUp sgn now (now / week + 2) t = p at h1
  obtain ⟨s4, o⟩ := p
  simp only at h1
  subst h1
  rfl

theorem c04h_sync_dgram (cfg : Cfg) (V : Verify) (s : State) (now : Nat) (b : Bytes) (h : Sync cfg V s) :
    Sync cfg V (dgram cfg V s now b).1 := by
  unfold dgram
  split
  · exact h
  split
  · exact h
  rename_i r hpr
  split
  · exact h
  split
  · exact h
  rename_i hp
  have hdev : ∃ dv, s.devices.get r.id = some dv ∧ V dv.auth.key (Report.signingBytes r) r.sig = true := by
    unfold parseReport at hpr
    split at hpr
    · cases hpr
    · split at hpr
      · cases hpr
      · split at hpr
        · rename_i dv hdv hv
          cases hpr
          exact ⟨dv, hdv, hv⟩
        · cases hpr
  obtain ⟨dv, hdv, hv⟩ := hdev
  have hl := (h.inv.devOk r.id dv hdv).2.1
  obtain ⟨s1, d1, rec, hint, hf1, hfalse, htrue, hdisk1, hget1, hoth1, ha1, hl1, hsl1⟩ :=
    c04h_integrate_spec cfg s r dv hdv hl
  rw [hint]
  show Sync cfg V s1
  cases rec with
  | false => rw [hfalse rfl]; exact h
  | true =>
    refine c04h_sync_extend_frame cfg V s s1 [r] h (inv_integrate cfg s s1 r true h.inv hint) hf1
      (by rw [hdisk1]; rfl) ?_ (c04h_devFold_single s s1 r dv d1 h.inv hdv hget1 hoth1 ha1 hl1 hsl1)
    intro x hx _
    have : x = r := by simpa using hx
    subst this
    exact ⟨dv, hdv, hv, ⟨fun e => hp (Or.inl e), fun e => hp (Or.inr e)⟩, htrue rfl⟩

theorem c04h_sync_register (cfg : Cfg) (V : Verify) (s : State) (key sig : Bytes) (h : Sync cfg V s)
    (hk : key.length = 32) : Sync cfg V (register V s key sig).1 := by
  have hinv := inv_register V s key sig h.inv hk
  unfold register at hinv ⊢
  split
  · exact h
  rename_i hav
  rw [if_neg hav] at hinv
  have hno : s.disk.auths = [] := h.noAuthUnreg (by simpa using hav)
  split
  · exact h
  rename_i hv
  rw [if_neg hv] at hinv
  refine c04h_sync_extend cfg V s _ [] h hinv rfl rfl rfl rfl ?_ ?_ rfl (by simp) (by intro x hx; cases hx)
    (c04h_devFold_refl _ _ _ h.inv rfl)
  · intro a ha
    have ha' : a ∈ s.disk.auths := ha
    rw [hno] at ha'; cases ha'
  · intro hh; cases hh

theorem c04h_sync_save (cfg : Cfg) (V : Verify) (s : State) (a : Auth) (h : Sync cfg V s)
    (hwf : a.WF) (hn1 : isNaN a.lat = false) (hn2 : isNaN a.lon = false)
    (hav : s.gcaAvail = true) (hV : V s.gcaKey (Auth.signingBytes a) a.sig = true) :
    Sync cfg V (saveEquipment cfg s a).1 := by
  have hinv := inv_saveEquipment cfg s a h.inv
  have hsim := (c04h_authSim_iff cfg s).mp h.authSim
  have hsig : ∀ x ∈ s.disk.auths ++ [a], V s.gcaKey (Auth.signingBytes x) x.sig = true := by
    intro x hx
    rcases List.mem_append.mp hx with hx | hx
    · exact h.authSig x hx
    · have : x = a := by simpa using hx
      subst this; exact hV
  have hno : ∀ l : List Auth, s.gcaAvail = false → l = [] := by
    intro l hh; rw [hav] at hh; cases hh
  rcases c04h_save_cases cfg s a with hres | ⟨cur, hb, hc, hne, hres⟩ | ⟨hb, hc, hk, hres⟩
  · rw [hres]; exact h
  · -- conflict: the record is appended, the device removed, the id banned
    rw [hres] at hinv ⊢
    have hnb : a.id ∉ s.bans := fun hh => by
      rw [List.contains_iff_mem.mpr hh] at hb; cases hb
    have henc := c04h_authEq_false_encode cur.auth a (h.authWF a.id cur hc) hwf hn1 hn2 hne
    refine ⟨hinv, h.keysOk, ?_, hsig, ?_, ?_, ?_, hno _⟩
    · refine (c04h_authSim_iff cfg _).mpr ?_
      show (s.disk.auths ++ [a]).foldl AObs.step AObs.empty = _
      rw [List.foldl_append, hsim, List.foldl_cons, List.foldl_nil, ← c04h_aobs_replayAuth cfg,
        c04h_replayAuth_conflict cfg s a cur hb hc henc, c04h_aobs_banDevice, c04h_aobs_banDevice]
      rfl
    · intro x hx hxb
      have hxb1 : x.id ∉ s.bans := fun hh => hxb (List.mem_append.mpr (Or.inl hh))
      have hne' : a.id ≠ x.id := fun e => hxb (List.mem_append.mpr (Or.inr (by simp [e])))
      obtain ⟨d, g1, g2⟩ := h.repOk x hx hxb1
      exact ⟨d, by show FMap.get (FMap.del s.devices a.id) x.id = _; rw [FMap.get_del_ne _ _ _ hne']; exact g1, g2⟩
    · intro id d hd i hi
      have hd' : FMap.get (FMap.del s.devices a.id) id = some d := hd
      have hne' : a.id ≠ id := by
        intro e; rw [e, FMap.get_del_same] at hd'; cases hd'
      rw [FMap.get_del_ne _ _ _ hne'] at hd'
      exact h.slots id d hd' i hi
    · intro id d hd
      have hd' : FMap.get (FMap.del s.devices a.id) id = some d := hd
      have hne' : a.id ≠ id := by
        intro e; rw [e, FMap.get_del_same] at hd'; cases hd'
      rw [FMap.get_del_ne _ _ _ hne'] at hd'
      exact h.authWF id d hd'
  · -- new device
    rw [hres] at hinv ⊢
    have hnb : a.id ∉ s.bans := fun hh => by
      rw [List.contains_iff_mem.mpr hh] at hb; cases hb
    have hnorep : ∀ x ∈ s.disk.reports, x.id ≠ a.id := by
      intro x hx e
      obtain ⟨d, g1, _⟩ := h.repOk x hx (by rw [e]; exact hnb)
      rw [e, hc] at g1; cases g1
    refine ⟨hinv, h.keysOk, ?_, hsig, ?_, ?_, ?_, hno _⟩
    · refine (c04h_authSim_iff cfg _).mpr ?_
      show (s.disk.auths ++ [a]).foldl AObs.step AObs.empty = _
      rw [List.foldl_append, hsim, List.foldl_cons, List.foldl_nil, ← c04h_aobs_replayAuth cfg,
        c04h_replayAuth_new cfg s a hb hc hk]
      rfl
    · intro x hx hxb
      have hne' : a.id ≠ x.id := fun e => hnorep x hx e.symm
      obtain ⟨d, g1, g2⟩ := h.repOk x hx hxb
      exact ⟨d, by show FMap.get (FMap.set s.devices a.id (newDev a)) x.id = _;
                   rw [FMap.get_set_ne _ _ _ _ hne']; exact g1, g2⟩
    · intro id d hd i hi
      have hd' : FMap.get (FMap.set s.devices a.id (newDev a)) id = some d := hd
      by_cases e : a.id = id
      · rw [e, FMap.get_set_same] at hd'; cases hd'
        have hnil : s.disk.reports.filter (fun r => r.id = id ∧ r.ts = s.off + i) = [] := by
          rw [List.filter_eq_nil_iff]
          intro x hx hp
          simp only [decide_eq_true_eq] at hp
          exact hnorep x hx (hp.1.trans e.symm)
        show (newDev a).reports[i]? = some ((s.disk.reports.filter (fun r => r.id = id ∧ r.ts = s.off + i)).foldl _ _)
        rw [hnil]
        simp only [newDev, blankReports, List.getElem?_replicate, if_pos hi]; rfl
      · rw [FMap.get_set_ne _ _ _ _ e] at hd'
        exact h.slots id d hd' i hi
    · intro id d hd
      have hd' : FMap.get (FMap.set s.devices a.id (newDev a)) id = some d := hd
      by_cases e : a.id = id
      · rw [e, FMap.get_set_same] at hd'; cases hd'
        exact hwf
      · rw [FMap.get_set_ne _ _ _ _ e] at hd'
        exact h.authWF id d hd'

theorem c04h_sync_authorize (cfg : Cfg) (V : Verify) (s : State) (a : Auth) (h : Sync cfg V s)
    (hwf : a.WF) (hn1 : isNaN a.lat = false) (hn2 : isNaN a.lon = false) :
    Sync cfg V (authorize cfg V s a).1 := by
  unfold authorize
  split
  · exact h
  rename_i hav
  split
  · exact h
  rename_i hv
  exact c04h_sync_save cfg V s a h hwf hn1 hn2 (by simpa using hav) (by simpa using hv)

theorem c04h_sync_impact (cfg : Cfg) (V : Verify) (s : State) (id ts rate : Nat) (h : Sync cfg V s) :
    Sync cfg V (impactWrite s id ts rate) := by
  have hinv := inv_impactWrite s id ts rate h.inv
  unfold impactWrite at hinv ⊢
  split
  · exact h
  rename_i d hd
  rw [hd] at hinv
  simp only at hinv
  split
  · rename_i hc
    rw [if_pos hc] at hinv
    refine c04h_sync_extend_frame cfg V s _ [] h hinv ⟨rfl, rfl, rfl, rfl, rfl, rfl, rfl, rfl, rfl, rfl, rfl⟩
      (by simp) (by intro x hx; cases hx) (c04h_devFold_nil _ _ _ h.inv ?_ ?_)
    · intro i hi
      have e : id ≠ i := by intro e; rw [e, hi] at hd; cases hd
      show FMap.get (FMap.set s.devices id _) i = none
      rw [FMap.get_set_ne _ _ _ _ e]; exact hi
    · intro i x hx
      by_cases e : id = i
      · subst e
        rw [hd] at hx; cases hx
        exact ⟨_, FMap.get_set_same _ _ _, rfl, rfl⟩
      · exact ⟨x, by show FMap.get (FMap.set s.devices id _) i = _; rw [FMap.get_set_ne _ _ _ _ e]; exact hx,
          rfl, rfl⟩
  · exact h

theorem c04h_sync_same (cfg : Cfg) (V : Verify) (s s' : State) (h : Sync cfg V s) (hinv : Inv s')
    (hf : RFrame s s') (hd : s'.devices = s.devices) (hr : s'.disk.reports = s.disk.reports) : Sync cfg V s' :=
  c04h_sync_extend_frame cfg V s s' [] h hinv hf (by simp [hr]) (by intro x hx; cases hx)
    (c04h_devFold_refl _ _ _ h.inv hd)

theorem c04h_sync_authServer (cfg : Cfg) (V : Verify) (s : State) (a : AuthServer) (h : Sync cfg V s) :
    Sync cfg V (authServer V s a).1 := by
  have hinv := inv_authServer V s a h.inv
  revert hinv
  unfold authServer
  split
  · exact fun _ => h
  split
  · exact fun _ => h
  split
  · split
    · exact fun _ => h
    split
    · exact fun _ => h
    · exact fun hinv => c04h_sync_same cfg V s _ h hinv ⟨rfl, rfl, rfl, rfl, rfl, rfl, rfl, rfl, rfl, rfl, rfl⟩ rfl rfl
  · exact fun hinv => c04h_sync_same cfg V s _ h hinv ⟨rfl, rfl, rfl, rfl, rfl, rfl, rfl, rfl, rfl, rfl, rfl⟩ rfl rfl

theorem c04h_sync_migrate (cfg : Cfg) (V : Verify) (s : State) (m : Migration) (h : Sync cfg V s) :
    Sync cfg V (migrateOrder V s m).1 := by
  have hinv := inv_migrateOrder V s m h.inv
  revert hinv
  unfold migrateOrder
  split
  · exact fun _ => h
  split
  · exact fun _ => h
  · exact fun hinv => c04h_sync_same cfg V s _ h hinv ⟨rfl, rfl, rfl, rfl, rfl, rfl, rfl, rfl, rfl, rfl, rfl⟩ rfl rfl

/-- A report already folded into a slot is absorbed when it is folded again
(the reports re-appended by a reload change nothing). -/
theorem slot_absorb (cap : Nat) (l : List Report) (r : Report) (hv : ∀ x ∈ l, ValidP x) (hr : r ∈ l) :
    slotStep cap (l.foldl (slotStep cap) Report.zero) r = l.foldl (slotStep cap) Report.zero := by
  exact c04h_slot_absorb cap l r hv hr

/-- First start on a freshly installed directory is in sync. -/
theorem sync_boot (cfg : Cfg) (V : Verify) (sgn : Bytes → Bytes) (tempKey fresh : Key) (now : Nat) (s : State)
    (hf : fresh.length = 32) (h : boot cfg V sgn tempKey fresh now = some s) : Sync cfg V s := by
  obtain ⟨hc, hs0⟩ := c04h_sync_boot0 cfg V tempKey fresh hf
  unfold boot at h
  rw [load_eq_core, hc] at h
  simp only at h
  have h1 := (inv_catchUp sgn now (now / week + 2) _ hs0.inv).1
  have h2 := c04h_sync_catchUp cfg V sgn now (now / week + 2) _ hs0
  generalize catchUp sgn now (now / week + 2) _ = p at h h1 h2
  obtain ⟨s4, o⟩ := p
  simp only at h1 h2
  subst h1
  cases h
  exact h2

/-- Loading a disk that is in sync succeeds (before catch-up), reproduces the
observable state, and the result (whose report file has grown by the
re-appended reports) is again in sync. -/
theorem sync_loadCore (cfg : Cfg) (V : Verify) (s : State) (fresh : Key) (h : Sync cfg V s) :
    ∃ t, loadCore cfg V s.disk s.tempKey fresh = some t ∧ ObsEq s t ∧ Sync cfg V t := by
  exact c04h_sync_loadCore cfg V s fresh h

/-- Rotation keeps memory and files in sync. -/
theorem sync_rotate (cfg : Cfg) (V : Verify) (sgn : Bytes → Bytes) (s : State) (h : Sync cfg V s) :
    Sync cfg V (rotate sgn s).1 := by
  exact c04h_sync_rotate cfg V sgn s h

theorem sync_catchUp (cfg : Cfg) (V : Verify) (sgn : Bytes → Bytes) (now fuel : Nat) (s : State) (h : Sync cfg V s) :
    Sync cfg V (catchUp sgn now fuel s).1 := by
  exact c04h_sync_catchUp cfg V sgn now fuel s h

/-- Every operation keeps memory and files in sync. -/
theorem sync_step (cfg : Cfg) (V : Verify) (sgn : Bytes → Bytes) (s : State) (op : Op)
    (h : Sync cfg V s) (hop : OpWF op) : Sync cfg V (step cfg V sgn s op).1 := by
  cases op with
  | dgram now d => exact c04h_sync_dgram cfg V s now d h
  | register k sig => exact c04h_sync_register cfg V s k sig h hop
  | authorize a => exact c04h_sync_authorize cfg V s a h hop.1 hop.2.1 hop.2.2
  | rotate => exact c04h_sync_rotate cfg V sgn s h
  | tick now =>
    show Sync cfg V (tick sgn s now).1
    unfold tick
    split
    · exact c04h_sync_rotate cfg V sgn s h
    · exact h
  | restart fresh now =>
    show Sync cfg V (match load cfg V sgn s.disk s.tempKey fresh now with
      | none => (s, Out.startFailed)
      | some s' => (s', Out.ok)).1
    obtain ⟨t, _, _, hst, hl⟩ := c04h_restart_eq cfg V sgn s fresh now h
    rw [hl]
    exact c04h_sync_catchUp cfg V sgn now (now / week + 2) t hst
  | stats tso => exact h
  | sync id => exact h
  | authServer a => exact c04h_sync_authServer cfg V s a h
  | migrate m => exact c04h_sync_migrate cfg V s m h
  | impact id ts rate => exact c04h_sync_impact cfg V s id ts rate h

theorem sync_run (cfg : Cfg) (V : Verify) (sgn : Bytes → Bytes) (s : State) (ops : List Op)
    (h : Sync cfg V s) (hops : ∀ op ∈ ops, OpWF op) : Sync cfg V (run cfg V sgn s ops).1 := by
  induction ops generalizing s with
  | nil => exact h
  | cons op t ih =>
    have h1 := sync_step cfg V sgn s op h (hops op (by simp))
    exact ih (step cfg V sgn s op).1 h1 (fun o ho => hops o (by simp [ho]))

/-- C04: after any history of operations from a fresh installation, a restart
succeeds, and the state it reaches is the observable state before the restart
followed by the catch-up rotations the clock requires (zero, one or several). -/
theorem c04_restart (cfg : Cfg) (V : Verify) (sgn : Bytes → Bytes) (tempKey fresh0 fresh : Key) (now0 now : Nat)
    (s0 : State) (ops : List Op) (hf0 : fresh0.length = 32)
    (hb : boot cfg V sgn tempKey fresh0 now0 = some s0) (hops : ∀ op ∈ ops, OpWF op) :
    let s := (run cfg V sgn s0 ops).1
    ∃ t, ObsEq s t ∧ Sync cfg V t ∧
      load cfg V sgn s.disk s.tempKey fresh now = some (catchUp sgn now (now / week + 2) t).1 := by
  intro s
  have hs : Sync cfg V s := sync_run cfg V sgn s0 ops (sync_boot cfg V sgn tempKey fresh0 now0 s0 hf0 hb) hops
  obtain ⟨t, _, hobs, hst, hl⟩ := c04h_restart_eq cfg V sgn s fresh now hs
  exact ⟨t, hobs, hst, hl⟩

/-- A restart never fails and never panics, whatever preceded it. -/
theorem c04_restart_succeeds (cfg : Cfg) (V : Verify) (sgn : Bytes → Bytes) (s : State) (fresh : Key) (now : Nat)
    (h : Sync cfg V s) (hf : fresh.length = 32) :
    (step cfg V sgn s (.restart fresh now)).2 = .ok := by
  have _ := hf
  show (match load cfg V sgn s.disk s.tempKey fresh now with
      | none => (s, Out.startFailed)
      | some s' => (s', Out.ok)).2 = .ok
  obtain ⟨t, _, _, _, hl⟩ := c04h_restart_eq cfg V sgn s fresh now h
  rw [hl]

/-- Idempotence: restarting again right away (no catch-up due) reproduces the same observable state. -/
theorem c04_idempotent (cfg : Cfg) (V : Verify) (sgn : Bytes → Bytes) (s : State) (fresh : Key) (now : Nat)
    (h : Sync cfg V s) (hf : fresh.length = 32) (hnow : (now : Int) - s.off < 4000) :
    let t := (step cfg V sgn s (.restart fresh now)).1
    let u := (step cfg V sgn t (.restart fresh now)).1
    ObsEq s t ∧ ObsEq t u := by
  have _ := hf
  intro t u
  obtain ⟨t0, _, hobs0, hst0, hl0⟩ := c04h_restart_eq cfg V sgn s fresh now h
  have hnc : ∀ x : State, (now : Int) - x.off < 4000 → (catchUp sgn now (now / week + 2) x).1 = x := by
    intro x hx
    unfold catchUp
    rw [if_pos hx]
  have ht : t = t0 := by
    show (match load cfg V sgn s.disk s.tempKey fresh now with
      | none => (s, Out.startFailed)
      | some s' => (s', Out.ok)).1 = t0
    rw [hl0, hnc t0 (by rw [hobs0.off]; exact hnow)]
  obtain ⟨u0, _, hobs1, _, hl1⟩ := c04h_restart_eq cfg V sgn t0 fresh now hst0
  have hu : u = u0 := by
    show (match load cfg V sgn t.disk t.tempKey fresh now with
      | none => (t, Out.startFailed)
      | some s' => (s', Out.ok)).1 = u0
    rw [ht, hl1, hnc u0 (by rw [hobs1.off, hobs0.off]; exact hnow)]
  rw [hu, ht]
  exact ⟨hobs0, hobs1⟩

/-- Why `OpWF` excludes NaN coordinates (JSON cannot carry them, so the Go endpoint never
sees one): with a NaN latitude the live path's struct comparison `authEq a a` is false, so
re-submitting the same authorization bans the id in memory, while the replay at start-up
compares the serialized records, finds them equal and does not ban. The restart loses the ban. -/
theorem c04_nan_witness :
    let V : Verify := fun _ _ _ => true
    let a : Auth := ⟨1, zeros 32, 0x7FF8000000000000, 0, 1000, 0, 0, 0, 0, zeros 64⟩
    let ops : List Op := [.register (zeros 32) (zeros 64), .authorize a, .authorize a]
    a.WF ∧ isNaN a.lat = true ∧ authEq a a = false ∧
    ((boot {} V (fun _ => []) (zeros 32) (zeros 32) 0).map
      (fun s0 => let res := run {} V (fun _ => []) s0 ops
                 (res.2, res.1.bans, res.1.devices.length, res.1.disk.auths.length))) =
      some ([.ok, .okNew, .banned], [1], 0, 2) ∧
    ((boot {} V (fun _ => []) (zeros 32) (zeros 32) 0).bind
      (fun s0 => let s := (run {} V (fun _ => []) s0 ops).1
                 (load {} V (fun _ => []) s.disk s.tempKey (zeros 32) 0).map
                   (fun t => (t.bans, t.devices.length)))) = some ([], 1) := by decide +kernel

/-- Non-vacuity: authorize, report, conflicting authorization (ban), restart: the
start succeeds (this history used to fail) and the ban is still there. -/
example :
    let V : Verify := fun _ _ _ => true
    let a1 : Auth := ⟨1, zeros 32, 0, 0, 1000, 0, 0, 0, 0, zeros 64⟩
    let r : Report := ⟨1, 5, 500, zeros 64⟩
    let ops : List Op := [.register (zeros 32) (zeros 64), .authorize a1, .dgram 10 (Report.encode r),
                          .authorize { a1 with debt := 7 }, .restart (zeros 32) 10]
    ((boot {} V (fun _ => []) (zeros 32) (zeros 32) 0).map
      (fun s0 => let res := run {} V (fun _ => []) s0 ops; (res.2, res.1.bans, res.1.devices.length))) =
      some ([.ok, .okNew, .stored, .banned, .ok], [1], 0) := by decide +kernel

end Gca.Srv
