import Gca.Client.Model
/-
C16 - Energy readings become report values by fixed rules, for every file content.

The rule is stated over the records the CSV reader returns ("rows"), each with
the outcome of parsing its two columns. The floating-point part (|x| < 24,
multiplier*x/divider, truncation, two's complement) is IEEE/amd64 behaviour
that Lean cannot reason about: the scaled value is an input of the model
(`Reading.scaled v`) and the harness compares the real reader's values with
hardware doubles bit for bit (partial claim, see DESIGN.md section 10).
-/
namespace Gca.Cl

/-- One record per row that has both columns, a parseable timestamp at or after
genesis (and within the 32-bit slot range); its slot is the 5-minute slot
containing the timestamp; its value is 2 / 3 / the scaled reading. -/
theorem c16_rule (g : Int) (r : Row) (t : Int) (hn : 2 ≤ r.nfields) (ht : r.ts = some t)
    (hg : g ≤ t) (hmax : t < g + 300 * 4294967296) :
    ∃ slot, rowRecord g r = some ⟨slot, match r.reading with | .unparsable => 3 | .small => 2 | .scaled v => v⟩ ∧
      (slot : Int) = (t - g) / 300 ∧ g + 300 * (slot : Int) ≤ t ∧ t < g + 300 * (slot : Int) + 300 := by
  have hs : toSlot g t = some ((t - g) / 300).toNat := by
    unfold toSlot
    rw [if_neg (by omega)]
    simp only
    rw [if_neg (by omega)]
  refine ⟨((t - g) / 300).toNat, ?_, ?_, ?_, ?_⟩
  · unfold rowRecord
    rw [if_neg (by omega), ht]
    simp only [hs]
    cases r.reading <;> rfl
  · omega
  · omega
  · omega

/-- Rows with an unusable timestamp (unparseable, before genesis, beyond the
slot range) and rows without a reading column are skipped. -/
theorem c16_skipped (g : Int) (r : Row)
    (h : r.nfields < 2 ∨ r.ts = none ∨ (∃ t, r.ts = some t ∧ (t < g ∨ t ≥ g + 300 * 4294967296))) :
    rowRecord g r = none := by
  unfold rowRecord
  rcases h with h | h | ⟨t, ht, h⟩
  · rw [if_pos h]
  · split
    · rfl
    · rw [h]
  · have hs : toSlot g t = none := by
      unfold toSlot
      rcases h with h | h
      · rw [if_pos h]
      · split
        · rfl
        · simp only
          rw [if_pos (by omega)]
    split
    · rfl
    · rw [ht]
      simp only [hs]

/-- The reader is total: every list of rows yields a list of records, at most
one per row and in row order (no row shape can crash it - in the model a crash
would be a missing case). -/
theorem c16_total (g : Int) (rows : List Row) :
    (readEnergy g rows).length ≤ rows.length ∧
    readEnergy g rows = (rows.map (rowRecord g)).filterMap id := by
  unfold readEnergy
  refine ⟨List.length_filterMap_le _ _, ?_⟩
  rw [List.filterMap_map]
  rfl

/-- Rows are independent: the records of a concatenation are the concatenation of the records. -/
theorem c16_append (g : Int) (a b : List Row) : readEnergy g (a ++ b) = readEnergy g a ++ readEnergy g b := by
  unfold readEnergy
  exact List.filterMap_append

example : readEnergy 1000 [⟨2, none, .small⟩, ⟨2, some 1000, .small⟩, ⟨1, some 1300, .small⟩,
    ⟨2, some 1599, .unparsable⟩, ⟨2, some 999, .scaled 7⟩, ⟨2, some 1600, .scaled 77⟩]
    = [⟨0, 2⟩, ⟨1, 3⟩, ⟨2, 77⟩] := by decide

/-- The calibration file is read exactly as written: when both of its first two lines parse, the first is
the multiplier and the second the divider, whatever the build's defaults are and whatever follows. -/
theorem c16_calibration_as_written (m d : Nat) (dflt : Nat × Nat) :
    readCT true (some (some m)) (some (some d)) dflt = some (m, d) := by
  simp [readCT]

/-- No calibration file: the build's defaults, each in its own place (multiplier first), and never an error. -/
theorem c16_calibration_absent (l1 l2 : Option (Option Nat)) (dflt : Nat × Nat) :
    readCT false l1 l2 dflt = some dflt := by
  simp [readCT]

/-- A calibration file whose first or second line is missing or does not parse is an error (in the model a
crash would be a missing case), and it is the ONLY way the loader fails: the result is an error exactly
when the file is present and one of the two lines is missing or unparseable. -/
theorem c16_calibration_error_iff (present : Bool) (l1 l2 : Option (Option Nat)) (dflt : Nat × Nat) :
    readCT present l1 l2 dflt = none ↔
      present = true ∧ ¬ (∃ m d, l1 = some (some m) ∧ l2 = some (some d)) := by
  unfold readCT
  cases present <;> simp
  rcases l1 with _ | _ | m <;> rcases l2 with _ | _ | d <;> simp

/-- The defaults never leak into a present file's values, and a present file never changes with them. -/
theorem c16_calibration_defaults_irrelevant (l1 l2 : Option (Option Nat)) (a b : Nat × Nat) :
    readCT true l1 l2 a = readCT true l1 l2 b := by
  unfold readCT
  rcases l1 with _ | _ | m <;> rcases l2 with _ | _ | d <;> simp

example : readCT false none none (7, 9) = some (7, 9) ∧ readCT true (some (some 1)) (some (some 2)) (7, 9) = some (1, 2)
    ∧ readCT true (some (some 1)) none (7, 9) = none ∧ readCT true (some none) (some (some 2)) (7, 9) = none := by decide

end Gca.Cl
