import Gca.Props.C05
import Gca.Props.C01
import Gca.Tie.Tables
/-
C14 - Archive download is a consistent, public-only snapshot.

The handler reads the files one after another without locks, in the order
statistics, reports, authorizations, GCA key (`Tie.public_files`), while
operations keep appending. Model: the server passes through states
`sa →* sb →* sc →* se` (any operations in between) and the archive takes the
statistics file of `sa`, the report file of `sb`, the authorization file of
`sc` and the GCA key file of `se`. Atomic appends (the property's own
assumption) make each of them a record-aligned prefix of the final file.
The private key is never read: the archive's key entry is the public half
returned by `loadGCAServerKeys` (tie: `archive_order`, and the harness scans
every archive for the private key bytes). Rate: the limiter is consulted before
any file is read (`archive_order`), so C19 bounds the archives per window.
-/
namespace Gca.Srv

/-- `t` is reachable from `s` by some operations. -/
def Reach (cfg : Cfg) (V : Verify) (sgn : Bytes → Bytes) (s t : State) : Prop :=
  ∃ ops, (∀ op ∈ ops, OpWF op) ∧ (run cfg V sgn s ops).1 = t

/-! ### Helper lemmas: what one operation does to the files -/

/-- The three logs of `d'` extend those of `d` by appending. -/
def c14h_Grow (d d' : Disk) : Prop :=
  (∃ x, d'.auths = d.auths ++ x) ∧ (∃ x, d'.reports = d.reports ++ x) ∧ (∃ x, d'.weeks = d.weeks ++ x)

theorem c14h_Grow.refl (d : Disk) : c14h_Grow d d := ⟨⟨[], by simp⟩, ⟨[], by simp⟩, ⟨[], by simp⟩⟩

theorem c14h_Grow.trans {a b c : Disk} (h1 : c14h_Grow a b) (h2 : c14h_Grow b c) : c14h_Grow a c := by
  obtain ⟨⟨x1, e1⟩, ⟨y1, f1⟩, ⟨z1, g1⟩⟩ := h1
  obtain ⟨⟨x2, e2⟩, ⟨y2, f2⟩, ⟨z2, g2⟩⟩ := h2
  exact ⟨⟨x1 ++ x2, by rw [e2, e1, List.append_assoc]⟩, ⟨y1 ++ y2, by rw [f2, f1, List.append_assoc]⟩,
    ⟨z1 ++ z2, by rw [g2, g1, List.append_assoc]⟩⟩

/-- One operation on the files: logs grow by appending, a registered GCA key file is
left alone, and every report in the new report file is an old one or is signed by
the device that was live under its id. -/
structure c14h_StepOk (V : Verify) (s s' : State) : Prop where
  grow  : c14h_Grow s.disk s'.disk
  key   : s.gcaAvail = true → s'.disk.gcaKey = s.disk.gcaKey
  newOk : ∀ r ∈ s'.disk.reports, r ∈ s.disk.reports ∨
            ∃ d, s.devices.get r.id = some d ∧ V d.auth.key (Report.signingBytes r) r.sig = true

theorem c14h_ok_of_disk (V : Verify) (s s' : State) (h : s'.disk = s.disk) : c14h_StepOk V s s' := by
  refine ⟨?_, fun _ => by rw [h], fun r hr => Or.inl (by rw [h] at hr; exact hr)⟩
  rw [h]; exact c14h_Grow.refl _

theorem c14h_ok_refl (V : Verify) (s : State) : c14h_StepOk V s s := c14h_ok_of_disk V s s rfl

/-- Same report file and key file; authorizations and weeks appended. -/
theorem c14h_ok_of_lists (V : Verify) (s s' : State) (ha : ∃ x, s'.disk.auths = s.disk.auths ++ x)
    (hr : s'.disk.reports = s.disk.reports) (hw : ∃ x, s'.disk.weeks = s.disk.weeks ++ x)
    (hk : s'.disk.gcaKey = s.disk.gcaKey) : c14h_StepOk V s s' :=
  ⟨⟨ha, ⟨[], by rw [hr]; simp⟩, hw⟩, fun _ => hk, fun r h => Or.inl (by rw [hr] at h; exact h)⟩

theorem c14h_dgram (cfg : Cfg) (V : Verify) (s : State) (now : Nat) (b : Bytes) (h : Inv s) :
    c14h_StepOk V s (dgram cfg V s now b).1 := by
  unfold dgram
  split
  · exact c14h_ok_refl V s
  split
  · exact c14h_ok_refl V s
  rename_i r hpr
  split
  · exact c14h_ok_refl V s
  split
  · exact c14h_ok_refl V s
  obtain ⟨_, dv, hdv, hv⟩ := c01h_parseReport_some hpr
  obtain ⟨s1, d1, rec, hint, hf1, _, _, hdisk1, _⟩ :=
    c04h_integrate_spec cfg s r dv hdv (h.devOk _ _ hdv).2.1
  rw [hint]
  show c14h_StepOk V s s1
  refine ⟨⟨⟨[], by rw [hf1.auths]; simp⟩, ⟨_, hdisk1⟩, ⟨[], by rw [hf1.weeks]; simp⟩⟩, fun _ => hf1.dGca, ?_⟩
  intro x hx
  rw [hdisk1] at hx
  rcases List.mem_append.mp hx with hx | hx
  · exact Or.inl hx
  · cases rec with
    | false => simp at hx
    | true =>
      have : x = r := by simpa using hx
      subst this
      exact Or.inr ⟨dv, hdv, hv⟩

theorem c14h_register (V : Verify) (s : State) (key sig : Bytes) :
    c14h_StepOk V s (register V s key sig).1 := by
  unfold register
  split
  · exact c14h_ok_refl V s
  rename_i hav
  split
  · exact c14h_ok_refl V s
  · exact ⟨c14h_Grow.refl _, fun h => absurd h hav, fun r hr => Or.inl hr⟩

theorem c14h_save (cfg : Cfg) (V : Verify) (s : State) (a : Auth) :
    c14h_StepOk V s (saveEquipment cfg s a).1 := by
  rcases c04h_save_cases cfg s a with hres | ⟨cur, _, _, _, hres⟩ | ⟨_, _, _, hres⟩
  · rw [hres]; exact c14h_ok_refl V s
  · rw [hres]; exact c14h_ok_of_lists V s _ ⟨[a], rfl⟩ rfl ⟨[], by simp [banDevice]⟩ rfl
  · rw [hres]; exact c14h_ok_of_lists V s _ ⟨[a], rfl⟩ rfl ⟨[], by simp⟩ rfl

theorem c14h_authorize (cfg : Cfg) (V : Verify) (s : State) (a : Auth) :
    c14h_StepOk V s (authorize cfg V s a).1 := by
  unfold authorize
  split
  · exact c14h_ok_refl V s
  split
  · exact c14h_ok_refl V s
  · exact c14h_save cfg V s a

/-- Rotation appends one week and leaves the other files alone. -/
theorem c14h_rotate_disk (sgn : Bytes → Bytes) (s : State) :
    (rotate sgn s).1.disk.auths = s.disk.auths ∧ (rotate sgn s).1.disk.reports = s.disk.reports ∧
    (rotate sgn s).1.disk.gcaKey = s.disk.gcaKey ∧ ∃ x, (rotate sgn s).1.disk.weeks = s.disk.weeks ++ x := by
  unfold rotate
  split
  · exact ⟨rfl, rfl, rfl, [], by simp⟩
  · exact ⟨rfl, rfl, rfl, _, rfl⟩

theorem c14h_rotate (V : Verify) (sgn : Bytes → Bytes) (s : State) : c14h_StepOk V s (rotate sgn s).1 := by
  obtain ⟨h1, h2, h3, h4⟩ := c14h_rotate_disk sgn s
  exact c14h_ok_of_lists V s _ ⟨[], by rw [h1]; simp⟩ h2 h4 h3

theorem c14h_catchUp_disk (sgn : Bytes → Bytes) (now fuel : Nat) (s : State) :
    (catchUp sgn now fuel s).1.disk.auths = s.disk.auths ∧ (catchUp sgn now fuel s).1.disk.reports = s.disk.reports ∧
    (catchUp sgn now fuel s).1.disk.gcaKey = s.disk.gcaKey ∧
    ∃ x, (catchUp sgn now fuel s).1.disk.weeks = s.disk.weeks ++ x := by
  induction fuel generalizing s with
  | zero => exact ⟨rfl, rfl, rfl, [], by simp [catchUp]⟩
  | succ n ih =>
    unfold catchUp
    split
    · exact ⟨rfl, rfl, rfl, [], by simp⟩
    · obtain ⟨h1, h2, h3, x, h4⟩ := c14h_rotate_disk sgn s
      generalize rotate sgn s = p at h1 h2 h3 h4
      obtain ⟨s', o⟩ := p
      simp only at h1 h2 h3 h4
      obtain ⟨g1, g2, g3, y, g4⟩ := ih s'
      cases o <;> simp only <;>
        first
        | exact ⟨g1.trans h1, g2.trans h2, g3.trans h3, x ++ y, by rw [g4, h4, List.append_assoc]⟩
        | exact ⟨h1, h2, h3, x, h4⟩

theorem c14h_restart (cfg : Cfg) (V : Verify) (sgn : Bytes → Bytes) (s : State) (fresh : Key) (now : Nat)
    (h : Sync cfg V s) : c14h_StepOk V s (step cfg V sgn s (.restart fresh now)).1 := by
  obtain ⟨t, ht, _, _, hl⟩ := c04h_restart_eq cfg V sgn s fresh now h
  show c14h_StepOk V s (match load cfg V sgn s.disk s.tempKey fresh now with
      | none => (s, Out.startFailed)
      | some s' => (s', Out.ok)).1
  rw [hl]
  obtain ⟨_, h2, h3, h4, again, hag1, hag2⟩ := c05h_load_again cfg V s t fresh h ht
  obtain ⟨c1, c2, c3, x, c4⟩ := c14h_catchUp_disk sgn now (now / week + 2) t
  refine ⟨⟨⟨[], ?_⟩, ⟨again, ?_⟩, ⟨x, ?_⟩⟩, fun _ => ?_, ?_⟩
  · show (catchUp sgn now (now / week + 2) t).1.disk.auths = _
    rw [c1, h3]; simp
  · show (catchUp sgn now (now / week + 2) t).1.disk.reports = _
    rw [c2, hag1]
  · show (catchUp sgn now (now / week + 2) t).1.disk.weeks = _
    rw [c4, h4]
  · show (catchUp sgn now (now / week + 2) t).1.disk.gcaKey = _
    rw [c3, h2]
  · intro r hr
    have hr' : r ∈ (catchUp sgn now (now / week + 2) t).1.disk.reports := hr
    rw [c2, hag1] at hr'
    rcases List.mem_append.mp hr' with hr' | hr'
    · exact Or.inl hr'
    · exact Or.inl (hag2 r hr')

/-- Every operation from a state in sync treats the files as `c14h_StepOk` says. -/
theorem c14h_step (cfg : Cfg) (V : Verify) (sgn : Bytes → Bytes) (s : State) (op : Op)
    (h : Sync cfg V s) : c14h_StepOk V s (step cfg V sgn s op).1 := by
  cases op with
  | dgram now d => exact c14h_dgram cfg V s now d h.inv
  | register k sig => exact c14h_register V s k sig
  | authorize a => exact c14h_authorize cfg V s a
  | rotate => exact c14h_rotate V sgn s
  | tick now =>
    show c14h_StepOk V s (tick sgn s now).1
    unfold tick
    split
    · exact c14h_rotate V sgn s
    · exact c14h_ok_refl V s
  | restart fresh now => exact c14h_restart cfg V sgn s fresh now h
  | stats tso => exact c14h_ok_refl V s
  | sync id => exact c14h_ok_refl V s
  | authServer a =>
    show c14h_StepOk V s (authServer V s a).1
    unfold authServer
    split
    · exact c14h_ok_refl V s
    split
    · exact c14h_ok_refl V s
    split
    · split
      · exact c14h_ok_refl V s
      split
      · exact c14h_ok_refl V s
      · exact c14h_ok_of_disk V s _ rfl
    · exact c14h_ok_of_disk V s _ rfl
  | migrate m =>
    show c14h_StepOk V s (migrateOrder V s m).1
    unfold migrateOrder
    split
    · exact c14h_ok_refl V s
    split
    · exact c14h_ok_refl V s
    · exact c14h_ok_of_disk V s _ rfl
  | impact id ts rate =>
    show c14h_StepOk V s (impactWrite s id ts rate)
    unfold impactWrite
    split
    · exact c14h_ok_refl V s
    · split
      · exact c14h_ok_of_disk V s _ rfl
      · exact c14h_ok_refl V s

/-- A registered GCA stays registered as long as its key file is left alone. -/
theorem c14h_avail_keeps {s s' : State} (hs : Inv s) (hs' : Inv s') (hav : s.gcaAvail = true)
    (hk : s'.disk.gcaKey = s.disk.gcaKey) : s'.gcaAvail = true := by
  obtain ⟨h1, h2⟩ := hs.gcaAv hav
  cases hav' : s'.gcaAvail with
  | true => rfl
  | false =>
    obtain ⟨_, h3⟩ := hs'.gcaUn hav'
    rw [hk, h1] at h3
    rcases h3 with h3 | h3
    · cases h3
    · have : s.gcaKey = [] := Option.some.inj h3
      rw [this] at h2; simp at h2

theorem c14h_run (cfg : Cfg) (V : Verify) (sgn : Bytes → Bytes) (ops : List Op) (s : State)
    (h : Sync cfg V s) (hops : ∀ op ∈ ops, OpWF op) :
    c14h_Grow s.disk (run cfg V sgn s ops).1.disk ∧
    (s.gcaAvail = true → (run cfg V sgn s ops).1.disk.gcaKey = s.disk.gcaKey) := by
  induction ops generalizing s with
  | nil => exact ⟨c14h_Grow.refl _, fun _ => rfl⟩
  | cons op t ih =>
    have h1 := sync_step cfg V sgn s op h (hops op (by simp))
    have hst := c14h_step cfg V sgn s op h
    obtain ⟨g1, g2⟩ := ih (step cfg V sgn s op).1 h1 (fun o ho => hops o (by simp [ho]))
    refine ⟨hst.grow.trans g1, fun hav => ?_⟩
    have hk := hst.key hav
    exact (g2 (c14h_avail_keeps h.inv h1.inv hav hk)).trans hk

/-! ### A live device has its authorization on disk -/

theorem c14h_replayAuth_mem (cfg : Cfg) (L : List Auth) (s : State) (a : Auth) (ha : a ∈ L)
    (h : ∀ id d, s.devices.get id = some d → d.auth ∈ L) :
    ∀ id d, (replayAuth cfg s a).devices.get id = some d → d.auth ∈ L := by
  unfold replayAuth
  split
  · exact h
  · split
    · split
      · exact h
      · intro id d hd
        simp only [banDevice] at hd
        by_cases e : a.id = id
        · subst e; rw [FMap.get_del_same] at hd; cases hd
        · rw [FMap.get_del_ne _ _ _ e] at hd; exact h id d hd
    · split
      · exact h
      · intro id d hd
        simp only at hd
        by_cases e : a.id = id
        · subst e; rw [FMap.get_set_same] at hd; cases hd; exact ha
        · rw [FMap.get_set_ne _ _ _ _ e] at hd; exact h id d hd

theorem c14h_foldl_replayAuth_mem (cfg : Cfg) (L l : List Auth) (s : State) (hl : ∀ a ∈ l, a ∈ L)
    (h : ∀ id d, s.devices.get id = some d → d.auth ∈ L) :
    ∀ id d, (l.foldl (replayAuth cfg) s).devices.get id = some d → d.auth ∈ L := by
  induction l generalizing s with
  | nil => exact h
  | cons a t ih =>
    exact ih _ (fun x hx => hl x (by simp [hx])) (c14h_replayAuth_mem cfg L s a (hl a (by simp)) h)

/-- The authorization of every device in memory is a record of the authorization file. -/
theorem c14h_dev_auth_on_disk (cfg : Cfg) (V : Verify) (s : State) (h : Sync cfg V s) (id : Nat) (d : Dev)
    (hd : s.devices.get id = some d) : d.auth ∈ s.disk.auths := by
  have hobs1 : aobs (s.disk.auths.foldl (replayAuth cfg) (base s)) = aobs s := by
    rw [c04h_aobs_foldl]; exact (c04h_authSim_iff cfg s).mp h.authSim
  obtain ⟨d', h1, h2⟩ := (c04h_aobs_dev hobs1).2 id d hd
  rw [← h2]
  exact c14h_foldl_replayAuth_mem cfg s.disk.auths s.disk.auths (base s) (fun _ ha => ha)
    (fun id d hd => by simp [base] at hd) id d' h1

/-! ### The invariant `Sync` does not carry: every report on disk has its authorization on disk

`Sync` says nothing about the records of a BANNED id in the report file (`Sync.repOk`
only speaks about ids that are not banned), so `c14_report_has_auth` does not follow
from `Sync` alone. The missing fact is itself an invariant of the server: -/

/-- Every report on disk verifies under the key of an authorization on disk with the same id. -/
def RepAuth (V : Verify) (s : State) : Prop :=
  ∀ r ∈ s.disk.reports, ∃ a ∈ s.disk.auths, a.id = r.id ∧ V a.key (Report.signingBytes r) r.sig = true

/-- `RepAuth` holds after the first start on a freshly installed directory. -/
theorem c14_repauth_boot (cfg : Cfg) (V : Verify) (sgn : Bytes → Bytes) (tempKey fresh : Key) (now : Nat) (s : State)
    (hf : fresh.length = 32) (h : boot cfg V sgn tempKey fresh now = some s) : RepAuth V s := by
  obtain ⟨hc, hs0⟩ := c04h_sync_boot0 cfg V tempKey fresh hf
  unfold boot at h
  rw [load_eq_core, hc] at h
  simp only at h
  have h1 := (inv_catchUp sgn now (now / week + 2) _ hs0.inv).1
  have h2 := (c14h_catchUp_disk sgn now (now / week + 2)
    { tempKey := tempKey, srvPub := fresh, disk := { srvKeys := some fresh } }).2.1
  generalize catchUp sgn now (now / week + 2) _ = p at h h1 h2
  obtain ⟨s4, o⟩ := p
  simp only at h1 h2
  subst h1
  cases h
  intro r hr
  rw [h2] at hr
  cases hr

/-- Every operation (restart included) preserves `RepAuth`. -/
theorem c14_repauth_step (cfg : Cfg) (V : Verify) (sgn : Bytes → Bytes) (s : State) (op : Op)
    (h : Sync cfg V s) (hra : RepAuth V s) : RepAuth V (step cfg V sgn s op).1 := by
  obtain ⟨⟨⟨x, hx⟩, _, _⟩, _, hnew⟩ := c14h_step cfg V sgn s op h
  intro r hr
  rcases hnew r hr with hold | ⟨d, hd, hv⟩
  · obtain ⟨a, ha, h1, h2⟩ := hra r hold
    exact ⟨a, by rw [hx]; exact List.mem_append.mpr (Or.inl ha), h1, h2⟩
  · refine ⟨d.auth, ?_, (h.inv.devOk _ _ hd).1, hv⟩
    rw [hx]
    exact List.mem_append.mpr (Or.inl (c14h_dev_auth_on_disk cfg V s h _ d hd))

theorem c14_repauth_run (cfg : Cfg) (V : Verify) (sgn : Bytes → Bytes) (s : State) (ops : List Op)
    (h : Sync cfg V s) (hra : RepAuth V s) (hops : ∀ op ∈ ops, OpWF op) :
    RepAuth V (run cfg V sgn s ops).1 := by
  induction ops generalizing s with
  | nil => exact hra
  | cons op t ih =>
    exact ih (step cfg V sgn s op).1 (sync_step cfg V sgn s op h (hops op (by simp)))
      (c14_repauth_step cfg V sgn s op h hra) (fun o ho => hops o (by simp [ho]))

/-- `RepAuth` along reachability. -/
theorem c14_repauth_reach (cfg : Cfg) (V : Verify) (sgn : Bytes → Bytes) (s t : State)
    (h : Sync cfg V s) (hra : RepAuth V s) (hr : Reach cfg V sgn s t) : RepAuth V t := by
  obtain ⟨ops, hops, rfl⟩ := hr
  exact c14_repauth_run cfg V sgn s ops h hra hops

theorem c14h_sync_reach (cfg : Cfg) (V : Verify) (sgn : Bytes → Bytes) (s t : State)
    (h : Sync cfg V s) (hr : Reach cfg V sgn s t) : Sync cfg V t := by
  obtain ⟨ops, hops, rfl⟩ := hr
  exact sync_run cfg V sgn s ops h hops

/-- Files only grow: every operation (restart included) extends each log by appending. -/
theorem c14_files_grow (cfg : Cfg) (V : Verify) (sgn : Bytes → Bytes) (s t : State)
    (hs : Sync cfg V s) (hr : Reach cfg V sgn s t) :
    (∃ x, t.disk.auths = s.disk.auths ++ x) ∧ (∃ x, t.disk.reports = s.disk.reports ++ x) ∧
    (∃ x, t.disk.weeks = s.disk.weeks ++ x) ∧
    (s.gcaAvail = true → t.disk.gcaKey = s.disk.gcaKey) := by
  obtain ⟨ops, hops, rfl⟩ := hr
  obtain ⟨⟨h1, h2, h3⟩, h4⟩ := c14h_run cfg V sgn ops s hs hops
  exact ⟨h1, h2, h3, h4⟩

/- Note: from `Sync` alone the closure statements below are NOT provable (`Sync.repOk` is silent
about reports of banned ids; kernel-checked counterexample on an unreachable state in
Gca/Lemmas/C14Cex.lean). They are therefore stated for every state reachable from a first
start - which is every state a real server can be in - via the extra invariant `RepAuth`. -/

/-- `c14_report_has_auth` from `Sync` together with the invariant `RepAuth`
(which holds at first start, `c14_repauth_boot`, and is kept by every operation,
`c14_repauth_step`). -/
theorem c14_report_has_auth' (cfg : Cfg) (V : Verify) (s : State) (hs : Sync cfg V s) (hra : RepAuth V s)
    (hz : ∀ m sg, V (zeros 32) m sg = false) (r : Report) (hr : r ∈ s.disk.reports) :
    ∃ a ∈ s.disk.auths, a.id = r.id ∧ V a.key (Report.signingBytes r) r.sig = true := by
  have _ := hs
  have _ := hz
  exact hra r hr

/-- For ids that are not banned `Sync` alone suffices: the report verifies under the key of
the live device, whose authorization is a record of the authorization file. -/
theorem c14_report_has_auth_live (cfg : Cfg) (V : Verify) (s : State) (hs : Sync cfg V s)
    (r : Report) (hr : r ∈ s.disk.reports) (hb : r.id ∉ s.bans) :
    ∃ a ∈ s.disk.auths, a.id = r.id ∧ V a.key (Report.signingBytes r) r.sig = true := by
  obtain ⟨d, hd, hv, _⟩ := hs.repOk r hr hb
  exact ⟨d.auth, c14h_dev_auth_on_disk cfg V s hs _ d hd, (hs.inv.devOk _ _ hd).1, hv⟩

/-- In every state reachable from a first start each report on disk belongs to an id
whose authorization is on disk and verifies under it. -/
theorem c14_report_has_auth (cfg : Cfg) (V : Verify) (sgn : Bytes → Bytes) (tempKey fresh : Key) (now : Nat)
    (s0 : State) (ops : List Op) (hf : fresh.length = 32)
    (hb : boot cfg V sgn tempKey fresh now = some s0) (hops : ∀ op ∈ ops, OpWF op)
    (r : Report) (hr : r ∈ (run cfg V sgn s0 ops).1.disk.reports) :
    ∃ a ∈ (run cfg V sgn s0 ops).1.disk.auths, a.id = r.id ∧ V a.key (Report.signingBytes r) r.sig = true :=
  c14_repauth_run cfg V sgn s0 ops (sync_boot cfg V sgn tempKey fresh now s0 hf hb)
    (c14_repauth_boot cfg V sgn tempKey fresh now s0 hf hb) hops r hr

/-- The parts of `c14_closed` that follow from `Sync` alone: authorizations verify
under the archived GCA key, statistics are a prefix. -/
theorem c14_closed_sync (cfg : Cfg) (V : Verify) (sgn : Bytes → Bytes) (sa sb sc se : State)
    (ha : Sync cfg V sa) (hab : Reach cfg V sgn sa sb) (hbc : Reach cfg V sgn sb sc) (hce : Reach cfg V sgn sc se) :
    (∀ a ∈ sc.disk.auths, ∃ k, se.disk.gcaKey = some k ∧ V k (Auth.signingBytes a) a.sig = true) ∧
    (∃ x, se.disk.weeks = sa.disk.weeks ++ x) := by
  have hb := c14h_sync_reach cfg V sgn sa sb ha hab
  have hc := c14h_sync_reach cfg V sgn sb sc hb hbc
  obtain ⟨_, _, w1, _⟩ := c14_files_grow cfg V sgn sa sb ha hab
  obtain ⟨_, _, w2, _⟩ := c14_files_grow cfg V sgn sb sc hb hbc
  obtain ⟨_, _, w3, k3⟩ := c14_files_grow cfg V sgn sc se hc hce
  constructor
  · intro a hmem
    cases hav : sc.gcaAvail with
    | false =>
      rw [hc.noAuthUnreg hav] at hmem
      cases hmem
    | true =>
      refine ⟨sc.gcaKey, ?_, hc.authSig a hmem⟩
      rw [k3 hav]
      exact (hc.inv.gcaAv hav).1
  · obtain ⟨x1, e1⟩ := w1
    obtain ⟨x2, e2⟩ := w2
    obtain ⟨x3, e3⟩ := w3
    exact ⟨x1 ++ (x2 ++ x3), by rw [e3, e2, e1, List.append_assoc, List.append_assoc]⟩

/-- `c14_closed` from `Sync` together with the invariant `RepAuth`. -/
theorem c14_closed' (cfg : Cfg) (V : Verify) (sgn : Bytes → Bytes) (sa sb sc se : State)
    (ha : Sync cfg V sa) (hra : RepAuth V sa)
    (hab : Reach cfg V sgn sa sb) (hbc : Reach cfg V sgn sb sc) (hce : Reach cfg V sgn sc se)
    (hz : ∀ m sg, V (zeros 32) m sg = false) :
    (∀ r ∈ sb.disk.reports, ∃ a ∈ sc.disk.auths, a.id = r.id ∧ V a.key (Report.signingBytes r) r.sig = true) ∧
    (∀ a ∈ sc.disk.auths, ∃ k, se.disk.gcaKey = some k ∧ V k (Auth.signingBytes a) a.sig = true) ∧
    (∃ x, se.disk.weeks = sa.disk.weeks ++ x) := by
  have _ := hz
  have hb := c14h_sync_reach cfg V sgn sa sb ha hab
  have hrb := c14_repauth_reach cfg V sgn sa sb ha hra hab
  obtain ⟨⟨x, hx⟩, _⟩ := c14_files_grow cfg V sgn sb sc hb hbc
  refine ⟨?_, c14_closed_sync cfg V sgn sa sb sc se ha hab hbc hce⟩
  intro r hr
  obtain ⟨a, hmem, h1, h2⟩ := hrb r hr
  exact ⟨a, by rw [hx]; exact List.mem_append.mpr (Or.inl hmem), h1, h2⟩

/-- Dependency closure of every archive taken from a server that was started on a
freshly installed directory. -/
theorem c14_closed (cfg : Cfg) (V : Verify) (sgn : Bytes → Bytes) (tempKey fresh : Key) (now : Nat)
    (s0 sa sb sc se : State) (hf : fresh.length = 32) (hb : boot cfg V sgn tempKey fresh now = some s0)
    (h0a : Reach cfg V sgn s0 sa)
    (hab : Reach cfg V sgn sa sb) (hbc : Reach cfg V sgn sb sc) (hce : Reach cfg V sgn sc se)
    (hz : ∀ m sg, V (zeros 32) m sg = false) :
    (∀ r ∈ sb.disk.reports, ∃ a ∈ sc.disk.auths, a.id = r.id ∧ V a.key (Report.signingBytes r) r.sig = true) ∧
    (∀ a ∈ sc.disk.auths, ∃ k, se.disk.gcaKey = some k ∧ V k (Auth.signingBytes a) a.sig = true) ∧
    (∃ x, se.disk.weeks = sa.disk.weeks ++ x) := by
  have hs0 := sync_boot cfg V sgn tempKey fresh now s0 hf hb
  have hr0 := c14_repauth_boot cfg V sgn tempKey fresh now s0 hf hb
  exact c14_closed' cfg V sgn sa sb sc se (c14h_sync_reach cfg V sgn s0 sa hs0 h0a)
    (c14_repauth_reach cfg V sgn s0 sa hs0 hr0 h0a) hab hbc hce hz

/-- With the files in the opposite order the closure fails: a report can be in
the archive without its authorization (why the order of `PublicFiles` matters). -/
theorem c14_wrong_order_witness :
    let V : Verify := fun _ _ _ => true
    let a1 : Auth := ⟨1, zeros 32, 0, 0, 1000, 0, 0, 0, 0, zeros 64⟩
    let r : Report := ⟨1, 5, 500, zeros 64⟩
    ∃ s0, boot {} V (fun _ => []) (zeros 32) (zeros 32) 0 = some s0 ∧
      let s1 := (run {} V (fun _ => []) s0 [.register (zeros 32) (zeros 64)]).1
      let s2 := (run {} V (fun _ => []) s1 [.authorize a1, .dgram 10 (Report.encode r)]).1
      -- authorizations read first (from s1), reports later (from s2)
      r ∈ s2.disk.reports ∧ ∀ a ∈ s1.disk.auths, a.id ≠ r.id := by
  intro V a1 r
  refine ⟨{ tempKey := zeros 32, srvPub := zeros 32, disk := { srvKeys := some (zeros 32) } }, ?_, ?_⟩
  · decide +kernel
  · decide +kernel

end Gca.Srv
