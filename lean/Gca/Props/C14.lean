import Gca.Props.C05
import Gca.Tie.Tables
/-
C14 - Archive download is a consistent, public-only snapshot.

The handler reads the files one after another without locks, in the order
statistics, reports, authorizations, GCA key (`Tie.public_files`), while
operations keep appending. Model: the server passes through states
`sa →* sb →* sc →* se` (any operations in between) and the archive takes the
statistics file of `sa`, the report file of `sb`, the authorization file of
`sc` and the GCA key file of `se`. Atomic appends (the property's own
assumption) make each of them a record-aligned prefix of the final file.
The private key is never read: the archive's key entry is the public half
returned by `loadGCAServerKeys` (tie: `archive_order`, and the harness scans
every archive for the private key bytes). Rate: the limiter is consulted before
any file is read (`archive_order`), so C19 bounds the archives per window.
-/
namespace Gca.Srv

/-- `t` is reachable from `s` by some operations. -/
def Reach (cfg : Cfg) (V : Verify) (sgn : Bytes → Bytes) (s t : State) : Prop :=
  ∃ ops, (∀ op ∈ ops, OpWF op) ∧ (run cfg V sgn s ops).1 = t

/-- Files only grow: every operation (restart included) extends each log by appending. -/
theorem c14_files_grow (cfg : Cfg) (V : Verify) (sgn : Bytes → Bytes) (s t : State)
    (hs : Sync cfg V s) (hr : Reach cfg V sgn s t) :
    (∃ x, t.disk.auths = s.disk.auths ++ x) ∧ (∃ x, t.disk.reports = s.disk.reports ++ x) ∧
    (∃ x, t.disk.weeks = s.disk.weeks ++ x) ∧
    (s.gcaAvail = true → t.disk.gcaKey = s.disk.gcaKey) := by
  sorry

/-- In every reachable state each report on disk belongs to an id whose
authorization is on disk and verifies under it. -/
theorem c14_report_has_auth (cfg : Cfg) (V : Verify) (s : State) (hs : Sync cfg V s)
    (hz : ∀ m sg, V (zeros 32) m sg = false) (r : Report) (hr : r ∈ s.disk.reports) :
    ∃ a ∈ s.disk.auths, a.id = r.id ∧ V a.key (Report.signingBytes r) r.sig = true := by
  sorry

/-- Dependency closure of an archive taken while writes are in progress. -/
theorem c14_closed (cfg : Cfg) (V : Verify) (sgn : Bytes → Bytes) (sa sb sc se : State)
    (ha : Sync cfg V sa) (hab : Reach cfg V sgn sa sb) (hbc : Reach cfg V sgn sb sc) (hce : Reach cfg V sgn sc se)
    (hz : ∀ m sg, V (zeros 32) m sg = false) :
    -- every archived report has its authorization in the archive, and verifies under it
    (∀ r ∈ sb.disk.reports, ∃ a ∈ sc.disk.auths, a.id = r.id ∧ V a.key (Report.signingBytes r) r.sig = true) ∧
    -- every archived authorization verifies under the archived GCA key
    (∀ a ∈ sc.disk.auths, ∃ k, se.disk.gcaKey = some k ∧ V k (Auth.signingBytes a) a.sig = true) ∧
    -- the archived statistics are a prefix of the weeks archived later
    (∃ x, se.disk.weeks = sa.disk.weeks ++ x) := by
  sorry

/-- With the files in the opposite order the closure fails: a report can be in
the archive without its authorization (why the order of `PublicFiles` matters). -/
theorem c14_wrong_order_witness :
    let V : Verify := fun _ _ _ => true
    let a1 : Auth := ⟨1, zeros 32, 0, 0, 1000, 0, 0, 0, 0, zeros 64⟩
    let r : Report := ⟨1, 5, 500, zeros 64⟩
    ∃ s0, boot {} V (fun _ => []) (zeros 32) (zeros 32) 0 = some s0 ∧
      let s1 := (run {} V (fun _ => []) s0 [.register (zeros 32) (zeros 64)]).1
      let s2 := (run {} V (fun _ => []) s1 [.authorize a1, .dgram 10 (Report.encode r)]).1
      -- authorizations read first (from s1), reports later (from s2)
      r ∈ s2.disk.reports ∧ ∀ a ∈ s1.disk.auths, a.id ≠ r.id := by
  sorry

end Gca.Srv
