import Gca.Client.Model
import Gca.Props.C17
/-
C11 - No server behaviour can crash, wedge or mislead the client (the part a
model can carry). Panic-freedom of the reply parser: every slice the Go code
takes is inside the buffer once the length guard (tie `reply_min_length`: 712)
has passed, and the server-entry loop only reads what its two length checks
have established. Lock release on every path is decided on the regenerated lock
skeletons (Gca/Tie/Locks.lean). "Keeps emitting reports and syncs again later"
is a liveness claim exercised by execution only (partial).
-/
namespace Gca.Cl
open Gca

/-! helper lemmas -/

theorem c11_ite_none_some {α : Type} {c : Prop} {inst : Decidable c} {x p : α}
    (h : (@ite _ c inst none (some x)) = some p) : ¬ c ∧ x = p := by
  split at h <;> simp_all

/-- The attempts loop only ever changes `primary`. -/
theorem c11_attempts_fields (c : Client) (n : Nat) (failed : List Key) (choices : List (Key × Attempt)) :
    (attempts c n failed choices).1.gcaKey = c.gcaKey ∧ (attempts c n failed choices).1.shortId = c.shortId ∧
    (attempts c n failed choices).1.servers = c.servers ∧ (attempts c n failed choices).1.hist = c.hist ∧
    (attempts c n failed choices).1.diskServers = c.diskServers := by
  induction n generalizing c failed choices with
  | zero => simp [attempts]
  | succ n ih =>
    cases choices with
    | nil => simp [attempts]
    | cons ka rest =>
      obtain ⟨k, a⟩ := ka
      simp only [attempts]
      split
      · simp
      split
      · simp
      cases a with
      | ok p => simp
      | fail => exact ih { c with primary := k } (k :: failed) rest

theorem c11_attempts_synced (c : Client) (n : Nat) (failed : List Key) (choices : List (Key × Attempt))
    (p : Parsed) (k : Key) (h : (attempts c n failed choices).2 = .synced p k) :
    ∃ s, c.servers.get k = some s ∧ s.banned = false := by
  induction n generalizing c failed choices with
  | zero => simp [attempts] at h
  | succ n ih =>
    cases choices with
    | nil => simp [attempts] at h
    | cons ka rest =>
      obtain ⟨k', a⟩ := ka
      simp only [attempts] at h
      split at h
      · simp at h
      split at h
      · simp at h
      rename_i _ he
      cases a with
      | ok p' =>
        simp at h
        obtain ⟨_, rfl⟩ := h
        simp only [eligible] at he
        split at he
        · simp at he
        · rename_i s hs
          exact ⟨s, hs, by simp at he; exact he.1⟩
      | fail => exact ih { c with primary := k' } (k' :: failed) rest h

/-- The round in terms of the attempts loop. -/
theorem c11_syncRound_cases (c : Client) (choices : List (Key × Attempt)) :
    (∃ p k, (attempts c 5 [] choices).2 = .synced p k ∧
      syncRound c choices = (adopt (attempts c 5 [] choices).1 p, .synced p k)) ∨
    ((∀ p k, (attempts c 5 [] choices).2 ≠ .synced p k) ∧ syncRound c choices = attempts c 5 [] choices) := by
  unfold syncRound
  generalize attempts c 5 [] choices = r
  obtain ⟨c', o⟩ := r
  cases o with
  | synced p k => exact Or.inl ⟨p, k, rfl, rfl⟩
  | gaveUp => exact Or.inr ⟨by simp, rfl⟩
  | noServers => exact Or.inr ⟨by simp, rfl⟩
  | badChoice => exact Or.inr ⟨by simp, rfl⟩

/-! the C11 theorems -/

/-- With the length guard passed, every fixed offset used by the parser is within the reply. -/
theorem c11_fixed_offsets (n : Nat) (h : 712 ≤ n) :
    72 ≤ n ∧ 64 ≤ n ∧ 136 ≤ n ∧ 576 ≤ n - 136 ∧ 540 ≤ n - 136 ∧ (n - 136) + 64 = n - 72 ∧ (n - 72) + 8 = n - 64 := by
  omega

/-- One iteration of the entry loop consumes exactly the bytes of the entry it
returns (never reads beyond its input), and at least 104 of them. -/
theorem c11_entry_consumes (b r : Bytes) (a : AuthServer) (h : AuthServer.decode1 b = some (a, r)) :
    b.length = r.length + 104 + a.loc.length ∧ a.loc.length < 256 ∧ a.key.length = 32 ∧ a.sig.length = 64 := by
  unfold AuthServer.decode1 at h
  split at h
  · simp at h
  rename_i h1
  simp only [rd] at h
  have hll : unle (List.take 1 (List.drop 1 (List.drop 32 b))) < 256 := by
    have := unle_lt (List.take 1 (List.drop 1 (List.drop 32 b)))
    simp only [List.length_take, List.length_drop] at this
    have h3 : min 1 (b.length - 32 - 1) = 1 := by omega
    rw [h3] at this
    simpa using this
  obtain ⟨h2, h⟩ := c11_ite_none_some h
  simp only [Prod.mk.injEq] at h
  obtain ⟨ha, hr⟩ := h
  subst ha hr
  simp only [List.length_drop, List.length_take] at h2 ⊢
  omega

/-- The parser is a total function of the bytes: for every byte string it
either refuses or returns values whose sizes are the documented ones. -/
theorem c11_parse_sizes (V : Verify) (ck gk sk : Key) (now : Nat) (resp : Bytes) (p : Parsed)
    (h : parseReply V ck gk sk now resp = some p) :
    p.bits.length = 504 ∧ p.newGCA.length = 32 ∧ p.off < 2^32 ∧ p.newId < 2^32 ∧ 712 ≤ resp.length := by
  obtain ⟨hn, ho, hb, hg, hi, _⟩ := c17_parseReply_some h
  have h1 := unle_lt ((resp.drop 32).take 4)
  have h2 := unle_lt ((resp.drop 572).take 4)
  have e1 : ((resp.drop 32).take 4).length = 4 := by simp only [List.length_take, List.length_drop]; omega
  have e2 : ((resp.drop 572).take 4).length = 4 := by simp only [List.length_take, List.length_drop]; omega
  rw [e1] at h1; rw [e2] at h2
  rw [ho, hb, hg, hi]
  refine ⟨?_, ?_, by simpa using h1, by simpa using h2, hn⟩
  · simp only [List.length_take, List.length_drop]; omega
  · simp only [List.length_take, List.length_drop]; omega

/-- The round never uses a banned server or one that already failed in this round. -/
theorem c11_round_choice (c : Client) (choices : List (Key × Attempt)) (p : Parsed) (k : Key)
    (h : (syncRound c choices).2 = .synced p k) :
    ∃ s, c.servers.get k = some s ∧ s.banned = false := by
  rcases c11_syncRound_cases c choices with ⟨p', k', h1, h2⟩ | ⟨h1, h2⟩
  · rw [h2] at h
    simp at h
    obtain ⟨rfl, rfl⟩ := h
    exact c11_attempts_synced c 5 [] choices _ _ h1
  · rw [h2] at h
    exact absurd h (h1 p k)

theorem c11h_attempts_primary (c : Client) (n : Nat) (failed : List Key) (choices : List (Key × Attempt))
    (p : Parsed) (k : Key) (h : (attempts c n failed choices).2 = .synced p k) :
    (attempts c n failed choices).1.primary = k := by
  induction n generalizing c failed choices with
  | zero => simp [attempts] at h
  | succ n ih =>
    cases choices with
    | nil => simp [attempts] at h
    | cons ka rest =>
      obtain ⟨k', a⟩ := ka
      simp only [attempts] at h ⊢
      split
      · rename_i hc; rw [if_pos hc] at h; simp at h
      · rename_i hc
        rw [if_neg hc] at h
        split
        · rename_i he; rw [if_pos he] at h; simp at h
        · rename_i he
          rw [if_neg he] at h
          cases a with
          | ok p' =>
            simp at h
            obtain ⟨_, rfl⟩ := h
            rfl
          | fail => exact ih { c with primary := k' } (k' :: failed) rest h

/-- Whatever the attempts loop does to `primary`, it only ever points it at a server that is known and not banned. -/
theorem c11h_primary_step (c : Client) (n : Nat) (failed : List Key) (choices : List (Key × Attempt)) :
    (attempts c n failed choices).1.primary = c.primary ∨
    ∃ s, c.servers.get (attempts c n failed choices).1.primary = some s ∧ s.banned = false := by
  induction n generalizing c failed choices with
  | zero => left; simp [attempts]
  | succ n ih =>
    cases choices with
    | nil => left; simp [attempts]
    | cons ka rest =>
      obtain ⟨k, a⟩ := ka
      simp only [attempts]
      split
      · left; rfl
      · split
        · left; rfl
        · rename_i _ he
          have hk : ∃ s, c.servers.get k = some s ∧ s.banned = false := by
            simp only [eligible] at he
            split at he
            · simp at he
            · rename_i s hs
              exact ⟨s, hs, by simp at he; exact he.1⟩
          cases a with
          | ok p => right; simpa using hk
          | fail =>
            rcases ih { c with primary := k } (k :: failed) rest with h | h
            · right; rw [h]; simpa using hk
            · right; simpa using h

/-- A round that makes an attempt leaves the client pointed at a server that is known and not banned,
however the round ends: giving up never falls back to a banned server. -/
theorem c11_primary_after_attempt (c : Client) (n : Nat) (failed : List Key) (k : Key) (a : Attempt)
    (rest : List (Key × Attempt))
    (hany : (c.servers.any (fun p => eligible c failed p.1)) = true)
    (hb : (attempts c (n + 1) failed ((k, a) :: rest)).2 ≠ .badChoice) :
    ∃ s, c.servers.get (attempts c (n + 1) failed ((k, a) :: rest)).1.primary = some s ∧ s.banned = false := by
  simp only [attempts] at hb ⊢
  rw [if_neg (by simp [hany])] at hb ⊢
  by_cases he : eligible c failed k
  · rw [if_neg (by simp [he])] at hb ⊢
    have hk : ∃ s, c.servers.get k = some s ∧ s.banned = false := by
      simp only [eligible] at he
      split at he
      · simp at he
      · rename_i s hs
        exact ⟨s, hs, by simp at he; exact he.1⟩
    cases a with
    | ok p => simpa using hk
    | fail =>
      rcases c11h_primary_step { c with primary := k } n (k :: failed) rest with h | h
      · simp only at h ⊢; rw [h]; simpa using hk
      · simpa using h
  · rw [if_pos (by simp [he])] at hb
    exact absurd rfl hb

/-- After a round that synced, the server the client reports to is the one that answered: a reply cannot
point the client at another server (a migration replaces the list, not the choice). -/
theorem c11_primary_after_sync (c : Client) (choices : List (Key × Attempt)) (p : Parsed) (k : Key)
    (h : (syncRound c choices).2 = .synced p k) : (syncRound c choices).1.primary = k := by
  rcases c11_syncRound_cases c choices with ⟨p', k', h1, h2⟩ | ⟨h1, h2⟩
  · rw [h2] at h ⊢
    simp at h
    obtain ⟨rfl, rfl⟩ := h
    have := c11h_attempts_primary c 5 [] choices _ _ h1
    simp only [adopt]
    split <;> simpa using this
  · rw [h2] at h
    exact absurd h (h1 p k)

/-- All servers banned: the round ends at once (and, by the lock skeleton, with the mutex free). -/
theorem c11_all_banned (c : Client) (choices : List (Key × Attempt))
    (h : ∀ k s, c.servers.get k = some s → s.banned = true) (hne : choices ≠ []) :
    (syncRound c choices).2 = .noServers := by
  cases choices with
  | nil => exact absurd rfl hne
  | cons ka rest =>
    obtain ⟨k, a⟩ := ka
    have hany : (c.servers.any (fun p => eligible c [] p.1)) = false := by
      rw [List.any_eq_false]
      intro q _
      simp only [eligible]
      split
      · simp
      · rename_i s hs
        simp [h _ _ hs]
    have : attempts c 5 [] ((k, a) :: rest) = (c, .noServers) := by
      simp [attempts, hany]
    simp [syncRound, this]

/-- After at most five failed attempts the round gives up; the client's identity,
server list and files are exactly as before. -/
theorem c11_round_failure_keeps_state (c : Client) (choices : List (Key × Attempt))
    (h : ∀ p k, (syncRound c choices).2 ≠ .synced p k) :
    let c' := (syncRound c choices).1
    c'.gcaKey = c.gcaKey ∧ c'.shortId = c.shortId ∧ c'.servers = c.servers ∧ c'.hist = c.hist ∧
    c'.diskServers = c.diskServers := by
  intro c'
  rcases c11_syncRound_cases c choices with ⟨p', k', h1, h2⟩ | ⟨h1, h2⟩
  · exact absurd (by rw [h2]) (h p' k')
  · have hc : c' = (attempts c 5 [] choices).1 := by show (syncRound c choices).1 = _; rw [h2]
    rw [hc]
    exact c11_attempts_fields c 5 [] choices

/-- Knowledge that a server is banned is never lost by a round that keeps the
GCA (a migration replaces the list by the new GCA's, see C17). -/
theorem c11_ban_knowledge_kept (c : Client) (choices : List (Key × Attempt)) (k : Key) (e : CServer)
    (h : c.servers.get k = some e) (hb : e.banned = true)
    (hg : (syncRound c choices).1.gcaKey = c.gcaKey) :
    ∃ e', (syncRound c choices).1.servers.get k = some e' ∧ e'.banned = true := by
  obtain ⟨f1, _, f3, _, _⟩ := c11_attempts_fields c 5 [] choices
  rcases c11_syncRound_cases c choices with ⟨p', k', h1, h2⟩ | ⟨h1, h2⟩
  · rw [h2] at hg ⊢
    simp only at hg ⊢
    unfold adopt at hg ⊢
    split
    · rename_i hc
      rw [if_pos hc] at hg
      simp only at hg
      exact absurd (hg.trans f1.symm) hc.1
    · simp only
      exact c17_merge_ban_monotone _ _ k e (by rw [f3]; exact h) hb
  · rw [h2, f3]
    exact ⟨e, h, hb⟩

/-! ### "Tries to sync again later": the scheduling counter of the reporting loop
(tie: `Tie.sync_schedule`; that iterations keep happening at all is liveness, observed only) -/

theorem c11h_tick_gen (n : Nat) : ∀ (ticks : Nat) (sts : List Nat), ticks + n ≥ 60 → sts.length ≥ n → n ≥ 1 →
    true ∈ (tickRun ticks sts).take n := by
  induction n with
  | zero => intro _ _ _ _ h; omega
  | succ n ih =>
    intro ticks sts h1 h2 _
    cases sts with
    | nil => simp at h2
    | cons st rest =>
      simp only [tickRun, tickStep]
      by_cases hs : shouldSync (ticks + 1) st = true
      · simp [hs]
      · simp only [hs]
        have hlt : ticks + 1 < 60 := by
          unfold shouldSync at hs
          simp at hs
          omega
        have : n ≥ 1 := by omega
        have := ih (ticks + 1) rest (by omega) (by simpa using h2) this
        simp [List.take_succ_cons, this]


theorem c11h_retry_gen (n : Nat) : ∀ (ticks : Nat) (sts : List Nat), (∃ k, 1 ≤ k ∧ k ≤ n ∧ (ticks + k) % 4 = 3) →
    sts.length ≥ n → (∀ s ∈ sts, s = 0) → true ∈ (tickRun ticks sts).take n := by
  induction n with
  | zero => intro _ _ ⟨k, h1, h2, _⟩ _ _; omega
  | succ n ih =>
    intro ticks sts ⟨k, hk1, hk2, hk3⟩ h2 hf
    cases sts with
    | nil => simp at h2
    | cons st rest =>
      have hst : st = 0 := hf st (by simp)
      subst hst
      simp only [tickRun, tickStep]
      by_cases hs : shouldSync (ticks + 1) 0 = true
      · simp [hs]
      · simp only [hs]
        have hne : (ticks + 1) % 4 ≠ 3 := by
          unfold shouldSync at hs
          simp at hs
          omega
        have hk : k ≥ 2 := by
          rcases Nat.lt_or_ge k 2 with h | h
          · have : k = 1 := by omega
            subst this; exact absurd hk3 hne
          · exact h
        have := ih (ticks + 1) rest ⟨k - 1, by omega, by omega, by rw [← hk3]; congr 1; omega⟩
          (by simpa using h2) (fun s hs' => hf s (by simp [hs']))
        simp [List.take_succ_cons, this]


/-- A failed round is retried within 4 iterations of the loop (3 after a reset of the counter). -/
theorem c11_retry_after_failure (ticks : Nat) (sts : List Nat) (h : 4 ≤ sts.length)
    (hf : ∀ s ∈ sts, s = 0) :
    true ∈ (tickRun ticks sts).take 4 := by
  apply c11h_retry_gen 4 ticks sts _ h hf
  have : (ticks + 1) % 4 = 3 ∨ (ticks + 2) % 4 = 3 ∨ (ticks + 3) % 4 = 3 ∨ (ticks + 4) % 4 = 3 := by omega
  rcases this with h1 | h1 | h1 | h1
  · exact ⟨1, by omega, by omega, h1⟩
  · exact ⟨2, by omega, by omega, h1⟩
  · exact ⟨3, by omega, by omega, h1⟩
  · exact ⟨4, by omega, by omega, h1⟩

/-- Whatever the outcomes, a round is started at least every 60 iterations. -/
theorem c11_sync_at_least_every_60 (ticks : Nat) (sts : List Nat) (hk : ticks ≤ 60) (h : sts.length ≥ 60) :
    true ∈ (tickRun ticks sts).take 60 :=
  c11h_tick_gen 60 ticks sts (by omega) h (by omega)

example : tickRun 30 (List.replicate 8 0) = [true, false, false, true, false, false, true, false] := by decide

end Gca.Cl
