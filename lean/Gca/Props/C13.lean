import Gca.Server.Inv
import Gca.Props.C02
import Gca.Props.C01
import Gca.Tie.Locks
import Gca.Lemmas.SyncLemmas
/-
C13 - Concurrent operation is race-free, deadlock-free and equals a sequential run
(the part a model can carry).

* Lock discipline, for every control-flow path of every function of the server
  (and of the client and glow packages): decided on the skeletons regenerated
  from the source by the verified checker - `c13_lock_discipline` below unfolds
  what `Tie.locks_entries_ok` means through `Lock.check_sound`: no path unlocks a
  mutex it does not hold, takes a second mutex (no nesting, hence no lock-order
  deadlock), touches guarded server state outside its mutex, or returns with a
  mutex held.
* Sequential explanation: the unit of atomicity is the critical section. Every
  state-changing operation of the server model is ONE section, except the impact
  job, whose per-device write re-validates the device (`c12_impact_safe`), and
  the read-only tails of sync / statistics / server-authorization replies, which
  the harness checks by injecting every interfering operation exactly between
  the sections (verifPoint sites). For single-section operations any interleaving
  IS a sequence; that the result does not depend on the order of datagrams is
  proved here.
The Go memory model and the scheduler are not modelled: data-race freedom is the
lockset condition on the skeletons; the race detector is supporting evidence only.
-/
namespace Gca.Srv
open Gca

/-! ### Helper lemmas: a datagram as a function on the one device it names -/

/-- The report a datagram carries for device `k` (whose key is `key`), if the
datagram passes every check of the UDP path that does not look at the window. -/
def c13h_hit (V : Verify) (now : Nat) (key : Key) (k : Nat) (d : Bytes) : Option Report :=
  if d.length < 80 then none else
  match Report.decode (d.take 80) with
  | none => none
  | some r =>
    if r.id = k ∧ V key (Report.signingBytes r) r.sig = true ∧
       ¬ ((r.ts : Int) < (now : Int) - 432 ∨ (r.ts : Int) > (now : Int) + 432) ∧ ¬ (r.p = 0 ∨ r.p = 1)
    then some r else none

theorem c13h_hit_some {V : Verify} {now : Nat} {key : Key} {k : Nat} {d : Bytes} {r : Report}
    (h : c13h_hit V now key k d = some r) :
    ¬ d.length < 80 ∧ Report.decode (d.take 80) = some r ∧ r.id = k ∧
    V key (Report.signingBytes r) r.sig = true ∧
    ¬ ((r.ts : Int) < (now : Int) - 432 ∨ (r.ts : Int) > (now : Int) + 432) ∧ ¬ (r.p = 0 ∨ r.p = 1) := by
  unfold c13h_hit at h
  split at h
  · cases h
  rename_i hl
  split at h
  · cases h
  rename_i r' hd
  split at h
  · rename_i hc
    cases h
    exact ⟨hl, hd, hc⟩
  · cases h

/-- What a datagram does to the entry of device `k`. -/
def c13h_dstep (V : Verify) (off now : Nat) (d : Bytes) (k : Nat) (dv : Dev) : Dev :=
  match c13h_hit V now dv.auth.key k d with
  | none => dv
  | some r =>
    match integrateDev off dv r with
    | some (dv', _) => dv'
    | none => dv

theorem c13h_dstep_none {V : Verify} {off now : Nat} {d : Bytes} {k : Nat} {dv : Dev}
    (h : c13h_hit V now dv.auth.key k d = none) : c13h_dstep V off now d k dv = dv := by
  simp [c13h_dstep, h]

/-- `integrate` in terms of `integrateDev` on the device of the report. -/
theorem c13h_integrate_dev (cfg : Cfg) (s : State) (r : Report) (dev : Dev)
    (hg : s.devices.get r.id = some dev) (hlen : dev.reports.length = window) :
    ∃ d' b s', integrateDev s.off dev r = some (d', b) ∧ integrate cfg s r = some (s', b) ∧
      s'.off = s.off ∧ s'.devices.get r.id = some d' ∧
      ∀ k, k ≠ r.id → s'.devices.get k = s.devices.get k := by
  have hex : ∃ d' b, integrateDev s.off dev r = some (d', b) := by
    by_cases hw : r.ts < s.off ∨ s.off + window ≤ r.ts
    · exact ⟨dev, false, c02h_integrateDev_outside s.off dev r hw⟩
    · obtain ⟨d', b, hi, _⟩ := c02h_integrateDev_spec s.off dev r hlen (by omega) (by omega)
      exact ⟨d', b, hi⟩
  obtain ⟨d', b, hi⟩ := hex
  cases b with
  | false =>
    have : d' = dev := c04h_integrateDev_false hi
    subst this
    refine ⟨d', false, s, hi, ?_, rfl, hg, fun _ _ => rfl⟩
    unfold integrate; rw [hg]; simp only [hi]
  | true =>
    refine ⟨d', true, { s with devices := s.devices.set r.id d',
                               recentR := pushRecent cfg.maxRecent s.recentR r,
                               disk := { s.disk with reports := s.disk.reports ++ [r] } }, hi, ?_, ?_, ?_, ?_⟩
    · unfold integrate; rw [hg]; simp only [hi]
    · rfl
    · exact FMap.get_set_same _ _ _
    · intro k hk; exact FMap.get_set_ne _ _ _ _ (Ne.symm hk)

/-- A datagram keeps the window offset and acts on every device entry by `c13h_dstep`. -/
theorem c13h_dgram_dev (cfg : Cfg) (V : Verify) (s : State) (now : Nat) (d : Bytes) (hinv : Inv s) :
    (dgram cfg V s now d).1.off = s.off ∧
    ∀ k, (dgram cfg V s now d).1.devices.get k = (s.devices.get k).map (c13h_dstep V s.off now d k) := by
  have hid : ∀ k, (∀ dv, s.devices.get k = some dv → c13h_hit V now dv.auth.key k d = none) →
      s.devices.get k = (s.devices.get k).map (c13h_dstep V s.off now d k) := by
    intro k h
    cases hg : s.devices.get k with
    | none => rfl
    | some dv => simp [c13h_dstep_none (h dv hg)]
  unfold dgram
  by_cases hl : d.length < 80
  · rw [if_pos hl]
    refine ⟨rfl, fun k => hid k (fun dv _ => ?_)⟩
    simp [c13h_hit, hl]
  · rw [if_neg hl]
    cases hp : parseReport V s (d.take 80) with
    | none =>
      refine ⟨rfl, fun k => hid k (fun dv hg => ?_)⟩
      cases hh : c13h_hit V now dv.auth.key k d with
      | none => rfl
      | some r =>
        obtain ⟨_, hd, hk, hv, _⟩ := c13h_hit_some hh
        subst hk
        have := c01h_parseReport_none hp r dv hd hg
        rw [this] at hv; cases hv
    | some r =>
      simp only
      obtain ⟨hd, dev, hg, hv⟩ := c01h_parseReport_some hp
      by_cases ht : (r.ts : Int) < (now : Int) - 432 ∨ (r.ts : Int) > (now : Int) + 432
      · rw [if_pos ht]
        refine ⟨rfl, fun k => hid k (fun dv _ => ?_)⟩
        simp [c13h_hit, hl, hd, ht]
      · rw [if_neg ht]
        by_cases hp0 : r.p = 0 ∨ r.p = 1
        · rw [if_pos hp0]
          refine ⟨rfl, fun k => hid k (fun dv _ => ?_)⟩
          simp [c13h_hit, hl, hd, hp0]
        · rw [if_neg hp0]
          obtain ⟨d', b, s', hi, hint, hoff, hget, hoth⟩ :=
            c13h_integrate_dev cfg s r dev hg (hinv.devOk _ _ hg).2.1
          rw [hint]
          refine ⟨hoff, fun k => ?_⟩
          show s'.devices.get k = _
          by_cases hk : k = r.id
          · subst hk
            rw [hget, hg]
            have hh : c13h_hit V now dev.auth.key r.id d = some r := by
              simp [c13h_hit, hl, hd, hv, ht, hp0]
            simp [c13h_dstep, hh, hi]
          · rw [hoth k hk]
            refine hid k (fun dv _ => ?_)
            have hk' : ¬ r.id = k := fun e => hk e.symm
            simp [c13h_hit, hl, hd, hk']

/-! ### Slot level -/

/-- The report a datagram contributes to slot `i` of device `k`, if any. -/
def c13h_sel (V : Verify) (off now : Nat) (key : Key) (k i : Nat) (d : Bytes) : Option Report :=
  match c13h_hit V now key k d with
  | some r => if off ≤ r.ts ∧ r.ts < off + window ∧ r.ts - off = i then some r else none
  | none => none

def c13h_act (cap : Nat) (o : Option Report) (x : Report) : Report :=
  match o with
  | some r => slotStep cap x r
  | none => x

theorem c13h_sel_valid {V : Verify} {off now : Nat} {key : Key} {k i : Nat} {d : Bytes} {r : Report}
    (h : c13h_sel V off now key k i d = some r) : ValidP r := by
  unfold c13h_sel at h
  split at h
  · rename_i r' hh
    split at h
    · cases h
      obtain ⟨_, _, _, _, _, hp⟩ := c13h_hit_some hh
      exact ⟨fun e => hp (Or.inl e), fun e => hp (Or.inr e)⟩
    · cases h
  · cases h

/-- `c13h_dstep` keeps the authorization and acts on slot `i` by the per-slot rule. -/
theorem c13h_dstep_slot (V : Verify) (off now : Nat) (d : Bytes) (k : Nat) (dv : Dev)
    (hlen : dv.reports.length = window) :
    (c13h_dstep V off now d k dv).auth = dv.auth ∧
    ∀ i, (c13h_dstep V off now d k dv).reports[i]? =
      (dv.reports[i]?).map (c13h_act dv.auth.cap (c13h_sel V off now dv.auth.key k i d)) := by
  have hidm : ∀ o : Option Report, o.map (c13h_act dv.auth.cap none) = o := by
    intro o; cases o <;> rfl
  cases hh : c13h_hit V now dv.auth.key k d with
  | none =>
    rw [c13h_dstep_none hh]
    refine ⟨rfl, fun i => ?_⟩
    simp only [c13h_sel, hh, hidm]
  | some r =>
    by_cases hw : r.ts < off ∨ off + window ≤ r.ts
    · have hi := c02h_integrateDev_outside off dv r hw
      have hd : c13h_dstep V off now d k dv = dv := by simp [c13h_dstep, hh, hi]
      rw [hd]
      refine ⟨rfl, fun i => ?_⟩
      have : ¬ (off ≤ r.ts ∧ r.ts < off + window ∧ r.ts - off = i) := by omega
      simp only [c13h_sel, hh, this, if_false, hidm]
    · obtain ⟨d', b, hi, ha, _, _, hslot, hother⟩ :=
        c02h_integrateDev_spec off dv r hlen (by omega) (by omega)
      have hd : c13h_dstep V off now d k dv = d' := by simp [c13h_dstep, hh, hi]
      rw [hd]
      refine ⟨ha, fun i => ?_⟩
      by_cases hi' : i = r.ts - off
      · subst hi'
        have hlt : r.ts - off < dv.reports.length := by rw [hlen]; omega
        have hc : off ≤ r.ts ∧ r.ts < off + window ∧ r.ts - off = r.ts - off := ⟨by omega, by omega, rfl⟩
        rw [hslot, List.getElem?_eq_getElem hlt]
        simp only [c13h_sel, hh, hc, and_self, if_true, Option.map_some, c13h_act, Option.getD_some]
      · have hc : ¬ (off ≤ r.ts ∧ r.ts < off + window ∧ r.ts - off = i) := fun h => hi' h.2.2.symm
        rw [hother i hi']
        simp only [c13h_sel, hh, hc, if_false, hidm]

theorem c13h_fold_filterMap (cap : Nat) (sel : Bytes → Option Report) (ds : List Bytes) (x : Report) :
    ds.foldl (fun x d => c13h_act cap (sel d) x) x = (ds.filterMap sel).foldl (slotStep cap) x := by
  induction ds generalizing x with
  | nil => rfl
  | cons d t ih =>
    rw [List.foldl_cons, ih]
    cases h : sel d with
    | none => simp [h, c13h_act]
    | some r => simp [h, c13h_act]

/-- On an empty slot (whatever else it holds) the first valid report is stored as on the zero slot. -/
theorem c13h_fold_empty (cap : Nat) (x : Report) (hx : x.p = 0) (rs : List Report) (hne : rs ≠ [])
    (hv : ∀ r ∈ rs, ValidP r) : rs.foldl (slotStep cap) x = rs.foldl (slotStep cap) Report.zero := by
  cases rs with
  | nil => exact absurd rfl hne
  | cons r t =>
    have hr : ValidP r := hv r (by simp)
    have h1 : ¬ x = r := by intro e; apply hr.1; rw [← e]; exact hx
    have h2 : ¬ Report.zero = r := by intro e; apply hr.1; rw [← e]; rfl
    have hz : Report.zero.p = 0 := rfl
    have : slotStep cap x r = slotStep cap Report.zero r := by
      simp [slotStep, hx, hz, h1, h2]
    rw [List.foldl_cons, List.foldl_cons, this]

/-- The published value of a slot after folding valid reports into it does not
depend on their order, whatever the slot held before. -/
theorem c13h_slot_perm (cap : Nat) (x : Report) (rs rs' : List Report) (h : rs.Perm rs')
    (hv : ∀ r ∈ rs, ValidP r) :
    (rs.foldl (slotStep cap) x).p = (rs'.foldl (slotStep cap) x).p := by
  have hv' : ∀ r ∈ rs', ValidP r := fun r hr => hv r (h.mem_iff.2 hr)
  by_cases h1 : x.p = 1
  · rw [c02h_foldl_banned cap x rs h1, c02h_foldl_banned cap x rs' h1]
  · by_cases h0 : x.p = 0
    · by_cases hne : rs = []
      · subst hne
        have : rs' = [] := h.symm.eq_nil
        subst this; rfl
      · have hne' : rs' ≠ [] := fun e => hne (by rw [e] at h; exact h.eq_nil)
        rw [c13h_fold_empty cap x h0 rs hne hv, c13h_fold_empty cap x h0 rs' hne' hv']
        exact c02_perm cap rs rs' h hv
    · rw [c02h_foldl_stored cap x rs ⟨h0, h1⟩, c02h_foldl_stored cap x rs' ⟨h0, h1⟩, h.all_eq]

/-- The view of slot `i` of device `k` after a batch of datagrams, as a fold of the per-slot rule. -/
theorem c13h_run_slot (cfg : Cfg) (V : Verify) (now : Nat) (k i : Nat) (ds : List Bytes) (s : State)
    (hinv : Inv s) :
    ((ds.foldl (fun s d => (dgram cfg V s now d).1) s).devices.get k).map
        (fun dv => (dv.auth, dv.reports[i]?)) =
      (s.devices.get k).map (fun dv => (dv.auth, (dv.reports[i]?).map (fun x =>
        ds.foldl (fun x d => c13h_act dv.auth.cap (c13h_sel V s.off now dv.auth.key k i d) x) x))) := by
  induction ds generalizing s with
  | nil =>
    simp only [List.foldl_nil]
    cases s.devices.get k with
    | none => rfl
    | some dv => simp
  | cons d t ih =>
    rw [List.foldl_cons, ih _ (inv_dgram cfg V s now d hinv)]
    obtain ⟨hoff, hdev⟩ := c13h_dgram_dev cfg V s now d hinv
    rw [hoff, hdev k]
    cases hg : s.devices.get k with
    | none => rfl
    | some dv =>
      obtain ⟨ha, hs⟩ := c13h_dstep_slot V s.off now d k dv (hinv.devOk _ _ hg).2.1
      simp only [Option.map_some, ha, hs i, Option.map_map, List.foldl_cons]
      rfl

/-- What `Tie.locks_entries_ok` establishes, spelled out: for every extracted unit
entered with no lock held, every execution path ends with all mutexes released
and no locking mistake on the way. -/
theorem c13_lock_discipline (name : String) (p : Lock.Prog) (h : (name, p) ∈ Gen.Locks.entries)
    (o : Lock.Out) (hr : Lock.RunF p ⟨[], []⟩ o) : o = .done := by
  have h1 := Tie.locks_entries_ok
  rw [List.all_eq_true] at h1
  exact Lock.check_sound p [] (h1 (name, p) h) o hr

/-- The published value of every slot after delivering a batch of datagrams does
not depend on the order in which they arrive (same clock, no rotation in between). -/
theorem c13_order_independent (cfg : Cfg) (V : Verify) (s : State) (now : Nat) (ds ds' : List Bytes)
    (hinv : Inv s) (hp : ds.Perm ds') (id i : Nat) :
    let run := fun (l : List Bytes) => l.foldl (fun s d => (dgram cfg V s now d).1) s
    ((run ds).devices.get id).map (fun d => (d.reports[i]?).map (·.p)) =
    ((run ds').devices.get id).map (fun d => (d.reports[i]?).map (·.p)) := by
  intro run
  have h1 := congrArg (Option.map (fun (q : Auth × Option Report) => q.2.map (·.p)))
    (c13h_run_slot cfg V now id i ds s hinv)
  have h2 := congrArg (Option.map (fun (q : Auth × Option Report) => q.2.map (·.p)))
    (c13h_run_slot cfg V now id i ds' s hinv)
  simp only [Option.map_map] at h1 h2
  show ((ds.foldl (fun s d => (dgram cfg V s now d).1) s).devices.get id).map _ =
    ((ds'.foldl (fun s d => (dgram cfg V s now d).1) s).devices.get id).map _
  refine h1.trans (Eq.trans ?_ h2.symm)
  cases s.devices.get id with
  | none => rfl
  | some dv =>
    simp only [Option.map_some, Function.comp_def, Option.map_map]
    cases dv.reports[i]? with
    | none => rfl
    | some x =>
      simp only [Option.map_some]
      rw [c13h_fold_filterMap, c13h_fold_filterMap]
      have hq := c13h_slot_perm dv.auth.cap x _ _
        (hp.filterMap (c13h_sel V s.off now dv.auth.key id i)) (by
          intro r hr
          obtain ⟨d, _, hd⟩ := List.mem_filterMap.mp hr
          exact c13h_sel_valid hd)
      rw [hq]

/-! ### The impact write as a function on the one device it names -/

def c13h_istep (off id ts rate k : Nat) (dv : Dev) : Dev :=
  if k = id ∧ off ≤ ts ∧ ts - off < window then { dv with impact := dv.impact.set (ts - off) rate } else dv

theorem c13h_impact_dev (s : State) (id ts rate : Nat) :
    (impactWrite s id ts rate).off = s.off ∧
    ∀ k, (impactWrite s id ts rate).devices.get k = (s.devices.get k).map (c13h_istep s.off id ts rate k) := by
  have hid : ∀ k, (∀ dv, s.devices.get k = some dv → c13h_istep s.off id ts rate k dv = dv) →
      s.devices.get k = (s.devices.get k).map (c13h_istep s.off id ts rate k) := by
    intro k h
    cases hg : s.devices.get k with
    | none => rfl
    | some dv => simp [h dv hg]
  unfold impactWrite
  cases hg : s.devices.get id with
  | none =>
    refine ⟨rfl, fun k => hid k (fun dv hk => ?_)⟩
    have : ¬ k = id := by intro e; rw [e, hg] at hk; cases hk
    simp [c13h_istep, this]
  | some d =>
    simp only
    by_cases hc : s.off ≤ ts ∧ ts - s.off < window
    · rw [if_pos hc]
      refine ⟨rfl, fun k => ?_⟩
      show FMap.get (FMap.set s.devices id _) k = _
      by_cases hk : k = id
      · subst hk
        rw [FMap.get_set_same, hg]
        simp [c13h_istep, hc]
      · rw [FMap.get_set_ne _ _ _ _ (Ne.symm hk)]
        refine hid k (fun dv _ => ?_)
        simp [c13h_istep, hk]
    · rw [if_neg hc]
      refine ⟨rfl, fun k => hid k (fun dv _ => ?_)⟩
      have : ¬ (k = id ∧ s.off ≤ ts ∧ ts - s.off < window) := fun h => hc h.2
      simp [c13h_istep, this]

/-- `integrateDev` does not look at the impact array. -/
theorem c13h_integrateDev_impact (off : Nat) (dv : Dev) (r : Report) (x : List Nat) :
    integrateDev off { dv with impact := x } r =
      (integrateDev off dv r).map (fun q => ({ q.1 with impact := x }, q.2)) := by
  unfold integrateDev
  simp only
  split
  · rfl
  split
  · rfl
  split
  · rfl
  split
  · rfl
  split
  · rfl
  rfl

theorem c13h_steps_commute (V : Verify) (off now : Nat) (d : Bytes) (id ts rate k : Nat) (dv : Dev) :
    c13h_istep off id ts rate k (c13h_dstep V off now d k dv) =
      c13h_dstep V off now d k (c13h_istep off id ts rate k dv) := by
  unfold c13h_istep
  by_cases hc : k = id ∧ off ≤ ts ∧ ts - off < window
  · rw [if_pos hc, if_pos hc]
    unfold c13h_dstep
    simp only
    cases c13h_hit V now dv.auth.key k d with
    | none => rfl
    | some r =>
      simp only
      have key := c13h_integrateDev_impact off dv r (dv.impact.set (ts - off) rate)
      cases hi : integrateDev off dv r with
      | none =>
        rw [hi] at key
        simp only [Option.map_none] at key
        simp only [key]
      | some q =>
        obtain ⟨dv', b⟩ := q
        have himp := (integrateDev_keeps hi).2.2
        rw [hi] at key
        simp only [Option.map_some] at key
        simp only [key, himp]
  · rw [if_neg hc, if_neg hc]

/-- The impact job's write commutes with a datagram: either order gives the same devices. -/
theorem c13_impact_commutes (cfg : Cfg) (V : Verify) (s : State) (now : Nat) (d : Bytes) (id ts rate : Nat)
    (hinv : Inv s) (k : Nat) :
    (impactWrite (dgram cfg V s now d).1 id ts rate).devices.get k =
    ((dgram cfg V (impactWrite s id ts rate) now d).1).devices.get k := by
  obtain ⟨hoff1, hdev1⟩ := c13h_dgram_dev cfg V s now d hinv
  obtain ⟨hoff2, hdev2⟩ := c13h_impact_dev s id ts rate
  obtain ⟨_, hdev3⟩ := c13h_impact_dev (dgram cfg V s now d).1 id ts rate
  obtain ⟨_, hdev4⟩ := c13h_dgram_dev cfg V (impactWrite s id ts rate) now d (inv_impactWrite s id ts rate hinv)
  rw [hdev3 k, hdev4 k, hdev1 k, hdev2 k, hoff1, hoff2]
  cases s.devices.get k with
  | none => rfl
  | some dv =>
    simp only [Option.map_some]
    rw [c13h_steps_commute]

/-- A sync reply's key, offset, bitfield and migration order all come from one state (one critical section). -/
theorem c13_sync_atomic (s : State) (id : Nat) (d : Dev) (h : s.devices.get id = some d) :
    ∃ servers, sync s id = .syncReply d.auth.key s.off (d.reports.map (fun r => decide (r.p > 0)))
      (s.migs.get d.auth.key) servers := by
  unfold sync
  rw [h]
  simp only
  cases s.migs.get d.auth.key with
  | none => exact ⟨s.servers, rfl⟩
  | some m => exact ⟨[], rfl⟩

/-! ### Sequential explanation of a parallel burst

The parallel-burst job writes a burst as "the reports in the order of the server's own log, then every
report that left no trace". That is a legitimate sequential history because a report which has no
effect on its slot keeps having none however many other reports reach the slot afterwards. -/

/-- A report has no effect on a slot exactly when the slot is banned or already holds that very report. -/
theorem c13_noeffect_iff (cap : Nat) (slot r : Report) :
    slotStep cap slot r = slot ↔ (slot.p = 1 ∨ slot = r) := by
  constructor
  · intro h
    by_cases hb : slot.p = 1
    · exact Or.inl hb
    · by_cases he : slot = r
      · exact Or.inr he
      · exfalso
        simp only [slotStep, hb, he, if_false] at h
        by_cases h0 : slot.p = 0
        · simp only [h0, if_true] at h
          split at h
          · have := congrArg Report.p h; simp at this; omega
          · exact he h.symm
        · simp only [h0, if_false] at h
          split at h
          · have := congrArg Report.p h; simp at this; exact hb this.symm
          · have := congrArg Report.p h; simp at this; exact hb this.symm
  · rintro (hb | he)
    · exact c02h_slotStep_banned cap slot r hb
    · subst he; simp [slotStep]

/-- ... and it stays without effect after any further reports for that slot. -/
theorem c13_noeffect_stable (cap : Nat) (slot r : Report) (rs : List Report) (hr : ValidP r)
    (h : slotStep cap slot r = slot) :
    slotStep cap (rs.foldl (slotStep cap) slot) r = rs.foldl (slotStep cap) slot := by
  rw [c13_noeffect_iff] at h ⊢
  rcases h with hb | he
  · left; rw [c02h_foldl_banned cap slot rs hb]; exact hb
  · subst he
    have hp := c02h_foldl_stored cap slot rs hr
    by_cases hall : rs.all (fun x => decide (x = slot)) = true
    · right
      clear hp
      induction rs with
      | nil => rfl
      | cons x xs ih =>
        simp only [List.all_cons, Bool.and_eq_true, decide_eq_true_eq] at hall
        obtain ⟨hx, hxs⟩ := hall
        subst hx
        rw [List.foldl_cons]
        have : slotStep cap x x = x := by simp [slotStep]
        rw [this]
        exact ih hxs
    · left
      rw [hp]; simp [hall]

end Gca.Srv
