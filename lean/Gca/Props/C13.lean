import Gca.Server.Inv
import Gca.Props.C02
import Gca.Props.C01
import Gca.Tie.Locks
/-
C13 - Concurrent operation is race-free, deadlock-free and equals a sequential run
(the part a model can carry).

* Lock discipline, for every control-flow path of every function of the server
  (and of the client and glow packages): decided on the skeletons regenerated
  from the source by the verified checker - `c13_lock_discipline` below unfolds
  what `Tie.locks_entries_ok` means through `Lock.check_sound`: no path unlocks a
  mutex it does not hold, takes a second mutex (no nesting, hence no lock-order
  deadlock), touches guarded server state outside its mutex, or returns with a
  mutex held.
* Sequential explanation: the unit of atomicity is the critical section. Every
  state-changing operation of the server model is ONE section, except the impact
  job, whose per-device write re-validates the device (`c12_impact_safe`), and
  the read-only tails of sync / statistics / server-authorization replies, which
  the harness checks by injecting every interfering operation exactly between
  the sections (verifPoint sites). For single-section operations any interleaving
  IS a sequence; that the result does not depend on the order of datagrams is
  proved here.
The Go memory model and the scheduler are not modelled: data-race freedom is the
lockset condition on the skeletons; the race detector is supporting evidence only.
-/
namespace Gca.Srv
open Gca

/-- What `Tie.locks_entries_ok` establishes, spelled out: for every extracted unit
entered with no lock held, every execution path ends with all mutexes released
and no locking mistake on the way. -/
theorem c13_lock_discipline (name : String) (p : Lock.Prog) (h : (name, p) ∈ Gen.Locks.entries)
    (o : Lock.Out) (hr : Lock.RunF p ⟨[], []⟩ o) : o = .done := by
  sorry

/-- The published value of every slot after delivering a batch of datagrams does
not depend on the order in which they arrive (same clock, no rotation in between). -/
theorem c13_order_independent (cfg : Cfg) (V : Verify) (s : State) (now : Nat) (ds ds' : List Bytes)
    (hinv : Inv s) (hp : ds.Perm ds') (id i : Nat) :
    let run := fun (l : List Bytes) => l.foldl (fun s d => (dgram cfg V s now d).1) s
    ((run ds).devices.get id).map (fun d => (d.reports[i]?).map (·.p)) =
    ((run ds').devices.get id).map (fun d => (d.reports[i]?).map (·.p)) := by
  sorry

/-- The impact job's write commutes with a datagram: either order gives the same devices. -/
theorem c13_impact_commutes (cfg : Cfg) (V : Verify) (s : State) (now : Nat) (d : Bytes) (id ts rate : Nat)
    (hinv : Inv s) (k : Nat) :
    (impactWrite (dgram cfg V s now d).1 id ts rate).devices.get k =
    ((dgram cfg V (impactWrite s id ts rate) now d).1).devices.get k := by
  sorry

/-- A sync reply's key, offset, bitfield and migration order all come from one state (one critical section). -/
theorem c13_sync_atomic (s : State) (id : Nat) (d : Dev) (h : s.devices.get id = some d) :
    ∃ servers, sync s id = .syncReply d.auth.key s.off (d.reports.map (fun r => decide (r.p > 0)))
      (s.migs.get d.auth.key) servers := by
  sorry

end Gca.Srv
