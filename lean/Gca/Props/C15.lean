import Gca.Codec.Report
import Gca.Codec.Auth
import Gca.Codec.AuthServer
import Gca.Codec.Stats
import Gca.Codec.ServerMap
import Gca.Tie.Tables
/-
C15 - Wire and disk encodings are exact, stable and unambiguous.

The encoders below are, by definition, the documented layouts (little-endian
fixed-width fields, ASCII prefix for signing bytes); `Gca/Tie/Tables.lean` ties
offsets, widths, field order and prefixes to the Go source, and the
correspondence run compares bytes with the Go encoders. Here: every decoder
inverts its encoder, wrong lengths are refused, signing bytes determine the
signed fields, and signing bytes of different message types never coincide.
Cryptographic strength of the signature scheme itself (a flipped bit makes
verification fail) is an assumption about secp256k1/Keccak, checked by execution.
-/
namespace Gca.C15
open Gca

/-! ### Round trips and refusal of wrong lengths -/

theorem c15h_report_roundtrip (r : Report) (h : r.WF) : Report.decode (Report.encode r) = some r :=
  Report.decode_encode r h
theorem c15h_report_wrong_length (b : Bytes) (h : b.length ≠ 80) : Report.decode b = none :=
  Report.decode_none_of_length h
theorem c15h_report_canonical (b : Bytes) (r : Report) (h : Report.decode b = some r) : Report.encode r = b :=
  Report.encode_decode h

theorem c15h_auth_roundtrip (a : Auth) (h : a.WF) : Auth.decode (Auth.encode a) = some a :=
  Auth.decode_encode a h
theorem c15h_auth_wrong_length (b : Bytes) (h : b.length ≠ 148) : Auth.decode b = none :=
  Auth.decode_none_of_length h

/-- Authorized servers (wire form inside sync replies and migration orders). -/
theorem c15h_authServers_roundtrip (as : List AuthServer) (h : ∀ a ∈ as, a.WF) :
    AuthServer.decodeList (AuthServer.encodeList as).length (AuthServer.encodeList as) = some as :=
  AuthServer.decodeList_encodeList as h _ (AuthServer.encodeList_length_ge as h)

/-- Weekly statistics stream: any number of concatenated records decodes back. -/
theorem c15h_stats_stream_roundtrip (ws : List Week) (h : ∀ w ∈ ws, w.WF) :
    decodeStream ws.length (encodeStream ws) = some ws :=
  decodeStream_encodeStream ws h ws.length (Nat.le_refl _)

/-- Client server map: every list of well-formed entries is encodable and decodes back. -/
theorem c15h_serverMap_roundtrip (es : List CEntry) (h : ∀ e ∈ es, CServer.WF e) :
    ∃ b, CServer.encodeMap es = some b ∧ CServer.decodeMap b.length b = some es := by
  obtain ⟨b, hb, hl, hd⟩ := CServer.encodeMap_some es h
  exact ⟨b, hb, hd b.length hl⟩

/-- ... and a location longer than 65535 bytes is refused. -/
theorem c15h_serverMap_refuses_long (e : CEntry) (es : List CEntry) (h : e.2.loc.length > 0xFFFF) :
    CServer.encodeMap (e :: es) = none := CServer.encodeMap_none_of_long e es h

/-! ### Signing bytes determine the signed content -/

theorem c15h_report_signing_injective (r s : Report) (hr : r.WF) (hs : s.WF)
    (h : Report.signingBytes r = Report.signingBytes s) : r.id = s.id ∧ r.ts = s.ts ∧ r.p = s.p :=
  Report.signingBytes_inj hr hs h

theorem c15h_auth_signing_injective (a b : Auth) (ha : a.WF) (hb : b.WF)
    (h : Auth.signingBytes a = Auth.signingBytes b) : { a with sig := [] } = { b with sig := [] } :=
  Auth.signingBytes_inj ha hb h

theorem c15h_registration_signing_injective (k k' : Bytes)
    (h : Registration.signingBytes k = Registration.signingBytes k') : k = k' :=
  List.append_cancel_left h

/-- Authorized server: with a location that fits the one-byte length field the
signing bytes determine every signed field. -/
theorem c15h_authServer_signing_injective (a b : AuthServer) (ha : a.WF) (hb : b.WF)
    (h : AuthServer.signingBytes a = AuthServer.signingBytes b) : { a with sig := [] } = { b with sig := [] } := by
  have hb' : AuthServer.body a = AuthServer.body b := List.append_cancel_left h
  have h1 : AuthServer.encode { a with sig := b.sig } = AuthServer.encode b := by
    show AuthServer.body { a with sig := b.sig } ++ b.sig = AuthServer.body b ++ b.sig
    have : AuthServer.body { a with sig := b.sig } = AuthServer.body a := rfl
    rw [this, hb']
  have hwf : ({ a with sig := b.sig } : AuthServer).WF := by
    obtain ⟨h1, h2, h3, h4, h5, _⟩ := ha
    exact ⟨h1, h2, h3, h4, h5, hb.2.2.2.2.2⟩
  have h2 := congrArg (fun x => AuthServer.decode1 (x ++ [])) h1
  simp only [AuthServer.decode1_encode _ _ hwf, AuthServer.decode1_encode _ _ hb] at h2
  have h3 := congrArg Prod.fst (Option.some.inj h2)
  cases a; cases b; simp_all

theorem c15h_cons_replicate_append {α} (x : α) (n : Nat) (t : List α) :
    x :: (List.replicate n x ++ t) = List.replicate n x ++ x :: t := by
  induction n with
  | zero => rfl
  | succ n ih => simp only [List.replicate_succ, List.cons_append, ih]

/-- Any location length that is a non-zero multiple of 256 gives a collision. -/
theorem c15h_authServer_ambiguous_aux (n : Nat) (hn : n ≠ 0) (hm : n % 256 = 0) :
    ∃ a b : AuthServer, a ≠ b ∧ AuthServer.signingBytes a = AuthServer.signingBytes b := by
  refine ⟨⟨[], false, List.replicate n 0, 0, 0, 0, []⟩,
          ⟨List.replicate n 0, false, [], 0, 0, 0, []⟩, ?_, ?_⟩
  · intro h
    have := congrArg (fun s => s.key.length) h
    simp only [List.length_nil, List.length_replicate] at this
    exact hn this.symm
  · simp only [AuthServer.signingBytes, AuthServer.body, AuthServer.bannedByte, leBytes,
      List.length_replicate, List.length_nil, hm]
    congr 1
    show (0:UInt8) :: 0 :: (List.replicate n 0 ++ [0,0,0,0,0,0]) =
      List.replicate n 0 ++ [0,0,0,0,0,0,0,0]
    rw [c15h_cons_replicate_append, c15h_cons_replicate_append]

/-- Without the bound the encoding is ambiguous: two different servers (one with a
256-byte location, whose length byte wraps to 0) share their signing bytes. This
is why the server refuses such entries. -/
theorem c15h_authServer_ambiguous_beyond_255 :
    ∃ a b : AuthServer, a ≠ b ∧ AuthServer.signingBytes a = AuthServer.signingBytes b := by
  exact c15h_authServer_ambiguous_aux 256 (by decide) rfl

theorem c15h_migration_signing_injective (m n : Migration) (hm : m.WF) (hn : n.WF)
    (h : Migration.signingBytes m = Migration.signingBytes n) : { m with sig := [] } = { n with sig := [] } := by
  have hb : Migration.body m = Migration.body n := List.append_cancel_left h
  obtain ⟨m1, m2, m3, m4, _⟩ := hm
  obtain ⟨n1, n2, n3, n4, _⟩ := hn
  obtain ⟨e1, ht⟩ := app_inj (by rw [m1, n1]) hb
  obtain ⟨e2, ht⟩ := app_inj (by rw [m2, n2]) ht
  obtain ⟨e3, e4⟩ := app_inj (by simp) ht
  have e3 := leBytes_inj (by simpa using m3) (by simpa using n3) e3
  have e4 := congrArg (fun x => AuthServer.decodeList (max m.servers.length n.servers.length) x) e4
  simp only [AuthServer.decodeList_encodeList _ m4 _ (Nat.le_max_left _ _),
    AuthServer.decodeList_encodeList _ n4 _ (Nat.le_max_right _ _)] at e4
  cases m; cases n; simp_all

theorem c15h_week_signing_injective (w v : Week) (hw : w.WF) (hv : v.WF)
    (h : Week.signingBytes w = Week.signingBytes v) : w.devs = v.devs ∧ w.tso = v.tso := by
  have hb' : Week.body w = Week.body v := List.append_cancel_left h
  have h1 : Week.encode { w with sig := v.sig } = Week.encode v := by
    show Week.body { w with sig := v.sig } ++ v.sig = Week.body v ++ v.sig
    have : Week.body { w with sig := v.sig } = Week.body w := rfl
    rw [this, hb']
  have hwf : ({ w with sig := v.sig } : Week).WF := by
    obtain ⟨h1, h2, h3, _⟩ := hw
    exact ⟨h1, h2, h3, hv.2.2.2⟩
  have h2 := congrArg (fun x => Week.decode1 (x ++ [])) h1
  simp only [Week.decode1_encode _ _ hwf, Week.decode1_encode _ _ hv] at h2
  have h3 := congrArg Prod.fst (Option.some.inj h2)
  cases w; cases v; simp_all

/-! ### Different message types never share signing bytes -/

/-- Two byte strings with a common extension: one head is a prefix of the other. -/
theorem c15h_append_eq_prefix {a b x y : Bytes} (h : a ++ x = b ++ y) :
    a.isPrefixOf b = true ∨ b.isPrefixOf a = true := by
  induction a generalizing b with
  | nil => simp
  | cons c a ih =>
    cases b with
    | nil => simp
    | cons d b =>
      simp only [List.cons_append, List.cons.injEq] at h
      obtain ⟨rfl, h⟩ := h
      simpa [List.isPrefixOf] using ih h

/-- For any two distinct message types (report, authorization, registration,
authorized server, migration order, weekly statistics), whatever follows the
prefixes, the signing bytes differ. -/
theorem c15h_types_disjoint (i j : Fin Tie.allPrefixes.length) (hij : i ≠ j) (x y : Bytes) :
    ascii Tie.allPrefixes[i] ++ x ≠ ascii Tie.allPrefixes[j] ++ y := by
  intro h
  have h1 := Tie.prefixes_prefix_free i j hij
  have h2 := Tie.prefixes_prefix_free j i (Ne.symm hij)
  simp only [Tie.isPrefix] at h1 h2
  rcases c15h_append_eq_prefix h with h3 | h3
  · rw [h1] at h3; exact Bool.noConfusion h3
  · rw [h2] at h3; exact Bool.noConfusion h3

/-- Instance: a report can never be passed off as an authorization (and so on for every pair). -/
theorem c15h_report_vs_auth (r : Report) (a : Auth) : Report.signingBytes r ≠ Auth.signingBytes a :=
  c15h_types_disjoint ⟨0, by decide⟩ ⟨1, by decide⟩ (by decide) _ _

/-- Non-vacuity: a concrete report round-trips and has the documented bytes. -/
example : Report.encode ⟨1, 2, 3, zeros 64⟩ = [1,0,0,0, 2,0,0,0, 3,0,0,0,0,0,0,0] ++ zeros 64 := by decide

end Gca.C15
