import Gca.Client.Model
import Gca.Server.Inv
import Gca.Props.C01
import Gca.Props.C10
/-
C08 - Lost datagrams are eventually recovered; retransmissions are identical.

Composition of the two models: the reply the server builds from its state
(`Srv.sync`: offset and one flag per slot), the client's resend rule
(`Cl.resend`) on its history, and the server's datagram handler. Loss,
duplication and reordering of datagrams before the final round do not matter:
the theorem starts from ANY server state and ANY client history; the final
round's retransmissions may arrive in any order, any number of times,
interleaved with any other datagrams.
-/
namespace Gca.C08
open Gca Gca.Srv Gca.Cl

/-- Deliver datagrams to the server one after another (clock `now`). -/
def deliver (cfg : Cfg) (V : Srv.Verify) (s : State) (now : Nat) (ds : List Bytes) : State :=
  ds.foldl (fun s d => (dgram cfg V s now d).1) s

/-- The datagram the client emits for a record: the report signed with its key (`sign` is deterministic). -/
def datagram (sign : Bytes → Bytes) (id : Nat) (r : Record) : Bytes :=
  Report.encode ⟨id, r.ts, r.energy, sign (Report.signingBytes ⟨id, r.ts, r.energy, []⟩)⟩

/-- A slot that holds a record keeps holding one, whatever datagrams arrive
(values can turn into the ban sentinel, never back to empty), and devices are not removed by datagrams. -/
theorem c08_slots_monotone (cfg : Cfg) (V : Srv.Verify) (s : State) (now : Nat) (ds : List Bytes) (hinv : Inv s)
    (id : Nat) (d : Srv.Dev) (i : Nat) (r : Report) (hd : s.devices.get id = some d) (hr : d.reports[i]? = some r)
    (hp : r.p > 0) :
    ∃ d' r', (deliver cfg V s now ds).devices.get id = some d' ∧ d'.reports[i]? = some r' ∧ r'.p > 0 ∧
      (deliver cfg V s now ds).off = s.off := by
  sorry

/-- Recovery: after a sync round against the server's current state, once the
retransmitted datagrams have arrived (in any order, any multiplicity, among
anything else), the server holds a record for every timeslot of its window, up
to the device's latest reading and within the acceptance range, for which the
device has a reading (a stored value of at least 2). -/
theorem c08_recover (cfg : Cfg) (V : Srv.Verify) (sign : Bytes → Bytes) (s : State) (hinv : Inv s)
    (id : Nat) (dev : Srv.Dev) (hd : s.devices.get id = some dev) (hid : id < 2^32)
    (hsig : ∀ m, V dev.auth.key m (sign m) = true) (hsl : ∀ m, (sign m).length = 64)
    (hist : Hist) (latest now : Nat) (hl : latest < 2^32) (hlo : s.off ≤ latest) (hso : s.off < 2^32)
    (delivered : List Bytes)
    (hdel : ∀ r ∈ resend hist latest s.off (packBits 504 (dev.reports.map (fun r => decide (r.p > 0)))),
              datagram sign id r ∈ delivered)
    (t : Nat) (h1 : s.off ≤ t) (h2 : t ≤ latest) (h3 : t < s.off + window)
    (h4 : (now : Int) - 432 ≤ t) (h5 : (t : Int) ≤ now + 432)
    (hv : ∃ v, hist.load t = some v ∧ 2 ≤ v ∧ v < 2^32) :
    ∃ d' r', (deliver cfg V s now delivered).devices.get id = some d' ∧
      d'.reports[t - s.off]? = some r' ∧ r'.p > 0 := by
  sorry

/-- A retransmitted value equals the original when the original fits 32 signed bits
(two's complement in 64 bits): store the low 32 bits, sign-extend on the way back. -/
theorem c08_value_identical (e : Nat) (h : e < 2^31 ∨ (2^64 - 2^31 ≤ e ∧ e < 2^64)) :
    signExt32 (e % 2^32) = e := by
  sorry

/-- Hence the retransmitted datagram is byte for byte the one originally sent. -/
theorem c08_datagram_identical (sign : Bytes → Bytes) (id ts e : Nat)
    (h : e < 2^31 ∨ (2^64 - 2^31 ≤ e ∧ e < 2^64)) :
    datagram sign id ⟨ts, signExt32 (e % 2^32)⟩ = datagram sign id ⟨ts, e⟩ := by
  rw [c08_value_identical e h]

/-- And receiving a report identical to the stored one never bans the slot: the state is unchanged. -/
theorem c08_no_self_ban (cfg : Cfg) (V : Srv.Verify) (s : State) (now : Nat) (b : Bytes) (r : Report) (dev : Srv.Dev)
    (hdec : Report.decode (b.take 80) = some r) (hd : s.devices.get r.id = some dev)
    (hin : s.off ≤ r.ts ∧ r.ts < s.off + window) (hslot : dev.reports[r.ts - s.off]? = some r) :
    dgram cfg V s now b = (s, .dropped) := by
  sorry

/-- Counterpoint (why the "fits 32 signed bits" clause is there): a value above 2^31 that is not a
negative 64-bit number is retransmitted differently. -/
example : signExt32 (3000000000 % 2^32) ≠ 3000000000 := by decide

end Gca.C08
