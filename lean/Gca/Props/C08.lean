import Gca.Client.Model
import Gca.Server.Inv
import Gca.Props.C01
import Gca.Props.C10
/-
C08 - Lost datagrams are eventually recovered; retransmissions are identical.

Composition of the two models: the reply the server builds from its state
(`Srv.sync`: offset and one flag per slot), the client's resend rule
(`Cl.resend`) on its history, and the server's datagram handler. Loss,
duplication and reordering of datagrams before the final round do not matter:
the theorem starts from ANY server state and ANY client history; the final
round's retransmissions may arrive in any order, any number of times,
interleaved with any other datagrams.
-/
namespace Gca.C08
open Gca Gca.Srv Gca.Cl

/-- Deliver datagrams to the server one after another (clock `now`). -/
def deliver (cfg : Cfg) (V : Srv.Verify) (s : State) (now : Nat) (ds : List Bytes) : State :=
  ds.foldl (fun s d => (dgram cfg V s now d).1) s

/-- The datagram the client emits for a record: the report signed with its key (`sign` is deterministic). -/
def datagram (sign : Bytes → Bytes) (id : Nat) (r : Record) : Bytes :=
  Report.encode ⟨id, r.ts, r.energy, sign (Report.signingBytes ⟨id, r.ts, r.energy, []⟩)⟩

/-! ### Helpers -/

/-- A slot step never empties a slot, and a non-empty report fills an empty one. -/
theorem c08h_slotStep_pos (cap : Nat) (old r : Report) (h : 0 < old.p ∨ 0 < r.p) :
    0 < (slotStep cap old r).p := by
  unfold slotStep
  by_cases h1 : old.p = 1
  · rw [if_pos h1]; omega
  · rw [if_neg h1]
    by_cases h2 : old = r
    · rw [if_pos h2]; subst h2; omega
    · rw [if_neg h2]
      by_cases h3 : old.p = 0
      · simp only [h3, if_true]
        split
        · exact Nat.one_pos
        · omega
      · simp only [h3, if_false]
        split <;> exact Nat.one_pos

theorem c08h_integrateDev_false {off : Nat} {d d' : Srv.Dev} {r : Report}
    (h : integrateDev off d r = some (d', false)) : d' = d := by
  unfold integrateDev at h
  split at h
  · simp at h; exact h.symm
  split at h
  · simp at h; exact h.symm
  split at h
  · cases h
  split at h
  · simp at h; exact h.symm
  split at h
  · simp at h; exact h.symm
  · simp at h

/-- What delivering datagrams preserves for device `id`: the offset, the presence of
the device with its authorization, and non-emptiness of every slot. -/
def c08h_Mono (id : Nat) (s s' : State) : Prop :=
  s'.off = s.off ∧ ∀ d : Srv.Dev, s.devices.get id = some d → ∃ d' : Srv.Dev, s'.devices.get id = some d' ∧ d'.auth = d.auth ∧
    ∀ (i : Nat) (x : Report), d.reports[i]? = some x → ∃ x' : Report, d'.reports[i]? = some x' ∧ (0 < x.p → 0 < x'.p)

theorem c08h_Mono_refl (id : Nat) (s : State) : c08h_Mono id s s :=
  ⟨rfl, fun d hd => ⟨d, hd, rfl, fun _ x hx => ⟨x, hx, fun h => h⟩⟩⟩

theorem c08h_Mono_trans {id : Nat} {s1 s2 s3 : State} (h12 : c08h_Mono id s1 s2) (h23 : c08h_Mono id s2 s3) :
    c08h_Mono id s1 s3 := by
  refine ⟨h23.1.trans h12.1, fun d hd => ?_⟩
  obtain ⟨d2, hd2, ha2, hs2⟩ := h12.2 d hd
  obtain ⟨d3, hd3, ha3, hs3⟩ := h23.2 d2 hd2
  refine ⟨d3, hd3, ha3.trans ha2, fun i x hx => ?_⟩
  obtain ⟨x2, hx2, hp2⟩ := hs2 i x hx
  obtain ⟨x3, hx3, hp3⟩ := hs3 i x2 hx2
  exact ⟨x3, hx3, fun h => hp3 (hp2 h)⟩

/-- Effect of `integrate` on the device `id`. -/
theorem c08h_integrate {cfg : Cfg} {s s' : State} {r : Report} {b : Bool} (hinv : Inv s)
    (hi : integrate cfg s r = some (s', b)) (id : Nat) :
    c08h_Mono id s s' ∧
    (r.id = id → s.off ≤ r.ts → r.ts < s.off + window → 0 < r.p →
      ∃ d' x', s'.devices.get id = some d' ∧ d'.reports[r.ts - s.off]? = some x' ∧ 0 < x'.p) := by
  have hoff : s'.off = s.off := (c01h_integrate_frame hi).2.2.2.2.1
  by_cases hid : r.id = id
  · subst hid
    cases hg : s.devices.get r.id with
    | none => simp [integrate, hg] at hi
    | some d =>
      have hlen := (hinv.devOk _ _ hg).2.1
      by_cases hw : r.ts < s.off ∨ s.off + window ≤ r.ts
      · rw [c01h_integrate_outside cfg s r d hg hw] at hi
        cases hi
        exact ⟨c08h_Mono_refl _ _, fun _ h1 h2 _ => by omega⟩
      · obtain ⟨d1, b1, hi1, ha1, _, _, hs1, ho1⟩ :=
          c02h_integrateDev_spec s.off d r hlen (by omega) (by omega)
        have hidx : r.ts - s.off < d.reports.length := by rw [hlen]; omega
        have hget : d.reports[r.ts - s.off]? = some d.reports[r.ts - s.off] := List.getElem?_eq_getElem hidx
        rw [hget, Option.getD_some] at hs1
        -- the device found in `s'`
        have hdev : s'.devices.get r.id = some d1 := by
          unfold integrate at hi
          simp only [hg, hi1] at hi
          cases b1 with
          | false =>
            simp only [Option.some.injEq, Prod.mk.injEq] at hi
            rw [← hi.1, c08h_integrateDev_false hi1]; exact hg
          | true =>
            simp only [Option.some.injEq, Prod.mk.injEq] at hi
            rw [← hi.1]; exact FMap.get_set_same _ _ _
        refine ⟨⟨hoff, fun d0 hd0 => ?_⟩, fun _ _ _ hp => ?_⟩
        · rw [hg] at hd0; cases hd0
          refine ⟨d1, hdev, ha1, fun i x hx => ?_⟩
          by_cases hii : i = r.ts - s.off
          · subst hii
            rw [hget] at hx; cases hx
            exact ⟨_, hs1, fun h => c08h_slotStep_pos _ _ _ (Or.inl h)⟩
          · exact ⟨x, by rw [ho1 i hii]; exact hx, fun h => h⟩
        · exact ⟨d1, _, hdev, hs1, c08h_slotStep_pos _ _ _ (Or.inr hp)⟩
  · have hfr := (c01h_integrate_frame hi).2.2.2.2.2.2.2.2.2.2.2.2 id (Ne.symm hid)
    refine ⟨⟨hoff, fun d hd => ⟨d, by rw [hfr]; exact hd, rfl, fun _ x hx => ⟨x, hx, fun h => h⟩⟩⟩, ?_⟩
    intro h; exact absurd h hid

theorem c08h_dgram_mono (cfg : Cfg) (V : Srv.Verify) (s : State) (now : Nat) (b : Bytes) (hinv : Inv s)
    (id : Nat) : c08h_Mono id s (dgram cfg V s now b).1 := by
  rcases c01h_dgram_state cfg V s now b with h | ⟨r, b', _, hi⟩
  · rw [h]; exact c08h_Mono_refl _ _
  · exact (c08h_integrate hinv hi id).1

theorem c08h_deliver_append (cfg : Cfg) (V : Srv.Verify) (s : State) (now : Nat) (l1 l2 : List Bytes) :
    deliver cfg V s now (l1 ++ l2) = deliver cfg V (deliver cfg V s now l1) now l2 := by
  unfold deliver; rw [List.foldl_append]

theorem c08h_deliver (cfg : Cfg) (V : Srv.Verify) (now : Nat) (ds : List Bytes) (id : Nat) :
    ∀ s, Srv.Inv s → Srv.Inv (deliver cfg V s now ds) ∧ c08h_Mono id s (deliver cfg V s now ds) := by
  induction ds with
  | nil => intro s h; exact ⟨h, c08h_Mono_refl _ _⟩
  | cons b t ih =>
    intro s h
    have h1 := inv_dgram cfg V s now b h
    obtain ⟨h2, h3⟩ := ih _ h1
    exact ⟨h2, c08h_Mono_trans (c08h_dgram_mono cfg V s now b h id) h3⟩

/-- A well-formed, verifying, in-range, non-sentinel report is handed to `integrate`. -/
theorem c08h_dgram_accept (cfg : Cfg) (V : Srv.Verify) (s : State) (now : Nat) (r : Report) (dev : Srv.Dev)
    (hinv : Inv s) (hwf : r.WF) (hd : s.devices.get r.id = some dev)
    (hv : V dev.auth.key (Report.signingBytes r) r.sig = true)
    (h4 : (now : Int) - 432 ≤ r.ts) (h5 : (r.ts : Int) ≤ now + 432) (hp : r.p ≠ 0 ∧ r.p ≠ 1) :
    ∃ b, integrate cfg s r = some ((dgram cfg V s now (Report.encode r)).1, b) := by
  have hl : (Report.encode r).length = 80 := Report.encode_length r hwf.2.2.2
  have ht : (Report.encode r).take 80 = Report.encode r := List.take_of_length_le (by omega)
  have hpr : parseReport V s (Report.encode r) = some r := by
    unfold parseReport
    simp only [Report.decode_encode r hwf, hd, hv, if_true]
  unfold dgram
  rw [if_neg (by omega), ht]
  simp only [hpr]
  rw [if_neg (by omega), if_neg (by omega)]
  cases hi : integrate cfg s r with
  | none => exact absurd hi (c01h_integrate_ne_none cfg s r dev hd (hinv.devOk _ _ hd).2.1)
  | some q => obtain ⟨s', b⟩ := q; exact ⟨b, rfl⟩

theorem c08h_signExt32 (v : Nat) (h2 : 2 ≤ v) (hv : v < 2^32) :
    signExt32 v ≠ 0 ∧ signExt32 v ≠ 1 ∧ signExt32 v < 2^64 := by
  unfold signExt32
  split <;> omega

/-- A slot that holds a record keeps holding one, whatever datagrams arrive
(values can turn into the ban sentinel, never back to empty), and devices are not removed by datagrams. -/
theorem c08_slots_monotone (cfg : Cfg) (V : Srv.Verify) (s : State) (now : Nat) (ds : List Bytes) (hinv : Inv s)
    (id : Nat) (d : Srv.Dev) (i : Nat) (r : Report) (hd : s.devices.get id = some d) (hr : d.reports[i]? = some r)
    (hp : r.p > 0) :
    ∃ d' r', (deliver cfg V s now ds).devices.get id = some d' ∧ d'.reports[i]? = some r' ∧ r'.p > 0 ∧
      (deliver cfg V s now ds).off = s.off := by
  obtain ⟨_, hoff, hm⟩ := c08h_deliver cfg V now ds id s hinv
  obtain ⟨d', hd', _, hs⟩ := hm d hd
  obtain ⟨r', hr', hp'⟩ := hs i r hr
  exact ⟨d', r', hd', hr', hp' hp, hoff⟩

/-- Recovery: after a sync round against the server's current state, once the
retransmitted datagrams have arrived (in any order, any multiplicity, among
anything else), the server holds a record for every timeslot of its window, up
to the device's latest reading and within the acceptance range, for which the
device has a reading (a stored value of at least 2). -/
theorem c08_recover (cfg : Cfg) (V : Srv.Verify) (sign : Bytes → Bytes) (s : State) (hinv : Inv s)
    (id : Nat) (dev : Srv.Dev) (hd : s.devices.get id = some dev) (hid : id < 2^32)
    (hsig : ∀ m, V dev.auth.key m (sign m) = true) (hsl : ∀ m, (sign m).length = 64)
    (hist : Hist) (latest now : Nat) (hl : latest < 2^32) (hlo : s.off ≤ latest) (hso : s.off < 2^32)
    (delivered : List Bytes)
    (hdel : ∀ r ∈ resend hist latest s.off (packBits 504 (dev.reports.map (fun r => decide (r.p > 0)))),
              datagram sign id r ∈ delivered)
    (t : Nat) (h1 : s.off ≤ t) (h2 : t ≤ latest) (h3 : t < s.off + window)
    (h4 : (now : Int) - 432 ≤ t) (h5 : (t : Int) ≤ now + 432)
    (hv : ∃ v, hist.load t = some v ∧ 2 ≤ v ∧ v < 2^32) :
    ∃ d' r', (deliver cfg V s now delivered).devices.get id = some d' ∧
      d'.reports[t - s.off]? = some r' ∧ r'.p > 0 := by
  obtain ⟨v, hload, hv2, hv32⟩ := hv
  have hlen : dev.reports.length = 4032 := (hinv.devOk _ _ hd).2.1
  have hi : t - s.off < 4032 := by unfold window at h3; omega
  have hget : dev.reports[t - s.off]? = some dev.reports[t - s.off] :=
    List.getElem?_eq_getElem (by rw [hlen]; exact hi)
  by_cases hpos : 0 < (dev.reports[t - s.off]).p
  · obtain ⟨d', r', h1', h2', h3', _⟩ :=
      c08_slots_monotone cfg V s now delivered hinv id dev (t - s.off) _ hd hget hpos
    exact ⟨d', r', h1', h2', h3'⟩
  · -- the flag is clear, so the client retransmits the record
    have hbit : bitSet (packBits 504 (dev.reports.map (fun r => decide (r.p > 0)))) (t - s.off) = false := by
      rw [(c10_bit _ (t - s.off) (by simp [hlen]) hi).1]
      simp [List.getD_eq_getElem?_getD, List.getElem?_map, hget, hpos]
    have hmod : (t - s.off + s.off) % 2^32 = t := by omega
    have hmem : (⟨t, signExt32 v⟩ : Record) ∈
        resend hist latest s.off (packBits 504 (dev.reports.map (fun r => decide (r.p > 0)))) := by
      have hlast : (latest + 2^32 - s.off) % 2^32 = latest - s.off := by omega
      unfold resend
      simp only [hlast]
      rw [List.mem_filterMap]
      refine ⟨t - s.off, List.mem_range.2 (Nat.lt_min.2 ⟨by omega, hi⟩), ?_⟩
      simp only [hbit, hmod, hload]
      rw [if_neg (show ¬ v < 2 by omega)]
      rfl
    have hin := hdel _ hmem
    obtain ⟨pre, post, hsplit⟩ := List.append_of_mem hin
    rw [hsplit, c08h_deliver_append]
    obtain ⟨hinv1, hoff1, hm1⟩ := c08h_deliver cfg V now pre id s hinv
    obtain ⟨d1, hd1, ha1, _⟩ := hm1 dev hd
    generalize deliver cfg V s now pre = s1 at hinv1 hoff1 hd1
    obtain ⟨hs0, hs1, hs64⟩ := c08h_signExt32 v hv2 hv32
    let r : Report := ⟨id, t, signExt32 v, sign (Report.signingBytes ⟨id, t, signExt32 v, []⟩)⟩
    have hdg : datagram sign id ⟨t, signExt32 v⟩ = Report.encode r := rfl
    have hwf : r.WF := ⟨hid, by show t < 2^32; omega, hs64, hsl _⟩
    have hver : V d1.auth.key (Report.signingBytes r) r.sig = true := by
      rw [ha1]; exact hsig _
    obtain ⟨b, hint⟩ := c08h_dgram_accept cfg V s1 now r d1 hinv1 hwf hd1 hver h4 h5 ⟨hs0, hs1⟩
    have hstep : deliver cfg V s1 now (datagram sign id ⟨t, signExt32 v⟩ :: post) =
        deliver cfg V (dgram cfg V s1 now (Report.encode r)).1 now post := rfl
    rw [hstep]
    have hinv2 := inv_dgram cfg V s1 now (Report.encode r) hinv1
    generalize (dgram cfg V s1 now (Report.encode r)).1 = s2 at hint hinv2
    obtain ⟨d2, x2, hd2, hx2, hp2⟩ := (c08h_integrate hinv1 hint id).2 rfl
      (by show s1.off ≤ t; omega) (by show t < s1.off + window; omega) (by show 0 < signExt32 v; omega)
    have hx2' : d2.reports[t - s.off]? = some x2 := by rw [← hoff1]; exact hx2
    obtain ⟨d', r', h1', h2', h3', _⟩ :=
      c08_slots_monotone cfg V s2 now post hinv2 id d2 (t - s.off) x2 hd2 hx2' hp2
    exact ⟨d', r', h1', h2', h3'⟩

/-- A retransmitted value equals the original when the original fits 32 signed bits
(two's complement in 64 bits): store the low 32 bits, sign-extend on the way back. -/
theorem c08_value_identical (e : Nat) (h : e < 2^31 ∨ (2^64 - 2^31 ≤ e ∧ e < 2^64)) :
    signExt32 (e % 2^32) = e := by
  unfold signExt32
  rcases h with h | ⟨h1, h2⟩
  · have : e % 2^32 = e := Nat.mod_eq_of_lt (by omega)
    rw [this, if_pos h]
  · have : e % 2^32 = e - (2^64 - 2^32) := by omega
    rw [this, if_neg (by omega)]
    omega

/-- Hence the retransmitted datagram is byte for byte the one originally sent. -/
theorem c08_datagram_identical (sign : Bytes → Bytes) (id ts e : Nat)
    (h : e < 2^31 ∨ (2^64 - 2^31 ≤ e ∧ e < 2^64)) :
    datagram sign id ⟨ts, signExt32 (e % 2^32)⟩ = datagram sign id ⟨ts, e⟩ := by
  rw [c08_value_identical e h]

/-- And receiving a report identical to the stored one never bans the slot: the state is unchanged. -/
theorem c08_no_self_ban (cfg : Cfg) (V : Srv.Verify) (s : State) (now : Nat) (b : Bytes) (r : Report) (dev : Srv.Dev)
    (hdec : Report.decode (b.take 80) = some r) (hd : s.devices.get r.id = some dev)
    (hin : s.off ≤ r.ts ∧ r.ts < s.off + window) (hslot : dev.reports[r.ts - s.off]? = some r) :
    dgram cfg V s now b = (s, .dropped) := by
  unfold dgram
  by_cases hl : b.length < 80
  · rw [if_pos hl]
  rw [if_neg hl]
  cases hp : parseReport V s (b.take 80) with
  | none => rfl
  | some r' =>
    have hr' : r' = r := by
      have := (c01h_parseReport_some hp).1
      rw [hdec] at this; exact (Option.some.inj this).symm
    subst hr'
    simp only
    by_cases ht : (r'.ts : Int) < (now : Int) - 432 ∨ (r'.ts : Int) > (now : Int) + 432
    · rw [if_pos ht]
    rw [if_neg ht]
    by_cases hp0 : r'.p = 0 ∨ r'.p = 1
    · rw [if_pos hp0]
    rw [if_neg hp0]
    have hidev : integrateDev s.off dev r' = some (dev, false) := by
      unfold integrateDev
      rw [if_neg (by omega), if_neg (by omega)]
      simp only [hslot]
      rw [if_neg (show ¬ r'.p = 1 by omega)]
      simp
    have : integrate cfg s r' = some (s, false) := by
      unfold integrate
      simp only [hd, hidev]
    simp only [this]
    rfl

/-- Counterpoint (why the "fits 32 signed bits" clause is there): a value above 2^31 that is not a
negative 64-bit number is retransmitted differently. -/
example : signExt32 (3000000000 % 2^32) ≠ 3000000000 := by decide

end Gca.C08
