import Gca.Server.Inv
import Gca.Props.C02
/-
C01 - Only authentic, authorized, in-window reports change server state.
-/
namespace Gca.Srv

/-- The datagram's leading 80 bytes decode to a report that names an authorized
(hence non-banned) device, carries a signature that verifies under that
device's authorized key over the signing bytes of exactly (id, timeslot,
power), lies within 432 slots of `now` and inside the storage window, and has a
power other than the sentinels 0 and 1. -/
def Accept (V : Verify) (s : State) (now : Nat) (d : Bytes) : Prop :=
  80 ≤ d.length ∧ ∃ r dev, Report.decode (d.take 80) = some r ∧ s.devices.get r.id = some dev ∧
    V dev.auth.key (Report.signingBytes r) r.sig = true ∧
    (now : Int) - 432 ≤ r.ts ∧ (r.ts : Int) ≤ now + 432 ∧
    s.off ≤ r.ts ∧ r.ts < s.off + window ∧ r.p ≠ 0 ∧ r.p ≠ 1


/-! Helper lemmas along the definition of `dgram`. -/

theorem c01h_parseReport_some {V : Verify} {s : State} {b : Bytes} {r : Report}
    (h : parseReport V s b = some r) :
    Report.decode b = some r ∧ ∃ dev, s.devices.get r.id = some dev ∧
      V dev.auth.key (Report.signingBytes r) r.sig = true := by
  unfold parseReport at h
  cases hd : Report.decode b with
  | none => simp [hd] at h
  | some r' =>
    simp only [hd] at h
    cases hg : s.devices.get r'.id with
    | none => simp [hg] at h
    | some dev =>
      simp only [hg] at h
      by_cases hv : V dev.auth.key (Report.signingBytes r') r'.sig = true
      · simp only [hv, if_true, Option.some.injEq] at h
        subst h
        exact ⟨rfl, dev, hg, hv⟩
      · simp [hv] at h

theorem c01h_parseReport_none {V : Verify} {s : State} {b : Bytes}
    (h : parseReport V s b = none) :
    ∀ r dev, Report.decode b = some r → s.devices.get r.id = some dev →
      V dev.auth.key (Report.signingBytes r) r.sig = false := by
  intro r dev hd hg
  unfold parseReport at h
  simp only [hd, hg] at h
  by_cases hv : V dev.auth.key (Report.signingBytes r) r.sig = true
  · simp [hv] at h
  · simpa using hv

/-- Outside the storage window `integrate` is the identity. -/
theorem c01h_integrate_outside (cfg : Cfg) (s : State) (r : Report) (dev : Dev)
    (hg : s.devices.get r.id = some dev) (h : r.ts < s.off ∨ s.off + window ≤ r.ts) :
    integrate cfg s r = some (s, false) := by
  simp [integrate, hg, c02h_integrateDev_outside s.off dev r h]

/-- A report that was not recorded left the state alone. -/
theorem c01h_integrate_false {cfg : Cfg} {s s' : State} {r : Report}
    (h : integrate cfg s r = some (s', false)) : s' = s := by
  unfold integrate at h
  cases hg : s.devices.get r.id with
  | none => simp [hg] at h
  | some dev =>
    simp only [hg] at h
    cases hi : integrateDev s.off dev r with
    | none => simp [hi] at h
    | some p =>
      obtain ⟨d', b⟩ := p
      cases b with
      | false => simp [hi] at h; exact h.symm
      | true => simp [hi] at h

/-- What `integrate` may change. -/
theorem c01h_integrate_frame {cfg : Cfg} {s s' : State} {r : Report} {b : Bool}
    (h : integrate cfg s r = some (s', b)) :
    s'.gcaKey = s.gcaKey ∧ s'.gcaAvail = s.gcaAvail ∧ s'.shortIds = s.shortIds ∧ s'.bans = s.bans ∧
    s'.off = s.off ∧ s'.history = s.history ∧ s'.recentA = s.recentA ∧ s'.servers = s.servers ∧
    s'.migs = s.migs ∧ s'.disk.auths = s.disk.auths ∧ s'.disk.weeks = s.disk.weeks ∧
    s'.disk.gcaKey = s.disk.gcaKey ∧
    (∀ id, id ≠ r.id → s'.devices.get id = s.devices.get id) := by
  cases b with
  | false => rw [c01h_integrate_false h]; simp
  | true =>
    unfold integrate at h
    cases hg : s.devices.get r.id with
    | none => simp [hg] at h
    | some dev =>
      simp only [hg] at h
      cases hi : integrateDev s.off dev r with
      | none => simp [hi] at h
      | some p =>
        obtain ⟨d', b⟩ := p
        cases b with
        | false => simp [hi] at h
        | true =>
          simp only [hi, Option.some.injEq, Prod.mk.injEq, and_true] at h
          subst h
          refine ⟨rfl, rfl, rfl, rfl, rfl, rfl, rfl, rfl, rfl, rfl, rfl, rfl, ?_⟩
          intro id hne
          exact FMap.get_set_ne _ _ _ _ (Ne.symm hne)

/-- With full-length arrays `integrate` never hits the panicking branches. -/
theorem c01h_integrate_ne_none (cfg : Cfg) (s : State) (r : Report) (dev : Dev)
    (hg : s.devices.get r.id = some dev) (hlen : dev.reports.length = window) :
    integrate cfg s r ≠ none := by
  by_cases hw : r.ts < s.off ∨ s.off + window ≤ r.ts
  · rw [c01h_integrate_outside cfg s r dev hg hw]; simp
  · obtain ⟨d', b, hi, _⟩ := c02h_integrateDev_spec s.off dev r hlen (by omega) (by omega)
    unfold integrate
    simp only [hg, hi]
    cases b <;> simp

/-- The state after a datagram is the old one or the result of integrating the
report the datagram decodes to. -/
theorem c01h_dgram_state (cfg : Cfg) (V : Verify) (s : State) (now : Nat) (d : Bytes) :
    (dgram cfg V s now d).1 = s ∨
    ∃ r b, Report.decode (d.take 80) = some r ∧ integrate cfg s r = some ((dgram cfg V s now d).1, b) := by
  unfold dgram
  by_cases hl : d.length < 80
  · simp [hl]
  · simp only [hl, if_false]
    cases hp : parseReport V s (d.take 80) with
    | none => simp
    | some r =>
      simp only
      by_cases ht : (r.ts : Int) < (now : Int) - 432 ∨ (r.ts : Int) > (now : Int) + 432
      · simp [ht]
      · simp only [ht, if_false]
        by_cases hp0 : r.p = 0 ∨ r.p = 1
        · simp [hp0]
        · simp only [hp0, if_false]
          cases hi : integrate cfg s r with
          | none => simp
          | some q =>
            obtain ⟨s', b⟩ := q
            exact Or.inr ⟨r, b, (c01h_parseReport_some hp).1, hi⟩

/-- Every other datagram leaves the whole state (memory and disk, hence every
observable computed from it) exactly as it was. -/
theorem c01_unchanged (cfg : Cfg) (V : Verify) (s : State) (now : Nat) (d : Bytes)
    (h : ¬ Accept V s now d) : dgram cfg V s now d = (s, .dropped) := by
  unfold dgram
  by_cases hl : d.length < 80
  · simp [hl]
  · simp only [hl, if_false]
    cases hp : parseReport V s (d.take 80) with
    | none => rfl
    | some r =>
      simp only
      obtain ⟨hd, dev, hg, hv⟩ := c01h_parseReport_some hp
      by_cases ht : (r.ts : Int) < (now : Int) - 432 ∨ (r.ts : Int) > (now : Int) + 432
      · simp [ht]
      · simp only [ht, if_false]
        by_cases hp0 : r.p = 0 ∨ r.p = 1
        · simp [hp0]
        · simp only [hp0, if_false]
          by_cases hw : r.ts < s.off ∨ s.off + window ≤ r.ts
          · rw [c01h_integrate_outside cfg s r dev hg hw]; rfl
          · exfalso
            apply h
            refine ⟨by omega, r, dev, hd, hg, hv, by omega, by omega, by omega, by omega, ?_, ?_⟩
            · exact fun h0 => hp0 (Or.inl h0)
            · exact fun h1 => hp0 (Or.inr h1)

/-- No datagram can crash the handler. -/
theorem c01_nopanic (cfg : Cfg) (V : Verify) (s : State) (now : Nat) (d : Bytes) (hinv : Inv s) :
    (dgram cfg V s now d).2 ≠ .panic := by
  unfold dgram
  by_cases hl : d.length < 80
  · simp [hl]
  · simp only [hl, if_false]
    cases hp : parseReport V s (d.take 80) with
    | none => simp
    | some r =>
      simp only
      obtain ⟨hd, dev, hg, hv⟩ := c01h_parseReport_some hp
      by_cases ht : (r.ts : Int) < (now : Int) - 432 ∨ (r.ts : Int) > (now : Int) + 432
      · simp [ht]
      · simp only [ht, if_false]
        by_cases hp0 : r.p = 0 ∨ r.p = 1
        · simp [hp0]
        · simp only [hp0, if_false]
          cases hi : integrate cfg s r with
          | none => exact absurd hi (c01h_integrate_ne_none cfg s r dev hg (hinv.devOk _ _ hg).2.1)
          | some q =>
            obtain ⟨s', b⟩ := q
            cases b <;> simp

/-- An accepted datagram changes at most: the one slot `r.ts - off` of the one
device `r.id` (by the per-slot rule), the recent-reports list and the report
log; nothing else. -/
theorem c01_effect (cfg : Cfg) (V : Verify) (s : State) (now : Nat) (d : Bytes) (hinv : Inv s) :
    let s' := (dgram cfg V s now d).1
    s'.gcaKey = s.gcaKey ∧ s'.gcaAvail = s.gcaAvail ∧ s'.shortIds = s.shortIds ∧ s'.bans = s.bans ∧
    s'.off = s.off ∧ s'.history = s.history ∧ s'.recentA = s.recentA ∧ s'.servers = s.servers ∧
    s'.migs = s.migs ∧ s'.disk.auths = s.disk.auths ∧ s'.disk.weeks = s.disk.weeks ∧
    s'.disk.gcaKey = s.disk.gcaKey ∧
    (∀ id, (∀ r, Report.decode (d.take 80) = some r → id ≠ r.id) → s'.devices.get id = s.devices.get id) := by
  intro s'
  have _ := hinv
  rcases c01h_dgram_state cfg V s now d with h | ⟨r, b, hd, hi⟩
  · have hs : s' = s := h
    rw [hs]; simp
  · obtain ⟨h1, h2, h3, h4, h5, h6, h7, h8, h9, h10, h11, h12, h13⟩ := c01h_integrate_frame hi
    exact ⟨h1, h2, h3, h4, h5, h6, h7, h8, h9, h10, h11, h12, fun id hid => h13 id (hid r hd)⟩

/-! Corollaries: each clause of the statement. -/

theorem c01_too_short (cfg : Cfg) (V : Verify) (s : State) (now : Nat) (d : Bytes) (h : d.length < 80) :
    dgram cfg V s now d = (s, .dropped) :=
  c01_unchanged cfg V s now d (fun ⟨hl, _⟩ => by omega)

theorem c01_unknown_device (cfg : Cfg) (V : Verify) (s : State) (now : Nat) (d : Bytes)
    (h : ∀ r, Report.decode (d.take 80) = some r → s.devices.get r.id = none) :
    dgram cfg V s now d = (s, .dropped) := by
  apply c01_unchanged
  rintro ⟨_, r, dev, hd, hg, _⟩
  rw [h r hd] at hg; cases hg

theorem c01_banned_device (cfg : Cfg) (V : Verify) (s : State) (now : Nat) (d : Bytes) (hinv : Inv s)
    (h : ∀ r, Report.decode (d.take 80) = some r → r.id ∈ s.bans) :
    dgram cfg V s now d = (s, .dropped) := by
  apply c01_unchanged
  rintro ⟨_, r, dev, hd, hg, _⟩
  rw [hinv.banned r.id (h r hd)] at hg; cases hg

/-- A signature that does not verify under the device's own authorized key -
whatever other key produced it, or any altered bit that makes verification fail. -/
theorem c01_bad_signature (cfg : Cfg) (V : Verify) (s : State) (now : Nat) (d : Bytes)
    (h : ∀ r dev, Report.decode (d.take 80) = some r → s.devices.get r.id = some dev →
      V dev.auth.key (Report.signingBytes r) r.sig = false) :
    dgram cfg V s now d = (s, .dropped) := by
  apply c01_unchanged
  rintro ⟨_, r, dev, hd, hg, hv, _⟩
  rw [h r dev hd hg] at hv; cases hv

theorem c01_outside_acceptance (cfg : Cfg) (V : Verify) (s : State) (now : Nat) (d : Bytes)
    (h : ∀ r, Report.decode (d.take 80) = some r → (r.ts : Int) < now - 432 ∨ (r.ts : Int) > now + 432) :
    dgram cfg V s now d = (s, .dropped) := by
  apply c01_unchanged
  rintro ⟨_, r, dev, hd, _, _, h1, h2, _⟩
  have := h r hd
  omega

theorem c01_outside_storage (cfg : Cfg) (V : Verify) (s : State) (now : Nat) (d : Bytes)
    (h : ∀ r, Report.decode (d.take 80) = some r → r.ts < s.off ∨ s.off + window ≤ r.ts) :
    dgram cfg V s now d = (s, .dropped) := by
  apply c01_unchanged
  rintro ⟨_, r, dev, hd, _, _, _, _, h1, h2, _⟩
  have := h r hd
  omega

theorem c01_sentinel (cfg : Cfg) (V : Verify) (s : State) (now : Nat) (d : Bytes)
    (h : ∀ r, Report.decode (d.take 80) = some r → r.p = 0 ∨ r.p = 1) :
    dgram cfg V s now d = (s, .dropped) := by
  apply c01_unchanged
  rintro ⟨_, r, dev, hd, _, _, _, _, _, _, h0, h1⟩
  rcases h r hd with h | h
  · exact h0 h
  · exact h1 h

/-- Observables are functions of the state: an unchanged state answers sync,
statistics and restart identically. -/
theorem c01_views (cfg : Cfg) (V : Verify) (sgn : Bytes → Bytes) (s : State) (now : Nat) (d : Bytes)
    (h : ¬ Accept V s now d) (id tso : Nat) :
    sync (dgram cfg V s now d).1 id = sync s id ∧
    statsQuery sgn (dgram cfg V s now d).1 tso = statsQuery sgn s tso ∧
    (dgram cfg V s now d).1.recentR = s.recentR ∧ (dgram cfg V s now d).1.disk = s.disk := by
  rw [c01_unchanged cfg V s now d h]; simp

/-- The same for the two read-only HTTP views of the device table: the recent-reports reply for any
key and the equipment listing. -/
theorem c01_views_http (cfg : Cfg) (V : Verify) (s : State) (now : Nat) (d : Bytes)
    (h : ¬ Accept V s now d) (key : Key) :
    recentQuery (dgram cfg V s now d).1 key = recentQuery s key ∧
    equipmentQuery (dgram cfg V s now d).1 = equipmentQuery s := by
  rw [c01_unchanged cfg V s now d h]; simp

/-- Non-vacuity: with a verifying oracle a well-formed in-window report IS
accepted and stored (so `Accept` is satisfiable and `c01_unchanged` is not vacuous). -/
example :
    let a : Auth := ⟨1, zeros 32, 0, 0, 1000, 0, 0, 0, 0, zeros 64⟩
    let s : State := { devices := [(1, newDev a)], shortIds := [(zeros 32, 1)], gcaAvail := true }
    let r : Report := ⟨1, 5, 500, zeros 64⟩
    (dgram {} (fun _ _ _ => true) s 10 (Report.encode r)).2 = .stored := by decide

end Gca.Srv
