import Gca.RateLimiter
/-
C19 - Rate limiter never admits more than the limit per window and never starves.

Any schedule of concurrent callers is a sequence of `Allow` calls with
non-decreasing clock values (one critical section, clock read inside it: tied
to the source by the lock skeleton of `Allow` and the generated comparisons).
-/
namespace Gca.RL

/-- Number of times in `adm` that lie in the half-open window `(a, b]`. -/
def countIn (adm : List Int) (a b : Int) : Nat := (adm.filter (fun t => a < t ∧ t ≤ b)).length

/-- Number of times in `adm` that lie in the half-open window `[a, b)`. -/
def countIn' (adm : List Int) (a b : Int) : Nat := (adm.filter (fun t => a ≤ t ∧ t < b)).length

/-! ### Helper lemmas -/

theorem c19h_dropWhile_eq_filter (e : Int) : ∀ (l : List Int), l.Pairwise (· ≤ ·) →
    l.dropWhile (fun t => decide ¬ (t > e)) = l.filter (fun t => decide (t > e))
  | [], _ => rfl
  | x :: l, h => by
    rw [List.pairwise_cons] at h
    have ih := c19h_dropWhile_eq_filter e l h.2
    by_cases hx : x > e
    · have : l.filter (fun t => decide (t > e)) = l := by
        rw [List.filter_eq_self]; intro y hy; have := h.1 y hy; simp; omega
      simp [hx, this]
    · rw [List.dropWhile_cons, List.filter_cons]
      simp only [hx, not_false_eq_true, decide_true, decide_false, if_true]
      simpa using ih

theorem c19h_mem_takeWhile_imp {p : Int → Bool} {l : List Int} {x : Int}
    (h : x ∈ l.takeWhile p) : p x = true :=
  List.all_eq_true.1 (List.all_takeWhile (l := l) (p := p)) x h

theorem c19h_admitted_cons (s : State) (t : Int) (ts : List Int) :
    admitted s (t :: ts) = (if (allow s t).2 then [t] else []) ++ admitted (allow s t).1 ts := by
  simp only [admitted, run]
  cases h : (allow s t).2 <;> simp

theorem c19h_allow_snd (s : State) (t : Int) :
    (allow s t).2 = decide (((s.reqs.dropWhile (fun x => decide ¬ (x > t - s.rate))).length : Int)
      < s.limit) := by
  unfold allow
  simp only
  split <;> rename_i h
  · exact (decide_eq_true h).symm
  · exact (decide_eq_false h).symm

theorem c19h_admitted_nil (s : State) : admitted s [] = [] := rfl

structure Inv (limit rate : Int) (s : State) (adm : List Int) (u : Int) : Prop where
  hl : s.limit = limit
  hr : s.rate = rate
  d : ∃ d, adm = d ++ s.reqs ∧ ∀ x ∈ d, x ≤ u - rate
  sorted : adm.Pairwise (· ≤ ·)
  le : ∀ x ∈ adm, x ≤ u
  w1 : ∀ a, (countIn adm a (a + rate) : Int) ≤ max limit 0
  w2 : ∀ a, (countIn' adm a (a + rate) : Int) ≤ max limit 0

theorem Inv.mono {limit rate s adm u u'} (h : Inv limit rate s adm u) (huu : u ≤ u') :
    Inv limit rate s adm u' := by
  obtain ⟨d, hd, hdle⟩ := h.d
  exact { h with
    d := ⟨d, hd, fun x hx => by have := hdle x hx; omega⟩
    le := fun x hx => by have := h.le x hx; omega }

theorem Inv.kept_eq {limit rate s adm t} (h : Inv limit rate s adm t) :
    s.reqs.dropWhile (fun x => decide ¬ (x > t - s.rate)) =
      adm.filter (fun x => decide (x > t - rate)) := by
  obtain ⟨d, hd, hdle⟩ := h.d
  have hs := h.sorted
  rw [hd, List.pairwise_append] at hs
  rw [h.hr, c19h_dropWhile_eq_filter _ _ hs.2.1, hd, List.filter_append]
  have : d.filter (fun x => decide (x > t - rate)) = [] := by
    rw [List.filter_eq_nil_iff]; intro x hx; have := hdle x hx; simp; omega
  rw [this, List.nil_append]

theorem c19h_countIn_le (adm : List Int) (a t rate : Int) (h : t - rate ≤ a) :
    countIn adm a (a + rate) ≤ (adm.filter (fun x => decide (x > t - rate))).length := by
  unfold countIn
  rw [← List.countP_eq_length_filter, ← List.countP_eq_length_filter]
  apply List.countP_mono_left
  intro x _ hx
  simp at hx ⊢; omega

theorem c19h_countIn'_le (adm : List Int) (a t rate : Int) (h : t - rate < a) :
    countIn' adm a (a + rate) ≤ (adm.filter (fun x => decide (x > t - rate))).length := by
  unfold countIn'
  rw [← List.countP_eq_length_filter, ← List.countP_eq_length_filter]
  apply List.countP_mono_left
  intro x _ hx
  simp at hx ⊢; omega

theorem Inv.step {limit rate s adm t} (h : Inv limit rate s adm t) :
    Inv limit rate (allow s t).1 (adm ++ (if (allow s t).2 then [t] else [])) t := by
  have hk := h.kept_eq
  obtain ⟨d, hd, hdle⟩ := h.d
  have hsplit := List.takeWhile_append_dropWhile
    (p := fun x => decide ¬ (x > t - s.rate)) (l := s.reqs)
  have htw : ∀ x ∈ d ++ s.reqs.takeWhile (fun x => decide ¬ (x > t - s.rate)),
      x ≤ t - rate := by
    intro x hx
    rcases List.mem_append.1 hx with hx | hx
    · exact hdle x hx
    · have := c19h_mem_takeWhile_imp hx
      rw [h.hr] at this
      simp at this; omega
  unfold allow
  simp only
  split
  · rename_i hlt
    simp only [if_true]
    rw [hk, h.hl] at hlt
    refine ⟨h.hl, h.hr, ⟨_, ?_, htw⟩, ?_, ?_, ?_, ?_⟩
    · rw [hd]
      conv => lhs; rw [← hsplit]
      simp only [List.append_assoc]
    · rw [List.pairwise_append]
      refine ⟨h.sorted, by simp, ?_⟩
      intro x hx y hy
      simp at hy; subst hy; exact h.le x hx
    · intro x hx
      rcases List.mem_append.1 hx with hx | hx
      · exact h.le x hx
      · simp at hx; omega
    · intro a
      have h1 := h.w1 a
      unfold countIn at h1 ⊢
      rw [List.filter_append, List.length_append]
      by_cases hin : a < t ∧ t ≤ a + rate
      · have := c19h_countIn_le adm a t rate (by omega)
        unfold countIn at this
        have e : (List.filter (fun t => decide (a < t ∧ t ≤ a + rate)) [t]).length = 1 := by
          simp [hin]
        rw [e]; omega
      · have e : (List.filter (fun t => decide (a < t ∧ t ≤ a + rate)) [t]).length = 0 := by
          simp [hin]
        rw [e]; omega
    · intro a
      have h1 := h.w2 a
      unfold countIn' at h1 ⊢
      rw [List.filter_append, List.length_append]
      by_cases hin : a ≤ t ∧ t < a + rate
      · have := c19h_countIn'_le adm a t rate (by omega)
        unfold countIn' at this
        have e : (List.filter (fun t => decide (a ≤ t ∧ t < a + rate)) [t]).length = 1 := by
          simp [hin]
        rw [e]; omega
      · have e : (List.filter (fun t => decide (a ≤ t ∧ t < a + rate)) [t]).length = 0 := by
          simp [hin]
        rw [e]; omega
  · simp only [Bool.false_eq_true, if_false, List.append_nil]
    refine ⟨h.hl, h.hr, ⟨_, ?_, htw⟩, h.sorted, h.le, h.w1, h.w2⟩
    rw [hd]
    conv => lhs; rw [← hsplit]
    simp only [List.append_assoc]

theorem Inv.run {limit rate} : ∀ (ts : List Int) (s : State) (adm : List Int) (u0 : Int),
    Inv limit rate s adm u0 → (u0 :: ts).Pairwise (· ≤ ·) →
    ∀ u, (∀ x ∈ u0 :: ts, x ≤ u) →
    Inv limit rate (run s ts).1 (adm ++ admitted s ts) u
  | [], s, adm, u0, h, _, u, hu => by
    simpa [RL.run, c19h_admitted_nil] using h.mono (hu u0 (by simp))
  | t :: ts, s, adm, u0, h, hp, u, hu => by
    rw [List.pairwise_cons] at hp
    have h1 := (h.mono (hp.1 t (by simp))).step
    have h2 := Inv.run ts _ _ t h1 hp.2 u (fun x hx => hu x (List.mem_cons_of_mem _ hx))
    rw [c19h_admitted_cons, ← List.append_assoc]
    simpa [RL.run] using h2

theorem Inv.init (limit rate u : Int) : Inv limit rate (init limit rate) [] u := by
  refine ⟨rfl, rfl, ⟨[], rfl, by simp⟩, by simp, by simp, ?_, ?_⟩
  · intro a; simp [countIn]; omega
  · intro a; simp [countIn']; omega

theorem Inv.init_run (limit rate : Int) (ts : List Int) (hs : ts.Pairwise (· ≤ ·)) (u : Int)
    (hu : ∀ x ∈ ts, x ≤ u) :
    Inv limit rate (RL.run (RL.init limit rate) ts).1 (admitted (RL.init limit rate) ts) u := by
  cases ts with
  | nil => exact Inv.init limit rate u
  | cons p ps =>
    have := Inv.run (p :: ps) _ _ p (Inv.init limit rate p)
      (by rw [List.pairwise_cons]; exact ⟨fun x hx => by
            rcases List.mem_cons.1 hx with rfl | hx
            · exact Int.le_refl _
            · exact (List.pairwise_cons.1 hs).1 x hx, hs⟩)
      u (by intro x hx; rcases List.mem_cons.1 hx with rfl | hx
            · exact hu _ (by simp)
            · exact hu x hx)
    simpa using this

theorem c19h_exists_ub : ∀ ts : List Int, ∃ u, ∀ x ∈ ts, x ≤ u
  | [] => ⟨0, by simp⟩
  | t :: ts => by
    obtain ⟨u, hu⟩ := c19h_exists_ub ts
    refine ⟨max u t, ?_⟩
    intro x hx
    rcases List.mem_cons.1 hx with rfl | hx
    · omega
    · have := hu x hx; omega

/-- Exact characterisation (refinement to the sliding-window specification):
a call at time `t` after the calls `pre` is admitted iff fewer than `limit`
calls were admitted in the preceding window `(t - rate, t]`. -/
theorem c19_exact (limit rate : Int) (pre : List Int) (t : Int)
    (hs : (pre ++ [t]).Pairwise (· ≤ ·)) :
    (allow (run (init limit rate) pre).1 t).2 =
      decide ((countIn (admitted (init limit rate) pre) (t - rate) t : Int) < limit) := by
  rw [List.pairwise_append] at hs
  have h := Inv.init_run limit rate pre hs.1 t (fun x hx => hs.2.2 x hx t (by simp))
  have hk := h.kept_eq
  have hc : countIn (admitted (init limit rate) pre) (t - rate) t =
      ((admitted (init limit rate) pre).filter (fun x => decide (x > t - rate))).length := by
    unfold countIn
    congr 1
    apply List.filter_congr
    intro x hx
    have := h.le x hx
    simp; omega
  rw [c19h_allow_snd, hk, h.hl, hc]

/-- Never starves: fewer than `limit` admissions in the preceding window ⇒ admitted. -/
theorem c19_no_starve (limit rate : Int) (pre : List Int) (t : Int)
    (hs : (pre ++ [t]).Pairwise (· ≤ ·))
    (h : (countIn (admitted (init limit rate) pre) (t - rate) t : Int) < limit) :
    (allow (run (init limit rate) pre).1 t).2 = true := by
  rw [c19_exact limit rate pre t hs]; simpa using h

/-- No window `(a, a+rate]` holds more than `limit` admitted calls. -/
theorem c19_window_bound (limit rate : Int) (ts : List Int) (hs : ts.Pairwise (· ≤ ·))
    (hr : 0 ≤ rate) (a : Int) :
    (countIn (admitted (init limit rate) ts) a (a + rate) : Int) ≤ max limit 0 := by
  have _ := hr -- not needed: for rate < 0 the window is empty
  obtain ⟨u, hu⟩ := c19h_exists_ub ts
  exact (Inv.init_run limit rate ts hs u hu).w1 a

/-- No window `[a, a+rate)` holds more than `limit` admitted calls. -/
theorem c19_window_bound' (limit rate : Int) (ts : List Int) (hs : ts.Pairwise (· ≤ ·))
    (hr : 0 ≤ rate) (a : Int) :
    (countIn' (admitted (init limit rate) ts) a (a + rate) : Int) ≤ max limit 0 := by
  have _ := hr -- not needed: for rate < 0 the window is empty
  obtain ⟨u, hu⟩ := c19h_exists_ub ts
  exact (Inv.init_run limit rate ts hs u hu).w2 a

/-- Non-vacuity: a concrete schedule where the bound is attained and a later call is admitted again. -/
example : (run (init 2 10) [0, 1, 2, 10, 11]).2 = [true, true, false, true, true] := by decide

end Gca.RL
