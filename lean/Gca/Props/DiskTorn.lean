import Gca.Props.DiskBytes
/-
C05 (byte level, after the repair of F25) - what the three loaders make of a log whose last append was
cut short by a kill. Each log is append-only, one record per write; a write that is interrupted leaves a
proper prefix of one record behind the whole records. The repaired loaders drop that partial record
(and truncate the file): `loadReportsBytes` / `loadAuthsBytes` cut the data to a multiple of the record
size, `loadWeeksBytes` decodes records until the data ends before a record does. These theorems say
that what they read is exactly the list of whole records, for every list of records and every proper
prefix of one more record (of any bytes, for the fixed-size logs).
-/
namespace Gca.Srv
open Gca

/-- `loadEquipmentReports` after F25: a partial trailing report is dropped, then 80-byte records. -/
def loadReportsBytes (b : Bytes) : Option (List Report) :=
  parseReports (b.take (b.length - b.length % 80))

/-- `loadEquipment` after F25: a partial trailing authorization is dropped, then 148-byte records. -/
def loadAuthsBytes (fuel : Nat) (b : Bytes) : Option (List Auth) :=
  parseAuths fuel (b.take (b.length - b.length % 148))

/-- `loadEquipmentHistory` after F25: decode records until the data ends before a record does; the
second component is the number of bytes kept (the file is truncated to it). -/
def loadWeeksBytes : Nat → Bytes → List Week × Nat
  | 0, _ => ([], 0)
  | fuel+1, b =>
    if b.isEmpty then ([], 0) else
    match Week.decode1 b with
    | none => ([], 0)
    | some (w, r) =>
      let (ws, n) := loadWeeksBytes fuel r
      (w :: ws, (b.length - r.length) + n)

/-! Helper lemmas (prefixed `tornh_`). -/

theorem tornh_encodeAuths_length (as : List Auth) (h : ∀ a ∈ as, a.WF) :
    (encodeAuths as).length = 148 * as.length := by
  induction as with
  | nil => rfl
  | cons a as ih =>
    have := Auth.encode_length a (h a (by simp))
    have := ih (fun x hx => h x (by simp [hx]))
    simp only [encodeAuths, List.length_append, List.length_cons]
    omega

/-- Cutting `whole ++ junk` to a multiple of the record size gives `whole`. -/
theorem tornh_cut (sz n : Nat) (whole junk : Bytes) (hw : whole.length = sz * n)
    (hj : junk.length < sz) :
    (whole ++ junk).take ((whole ++ junk).length - (whole ++ junk).length % sz) = whole := by
  have hl : (whole ++ junk).length = sz * n + junk.length := by simp [hw]
  have hm : (sz * n + junk.length) % sz = junk.length := by
    rw [Nat.mul_add_mod]; exact Nat.mod_eq_of_lt hj
  rw [hl, hm, Nat.add_sub_cancel]
  exact take_app _ _ hw

/-- A device record needs all of its 32 + 16*2016 bytes. -/
theorem tornh_dev_short (b : Bytes) (h : b.length < 32 + 16 * weekSlots) : Dev.decode1 b = none := by
  unfold Dev.decode1
  split
  · rfl
  · split
    rename_i key b1 hr
    have h1 : b1.length = b.length - 32 := by
      have := rd_snd_length 32 b; rw [hr] at this; exact this
    split
    · rfl
    · split
      rename_i ps b2 hr2
      have h2 : b2.length = b1.length - 8 * weekSlots := by
        have := rdWords_snd_length 8 weekSlots b1; rw [hr2] at this; exact this
      rw [if_pos (by omega)]

theorem tornh_take_ge {α} (a t : List α) (m : Nat) (h : a.length ≤ m) :
    (a ++ t).take m = a ++ t.take (m - a.length) := by
  rw [List.take_append, List.take_of_length_le h]

theorem tornh_encodeDevs_length (ds : List Gca.Dev) (h : ∀ d ∈ ds, d.WF) :
    (encodeDevs ds).length = (32 + 16 * weekSlots) * ds.length := by
  induction ds with
  | nil => rfl
  | cons d ds ih =>
    have := Dev.encode_length d (h d (by simp))
    have := ih (fun x hx => h x (by simp [hx]))
    simp only [encodeDevs, List.length_append, List.length_cons, Nat.mul_succ]
    omega

/-- A prefix that stops inside the devices: the device loop fails. -/
theorem tornh_decodeDevs_short (ds : List Gca.Dev) (h : ∀ d ∈ ds, d.WF) (t : Bytes) (m : Nat)
    (hm : m < (encodeDevs ds).length) :
    decodeDevs ds.length ((encodeDevs ds ++ t).take m) = none := by
  induction ds generalizing m with
  | nil => simp [encodeDevs] at hm
  | cons d ds ih =>
    have hd := h d (by simp)
    have hl := Dev.encode_length d hd
    simp only [encodeDevs, List.length_append] at hm
    simp only [List.length_cons, decodeDevs, encodeDevs, List.append_assoc]
    by_cases hlt : m < 32 + 16 * weekSlots
    · rw [tornh_dev_short _ (by rw [List.length_take]; omega)]
    · rw [tornh_take_ge _ _ _ (by omega), Dev.decode1_encode d _ hd]
      simp only
      rw [ih (fun e he => h e (by simp [he])) _ (by omega)]

/-- A prefix that reaches past the devices: the device loop succeeds on it. -/
theorem tornh_decodeDevs_long (ds : List Gca.Dev) (h : ∀ d ∈ ds, d.WF) (t : Bytes) (m : Nat)
    (hm : (encodeDevs ds).length ≤ m) :
    decodeDevs ds.length ((encodeDevs ds ++ t).take m) =
      some (ds, t.take (m - (encodeDevs ds).length)) := by
  rw [tornh_take_ge _ _ _ hm, decodeDevs_encodeDevs _ _ h]

theorem tornh_isEmpty_app (a t : Bytes) (h : 0 < a.length) : (a ++ t).isEmpty = false := by
  cases a with
  | nil => simp at h
  | cons x xs => simp

theorem loadReports_torn (rs : List Report) (h : ∀ r ∈ rs, r.WF) (junk : Bytes) (hj : junk.length < 80) :
    loadReportsBytes (encodeReports rs ++ junk) = some rs := by
  unfold loadReportsBytes
  rw [tornh_cut 80 rs.length _ _ (encodeReports_length rs h) hj]
  exact parseReports_encode rs h

theorem loadAuths_torn (as : List Auth) (h : ∀ a ∈ as, a.WF) (junk : Bytes) (hj : junk.length < 148) :
    loadAuthsBytes as.length (encodeAuths as ++ junk) = some as := by
  unfold loadAuthsBytes
  rw [tornh_cut 148 as.length _ _ (tornh_encodeAuths_length as h) hj]
  exact parseAuths_encode as h

/-- A proper prefix of a record is not a record: the stream decoder needs every byte. -/
theorem week_decode1_prefix (w : Week) (h : w.WF) (k : Nat) (hk : k < (Week.encode w).length) :
    Week.decode1 ((Week.encode w).take k) = none := by
  obtain ⟨h1, h2, h3, h4⟩ := h
  have hdl := tornh_encodeDevs_length w.devs h2
  simp only [Week.encode, Week.body, List.length_append, leBytes_length, h4] at hk
  unfold Week.decode1
  by_cases hk4 : k < 4
  · rw [if_pos (by rw [List.length_take]; omega)]
  · rw [if_neg (by simp [Week.encode, Week.body]; omega)]
    simp only [Week.encode, Week.body, List.append_assoc]
    rw [tornh_take_ge _ _ _ (by simp; omega), rd_app _ _ (leBytes_length 4 _)]
    simp only [leBytes_length]
    rw [unle_leBytes_of_lt (by simpa using h1)]
    by_cases hin : k - 4 < (encodeDevs w.devs).length
    · rw [tornh_decodeDevs_short _ h2 _ _ hin]
    · rw [tornh_decodeDevs_long _ h2 _ _ (by omega)]
      simp only
      split
      · rfl
      · rw [if_pos]
        rw [rd_snd_length, List.length_take]
        simp only [List.length_append, leBytes_length, h4]
        omega

theorem loadWeeks_torn (ws : List Week) (h : ∀ w ∈ ws, w.WF) (w : Week) (hw : w.WF) (k : Nat)
    (hk : k < (Week.encode w).length) (fuel : Nat) (hf : ws.length < fuel) :
    loadWeeksBytes fuel (encodeStream ws ++ (Week.encode w).take k) = (ws, (encodeStream ws).length) := by
  induction ws generalizing fuel with
  | nil =>
    cases fuel with
    | zero => simp at hf
    | succ fuel =>
      simp only [encodeStream, List.nil_append, loadWeeksBytes, week_decode1_prefix w hw k hk]
      split <;> rfl
  | cons v ws ih =>
    cases fuel with
    | zero => simp at hf
    | succ fuel =>
      have hv := h v (by simp)
      have ih' := ih (fun x hx => h x (by simp [hx])) fuel (by simpa using hf)
      simp only [encodeStream, List.append_assoc, loadWeeksBytes,
        tornh_isEmpty_app _ _ (Week.encode_length_pos v), Week.decode1_encode v _ hv, ih']
      simp only [List.length_append, Bool.false_eq_true, if_false]
      congr 1
      omega

/-- Without a partial record nothing is dropped. -/
theorem loadWeeks_whole (ws : List Week) (h : ∀ w ∈ ws, w.WF) (fuel : Nat) (hf : ws.length < fuel) :
    loadWeeksBytes fuel (encodeStream ws) = (ws, (encodeStream ws).length) := by
  have hw : (⟨[], 0, zeros 64⟩ : Week).WF := by
    refine ⟨by simp, by simp, by simp, by simp⟩
  have := loadWeeks_torn ws h _ hw 0 (Week.encode_length_pos _) fuel hf
  simpa using this

end Gca.Srv
