import Gca.Server.Model
import Gca.Codec.Report
import Gca.Codec.Auth
import Gca.Codec.Stats
/-
The record-level disk model of C04/C05 versus the bytes in the files: the
server writes `Auth.encode`, `Report.encode`, `Week.encode` records one after
another; at start-up it splits the authorization file into 148-byte chunks
(`buffer.Next(148)`), decodes the report file in 80-byte chunks and decodes the
statistics file with the stream decoder. The parsers below are the strict ones
(they refuse data that does not end on a record boundary); since the repair of
F25 the loaders first drop a partial trailing record, which is `Props/DiskTorn.lean`. These theorems say that parsing the
bytes of a well-formed record-level disk gives back exactly that disk, so the
theorems about `load` on records are theorems about `load` on the real files.
-/
namespace Gca.Srv
open Gca

def encodeAuths : List Auth → Bytes
  | [] => []
  | a :: as => Auth.encode a ++ encodeAuths as

def encodeReports : List Report → Bytes
  | [] => []
  | r :: rs => Report.encode r ++ encodeReports rs

/-- `loadEquipment`'s first loop: chunks of 148 bytes, each must deserialize. -/
def parseAuths : Nat → Bytes → Option (List Auth)
  | 0, b => if b.isEmpty then some [] else none
  | fuel+1, b =>
    if b.isEmpty then some [] else
    match Auth.decode (b.take 148) with
    | none => none
    | some a => match parseAuths fuel (b.drop 148) with
      | none => none
      | some as => some (a :: as)

/-- `loadEquipmentReports`: length must be a multiple of 80, then 80-byte records. -/
def parseReports (b : Bytes) : Option (List Report) :=
  if b.length % 80 ≠ 0 then none else
  (List.range (b.length / 80)).mapM (fun i => Report.decode ((b.drop (80 * i)).take 80))

theorem mapM_range'_some {α} (f : Nat → Option α) (l : List α) (s : Nat)
    (h : ∀ i (hi : i < l.length), f (s + i) = some l[i]) :
    (List.range' s l.length).mapM f = some l := by
  induction l generalizing s with
  | nil => simp
  | cons a l ih =>
    have h0 := h 0 (by simp)
    have ih' := ih (s+1) (fun i hi => by
      have := h (i+1) (by simp; omega)
      simpa [Nat.add_assoc, Nat.add_comm 1 i] using this)
    simp only [List.length_cons, List.range'_succ, List.mapM_cons]
    simp at h0
    rw [h0, ih']
    rfl

theorem encodeReports_length (rs : List Report) (h : ∀ r ∈ rs, r.WF) :
    (encodeReports rs).length = 80 * rs.length := by
  induction rs with
  | nil => rfl
  | cons r rs ih =>
    have := Report.encode_length r (h r (by simp)).2.2.2
    have := ih (fun x hx => h x (by simp [hx]))
    simp only [encodeReports, List.length_append, List.length_cons]
    omega

theorem encodeReports_chunk (rs : List Report) (h : ∀ r ∈ rs, r.WF) (i : Nat) (hi : i < rs.length) :
    ((encodeReports rs).drop (80 * i)).take 80 = Report.encode rs[i] := by
  induction rs generalizing i with
  | nil => simp at hi
  | cons r rs ih =>
    have hl := Report.encode_length r (h r (by simp)).2.2.2
    cases i with
    | zero =>
      simp only [encodeReports, Nat.mul_zero, List.drop_zero, List.getElem_cons_zero]
      rw [take_app _ _ hl]
    | succ i =>
      have e : 80 * (i + 1) = 80 + 80 * i := by omega
      simp only [encodeReports, List.getElem_cons_succ]
      rw [e, ← List.drop_drop, drop_app _ _ hl]
      exact ih (fun x hx => h x (by simp [hx])) i (by simpa using hi)

theorem parseAuths_encode (as : List Auth) (h : ∀ a ∈ as, a.WF) :
    parseAuths as.length (encodeAuths as) = some as := by
  induction as with
  | nil => simp [encodeAuths, parseAuths]
  | cons a as ih =>
    have hl := Auth.encode_length a (h a (by simp))
    have hne : (Auth.encode a ++ encodeAuths as).isEmpty = false := by
      cases hw : Auth.encode a with
      | nil => rw [hw] at hl; simp at hl
      | cons x xs => simp
    simp only [List.length_cons, encodeAuths, parseAuths, hne, take_app _ _ hl, drop_app _ _ hl,
      Auth.decode_encode a (h a (by simp))]
    rw [ih (fun v hv => h v (by simp [hv]))]
    simp

theorem parseReports_encode (rs : List Report) (h : ∀ r ∈ rs, r.WF) :
    parseReports (encodeReports rs) = some rs := by
  unfold parseReports
  have hl := encodeReports_length rs h
  rw [if_neg (by omega)]
  have e : (encodeReports rs).length / 80 = rs.length := by omega
  rw [e, List.range_eq_range']
  apply mapM_range'_some
  intro i hi
  rw [Nat.zero_add, encodeReports_chunk rs h i hi]
  exact Report.decode_encode _ (h _ (by simp))

/-- A torn or foreign report file (length not a multiple of 80) is refused, not misread. -/
theorem parseReports_ragged (b : Bytes) (h : b.length % 80 ≠ 0) : parseReports b = none := by
  unfold parseReports
  rw [if_pos h]

/-- The three logs of a well-formed disk parse back from their bytes. -/
theorem disk_bytes_roundtrip (d : Disk) (ha : ∀ a ∈ d.auths, a.WF) (hr : ∀ r ∈ d.reports, r.WF)
    (hw : ∀ w ∈ d.weeks, w.WF) :
    parseAuths d.auths.length (encodeAuths d.auths) = some d.auths ∧
    parseReports (encodeReports d.reports) = some d.reports ∧
    decodeStream d.weeks.length (encodeStream d.weeks) = some d.weeks := by
  exact ⟨parseAuths_encode d.auths ha, parseReports_encode d.reports hr,
    decodeStream_encodeStream d.weeks hw _ (Nat.le_refl _)⟩

end Gca.Srv
