import Gca.Client.Model
import Gca.Server.Inv
/-
C17 - Server lists and GCA migration follow the GCA's signatures; bans are monotone.
-/
namespace Gca.Cl
open Gca

/-! ### Server side (`authServer`, `migrateOrder`) -/

/-! helper lemmas -/

theorem c17_authServer_ban_kept (V : Srv.Verify) (s : Srv.State) (a : AuthServer) (k : Bytes)
    (h : ∃ e ∈ s.servers, e.key = k ∧ e.banned = true) :
    ∃ e ∈ (Srv.authServer V s a).1.servers, e.key = k ∧ e.banned = true := by
  obtain ⟨e, he, hk, hb⟩ := h
  unfold Srv.authServer
  split
  · exact ⟨e, he, hk, hb⟩
  split
  · exact ⟨e, he, hk, hb⟩
  split
  · split
    · exact ⟨e, he, hk, hb⟩
    split
    · exact ⟨e, he, hk, hb⟩
    · rename_i hab
      by_cases hka : e.key = a.key
      · refine ⟨a, ?_, hka ▸ hk, by simpa using hab⟩
        exact List.mem_map.mpr ⟨e, he, by simp [hka]⟩
      · refine ⟨e, ?_, hk, hb⟩
        exact List.mem_map.mpr ⟨e, he, by simp [hka]⟩
  · exact ⟨e, by simp [he], hk, hb⟩

theorem c17_integrate_servers (cfg : Srv.Cfg) (s s' : Srv.State) (r : Report) (b : Bool)
    (h : Srv.integrate cfg s r = some (s', b)) : s'.servers = s.servers := by
  unfold Srv.integrate at h
  split at h
  · simp at h
  · split at h
    · simp at h
    · simp at h; rw [← h.1]
    · simp at h; rw [← h.1]

theorem c17_dgram_servers (cfg : Srv.Cfg) (V : Srv.Verify) (s : Srv.State) (now : Nat) (d : Bytes) :
    (Srv.dgram cfg V s now d).1.servers = s.servers := by
  unfold Srv.dgram
  split
  · rfl
  split
  · rfl
  split
  · rfl
  split
  · rfl
  split
  · rfl
  · rename_i h; exact c17_integrate_servers _ _ _ _ _ h

theorem c17_register_servers (V : Srv.Verify) (s : Srv.State) (k sig : Bytes) :
    (Srv.register V s k sig).1.servers = s.servers := by
  unfold Srv.register
  split
  · rfl
  split <;> rfl

theorem c17_authorize_servers (cfg : Srv.Cfg) (V : Srv.Verify) (s : Srv.State) (a : Auth) :
    (Srv.authorize cfg V s a).1.servers = s.servers := by
  unfold Srv.authorize
  split
  · rfl
  split
  · rfl
  unfold Srv.saveEquipment
  split
  · rfl
  split
  · split
    · rfl
    · rfl
  · split <;> rfl

theorem c17_rotate_servers (sgn : Bytes → Bytes) (s : Srv.State) :
    (Srv.rotate sgn s).1.servers = s.servers := by
  unfold Srv.rotate
  split <;> rfl

theorem c17_tick_servers (sgn : Bytes → Bytes) (s : Srv.State) (now : Nat) :
    (Srv.tick sgn s now).1.servers = s.servers := by
  unfold Srv.tick
  split
  · exact c17_rotate_servers sgn s
  · rfl

theorem c17_migrate_servers (V : Srv.Verify) (s : Srv.State) (m : Migration) :
    (Srv.migrateOrder V s m).1.servers = s.servers := by
  unfold Srv.migrateOrder
  split
  · rfl
  split <;> rfl

theorem c17_impact_servers (s : Srv.State) (id ts rate : Nat) :
    (Srv.impactWrite s id ts rate).servers = s.servers := by
  unfold Srv.impactWrite
  split
  · rfl
  split <;> rfl

theorem c17_step_ban_kept (cfg : Srv.Cfg) (V : Srv.Verify) (sgn : Bytes → Bytes) (s : Srv.State)
    (op : Srv.Op) (k : Bytes) (hre : ∀ f n, op ≠ .restart f n)
    (h : ∃ e ∈ s.servers, e.key = k ∧ e.banned = true) :
    ∃ e ∈ (Srv.step cfg V sgn s op).1.servers, e.key = k ∧ e.banned = true := by
  cases op with
  | dgram now d => simp only [Srv.step]; rw [c17_dgram_servers]; exact h
  | register key sig => simp only [Srv.step]; rw [c17_register_servers]; exact h
  | authorize a => simp only [Srv.step]; rw [c17_authorize_servers]; exact h
  | rotate => simp only [Srv.step]; rw [c17_rotate_servers]; exact h
  | tick now => simp only [Srv.step]; rw [c17_tick_servers]; exact h
  | restart f n => exact absurd rfl (hre f n)
  | stats tso => exact h
  | sync id => exact h
  | authServer a => exact c17_authServer_ban_kept V s a k h
  | migrate m => simp only [Srv.step]; rw [c17_migrate_servers]; exact h
  | impact id ts rate => simp only [Srv.step]; rw [c17_impact_servers]; exact h

/-- An existing entry is never altered except to become banned (it is then
replaced by the signed banning entry), and banned never reverts; no entry is ever removed.
(Keys in the list are unique in every reachable state: `c17_authServer_keys_unique`.) -/
theorem c17_server_monotone (V : Srv.Verify) (s : Srv.State) (a : AuthServer) (e : AuthServer)
    (hu : ∀ x ∈ s.servers, ∀ y ∈ s.servers, x.key = y.key → x = y)
    (he : e ∈ s.servers) :
    e ∈ (Srv.authServer V s a).1.servers ∨
    (e.banned = false ∧ a.banned = true ∧ a.key = e.key ∧ a ∈ (Srv.authServer V s a).1.servers ∧
      V s.gcaKey (AuthServer.signingBytes a) a.sig = true) := by
  unfold Srv.authServer
  split
  · exact Or.inl he
  split
  · exact Or.inl he
  rename_i hV
  split
  · rename_i e0 hf
    split
    · exact Or.inl he
    split
    · exact Or.inl he
    · rename_i he0 hab
      by_cases hka : e.key = a.key
      · right
        have h0 := List.find?_some hf
        have hm0 := List.mem_of_find?_eq_some hf
        have : e0 = e := hu e0 hm0 e he (by simp at h0; rw [h0, hka])
        subst this
        refine ⟨by simpa using he0, by simpa using hab, hka.symm, ?_, by simpa using hV⟩
        exact List.mem_map.mpr ⟨e0, he, by simp [hka]⟩
      · left
        exact List.mem_map.mpr ⟨e, he, by simp [hka]⟩
  · left; simp [he]

/-- Key uniqueness is preserved by `authServer` (and holds for the empty list a start yields). -/
theorem c17_authServer_keys_unique (V : Srv.Verify) (s : Srv.State) (a : AuthServer)
    (hu : (s.servers.map (·.key)).Nodup) :
    ((Srv.authServer V s a).1.servers.map (·.key)).Nodup := by
  unfold Srv.authServer
  split
  · exact hu
  split
  · exact hu
  split
  · split
    · exact hu
    split
    · exact hu
    · have : (s.servers.map (fun e => if (e.key == a.key) = true then a else e)).map (·.key)
          = s.servers.map (·.key) := by
        rw [List.map_map]
        apply List.map_congr_left
        intro e _
        by_cases hk : e.key = a.key <;> simp [hk]
      show ((s.servers.map (fun e => if (e.key == a.key) = true then a else e)).map (·.key)).Nodup
      rw [this]; exact hu
  · rename_i hf
    simp only [List.map_append, List.map_cons, List.map_nil]
    rw [List.nodup_append]
    refine ⟨hu, by simp, ?_⟩
    intro x hx y hy
    simp at hy
    subst hy
    simp only [List.mem_map] at hx
    obtain ⟨e, he, rfl⟩ := hx
    have := List.find?_eq_none.mp hf e he
    simpa using this

/-! the C17 server theorems -/

/-- A server enters the list only with a valid GCA signature over its key, ban
flag, location and ports (and a location that fits the wire format). -/
theorem c17_server_added_signed (V : Srv.Verify) (s : Srv.State) (a : AuthServer)
    (h : (Srv.authServer V s a).1.servers ≠ s.servers) :
    V s.gcaKey (AuthServer.signingBytes a) a.sig = true ∧ a.loc.length ≤ 255 := by
  unfold Srv.authServer at h
  by_cases h1 : a.loc.length > 255
  · simp [h1] at h
  · by_cases h2 : V s.gcaKey (AuthServer.signingBytes a) a.sig = true
    · exact ⟨h2, by omega⟩
    · simp [h1, h2] at h

/-- Why `c17_server_monotone` carries the key-uniqueness hypothesis (which holds in every
reachable state, `c17_authServer_keys_unique`): without it the statement fails: list `[e1 (not banned), e2 (banned)]`
with one key, a signed banning entry `a` for that key: both become `a`, so `e2` is gone
although it was banned already. -/
example :
    let V : Srv.Verify := fun _ _ _ => true
    let e1 : AuthServer := ⟨zeros 32, false, [1], 1, 1, 1, zeros 64⟩
    let e2 : AuthServer := ⟨zeros 32, true, [2], 2, 2, 2, zeros 64⟩
    let a : AuthServer := ⟨zeros 32, true, [3], 3, 3, 3, zeros 64⟩
    let s : Srv.State := { servers := [e1, e2] }
    e2 ∈ s.servers ∧
    ¬ (e2 ∈ (Srv.authServer V s a).1.servers ∨
      (e2.banned = false ∧ a.banned = true ∧ a.key = e2.key ∧ a ∈ (Srv.authServer V s a).1.servers ∧
        V s.gcaKey (AuthServer.signingBytes a) a.sig = true)) := by decide

/-- Across any sequence of operations (restart excluded: the list is documented
as not yet persisted), a banned key stays banned. -/
theorem c17_server_ban_permanent (cfg : Srv.Cfg) (V : Srv.Verify) (sgn : Bytes → Bytes) (s : Srv.State)
    (ops : List Srv.Op) (k : Bytes) (hre : ∀ op ∈ ops, ∀ f n, op ≠ .restart f n)
    (h : ∃ e ∈ s.servers, e.key = k ∧ e.banned = true) :
    ∃ e ∈ (Srv.run cfg V sgn s ops).1.servers, e.key = k ∧ e.banned = true := by
  induction ops generalizing s with
  | nil => simpa [Srv.run] using h
  | cons op ops ih =>
    simp only [Srv.run]
    exact ih (Srv.step cfg V sgn s op).1 (fun o ho => hre o (by simp [ho]))
      (c17_step_ban_kept cfg V sgn s op k (hre op (by simp)) h)

/-- A migration order is stored only if it verifies under the current GCA and
every new server verifies under the new GCA. -/
theorem c17_migration_signed (V : Srv.Verify) (s : Srv.State) (m : Migration)
    (h : (Srv.migrateOrder V s m).2 = .ok) :
    V s.gcaKey (Migration.signingBytes m) m.sig = true ∧
    ∀ a ∈ m.servers, V m.newGCA (AuthServer.signingBytes a) a.sig = true ∧ a.loc.length ≤ 255 := by
  unfold Srv.migrateOrder at h
  split at h
  · simp at h
  split at h
  · simp at h
  · rename_i h1 h2
    refine ⟨by simpa using h1, ?_⟩
    intro a ha
    simp only [List.any_eq_true, not_exists, not_and] at h2
    have := h2 a ha
    simp at this
    exact ⟨this.2, this.1⟩

/-! ### Client side (`mergeServers`, `adopt`) -/

theorem c17_merge_existing_aux (m : FMap Key CServer) (l : List AuthServer) (k : Key) (e : CServer)
    (h : m.get k = some e) :
    (mergeServers m l).get k = some e ∨
    ∃ a ∈ l, a.key = k ∧ a.banned = true ∧ (mergeServers m l).get k = some (toC a) := by
  induction l generalizing m e with
  | nil => left; simpa [mergeServers] using h
  | cons a as ih =>
    simp only [mergeServers]
    by_cases hk : a.key = k
    · by_cases hb : a.banned = true
      · have hm : ((if (!(FMap.has m a.key) || a.banned) = true then FMap.set m a.key (toC a) else m)).get k
            = some (toC a) := by
          simp [hb, ← hk, FMap.get_set_same]
        rcases ih _ _ hm with h1 | ⟨a', ha', h2, h3, h4⟩
        · exact Or.inr ⟨a, by simp, hk, hb, h1⟩
        · exact Or.inr ⟨a', by simp [ha'], h2, h3, h4⟩
      · have hhas : FMap.has m a.key = true := by simp [FMap.has_eq_isSome, hk, h]
        have hm : ((if (!(FMap.has m a.key) || a.banned) = true then FMap.set m a.key (toC a) else m)) = m := by
          simp [hb, hhas]
        rw [hm]
        rcases ih _ _ h with h1 | ⟨a', ha', h2, h3, h4⟩
        · exact Or.inl h1
        · exact Or.inr ⟨a', by simp [ha'], h2, h3, h4⟩
    · have hm : ((if (!(FMap.has m a.key) || a.banned) = true then FMap.set m a.key (toC a) else m)).get k
          = some e := by
        split
        · rw [FMap.get_set_ne _ _ _ _ hk]; exact h
        · exact h
      rcases ih _ _ hm with h1 | ⟨a', ha', h2, h3, h4⟩
      · exact Or.inl h1
      · exact Or.inr ⟨a', by simp [ha'], h2, h3, h4⟩

theorem c17_ite_none_some {α : Type} {c : Prop} [Decidable c] {x p : α}
    (h : (if c then none else some x) = some p) : x = p := by
  split at h <;> simp_all

/-- Everything `parseReply` establishes about the fixed-offset fields of an accepted reply. -/
theorem c17_parseReply_some {V : Verify} {ck gk sk : Key} {now : Nat} {resp : Bytes} {p : Parsed}
    (h : parseReply V ck gk sk now resp = some p) :
    712 ≤ resp.length ∧ p.off = unle ((resp.drop 32).take 4) ∧ p.bits = (resp.drop 36).take 504 ∧
    p.newGCA = (resp.drop 540).take 32 ∧ p.newId = unle ((resp.drop 572).take 4) ∧
    (p.newGCA ≠ zeros 32 → p.servers ≠ []) := by
  unfold parseReply at h
  dsimp only at h
  split at h
  · simp at h
  split at h
  · simp at h
  split at h
  · simp at h
  split at h
  · simp at h
  split at h
  · simp at h
  split at h
  · simp at h
  split at h
  · simp at h
  rename_i h1 _ _ _ _ _ _ _ h8
  have h := c17_ite_none_some h
  subst h
  refine ⟨by omega, rfl, rfl, rfl, rfl, ?_⟩
  intro hz hs
  exact h8 ⟨hz, hs⟩

/-- Banned never reverts at the client. -/
theorem c17_merge_ban_monotone (m : FMap Key CServer) (l : List AuthServer) (k : Key) (e : CServer)
    (h : m.get k = some e) (hb : e.banned = true) :
    ∃ e', (mergeServers m l).get k = some e' ∧ e'.banned = true := by
  rcases c17_merge_existing_aux m l k e h with h1 | ⟨a, _, _, h3, h4⟩
  · exact ⟨e, h1, hb⟩
  · exact ⟨toC a, h4, by simpa [toC] using h3⟩

/-- An existing entry is kept as it is unless a signed entry for the same key says banned. -/
theorem c17_merge_existing (m : FMap Key CServer) (l : List AuthServer) (k : Key) (e : CServer)
    (h : m.get k = some e) :
    (mergeServers m l).get k = some e ∨
    ∃ a ∈ l, a.key = k ∧ a.banned = true ∧ (mergeServers m l).get k = some (toC a) := by
  exact c17_merge_existing_aux m l k e h

/-- Every entry of the merged map was there before or comes from the (signature-checked) list. -/
theorem c17_merge_origin (m : FMap Key CServer) (l : List AuthServer) (k : Key) (e : CServer)
    (h : (mergeServers m l).get k = some e) :
    m.get k = some e ∨ ∃ a ∈ l, a.key = k ∧ e = toC a := by
  induction l generalizing m with
  | nil => left; simpa [mergeServers] using h
  | cons a as ih =>
    simp only [mergeServers] at h
    rcases ih _ h with h1 | ⟨a', ha', h2, h3⟩
    · split at h1
      · by_cases hk : a.key = k
        · rw [← hk, FMap.get_set_same] at h1
          exact Or.inr ⟨a, by simp, hk, by simpa using h1.symm⟩
        · rw [FMap.get_set_ne _ _ _ _ hk] at h1
          exact Or.inl h1
      · exact Or.inl h1
    · exact Or.inr ⟨a', by simp [ha'], h2, h3⟩

/-- The client changes GCA, device id and (wholesale) server list only on a
reply that carries a new GCA; by `c10_accept_implies_signed` such a reply holds
an order for this device's key signed by the current GCA, with at least one
server, each signed by the new GCA. Otherwise identity is untouched and the
list is merged. -/
theorem c17_adopt_identity (c : Client) (p : Parsed) :
    ((adopt c p).gcaKey ≠ c.gcaKey ∨ (adopt c p).shortId ≠ c.shortId) →
      (p.newGCA ≠ c.gcaKey ∧ p.newGCA ≠ zeros 32 ∧ (adopt c p).gcaKey = p.newGCA ∧
       (adopt c p).shortId = p.newId ∧ (adopt c p).servers = mergeServers [] p.servers) := by
  intro h
  unfold adopt at h ⊢
  split
  · rename_i hc
    exact ⟨hc.1, hc.2, rfl, rfl, rfl⟩
  · rename_i hc
    rw [if_neg hc] at h
    simp at h

/-- What is persisted is exactly what was adopted. -/
theorem c17_persisted_is_adopted (c : Client) (p : Parsed)
    (hd : c.diskGCA = c.gcaKey ∧ c.diskShortId = c.shortId) :
    (adopt c p).diskServers = (adopt c p).servers ∧ (adopt c p).diskGCA = (adopt c p).gcaKey ∧
    (adopt c p).diskShortId = (adopt c p).shortId := by
  unfold adopt
  split
  · exact ⟨rfl, rfl, rfl⟩
  · exact ⟨rfl, hd.1, hd.2⟩

/-- A migration is never adopted with an empty list (the device could not restart). -/
theorem c17_migration_nonempty (V : Verify) (ck gk sk : Key) (now : Nat) (resp : Bytes) (p : Parsed)
    (h : parseReply V ck gk sk now resp = some p) (hm : p.newGCA ≠ zeros 32) : p.servers ≠ [] := by
  exact (c17_parseReply_some h).2.2.2.2.2 hm

example : (mergeServers [(zeros 32, ⟨true, [], 1, 2, 3⟩)] [⟨zeros 32, false, [1], 9, 9, 9, zeros 64⟩]).get (zeros 32)
    = some ⟨true, [], 1, 2, 3⟩ := by decide

end Gca.Cl
