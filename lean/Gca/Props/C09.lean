import Gca.Client.Model
/-
C09 - A device never signs two different reports for the same timeslot.

Store part (full strength): a reading once stored is returned unchanged by
every later read, is never overwritten by a different value, out-of-range
timeslots are refused rather than misplaced, and a save touches only its own slot.

Emission part: the client sends a record only after `save` accepted its value
truncated to 32 bits (tie: the send loop's control flow is checked by the
correspondence run against a UDP sink). Hence all values ever sent for a slot
agree modulo 2^32 - and are equal when they fit 32 signed bits. The full
statement (equal for ALL 64-bit values) is FALSE of the current code: witness
`c09_mod32_witness` (known finding F17: the history file keeps 32 bits).
-/
namespace Gca.Cl

/-- Any sequence of later saves (each may fail or succeed). -/
def saves (h : Hist) : List (Nat × Nat) → Hist
  | [] => h
  | (ts, v) :: r => saves ((h.save ts v).getD h) r

theorem c09_save_then_load (h h' : Hist) (ts v : Nat) (hs : h.save ts v = some h') :
    h'.load ts = some v := by
  sorry

/-- A stored non-zero reading is returned unchanged by every later read, whatever is saved afterwards. -/
theorem c09_store_stable (h h' : Hist) (ts v : Nat) (hv : v ≠ 0) (hs : h.save ts v = some h')
    (later : List (Nat × Nat)) : (saves h' later).load ts = some v := by
  sorry

/-- An occupied slot refuses a different value and the store is unchanged. -/
theorem c09_no_overwrite (h : Hist) (ts v w : Nat) (hl : h.load ts = some v) (hv : v ≠ 0) (hw : w ≠ v) :
    h.save ts w = none := by
  sorry

/-- Timeslots before the origin and beyond the addressable range are refused. -/
theorem c09_range (h : Hist) (ts v : Nat) (hr : ts < h.origin ∨ ts - h.origin ≥ maxHistorySlots) :
    h.save ts v = none := by
  sorry

/-- A save changes only its own slot. -/
theorem c09_frame (h h' : Hist) (ts v ts' : Nat) (hs : h.save ts v = some h') (hne : ts' ≠ ts) :
    h'.load ts' = h.load ts' ∧ h'.origin = h.origin := by
  sorry

/-- The byte offset of an accepted slot fits 32 bits (so the Go `uint32`
arithmetic `4*(1+ts-origin)` is exact): tie `save_offset`/`load_offset`. -/
theorem c09_offset_fits (h : Hist) (ts : Nat) (hlo : h.origin ≤ ts) (hr : ts - h.origin < maxHistorySlots) :
    4 * (1 + (ts - h.origin)) < 2^32 := by
  unfold maxHistorySlots at hr; omega

/-- Emission: the values the client may send for a slot, given the sequence of
candidate 64-bit values `cands` offered for it over time (rows of successive
energy-file contents, in the order they are processed): a candidate is sent iff
saving its low 32 bits succeeds. -/
def emitted (h : Hist) (ts : Nat) : List Nat → List Nat
  | [] => []
  | e :: r => match h.save ts (e % 2^32) with
    | some h' => e :: emitted h' ts r
    | none => emitted h ts r

/-- All emitted values that the server acts on agree modulo 2^32 with the first accepted reading. -/
theorem c09_no_equivocation_partial (h : Hist) (ts : Nat) (cands : List Nat) (a b : Nat)
    (ha : a ∈ emitted h ts cands) (hb : b ∈ emitted h ts cands)
    (ha0 : a % 2^32 ≠ 0) (hb0 : b % 2^32 ≠ 0) : a % 2^32 = b % 2^32 := by
  sorry

/-- ... hence identical when the readings fit 32 signed bits (two's complement in 64 bits). -/
theorem c09_no_equivocation_fits (h : Hist) (ts : Nat) (cands : List Nat) (a b : Nat)
    (ha : a ∈ emitted h ts cands) (hb : b ∈ emitted h ts cands)
    (ha0 : a % 2^32 ≠ 0) (hb0 : b % 2^32 ≠ 0)
    (fa : a < 2^31 ∨ 2^64 - 2^31 ≤ a ∧ a < 2^64) (fb : b < 2^31 ∨ 2^64 - 2^31 ≤ b ∧ b < 2^64) : a = b := by
  sorry

/-- The unrestricted statement is false: 500 and 4294967796 are both emitted for one slot (F17). -/
theorem c09_mod32_witness :
    emitted ⟨0, []⟩ 7 [500, 4294967796] = [500, 4294967796] := by decide

/-- Non-vacuity: a store with a gap; saving far ahead extends the file with zeros. -/
example : (Hist.save ⟨100, [5]⟩ 103 9) = some ⟨100, [5, 0, 0, 9]⟩ ∧ (Hist.save ⟨100, [5]⟩ 100 6) = none ∧
    (Hist.save ⟨100, [5]⟩ 99 6) = none ∧ Hist.load ⟨100, [5]⟩ 5000 = some 0 := by decide

end Gca.Cl
