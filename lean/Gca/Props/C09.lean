import Gca.Client.Model
/-
C09 - A device never signs two different reports for the same timeslot.

Store part (full strength): a reading once stored is returned unchanged by
every later read, is never overwritten by a different value, out-of-range
timeslots are refused rather than misplaced, and a save touches only its own slot.

Emission part: the client sends a record only after `save` accepted its value
truncated to 32 bits (tie: the send loop's control flow is checked by the
correspondence run against a UDP sink). Hence all values ever sent for a slot
agree modulo 2^32 - and are equal when they fit 32 signed bits. The full
statement (equal for ALL 64-bit values) is FALSE of the current code: witness
`c09_mod32_witness` (known finding F17: the history file keeps 32 bits).
-/
namespace Gca.Cl

/-- Any sequence of later saves (each may fail or succeed). -/
def saves (h : Hist) : List (Nat × Nat) → Hist
  | [] => h
  | (ts, v) :: r => saves ((h.save ts v).getD h) r


theorem getD_writeSlot_self (l : List Nat) (i v : Nat) : (writeSlot l i v).getD i 0 = v := by
  unfold writeSlot
  split
  · simp [List.getD_eq_getElem?_getD, *]
  · simp [List.getD_eq_getElem?_getD, List.getElem?_append]
    grind

theorem getD_writeSlot_ne (l : List Nat) (i j v : Nat) (h : j ≠ i) :
    (writeSlot l i v).getD j 0 = l.getD j 0 := by
  unfold writeSlot
  split
  · simp [List.getD_eq_getElem?_getD, List.getElem?_set, *]; grind
  · simp [List.getD_eq_getElem?_getD, List.getElem?_append, List.getElem?_replicate]
    grind

theorem load_in (h : Hist) (ts : Nat) (h1 : h.origin ≤ ts) (h2 : ts - h.origin < maxHistorySlots) :
    h.load ts = some (h.slots.getD (ts - h.origin) 0) := by
  unfold Hist.load
  rw [if_neg (by omega), if_neg (by omega)]

/-- Shape of a successful save. -/
theorem save_some (h h' : Hist) (ts v : Nat) (hs : h.save ts v = some h') :
    h.origin ≤ ts ∧ ts - h.origin < maxHistorySlots ∧
      ((h' = h ∧ h.slots.getD (ts - h.origin) 0 = v) ∨
       (h.slots.getD (ts - h.origin) 0 = 0 ∧
        h' = { h with slots := writeSlot h.slots (ts - h.origin) v })) := by
  unfold Hist.save at hs
  by_cases h1 : ts < h.origin
  · rw [if_pos h1] at hs; simp at hs
  rw [if_neg h1] at hs
  by_cases h2 : ts - h.origin ≥ maxHistorySlots
  · rw [if_pos h2] at hs; simp at hs
  rw [if_neg h2, load_in h ts (by omega) (by omega)] at hs
  refine ⟨by omega, by omega, ?_⟩
  simp only at hs
  by_cases h3 : h.slots.getD (ts - h.origin) 0 = v
  · rw [if_pos h3] at hs
    left
    simp only [Option.some.injEq] at hs
    exact ⟨hs.symm, h3⟩
  · rw [if_neg h3] at hs
    by_cases h4 : h.slots.getD (ts - h.origin) 0 ≠ 0
    · rw [if_pos h4] at hs; simp at hs
    · rw [if_neg h4] at hs
      right
      simp only [Option.some.injEq] at hs
      exact ⟨by omega, hs.symm⟩

/-- A save changes only its own slot. -/
theorem save_frame (h h' : Hist) (ts v ts' : Nat) (hs : h.save ts v = some h') (hne : ts' ≠ ts) :
    h'.load ts' = h.load ts' ∧ h'.origin = h.origin := by
  obtain ⟨h1, h2, h3⟩ := save_some h h' ts v hs
  rcases h3 with ⟨rfl, _⟩ | ⟨_, rfl⟩
  · exact ⟨rfl, rfl⟩
  · refine ⟨?_, rfl⟩
    unfold Hist.load
    simp only
    split
    · rfl
    · split
      · rfl
      · rw [getD_writeSlot_ne _ _ _ _ (by omega)]

theorem c09_save_then_load (h h' : Hist) (ts v : Nat) (hs : h.save ts v = some h') :
    h'.load ts = some v := by
  obtain ⟨h1, h2, h3⟩ := save_some h h' ts v hs
  rcases h3 with ⟨rfl, e⟩ | ⟨_, rfl⟩
  · rw [load_in _ _ h1 h2, e]
  · have := load_in ⟨h.origin, writeSlot h.slots (ts - h.origin) v⟩ ts h1 h2
    rw [this]
    simp only [getD_writeSlot_self]

/-- A non-zero reading survives any single later save attempt. -/
theorem save_preserves (h h' : Hist) (ts v ts' v' : Nat) (hl : h.load ts = some v) (hv : v ≠ 0)
    (hs : h.save ts' v' = some h') : h'.load ts = some v := by
  by_cases hne : ts = ts'
  · subst hne
    obtain ⟨h1, h2, h3⟩ := save_some h h' ts v' hs
    rw [load_in _ _ h1 h2] at hl
    simp only [Option.some.injEq] at hl
    rcases h3 with ⟨rfl, _⟩ | ⟨e, _⟩
    · rw [load_in _ _ h1 h2, hl]
    · omega
  · rw [(save_frame h h' ts' v' ts hs hne).1, hl]

theorem saves_stable (h : Hist) (ts v : Nat) (hv : v ≠ 0) (hl : h.load ts = some v)
    (later : List (Nat × Nat)) : (saves h later).load ts = some v := by
  induction later generalizing h with
  | nil => exact hl
  | cons p r ih =>
    obtain ⟨ts', v'⟩ := p
    unfold saves
    cases hs : h.save ts' v' with
    | none => exact ih h hl
    | some h'' => exact ih h'' (save_preserves h h'' ts v ts' v' hl hv hs)

/-- A stored non-zero reading is returned unchanged by every later read, whatever is saved afterwards. -/
theorem c09_store_stable (h h' : Hist) (ts v : Nat) (hv : v ≠ 0) (hs : h.save ts v = some h')
    (later : List (Nat × Nat)) : (saves h' later).load ts = some v := by
  exact saves_stable h' ts v hv (c09_save_then_load h h' ts v hs) later

/-- An occupied slot refuses a different value and the store is unchanged. -/
theorem c09_no_overwrite (h : Hist) (ts v w : Nat) (hl : h.load ts = some v) (hv : v ≠ 0) (hw : w ≠ v) :
    h.save ts w = none := by
  cases hs : h.save ts w with
  | none => rfl
  | some h' =>
    obtain ⟨h1, h2, h3⟩ := save_some h h' ts w hs
    rw [load_in _ _ h1 h2] at hl
    simp only [Option.some.injEq] at hl
    rcases h3 with ⟨_, e⟩ | ⟨e, _⟩ <;> omega

/-- Timeslots before the origin and beyond the addressable range are refused. -/
theorem c09_range (h : Hist) (ts v : Nat) (hr : ts < h.origin ∨ ts - h.origin ≥ maxHistorySlots) :
    h.save ts v = none := by
  unfold Hist.save
  rcases hr with hr | hr
  · rw [if_pos hr]
  · split
    · rfl
    · rfl

/-- A save changes only its own slot. -/
theorem c09_frame (h h' : Hist) (ts v ts' : Nat) (hs : h.save ts v = some h') (hne : ts' ≠ ts) :
    h'.load ts' = h.load ts' ∧ h'.origin = h.origin := by
  exact save_frame h h' ts v ts' hs hne

/-- The byte offset of an accepted slot fits 32 bits (so the Go `uint32`
arithmetic `4*(1+ts-origin)` is exact): tie `save_offset`/`load_offset`. -/
theorem c09_offset_fits (h : Hist) (ts : Nat) (hlo : h.origin ≤ ts) (hr : ts - h.origin < maxHistorySlots) :
    4 * (1 + (ts - h.origin)) < 2^32 := by
  unfold maxHistorySlots at hr; omega

/-- Emission: the values the client may send for a slot, given the sequence of
candidate 64-bit values `cands` offered for it over time (rows of successive
energy-file contents, in the order they are processed): a candidate is sent iff
saving its low 32 bits succeeds. -/
def emitted (h : Hist) (ts : Nat) : List Nat → List Nat
  | [] => []
  | e :: r => match h.save ts (e % 2^32) with
    | some h' => e :: emitted h' ts r
    | none => emitted h ts r

/-- Once a non-zero value is stored for the slot, only candidates with those low 32 bits are emitted. -/
theorem emitted_occupied (h : Hist) (ts m : Nat) (hm : m ≠ 0) (hl : h.load ts = some m)
    (cands : List Nat) : ∀ x ∈ emitted h ts cands, x % 2^32 = m := by
  induction cands with
  | nil => simp [emitted]
  | cons e r ih =>
    intro x hx
    unfold emitted at hx
    cases hs : h.save ts (e % 2^32) with
    | none =>
      rw [hs] at hx
      exact ih x hx
    | some h' =>
      rw [hs] at hx
      obtain ⟨h1, h2, h3⟩ := save_some h h' ts _ hs
      rw [load_in _ _ h1 h2] at hl
      simp only [Option.some.injEq] at hl
      rcases h3 with ⟨rfl, e1⟩ | ⟨e1, _⟩
      · simp only [List.mem_cons] at hx
        rcases hx with rfl | hx
        · omega
        · exact ih x hx
      · omega

/-- All emitted values that the server acts on agree modulo 2^32 with the first accepted reading. -/
theorem c09_no_equivocation_partial (h : Hist) (ts : Nat) (cands : List Nat) (a b : Nat)
    (ha : a ∈ emitted h ts cands) (hb : b ∈ emitted h ts cands)
    (ha0 : a % 2^32 ≠ 0) (hb0 : b % 2^32 ≠ 0) : a % 2^32 = b % 2^32 := by
  induction cands generalizing h with
  | nil => simp [emitted] at ha
  | cons e r ih =>
    unfold emitted at ha hb
    cases hs : h.save ts (e % 2^32) with
    | none =>
      rw [hs] at ha hb
      exact ih h ha hb
    | some h' =>
      rw [hs] at ha hb
      simp only [List.mem_cons] at ha hb
      have hl := c09_save_then_load h h' ts _ hs
      by_cases he : e % 2^32 = 0
      · have ha' : a ∈ emitted h' ts r := by
          rcases ha with rfl | ha
          · exact absurd he ha0
          · exact ha
        have hb' : b ∈ emitted h' ts r := by
          rcases hb with rfl | hb
          · exact absurd he hb0
          · exact hb
        exact ih h' ha' hb'
      · have key := emitted_occupied h' ts _ he hl r
        have ea : a % 2^32 = e % 2^32 := by
          rcases ha with rfl | ha
          · rfl
          · exact key a ha
        have eb : b % 2^32 = e % 2^32 := by
          rcases hb with rfl | hb
          · rfl
          · exact key b hb
        rw [ea, eb]

/-- ... hence identical when the readings fit 32 signed bits (two's complement in 64 bits). -/
theorem c09_no_equivocation_fits (h : Hist) (ts : Nat) (cands : List Nat) (a b : Nat)
    (ha : a ∈ emitted h ts cands) (hb : b ∈ emitted h ts cands)
    (ha0 : a % 2^32 ≠ 0) (hb0 : b % 2^32 ≠ 0)
    (fa : a < 2^31 ∨ 2^64 - 2^31 ≤ a ∧ a < 2^64) (fb : b < 2^31 ∨ 2^64 - 2^31 ≤ b ∧ b < 2^64) : a = b := by
  have := c09_no_equivocation_partial h ts cands a b ha hb ha0 hb0
  omega

/-- The unrestricted statement is false: 500 and 4294967796 are both emitted for one slot (F17). -/
theorem c09_mod32_witness :
    emitted ⟨0, []⟩ 7 [500, 4294967796] = [500, 4294967796] := by decide

/-- Non-vacuity: a store with a gap; saving far ahead extends the file with zeros. -/
example : (Hist.save ⟨100, [5]⟩ 103 9) = some ⟨100, [5, 0, 0, 9]⟩ ∧ (Hist.save ⟨100, [5]⟩ 100 6) = none ∧
    (Hist.save ⟨100, [5]⟩ 99 6) = none ∧ Hist.load ⟨100, [5]⟩ 5000 = some 0 := by decide

end Gca.Cl

namespace Gca.Cl

/-! ### Emission at the level of the reporting loop -/

/-- One event in the life of the client: a start (or restart) on the current
energy-file records, or one loop iteration on the records just read. -/
inductive LoopEv where
  | start (recs : List Record)
  | iter (recs : List Record)

/-- Everything the client sends over a sequence of events (store and `latest` threaded through;
a restart re-reads `latest` from the records it manages to save, as `launchSendReports` does). -/
def sentOver : Hist → Nat → List LoopEv → List Record
  | _, _, [] => []
  | h, _, .start recs :: evs => let (h', l) := startup h recs; sentOver h' l evs
  | h, latest, .iter recs :: evs =>
    let (h', l, sent) := loopIter h latest recs
    sent ++ sentOver h' l evs

/-- For the timeslot `t`: every non-zero (mod 2^32) record of `S` for `t` is what the store holds at `t`. -/
def SentGood (t : Nat) (h : Hist) (S : List Record) : Prop :=
  ∀ r ∈ S, r.ts = t → r.energy % 2^32 ≠ 0 → h.load t = some (r.energy % 2^32)

theorem SentGood.save {t : Nat} {h h' : Hist} {S : List Record} (hg : SentGood t h S) (ts v : Nat)
    (hs : h.save ts v = some h') : SentGood t h' S := by
  intro r hr ht h0
  exact save_preserves h h' t _ ts v (hg r hr ht h0) h0 hs

theorem SentGood.agree {t : Nat} {h : Hist} {S : List Record} (hg : SentGood t h S) (a b : Record)
    (ha : a ∈ S) (hb : b ∈ S) (hat : a.ts = t) (hbt : b.ts = t)
    (ha0 : a.energy % 2^32 ≠ 0) (hb0 : b.energy % 2^32 ≠ 0) : a.energy % 2^32 = b.energy % 2^32 := by
  have h1 := hg a ha hat ha0
  have h2 := hg b hb hbt hb0
  rw [h1] at h2
  exact Option.some.inj h2

/-- The step of the fold in `loopIter`. -/
def iterStep (latest : Nat) (acc : Hist × List Record) (r : Record) : Hist × List Record :=
  match acc.1.save r.ts (r.energy % 2^32) with
  | none => acc
  | some h' => (h', if r.ts > latest then acc.2 ++ [r] else acc.2)

theorem loopIter_eq (h : Hist) (latest : Nat) (recs : List Record) :
    loopIter h latest recs =
      ((recs.foldl (iterStep latest) (h, [])).1,
       recs.foldl (fun l r => if r.ts > l then r.ts else l) latest,
       (recs.foldl (iterStep latest) (h, [])).2) := rfl

theorem iterFold_good (t latest : Nat) (S : List Record) (recs : List Record) (acc : Hist × List Record)
    (hg : SentGood t acc.1 (S ++ acc.2)) :
    SentGood t (recs.foldl (iterStep latest) acc).1 (S ++ (recs.foldl (iterStep latest) acc).2) := by
  induction recs generalizing acc with
  | nil => exact hg
  | cons r rs ih =>
    rw [List.foldl_cons]
    apply ih
    unfold iterStep
    cases hs : acc.1.save r.ts (r.energy % 2^32) with
    | none => exact hg
    | some h' =>
      have hg' := hg.save _ _ hs
      simp only
      split
      · intro x hx ht h0
        rw [← List.append_assoc, List.mem_append, List.mem_singleton] at hx
        rcases hx with hx | rfl
        · exact hg' x hx ht h0
        · rw [← ht]; exact c09_save_then_load _ _ _ _ hs
      · exact hg'

/-- The step of the fold in `startup`. -/
def startStep (acc : Hist × Nat) (r : Record) : Hist × Nat :=
  match acc.1.save r.ts (r.energy % 2^32) with
  | none => acc
  | some h' => (h', if r.ts > acc.2 then r.ts else acc.2)

theorem startup_eq (h : Hist) (recs : List Record) : startup h recs = recs.foldl startStep (h, 0) := rfl

theorem startFold_good (t : Nat) (S : List Record) (recs : List Record) (acc : Hist × Nat)
    (hg : SentGood t acc.1 S) : SentGood t (recs.foldl startStep acc).1 S := by
  induction recs generalizing acc with
  | nil => exact hg
  | cons r rs ih =>
    rw [List.foldl_cons]
    apply ih
    unfold startStep
    cases hs : acc.1.save r.ts (r.energy % 2^32) with
    | none => exact hg
    | some h' => exact hg.save _ _ hs

theorem sentOver_good (t : Nat) (evs : List LoopEv) (h : Hist) (latest : Nat) (S : List Record)
    (hg : SentGood t h S) (a b : Record)
    (ha : a ∈ S ++ sentOver h latest evs) (hb : b ∈ S ++ sentOver h latest evs)
    (hat : a.ts = t) (hbt : b.ts = t)
    (ha0 : a.energy % 2^32 ≠ 0) (hb0 : b.energy % 2^32 ≠ 0) : a.energy % 2^32 = b.energy % 2^32 := by
  induction evs generalizing h latest S with
  | nil =>
    simp only [sentOver, List.append_nil] at ha hb
    exact hg.agree a b ha hb hat hbt ha0 hb0
  | cons ev evs ih =>
    cases ev with
    | start recs =>
      simp only [sentOver] at ha hb
      have hg' := startFold_good t S recs (h, 0) hg
      rw [← startup_eq] at hg'
      exact ih _ _ S hg' ha hb
    | iter recs =>
      simp only [sentOver, ← List.append_assoc] at ha hb
      have hg' := iterFold_good t latest S recs (h, []) (by simpa using hg)
      exact ih _ _ _ hg' ha hb

/-- Over any evolution of the energy file and any restarts, all records the client
sends for one timeslot whose low 32 bits are non-zero agree modulo 2^32 - and are
therefore identical when the values fit 32 signed bits. -/
theorem c09_loop_no_equivocation (h : Hist) (latest : Nat) (evs : List LoopEv) (a b : Record)
    (ha : a ∈ sentOver h latest evs) (hb : b ∈ sentOver h latest evs) (hts : a.ts = b.ts)
    (ha0 : a.energy % 2^32 ≠ 0) (hb0 : b.energy % 2^32 ≠ 0) : a.energy % 2^32 = b.energy % 2^32 := by
  exact sentOver_good b.ts evs h latest [] (fun _ hr => by simp at hr) a b (by simpa using ha)
    (by simpa using hb) hts rfl ha0 hb0

/-- Nothing is sent for a value the store refused: every sent record's low 32 bits are what the store holds. -/
theorem c09_sent_is_stored (h : Hist) (latest : Nat) (recs : List Record) (r : Record)
    (hr : r ∈ (loopIter h latest recs).2.2) :
    (loopIter h latest recs).1.load r.ts = some (r.energy % 2^32) ∨ r.energy % 2^32 = 0 := by
  rw [loopIter_eq] at hr ⊢
  have hg := iterFold_good r.ts latest [] recs (h, []) (fun _ hr => by simp at hr)
  by_cases h0 : r.energy % 2^32 = 0
  · exact Or.inr h0
  · exact Or.inl (hg r (by simpa using hr) rfl h0)

end Gca.Cl
