import Gca.Server.Inv
import Gca.Props.C02
import Gca.Props.C01
/-
C13 (continued) - the week rotation commutes with every datagram whose report lies in the SECOND week
of the window (or that is refused for its own sake). The parallel-burst job of the harness writes a burst
that contains the rotation as one sequential history, with the rotation placed right after the last
logged report of the week being archived; every later logged report lies in the second week, and this
statement is that it makes no difference on which side of the rotation such a report is placed.
-/
namespace Gca.Srv
open Gca

/-! ### Helper lemmas: the rotation as a key-preserving map over the devices -/

theorem c13r_set_mapVal {κ α β : Type} [DecidableEq κ] (m : FMap κ α) (f : α → β) (k : κ) (v : α) :
    ((FMap.set m k v).map (fun p => (p.1, f p.2)) : FMap κ β) =
      FMap.set (m.map (fun p => (p.1, f p.2)) : FMap κ β) k (f v) := by
  induction m with
  | nil => rfl
  | cons p r ih =>
    obtain ⟨k', v'⟩ := p
    by_cases h : k' = k <;> simp [FMap.set, h, ih]

theorem c13r_set_map_same {κ α β : Type} [DecidableEq κ] (m : FMap κ α) (g : α → β) (k : κ) (v v' : α)
    (hg : FMap.get m k = some v) (he : g v' = g v) :
    (FMap.set m k v').map (fun p => g p.2) = m.map (fun p => g p.2) := by
  induction m with
  | nil => simp at hg
  | cons p r ih =>
    obtain ⟨k', v0⟩ := p
    by_cases h : k' = k
    · simp [FMap.get, h] at hg
      simp [FMap.set, h, hg, he]
    · simp [FMap.get, h] at hg
      simp [FMap.set, h, ih hg]

theorem c13r_shiftList_set {α} (b : α) (l : List α) (i : Nat) (x : α) (hl : l.length = window)
    (h1 : week ≤ i) (h2 : i < window) :
    shiftList b (l.set i x) = (shiftList b l).set (i - week) x := by
  unfold shiftList
  have hd : i - week < (l.drop week).length := by simp [hl]; omega
  rw [List.drop_set, if_neg (by omega), List.set_append, if_pos hd]

theorem c13r_take_set {α} (l : List α) (i : Nat) (x : α) (h1 : week ≤ i) :
    (l.set i x).take week = l.take week := by
  rw [List.take_set]
  apply List.set_eq_of_length_le
  simp; omega

theorem c13r_integrateDev_form {off : Nat} {d d' : Dev} {r : Report} {b : Bool}
    (h : integrateDev off d r = some (d', b)) :
    d' = d ∨ ∃ x, d' = { d with reports := d.reports.set (r.ts - off) x } := by
  unfold integrateDev at h
  split at h
  · cases h; simp
  split at h
  · cases h; simp
  split at h
  · cases h
  split at h
  · cases h; simp
  split at h
  · cases h; simp
  cases h
  exact Or.inr ⟨_, rfl⟩

theorem c13r_devStats_keep {off : Nat} {d d' : Dev} {r : Report} {b : Bool}
    (h : integrateDev off d r = some (d', b)) (hlo : off + week ≤ r.ts) :
    devStats 0 d' = devStats 0 d := by
  rcases c13r_integrateDev_form h with rfl | ⟨x, rfl⟩
  · rfl
  · simp only [devStats, List.drop_zero]
    rw [c13r_take_set _ _ _ (by omega)]

theorem c13r_integrateDev_shift (off : Nat) (d : Dev) (r : Report) (hlen : d.reports.length = window)
    (hlo : off + week ≤ r.ts) (hhi : r.ts < off + window) :
    integrateDev (off + week) (shiftDev d) r = (integrateDev off d r).map (fun q => (shiftDev q.1, q.2)) := by
  have hi : r.ts - off < d.reports.length := by rw [hlen]; omega
  have hget : d.reports[r.ts - off]? = some d.reports[r.ts - off] := List.getElem?_eq_getElem hi
  have hww : window = week + week := rfl
  have hget2 : (shiftList Report.zero d.reports)[r.ts - (off + week)]? = some d.reports[r.ts - off] := by
    unfold shiftList
    have hd : (d.reports.drop week).length = week := by simp [hlen, window, week]
    rw [List.getElem?_append_left (by omega), List.getElem?_drop, ← hget]
    have e : week + (r.ts - (off + week)) = r.ts - off := by omega
    rw [e]
  have h1 : ¬ r.ts < off + week := by omega
  have h2 : ¬ r.ts ≥ off + week + window := by omega
  have h3 : ¬ r.ts < off := by omega
  have h4 : ¬ r.ts ≥ off + window := by omega
  simp only [integrateDev, shiftDev, h1, h2, h3, h4, if_false, hget, hget2]
  generalize d.reports[r.ts - off] = slot
  by_cases hb : slot.p = 1
  · simp [hb]
  · by_cases he : slot = r
    · simp [he]
    · simp only [hb, he, if_false, Option.map_some]
      rw [c13r_shiftList_set _ _ (r.ts - off) _ hlen (by omega) (by omega)]
      have : r.ts - off - week = r.ts - (off + week) := by omega
      rw [this]
      rfl

/-- The week archived by a rotation at offset `off` of the device map `devs`. -/
def c13r_W (sgn : Bytes → Bytes) (devs : FMap Nat Dev) (off : Nat) : Week :=
  { devs := devs.map (fun p => devStats 0 p.2), tso := off,
    sig := sgn (Week.signingBytes ⟨devs.map (fun p => devStats 0 p.2), off, []⟩) }

theorem c13r_rotate_eq (sgn : Bytes → Bytes) (s : State) (h0 : s.off % week = 0) :
    rotate sgn s = ({ s with
              history := s.history ++ [c13r_W sgn s.devices s.off],
              disk := { s.disk with weeks := s.disk.weeks ++ [c13r_W sgn s.devices s.off] },
              devices := s.devices.map (fun p => (p.1, shiftDev p.2)),
              off := s.off + week }, .ok) := by
  have hne : ¬ s.off = s.off + week := by unfold week; omega
  unfold rotate buildStats
  rw [if_neg (by simp [h0]), if_neg (Nat.lt_irrefl _), if_neg (by omega)]
  simp only [if_neg hne]
  rfl

theorem c13r_off_mod {s : State} (hinv : Inv s) : s.off % week = 0 := by
  rw [hinv.offHist]; exact Nat.mul_mod_right _ _

theorem c13r_integrate_rot (cfg : Cfg) (sgn : Bytes → Bytes) (s : State) (r : Report) (hinv : Inv s)
    (hlo : s.off + week ≤ r.ts) (hhi : r.ts < s.off + window) :
    integrate cfg (rotate sgn s).1 r = (integrate cfg s r).map (fun q => ((rotate sgn q.1).1, q.2)) := by
  have h0 := c13r_off_mod hinv
  cases hg : s.devices.get r.id with
  | none =>
    rw [c13r_rotate_eq sgn s h0]
    simp [integrate, FMap.get_mapVal, hg]
  | some dv =>
    have hlen := (hinv.devOk _ _ hg).2.1
    have hsh := c13r_integrateDev_shift s.off dv r hlen hlo hhi
    cases hi : integrateDev s.off dv r with
    | none =>
      rw [hi] at hsh
      rw [c13r_rotate_eq sgn s h0]
      simp [integrate, FMap.get_mapVal, hg, hi, hsh]
    | some q =>
      obtain ⟨d', b⟩ := q
      rw [hi] at hsh
      cases b with
      | false =>
        have e1 : integrate cfg s r = some (s, false) := by simp [integrate, hg, hi]
        rw [e1]
        simp only [Option.map_some]
        rw [c13r_rotate_eq sgn s h0]
        simp [integrate, FMap.get_mapVal, hg, hsh]
      | true =>
        have e1 : ∃ s', integrate cfg s r = some (s', true) ∧ s' = ({ s with
              devices := s.devices.set r.id d',
              recentR := pushRecent cfg.maxRecent s.recentR r,
              disk := { s.disk with reports := s.disk.reports ++ [r] } } : State) :=
          ⟨_, by simp [integrate, hg, hi], rfl⟩
        obtain ⟨s', e1, hs'⟩ := e1
        have h0' : s'.off % week = 0 := by rw [hs']; exact h0
        rw [e1]
        simp only [Option.map_some]
        rw [c13r_rotate_eq sgn s h0, c13r_rotate_eq sgn s' h0']
        subst hs'
        have hW : c13r_W sgn (s.devices.set r.id d') s.off = c13r_W sgn s.devices s.off := by
          unfold c13r_W
          rw [c13r_set_map_same s.devices (devStats 0) r.id dv d' hg (c13r_devStats_keep hi hlo)]
        simp only [hW, c13r_set_mapVal]
        simp [integrate, FMap.get_mapVal, hg, hsh]

theorem c13r_parseReport_rot (V : Verify) (sgn : Bytes → Bytes) (s : State) (b : Bytes) (hinv : Inv s) :
    parseReport V (rotate sgn s).1 b = parseReport V s b := by
  rw [c13r_rotate_eq sgn s (c13r_off_mod hinv)]
  unfold parseReport
  cases Report.decode b with
  | none => rfl
  | some r =>
    simp only [FMap.get_mapVal]
    cases s.devices.get r.id with
    | none => rfl
    | some dv => rfl

/-- Both sides of the commutation at once. -/
theorem c13r_dgram_rot (cfg : Cfg) (V : Verify) (sgn : Bytes → Bytes) (s : State) (now : Nat) (d : Bytes)
    (hinv : Inv s)
    (h2 : ∀ r, Report.decode (d.take 80) = some r → s.off + week ≤ r.ts ∧ r.ts < s.off + window) :
    dgram cfg V (rotate sgn s).1 now d = ((rotate sgn (dgram cfg V s now d).1).1, (dgram cfg V s now d).2) := by
  unfold dgram
  by_cases hl : d.length < 80
  · simp only [hl, if_true]
  · simp only [hl, if_false]
    rw [c13r_parseReport_rot V sgn s _ hinv]
    cases hp : parseReport V s (d.take 80) with
    | none => rfl
    | some r =>
      simp only
      obtain ⟨hd, _⟩ := c01h_parseReport_some hp
      obtain ⟨hlo, hhi⟩ := h2 r hd
      by_cases ht : (r.ts : Int) < (now : Int) - 432 ∨ (r.ts : Int) > (now : Int) + 432
      · simp only [ht, if_true]
      · simp only [ht, if_false]
        by_cases hp0 : r.p = 0 ∨ r.p = 1
        · simp only [hp0, if_true]
        · simp only [hp0, if_false]
          rw [c13r_integrate_rot cfg sgn s r hinv hlo hhi]
          cases integrate cfg s r with
          | none => rfl
          | some q => rfl

/-- Exact commutation on the whole state (memory, recent lists, disk). -/
theorem c13_rotate_commutes (cfg : Cfg) (V : Verify) (sgn : Bytes → Bytes) (s : State) (now : Nat) (d : Bytes)
    (hinv : Inv s)
    (h2 : ∀ r, Report.decode (d.take 80) = some r → s.off + week ≤ r.ts ∧ r.ts < s.off + window) :
    (dgram cfg V (rotate sgn s).1 now d).1 = (rotate sgn (dgram cfg V s now d).1).1 := by
  have h := c13r_dgram_rot cfg V sgn s now d hinv h2
  rw [h]

/-- ... and the datagram is answered the same way on either side. -/
theorem c13_rotate_commutes_out (cfg : Cfg) (V : Verify) (sgn : Bytes → Bytes) (s : State) (now : Nat) (d : Bytes)
    (hinv : Inv s)
    (h2 : ∀ r, Report.decode (d.take 80) = some r → s.off + week ≤ r.ts ∧ r.ts < s.off + window) :
    (dgram cfg V (rotate sgn s).1 now d).2 = (dgram cfg V s now d).2 := by
  have h := c13r_dgram_rot cfg V sgn s now d hinv h2
  rw [h]

/-- A report of the week being archived that arrives after the rotation is outside the window: dropped,
nothing changes (this is why a logged report of that week must precede the rotation). -/
theorem c13_first_week_after_rotation (cfg : Cfg) (V : Verify) (sgn : Bytes → Bytes) (s : State) (now : Nat) (d : Bytes)
    (hinv : Inv s)
    (h1 : ∀ r, Report.decode (d.take 80) = some r → r.ts < s.off + week) :
    dgram cfg V (rotate sgn s).1 now d = ((rotate sgn s).1, .dropped) := by
  apply c01_unchanged
  rintro ⟨_, r, dev, hd, _, _, _, _, hoff, _⟩
  rw [c13r_rotate_eq sgn s (c13r_off_mod hinv)] at hoff
  have := h1 r hd
  have hoff' : s.off + week ≤ r.ts := hoff
  omega

end Gca.Srv
