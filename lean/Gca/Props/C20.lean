import Gca.Timeslot
/-
C20 - Timeslot arithmetic is exact; production constants keep the window safe.
Specification-side theorems. The Go functions are tied to `toSlot`/`toUnix`/
`inWindow` by the generated BitVec definitions and their obligations in
`Gca/Tie/C20.lean`; the production constants come from `Gca/Generated`.
-/
namespace Gca.TS

/-- Times before genesis are refused. -/
theorem c20_before_genesis (g t : Int) (h : t < g) : toSlot g t = none := by
  simp [toSlot, h]

/-- Exactly the times from genesis up to the end of the last 32-bit timeslot are accepted. -/
theorem c20_domain (g t : Int) : (toSlot g t).isSome ↔ (g ≤ t ∧ t < g + 300 * 4294967296) := by
  unfold toSlot
  by_cases h : t < g
  · simp [h]; omega
  · simp only [h, ↓reduceIte]
    by_cases h2 : (t - g) / 300 > 4294967295
    · simp [h2]; omega
    · simp [h2]; omega

/-- The slot is the number of whole 300-second periods since genesis. -/
theorem c20_slot_value (g t : Int) (s : Nat) (h : toSlot g t = some s) : (s : Int) = (t - g) / 300 := by
  unfold toSlot at h
  split at h
  · cases h
  · simp only at h
    split at h
    · cases h
    · cases h; omega

/-- Converting to a timeslot and back gives the start of the same 5-minute slot. -/
theorem c20_roundtrip (g t : Int) (s : Nat) (h : toSlot g t = some s) :
    toUnix g s = t - (t - g) % 300 ∧ toUnix g s ≤ t ∧ t < toUnix g s + 300 := by
  have hv := c20_slot_value g t s h
  unfold toUnix
  omega

/-- A slot start converts back to its slot. -/
theorem c20_roundtrip' (g : Int) (s : Nat) (h : s < 4294967296) : toSlot g (toUnix g s) = some s := by
  unfold toSlot toUnix
  have h1 : ¬ (g + (s : Int) * 300 < g) := by omega
  have h2 : (g + (s : Int) * 300 - g) / 300 = s := by omega
  simp only [h1, ↓reduceIte, h2]
  have h3 : ¬ ((s : Int) > 4294967295) := by omega
  simp [h3]

/-- Conversion is monotone. -/
theorem c20_monotone (g t t' : Int) (s s' : Nat) (hle : t ≤ t')
    (h : toSlot g t = some s) (h' : toSlot g t' = some s') : s ≤ s' := by
  have := c20_slot_value g t s h
  have := c20_slot_value g t' s' h'
  omega

/-- Rotation cadence. With rotation trigger `trig`, check period `per` (in
slots), acceptance half-width `half` and window length `win`, if
`trig + per + half < win` then a report acceptable at any moment of normal
operation (the background loop has looked at the clock within the last `per`
slots, so `now - off ≤ trig + per`) lies before the end of the window. -/
theorem c20_cadence_upper (trig per half win off now ts : Int)
    (hc : trig + per + half < win) (hloop : now - off ≤ trig + per) (hacc : ts ≤ now + half) :
    ts < off + win := by omega

/-- ... and a rotation (which only happens when `now - off > trig` and moves
the window start by `shift`) never moves the start past a report that is still
acceptable, provided `half ≤ trig - shift`. -/
theorem c20_cadence_lower (trig half shift off now ts : Int)
    (hc : half + shift ≤ trig) (hrot : now - off > trig) (hacc : now - half ≤ ts) :
    off + shift ≤ ts := by omega

/-- What the executable test `cadenceSafe` (evaluated by the driver on the constants of the production
build) buys: both cadence statements. -/
theorem c20_cadence_safe (trig per half win shift off now ts : Int)
    (h : cadenceSafe trig per half win shift = true) :
    (now - off ≤ trig + per → ts ≤ now + half → ts < off + win) ∧
    (now - off > trig → now - half ≤ ts → off + shift ≤ ts) := by
  unfold cadenceSafe at h
  have h' := of_decide_eq_true h
  constructor <;> intros <;> omega

/-- The production constants pass, a 36-hour check period does not. -/
example : cadenceSafe 3200 (slotsOfNs 3600000000000) 432 4032 2016 = true ∧
    cadenceSafe 3200 (slotsOfNs (36 * 3600000000000)) 432 4032 2016 = false := by decide

/-- 1700352000 is Sunday 2023-11-19 00:00:00 UTC. -/
theorem c20_genesis_date : civil 1700352000 = (2023, 11, 19, 0, 0, 0, 0) := by decide

/-- Non-vacuity: a time inside a slot, at its boundary, and the last accepted second. -/
example : toSlot 1700352000 1700352299 = some 0 ∧ toSlot 1700352000 1700352300 = some 1 ∧
    toSlot 1700352000 (1700352000 + 300 * 4294967296 - 1) = some 4294967295 ∧
    toSlot 1700352000 (1700352000 + 300 * 4294967296) = none := by decide

end Gca.TS
