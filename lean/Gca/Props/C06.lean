import Gca.Server.Inv
/-
C06 - Equipment changes need the GCA's signature; a conflict bans exactly one id.
(Persistence of bans across restart is part of C04: `c04_restart` preserves `bans`.)
-/
namespace Gca.Srv

/-- The authorizations in force, as a function of the id. -/
def authOf (s : State) (id : Nat) : Option Auth := (s.devices.get id).map (·.auth)

/-! ### Helper lemmas -/

theorem c06h_integrateDev_auth (off : Nat) (d d' : Dev) (r : Report) (b : Bool)
    (h : integrateDev off d r = some (d', b)) : d'.auth = d.auth := by
  unfold integrateDev at h
  split at h
  · simp at h; rw [← h.1]
  · split at h
    · simp at h; rw [← h.1]
    · split at h
      · simp at h
      · split at h
        · simp at h; rw [← h.1]
        · split at h
          · simp at h; rw [← h.1]
          · simp at h; rw [← h.1]

theorem c06h_authOf_set_same_auth (s : State) (m : FMap Nat Dev) (k id : Nat) (d d' : Dev)
    (hd : s.devices.get k = some d) (ha : d'.auth = d.auth) (hm : m = s.devices.set k d') :
    (m.get id).map (·.auth) = authOf s id := by
  subst hm
  unfold authOf
  by_cases hk : k = id
  · subst hk; rw [FMap.get_set_same, hd]; simp [ha]
  · rw [FMap.get_set_ne _ _ _ _ hk]

theorem c06h_integrate_frame (cfg : Cfg) (s s' : State) (r : Report) (b : Bool)
    (h : integrate cfg s r = some (s', b)) (id : Nat) :
    authOf s' id = authOf s id ∧ s'.bans = s.bans := by
  unfold integrate at h
  split at h
  · simp at h
  · rename_i d hd
    split at h
    · simp at h
    · simp at h; rw [← h.1]; exact ⟨rfl, rfl⟩
    · rename_i d' hi
      simp at h
      rw [← h.1]
      exact ⟨c06h_authOf_set_same_auth s _ r.id id d d' hd (c06h_integrateDev_auth _ _ _ _ _ hi) rfl, rfl⟩

theorem c06h_dgram_frame (cfg : Cfg) (V : Verify) (s : State) (now : Nat) (d : Bytes) (id : Nat) :
    authOf (dgram cfg V s now d).1 id = authOf s id ∧ (dgram cfg V s now d).1.bans = s.bans := by
  unfold dgram
  split
  · exact ⟨rfl, rfl⟩
  · split
    · exact ⟨rfl, rfl⟩
    · split
      · exact ⟨rfl, rfl⟩
      · split
        · exact ⟨rfl, rfl⟩
        · split
          · exact ⟨rfl, rfl⟩
          · rename_i hi
            exact c06h_integrate_frame cfg _ _ _ _ hi id

theorem c06h_rotate_frame (sgn : Bytes → Bytes) (s : State) (id : Nat) :
    authOf (rotate sgn s).1 id = authOf s id ∧ (rotate sgn s).1.bans = s.bans := by
  unfold rotate
  split
  · exact ⟨rfl, rfl⟩
  · refine ⟨?_, rfl⟩
    simp only [authOf]
    rw [FMap.get_map_val s.devices shiftDev id]
    cases s.devices.get id <;> simp [shiftDev]

theorem c06h_impactWrite_frame (s : State) (k ts rate id : Nat) :
    authOf (impactWrite s k ts rate) id = authOf s id ∧ (impactWrite s k ts rate).bans = s.bans := by
  unfold impactWrite
  split
  · exact ⟨rfl, rfl⟩
  · rename_i d hd
    split
    · exact ⟨c06h_authOf_set_same_auth s _ k id d { d with impact := d.impact.set (ts - s.off) rate } hd rfl rfl, rfl⟩
    · exact ⟨rfl, rfl⟩

/-- The set of authorized devices changes only through `authorize` (and is
reloaded, not changed, by `restart`): every other operation leaves it alone. -/
theorem c06_only_authorize (cfg : Cfg) (V : Verify) (sgn : Bytes → Bytes) (s : State) (op : Op) (hinv : Inv s)
    (hop : ∀ a, op ≠ .authorize a) (hre : ∀ f n, op ≠ .restart f n) (id : Nat) :
    authOf (step cfg V sgn s op).1 id = authOf s id ∧ (step cfg V sgn s op).1.bans = s.bans := by
  cases op with
  | dgram now d => exact c06h_dgram_frame cfg V s now d id
  | register k sig =>
    simp only [step, register]
    split
    · exact ⟨rfl, rfl⟩
    · split <;> exact ⟨rfl, rfl⟩
  | authorize a => exact absurd rfl (hop a)
  | rotate => exact c06h_rotate_frame sgn s id
  | tick now =>
    simp only [step, tick]
    split
    · exact c06h_rotate_frame sgn s id
    · exact ⟨rfl, rfl⟩
  | restart f n => exact absurd rfl (hre f n)
  | stats tso => exact ⟨rfl, rfl⟩
  | sync k => exact ⟨rfl, rfl⟩
  | authServer a =>
    simp only [step, authServer]
    split
    · exact ⟨rfl, rfl⟩
    · split
      · exact ⟨rfl, rfl⟩
      · split
        · split
          · exact ⟨rfl, rfl⟩
          · split <;> exact ⟨rfl, rfl⟩
        · exact ⟨rfl, rfl⟩
  | migrate m =>
    simp only [step, migrateOrder]
    split
    · exact ⟨rfl, rfl⟩
    · split <;> exact ⟨rfl, rfl⟩
  | impact k ts rate => exact c06h_impactWrite_frame s k ts rate id

theorem c06h_authorize_bans_grow (cfg : Cfg) (V : Verify) (s : State) (a : Auth) (id : Nat)
    (h : id ∈ s.bans) : id ∈ (authorize cfg V s a).1.bans := by
  unfold authorize
  split
  · exact h
  · split
    · exact h
    · unfold saveEquipment
      split
      · exact h
      · split
        · split
          · exact h
          · simp [banDevice, h]
        · split
          · exact h
          · exact h

theorem c06h_step_bans_grow (cfg : Cfg) (V : Verify) (sgn : Bytes → Bytes) (s : State) (op : Op) (hinv : Inv s)
    (hre : ∀ f n, op ≠ .restart f n) (id : Nat) (h : id ∈ s.bans) :
    id ∈ (step cfg V sgn s op).1.bans := by
  by_cases ha : ∃ a, op = .authorize a
  · obtain ⟨a, rfl⟩ := ha
    exact c06h_authorize_bans_grow cfg V s a id h
  · have := (c06_only_authorize cfg V sgn s op hinv (fun a e => ha ⟨a, e⟩) hre id).2
    rw [this]; exact h

/-- ... and `authorize` changes anything only with the registered GCA's valid signature. -/
theorem c06_signature_required (cfg : Cfg) (V : Verify) (s : State) (a : Auth)
    (h : ¬ (s.gcaAvail = true ∧ V s.gcaKey (Auth.signingBytes a) a.sig = true)) :
    authorize cfg V s a = (s, .refused) := by
  unfold authorize
  by_cases hs : s.gcaAvail = true
  · have hv : V s.gcaKey (Auth.signingBytes a) a.sig = false := by
      cases hv : V s.gcaKey (Auth.signingBytes a) a.sig
      · rfl
      · exact absurd ⟨hs, hv⟩ h
    simp [hs, hv]
  · simp [hs]

/-- Resubmitting an identical authorization changes nothing. -/
theorem c06_duplicate_noop (cfg : Cfg) (V : Verify) (s : State) (a : Auth) (cur : Dev)
    (hs : s.gcaAvail = true) (hv : V s.gcaKey (Auth.signingBytes a) a.sig = true)
    (hnb : s.bans.contains a.id = false)
    (hc : s.devices.get a.id = some cur) (heq : authEq cur.auth a = true) :
    authorize cfg V s a = (s, .ok) := by
  have hnb' : a.id ∉ s.bans := by simpa using hnb
  simp [authorize, saveEquipment, hs, hv, hc, heq, hnb']

/-- A second, different authorization for a used id bans exactly that id. -/
theorem c06_conflict_bans_exactly (cfg : Cfg) (V : Verify) (s : State) (a : Auth) (cur : Dev) (hinv : Inv s)
    (hs : s.gcaAvail = true) (hv : V s.gcaKey (Auth.signingBytes a) a.sig = true)
    (hc : s.devices.get a.id = some cur) (hne : authEq cur.auth a = false) :
    let s' := (authorize cfg V s a).1
    (authorize cfg V s a).2 = .banned ∧
    a.id ∈ s'.bans ∧ s'.devices.get a.id = none ∧ s'.shortIds.get cur.auth.key = none ∧
    (∀ id, id ≠ a.id → s'.devices.get id = s.devices.get id) ∧
    (∀ k, k ≠ cur.auth.key → s'.shortIds.get k = s.shortIds.get k) ∧
    (∀ id, id ∈ s.bans → id ∈ s'.bans) ∧
    s'.history = s.history ∧ s'.off = s.off ∧ s'.gcaKey = s.gcaKey ∧
    s'.disk.auths = s.disk.auths ++ [a] ∧ s'.disk.weeks = s.disk.weeks ∧ s'.disk.reports = s.disk.reports := by
  have hnb : a.id ∉ s.bans := by
    intro hb
    have := hinv.banned a.id hb
    rw [hc] at this; cases this
  have e : authorize cfg V s a =
      (banDevice { s with disk := { s.disk with auths := s.disk.auths ++ [a] },
                          recentA := pushRecent cfg.maxRecentAuth s.recentA a } a.id cur.auth, .banned) := by
    simp [authorize, saveEquipment, hs, hv, hc, hne, hnb]
  rw [e]
  refine ⟨rfl, ?_, ?_, ?_, ?_, ?_, ?_, rfl, rfl, rfl, rfl, rfl, rfl⟩
  · simp [banDevice]
  · exact FMap.get_del_same _ _
  · exact FMap.get_del_same _ _
  · intro id hid; exact FMap.get_del_ne _ _ _ (Ne.symm hid)
  · intro k hk; exact FMap.get_del_ne _ _ _ (Ne.symm hk)
  · intro id hid; simp [banDevice, hid]

/-- A banned id is refused from then on, whatever is submitted for it. -/
theorem c06_banned_refused (cfg : Cfg) (V : Verify) (s : State) (a : Auth) (h : a.id ∈ s.bans) :
    authorize cfg V s a = (s, .refused) := by
  unfold authorize
  split
  · rfl
  · split
    · rfl
    · simp [saveEquipment, h]

/-- Bans are permanent and the banned id stays absent, for every sequence of
operations that does not restart the server (restart: see C04). -/
theorem c06_ban_permanent (cfg : Cfg) (V : Verify) (sgn : Bytes → Bytes) (s : State) (ops : List Op) (id : Nat)
    (hinv : Inv s) (hops : ∀ op ∈ ops, OpWF op) (hre : ∀ op ∈ ops, ∀ f n, op ≠ .restart f n)
    (h : id ∈ s.bans) :
    id ∈ (run cfg V sgn s ops).1.bans ∧ (run cfg V sgn s ops).1.devices.get id = none := by
  have hb : id ∈ (run cfg V sgn s ops).1.bans := by
    induction ops generalizing s with
    | nil => exact h
    | cons op ops ih =>
      have hop : OpWF op := hops op (by simp)
      have hinv' := inv_step cfg V sgn s op hinv hop
      have hb' := c06h_step_bans_grow cfg V sgn s op hinv (hre op (by simp)) id h
      have := ih (step cfg V sgn s op).1 hinv' (fun o ho => hops o (by simp [ho]))
        (fun o ho => hre o (by simp [ho])) hb'
      simpa [run] using this
  exact ⟨hb, (inv_run cfg V sgn s ops hinv hops).banned id hb⟩

/-- A banned id disappears from sync and from live statistics. -/
theorem c06_banned_views (sgn : Bytes → Bytes) (s : State) (id : Nat) (hinv : Inv s) (h : id ∈ s.bans) :
    sync s id = .syncRefused ∧
    ∀ tso w, buildStats sgn s tso = some w → w.devs.length = s.devices.length := by
  refine ⟨?_, ?_⟩
  · simp [sync, hinv.banned id h]
  · intro tso w hw
    unfold buildStats at hw
    split at hw
    · cases hw
    · split at hw
      · cases hw
      · split at hw
        · cases hw
        · simp at hw; rw [← hw]; simp

/-- `GET /api/v1/equipment` is the device table, nothing else: it answers for an id exactly what the
equipment map holds for it. -/
theorem c06_equipment_view (s : State) (id : Nat) :
    FMap.get (equipmentQuery s) id = (FMap.get s.devices id).map (·.auth) := by
  unfold equipmentQuery
  exact FMap.get_map_val s.devices (·.auth) id

/-- `GET /api/v1/recent-reports` answers for a key exactly when a registered, non-banned device owns
that key, and then with that device's window. -/
theorem c06_recent_view (s : State) (key : Key) (hinv : Inv s) :
    (∀ reps off, recentQuery s key = some (reps, off) →
      ∃ id d, FMap.get s.devices id = some d ∧ d.auth.key = key ∧ d.auth.id = id ∧ id ∉ s.bans ∧
        reps = d.reports ∧ off = 0) ∧
    (∀ id d, FMap.get s.devices id = some d → d.auth.key = key → recentQuery s key = some (d.reports, 0)) := by
  refine ⟨?_, ?_⟩
  · intro reps off h
    unfold recentQuery at h
    cases hk : FMap.get s.shortIds key with
    | none => simp [hk] at h
    | some id =>
      obtain ⟨d, hd, hkey⟩ := hinv.shortDev key id hk
      simp only [hk, hd, Option.some.injEq, Prod.mk.injEq] at h
      refine ⟨id, d, hd, hkey, (hinv.devOk id d hd).1, ?_, h.1.symm, h.2.symm⟩
      intro hb
      rw [hinv.banned id hb] at hd
      cases hd
  · intro id d hd hkey
    have := hinv.devShort id d hd
    rw [hkey] at this
    simp [recentQuery, this, hd]

/-- A banned id is gone from the equipment listing (and, by `c06_recent_view`, no recent-reports reply
is ever about a banned id). -/
theorem c06_banned_views_http (s : State) (id : Nat) (hinv : Inv s) (h : id ∈ s.bans) :
    FMap.get (equipmentQuery s) id = none := by
  rw [c06_equipment_view, hinv.banned id h]; rfl

/-- A new authorization adds exactly one device and touches nobody else. -/
theorem c06_new_device (cfg : Cfg) (V : Verify) (s : State) (a : Auth) (hinv : Inv s)
    (h : (authorize cfg V s a).2 = .okNew) :
    let s' := (authorize cfg V s a).1
    s'.devices.get a.id = some (newDev a) ∧ s'.shortIds.get a.key = some a.id ∧
    (∀ id, id ≠ a.id → s'.devices.get id = s.devices.get id) ∧
    (∀ k, k ≠ a.key → s'.shortIds.get k = s.shortIds.get k) ∧ s'.bans = s.bans := by
  have h1 : s.gcaAvail = true := by
    cases hg : s.gcaAvail
    · simp [authorize, hg] at h
    · rfl
  have h2 : V s.gcaKey (Auth.signingBytes a) a.sig = true := by
    cases hv : V s.gcaKey (Auth.signingBytes a) a.sig
    · simp [authorize, h1, hv] at h
    · rfl
  have h3 : a.id ∉ s.bans := by
    intro hb; simp [authorize, saveEquipment, h1, h2, hb] at h
  have h4 : s.devices.get a.id = none := by
    cases hd : s.devices.get a.id with
    | none => rfl
    | some cur =>
      by_cases hq : authEq cur.auth a = true <;>
        simp [authorize, saveEquipment, h1, h2, h3, hd, hq] at h
  have h5 : s.shortIds.has a.key = false := by
    cases hk : s.shortIds.has a.key
    · rfl
    · simp [authorize, saveEquipment, h1, h2, h3, h4, hk] at h
  have e : authorize cfg V s a =
      ({ s with disk := { s.disk with auths := s.disk.auths ++ [a] },
                recentA := pushRecent cfg.maxRecentAuth s.recentA a,
                shortIds := s.shortIds.set a.key a.id, devices := s.devices.set a.id (newDev a) }, .okNew) := by
    simp [authorize, saveEquipment, h1, h2, h3, h4, h5]
  rw [e]
  refine ⟨FMap.get_set_same _ _ _, FMap.get_set_same _ _ _, ?_, ?_, rfl⟩
  · intro id hid; exact FMap.get_set_ne _ _ _ _ (Ne.symm hid)
  · intro k hk; exact FMap.get_set_ne _ _ _ _ (Ne.symm hk)

/-- A key that already belongs to another id cannot be claimed by a new id. -/
theorem c06_key_in_use_refused (cfg : Cfg) (V : Verify) (s : State) (a : Auth)
    (hnew : s.devices.get a.id = none) (hused : s.shortIds.has a.key = true) :
    (authorize cfg V s a).1 = s := by
  unfold authorize
  split
  · rfl
  · split
    · rfl
    · unfold saveEquipment
      split
      · rfl
      · simp [hnew]

/-- The server's own consistency check holds in every reachable state. -/
theorem c06_check_invariants (cfg : Cfg) (V : Verify) (sgn : Bytes → Bytes) (tempKey fresh : Key) (now : Nat)
    (s0 : State) (ops : List Op) (hf : fresh.length = 32)
    (hb : boot cfg V sgn tempKey fresh now = some s0) (hops : ∀ op ∈ ops, OpWF op) :
    CheckInvariants (run cfg V sgn s0 ops).1 :=
  inv_checkInvariants _ (inv_run cfg V sgn s0 ops (inv_boot cfg V sgn tempKey fresh now s0 hf hb) hops)

/-- Non-vacuity: authorize, then a conflicting authorization with another key bans id 1 only. -/
example :
    let V : Verify := fun _ _ _ => true
    let a1 : Auth := ⟨1, zeros 32, 0, 0, 1000, 0, 0, 0, 0, zeros 64⟩
    let a2 : Auth := ⟨2, List.replicate 32 7, 0, 0, 1000, 0, 0, 0, 0, zeros 64⟩
    let a1' : Auth := { a1 with key := List.replicate 32 9 }
    let s0 : State := { gcaAvail := true }
    let s1 := (authorize {} V s0 a1).1
    let s2 := (authorize {} V s1 a2).1
    let s3 := (authorize {} V s2 a1')
    s3.2 = .banned ∧ s3.1.bans = [1] ∧ s3.1.shortIds.get (zeros 32) = none ∧
    s3.1.shortIds.get (List.replicate 32 7) = some 2 ∧ (s3.1.devices.get 2).isSome := by decide

end Gca.Srv
