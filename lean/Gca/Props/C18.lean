import Gca.EventLog
/-
C18 - Event log stays within its memory bound, keeps the newest events, never panics.
Statements over all operation sequences and all configurations (expiry any
integer, byte and line limits any natural numbers, including limits smaller
than one line).
-/
namespace Gca.EL

def sumCost (es : List Entry) : Int := (es.map cost).sum

@[simp] theorem sumCost_nil : sumCost [] = 0 := rfl
@[simp] theorem sumCost_cons (e : Entry) (es : List Entry) : sumCost (e :: es) = cost e + sumCost es := by
  simp [sumCost]
@[simp] theorem sumCost_append (a b : List Entry) : sumCost (a ++ b) = sumCost a + sumCost b := by
  simp [sumCost]
theorem c18h_cost_nonneg (e : Entry) : 0 ≤ cost e := by unfold cost; omega
theorem c18h_sumCost_nonneg (es : List Entry) : 0 ≤ sumCost es := by
  induction es with
  | nil => simp
  | cons e es ih => have := c18h_cost_nonneg e; simp; omega
theorem c18h_sumCost_perm {a b : List Entry} (h : a.Perm b) : sumCost a = sumCost b := by
  induction h with
  | nil => rfl
  | cons x _ ih => simp [ih]
  | swap x y l => simp; omega
  | trans _ _ ih1 ih2 => omega

theorem c18h_sumCost_filter (p : Entry → Bool) (es : List Entry) :
    sumCost es = sumCost (es.filter p) + sumCost (es.filter (fun e => !p e)) := by
  induction es with
  | nil => simp
  | cons e es ih =>
    cases hp : p e <;> simp [hp] <;> omega

/-! sortByLast -/
theorem c18h_insertByLast_perm (e : Entry) (k : Int) (r : List (Entry × Int)) :
    (insertByLast e k r).Perm ((e, k) :: r) := by
  induction r with
  | nil => simp [insertByLast]
  | cons p r ih =>
    obtain ⟨f, kf⟩ := p
    simp only [insertByLast]
    split
    · exact List.Perm.refl _
    · exact (List.Perm.cons _ ih).trans (List.Perm.swap _ _ _)

theorem c18h_insertByLast_sorted (e : Entry) (k : Int) (r : List (Entry × Int))
    (h : r.Pairwise (fun a b => a.2 ≤ b.2)) :
    (insertByLast e k r).Pairwise (fun a b => a.2 ≤ b.2) := by
  induction r with
  | nil => simp [insertByLast]
  | cons p r ih =>
    obtain ⟨f, kf⟩ := p
    simp only [insertByLast]
    rw [List.pairwise_cons] at h
    split
    · rename_i hk
      rw [List.pairwise_cons]
      refine ⟨?_, List.pairwise_cons.2 h⟩
      intro b hb
      rcases List.mem_cons.1 hb with rfl | hb
      · simp; omega
      · have := h.1 b hb; simp at this ⊢; omega
    · rename_i hk
      rw [List.pairwise_cons]
      refine ⟨?_, ih h.2⟩
      intro b hb
      have hb' := (c18h_insertByLast_perm e k r).mem_iff.1 hb
      rcases List.mem_cons.1 hb' with rfl | hb'
      · simp; omega
      · exact h.1 b hb'

theorem c18h_sortByLast_spec_aux (es : List Entry) (order : List (Entry × Int)) (h : sortByLast es = some order) :
    (order.map (·.1)).Perm es ∧ order.Pairwise (fun a b => a.2 ≤ b.2) ∧
    ∀ p ∈ order, lastUp p.1 = some p.2 := by
  induction es generalizing order with
  | nil => simp [sortByLast] at h; subst h; simp
  | cons e es ih =>
    simp only [sortByLast] at h
    split at h
    · rename_i k r hk hr
      obtain ⟨h1, h2, h3⟩ := ih r hr
      simp at h; subst h
      refine ⟨?_, c18h_insertByLast_sorted e k r h2, ?_⟩
      · exact ((c18h_insertByLast_perm e k r).map _).trans (by simpa using h1)
      · intro p hp
        have hp' := (c18h_insertByLast_perm e k r).mem_iff.1 hp
        rcases List.mem_cons.1 hp' with rfl | hp'
        · exact hk
        · exact h3 p hp'
    · simp at h

theorem c18h_sortByLast_some (es : List Entry) (h : ∀ e ∈ es, e.ups ≠ []) :
    ∃ order, sortByLast es = some order := by
  induction es with
  | nil => exact ⟨[], rfl⟩
  | cons e es ih =>
    obtain ⟨r, hr⟩ := ih (fun x hx => h x (List.mem_cons_of_mem _ hx))
    have he := h e (List.mem_cons_self)
    cases hk : lastUp e with
    | none => exact absurd (List.getLast?_eq_none_iff.1 hk) he
    | some k => exact ⟨insertByLast e k r, by simp [sortByLast, hk, hr]⟩

/-! evict -/
theorem c18h_evict_nil (need : Int) (maxB : Nat) (size : Int) :
    evict need maxB [] size = if need + size > maxB then none else some ([], size) := by
  rw [evict]
theorem c18h_evict_cons (need : Int) (maxB : Nat) (e : Entry) (k : Int) (r : List (Entry × Int)) (size : Int) :
    evict need maxB ((e, k) :: r) size =
      if need + size > maxB then
        match evict need maxB r (size - cost e) with
        | none => none
        | some (ev, sz) => some (e.line :: ev, sz)
      else some ([], size) := by
  rw [evict]; rfl

theorem c18h_evict_minimal_aux (need : Int) (maxB : Nat) (order : List (Entry × Int)) (size : Int)
    (ev : List Bytes) (sz : Int) (h : evict need maxB order size = some (ev, sz)) :
    ev = (order.take ev.length).map (·.1.line) ∧
    sz = size - sumCost ((order.take ev.length).map (·.1)) ∧
    need + sz ≤ maxB ∧
    ∀ j, j < ev.length → need + (size - sumCost ((order.take j).map (·.1))) > maxB := by
  induction order generalizing size ev sz with
  | nil =>
    rw [c18h_evict_nil] at h
    split at h
    · simp at h
    · simp at h; obtain ⟨rfl, rfl⟩ := h; simp; omega
  | cons p r ih =>
    obtain ⟨e, k⟩ := p
    rw [c18h_evict_cons] at h
    split at h
    · rename_i hgt
      split at h
      · simp at h
      · rename_i ev' sz' hr
        simp at h; obtain ⟨rfl, rfl⟩ := h
        obtain ⟨h1, h2, h3, h4⟩ := ih _ _ _ hr
        refine ⟨?_, ?_, h3, ?_⟩
        · simp only [List.length_cons, List.take_succ_cons, List.map_cons]; rw [← h1]
        · simp only [List.length_cons, List.take_succ_cons, List.map_cons, sumCost_cons]; omega
        · intro j hj
          cases j with
          | zero => simpa using hgt
          | succ j =>
            have := h4 j (by simpa using hj)
            simp only [List.take_succ_cons, List.map_cons, sumCost_cons]; omega
    · simp at h; obtain ⟨rfl, rfl⟩ := h; simp; omega

theorem c18h_evict_some (need : Int) (maxB : Nat) (order : List (Entry × Int)) (size : Int)
    (h : need + (size - sumCost (order.map (·.1))) ≤ maxB) :
    ∃ r, evict need maxB order size = some r := by
  induction order generalizing size with
  | nil => rw [c18h_evict_nil]; simp at h; split; · omega
           · exact ⟨_, rfl⟩
  | cons p r ih =>
    obtain ⟨e, k⟩ := p
    rw [c18h_evict_cons]
    split
    · obtain ⟨⟨ev, sz⟩, hr⟩ := ih (size - cost e) (by simp at h; omega)
      rw [hr]; exact ⟨_, rfl⟩
    · exact ⟨_, rfl⟩

/-- Representation invariant of the logger. -/
structure Inv (l : Log) : Prop where
  exact   : l.size = sumCost l.entries                 -- accounting is exact
  bound   : sumCost l.entries ≤ l.maxB                 -- within the memory bound
  nonempty: ∀ e ∈ l.entries, e.ups ≠ []                -- every stored line has an update
  nodup   : (l.entries.map (·.line)).Nodup             -- map keys are distinct
  cut     : ∀ e ∈ l.entries, e.line.length ≤ l.maxLine -- lines are cut to the limit

/-! maps that keep the line -/
theorem c18h_map_line_of_keep (g : Entry → Entry) (hg : ∀ e, (g e).line = e.line) (es : List Entry) :
    (es.map g).map (·.line) = es.map (·.line) := by
  induction es with
  | nil => rfl
  | cons e es ih => simp only [List.map_cons, ih, hg]

theorem c18h_sumCost_map_keep (g : Entry → Entry) (hg : ∀ e, (g e).line = e.line) (es : List Entry) :
    sumCost (es.map g) = sumCost es := by
  induction es with
  | nil => rfl
  | cons e es ih => simp only [List.map_cons, sumCost_cons, ih, cost, hg]

theorem c18h_sumCost_sublist {a b : List Entry} (h : a.Sublist b) : sumCost a ≤ sumCost b := by
  induction h with
  | slnil => simp
  | cons x _ ih => have := c18h_cost_nonneg x; simp; omega
  | cons_cons x _ ih => simp; omega

/-! expire -/
def c18h_cutUps (l : Log) (now : Int) (e : Entry) : Entry :=
  { e with ups := e.ups.dropWhile (fun t => t < now - l.expiry) }

theorem c18h_cutUps_line (l : Log) (now : Int) (e : Entry) : (c18h_cutUps l now e).line = e.line := rfl

theorem c18h_expire_entries (l : Log) (now : Int) :
    (expire l now).entries = (l.entries.map (c18h_cutUps l now)).filter (fun e => !e.ups.isEmpty) := rfl
theorem c18h_expire_size (l : Log) (now : Int) :
    (expire l now).size = l.size - sumCost ((l.entries.map (c18h_cutUps l now)).filter (fun e => e.ups.isEmpty)) := rfl
@[simp] theorem expire_maxB (l : Log) (now : Int) : (expire l now).maxB = l.maxB := rfl
@[simp] theorem expire_maxLine (l : Log) (now : Int) : (expire l now).maxLine = l.maxLine := rfl
@[simp] theorem expire_expiry (l : Log) (now : Int) : (expire l now).expiry = l.expiry := rfl

theorem c18h_expire_nonempty (l : Log) (now : Int) : ∀ e ∈ (expire l now).entries, e.ups ≠ [] := by
  intro e he
  rw [c18h_expire_entries, List.mem_filter] at he
  intro h; simp [h] at he

theorem c18h_inv_expire (l : Log) (now : Int) (h : Inv l) : Inv (expire l now) := by
  have hsum := c18h_sumCost_map_keep (c18h_cutUps l now) (c18h_cutUps_line l now) l.entries
  have hsplit := c18h_sumCost_filter (fun e => e.ups.isEmpty) (l.entries.map (c18h_cutUps l now))
  have hsub : (expire l now).entries.Sublist (l.entries.map (c18h_cutUps l now)) := by
    rw [c18h_expire_entries]; exact List.filter_sublist
  refine ⟨?_, ?_, c18h_expire_nonempty l now, ?_, ?_⟩
  · rw [c18h_expire_size, c18h_expire_entries, h.exact]; omega
  · have := c18h_sumCost_sublist hsub
    have := h.bound
    rw [expire_maxB]; omega
  · have := hsub.map (·.line)
    rw [c18h_map_line_of_keep _ (c18h_cutUps_line l now)] at this
    exact List.Nodup.sublist this h.nodup
  · intro e he
    obtain ⟨e', he', rfl⟩ := List.mem_map.1 (hsub.subset he)
    exact h.cut e' he'

/-! printf -/
def c18h_printfCore (l : Log) (now : Int) (key : Bytes) : Option Log :=
  let need : Int := 2 * key.length
  if need > l.maxB then some l else
  if l.entries.any (fun e => e.line == key) then
    some { l with entries := l.entries.map (fun e => if e.line == key then { e with ups := e.ups ++ [now] } else e) }
  else
    let order := if need + l.size > l.maxB then sortByLast l.entries else some []
    match order with
    | none => none
    | some order =>
      match evict need l.maxB order l.size with
      | none => none
      | some (ev, sz) =>
        some { l with entries := (l.entries.filter (fun e => !ev.contains e.line)) ++ [⟨key, [now]⟩],
                      size := sz + need }

theorem c18h_printf_eq (l : Log) (now : Int) (raw : Bytes) :
    printf l now raw =
      c18h_printfCore (expire l now) now (if raw.length > l.maxLine then raw.take l.maxLine else raw) := rfl

theorem c18h_cutLine_le (l : Log) (raw : Bytes) :
    (if raw.length > l.maxLine then raw.take l.maxLine else raw).length ≤ l.maxLine := by
  split
  · simp; omega
  · omega

def c18h_bump (key : Bytes) (now : Int) (e : Entry) : Entry :=
  if e.line == key then { e with ups := e.ups ++ [now] } else e

theorem c18h_bump_line (key : Bytes) (now : Int) (e : Entry) : (c18h_bump key now e).line = e.line := by
  unfold c18h_bump; split <;> rfl

theorem c18h_inv_bump (l : Log) (h : Inv l) (key : Bytes) (now : Int) :
    Inv { l with entries := l.entries.map (c18h_bump key now) } := by
  refine ⟨?_, ?_, ?_, ?_, ?_⟩
  · show l.size = sumCost (l.entries.map (c18h_bump key now))
    rw [c18h_sumCost_map_keep _ (c18h_bump_line key now)]; exact h.exact
  · show sumCost (l.entries.map (c18h_bump key now)) ≤ l.maxB
    rw [c18h_sumCost_map_keep _ (c18h_bump_line key now)]; exact h.bound
  · intro e he
    obtain ⟨e', he', rfl⟩ := List.mem_map.1 he
    unfold c18h_bump; split
    · simp
    · exact h.nonempty e' he'
  · show ((l.entries.map (c18h_bump key now)).map (·.line)).Nodup
    rw [c18h_map_line_of_keep _ (c18h_bump_line key now)]; exact h.nodup
  · intro e he
    obtain ⟨e', he', rfl⟩ := List.mem_map.1 he
    rw [c18h_bump_line]; exact h.cut e' he'

theorem c18h_filter_evicted (es A B : List Entry) (hp : (A ++ B).Perm es)
    (hnd : (es.map (·.line)).Nodup) :
    (es.filter (fun e => !(A.map (·.line)).contains e.line)).Perm B := by
  have hnd' : ((A ++ B).map (·.line)).Nodup := ((hp.map (·.line)).nodup_iff).2 hnd
  rw [List.map_append, List.nodup_append] at hnd'
  have h1 := (hp.filter (fun e => !(A.map (·.line)).contains e.line)).symm
  rw [List.filter_append] at h1
  have hA : A.filter (fun e => !(A.map (·.line)).contains e.line) = [] := by
    rw [List.filter_eq_nil_iff]
    intro a ha
    simp only [Bool.not_eq_true', Bool.not_eq_false, List.contains_iff_mem]
    exact List.mem_map_of_mem ha
  have hB : B.filter (fun e => !(A.map (·.line)).contains e.line) = B := by
    rw [List.filter_eq_self]
    intro b hb
    simp only [Bool.not_eq_true']
    rw [Bool.eq_false_iff]; intro hmem; rw [List.contains_iff_mem] at hmem
    exact hnd'.2.2 _ hmem _ (List.mem_map_of_mem hb) rfl
  rw [hA, hB] at h1
  simpa using h1

theorem c18h_inv_insert (l : Log) (h : Inv l) (key : Bytes) (now : Int)
    (hkey : key.length ≤ l.maxLine) (hnew : ∀ e ∈ l.entries, e.line ≠ key)
    (A B : List Entry) (hp : (A ++ B).Perm l.entries) (sz : Int)
    (hsz : sz = l.size - sumCost A) (hfit : 2 * (key.length : Int) + sz ≤ l.maxB) :
    Inv { l with entries := (l.entries.filter (fun e => !(A.map (·.line)).contains e.line)) ++ [⟨key, [now]⟩],
                 size := sz + 2 * (key.length : Int) } := by
  have hf := c18h_filter_evicted l.entries A B hp h.nodup
  have hsum : sumCost l.entries = sumCost A + sumCost B := by
    rw [← c18h_sumCost_perm hp, sumCost_append]
  have hsub : (l.entries.filter (fun e => !(A.map (·.line)).contains e.line)).Sublist l.entries :=
    List.filter_sublist
  have hex := h.exact
  refine ⟨?_, ?_, ?_, ?_, ?_⟩
  · show sz + 2 * (key.length : Int) = sumCost (_ ++ [(⟨key, [now]⟩ : Entry)])
    rw [sumCost_append, c18h_sumCost_perm hf]; simp [cost]; omega
  · show sumCost (_ ++ [(⟨key, [now]⟩ : Entry)]) ≤ l.maxB
    rw [sumCost_append, c18h_sumCost_perm hf]; simp [cost]; omega
  · intro e he
    rcases List.mem_append.1 he with he | he
    · exact h.nonempty e (hsub.subset he)
    · simp at he; subst he; simp
  · show ((_ ++ [(⟨key, [now]⟩ : Entry)]).map (·.line)).Nodup
    rw [List.map_append, List.nodup_append]
    refine ⟨List.Nodup.sublist (hsub.map _) h.nodup, by simp, ?_⟩
    intro a ha b hb
    simp at hb; subst hb
    obtain ⟨e, he, rfl⟩ := List.mem_map.1 ha
    exact hnew e (hsub.subset he)
  · intro e he
    rcases List.mem_append.1 he with he | he
    · exact h.cut e (hsub.subset he)
    · simp at he; subst he; exact hkey

theorem c18h_printfCore_spec (l : Log) (h : Inv l) (now : Int) (key : Bytes) (hkey : key.length ≤ l.maxLine) :
    ∃ l', c18h_printfCore l now key = some l' ∧ Inv l' ∧
      (2 * (key.length : Int) ≤ l.maxB → ∃ e ∈ l'.entries, e.line = key ∧ e.ups.getLast? = some now) := by
  unfold c18h_printfCore
  simp only []
  split
  · rename_i hbig
    exact ⟨l, rfl, h, fun hh => by omega⟩
  · rename_i hbig
    split
    · rename_i hany
      refine ⟨_, rfl, c18h_inv_bump l h key now, fun _ => ?_⟩
      obtain ⟨e, he, hek⟩ := List.any_eq_true.1 hany
      refine ⟨c18h_bump key now e, List.mem_map_of_mem he, ?_, ?_⟩
      · rw [c18h_bump_line]; simpa using hek
      · unfold c18h_bump; rw [if_pos hek]; simp
    · rename_i hany
      have hnew : ∀ e ∈ l.entries, e.line ≠ key := by
        intro e he hk
        apply hany
        exact List.any_eq_true.2 ⟨e, he, by simpa using hk⟩
      have hlast : ∀ es : List Entry, ∃ e ∈ es ++ [(⟨key, [now]⟩ : Entry)], e.line = key ∧ e.ups.getLast? = some now :=
        fun es => ⟨⟨key, [now]⟩, by simp, rfl, rfl⟩
      by_cases hover : 2 * (key.length : Int) + l.size > l.maxB
      · rw [if_pos hover]
        obtain ⟨order, hord⟩ := c18h_sortByLast_some l.entries h.nonempty
        obtain ⟨hperm, -, -⟩ := c18h_sortByLast_spec_aux _ _ hord
        have hex := h.exact
        obtain ⟨⟨ev, sz⟩, hev⟩ := c18h_evict_some (2 * (key.length : Int)) l.maxB order l.size (by
          rw [c18h_sumCost_perm hperm]; omega)
        obtain ⟨h1, h2, h3, -⟩ := c18h_evict_minimal_aux _ _ _ _ _ _ hev
        simp only [hord, hev]
        refine ⟨_, rfl, ?_, fun _ => hlast _⟩
        obtain ⟨n, hn⟩ : ∃ n, n = ev.length := ⟨_, rfl⟩
        rw [← hn] at h1 h2
        have h1' : ev = ((order.take n).map (·.1)).map (·.line) := by rw [List.map_map]; exact h1
        rw [h1']
        refine c18h_inv_insert l h key now hkey hnew _ ((order.drop n).map (·.1)) ?_ sz h2 h3
        rw [← List.map_append, List.take_append_drop]; exact hperm
      · rw [if_neg hover]
        simp only []
        rw [c18h_evict_nil, if_neg hover]
        simp only []
        refine ⟨_, rfl, ?_, fun _ => hlast _⟩
        exact c18h_inv_insert l h key now hkey hnew [] l.entries (by simp) l.size (by simp) (by omega)

theorem c18h_step_spec (l : Log) (op : Op) (h : Inv l) : ∃ l', step l op = some l' ∧ Inv l' := by
  cases op with
  | printf now raw =>
    obtain ⟨l', h1, h2, -⟩ := c18h_printfCore_spec (expire l now) (c18h_inv_expire l now h) now _ (c18h_cutLine_le l raw)
    exact ⟨l', h1, h2⟩
  | expire now => exact ⟨_, rfl, c18h_inv_expire l now h⟩
  | dump now =>
    obtain ⟨order, hord⟩ := c18h_sortByLast_some (expire l now).entries (c18h_expire_nonempty l now)
    refine ⟨expire l now, ?_, c18h_inv_expire l now h⟩
    simp [step, dump, hord]

theorem c18h_run_spec (l : Log) (ops : List Op) (h : Inv l) : ∃ l', run l ops = some l' ∧ Inv l' := by
  induction ops generalizing l with
  | nil => exact ⟨l, rfl, h⟩
  | cons op ops ih =>
    obtain ⟨l1, h1, hi⟩ := c18h_step_spec l op h
    obtain ⟨l2, h2, hi2⟩ := ih l1 hi
    exact ⟨l2, by simp [run, h1, h2], hi2⟩

theorem c18h_dropWhile_sorted (c : Int) (ups : List Int) (hs : ups.Pairwise (· ≤ ·)) :
    ups.dropWhile (fun t => t < c) = ups.filter (fun t => c ≤ t) := by
  induction ups with
  | nil => rfl
  | cons a r ih =>
    rw [List.pairwise_cons] at hs
    by_cases ha : a < c
    · have : ¬ c ≤ a := by omega
      simp [ha, this, ih hs.2]
    · have hca : c ≤ a := by omega
      have hr : r.filter (fun t => decide (c ≤ t)) = r := by
        rw [List.filter_eq_self]; intro b hb; have := hs.1 b hb; simp; omega
      simp [ha, hca, hr]

theorem inv_init (expiry : Int) (maxB maxLine : Nat) : Inv (init expiry maxB maxLine) := by
  refine ⟨rfl, ?_, ?_, ?_, ?_⟩ <;> simp [init]

/-- No call panics, and every call preserves the invariant (in particular the
size bound and exact accounting, also right after an expiry). -/
theorem c18_step (l : Log) (op : Op) (h : Inv l) : ∃ l', step l op = some l' ∧ Inv l' := by
  exact c18h_step_spec l op h

/-- For every sequence of operations from a fresh logger: no panic, bound and
exact accounting hold at the end (hence, by prefix closure, at every point). -/
theorem c18_run (expiry : Int) (maxB maxLine : Nat) (ops : List Op) :
    ∃ l', run (init expiry maxB maxLine) ops = some l' ∧ Inv l' := by
  exact c18h_run_spec _ ops (inv_init expiry maxB maxLine)

/-- The line as stored: cut to the per-line limit. -/
def cutLine (l : Log) (raw : Bytes) : Bytes := if raw.length > l.maxLine then raw.take l.maxLine else raw

/-- The most recent loggable line is always retained, with `now` as its last update. -/
theorem c18_retained (l : Log) (now : Int) (raw : Bytes) (h : Inv l)
    (hfit : 2 * ((cutLine l raw).length : Int) ≤ l.maxB) :
    ∃ l', printf l now raw = some l' ∧
      ∃ e ∈ l'.entries, e.line = cutLine l raw ∧ e.ups.getLast? = some now := by
  obtain ⟨l', h1, -, h3⟩ := c18h_printfCore_spec (expire l now) (c18h_inv_expire l now h) now _ (c18h_cutLine_le l raw)
  exact ⟨l', h1, h3 hfit⟩

/-- A line that can never fit is dropped and changes nothing but expiry. -/
theorem c18_unloggable (l : Log) (now : Int) (raw : Bytes)
    (hfit : ¬ 2 * ((cutLine l raw).length : Int) ≤ l.maxB) :
    printf l now raw = some (expire l now) := by
  rw [c18h_printf_eq]
  unfold c18h_printfCore
  exact if_pos (Int.not_le.1 hfit)

/-- `sortByLast` yields a permutation of the entries, ascending in last update. -/
theorem c18h_sortByLast_spec (es : List Entry) (order : List (Entry × Int)) (h : sortByLast es = some order) :
    (order.map (·.1)).Perm es ∧ order.Pairwise (fun a b => a.2 ≤ b.2) ∧
    ∀ p ∈ order, lastUp p.1 = some p.2 := by
  exact c18h_sortByLast_spec_aux es order h

/-- Eviction removes a prefix of the least-recently-updated order, and only as
far as needed: after it the line fits, and with one eviction fewer it would not. -/
theorem c18_evict_minimal (need : Int) (maxB : Nat) (order : List (Entry × Int)) (size : Int)
    (ev : List Bytes) (sz : Int) (h : evict need maxB order size = some (ev, sz)) :
    ev = (order.take ev.length).map (·.1.line) ∧
    sz = size - sumCost ((order.take ev.length).map (·.1)) ∧
    need + sz ≤ maxB ∧
    ∀ j, j < ev.length → need + (size - sumCost ((order.take j).map (·.1))) > maxB := by
  exact c18h_evict_minimal_aux need maxB order size ev sz h

/-- Expiry keeps exactly the entries that still have an update at or after the
cut, each with exactly those updates (for entries whose updates are in order). -/
theorem c18_expire_keeps (l : Log) (now : Int) (e : Entry) (he : e ∈ l.entries)
    (hs : e.ups.Pairwise (· ≤ ·)) :
    (∃ t ∈ e.ups, now - l.expiry ≤ t) ↔
      (⟨e.line, e.ups.filter (fun t => now - l.expiry ≤ t)⟩ : Entry) ∈ (expire l now).entries := by
  rw [c18h_expire_entries, List.mem_filter, List.mem_map]
  constructor
  · rintro ⟨t, ht, hc⟩
    refine ⟨⟨e, he, ?_⟩, ?_⟩
    · simp only [c18h_cutUps, c18h_dropWhile_sorted _ _ hs]
    · have : t ∈ e.ups.filter (fun t => now - l.expiry ≤ t) := List.mem_filter.2 ⟨ht, by simpa using hc⟩
      cases hf : e.ups.filter (fun t => now - l.expiry ≤ t) with
      | nil => rw [hf] at this; simp at this
      | cons a r => simp
  · rintro ⟨-, hne⟩
    cases hf : e.ups.filter (fun t => now - l.expiry ≤ t) with
    | nil => rw [hf] at hne; simp at hne
    | cons a r =>
      have : a ∈ e.ups.filter (fun t => now - l.expiry ≤ t) := by rw [hf]; simp
      rw [List.mem_filter] at this
      exact ⟨a, this.1, by simpa using this.2⟩

/-- A dump lists exactly the stored lines, ordered by last update (ascending). -/
theorem c18_dump_sorted (l : Log) (now : Int) (h : Inv l) :
    ∃ l' order, dump l now = some (l', order.map (·.1.line)) ∧ l' = expire l now ∧
      sortByLast l'.entries = some order := by
  obtain ⟨order, hord⟩ := c18h_sortByLast_some (expire l now).entries (c18h_expire_nonempty l now)
  exact ⟨expire l now, order, by simp [dump, hord], rfl, hord⟩

/-- Non-vacuity: the configuration of the repaired defect (20 bytes, 100-byte
lines, two 10-byte lines separated by an expiry) runs without panic and reuses
the freed space. -/
example : (run (init 5 20 100) [.printf 0 (List.replicate 10 97), .printf 15 (List.replicate 10 98)]).map
    (fun l => (l.size, l.entries.map (·.line.length))) = some (20, [10]) := by decide

end Gca.EL
