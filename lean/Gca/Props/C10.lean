import Gca.Client.Model
import Gca.Server.Model
/-
C10 - Sync replies parse to the server's data and are accepted only when authentic.

`buildReply` is what the server writes (managedHandleSyncConn), `parseReply`
what the client reads (staticServerSync); they are written separately, as in
the code. The reply length must fit the 16-bit prefix: beyond 65535 bytes the
prefix wraps and no client can parse the reply (known finding F19, identified by
"reply-over-65535"); `c10_roundtrip` carries that bound as an explicit hypothesis.
-/
namespace Gca.Cl
open Gca

/-- The clock is within 24 h of the signing time (and nothing wraps in 64 bits). -/
def Fresh (now time : Nat) : Prop := 86400 ≤ now ∧ now + 86400 < 2^64 ∧ time ≤ now + 86400 ∧ now - 86400 ≤ time

theorem c10_layout (A B C G I R S T Sg : Bytes)
    (hA : A.length = 32) (hB : B.length = 4) (hC : C.length = 504) (hG : G.length = 32)
    (hI : I.length = 4) (hS : S.length = 64) (hT : T.length = 8) (hSg : Sg.length = 64)
    (resp : Bytes) (hr : resp = A ++ (B ++ (C ++ (G ++ (I ++ (R ++ (S ++ (T ++ Sg)))))))) :
    resp.length = 712 + R.length ∧
    resp.take 32 = A ∧ (resp.drop 32).take 4 = B ∧ (resp.drop 36).take 504 = C ∧
    (resp.drop 540).take 32 = G ∧ (resp.drop 572).take 4 = I ∧
    (resp.drop (576 + R.length)).take 64 = S ∧
    (resp.drop (640 + R.length)).take 8 = T ∧
    resp.drop (648 + R.length) = Sg ∧
    resp.take (648 + R.length) = A ++ (B ++ (C ++ (G ++ (I ++ (R ++ (S ++ T)))))) ∧
    (resp.drop 540).take (36 + R.length) = G ++ (I ++ R) ∧
    (resp.drop 576).take R.length = R := by
  have hlen : resp.length = 712 + R.length := by
    subst hr; simp [*]; omega
  have d32 : resp.drop 32 = B ++ (C ++ (G ++ (I ++ (R ++ (S ++ (T ++ Sg)))))) := by
    rw [hr, drop_app _ _ hA]
  have d36 : resp.drop 36 = C ++ (G ++ (I ++ (R ++ (S ++ (T ++ Sg))))) := by
    rw [show (36:Nat) = 32 + 4 from rfl, ← List.drop_drop, d32, drop_app _ _ hB]
  have d540 : resp.drop 540 = G ++ (I ++ (R ++ (S ++ (T ++ Sg)))) := by
    rw [show (540:Nat) = 36 + 504 from rfl, ← List.drop_drop, d36, drop_app _ _ hC]
  have d572 : resp.drop 572 = I ++ (R ++ (S ++ (T ++ Sg))) := by
    rw [show (572:Nat) = 540 + 32 from rfl, ← List.drop_drop, d540, drop_app _ _ hG]
  have d576 : resp.drop 576 = R ++ (S ++ (T ++ Sg)) := by
    rw [show (576:Nat) = 572 + 4 from rfl, ← List.drop_drop, d572, drop_app _ _ hI]
  have dS : resp.drop (576 + R.length) = S ++ (T ++ Sg) := by
    rw [← List.drop_drop, d576, drop_app _ _ rfl]
  have dT : resp.drop (640 + R.length) = T ++ Sg := by
    rw [show 640 + R.length = 576 + R.length + 64 from by omega, ← List.drop_drop, dS,
      drop_app _ _ hS]
  have dSg : resp.drop (648 + R.length) = Sg := by
    rw [show 648 + R.length = 640 + R.length + 8 from by omega, ← List.drop_drop, dT,
      drop_app _ _ hT]
  refine ⟨hlen, ?_, ?_, ?_, ?_, ?_, ?_, ?_, dSg, ?_, ?_, ?_⟩
  · rw [hr, take_app _ _ hA]
  · rw [d32, take_app _ _ hB]
  · rw [d36, take_app _ _ hC]
  · rw [d540, take_app _ _ hG]
  · rw [d572, take_app _ _ hI]
  · rw [dS, take_app _ _ hS]
  · rw [dT, take_app _ _ hT]
  · have : resp = (A ++ (B ++ (C ++ (G ++ (I ++ (R ++ (S ++ T))))))) ++ Sg := by
      rw [hr]; simp only [List.append_assoc]
    rw [this]
    exact take_app _ _ (by simp [*]; omega)
  · rw [d540]
    have : G ++ (I ++ (R ++ (S ++ (T ++ Sg)))) = (G ++ (I ++ R)) ++ (S ++ (T ++ Sg)) := by
      simp only [List.append_assoc]
    rw [this]
    exact take_app _ _ (by simp [*]; omega)
  · rw [d576, take_app _ _ rfl]

theorem c10_parse_core (V : Verify) (ck gk sk : Key) (now time : Nat)
    (A B C G I R S T Sg : Bytes) (servers : List AuthServer)
    (hA : A.length = 32) (hB : B.length = 4) (hC : C.length = 504) (hG : G.length = 32)
    (hI : I.length = 4) (hS : S.length = 64) (hT : T.length = 8) (hSg : Sg.length = 64)
    (hAk : A = ck) (hf : Fresh now time) (hT' : unle T = time)
    (hv : V sk (A ++ (B ++ (C ++ (G ++ (I ++ (R ++ (S ++ T))))))) Sg = true)
    (hmig : G ≠ zeros 32 → V gk (migrationPrefix ++ (A ++ (G ++ (I ++ R)))) S = true)
    (hdec : AuthServer.decodeList R.length R = some servers)
    (hne : G ≠ zeros 32 → servers ≠ [])
    (hsv : ∀ a ∈ servers, V (if G ≠ zeros 32 then G else gk) (AuthServer.signingBytes a) a.sig = true) :
    parseReply V ck gk sk now (A ++ (B ++ (C ++ (G ++ (I ++ (R ++ (S ++ (T ++ Sg))))))))
      = some ⟨unle B, C, G, unle I, servers⟩ := by
  generalize hr : A ++ (B ++ (C ++ (G ++ (I ++ (R ++ (S ++ (T ++ Sg))))))) = resp
  obtain ⟨hn, t32, tB, tC, tG, tI, tS, tT, dSg, tBody, tMig, tR⟩ :=
    c10_layout A B C G I R S T Sg hA hB hC hG hI hS hT hSg resp hr.symm
  have e72 : resp.length - 72 = 640 + R.length := by omega
  have e64 : resp.length - 64 = 648 + R.length := by omega
  have e136 : resp.length - 136 = 576 + R.length := by omega
  have em : 576 + R.length - 540 = 36 + R.length := by omega
  have er : 576 + R.length - 576 = R.length := Nat.add_sub_cancel_left ..
  obtain ⟨f1, f2, f3, f4⟩ := hf
  have w1 : (now + 86400) % 2^64 = now + 86400 := Nat.mod_eq_of_lt f2
  have w2 : (now + 2^64 - 86400) % 2^64 = now - 86400 := by omega
  unfold parseReply
  simp only [e72, e64, e136, em, er, t32, tB, tC, tG, tI, tS, tT, dSg, tBody, tMig, tR, hT', w1, w2]
  rw [if_neg (by omega), if_neg (by omega), if_neg (by simp [hv]), if_neg (by simp [hAk])]
  rw [if_neg (by intro ⟨h1, h2⟩; simp [hmig h1] at h2)]
  simp only [hdec]
  rw [if_neg (by intro ⟨h1, h2⟩; exact hne h1 h2)]
  rw [if_neg]
  simp only [List.any_eq_true, not_exists, Bool.not_eq_true']
  intro a ⟨ha, h⟩
  rw [hsv a ha] at h
  cases h

/-- Round trip, list of servers (no migration order). -/
theorem c10_roundtrip_servers (V : Verify) (sgn : Bytes → Bytes) (key gcaKey gcasKey : Key)
    (off : Nat) (bits : Bytes) (servers : List AuthServer) (time now : Nat)
    (hk : key.length = 32) (ho : off < 2^32) (hb : bits.length = 504)
    (hs : ∀ a ∈ servers, a.WF) (hf : Fresh now time)
    (hsl : ∀ b, (sgn b).length = 64)
    (hv : ∀ b, V gcasKey b (sgn b) = true)
    (hg : ∀ a ∈ servers, V gcaKey (AuthServer.signingBytes a) a.sig = true) :
    parseReply V key gcaKey gcasKey now (buildReply sgn key off bits none servers time)
      = some ⟨off, bits, zeros 32, 0, servers⟩ := by
  have z36 : zeros 36 = zeros 32 ++ zeros 4 := by decide
  have hz : unle (zeros 4) = 0 := by decide
  have htime : time < 256 ^ 8 := by
    obtain ⟨_, h2, h3, _⟩ := hf
    have : (256 : Nat) ^ 8 = 2 ^ 64 := by decide
    omega
  have hoff : off < 256 ^ 4 := by simpa using ho
  unfold buildReply
  simp only [z36, List.append_assoc]
  have hcore := c10_parse_core V key gcaKey gcasKey now time key (leBytes 4 off) bits (zeros 32)
    (zeros 4) (AuthServer.encodeList servers) (zeros 64) (leBytes 8 time)
    (sgn (key ++ (leBytes 4 off ++ (bits ++ (zeros 32 ++ (zeros 4 ++
      (AuthServer.encodeList servers ++ (zeros 64 ++ leBytes 8 time))))))))
    servers hk (leBytes_length _ _) hb (zeros_length _) (zeros_length _) (zeros_length _)
    (leBytes_length _ _) (hsl _) rfl hf (unle_leBytes_of_lt htime) (hv _)
    (fun h => absurd rfl h)
    (AuthServer.decodeList_encodeList servers hs _ (AuthServer.encodeList_length_ge servers hs))
    (fun h => absurd rfl h)
    (by intro a ha; rw [if_neg (by simp)]; exact hg a ha)
  rw [unle_leBytes_of_lt hoff, hz] at hcore
  exact hcore

/-- Round trip, migration order (at least one new server, each signed by the new GCA;
the order itself signed by the current GCA over the signing bytes with this device's key). -/
theorem c10_roundtrip_migration (V : Verify) (sgn : Bytes → Bytes) (key gcaKey gcasKey : Key)
    (off : Nat) (bits : Bytes) (m : Migration) (time now : Nat)
    (hk : key.length = 32) (ho : off < 2^32) (hb : bits.length = 504)
    (hm : m.WF) (hme : m.equipment = key) (hne : m.newGCA ≠ zeros 32) (hsv : m.servers ≠ [])
    (hf : Fresh now time) (hsl : ∀ b, (sgn b).length = 64) (hv : ∀ b, V gcasKey b (sgn b) = true)
    (hg : V gcaKey (Migration.signingBytes m) m.sig = true)
    (hn : ∀ a ∈ m.servers, V m.newGCA (AuthServer.signingBytes a) a.sig = true) :
    parseReply V key gcaKey gcasKey now (buildReply sgn key off bits (some m) [] time)
      = some ⟨off, bits, m.newGCA, m.newId, m.servers⟩ := by
  obtain ⟨_, hm2, hm3, hm4, hm5⟩ := hm
  have htime : time < 256 ^ 8 := by
    obtain ⟨_, h2, h3, _⟩ := hf
    have : (256 : Nat) ^ 8 = 2 ^ 64 := by decide
    omega
  have hoff : off < 256 ^ 4 := by simpa using ho
  have hid : m.newId < 256 ^ 4 := by simpa using hm3
  unfold buildReply
  simp only [Migration.tail, List.append_assoc]
  have hcore := c10_parse_core V key gcaKey gcasKey now time key (leBytes 4 off) bits m.newGCA
    (leBytes 4 m.newId) (AuthServer.encodeList m.servers) m.sig (leBytes 8 time)
    (sgn (key ++ (leBytes 4 off ++ (bits ++ (m.newGCA ++ (leBytes 4 m.newId ++
      (AuthServer.encodeList m.servers ++ (m.sig ++ leBytes 8 time))))))))
    m.servers hk (leBytes_length _ _) hb hm2 (leBytes_length _ _) hm5
    (leBytes_length _ _) (hsl _) rfl hf (unle_leBytes_of_lt htime) (hv _)
    (fun _ => by
      have : Migration.signingBytes m = migrationPrefix ++ (key ++ (m.newGCA ++
          (leBytes 4 m.newId ++ AuthServer.encodeList m.servers))) := by
        rw [← hme]; rfl
      rw [← this]; exact hg)
    (AuthServer.decodeList_encodeList m.servers hm4 _ (AuthServer.encodeList_length_ge m.servers hm4))
    (fun _ => hsv)
    (by intro a ha; rw [if_pos hne]; exact hn a ha)
  rw [unle_leBytes_of_lt hoff, unle_leBytes_of_lt hid] at hcore
  exact hcore

/-- Binary value of a list of flags, least significant first. -/
def c10_bval : List Bool → Nat
  | [] => 0
  | b :: bs => (if b then 1 else 0) + 2 * c10_bval bs

theorem c10_sum_zipIdx (l : List Bool) (k : Nat) :
    ((l.zipIdx k).map (fun (b, j) => if b then 2^j else 0)).sum = 2^k * c10_bval l := by
  induction l generalizing k with
  | nil => simp [c10_bval]
  | cons b bs ih =>
    simp only [List.zipIdx_cons, List.map_cons, List.sum_cons, ih, c10_bval]
    rw [Nat.pow_succ, Nat.mul_add, Nat.mul_assoc]
    cases b <;> simp

theorem c10_bval_lt (l : List Bool) : c10_bval l < 2 ^ l.length := by
  induction l with
  | nil => simp [c10_bval]
  | cons b bs ih =>
    simp only [c10_bval, List.length_cons, Nat.pow_succ]
    cases b <;> simp <;> omega

theorem c10_bval_bit (l : List Bool) (j : Nat) :
    c10_bval l / 2^j % 2 = if l.getD j false then 1 else 0 := by
  induction l generalizing j with
  | nil => simp [c10_bval]
  | cons b bs ih =>
    cases j with
    | zero =>
      simp only [c10_bval, Nat.pow_zero, Nat.div_one, List.getD_cons_zero]
      cases b <;> simp <;> omega
    | succ j =>
      simp only [c10_bval, List.getD_cons_succ]
      rw [Nat.pow_succ, Nat.mul_comm (2^j) 2, ← Nat.div_div_eq_div_mul]
      have : ((if b = true then 1 else 0) + 2 * c10_bval bs) / 2 = c10_bval bs := by
        cases b <;> simp <;> omega
      rw [this, ih]

theorem c10_packByte_bit (l : List Bool) (hl : l.length ≤ 8) (j : Nat) :
    (packByte l).toNat / 2^j % 2 = if l.getD j false then 1 else 0 := by
  unfold packByte
  rw [c10_sum_zipIdx l 0, Nat.pow_zero, Nat.one_mul, UInt8.toNat_ofNat']
  have h1 := c10_bval_lt l
  have h2 : 2 ^ l.length ≤ 2 ^ 8 := Nat.pow_le_pow_right (by decide) hl
  rw [Nat.mod_eq_of_lt (show c10_bval l < 2 ^ 8 by omega)]
  exact c10_bval_bit l j

theorem c10_packBits_length (n : Nat) (l : List Bool) : (packBits n l).length = n := by
  induction n generalizing l with
  | zero => simp [packBits]
  | succ n ih => simp [packBits, ih]

theorem c10_packBits_bit (n : Nat) : ∀ (l : List Bool) (i : Nat), i < 8 * n →
    bitSet (packBits n l) i = l.getD i false := by
  induction n with
  | zero => intro l i h; omega
  | succ n ih =>
    intro l i h
    by_cases hi : i < 8
    · have e : (packBits (n+1) l).getD (i / 8) 0 = packByte (l.take 8) := by
        rw [Nat.div_eq_of_lt hi]; rfl
      have hlen : (l.take 8).length ≤ 8 := by simp; omega
      have : (l.take 8).getD i false = l.getD i false := by
        simp [List.getD_eq_getElem?_getD, hi]
      unfold bitSet
      simp only [e, Nat.mod_eq_of_lt hi, c10_packByte_bit _ hlen, this]
      cases l.getD i false <;> simp
    · obtain ⟨j, rfl⟩ : ∃ j, i = j + 8 := ⟨i - 8, by omega⟩
      have hb : bitSet (packBits (n+1) l) (j + 8) = bitSet (packBits n (l.drop 8)) j := by
        have e : (packBits (n+1) l).getD ((j + 8) / 8) 0 = (packBits n (l.drop 8)).getD (j / 8) 0 := by
          rw [Nat.add_div_right _ (by decide)]; rfl
        unfold bitSet
        simp only [e, Nat.add_mod_right]
      rw [hb, ih (l.drop 8) j (by omega)]
      simp [List.getD_eq_getElem?_getD, List.getElem?_drop, Nat.add_comm]

/-- Bit `i` of the packed bitfield is flag `i` (server packs, client tests). -/
theorem c10_bit (flags : List Bool) (i : Nat) (hl : flags.length = 4032) (hi : i < 4032) :
    bitSet (packBits 504 flags) i = flags.getD i false ∧ (packBits 504 flags).length = 504 := by
  have _ := hl
  exact ⟨c10_packBits_bit 504 flags i (by omega), c10_packBits_length 504 flags⟩

/-- The server sets flag `i` iff it holds a (possibly banned) record for timeslot `off + i`. -/
theorem c10_flags_meaning (s : Srv.State) (id : Nat) (d : Srv.Dev) (h : s.devices.get id = some d) :
    ∃ mig servers, Srv.sync s id = .syncReply d.auth.key s.off (d.reports.map (fun r => decide (r.p > 0))) mig servers := by
  unfold Srv.sync
  rw [h]
  simp only
  split
  · exact ⟨_, _, rfl⟩
  · exact ⟨_, _, rfl⟩

/-- An unknown (or banned, hence removed) id gets a refusal. -/
theorem c10_unknown_refused (s : Srv.State) (id : Nat) (h : s.devices.get id = none) :
    Srv.sync s id = .syncRefused := by
  simp [Srv.sync, h]

/-! Rejections: each is an error return before anything is handed to the caller. -/

theorem c10_reject_short (V : Verify) (ck gk sk : Key) (now : Nat) (resp : Bytes) (h : resp.length < 712) :
    parseReply V ck gk sk now resp = none := by
  unfold parseReply
  simp only
  rw [if_pos h]

/-- Not signed by the contacted server's key (or altered in any way that makes verification fail). -/
theorem c10_reject_bad_server_signature (V : Verify) (ck gk sk : Key) (now : Nat) (resp : Bytes)
    (h : V sk (resp.take (resp.length - 64)) (resp.drop (resp.length - 64)) = false) :
    parseReply V ck gk sk now resp = none := by
  unfold parseReply
  simp only
  split
  · rfl
  split
  · rfl
  rw [if_pos (by simp [h])]

/-- More than 24 hours away from the client's clock. -/
theorem c10_reject_stale (V : Verify) (ck gk sk : Key) (now : Nat) (resp : Bytes)
    (hn : 86400 ≤ now) (hn2 : now + 86400 < 2^64)
    (h : unle ((resp.drop (resp.length - 72)).take 8) > now + 86400 ∨
         unle ((resp.drop (resp.length - 72)).take 8) < now - 86400) :
    parseReply V ck gk sk now resp = none := by
  have w1 : (now + 86400) % 2^64 = now + 86400 := Nat.mod_eq_of_lt hn2
  have w2 : (now + 2^64 - 86400) % 2^64 = now - 86400 := by omega
  unfold parseReply
  simp only [w1, w2]
  split
  · rfl
  rfl

/-- Bound to another device's key. -/
theorem c10_reject_other_device (V : Verify) (ck gk sk : Key) (now : Nat) (resp : Bytes)
    (h : resp.take 32 ≠ ck) : parseReply V ck gk sk now resp = none := by
  unfold parseReply
  simp only
  split
  · rfl
  split
  · rfl
  split
  · rfl
  rfl

/-- Whatever is accepted carries the required GCA signatures: a migration order
verifies under the CURRENT GCA over the signing bytes that name THIS device, and
every server entry verifies under the new GCA (migration) or the current GCA. -/
theorem c10_accept_implies_signed (V : Verify) (ck gk sk : Key) (now : Nat) (resp : Bytes) (p : Parsed)
    (h : parseReply V ck gk sk now resp = some p) :
    V sk (resp.take (resp.length - 64)) (resp.drop (resp.length - 64)) = true ∧
    resp.take 32 = ck ∧
    (p.newGCA ≠ zeros 32 →
      V gk (migrationPrefix ++ (ck ++ (resp.drop 540).take (resp.length - 136 - 540)))
        ((resp.drop (resp.length - 136)).take 64) = true ∧
      p.servers ≠ [] ∧ ∀ a ∈ p.servers, V p.newGCA (AuthServer.signingBytes a) a.sig = true) ∧
    (p.newGCA = zeros 32 → ∀ a ∈ p.servers, V gk (AuthServer.signingBytes a) a.sig = true) := by
  unfold parseReply at h
  simp only at h
  by_cases c1 : resp.length < 712
  · rw [if_pos c1] at h; cases h
  rw [if_neg c1] at h
  by_cases c2 : (now + 86400) % 2 ^ 64 < unle (List.take 8 (List.drop (resp.length - 72) resp)) ∨
      (now + 2 ^ 64 - 86400) % 2 ^ 64 > unle (List.take 8 (List.drop (resp.length - 72) resp))
  · rw [if_pos c2] at h; cases h
  rw [if_neg c2] at h
  by_cases c3 : (!V sk (resp.take (resp.length - 64)) (resp.drop (resp.length - 64))) = true
  · rw [if_pos c3] at h; cases h
  rw [if_neg c3] at h
  by_cases c4 : resp.take 32 ≠ ck
  · rw [if_pos c4] at h; cases h
  rw [if_neg c4] at h
  have c4' : resp.take 32 = ck := Decidable.of_not_not c4
  have c3' : V sk (resp.take (resp.length - 64)) (resp.drop (resp.length - 64)) = true := by
    simpa using c3
  by_cases c5 : (resp.drop 540).take 32 ≠ zeros 32 ∧
      (!V gk (migrationPrefix ++ (resp.take 32 ++ (resp.drop 540).take (resp.length - 136 - 540)))
        ((resp.drop (resp.length - 136)).take 64)) = true
  · rw [if_pos c5] at h; cases h
  rw [if_neg c5] at h
  generalize AuthServer.decodeList _ _ = d at h
  cases d with
  | none => cases h
  | some servers =>
    simp only at h
    by_cases c6 : (resp.drop 540).take 32 ≠ zeros 32 ∧ servers = []
    · rw [if_pos c6] at h; cases h
    rw [if_neg c6] at h
    by_cases c7 : (servers.any fun a =>
        !V (if (resp.drop 540).take 32 ≠ zeros 32 then (resp.drop 540).take 32 else gk)
          (AuthServer.signingBytes a) a.sig) = true
    · rw [if_pos c7] at h; cases h
    rw [if_neg c7] at h
    cases h
    simp only
    have c7' : ∀ a ∈ servers,
        V (if (resp.drop 540).take 32 ≠ zeros 32 then (resp.drop 540).take 32 else gk)
          (AuthServer.signingBytes a) a.sig = true := by
      intro a ha
      cases hva : V (if (resp.drop 540).take 32 ≠ zeros 32 then (resp.drop 540).take 32 else gk)
          (AuthServer.signingBytes a) a.sig with
      | true => rfl
      | false =>
        exfalso; apply c7
        rw [List.any_eq_true]
        exact ⟨a, ha, by rw [hva]; rfl⟩
    refine ⟨c3', c4', fun hg => ⟨?_, ?_, ?_⟩, fun hg => ?_⟩
    · rw [← c4']
      cases hm : V gk (migrationPrefix ++ (resp.take 32 ++ (resp.drop 540).take (resp.length - 136 - 540)))
        ((resp.drop (resp.length - 136)).take 64) with
      | true => rfl
      | false => exfalso; exact c5 ⟨hg, by rw [hm]; rfl⟩
    · intro hs; exact c6 ⟨hg, hs⟩
    · intro a ha; have := c7' a ha; rwa [if_pos hg] at this
    · intro a ha; have := c7' a ha; rwa [if_neg (by simp [hg])] at this

theorem c10_attempts_keeps (n : Nat) : ∀ (c : Client) (failed : List Key) (ch : List (Key × Attempt)),
    (attempts c n failed ch).1.gcaKey = c.gcaKey ∧ (attempts c n failed ch).1.shortId = c.shortId ∧
    (attempts c n failed ch).1.servers = c.servers ∧ (attempts c n failed ch).1.hist = c.hist ∧
    (attempts c n failed ch).1.diskServers = c.diskServers ∧
    (attempts c n failed ch).1.diskGCA = c.diskGCA ∧
    (attempts c n failed ch).1.diskShortId = c.diskShortId := by
  induction n with
  | zero => intro c failed ch; simp [attempts]
  | succ n ih =>
    intro c failed ch
    cases ch with
    | nil => simp [attempts]
    | cons x rest =>
      obtain ⟨k, a⟩ := x
      simp only [attempts]
      by_cases c1 : (!(c.servers.any fun p => eligible c failed p.1)) = true
      · rw [if_pos c1]; simp
      rw [if_neg c1]
      by_cases c2 : (!eligible c failed k) = true
      · rw [if_pos c2]; simp
      rw [if_neg c2]
      cases a with
      | ok p => simp
      | fail => exact ih { c with primary := k } (k :: failed) rest

/-- A failed attempt changes nothing the property names (identity, GCA, server list, history, files). -/
theorem c10_fail_keeps_state (c : Client) (k : Key) (rest : List (Key × Attempt)) (n : Nat) (failed : List Key) :
    let c' := (attempts c (n+1) failed ((k, .fail) :: rest)).1
    c'.gcaKey = c.gcaKey ∧ c'.shortId = c.shortId ∧ c'.servers = c.servers ∧ c'.hist = c.hist ∧
    c'.diskServers = c.diskServers ∧ c'.diskGCA = c.diskGCA ∧ c'.diskShortId = c.diskShortId := by
  exact c10_attempts_keeps (n+1) c failed ((k, .fail) :: rest)

/-- Non-vacuity: a minimal genuine reply (no servers) parses. -/
example :
    let V : Verify := fun _ _ _ => true
    let sgn : Bytes → Bytes := fun _ => zeros 64
    (parseReply V (zeros 32) (zeros 32) (zeros 32) 100000
      (buildReply sgn (zeros 32) 2016 (zeros 504) none [] 100000)).map (·.off) = some 2016 := by decide +kernel

end Gca.Cl
