import Gca.Client.Model
import Gca.Server.Model
/-
C10 - Sync replies parse to the server's data and are accepted only when authentic.

`buildReply` is what the server writes (managedHandleSyncConn), `parseReply`
what the client reads (staticServerSync); they are written separately, as in
the code. The reply length must fit the 16-bit prefix: beyond 65535 bytes the
prefix wraps and no client can parse the reply (known finding F19, identified by
"reply-over-65535"); `c10_roundtrip` carries that bound as an explicit hypothesis.
-/
namespace Gca.Cl
open Gca

/-- The clock is within 24 h of the signing time (and nothing wraps in 64 bits). -/
def Fresh (now time : Nat) : Prop := 86400 ≤ now ∧ now + 86400 < 2^64 ∧ time ≤ now + 86400 ∧ now - 86400 ≤ time

/-- Round trip, list of servers (no migration order). -/
theorem c10_roundtrip_servers (V : Verify) (sgn : Bytes → Bytes) (key gcaKey gcasKey : Key)
    (off : Nat) (bits : Bytes) (servers : List AuthServer) (time now : Nat)
    (hk : key.length = 32) (ho : off < 2^32) (hb : bits.length = 504)
    (hs : ∀ a ∈ servers, a.WF) (hf : Fresh now time)
    (hsl : ∀ b, (sgn b).length = 64)
    (hv : ∀ b, V gcasKey b (sgn b) = true)
    (hg : ∀ a ∈ servers, V gcaKey (AuthServer.signingBytes a) a.sig = true) :
    parseReply V key gcaKey gcasKey now (buildReply sgn key off bits none servers time)
      = some ⟨off, bits, zeros 32, 0, servers⟩ := by
  sorry

/-- Round trip, migration order (at least one new server, each signed by the new GCA;
the order itself signed by the current GCA over the signing bytes with this device's key). -/
theorem c10_roundtrip_migration (V : Verify) (sgn : Bytes → Bytes) (key gcaKey gcasKey : Key)
    (off : Nat) (bits : Bytes) (m : Migration) (time now : Nat)
    (hk : key.length = 32) (ho : off < 2^32) (hb : bits.length = 504)
    (hm : m.WF) (hme : m.equipment = key) (hne : m.newGCA ≠ zeros 32) (hsv : m.servers ≠ [])
    (hf : Fresh now time) (hsl : ∀ b, (sgn b).length = 64) (hv : ∀ b, V gcasKey b (sgn b) = true)
    (hg : V gcaKey (Migration.signingBytes m) m.sig = true)
    (hn : ∀ a ∈ m.servers, V m.newGCA (AuthServer.signingBytes a) a.sig = true) :
    parseReply V key gcaKey gcasKey now (buildReply sgn key off bits (some m) [] time)
      = some ⟨off, bits, m.newGCA, m.newId, m.servers⟩ := by
  sorry

/-- Bit `i` of the packed bitfield is flag `i` (server packs, client tests). -/
theorem c10_bit (flags : List Bool) (i : Nat) (hl : flags.length = 4032) (hi : i < 4032) :
    bitSet (packBits 504 flags) i = flags.getD i false ∧ (packBits 504 flags).length = 504 := by
  sorry

/-- The server sets flag `i` iff it holds a (possibly banned) record for timeslot `off + i`. -/
theorem c10_flags_meaning (s : Srv.State) (id : Nat) (d : Srv.Dev) (h : s.devices.get id = some d) :
    ∃ mig servers, Srv.sync s id = .syncReply d.auth.key s.off (d.reports.map (fun r => decide (r.p > 0))) mig servers := by
  sorry

/-- An unknown (or banned, hence removed) id gets a refusal. -/
theorem c10_unknown_refused (s : Srv.State) (id : Nat) (h : s.devices.get id = none) :
    Srv.sync s id = .syncRefused := by
  sorry

/-! Rejections: each is an error return before anything is handed to the caller. -/

theorem c10_reject_short (V : Verify) (ck gk sk : Key) (now : Nat) (resp : Bytes) (h : resp.length < 712) :
    parseReply V ck gk sk now resp = none := by
  sorry

/-- Not signed by the contacted server's key (or altered in any way that makes verification fail). -/
theorem c10_reject_bad_server_signature (V : Verify) (ck gk sk : Key) (now : Nat) (resp : Bytes)
    (h : V sk (resp.take (resp.length - 64)) (resp.drop (resp.length - 64)) = false) :
    parseReply V ck gk sk now resp = none := by
  sorry

/-- More than 24 hours away from the client's clock. -/
theorem c10_reject_stale (V : Verify) (ck gk sk : Key) (now : Nat) (resp : Bytes)
    (hn : 86400 ≤ now) (hn2 : now + 86400 < 2^64)
    (h : unle ((resp.drop (resp.length - 72)).take 8) > now + 86400 ∨
         unle ((resp.drop (resp.length - 72)).take 8) < now - 86400) :
    parseReply V ck gk sk now resp = none := by
  sorry

/-- Bound to another device's key. -/
theorem c10_reject_other_device (V : Verify) (ck gk sk : Key) (now : Nat) (resp : Bytes)
    (h : resp.take 32 ≠ ck) : parseReply V ck gk sk now resp = none := by
  sorry

/-- Whatever is accepted carries the required GCA signatures: a migration order
verifies under the CURRENT GCA over the signing bytes that name THIS device, and
every server entry verifies under the new GCA (migration) or the current GCA. -/
theorem c10_accept_implies_signed (V : Verify) (ck gk sk : Key) (now : Nat) (resp : Bytes) (p : Parsed)
    (h : parseReply V ck gk sk now resp = some p) :
    V sk (resp.take (resp.length - 64)) (resp.drop (resp.length - 64)) = true ∧
    resp.take 32 = ck ∧
    (p.newGCA ≠ zeros 32 →
      V gk (migrationPrefix ++ (ck ++ (resp.drop 540).take (resp.length - 136 - 540)))
        ((resp.drop (resp.length - 136)).take 64) = true ∧
      p.servers ≠ [] ∧ ∀ a ∈ p.servers, V p.newGCA (AuthServer.signingBytes a) a.sig = true) ∧
    (p.newGCA = zeros 32 → ∀ a ∈ p.servers, V gk (AuthServer.signingBytes a) a.sig = true) := by
  sorry

/-- A failed attempt changes nothing the property names (identity, GCA, server list, history, files). -/
theorem c10_fail_keeps_state (c : Client) (k : Key) (rest : List (Key × Attempt)) (n : Nat) (failed : List Key) :
    let c' := (attempts c (n+1) failed ((k, .fail) :: rest)).1
    c'.gcaKey = c.gcaKey ∧ c'.shortId = c.shortId ∧ c'.servers = c.servers ∧ c'.hist = c.hist ∧
    c'.diskServers = c.diskServers ∧ c'.diskGCA = c.diskGCA ∧ c'.diskShortId = c.diskShortId := by
  sorry

/-- Non-vacuity: a minimal genuine reply (no servers) parses. -/
example :
    let V : Verify := fun _ _ _ => true
    let sgn : Bytes → Bytes := fun _ => zeros 64
    (parseReply V (zeros 32) (zeros 32) (zeros 32) 100000
      (buildReply sgn (zeros 32) 2016 (zeros 504) none [] 100000)).map (·.off) = some 2016 := by decide +kernel

end Gca.Cl
