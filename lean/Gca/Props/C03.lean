import Gca.Server.Inv
/-
C03 - Weekly statistics equal the accepted reports and never change once archived.
(Signatures: `buildStats` signs `Week.signingBytes`, whose layout is C15; that
the served signature verifies under the server key is checked by execution.)
-/
namespace Gca.Srv

theorem c03h_buildStats_live (sgn : Bytes → Bytes) (s : State) (tso : Nat)
    (h1 : tso % week = 0) (h2 : s.off ≤ tso) (h3 : tso ≤ s.off + week) :
    buildStats sgn s tso =
      some { devs := s.devices.map (fun p => devStats (if tso = s.off + week then week else 0) p.2),
             tso := tso,
             sig := sgn (Week.signingBytes
               ⟨s.devices.map (fun p => devStats (if tso = s.off + week then week else 0) p.2), tso, []⟩) } := by
  unfold buildStats
  rw [if_neg (by simpa using h1), if_neg (by omega), if_neg (by omega)]

theorem c03h_statsQuery_live (sgn : Bytes → Bytes) (s : State) (tso : Nat)
    (h1 : tso % week = 0) (h2 : s.off ≤ tso) (h3 : tso ≤ s.off + week) :
    statsQuery sgn s tso =
      Out.stats {
             devs := s.devices.map (fun p => devStats (if tso = s.off + week then week else 0) p.2),
             tso := tso,
             sig := sgn (Week.signingBytes
               ⟨s.devices.map (fun p => devStats (if tso = s.off + week then week else 0) p.2), tso, []⟩) } := by
  unfold statsQuery
  rw [if_neg (by simpa using h1), if_neg (by omega), c03h_buildStats_live sgn s tso h1 h2 h3]

theorem c03h_shiftList_lo {α} (b : α) (l : List α) (hl : l.length = window) (i : Nat) (hi : i < week) :
    (shiftList b l)[i]? = l[i + week]? := by
  unfold shiftList
  have hd : (l.drop week).length = week := by simp [hl, window, week]
  rw [List.getElem?_append_left (by omega), List.getElem?_drop, Nat.add_comm]

theorem c03h_shiftList_hi {α} (b : α) (l : List α) (hl : l.length = window) (i : Nat) (h1 : week ≤ i)
    (h2 : i < window) : (shiftList b l)[i]? = some b := by
  unfold shiftList
  have hd : (l.drop week).length = week := by simp [hl, window, week]
  rw [List.getElem?_append_right (by omega), hd, List.getElem?_replicate]
  rw [if_pos (by unfold window week at *; omega)]

theorem c03h_rotate_eq (sgn : Bytes → Bytes) (s : State) (w : Week) (hb : buildStats sgn s s.off = some w) :
    rotate sgn s = ({ s with
              history := s.history ++ [w],
              disk := { s.disk with weeks := s.disk.weeks ++ [w] },
              devices := s.devices.map (fun p => (p.1, shiftDev p.2)),
              off := s.off + week }, .ok) := by
  unfold rotate; rw [hb]

/-- Live weeks: the first or second week of the window is served with exactly
the per-slot values and impact rates in memory, one entry per authorized
(non-banned) device, labelled with the requested offset. -/
theorem c03_live (sgn : Bytes → Bytes) (s : State) (tso : Nat) (hinv : Inv s)
    (h : tso = s.off ∨ tso = s.off + week) :
    ∃ w, statsQuery sgn s tso = .stats w ∧ w.tso = tso ∧
      w.devs = s.devices.map (fun p => devStats (tso - s.off) p.2) ∧
      w.sig = sgn (Week.signingBytes { w with sig := [] }) := by
  have hoff := hinv.offHist
  have hmod : s.off % week = 0 := by rw [hoff]; exact Nat.mul_mod_right _ _
  have hmod' : tso % week = 0 := by
    rcases h with h | h <;> subst h <;> simp [hmod]
  have hx : (if tso = s.off + week then week else 0) = tso - s.off := by
    rcases h with h | h <;> subst h <;> simp [week]
  refine ⟨_, c03h_statsQuery_live sgn s tso hmod' (by omega) (by omega), rfl, ?_, rfl⟩
  simp only [hx]

/-- Per slot: entry `i` of a device's live statistics is the power stored for timeslot `tso + i`. -/
theorem c03_live_values (x : Nat) (d : Dev) (i : Nat) (hlen : d.reports.length = window)
    (hil : d.impact.length = window) (hx : x = 0 ∨ x = week) (hi : i < week) :
    (devStats x d).powers[i]? = (d.reports[x + i]?).map (·.p) ∧
    (devStats x d).impacts[i]? = d.impact[x + i]? ∧
    (devStats x d).key = d.auth.key := by
  have _ := And.intro hlen (And.intro hil hx)
  refine ⟨?_, ?_, rfl⟩
  · simp [devStats, List.getElem?_drop, hi]
  · simp [devStats, List.getElem?_drop, hi]

/-- Misaligned and future weeks are refused. -/
theorem c03_refused (sgn : Bytes → Bytes) (s : State) (tso : Nat)
    (h : tso % week ≠ 0 ∨ tso > s.off + week) : statsQuery sgn s tso = .refused := by
  unfold statsQuery
  by_cases hm : tso % week = 0
  · have h2 : tso > s.off + week := by
      rcases h with h | h
      · exact absurd hm h
      · exact h
    rw [if_neg (by simpa using hm), if_neg (by omega)]
    unfold buildStats
    rw [if_neg (by simpa using hm), if_neg (by omega), if_pos h2]
  · rw [if_pos hm]

/-- Archived weeks are served from the history: week `k` is `history[k]`. -/
theorem c03_archived (sgn : Bytes → Bytes) (s : State) (k : Nat) (hinv : Inv s) (hk : k < s.history.length) :
    statsQuery sgn s (week * k) = .stats s.history[k] := by
  have hoff := hinv.offHist
  have hlt : week * k < s.off := by
    rw [hoff]; exact Nat.mul_lt_mul_of_pos_left hk (by unfold week; omega)
  have hdiv : week * k / week = k := Nat.mul_div_cancel_left k (by unfold week; omega)
  unfold statsQuery
  rw [if_neg (by simp), if_pos hlt, hdiv, List.getElem?_eq_getElem hk]

/-- No statistics request can panic (the archive index is always in range). -/
theorem c03_no_panic (sgn : Bytes → Bytes) (s : State) (tso : Nat) (hinv : Inv s) :
    statsQuery sgn s tso ≠ .panic := by
  have hoff := hinv.offHist
  unfold statsQuery
  split
  · simp
  · split
    · rename_i hlt
      have hidx : tso / week < s.history.length := by
        apply Nat.div_lt_of_lt_mul
        rw [← hoff]; exact hlt
      rw [List.getElem?_eq_getElem hidx]
      simp
    · split <;> simp

/-- Rotation: the archived record is what a query for the first live week
would have returned; every slot's value and impact rate moves down by one
week unchanged; the second half is blank; the offset advances by one week. -/
theorem c03_rotate (sgn : Bytes → Bytes) (s : State) (hinv : Inv s) :
    let s' := (rotate sgn s).1
    (rotate sgn s).2 = .ok ∧
    statsQuery sgn s s.off = .stats (s'.history.getLast?.getD default) ∧
    s'.history = s.history ++ [s'.history.getLast?.getD default] ∧
    s'.disk.weeks = s.disk.weeks ++ [s'.history.getLast?.getD default] ∧
    s'.off = s.off + week ∧
    ∀ id d, s.devices.get id = some d → ∃ d', s'.devices.get id = some d' ∧ d'.auth = d.auth ∧
      (∀ i, i < week → d'.reports[i]? = d.reports[i + week]? ∧ d'.impact[i]? = d.impact[i + week]?) ∧
      (∀ i, week ≤ i → i < window → d'.reports[i]? = some Report.zero ∧ d'.impact[i]? = some 0) := by
  have hmod : s.off % week = 0 := by rw [hinv.offHist]; exact Nat.mul_mod_right _ _
  have hb := c03h_buildStats_live sgn s s.off hmod (Nat.le_refl _) (Nat.le_add_right _ _)
  have hq := c03h_statsQuery_live sgn s s.off hmod (Nat.le_refl _) (Nat.le_add_right _ _)
  rw [c03h_rotate_eq sgn s _ hb, hq]
  refine ⟨rfl, ?_, ?_, ?_, rfl, ?_⟩
  · simp
  · simp
  · simp
  · intro id d hd
    obtain ⟨_, hr, hi⟩ := hinv.devOk id d hd
    refine ⟨shiftDev d, ?_, rfl, ?_, ?_⟩
    · show FMap.get (List.map (fun p => (p.1, shiftDev p.2)) s.devices) id = _
      rw [FMap.get_map_val, hd]; rfl
    · intro i hi'
      exact ⟨c03h_shiftList_lo _ _ hr i hi', c03h_shiftList_lo _ _ hi i hi'⟩
    · intro i h1 h2
      exact ⟨c03h_shiftList_hi _ _ hr i h1 h2, c03h_shiftList_hi _ _ hi i h1 h2⟩

/-- Weeks are archived contiguously from week 0, in every reachable state. -/
theorem c03_contiguous (cfg : Cfg) (V : Verify) (sgn : Bytes → Bytes) (s : State) (ops : List Op)
    (hinv : Inv s) (hops : ∀ op ∈ ops, OpWF op) :
    let s' := (run cfg V sgn s ops).1
    s'.off = week * s'.history.length ∧ ∀ k (h : k < s'.history.length), (s'.history[k]).tso = week * k :=
  let h := inv_run cfg V sgn s ops hinv hops
  ⟨h.offHist, h.histTso⟩


theorem c03h_integrate_history (cfg : Cfg) (s s' : State) (r : Report) (b : Bool)
    (h : integrate cfg s r = some (s', b)) : s'.history = s.history := by
  unfold integrate at h
  split at h
  · simp at h
  · split at h
    · simp at h
    · simp at h; rw [← h.1]
    · simp at h; rw [← h.1]

theorem c03h_replayReports_history (cfg : Cfg) (V : Verify) (rs : List Report) (s s' : State)
    (h : replayReports cfg V s rs = some s') : s'.history = s.history := by
  induction rs generalizing s with
  | nil => simp [replayReports] at h; rw [h]
  | cons r rs ih =>
    unfold replayReports at h
    split at h
    · exact ih s h
    · split at h
      · simp at h
      · split at h
        · simp at h
        · split at h
          · simp at h
          · rename_i hi
            rw [ih _ h, c03h_integrate_history _ _ _ _ _ hi]

theorem c03h_replayAuth_history (cfg : Cfg) (s : State) (a : Auth) : (replayAuth cfg s a).history = s.history := by
  unfold replayAuth
  split
  · rfl
  · split
    · split
      · rfl
      · rfl
    · split <;> rfl

theorem c03h_foldl_replayAuth_history (cfg : Cfg) (as : List Auth) (s : State) :
    (as.foldl (replayAuth cfg) s).history = s.history := by
  induction as generalizing s with
  | nil => rfl
  | cons a as ih => simp only [List.foldl_cons]; rw [ih, c03h_replayAuth_history]

theorem c03h_rotate_history (sgn : Bytes → Bytes) (s : State) :
    ∃ t, (rotate sgn s).1.history = s.history ++ t := by
  unfold rotate
  split
  · exact ⟨[], by simp⟩
  · exact ⟨[_], rfl⟩

theorem c03h_catchUp_history (sgn : Bytes → Bytes) (now fuel : Nat) (s : State) :
    ∃ t, (catchUp sgn now fuel s).1.history = s.history ++ t := by
  induction fuel generalizing s with
  | zero => exact ⟨[], by simp [catchUp]⟩
  | succ n ih =>
    unfold catchUp
    split
    · exact ⟨[], by simp⟩
    · obtain ⟨t, ht⟩ := c03h_rotate_history sgn s
      split
      · rename_i s' hr
        rw [hr] at ht
        obtain ⟨t2, ht2⟩ := ih s'
        exact ⟨t ++ t2, by rw [ht2, ht]; simp⟩
      · rename_i s' o _ hr
        rw [hr] at ht
        exact ⟨t, ht⟩


theorem c03h_load_history (cfg : Cfg) (V : Verify) (sgn : Bytes → Bytes) (d : Disk) (tk fresh : Key) (now : Nat)
    (s' : State) (h : load cfg V sgn d tk fresh now = some s') : ∃ t, s'.history = d.weeks ++ t := by
  unfold load at h
  split at h
  rename_i srvPub d' hd'
  have hw : d'.weeks = d.weeks := by
    split at hd' <;> simp at hd' <;> rw [← hd'.2]
  split at h
  · simp at h
  · simp only at h
    split at h
    · simp at h
    · split at h
      · simp at h
      · split at h
        · simp at h
        · rename_i s3 hs3
          split at h
          · rename_i s4 hs4
            simp at h
            subst h
            have h3 : s3.history = d'.weeks := c03h_replayReports_history _ _ _ _ _ hs3
            obtain ⟨t, ht⟩ := c03h_catchUp_history sgn now (now / week + 2) s3
            rw [hs4] at ht
            exact ⟨t, by rw [ht, h3, hw]⟩
          · simp at h


/-- One operation only ever appends to the archive. -/
theorem c03h_step_history (cfg : Cfg) (V : Verify) (sgn : Bytes → Bytes) (s : State) (op : Op) (hinv : Inv s) :
    ∃ t, (step cfg V sgn s op).1.history = s.history ++ t := by
  cases op with
  | rotate => exact c03h_rotate_history sgn s
  | tick now =>
    simp only [step, tick]
    split
    · exact c03h_rotate_history sgn s
    · exact ⟨[], by simp⟩
  | restart fresh now =>
    simp only [step]
    split
    · exact ⟨[], by simp⟩
    · rename_i s' hl
      obtain ⟨t, ht⟩ := c03h_load_history _ _ _ _ _ _ _ _ hl
      exact ⟨t, by rw [ht, hinv.histDisk]⟩
  | dgram now d =>
    refine ⟨[], ?_⟩
    simp only [step, dgram, List.append_nil]
    split
    · rfl
    · split
      · rfl
      · split
        · rfl
        · split
          · rfl
          · split
            · rfl
            · rename_i hi
              exact c03h_integrate_history _ _ _ _ _ hi
  | register k sig =>
    refine ⟨[], ?_⟩
    simp only [step, register, List.append_nil]
    split
    · rfl
    · split <;> rfl
  | authorize a =>
    refine ⟨[], ?_⟩
    simp only [step, authorize, saveEquipment, List.append_nil]
    split
    · rfl
    · split
      · rfl
      · split
        · rfl
        · split
          · split <;> rfl
          · split <;> rfl
  | stats tso => exact ⟨[], by simp [step]⟩
  | sync id => exact ⟨[], by simp [step]⟩
  | authServer a =>
    refine ⟨[], ?_⟩
    simp only [step, authServer, List.append_nil]
    split
    · rfl
    · split
      · rfl
      · split
        · split
          · rfl
          · split <;> rfl
        · rfl
  | migrate m =>
    refine ⟨[], ?_⟩
    simp only [step, migrateOrder, List.append_nil]
    split
    · rfl
    · split <;> rfl
  | impact id ts rate =>
    refine ⟨[], ?_⟩
    simp only [step, impactWrite, List.append_nil]
    split
    · rfl
    · split <;> rfl

/-- The archive of the start state is a prefix of the archive of every later state. -/
theorem c03h_run_history (cfg : Cfg) (V : Verify) (sgn : Bytes → Bytes) (ops : List Op) (s : State)
    (hinv : Inv s) (hops : ∀ op ∈ ops, OpWF op) :
    ∃ t, (run cfg V sgn s ops).1.history = s.history ++ t := by
  induction ops generalizing s with
  | nil => exact ⟨[], by simp [run]⟩
  | cons op ops ih =>
    obtain ⟨t1, h1⟩ := c03h_step_history cfg V sgn s op hinv
    have hinv' := inv_step cfg V sgn s op hinv (hops op (by simp))
    obtain ⟨t2, h2⟩ := ih (step cfg V sgn s op).1 hinv' (fun o ho => hops o (by simp [ho]))
    refine ⟨t1 ++ t2, ?_⟩
    simp only [run]
    rw [h2, h1, List.append_assoc]

/-- Immutability: once a week is archived, the record served for it is
identical forever, whatever requests, reports, bans, rotations or restarts follow. -/
theorem c03_immutable (cfg : Cfg) (V : Verify) (sgn : Bytes → Bytes) (s : State) (ops : List Op)
    (hinv : Inv s) (hops : ∀ op ∈ ops, OpWF op) (k : Nat) (hk : k < s.history.length) :
    statsQuery sgn (run cfg V sgn s ops).1 (week * k) = .stats s.history[k] := by
  obtain ⟨t, ht⟩ := c03h_run_history cfg V sgn ops s hinv hops
  have hinv' := inv_run cfg V sgn s ops hinv hops
  have hk' : k < (run cfg V sgn s ops).1.history.length := by rw [ht]; simp; omega
  rw [c03_archived sgn _ k hinv' hk']
  congr 1
  simp only [ht]
  exact List.getElem_append_left hk

/-- Statistics requests never change the state (so no query parameter can). -/
theorem c03_query_pure (cfg : Cfg) (V : Verify) (sgn : Bytes → Bytes) (s : State) (tso : Nat) :
    (step cfg V sgn s (.stats tso)).1 = s := rfl

/-- Non-vacuity: rotating a state with one stored report archives it at its slot and empties the window. -/
example :
    let a : Auth := ⟨1, zeros 32, 0, 0, 1000, 0, 0, 0, 0, zeros 64⟩
    let r : Report := ⟨1, 5, 500, zeros 64⟩
    let s : State := { devices := [(1, { newDev a with reports := blankReports.set 5 r })], shortIds := [(zeros 32, 1)] }
    let s' := (rotate (fun _ => []) s).1
    s'.off = 2016 ∧ (s'.history.map (fun w => w.devs.map (fun d => d.powers[5]?))) = [[some 500]] ∧
    ((s'.devices.get 1).map (fun d => d.reports[5]?)) = some (some Report.zero) := by decide +kernel

end Gca.Srv
