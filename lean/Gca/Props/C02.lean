import Gca.Server.Model
/-
C02 - One report per device-timeslot; equivocation or over-capacity bans the slot.

`integrateDev` touches one slot of one device. The per-slot behaviour is the
machine `slotStep`; folding any sequence of valid reports for a slot refines the
specification `slotValue`, which depends only on the SET of reports received.
-/
namespace Gca.Srv

/-- A report the UDP path can hand to `integrateReport`: power is not a sentinel. -/
def ValidP (r : Report) : Prop := r.p ≠ 0 ∧ r.p ≠ 1

/-- One report applied to one slot (the body of `integrateReport` after the window guards). -/
def slotStep (cap : Nat) (slot r : Report) : Report :=
  if slot.p = 1 then slot else
  if slot = r then slot else
  let s1 := if slot.p = 0 then r else { slot with p := 1 }
  if overCapacity r.p cap then { s1 with p := 1 } else s1

/-- Specification: the published value as a function of the reports received for the slot. -/
def slotValue (cap : Nat) : List Report → Nat
  | [] => 0
  | r :: rs => if (r :: rs).all (fun x => decide (x = r)) && !overCapacity r.p cap then r.p else 1

theorem c02h_slotStep_banned (cap : Nat) (slot r : Report) (h : slot.p = 1) :
    slotStep cap slot r = slot := by
  simp [slotStep, h]

theorem c02h_foldl_banned (cap : Nat) (slot : Report) (rs : List Report) (h : slot.p = 1) :
    rs.foldl (slotStep cap) slot = slot := by
  induction rs with
  | nil => rfl
  | cons x xs ih => simp [List.foldl_cons, c02h_slotStep_banned cap slot x h, ih]

theorem c02h_foldl_stored (cap : Nat) (r : Report) (rs : List Report) (hr : ValidP r) :
    (rs.foldl (slotStep cap) r).p = if rs.all (fun x => decide (x = r)) then r.p else 1 := by
  induction rs with
  | nil => simp
  | cons x xs ih =>
    rw [List.foldl_cons]
    by_cases hx : r = x
    · subst hx
      have : slotStep cap r r = r := by simp [slotStep]
      rw [this, ih]; simp
    · have hx' : ¬ x = r := fun h => hx h.symm
      have hp : (slotStep cap r x).p = 1 := by
        simp only [slotStep, hr.1, hr.2, hx, if_false]
        split <;> rfl
      rw [c02h_foldl_banned cap _ xs hp, hp]
      simp [hx']

theorem c02h_slotValue_eq (cap : Nat) (r : Report) (rs : List Report) (hmem : r ∈ rs) :
    slotValue cap rs =
      if (∀ x ∈ rs, x = r) ∧ overCapacity r.p cap = false then r.p else 1 := by
  cases rs with
  | nil => simp at hmem
  | cons a t =>
    by_cases ha : a = r
    · subst ha
      simp [slotValue, List.all_eq_true]
    · have h1 : ¬ ∀ x ∈ a :: t, x = r := fun h => ha (h a (by simp))
      have h2 : ¬ ∀ x ∈ a :: t, x = a := fun h => ha (h r hmem).symm
      have h3 : (a :: t).all (fun x => decide (x = a)) = false := by
        rw [Bool.eq_false_iff]; intro h; apply h2
        simpa [List.all_eq_true] using h
      simp only [slotValue, h3, h1, false_and, Bool.false_and, if_false]
      simp

/-- `integrateDev` changes exactly the slot `r.ts - off`, by `slotStep`, and nothing else. -/
theorem c02h_integrateDev_spec (off : Nat) (d : Dev) (r : Report) (hlen : d.reports.length = window)
    (hlo : off ≤ r.ts) (hhi : r.ts < off + window) :
    ∃ d' b, integrateDev off d r = some (d', b) ∧ d'.auth = d.auth ∧ d'.impact = d.impact ∧
      d'.reports.length = window ∧
      d'.reports[r.ts - off]? = some (slotStep d.auth.cap (d.reports[r.ts - off]?.getD Report.zero) r) ∧
      ∀ i, i ≠ r.ts - off → d'.reports[i]? = d.reports[i]? := by
  have hi : r.ts - off < d.reports.length := by rw [hlen]; omega
  have hget : d.reports[r.ts - off]? = some d.reports[r.ts - off] := List.getElem?_eq_getElem hi
  have h1 : ¬ r.ts < off := by omega
  have h2 : ¬ r.ts ≥ off + window := by omega
  simp only [integrateDev, h1, h2, if_false, hget, Option.getD_some]
  generalize d.reports[r.ts - off] = slot at *
  by_cases hb : slot.p = 1
  · refine ⟨d, false, ?_⟩
    simp [hb, slotStep, hlen, hget]
  · by_cases he : slot = r
    · subst he
      refine ⟨d, false, ?_⟩
      simp [hb, slotStep, hlen, hget]
    · simp only [hb, he, if_false, slotStep]
      refine ⟨_, _, rfl, rfl, rfl, ?_, ?_, ?_⟩
      · simp [hlen]
      · simp [hi]
      · intro i hne
        simp [Ne.symm hne]

/-- Outside the window nothing changes. -/
theorem c02h_integrateDev_outside (off : Nat) (d : Dev) (r : Report)
    (h : r.ts < off ∨ off + window ≤ r.ts) : integrateDev off d r = some (d, false) := by
  rcases h with h | h
  · simp [integrateDev, h]
  · have h' : r.ts ≥ off + window := h
    simp [integrateDev, h']

/-- Refinement: folding valid reports over an empty slot gives `slotValue`. -/
theorem c02_fold (cap : Nat) (rs : List Report) (hv : ∀ r ∈ rs, ValidP r) :
    (rs.foldl (slotStep cap) Report.zero).p = slotValue cap rs := by
  cases rs with
  | nil => rfl
  | cons r rs =>
    have hr : ValidP r := hv r (by simp)
    rw [List.foldl_cons]
    have hz : ¬ Report.zero = r := by
      intro h; apply hr.1; rw [← h]; rfl
    by_cases ho : overCapacity r.p cap = true
    · have hp : (slotStep cap Report.zero r).p = 1 := by
        have hzp : Report.zero.p = 0 := rfl
        simp [slotStep, hz, ho, hzp]
      rw [c02h_foldl_banned cap _ rs hp, hp]
      simp [slotValue, ho]
    · have ho' : overCapacity r.p cap = false := by simpa using ho
      have hs : slotStep cap Report.zero r = r := by
        have hzp : Report.zero.p = 0 := rfl
        simp [slotStep, hz, ho', hzp]
      rw [hs, c02h_foldl_stored cap r rs hr]
      simp [slotValue, ho']

/-- The outcome depends only on the set of reports received (so it is invariant
under replays, duplicates and any arrival order). -/
theorem c02_set (cap : Nat) (rs rs' : List Report) (h : ∀ r, r ∈ rs ↔ r ∈ rs') :
    slotValue cap rs = slotValue cap rs' := by
  cases rs with
  | nil =>
    cases rs' with
    | nil => rfl
    | cons a t => exact absurd ((h a).2 (by simp)) (by simp)
  | cons a t =>
    have ha : a ∈ a :: t := by simp
    have ha' : a ∈ rs' := (h a).1 ha
    rw [c02h_slotValue_eq cap a _ ha, c02h_slotValue_eq cap a _ ha']
    have : (∀ x ∈ a :: t, x = a) ↔ (∀ x ∈ rs', x = a) :=
      ⟨fun hh x hx => hh x ((h x).2 hx), fun hh x hx => hh x ((h x).1 hx)⟩
    simp only [this]

theorem c02_perm (cap : Nat) (rs rs' : List Report) (h : rs.Perm rs')
    (hv : ∀ r ∈ rs, ValidP r) :
    (rs.foldl (slotStep cap) Report.zero).p = (rs'.foldl (slotStep cap) Report.zero).p := by
  have hv' : ∀ r ∈ rs', ValidP r := fun r hr => hv r (h.mem_iff.2 hr)
  rw [c02_fold cap rs hv, c02_fold cap rs' hv']
  exact c02_set cap rs rs' (fun r => h.mem_iff)

/-- None gives 0. -/
theorem c02_none (cap : Nat) : slotValue cap [] = 0 := rfl

/-- Exactly one distinct report within capacity gives its value, however often replayed. -/
theorem c02_single (cap : Nat) (r : Report) (n : Nat) (h : overCapacity r.p cap = false) :
    slotValue cap (List.replicate (n+1) r) = r.p := by
  rw [c02h_slotValue_eq cap r _ (by simp)]
  have : ∀ x ∈ List.replicate (n+1) r, x = r := fun x hx => (List.mem_replicate.1 hx).2
  simp [h]

/-- Two distinct reports give the ban sentinel. -/
theorem c02_equivocation (cap : Nat) (rs : List Report) (r r' : Report)
    (h : r ∈ rs) (h' : r' ∈ rs) (hne : r ≠ r') : slotValue cap rs = 1 := by
  rw [c02h_slotValue_eq cap r _ h]
  have : ¬ ∀ x ∈ rs, x = r := fun hh => hne (hh r' h').symm
  simp [this]

/-- Any report over capacity gives the ban sentinel. -/
theorem c02_overcap (cap : Nat) (rs : List Report) (r : Report)
    (h : r ∈ rs) (ho : overCapacity r.p cap = true) : slotValue cap rs = 1 := by
  rw [c02h_slotValue_eq cap r _ h]
  simp [ho]

/-- Over capacity means: non-negative (below 2^63) and more than 135 % of the capacity,
for every 64-bit power and capacity. -/
theorem c02_overcap_meaning (p cap : Nat) (hp : p < 2^64) (hc : cap < 2^64) :
    overCapacity p cap = decide (100 * p > 135 * cap ∧ p < 2^63) := by
  rw [Bool.eq_iff_iff]
  simp only [overCapacity, Bool.and_eq_true, decide_eq_true_eq]
  unfold capLimit
  omega

/-- Once a slot is banned no later report changes it. -/
theorem c02_ban_absorbing (cap : Nat) (slot : Report) (rs : List Report) (h : slot.p = 1) :
    rs.foldl (slotStep cap) slot = slot := by
  exact c02h_foldl_banned cap slot rs h

/-- Reports for another device never touch this device: `integrate` only replaces
the entry of `r.id`. -/
theorem c02_frame_device (cfg : Cfg) (s s' : State) (r : Report) (id : Nat) (hne : id ≠ r.id)
    (b : Bool) (h : integrate cfg s r = some (s', b)) : s'.devices.get id = s.devices.get id := by
  unfold integrate at h
  split at h
  · simp at h
  · split at h
    · simp at h
    · simp at h; obtain ⟨h, _⟩ := h; subst h; rfl
    · simp at h; obtain ⟨h, _⟩ := h; subst h
      exact FMap.get_set_ne _ _ _ _ (Ne.symm hne)

/-- Non-vacuity: replay keeps the value; a second distinct report bans; an
over-capacity report bans (capacity 1000, limit 1350). -/
example : let a : Report := ⟨1, 5, 500, zeros 64⟩; let b : Report := ⟨1, 5, 501, zeros 64⟩
    ([a, a, a].foldl (slotStep 1000) Report.zero).p = 500 ∧
    ([a, b, a].foldl (slotStep 1000) Report.zero).p = 1 ∧
    ([⟨1, 5, 1351, zeros 64⟩].foldl (slotStep 1000) Report.zero).p = 1 ∧
    ([⟨1, 5, 1350, zeros 64⟩].foldl (slotStep 1000) Report.zero).p = 1350 ∧
    ([⟨1, 5, 2^63, zeros 64⟩].foldl (slotStep 1000) Report.zero).p = 2^63 := by decide

end Gca.Srv
