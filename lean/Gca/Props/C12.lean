import Gca.Server.Inv
import Gca.Props.C01
/-
C12 - No untrusted input or peer failure can crash or wedge the server
(the part a model can carry: no modelled handler reaches a panicking
operation - index out of range, nil map entry, nil response - for any input,
clock value and window offset). Blocked reads on idle connections, unreachable
peers' timeouts and bounded shutdown are runtime behaviour: exercised by
execution only (witnesses F4, F10 and the liveness probes of the harness).
-/
namespace Gca.Srv

/-- For every reachable state, every clock value and every request, no handler panics. -/
theorem c12_nopanic (cfg : Cfg) (V : Verify) (sgn : Bytes → Bytes) (s : State) (op : Op)
    (hinv : Inv s) (hop : OpWF op) (hre : ∀ f n, op ≠ .restart f n) :
    (step cfg V sgn s op).2 ≠ .panic := by
  have _ := hop
  cases op with
  | dgram now d => exact c01_nopanic cfg V s now d hinv
  | register k sig =>
    simp only [step, register]
    split
    · simp
    · split <;> simp
  | authorize a =>
    simp only [step, authorize, saveEquipment]
    repeat' split
    all_goals simp
  | rotate =>
    simp only [step, (inv_rotate sgn s hinv).1]
    simp
  | tick now =>
    simp only [step, tick]
    split
    · rw [(inv_rotate sgn s hinv).1]; simp
    · simp
  | restart f n => exact absurd rfl (hre f n)
  | stats tso =>
    simp only [step, statsQuery]
    split
    · simp
    · rename_i hm
      split
      · rename_i hlt
        have hoff := hinv.offHist
        have hw : week = 2016 := rfl
        have hi : tso / week < s.history.length := by
          rw [hoff, hw] at hlt
          rw [hw]
          have hm' : tso % 2016 = 0 := by simpa [hw] using hm
          omega
        rw [List.getElem?_eq_getElem hi]
        simp
      · split <;> simp
  | sync id =>
    simp only [step, sync]
    repeat' split
    all_goals simp
  | authServer a =>
    simp only [step, authServer]
    repeat' split
    all_goals simp
  | migrate m =>
    simp only [step, migrateOrder]
    repeat' split
    all_goals simp
  | impact id ts rate => simp [step]

/-- ... along every sequence of operations. -/
theorem c12_run_nopanic (cfg : Cfg) (V : Verify) (sgn : Bytes → Bytes) (s : State) (ops : List Op)
    (hinv : Inv s) (hops : ∀ op ∈ ops, OpWF op) (hre : ∀ op ∈ ops, ∀ f n, op ≠ .restart f n) :
    Out.panic ∉ (run cfg V sgn s ops).2 := by
  induction ops generalizing s with
  | nil => simp [run]
  | cons op ops ih =>
    have hop : OpWF op := hops op (by simp)
    have h1 := c12_nopanic cfg V sgn s op hinv hop (hre op (by simp))
    have h2 := ih (step cfg V sgn s op).1 (inv_step cfg V sgn s op hinv hop)
      (fun o ho => hops o (by simp [ho])) (fun o ho => hre o (by simp [ho]))
    simp only [run, List.mem_cons, not_or]
    exact ⟨Ne.symm h1, h2⟩

/-- The storage window is never indexed out of range: whatever the clock says
(also `offset+3600 ≤ now`, when reports for `offset+4032` are within the
acceptance range), a report is integrated only at an index below 4032. -/
theorem c12_index_in_range (off : Nat) (d : Dev) (r : Report) (hlen : d.reports.length = window) :
    integrateDev off d r ≠ none := by
  by_cases hw : r.ts < off ∨ off + window ≤ r.ts
  · rw [c02h_integrateDev_outside off d r hw]; simp
  · obtain ⟨d', b, hi, _⟩ := c02h_integrateDev_spec off d r hlen (by omega) (by omega)
    rw [hi]; simp

/-- The impact job's write re-validates the device and the index. -/
theorem c12_impact_safe (s : State) (id ts rate : Nat) (hinv : Inv s) :
    Inv (impactWrite s id ts rate) := by
  have := inv_step {} (fun _ _ _ => false) (fun _ => []) s (.impact id ts rate) hinv trivial
  simpa [step] using this

/-- Non-vacuity: the datagram that used to crash the server (timeslot = offset+4032
while `now = offset+3650`) is dropped. -/
example :
    let a : Auth := ⟨1, zeros 32, 0, 0, 1000, 0, 0, 0, 0, zeros 64⟩
    let s : State := { devices := [(1, newDev a)], shortIds := [(zeros 32, 1)], gcaAvail := true }
    (dgram {} (fun _ _ _ => true) s 3650 (Report.encode ⟨1, 4032, 500, zeros 64⟩)).2 = .dropped := by decide

end Gca.Srv
