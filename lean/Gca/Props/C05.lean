import Gca.Props.C04
/-
C05 - A crash at any point leaves a server that starts and keeps the durable prefix.

Process-crash model of the property: completed system calls persist; an append
of one record and a write of one buffer are atomic; create/truncate and the
following write are separate. In the record-level disk model every operation
changes the disk by at most ONE such action, except:
  * registration (`ioutil.WriteFile`: truncate, then write)  - torn state: empty key file;
  * first start (`os.Create` then `Write` of server.keys)    - torn state: empty key file;
  * (re)start, which re-appends the reports it integrates    - torn states: any prefix of them;
  * catch-up rotations at start, which are ordinary rotations one after another.
(That each operation writes the file BEFORE it updates memory, and appends
without truncating, is tied to the source by the regenerated order facts
`save_equipment_order`, `save_gca_key_order`, `migrate_order` and by the
crash-point runs of the harness.)
So the disks a crash can expose are: the disk before an operation, the disk
after it, and the torn states above. Each of them loads, and what it loads to is
the state before or after the operation.
-/
namespace Gca.Srv

/-! ### Helper lemmas -/

theorem c05h_replayAuth_tempKey (cfg : Cfg) (s : State) (a : Auth) : (replayAuth cfg s a).tempKey = s.tempKey := by
  unfold replayAuth
  split
  · rfl
  · split
    · split <;> rfl
    · split <;> rfl

theorem c05h_foldl_replayAuth_tempKey (cfg : Cfg) (l : List Auth) (s : State) :
    (l.foldl (replayAuth cfg) s).tempKey = s.tempKey := by
  induction l generalizing s with
  | nil => rfl
  | cons a t ih => rw [List.foldl_cons, ih, c05h_replayAuth_tempKey]

theorem c05h_integrate_tempKey (cfg : Cfg) (s s' : State) (r : Report) (b : Bool)
    (h : integrate cfg s r = some (s', b)) : s'.tempKey = s.tempKey := by
  unfold integrate at h
  split at h
  · cases h
  · split at h
    · cases h
    · cases h; rfl
    · cases h; rfl

theorem c05h_replayReports_tempKey (cfg : Cfg) (V : Verify) (s s' : State) (rs : List Report)
    (hr : replayReports cfg V s rs = some s') : s'.tempKey = s.tempKey := by
  induction rs generalizing s with
  | nil => simp only [replayReports] at hr; cases hr; rfl
  | cons r t ih =>
    unfold replayReports at hr
    split at hr
    · exact ih s hr
    · split at hr
      · cases hr
      · split at hr
        · cases hr
        · split at hr
          · cases hr
          · rename_i s1 b hi
            exact (ih s1 hr).trans (c05h_integrate_tempKey cfg s s1 r b hi)

/-- What rotation leaves alone. -/
theorem c05h_rotate_frame (sgn : Bytes → Bytes) (s : State) :
    (rotate sgn s).1.tempKey = s.tempKey ∧ (rotate sgn s).1.srvPub = s.srvPub ∧
    (rotate sgn s).1.gcaAvail = s.gcaAvail ∧ (s.devices = [] → (rotate sgn s).1.devices = []) := by
  unfold rotate
  split
  · exact ⟨rfl, rfl, rfl, fun h => h⟩
  · refine ⟨rfl, rfl, rfl, fun h => ?_⟩
    show s.devices.map _ = []
    rw [h]; rfl

theorem c05h_catchUp_frame (sgn : Bytes → Bytes) (now fuel : Nat) (s : State) :
    (catchUp sgn now fuel s).1.tempKey = s.tempKey ∧ (catchUp sgn now fuel s).1.srvPub = s.srvPub ∧
    (catchUp sgn now fuel s).1.gcaAvail = s.gcaAvail ∧ (s.devices = [] → (catchUp sgn now fuel s).1.devices = []) := by
  induction fuel generalizing s with
  | zero => exact ⟨rfl, rfl, rfl, fun h => h⟩
  | succ n ih =>
    unfold catchUp
    split
    · exact ⟨rfl, rfl, rfl, fun h => h⟩
    · obtain ⟨h1, h2, h3, h4⟩ := c05h_rotate_frame sgn s
      generalize rotate sgn s = p at h1 h2 h3 h4
      obtain ⟨s', o⟩ := p
      simp only at h1 h2 h3 h4
      obtain ⟨g1, g2, g3, g4⟩ := ih s'
      cases o <;> simp only <;>
        first
        | exact ⟨g1.trans h1, g2.trans h2, g3.trans h3, fun h => g4 (h4 h)⟩
        | exact ⟨h1, h2, h3, h4⟩

theorem c05h_loadCore_tempKey (cfg : Cfg) (V : Verify) (d : Disk) (tempKey fresh : Key) (t : State)
    (h : loadCore cfg V d tempKey fresh = some t) : t.tempKey = tempKey := by
  rw [c04h_loadCore_eq] at h
  unfold loadCoreFrom at h
  split at h
  · cases h
  simp only at h
  split at h
  · cases h
  split at h
  · cases h
  have := c05h_replayReports_tempKey cfg V _ t _ h
  rw [this]
  show (List.foldl (replayAuth cfg) _ _).tempKey = tempKey
  rw [c05h_foldl_replayAuth_tempKey]

theorem c05h_load_tempKey (cfg : Cfg) (V : Verify) (sgn : Bytes → Bytes) (d : Disk) (tempKey fresh : Key) (now : Nat)
    (t : State) (h : load cfg V sgn d tempKey fresh now = some t) : t.tempKey = tempKey := by
  rw [load_eq_core] at h
  split at h
  · cases h
  · rename_i s3 hs3
    have h3 := c05h_loadCore_tempKey cfg V d tempKey fresh s3 hs3
    have hc := (c05h_catchUp_frame sgn now (now / week + 2) s3).1
    split at h
    · rename_i s4 hs4
      cases h
      rw [hs4] at hc
      exact hc.trans h3
    · cases h

theorem c05h_saveEquipment_tempKey (cfg : Cfg) (s : State) (a : Auth) :
    (saveEquipment cfg s a).1.tempKey = s.tempKey := by
  unfold saveEquipment
  split
  · rfl
  · split
    · split <;> rfl
    · split <;> rfl

/-- No operation changes the installed temporary key. -/
theorem c05h_step_tempKey (cfg : Cfg) (V : Verify) (sgn : Bytes → Bytes) (s : State) (op : Op) :
    (step cfg V sgn s op).1.tempKey = s.tempKey := by
  cases op with
  | dgram now d =>
    show (dgram cfg V s now d).1.tempKey = _
    unfold dgram
    split
    · rfl
    split
    · rfl
    split
    · rfl
    split
    · rfl
    split
    · rfl
    · rename_i s' b hi
      exact c05h_integrate_tempKey cfg s s' _ b hi
  | register k sig =>
    show (register V s k sig).1.tempKey = _
    unfold register
    split
    · rfl
    split <;> rfl
  | authorize a =>
    show (authorize cfg V s a).1.tempKey = _
    unfold authorize
    split
    · rfl
    split
    · rfl
    · exact c05h_saveEquipment_tempKey cfg s a
  | rotate => exact (c05h_rotate_frame sgn s).1
  | tick now =>
    show (tick sgn s now).1.tempKey = _
    unfold tick
    split
    · exact (c05h_rotate_frame sgn s).1
    · rfl
  | restart fresh now =>
    show (match load cfg V sgn s.disk s.tempKey fresh now with
      | none => (s, Out.startFailed)
      | some s' => (s', Out.ok)).1.tempKey = _
    split
    · rfl
    · rename_i s' hl
      exact c05h_load_tempKey cfg V sgn s.disk s.tempKey fresh now s' hl
  | stats tso => rfl
  | sync id => rfl
  | authServer a =>
    show (authServer V s a).1.tempKey = _
    unfold authServer
    split
    · rfl
    split
    · rfl
    split
    · split
      · rfl
      split <;> rfl
    · rfl
  | migrate m =>
    show (migrateOrder V s m).1.tempKey = _
    unfold migrateOrder
    split
    · rfl
    split <;> rfl
  | impact id ts rate =>
    show (impactWrite s id ts rate).tempKey = _
    unfold impactWrite
    split
    · rfl
    · split <;> rfl

theorem c05h_run_tempKey (cfg : Cfg) (V : Verify) (sgn : Bytes → Bytes) (s : State) (ops : List Op) :
    (run cfg V sgn s ops).1.tempKey = s.tempKey := by
  induction ops generalizing s with
  | nil => rfl
  | cons op t ih =>
    exact (ih (step cfg V sgn s op).1).trans (c05h_step_tempKey cfg V sgn s op)

/-- The disk changed by at most one append. -/
def c05h_One (d d' : Disk) : Prop :=
  d' = d ∨ (∃ a, d' = { d with auths := d.auths ++ [a] }) ∨ (∃ r, d' = { d with reports := d.reports ++ [r] }) ∨
    (∃ w, d' = { d with weeks := d.weeks ++ [w] })

theorem c05h_dgram_disk (cfg : Cfg) (V : Verify) (s : State) (now : Nat) (b : Bytes) :
    c05h_One s.disk (dgram cfg V s now b).1.disk := by
  unfold dgram
  split
  · exact Or.inl rfl
  split
  · exact Or.inl rfl
  split
  · exact Or.inl rfl
  split
  · exact Or.inl rfl
  split
  · exact Or.inl rfl
  · rename_i r _ _ _ s' b hi
    unfold integrate at hi
    split at hi
    · cases hi
    · split at hi
      · cases hi
      · cases hi; exact Or.inl rfl
      · cases hi; exact Or.inr (Or.inr (Or.inl ⟨_, rfl⟩))

theorem c05h_save_disk (cfg : Cfg) (s : State) (a : Auth) :
    c05h_One s.disk (saveEquipment cfg s a).1.disk := by
  unfold saveEquipment
  split
  · exact Or.inl rfl
  · split
    · split
      · exact Or.inl rfl
      · exact Or.inr (Or.inl ⟨a, rfl⟩)
    · split
      · exact Or.inl rfl
      · exact Or.inr (Or.inl ⟨a, rfl⟩)

theorem c05h_rotate_disk (sgn : Bytes → Bytes) (s : State) :
    c05h_One s.disk (rotate sgn s).1.disk := by
  unfold rotate
  split
  · exact Or.inl rfl
  · exact Or.inr (Or.inr (Or.inr ⟨_, rfl⟩))

/-- Loading a disk in sync changes the disk only by re-appending reports that are already in the report file. -/
theorem c05h_load_again (cfg : Cfg) (V : Verify) (s t : State) (fresh : Key) (h : Sync cfg V s)
    (ht : loadCore cfg V s.disk s.tempKey fresh = some t) :
    t.disk.srvKeys = s.disk.srvKeys ∧ t.disk.gcaKey = s.disk.gcaKey ∧ t.disk.auths = s.disk.auths ∧
    t.disk.weeks = s.disk.weeks ∧
    ∃ again, t.disk.reports = s.disk.reports ++ again ∧ ∀ x ∈ again, x ∈ s.disk.reports := by
  obtain ⟨k, hk1, hk2, hk3⟩ := h.keysOk
  have hkeys : loadKeys s.disk fresh = (s.srvPub, s.disk) := by
    unfold loadKeys; rw [hk1]
    cases k with
    | nil => simp at hk2
    | cons c cs => simp only; rw [hk3]
  rw [c04h_loadCore_eq, hkeys] at ht
  simp only at ht
  rw [c04h_loadCoreFrom_eq cfg V s.srvPub s.disk s.tempKey s.gcaKey s.gcaAvail (by rw [hk3]; exact hk2)
    ⟨h.inv.gcaUn, h.inv.gcaAv⟩ h.authSig] at ht
  have hobs1 : aobs (s.disk.auths.foldl (replayAuth cfg) (base s)) = aobs s := by
    rw [c04h_aobs_foldl]; exact (c04h_authSim_iff cfg s).mp h.authSim
  have hP := foldl_replayAuth_LoadP cfg s.disk s.gcaKey s.gcaAvail s.disk.auths (base s)
    ⟨MapsInv.nil, rfl, rfl, rfl, rfl, rfl⟩
  change replayReports cfg V
      { s.disk.auths.foldl (replayAuth cfg) (base s) with
        history := s.disk.weeks, off := loadOff s.disk.weeks } s.disk.reports = some t at ht
  generalize s.disk.auths.foldl (replayAuth cfg) (base s) = s1 at hobs1 hP ht
  obtain ⟨hm, h1, h2, h3, _, _⟩ := hP
  have hwk : ∀ k (hk : k < s.disk.weeks.length), (s.disk.weeks[k]).tso = week * k := by
    rw [h.inv.histDisk]; exact h.inv.histTso
  have hinv2 : Inv { s1 with history := s.disk.weeks, off := loadOff s.disk.weeks } := by
    refine Inv.ofParts hm ⟨c04h_loadOff _ hwk, hwk, ?_⟩ ?_
    · show s1.disk.weeks = s.disk.weeks
      rw [h1]
    · show GcaInv s1.gcaKey s1.gcaAvail s1.disk.gcaKey
      rw [h1, h2, h3]; exact ⟨h.inv.gcaUn, h.inv.gcaAv⟩
  obtain ⟨_, _, hob1⟩ := (c04h_aobs_iff s1 s).mp hobs1
  obtain ⟨hnone1, hsome1⟩ := c04h_aobs_dev hobs1
  have hok : ∀ r ∈ s.disk.reports,
      r.id ∉ ({ s1 with history := s.disk.weeks, off := loadOff s.disk.weeks } : State).bans →
      ∃ d, ({ s1 with history := s.disk.weeks, off := loadOff s.disk.weeks } : State).devices.get r.id = some d ∧
        V d.auth.key (Report.signingBytes r) r.sig = true := by
    intro r hr hb
    have hb' : r.id ∉ s.bans := fun hh => hb ((hob1 r.id).mpr hh)
    obtain ⟨d, g1, g2, _, _⟩ := h.repOk r hr hb'
    obtain ⟨d1, g3, g4⟩ := hsome1 r.id d g1
    exact ⟨d1, g3, by rw [g4]; exact g2⟩
  obtain ⟨t', hrep, hfr, ⟨again, hag1, hag2⟩, _⟩ :=
    c04h_replay_spec cfg V s.disk.reports _ hinv2 hok
  rw [ht] at hrep
  cases hrep
  refine ⟨hfr.srvKeys.trans ?_, hfr.dGca.trans ?_, hfr.auths.trans ?_, hfr.weeks.trans ?_, again, ?_, hag2⟩
  · show s1.disk.srvKeys = _; rw [h1]
  · show s1.disk.gcaKey = _; rw [h1]
  · show s1.disk.auths = _; rw [h1]
  · show s1.disk.weeks = _; rw [h1]
  · rw [hag1]; show s1.disk.reports ++ again = _; rw [h1]

/-! ### The theorems -/

/-- Crash between two operations, or inside one that changes the disk by a
single atomic action: the disk is the disk of the state before or after, both of
which are in sync; restarting yields that state. -/
theorem c05_boundary (cfg : Cfg) (V : Verify) (sgn : Bytes → Bytes) (s : State) (op : Op) (fresh : Key)
    (h : Sync cfg V s) (hop : OpWF op) :
    (∃ t, loadCore cfg V s.disk s.tempKey fresh = some t ∧ ObsEq s t ∧ Sync cfg V t) ∧
    (∃ t, loadCore cfg V (step cfg V sgn s op).1.disk s.tempKey fresh = some t ∧
      ObsEq (step cfg V sgn s op).1 t ∧ Sync cfg V t) := by
  refine ⟨sync_loadCore cfg V s fresh h, ?_⟩
  have h2 := sync_loadCore cfg V (step cfg V sgn s op).1 fresh (sync_step cfg V sgn s op h hop)
  rw [c05h_step_tempKey] at h2
  exact h2

/-- Every operation other than registration and restart changes the disk by at
most one append (so there is no intermediate disk state to consider). -/
theorem c05_single_action (cfg : Cfg) (V : Verify) (sgn : Bytes → Bytes) (s : State) (op : Op)
    (hreg : ∀ k g, op ≠ .register k g) (hre : ∀ f n, op ≠ .restart f n) :
    let d := s.disk; let d' := (step cfg V sgn s op).1.disk
    d' = d ∨ (∃ a, d' = { d with auths := d.auths ++ [a] }) ∨ (∃ r, d' = { d with reports := d.reports ++ [r] }) ∨
    (∃ w, d' = { d with weeks := d.weeks ++ [w] }) := by
  show c05h_One s.disk (step cfg V sgn s op).1.disk
  cases op with
  | dgram now b => exact c05h_dgram_disk cfg V s now b
  | register k g => exact absurd rfl (hreg k g)
  | authorize a =>
    show c05h_One s.disk (authorize cfg V s a).1.disk
    unfold authorize
    split
    · exact Or.inl rfl
    split
    · exact Or.inl rfl
    · exact c05h_save_disk cfg s a
  | rotate => exact c05h_rotate_disk sgn s
  | tick now =>
    show c05h_One s.disk (tick sgn s now).1.disk
    unfold tick
    split
    · exact c05h_rotate_disk sgn s
    · exact Or.inl rfl
  | restart f n => exact absurd rfl (hre f n)
  | stats tso => exact Or.inl rfl
  | sync id => exact Or.inl rfl
  | authServer a =>
    show c05h_One s.disk (authServer V s a).1.disk
    unfold authServer
    split
    · exact Or.inl rfl
    split
    · exact Or.inl rfl
    split
    · split
      · exact Or.inl rfl
      split <;> exact Or.inl rfl
    · exact Or.inl rfl
  | migrate m =>
    show c05h_One s.disk (migrateOrder V s m).1.disk
    unfold migrateOrder
    split
    · exact Or.inl rfl
    split <;> exact Or.inl rfl
  | impact id ts rate =>
    show c05h_One s.disk (impactWrite s id ts rate).disk
    unfold impactWrite
    split
    · exact Or.inl rfl
    · split <;> exact Or.inl rfl

/-- Crash inside registration (key file truncated, not yet written): the server
starts, is unregistered exactly as before, and its GCA can still register. -/
theorem c05_register_torn (cfg : Cfg) (V : Verify) (s : State) (fresh key sig : Key)
    (h : Sync cfg V s) (hu : s.gcaAvail = false) (hk : key.length = 32)
    (hv : V s.tempKey (Registration.signingBytes key) sig = true) :
    ∃ t, loadCore cfg V { s.disk with gcaKey := some [] } s.tempKey fresh = some t ∧ ObsEq s t ∧
      t.tempKey = s.tempKey ∧ (register V t key sig).2 = .ok := by
  have _ := hk
  have hs' : Sync cfg V { s with disk := { s.disk with gcaKey := some [] } } := by
    obtain ⟨hm, hh, hg⟩ := h.inv.parts
    refine c04h_sync_extend cfg V s _ [] h (Inv.ofParts hm hh ⟨fun _ => ⟨(hg.gcaUn hu).1, Or.inr rfl⟩, ?_⟩)
      rfl rfl rfl rfl h.authSig h.noAuthUnreg rfl (by simp) (by intro x hx; cases hx)
      (c04h_devFold_refl _ _ _ h.inv rfl)
    intro hav
    have hav' : s.gcaAvail = true := hav
    rw [hu] at hav'; cases hav'
  obtain ⟨t, ht, ho, _⟩ := sync_loadCore cfg V _ fresh hs'
  have htk : t.tempKey = s.tempKey := c05h_loadCore_tempKey cfg V _ _ fresh t ht
  refine ⟨t, ht, ⟨ho.gcaKey, ho.gcaAvail, ho.auths, ho.reports, ho.short, ho.bans, ho.off, ho.history⟩, htk, ?_⟩
  have hav : t.gcaAvail = false := ho.gcaAvail.trans hu
  unfold register
  rw [hav, htk, hv]
  rfl

/-- Crash during first start (key file created, not yet written): the next start succeeds with fresh keys. -/
theorem c05_keys_torn (cfg : Cfg) (V : Verify) (sgn : Bytes → Bytes) (tempKey fresh : Key) (now : Nat)
    (hf : fresh.length = 32) :
    ∃ t, load cfg V sgn { srvKeys := some [] } tempKey fresh now = some t ∧ t.srvPub = fresh ∧
      t.gcaAvail = false ∧ t.devices = [] := by
  obtain ⟨hc, hs0⟩ := c04h_sync_boot0 cfg V tempKey fresh hf
  have hcore : loadCore cfg V { srvKeys := some [] } tempKey fresh = loadCore cfg V {} tempKey fresh := by
    rw [c04h_loadCore_eq, c04h_loadCore_eq]; rfl
  rw [load_eq_core, hcore, hc]
  simp only
  have h1 := (inv_catchUp sgn now (now / week + 2) _ hs0.inv).1
  obtain ⟨_, g2, g3, g4⟩ := c05h_catchUp_frame sgn now (now / week + 2)
    { tempKey := tempKey, srvPub := fresh, disk := { srvKeys := some fresh } }
  generalize catchUp sgn now (now / week + 2) _ = p at h1 g2 g3 g4
  obtain ⟨s4, o⟩ := p
  simp only at h1 g2 g3 g4
  subst h1
  exact ⟨s4, rfl, g2, g3, g4 trivial⟩

/-- Crash in the middle of a (re)start, after any number `k` of the re-appended
reports: the next start succeeds and reproduces the same observable state. -/
theorem c05_reload_torn (cfg : Cfg) (V : Verify) (s t : State) (fresh : Key) (k : Nat)
    (h : Sync cfg V s) (ht : loadCore cfg V s.disk s.tempKey fresh = some t) :
    ∃ u, loadCore cfg V { t.disk with reports := s.disk.reports ++ (t.disk.reports.drop s.disk.reports.length).take k }
        s.tempKey fresh = some u ∧ ObsEq s u := by
  obtain ⟨h1, h2, h3, h4, again, hag1, hag2⟩ := c05h_load_again cfg V s t fresh h ht
  have hdisk : ({ t.disk with reports := s.disk.reports ++ (t.disk.reports.drop s.disk.reports.length).take k } : Disk) =
      { s.disk with reports := s.disk.reports ++ again.take k } := by
    rw [hag1, List.drop_left]
    show Disk.mk _ _ _ _ _ = Disk.mk _ _ _ _ _
    rw [h1, h2, h3, h4]
  rw [hdisk]
  have hs' : Sync cfg V { s with disk := { s.disk with reports := s.disk.reports ++ again.take k } } := by
    obtain ⟨hm, hh, hg⟩ := h.inv.parts
    have hsub : ∀ x ∈ again.take k, x ∈ s.disk.reports := fun x hx => hag2 x (List.mem_of_mem_take hx)
    refine c04h_sync_extend cfg V s _ (again.take k) h (Inv.ofParts hm hh hg)
      rfl rfl rfl rfl h.authSig h.noAuthUnreg rfl rfl (fun x hx hb => h.repOk x (hsub x hx) hb) ?_
    refine ⟨fun id hd => hd, ?_⟩
    intro id d hd
    refine ⟨d, hd, rfl, (h.inv.devOk id d hd).2.1, ?_⟩
    intro i hi
    rw [h.slots id d hd i hi, Option.getD_some]
    have hnb : id ∉ s.bans := by
      intro hb; rw [h.inv.banned id hb] at hd; cases hd
    rw [c04h_absorb_list]
    · intro x hx
      obtain ⟨hx1, hx2⟩ := List.mem_filter.mp hx
      simp only [decide_eq_true_eq] at hx2
      obtain ⟨_, _, _, hv, _⟩ := h.repOk x hx1 (by rw [hx2.1]; exact hnb)
      exact hv
    · intro x hx
      obtain ⟨hx1, hx2⟩ := List.mem_filter.mp hx
      exact List.mem_filter.mpr ⟨hsub x hx1, hx2⟩
  obtain ⟨u, hu, ho, _⟩ := sync_loadCore cfg V _ fresh hs'
  exact ⟨u, hu, ⟨ho.gcaKey, ho.gcaAvail, ho.auths, ho.reports, ho.short, ho.bans, ho.off, ho.history⟩⟩

/-- Whatever prefix of a history ran before the crash, and whichever of the
above crash states the disk is in, a start succeeds (never fails, never panics). -/
theorem c05_start_succeeds (cfg : Cfg) (V : Verify) (sgn : Bytes → Bytes) (tempKey fresh0 fresh : Key) (now0 now : Nat)
    (s0 : State) (ops : List Op) (hf0 : fresh0.length = 32) (hf : fresh.length = 32)
    (hb : boot cfg V sgn tempKey fresh0 now0 = some s0) (hops : ∀ op ∈ ops, OpWF op) :
    (load cfg V sgn (run cfg V sgn s0 ops).1.disk tempKey fresh now).isSome = true := by
  have _ := hf
  have hs : Sync cfg V (run cfg V sgn s0 ops).1 :=
    sync_run cfg V sgn s0 ops (sync_boot cfg V sgn tempKey fresh0 now0 s0 hf0 hb) hops
  have htk : (run cfg V sgn s0 ops).1.tempKey = tempKey :=
    (c05h_run_tempKey cfg V sgn s0 ops).trans (c05h_load_tempKey cfg V sgn {} tempKey fresh0 now0 s0 hb)
  obtain ⟨t, _, _, _, hl⟩ := c04h_restart_eq cfg V sgn _ fresh now hs
  rw [htk] at hl
  rw [hl]
  rfl

/-- Non-vacuity: register torn state on a fresh server. -/
example :
    let V : Verify := fun _ _ _ => true
    ((boot {} V (fun _ => []) (zeros 32) (zeros 32) 0).bind (fun s0 =>
      (loadCore {} V { s0.disk with gcaKey := some [] } s0.tempKey (zeros 32)).map (fun t =>
        (t.gcaAvail, (register V t (zeros 32) (zeros 64)).2)))) = some (false, .ok) := by decide +kernel

end Gca.Srv
