import Gca.Server.Inv
/-
C07 - GCA registration is one-shot, gated by the temporary key, and irreversible.
`register` is one critical section (lock skeleton of registerGCA), so concurrent
batches are sequences in some order: statements over all operation sequences.
-/
namespace Gca.Srv

/-! ### Helper lemmas: which operations touch `gcaKey` / `gcaAvail` -/

/-- `s'` has the same GCA key and registration flag as `s`. -/
def c07h_SameGca (s s' : State) : Prop := s'.gcaKey = s.gcaKey ∧ s'.gcaAvail = s.gcaAvail

theorem c07h_SameGca.refl (s : State) : c07h_SameGca s s := ⟨rfl, rfl⟩

theorem c07h_SameGca.trans {a b c : State} (h1 : c07h_SameGca a b) (h2 : c07h_SameGca b c) : c07h_SameGca a c :=
  ⟨h2.1.trans h1.1, h2.2.trans h1.2⟩

theorem c07h_same_integrate (cfg : Cfg) (s s' : State) (r : Report) (b : Bool)
    (h : integrate cfg s r = some (s', b)) : c07h_SameGca s s' := by
  unfold integrate at h
  split at h
  · simp at h
  · split at h
    · simp at h
    · simp at h; obtain ⟨rfl, _⟩ := h; exact c07h_SameGca.refl _
    · simp at h; obtain ⟨rfl, _⟩ := h; exact ⟨rfl, rfl⟩

theorem c07h_same_banDevice (s : State) (id : Nat) (cur : Auth) : c07h_SameGca s (banDevice s id cur) :=
  ⟨rfl, rfl⟩

theorem c07h_same_replayAuth (cfg : Cfg) (s : State) (a : Auth) : c07h_SameGca s (replayAuth cfg s a) := by
  unfold replayAuth
  split
  · exact c07h_SameGca.refl _
  · split
    · split
      · exact c07h_SameGca.refl _
      · exact ⟨rfl, rfl⟩
    · split
      · exact c07h_SameGca.refl _
      · exact ⟨rfl, rfl⟩

theorem c07h_same_foldl_replayAuth (cfg : Cfg) (l : List Auth) (s : State) :
    c07h_SameGca s (l.foldl (replayAuth cfg) s) := by
  induction l generalizing s with
  | nil => exact c07h_SameGca.refl _
  | cons a l ih => exact (c07h_same_replayAuth cfg s a).trans (ih _)

theorem c07h_same_replayReports (cfg : Cfg) (V : Verify) (rs : List Report) (s s' : State)
    (h : replayReports cfg V s rs = some s') : c07h_SameGca s s' := by
  induction rs generalizing s with
  | nil => simp [replayReports] at h; subst h; exact c07h_SameGca.refl _
  | cons r rs ih =>
    unfold replayReports at h
    split at h
    · exact ih _ h
    · split at h
      · simp at h
      · split at h
        · simp at h
        · split at h
          · simp at h
          · rename_i hi
            exact (c07h_same_integrate cfg _ _ _ _ hi).trans (ih _ h)

theorem c07h_same_rotate (sgn : Bytes → Bytes) (s : State) : c07h_SameGca s (rotate sgn s).1 := by
  unfold rotate
  split
  · exact c07h_SameGca.refl _
  · exact ⟨rfl, rfl⟩

theorem c07h_same_catchUp (sgn : Bytes → Bytes) (now fuel : Nat) (s : State) :
    c07h_SameGca s (catchUp sgn now fuel s).1 := by
  induction fuel generalizing s with
  | zero => exact c07h_SameGca.refl _
  | succ fuel ih =>
    unfold catchUp
    split
    · exact c07h_SameGca.refl _
    · have hr := c07h_same_rotate sgn s
      split
      · rename_i s' heq
        rw [heq] at hr
        exact hr.trans (ih s')
      · rename_i s' o _ heq
        rw [heq] at hr
        exact hr

theorem c07h_same_tick (sgn : Bytes → Bytes) (s : State) (now : Nat) : c07h_SameGca s (tick sgn s now).1 := by
  unfold tick
  split
  · exact c07h_same_rotate sgn s
  · exact c07h_SameGca.refl _

theorem c07h_same_dgram (cfg : Cfg) (V : Verify) (s : State) (now : Nat) (d : Bytes) :
    c07h_SameGca s (dgram cfg V s now d).1 := by
  unfold dgram
  split
  · exact c07h_SameGca.refl _
  · split
    · exact c07h_SameGca.refl _
    · split
      · exact c07h_SameGca.refl _
      · split
        · exact c07h_SameGca.refl _
        · split
          · exact c07h_SameGca.refl _
          · rename_i hi
            exact c07h_same_integrate cfg _ _ _ _ hi

theorem c07h_same_saveEquipment (cfg : Cfg) (s : State) (a : Auth) : c07h_SameGca s (saveEquipment cfg s a).1 := by
  unfold saveEquipment
  split
  · exact c07h_SameGca.refl _
  · split
    · split
      · exact c07h_SameGca.refl _
      · exact ⟨rfl, rfl⟩
    · split
      · exact c07h_SameGca.refl _
      · exact ⟨rfl, rfl⟩

theorem c07h_same_authorize (cfg : Cfg) (V : Verify) (s : State) (a : Auth) :
    c07h_SameGca s (authorize cfg V s a).1 := by
  unfold authorize
  split
  · exact c07h_SameGca.refl _
  · split
    · exact c07h_SameGca.refl _
    · exact c07h_same_saveEquipment cfg s a

theorem c07h_same_authServer (V : Verify) (s : State) (a : AuthServer) : c07h_SameGca s (authServer V s a).1 := by
  unfold authServer
  split
  · exact c07h_SameGca.refl _
  · split
    · exact c07h_SameGca.refl _
    · split
      · split
        · exact c07h_SameGca.refl _
        · split
          · exact c07h_SameGca.refl _
          · exact ⟨rfl, rfl⟩
      · exact ⟨rfl, rfl⟩

theorem c07h_same_migrateOrder (V : Verify) (s : State) (m : Migration) :
    c07h_SameGca s (migrateOrder V s m).1 := by
  unfold migrateOrder
  split
  · exact c07h_SameGca.refl _
  · split
    · exact c07h_SameGca.refl _
    · exact ⟨rfl, rfl⟩

theorem c07h_same_impactWrite (s : State) (id ts rate : Nat) : c07h_SameGca s (impactWrite s id ts rate) := by
  unfold impactWrite
  split
  · exact c07h_SameGca.refl _
  · split
    · exact ⟨rfl, rfl⟩
    · exact c07h_SameGca.refl _

/-- What a successful start reads from the GCA key file. -/
theorem c07h_load_gca (cfg : Cfg) (V : Verify) (sgn : Bytes → Bytes) (d : Disk) (tempKey fresh : Key)
    (now : Nat) (s' : State) (h : load cfg V sgn d tempKey fresh now = some s') :
    ((d.gcaKey = none ∨ d.gcaKey = some []) → s'.gcaAvail = false) ∧
    (∀ k, d.gcaKey = some k → k.length = 32 → s'.gcaAvail = true ∧ s'.gcaKey = k) := by
  unfold load at h
  split at h
  rename_i x srvPub d' heq
  have hd : d'.gcaKey = d.gcaKey := by
    split at heq <;> (cases heq; rfl)
  clear heq
  split at h
  · simp at h
  · dsimp only at h
    split at h
    · simp at h
    · rename_i gk gcaKey avail hgk
      split at h
      · simp at h
      · split at h
        · simp at h
        · rename_i s3 h3
          split at h
          · rename_i s4 h4
            have e1 := c07h_same_foldl_replayAuth cfg d'.auths
              { gcaKey := gcaKey, gcaAvail := avail, tempKey := tempKey, srvPub := srvPub, disk := d' }
            have e3 := c07h_same_replayReports cfg V _ _ _ h3
            have e4 := c07h_same_catchUp sgn now (now / week + 2) s3
            rw [h4] at e4
            simp at h; subst h
            have hk : s4.gcaKey = gcaKey := by
              rw [e4.1, e3.1]; exact e1.1
            have ha : s4.gcaAvail = avail := by
              rw [e4.2, e3.2]; exact e1.2
            rw [hd] at hgk
            rw [hk, ha]
            constructor
            · rintro (h0 | h0) <;> (rw [h0] at hgk; simp at hgk; exact hgk.2)
            · intro k hk' hlen
              rw [hk'] at hgk
              cases k with
              | nil => simp at hlen
              | cons b bs =>
                dsimp only at hgk
                rw [if_pos hlen] at hgk
                cases hgk
                exact ⟨rfl, rfl⟩
          · simp at h



/-- A start only succeeds on a log of authorizations every one of which carries a signature of the GCA key
the server ends up with: a record that does not verify (a flipped bit, a foreign record) makes the start
fail - it is never skipped. -/
theorem c07_start_verifies_log (cfg : Cfg) (V : Verify) (sgn : Bytes → Bytes) (d : Disk) (tempKey fresh : Key)
    (now : Nat) (s' : State) (h : load cfg V sgn d tempKey fresh now = some s') :
    ∀ a ∈ d.auths, V s'.gcaKey (Auth.signingBytes a) a.sig = true := by
  unfold load at h
  split at h
  rename_i x srvPub d' heq
  have hd : d'.auths = d.auths := by
    split at heq <;> (cases heq; rfl)
  clear heq
  split at h
  · simp at h
  · dsimp only at h
    split at h
    · simp at h
    · rename_i gk gcaKey avail hgk
      split at h
      · simp at h
      · rename_i hany
        split at h
        · simp at h
        · rename_i s3 h3
          split at h
          · rename_i s4 h4
            have e1 := c07h_same_foldl_replayAuth cfg d'.auths
              { gcaKey := gcaKey, gcaAvail := avail, tempKey := tempKey, srvPub := srvPub, disk := d' }
            have e3 := c07h_same_replayReports cfg V _ _ _ h3
            have e4 := c07h_same_catchUp sgn now (now / week + 2) s3
            rw [h4] at e4
            simp at h; subst h
            have hk : s4.gcaKey = gcaKey := by
              rw [e4.1, e3.1]; exact e1.1
            intro a ha
            rw [hk]
            rw [← hd] at ha
            have := hany
            simp only [List.any_eq_true, not_exists, not_and, Bool.not_eq_true'] at this
            have h2 := this a ha
            simpa using h2
          · simp at h

/-- The filter predicate of `c07_once`: an accepted registration. -/
def c07h_isAcc : Op × Out → Bool := fun p => match p with | (.register _ _, .ok) => true | _ => false

theorem c07h_run_cons (cfg : Cfg) (V : Verify) (sgn : Bytes → Bytes) (s : State) (op : Op) (ops : List Op) :
    run cfg V sgn s (op :: ops) =
      ((run cfg V sgn (step cfg V sgn s op).1 ops).1,
       (step cfg V sgn s op).2 :: (run cfg V sgn (step cfg V sgn s op).1 ops).2) := rfl

/-- One step from a registered state: key and flag stay, and a registration is not accepted. -/
theorem c07h_step_avail_true (cfg : Cfg) (V : Verify) (sgn : Bytes → Bytes) (s : State) (op : Op)
    (hinv : Inv s) (h : s.gcaAvail = true) :
    c07h_SameGca s (step cfg V sgn s op).1 ∧ c07h_isAcc (op, (step cfg V sgn s op).2) = false := by
  cases op with
  | dgram now d => exact ⟨c07h_same_dgram cfg V s now d, rfl⟩
  | register k sig =>
    simp only [step, register, h, if_true]
    exact ⟨c07h_SameGca.refl _, rfl⟩
  | authorize a => exact ⟨c07h_same_authorize cfg V s a, rfl⟩
  | rotate => exact ⟨c07h_same_rotate sgn s, rfl⟩
  | tick now => exact ⟨c07h_same_tick sgn s now, rfl⟩
  | restart fresh now =>
    refine ⟨?_, rfl⟩
    simp only [step]
    split
    · exact c07h_SameGca.refl _
    · rename_i s' hl
      obtain ⟨hd, hlen⟩ := hinv.gcaAv h
      have := (c07h_load_gca cfg V sgn s.disk s.tempKey fresh now s' hl).2 _ hd hlen
      exact ⟨this.2, this.1.trans h.symm⟩
  | stats tso => exact ⟨c07h_SameGca.refl _, rfl⟩
  | sync id => exact ⟨c07h_SameGca.refl _, rfl⟩
  | authServer a => exact ⟨c07h_same_authServer V s a, rfl⟩
  | migrate m => exact ⟨c07h_same_migrateOrder V s m, rfl⟩
  | impact id ts rate => exact ⟨c07h_same_impactWrite s id ts rate, rfl⟩

/-- One step from an unregistered state stays unregistered unless it is an accepted registration. -/
theorem c07h_step_avail_false (cfg : Cfg) (V : Verify) (sgn : Bytes → Bytes) (s : State) (op : Op)
    (hinv : Inv s) (h : s.gcaAvail = false) (hacc : c07h_isAcc (op, (step cfg V sgn s op).2) = false) :
    (step cfg V sgn s op).1.gcaAvail = false := by
  cases op with
  | dgram now d => exact (c07h_same_dgram cfg V s now d).2.trans h
  | register k sig =>
    simp only [step, register, h] at hacc ⊢
    cases hv : V s.tempKey (Registration.signingBytes k) sig with
    | false => simpa using h
    | true => simp [hv, c07h_isAcc] at hacc
  | authorize a => exact (c07h_same_authorize cfg V s a).2.trans h
  | rotate => exact (c07h_same_rotate sgn s).2.trans h
  | tick now => exact (c07h_same_tick sgn s now).2.trans h
  | restart fresh now =>
    simp only [step]
    split
    · exact h
    · rename_i s' hl
      exact (c07h_load_gca cfg V sgn s.disk s.tempKey fresh now s' hl).1 (hinv.gcaUn h).2
  | stats tso => exact h
  | sync id => exact h
  | authServer a => exact (c07h_same_authServer V s a).2.trans h
  | migrate m => exact (c07h_same_migrateOrder V s m).2.trans h
  | impact id ts rate => exact (c07h_same_impactWrite s id ts rate).2.trans h

/-- An accepted registration leaves the state registered. -/
theorem c07h_step_acc (cfg : Cfg) (V : Verify) (sgn : Bytes → Bytes) (s : State) (op : Op)
    (hacc : c07h_isAcc (op, (step cfg V sgn s op).2) = true) :
    (step cfg V sgn s op).1.gcaAvail = true := by
  cases op with
  | register k sig =>
    simp only [step, register] at hacc ⊢
    split
    · rename_i hv; simp [hv, c07h_isAcc] at hacc
    · split
      · rename_i hv; simp [hv, c07h_isAcc] at hacc
      · rfl
  | _ => simp [c07h_isAcc] at hacc

theorem c07h_once_aux (cfg : Cfg) (V : Verify) (sgn : Bytes → Bytes) (ops : List Op) (s : State)
    (hinv : Inv s) (hops : ∀ op ∈ ops, OpWF op) :
    (s.gcaAvail = true → ((ops.zip (run cfg V sgn s ops).2).filter c07h_isAcc).length = 0) ∧
    ((ops.zip (run cfg V sgn s ops).2).filter c07h_isAcc).length ≤ 1 := by
  induction ops generalizing s with
  | nil => simp [run]
  | cons op ops ih =>
    have hop : OpWF op := hops op (List.mem_cons_self ..)
    have hinv' := inv_step cfg V sgn s op hinv hop
    have ih' := ih (step cfg V sgn s op).1 hinv' (fun o ho => hops o (List.mem_cons_of_mem _ ho))
    rw [c07h_run_cons]
    simp only [List.zip_cons_cons, List.filter_cons]
    cases hav : s.gcaAvail with
    | true =>
      have ht := c07h_step_avail_true cfg V sgn s op hinv hav
      have h0 := ih'.1 (ht.1.2.trans hav)
      simp only [ht.2]
      simp [h0]
    | false =>
      cases hacc : c07h_isAcc (op, (step cfg V sgn s op).2) with
      | true =>
        have h0 := ih'.1 (c07h_step_acc cfg V sgn s op hacc)
        simp [h0]
      | false =>
        simp only [Bool.false_eq_true, if_false, false_implies, true_and]
        exact ih'.2

/-- A registration is accepted only when none was accepted before and the
signature verifies under the pre-installed temporary key. -/
theorem c07_gate (V : Verify) (s : State) (key sig : Bytes) :
    (register V s key sig).2 = .ok ↔
      (s.gcaAvail = false ∧ V s.tempKey (Registration.signingBytes key) sig = true) := by
  unfold register
  cases ha : s.gcaAvail <;> cases hv : V s.tempKey (Registration.signingBytes key) sig <;> simp

/-- An accepted registration installs exactly the submitted key, in memory and on disk. -/
theorem c07_installs (V : Verify) (s : State) (key sig : Bytes) (h : (register V s key sig).2 = .ok) :
    (register V s key sig).1.gcaKey = key ∧ (register V s key sig).1.gcaAvail = true ∧
    (register V s key sig).1.disk.gcaKey = some key := by
  have hg := (c07_gate V s key sig).1 h
  simp [register, hg.1, hg.2]

/-- Until a registration is accepted the server authorizes no equipment. -/
theorem c07_no_authorization_before (cfg : Cfg) (V : Verify) (s : State) (a : Auth) (h : s.gcaAvail = false) :
    authorize cfg V s a = (s, .refused) := by
  simp [authorize, h]

/-- Irreversible: once a key is registered, no operation sequence whatsoever
(including registrations signed by the temporary key or by the GCA itself, and
restarts) changes it. -/
theorem c07_irreversible (cfg : Cfg) (V : Verify) (sgn : Bytes → Bytes) (s : State) (ops : List Op)
    (hinv : Inv s) (hops : ∀ op ∈ ops, OpWF op) (h : s.gcaAvail = true) :
    (run cfg V sgn s ops).1.gcaAvail = true ∧ (run cfg V sgn s ops).1.gcaKey = s.gcaKey := by
  induction ops generalizing s with
  | nil => exact ⟨h, rfl⟩
  | cons op ops ih =>
    have hop : OpWF op := hops op (List.mem_cons_self ..)
    have hinv' := inv_step cfg V sgn s op hinv hop
    have ht := (c07h_step_avail_true cfg V sgn s op hinv h).1
    have ih' := ih (step cfg V sgn s op).1 hinv' (fun o ho => hops o (List.mem_cons_of_mem _ ho))
      (ht.2.trans h)
    rw [c07h_run_cons]
    exact ⟨ih'.1, ih'.2.trans ht.1⟩

/-- Exactly one: in any operation sequence at most one registration is accepted. -/
theorem c07_once (cfg : Cfg) (V : Verify) (sgn : Bytes → Bytes) (s : State) (ops : List Op)
    (hinv : Inv s) (hops : ∀ op ∈ ops, OpWF op) :
    ((ops.zip (run cfg V sgn s ops).2).filter
      (fun p => match p with | (.register _ _, .ok) => true | _ => false)).length ≤ 1 := by
  exact (c07h_once_aux cfg V sgn ops s hinv hops).2

/-- Authority: equipment authorizations, server authorizations and migration
orders are honoured only if they verify under the key in `gcaKey`, which is the
registered key (or the all-zero key before registration, under which the
signature scheme verifies nothing - assumption `hzero`). -/
theorem c07_authority_authorize (cfg : Cfg) (V : Verify) (s : State) (a : Auth)
    (h : (authorize cfg V s a).2 = .okNew ∨ (authorize cfg V s a).2 = .ok ∨ (authorize cfg V s a).2 = .banned) :
    s.gcaAvail = true ∧ V s.gcaKey (Auth.signingBytes a) a.sig = true := by
  unfold authorize at h
  cases ha : s.gcaAvail <;> cases hv : V s.gcaKey (Auth.signingBytes a) a.sig <;> simp [ha, hv] at h ⊢

theorem c07_authority_server (V : Verify) (s : State) (a : AuthServer)
    (h : (authServer V s a).1 ≠ s) : V s.gcaKey (AuthServer.signingBytes a) a.sig = true := by
  unfold authServer at h
  cases hv : V s.gcaKey (AuthServer.signingBytes a) a.sig
  · simp [hv] at h
  · rfl

theorem c07_authority_migration (V : Verify) (s : State) (m : Migration)
    (h : (migrateOrder V s m).1 ≠ s) : V s.gcaKey (Migration.signingBytes m) m.sig = true := by
  unfold migrateOrder at h
  cases hv : V s.gcaKey (Migration.signingBytes m) m.sig
  · simp [hv] at h
  · rfl

/-- Before registration nothing is honoured at all (zero key verifies nothing). -/
theorem c07_nothing_before_registration (V : Verify) (s : State) (hinv : Inv s) (h : s.gcaAvail = false)
    (hzero : ∀ m sg, V (zeros 32) m sg = false) (a : AuthServer) (m : Migration) :
    authServer V s a = (s, .refused) ∧ migrateOrder V s m = (s, .refused) := by
  have hk := (hinv.gcaUn h).1
  constructor
  · simp [authServer, hk, hzero]
  · simp [migrateOrder, hk, hzero]

/-- Non-vacuity: a first registration succeeds, a second (even identical) one is refused. -/
example :
    let V : Verify := fun _ _ _ => true
    let s1 := (register V {} (zeros 32) (zeros 64))
    s1.2 = .ok ∧ (register V s1.1 (zeros 32) (zeros 64)).2 = .refused := by decide

end Gca.Srv
