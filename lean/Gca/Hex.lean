import Gca.Basic
/- Hex encoding/decoding and small parsing helpers for the line protocol. -/
namespace Gca

def hexDigit (n : Nat) : Char := if n < 10 then Char.ofNat (48 + n) else Char.ofNat (87 + n)

def hexOfBytes (b : Bytes) : String :=
  String.ofList (b.foldr (fun x acc => hexDigit (x.toNat / 16) :: hexDigit (x.toNat % 16) :: acc) [])

def hexVal (c : Char) : Option Nat :=
  if '0' ≤ c ∧ c ≤ '9' then some (c.toNat - 48)
  else if 'a' ≤ c ∧ c ≤ 'f' then some (c.toNat - 87)
  else if 'A' ≤ c ∧ c ≤ 'F' then some (c.toNat - 55)
  else none

def bytesOfHexAux : List Char → Bytes → Option Bytes
  | [], acc => some acc.reverse
  | [_], _ => none
  | a :: b :: r, acc => match hexVal a, hexVal b with
    | some x, some y => bytesOfHexAux r (UInt8.ofNat (16 * x + y) :: acc)
    | _, _ => none

def bytesOfHex (s : String) : Option Bytes :=
  if s = "-" then some [] else bytesOfHexAux s.toList []

/-- `hexOfBytes` with "-" for the empty string (so that tokens are never empty). -/
def hx (b : Bytes) : String := if b.isEmpty then "-" else hexOfBytes b

end Gca
