/-
Basic byte-level vocabulary shared by every model file: byte strings,
little-endian fixed-width integers, and the take/drop lemmas the codec
round-trip proofs rest on. Core Lean only (no Mathlib), so that the driver can
be linked as an executable.
-/

abbrev Bytes := List UInt8

namespace Gca

/-- `leBytes k n`: the `k` low-order bytes of `n`, least significant first
(Go: `binary.LittleEndian.PutUintXX`). -/
def leBytes : Nat → Nat → Bytes
  | 0, _ => []
  | k+1, n => UInt8.ofNat (n % 256) :: leBytes k (n / 256)

/-- Little-endian value of a byte string (Go: `binary.LittleEndian.UintXX`). -/
def unle : Bytes → Nat
  | [] => 0
  | b :: bs => b.toNat + 256 * unle bs

@[simp] theorem leBytes_length (k n : Nat) : (leBytes k n).length = k := by
  induction k generalizing n with
  | zero => rfl
  | succ k ih => simp [leBytes, ih]

theorem unle_leBytes (k n : Nat) : unle (leBytes k n) = n % 256 ^ k := by
  induction k generalizing n with
  | zero => simp [leBytes, unle, Nat.mod_one]
  | succ k ih =>
    simp only [leBytes, unle, ih]
    have : (UInt8.ofNat (n % 256)).toNat = n % 256 := by
      simp [UInt8.toNat_ofNat']
    rw [this, Nat.pow_succ, Nat.mul_comm (256^k) 256, Nat.mod_mul]

theorem unle_leBytes_of_lt {k n : Nat} (h : n < 256 ^ k) : unle (leBytes k n) = n := by
  rw [unle_leBytes, Nat.mod_eq_of_lt h]

theorem unle_lt (bs : Bytes) : unle bs < 256 ^ bs.length := by
  induction bs with
  | nil => simp [unle]
  | cons b bs ih =>
    simp only [unle, List.length_cons, Nat.pow_succ]
    have := b.toNat_lt
    omega

theorem leBytes_unle (bs : Bytes) : leBytes bs.length (unle bs) = bs := by
  induction bs with
  | nil => rfl
  | cons b bs ih =>
    simp only [List.length_cons, leBytes, unle]
    have hb := b.toNat_lt
    have h1 : (b.toNat + 256 * unle bs) % 256 = b.toNat := by omega
    have h2 : (b.toNat + 256 * unle bs) / 256 = unle bs := by omega
    rw [h1, h2, ih]
    simp

theorem leBytes_unle' {k : Nat} (bs : Bytes) (h : bs.length = k) : leBytes k (unle bs) = bs := by
  subst h; exact leBytes_unle bs

/-- `leBytes` is injective on values that fit. -/
theorem leBytes_inj {k a b : Nat} (ha : a < 256 ^ k) (hb : b < 256 ^ k)
    (h : leBytes k a = leBytes k b) : a = b := by
  have := congrArg unle h
  rwa [unle_leBytes_of_lt ha, unle_leBytes_of_lt hb] at this

theorem take_app {α} {n : Nat} (a r : List α) (h : a.length = n) : (a ++ r).take n = a := by
  subst h; simp

theorem drop_app {α} {n : Nat} (a r : List α) (h : a.length = n) : (a ++ r).drop n = r := by
  subst h; simp

/-- Two concatenations with equal-length heads are equal iff the parts are. -/
theorem app_inj {α} {a b c d : List α} (hl : a.length = c.length) (h : a ++ b = c ++ d) :
    a = c ∧ b = d := List.append_inj h hl

/-- ASCII bytes of a string literal (Go: `[]byte("...")` for ASCII text; one
byte per character, which is what UTF-8 gives for code points below 128). -/
def ascii (s : String) : Bytes := s.toList.map (fun c => UInt8.ofNat c.toNat)

def zeros (n : Nat) : Bytes := List.replicate n 0

@[simp] theorem zeros_length (n : Nat) : (zeros n).length = n := by simp [zeros]

end Gca

namespace Gca

/-- Read `n` bytes: (the bytes read, the rest). Sequential decoders are written
with `rd` exactly as the Go code advances an index or a reader. -/
def rd (n : Nat) (b : Bytes) : Bytes × Bytes := (b.take n, b.drop n)

theorem rd_app {n : Nat} (a r : Bytes) (h : a.length = n) : rd n (a ++ r) = (a, r) := by
  simp [rd, take_app a r h, drop_app a r h]

theorem rd_fst_length {n : Nat} {b : Bytes} (h : n ≤ b.length) : (rd n b).1.length = n := by
  simp [rd, Nat.min_eq_left h]

theorem rd_snd_length (n : Nat) (b : Bytes) : (rd n b).2.length = b.length - n := by
  simp [rd]

theorem rd_join (n : Nat) (b : Bytes) : (rd n b).1 ++ (rd n b).2 = b := by
  simp [rd]

/-- `k`-byte little-endian words, concatenated (Go: a loop of PutUint64). -/
def leWords (k : Nat) : List Nat → Bytes
  | [] => []
  | v :: vs => leBytes k v ++ leWords k vs

/-- Read `n` words of `k` bytes each. -/
def rdWords (k : Nat) : Nat → Bytes → List Nat × Bytes
  | 0, b => ([], b)
  | n+1, b => let (w, r) := rd k b; let (ws, r') := rdWords k n r; (unle w :: ws, r')

@[simp] theorem leWords_length (k : Nat) (vs : List Nat) : (leWords k vs).length = k * vs.length := by
  induction vs with
  | nil => simp [leWords]
  | cons v vs ih => simp [leWords, ih, Nat.mul_succ, Nat.add_comm]

theorem rdWords_leWords (k : Nat) (vs : List Nat) (r : Bytes) (h : ∀ v ∈ vs, v < 256 ^ k) :
    rdWords k vs.length (leWords k vs ++ r) = (vs, r) := by
  induction vs with
  | nil => simp [rdWords, leWords]
  | cons v vs ih =>
    have hv := h v (by simp)
    have ih := ih (fun w hw => h w (by simp [hw]))
    simp only [List.length_cons, rdWords, leWords, List.append_assoc]
    rw [rd_app _ _ (leBytes_length k v)]
    simp only [ih, unle_leBytes_of_lt hv]

theorem rdWords_fst_length (k n : Nat) (b : Bytes) : (rdWords k n b).1.length = n := by
  induction n generalizing b with
  | zero => simp [rdWords]
  | succ n ih => simp [rdWords, ih]

theorem rdWords_snd_length (k n : Nat) (b : Bytes) : (rdWords k n b).2.length = b.length - k * n := by
  induction n generalizing b with
  | zero => simp [rdWords]
  | succ n ih => simp only [rdWords, ih, rd_snd_length]; rw [Nat.mul_succ]; omega

theorem rdWords_lt (k n : Nat) (b : Bytes) (hk : k * n ≤ b.length) :
    ∀ v ∈ (rdWords k n b).1, v < 256 ^ k := by
  induction n generalizing b with
  | zero => simp [rdWords]
  | succ n ih =>
    intro v hv
    simp only [rdWords, List.mem_cons] at hv
    rw [Nat.mul_succ] at hk
    rcases hv with rfl | hv
    · have := unle_lt (rd k b).1
      rwa [rd_fst_length (by omega)] at this
    · exact ih (rd k b).2 (by rw [rd_snd_length]; omega) v hv

end Gca
