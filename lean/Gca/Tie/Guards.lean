import Gca.Generated.Guards
import Gca.Timeslot
/-
Obligations `generated = specification` for the integer guards, conversions
and index computations that the extractor transcribes from the Go source
(`Gca/Generated/Guards.lean`, regenerated on every run). Each theorem
quantifies over ALL values of the machine integers involved; hypotheses that
exclude wrap-around are stated explicitly where the Go arithmetic needs them.
The hand-written model uses only the right-hand sides.
-/
namespace Gca.Tie
open Gca

/-! ### C20 / C01: acceptance window, timeslot conversions -/

/-- `UnixToTimeslot`: for every int64 time the Go function returns an error
exactly when the specification refuses, and otherwise the same slot. -/
theorem unixToTimeslot (t : BitVec 64) :
    (if Gen.UnixToTimeslot.c0 t || Gen.UnixToTimeslot.c1 t then none
     else some (Gen.UnixToTimeslot.ret2_0 t).toNat) = TS.toSlot 1700352000 t.toInt := by
  sorry

/-- `TimeslotToUnix` for every uint32 timeslot (no wrap-around). -/
theorem timeslotToUnix (s : BitVec 32) :
    (Gen.TimeslotToUnix.ret0_0 s).toInt = TS.toUnix 1700352000 s.toNat := by
  sorry

/-- Production `CurrentTimeslot`: panics exactly before genesis ... -/
theorem currentTimeslot_guard (t : BitVec 64) :
    Gen.CurrentTimeslot.c0 t = decide (t.toInt < 1700352000) := by
  sorry

/-- ... and otherwise is the specification's slot of the system clock (as long
as the slot fits 32 bits, i.e. for the next ~40 000 years). -/
theorem currentTimeslot_value (t : BitVec 64) (s : Nat)
    (h : TS.toSlot 1700352000 t.toInt = some s) :
    (Gen.CurrentTimeslot.ret0_0 t).toNat = s := by
  sorry

/-- The acceptance-window test of the report listener rejects exactly the
timeslots more than 432 away from `now`, for every pair of 32-bit values. -/
theorem window (now ts : BitVec 32) (p : BitVec 64) :
    Gen.HandleReport.c0 now p ts = !decide (TS.inWindow ts.toNat now.toNat) := by
  sorry

/-- The sentinel test rejects exactly power 0 and 1. -/
theorem sentinel (now ts : BitVec 32) (p : BitVec 64) :
    Gen.HandleReport.c1 now p ts = decide (p.toNat = 0 ∨ p.toNat = 1) := by
  sorry

theorem handleReport_kinds : Gen.HandleReport.condKinds = ["if-exit", "if-exit"] := by decide

/-! ### C01 / C12: storage-window guards and the array index of `integrateReport` -/

/-- Too-old / too-new guards: a report is integrated only for
`off ≤ ts < off + 4032` (no wrap-around of `off + 4032`). -/
theorem storage (cap nRecent p slotP : BitVec 64) (slotEq : Bool) (off ts : BitVec 32)
    (hoff : off.toNat + 4032 < 2^32) :
    (Gen.Integrate.c0 cap nRecent off p slotEq slotP ts || Gen.Integrate.c1 cap nRecent off p slotEq slotP ts)
      = !decide (off.toNat ≤ ts.toNat ∧ ts.toNat < off.toNat + 4032) := by
  sorry

/-- The slot index is `ts - off`, hence below 4032 whenever the guards pass. -/
theorem storage_index (cap nRecent p slotP : BitVec 64) (slotEq : Bool) (off ts : BitVec 32)
    (h : off.toNat ≤ ts.toNat) :
    (Gen.Integrate.index0 cap nRecent off p slotEq slotP ts).toNat = ts.toNat - off.toNat := by
  sorry

theorem integrate_kinds : Gen.Integrate.condKinds =
    ["if-exit", "if-exit", "if-exit", "if-exit", "if", "if", "if", "if"] := by decide

/-! ### C02: the three slot tests (banned → ignore, identical → ignore, empty → store else ban) -/

theorem slot_banned (cap nRecent p slotP : BitVec 64) (slotEq : Bool) (off ts : BitVec 32) :
    Gen.Integrate.c2 cap nRecent off p slotEq slotP ts = decide (slotP.toNat = 1) := by
  sorry
theorem slot_duplicate (cap nRecent p slotP : BitVec 64) (slotEq : Bool) (off ts : BitVec 32) :
    Gen.Integrate.c3 cap nRecent off p slotEq slotP ts = slotEq := by
  sorry
theorem slot_empty (cap nRecent p slotP : BitVec 64) (slotEq : Bool) (off ts : BitVec 32) :
    Gen.Integrate.c4 cap nRecent off p slotEq slotP ts = decide (slotP.toNat = 0) := by
  sorry

/-! ### C02: capacity rule, for every 64-bit power and capacity (no overflow anywhere) -/

/-- The computed limit is `floor(135 * cap / 100)`, saturated at 2^64 - 1. -/
theorem capacity_limit (cap nRecent p slotP : BitVec 64) (slotEq : Bool) (off ts : BitVec 32) :
    (Gen.Integrate.local_limit cap nRecent off p slotEq slotP ts).toNat
      = min (135 * cap.toNat / 100) (2^64 - 1) := by
  sorry

/-- A report is banned for over-capacity exactly when its power is non-negative
(below 2^63) and exceeds 135 % of the capacity. -/
theorem capacity (cap nRecent p slotP : BitVec 64) (slotEq : Bool) (off ts : BitVec 32) :
    Gen.Integrate.c6 cap nRecent off p slotEq slotP ts
      = decide (100 * p.toNat > 135 * cap.toNat ∧ p.toNat < 2^63) := by
  sorry

/-! ### C03: rotation triggers, week selection -/

theorem startup_catchup (now off : BitVec 32) :
    Gen.MigrateLoop.c0 now off = decide ((now.toNat : Int) - off.toNat < 4000) := by
  sorry

theorem rotation_trigger (now off : BitVec 32) :
    Gen.MigrateLoop.c1 now off = decide ((now.toNat : Int) - off.toNat > 3200) := by
  sorry

theorem migrateLoop_kinds : Gen.MigrateLoop.condKinds = ["if-exit", "if"] := by decide

theorem stats_misaligned (hoff off tso : BitVec 32) :
    Gen.StatsHandler.c0 hoff off tso = decide (tso.toNat % 2016 ≠ 0) := by
  sorry

theorem stats_archived (hoff off tso : BitVec 32) :
    Gen.StatsHandler.c1 hoff off tso = decide (tso.toNat < off.toNat) := by
  sorry

theorem stats_archive_index (hoff off tso : BitVec 32) (h : hoff.toNat ≤ tso.toNat) :
    (Gen.StatsHandler.index0 hoff off tso).toNat = (tso.toNat - hoff.toNat) / 2016 := by
  sorry

theorem stats_kinds : Gen.StatsHandler.condKinds = ["if-exit", "if"] := by decide

/-- `buildDeviceStats`: refused iff misaligned, before the window, or beyond its second week. -/
theorem buildStats_refusal (off tso : BitVec 32) (hoff : off.toNat + 2016 < 2^32) :
    (Gen.BuildStats.c0 off tso || Gen.BuildStats.c1 off tso || Gen.BuildStats.c3 off tso)
      = !decide (tso.toNat % 2016 = 0 ∧ off.toNat ≤ tso.toNat ∧ tso.toNat ≤ off.toNat + 2016) := by
  sorry

/-- ... and the second week is read from array position 2016, the first from 0. -/
theorem buildStats_base (off tso : BitVec 32) (hoff : off.toNat + 2016 < 2^32) :
    (Gen.BuildStats.local_x off tso).toNat = if tso.toNat = off.toNat + 2016 then 2016 else 0 := by
  sorry

theorem buildStats_kinds : Gen.BuildStats.condKinds = ["if-exit", "if-exit", "if", "if-exit"] := by decide

/-! ### C08 / C10: bitfield rule on both sides, resend loop -/

/-- Server: bit `i` is set iff the stored power is non-zero (banned slots
included), in byte `i / 8` at position `i % 8`. -/
theorem sync_bit_rule (i p : BitVec 64) : Gen.SyncConn.c0 i p = decide (p.toNat > 0) := by
  sorry
theorem sync_byte_index (i p : BitVec 64) (h : i.toNat < 4032) :
    (Gen.SyncConn.local_byteIndex i p).toNat = i.toNat / 8 ∧
    (Gen.SyncConn.index0 i p).toNat = i.toNat / 8 ∧
    (Gen.SyncConn.local_bitIndex i p).toNat = i.toNat % 8 := by
  sorry

/-- Client: the resend loop visits index `i` iff `i ≤ latest - off` (32-bit
wrap-around subtraction, as in the source) and `i / 8 < 504`. -/
theorem resend_loop (bfByte : BitVec 8) (errB : Bool) (i latest off pw : BitVec 32) :
    Gen.SyncRound.c7 bfByte errB i latest off pw
      = decide (i.toNat ≤ (latest.toNat + 2^32 - off.toNat) % 2^32 ∧ i.toNat / 8 < 504) := by
  sorry

/-- Client: the bit test reads bit `i % 8` of the byte. -/
theorem resend_bit (bfByte : BitVec 8) (errB : Bool) (i latest off pw : BitVec 32) :
    Gen.SyncRound.c8 bfByte errB i latest off pw = decide (bfByte.toNat / 2^(i.toNat % 8) % 2 = 0) := by
  sorry

/-- Client: readings below 2 (sentinels, unreadable) are not retransmitted. -/
theorem resend_skip (bfByte : BitVec 8) (errB : Bool) (i latest off pw : BitVec 32) :
    Gen.SyncRound.c9 bfByte errB i latest off pw = (errB || decide (pw.toNat < 2)) := by
  sorry

/-- Client: the retransmitted power is the stored 32-bit value sign-extended to 64 bits. -/
theorem resend_energy (bfByte : BitVec 8) (errB : Bool) (i latest off pw : BitVec 32) :
    (Gen.SyncRound.field_Energy bfByte errB i latest off pw).toNat
      = if pw.toNat < 2^31 then pw.toNat else 2^64 - 2^32 + pw.toNat := by
  sorry

theorem resend_timeslot (bfByte : BitVec 8) (errB : Bool) (i latest off pw : BitVec 32) :
    (Gen.SyncRound.field_Timeslot bfByte errB i latest off pw).toNat = (i.toNat + off.toNat) % 2^32 := by
  sorry

/-! ### C10 / C11: reply length and freshness -/

theorem reply_min_length (now signingTime : BitVec 64) (respLen : BitVec 16) :
    Gen.ServerSync.c0 now respLen signingTime = decide (respLen.toNat < 712) := by
  sorry

/-- Freshness: rejected iff the signing time is more than 24 h from the
client's clock, for every pair of 64-bit values with `now` at least a day after
the epoch and a day before 2^64 seconds. -/
theorem reply_freshness (now signingTime : BitVec 64) (respLen : BitVec 16)
    (h1 : 86400 ≤ now.toNat) (h2 : now.toNat + 86400 < 2^64) :
    Gen.ServerSync.c1 now respLen signingTime
      = decide (now.toNat + 86400 < signingTime.toNat ∨ signingTime.toNat < now.toNat - 86400) := by
  sorry

/-! ### C09: history store guards and byte offset -/

theorem save_before_origin (cur off rd ts : BitVec 32) :
    Gen.SaveReading.c0 cur off rd ts = decide (ts.toNat < off.toNat) := by
  sorry
theorem save_beyond_range (cur off rd ts : BitVec 32) (h : off.toNat ≤ ts.toNat) :
    Gen.SaveReading.c1 cur off rd ts = decide (2^30 - 1 ≤ ts.toNat - off.toNat) := by
  sorry
theorem save_same (cur off rd ts : BitVec 32) :
    Gen.SaveReading.c2 cur off rd ts = decide (cur.toNat = rd.toNat) := by
  sorry
theorem save_occupied (cur off rd ts : BitVec 32) :
    Gen.SaveReading.c3 cur off rd ts = decide (cur.toNat ≠ 0) := by
  sorry
/-- Inside the accepted range the byte offset is exact (no 32-bit wrap-around). -/
theorem save_offset (cur off rd ts : BitVec 32) (h : off.toNat ≤ ts.toNat)
    (h2 : ts.toNat - off.toNat < 2^30 - 1) :
    (Gen.SaveReading.local_byteOffset cur off rd ts).toNat = 4 * (1 + (ts.toNat - off.toNat)) := by
  sorry
theorem save_kinds : Gen.SaveReading.condKinds = ["if-exit", "if-exit", "if-exit", "if-exit"] := by decide

theorem load_before_origin (off ts : BitVec 32) :
    Gen.LoadReading.c0 off ts = decide (ts.toNat < off.toNat) := by
  sorry
theorem load_beyond_range (off ts : BitVec 32) (h : off.toNat ≤ ts.toNat) :
    Gen.LoadReading.c1 off ts = decide (2^30 - 1 ≤ ts.toNat - off.toNat) := by
  sorry
theorem load_offset (off ts : BitVec 32) (h : off.toNat ≤ ts.toNat) (h2 : ts.toNat - off.toNat < 2^30 - 1) :
    (Gen.LoadReading.local_byteOffset off ts).toNat = 4 * (1 + (ts.toNat - off.toNat)) := by
  sorry
theorem load_kinds : Gen.LoadReading.condKinds = ["if-exit", "if-exit"] := by decide

/-! ### C13 / C12: impact job re-validation -/

theorem impact_guard (ex : Bool) (off ts : BitVec 32) :
    Gen.ImpactRound.c1 ex off ts = (ex && decide (off.toNat ≤ ts.toNat ∧ ts.toNat - off.toNat < 4032)) := by
  sorry
theorem impact_index (ex : Bool) (off ts : BitVec 32) (h : off.toNat ≤ ts.toNat) :
    (Gen.ImpactRound.index0 ex off ts).toNat = ts.toNat - off.toNat := by
  sorry

/-! ### C19 / C18: comparisons of the rate limiter and the event log (signed 64-bit, no overflow in range) -/

/-- `t.After(now.Add(-rate))` is `t > now - rate` for clock values and windows below 2^62 ns (146 years). -/
theorem rate_expiry (limit n now rate t : BitVec 64)
    (hn : now.toInt.natAbs < 2^62) (hr : rate.toInt.natAbs < 2^62) :
    Gen.RateAllow.c0 limit n now rate t = decide (t.toInt > now.toInt - rate.toInt) := by
  sorry
theorem rate_limit (limit n now rate t : BitVec 64) :
    Gen.RateAllow.c1 limit n now rate t = decide (n.toInt < limit.toInt) := by
  sorry
theorem rate_kinds : Gen.RateAllow.condKinds = ["if-exit", "if-exit"] := by decide

theorem log_expiry (expiry now ts : BitVec 64)
    (hn : now.toInt.natAbs < 2^62) (he : expiry.toInt.natAbs < 2^62) :
    Gen.LogExpire.c0 expiry now ts = decide (ts.toInt < now.toInt - expiry.toInt) := by
  sorry
theorem log_cut (klen maxB maxLine size : BitVec 64) :
    Gen.LogPrintf.c0 klen maxB maxLine size = decide (klen.toInt > maxLine.toInt) := by
  sorry
theorem log_unstorable (klen maxB maxLine size : BitVec 64) (hk : klen.toNat < 2^62) :
    Gen.LogPrintf.c1 klen maxB maxLine size = decide (2 * klen.toInt > maxB.toInt) := by
  sorry
theorem log_evict (klen maxB maxLine size : BitVec 64) (hk : klen.toNat < 2^61) (hs : size.toInt.natAbs < 2^62) :
    Gen.LogPrintf.c2 klen maxB maxLine size = decide (2 * klen.toInt + size.toInt > maxB.toInt) ∧
    Gen.LogPrintf.c3 klen maxB maxLine size = decide (2 * klen.toInt + size.toInt > maxB.toInt) := by
  sorry
theorem log_kinds : Gen.LogPrintf.condKinds = ["if", "if-exit", "if", "for"] := by decide

end Gca.Tie
