import Gca.Generated.Guards
import Gca.Timeslot
import Gca.Client.Model
/-
Obligations `generated = specification` for the integer guards, conversions
and index computations that the extractor transcribes from the Go source
(`Gca/Generated/Guards.lean`, regenerated on every run). Each theorem
quantifies over ALL values of the machine integers involved; hypotheses that
exclude wrap-around are stated explicitly where the Go arithmetic needs them.
The hand-written model uses only the right-hand sides.
-/
namespace Gca.Tie
open Gca

/-! ### Local lemma library: machine integers to `Nat` / `Int` arithmetic -/

/-- Signed value of a 64-bit vector without `if` (so that `omega` can use it). -/
theorem toInt64 (x : BitVec 64) :
    x.toInt = (x.toNat : Int) - 18446744073709551616 * ((x.toNat / 9223372036854775808 : Nat) : Int) := by
  have h := x.isLt
  rw [BitVec.toInt_eq_toNat_cond]
  split <;> omega

theorem inWindow_decide (a b : Int) :
    decide (TS.inWindow a b) = decide (b - 432 ≤ a ∧ a ≤ b + 432) :=
  decide_eq_decide.mpr (by unfold TS.inWindow; exact Iff.rfl)

theorem msb64_false (a : BitVec 64) (h : a.toNat < 2^63) : a.msb = false := by
  rw [BitVec.msb_eq_decide]; simp; omega

/-- Signed division of two non-negative int64 values is `Nat` division. -/
theorem sdiv64_nonneg (a b : BitVec 64) (ha : a.toNat < 2^63) (hb : b.toNat < 2^63) :
    (BitVec.sdiv a b).toNat = a.toNat / b.toNat := by
  rw [BitVec.sdiv_eq, msb64_false a ha, msb64_false b hb]
  simp only [BitVec.udiv_eq, BitVec.toNat_udiv]

/-- Signed remainder of two non-negative int64 values is `Nat` remainder. -/
theorem srem64_nonneg (a b : BitVec 64) (ha : a.toNat < 2^63) (hb : b.toNat < 2^63) :
    (BitVec.srem a b).toNat = a.toNat % b.toNat := by
  rw [BitVec.srem_eq, msb64_false a ha, msb64_false b hb]
  simp only [BitVec.toNat_umod]

theorem and_two_pow_eq_zero (a k : Nat) : (a &&& 2^k = 0) ↔ a / 2^k % 2 = 0 := by
  have hpos : 0 < 2^k := Nat.two_pow_pos k
  have h1 : (a &&& 2^k) / 2^k = a / 2^k % 2 := by
    rw [Nat.and_div_two_pow, Nat.div_self hpos, Nat.and_one_is_mod]
  have h2 : (a &&& 2^k) % 2^k = 0 := by
    rw [Nat.and_mod_two_pow, Nat.mod_self, Nat.and_zero]
  have h3 := Nat.div_add_mod (a &&& 2^k) (2^k)
  constructor
  · intro h; rw [h] at h1; simpa using h1.symm
  · intro h; rw [h] at h1; rw [h1, h2] at h3; simpa using h3.symm

/-- Zero-extension of a 32-bit value to 64 bits keeps the value. -/
theorem zext32_toNat (x : BitVec 32) : (BitVec.setWidth 64 x).toNat = x.toNat := by
  have := x.isLt
  simp only [BitVec.toNat_setWidth, Nat.reducePow]; omega

theorem zext16_toNat (x : BitVec 16) : (BitVec.setWidth 64 x).toNat = x.toNat := by
  have := x.isLt
  simp only [BitVec.toNat_setWidth, Nat.reducePow]; omega

/-- The standard conversion: comparisons and modular operations to `toNat` facts, then `omega`. -/
macro "bv_arith" : tactic => `(tactic| (
  try rw [Bool.eq_iff_iff]
  try simp only [BitVec.slt, BitVec.sle, BitVec.ult, BitVec.ule, toInt64, BitVec.toNat_add, BitVec.toNat_sub,
    BitVec.toNat_mul, BitVec.toNat_neg, BitVec.udiv_eq, BitVec.umod_eq, BitVec.toNat_udiv, BitVec.toNat_umod,
    zext32_toNat, zext16_toNat, BitVec.toNat_ofNat,
    Bool.or_eq_true, Bool.and_eq_true, decide_eq_true_eq, Bool.not_eq_true', decide_eq_false_iff_not,
    beq_iff_eq, bne_iff_ne, ne_eq, ← BitVec.toNat_inj,
    Nat.reducePow, Nat.reduceMod, Nat.reduceSub]
  all_goals omega))

/-- The slot computation shared by `UnixToTimeslot` and `CurrentTimeslot`. -/
theorem slot_sdiv (t : BitVec 64) (h : ¬ t.toInt < 1700352000) :
    (BitVec.sdiv (t - (1700352000#64)) (300#64)).toNat = (t.toNat - 1700352000) / 300
    ∧ t.toInt = t.toNat ∧ 1700352000 ≤ t.toNat ∧ t.toNat < 2^63 := by
  have ht := t.isLt
  have hb : t.toInt = t.toNat ∧ 1700352000 ≤ t.toNat ∧ t.toNat < 2^63 := by
    rw [toInt64] at h ⊢; omega
  have hsub : (t - 1700352000#64).toNat = t.toNat - 1700352000 := by
    simp only [BitVec.toNat_sub, BitVec.toNat_ofNat, Nat.reducePow, Nat.reduceMod, Nat.reduceSub]; omega
  refine ⟨?_, hb⟩
  rw [sdiv64_nonneg _ _ (by omega) (by decide), hsub]
  rfl

/-- The 128-bit product `cap * 135` does not overflow. -/
theorem prod_toNat (cap : BitVec 64) :
    (BitVec.setWidth 128 cap * BitVec.setWidth 128 (135#64)).toNat = cap.toNat * 135 := by
  have := cap.isLt
  simp only [BitVec.toNat_mul, BitVec.toNat_setWidth, BitVec.toNat_ofNat, Nat.reducePow, Nat.reduceMod]
  omega

theorem hi_toNat (cap : BitVec 64) :
    (BitVec.setWidth 64 ((BitVec.setWidth 128 cap * BitVec.setWidth 128 (135#64)) >>> 64)).toNat
      = cap.toNat * 135 / 2^64 := by
  have := cap.isLt
  simp only [BitVec.toNat_setWidth, BitVec.toNat_ushiftRight, prod_toNat, Nat.shiftRight_eq_div_pow]
  omega

theorem lo_toNat (cap : BitVec 64) :
    (BitVec.setWidth 64 (BitVec.setWidth 128 cap * BitVec.setWidth 128 (135#64))).toNat
      = cap.toNat * 135 % 2^64 := by
  simp only [BitVec.toNat_setWidth, prod_toNat]

/-- `hi <<< 64 ||| lo` in 128 bits is `hi * 2^64 + lo`. -/
theorem hilo (hi lo : BitVec 64) :
    ((BitVec.setWidth 128 hi <<< 64) ||| BitVec.setWidth 128 lo).toNat = hi.toNat * 2^64 + lo.toNat := by
  have h1 := hi.isLt
  have h2 := lo.isLt
  have e1 : (BitVec.setWidth 128 hi).toNat = hi.toNat := by
    simp only [BitVec.toNat_setWidth, Nat.reducePow]; omega
  have e2 : (BitVec.setWidth 128 lo).toNat = lo.toNat := by
    simp only [BitVec.toNat_setWidth, Nat.reducePow]; omega
  rw [BitVec.toNat_or, BitVec.toNat_shiftLeft, e1, e2]
  have e3 : hi.toNat <<< 64 % 2^128 = hi.toNat <<< 64 := by
    simp only [Nat.shiftLeft_eq]; omega
  rw [e3, ← Nat.shiftLeft_add_eq_or_of_lt h2, Nat.shiftLeft_eq]

/-- Recombining the two halves gives the product back. -/
theorem hilo_toNat (cap : BitVec 64) :
    ((BitVec.setWidth 128 (BitVec.setWidth 64 ((BitVec.setWidth 128 cap * BitVec.setWidth 128 (135#64)) >>> 64)) <<< 64)
      ||| BitVec.setWidth 128 (BitVec.setWidth 64 (BitVec.setWidth 128 cap * BitVec.setWidth 128 (135#64)))).toNat
      = cap.toNat * 135 := by
  rw [hilo, hi_toNat, lo_toNat]
  omega

theorem limit_toNat (cap : BitVec 64) :
    (if (BitVec.ult (BitVec.setWidth 64 ((BitVec.setWidth 128 cap * BitVec.setWidth 128 (135#64)) >>> 64)) (100#64)) then (BitVec.setWidth 64 (BitVec.udiv ((BitVec.setWidth 128 (BitVec.setWidth 64 ((BitVec.setWidth 128 cap * BitVec.setWidth 128 (135#64)) >>> 64)) <<< 64) ||| BitVec.setWidth 128 (BitVec.setWidth 64 (BitVec.setWidth 128 cap * BitVec.setWidth 128 (135#64)))) (BitVec.setWidth 128 (100#64)))) else (18446744073709551615#64)).toNat
      = min (135 * cap.toNat / 100) (2^64 - 1) := by
  have hc := cap.isLt
  simp only [BitVec.ult, hi_toNat, BitVec.toNat_ofNat, Nat.reducePow, Nat.reduceMod]
  split
  · rename_i h
    simp only [decide_eq_true_eq] at h
    rw [BitVec.toNat_setWidth, BitVec.udiv_eq, BitVec.toNat_udiv, hilo_toNat]
    simp only [BitVec.toNat_setWidth, BitVec.toNat_ofNat, Nat.reducePow, Nat.reduceMod]
    have h1 : cap.toNat * 135 < 100 * 18446744073709551616 := by omega
    have h2 : cap.toNat * 135 / 100 < 18446744073709551616 := by omega
    rw [Nat.mod_eq_of_lt h2, Nat.mul_comm]
    omega
  · rename_i h
    simp only [decide_eq_true_eq] at h
    simp only [BitVec.toNat_ofNat, Nat.reducePow, Nat.reduceMod]
    omega

/-! ### C20 / C01: acceptance window, timeslot conversions -/

/-- `UnixToTimeslot`: for every int64 time the Go function returns an error
exactly when the specification refuses, and otherwise the same slot. -/
theorem unixToTimeslot (t : BitVec 64) :
    (if Gen.UnixToTimeslot.c0 t || Gen.UnixToTimeslot.c1 t then none
     else some (Gen.UnixToTimeslot.ret2_0 t).toNat) = TS.toSlot 1700352000 t.toInt := by
  unfold Gen.UnixToTimeslot.c0 Gen.UnixToTimeslot.c1 Gen.UnixToTimeslot.ret2_0 TS.toSlot
  have hg : (1700352000#64).toInt = 1700352000 := by decide
  have h4 : (4294967295#64).toInt = 4294967295 := by decide
  simp only [BitVec.slt, hg, h4]
  by_cases h : t.toInt < 1700352000
  · simp [h]
  · obtain ⟨hd, hti, hge, hlt⟩ := slot_sdiv t h
    have hdi : (BitVec.sdiv (t - 1700352000#64) (300#64)).toInt = (t.toInt - 1700352000) / 300 := by
      rw [toInt64, hd, hti]; omega
    simp only [h, decide_false, Bool.false_or, ↓reduceIte, hdi]
    by_cases h2 : 4294967295 < (t.toInt - 1700352000) / 300
    · simp [h2]
    · simp only [h2, decide_false, Bool.false_eq_true, ↓reduceIte]
      congr 1
      rw [BitVec.toNat_setWidth, hd]
      omega

/-- `TimeslotToUnix` for every uint32 timeslot (no wrap-around). -/
theorem timeslotToUnix (s : BitVec 32) :
    (Gen.TimeslotToUnix.ret0_0 s).toInt = TS.toUnix 1700352000 s.toNat := by
  unfold Gen.TimeslotToUnix.ret0_0 TS.toUnix
  have h := s.isLt
  have e : (1700352000#64 + BitVec.setWidth 64 s * 300#64).toNat = 1700352000 + s.toNat * 300 := by
    simp only [BitVec.toNat_add, BitVec.toNat_mul, zext32_toNat, BitVec.toNat_ofNat, Nat.reducePow, Nat.reduceMod]
    rw [Nat.mod_eq_of_lt (by omega : s.toNat * 300 < 18446744073709551616), Nat.mod_eq_of_lt (by omega)]
  rw [toInt64, e]
  omega

/-- Production `CurrentTimeslot`: panics exactly before genesis ... -/
theorem currentTimeslot_guard (t : BitVec 64) :
    Gen.CurrentTimeslot.c0 t = decide (t.toInt < 1700352000) := by
  unfold Gen.CurrentTimeslot.c0
  have hg : (1700352000#64).toInt = 1700352000 := by decide
  simp only [BitVec.slt, hg]

/-- ... and otherwise is the specification's slot of the system clock (as long
as the slot fits 32 bits, i.e. for the next ~40 000 years). -/
theorem currentTimeslot_value (t : BitVec 64) (s : Nat)
    (h : TS.toSlot 1700352000 t.toInt = some s) :
    (Gen.CurrentTimeslot.ret0_0 t).toNat = s := by
  unfold Gen.CurrentTimeslot.ret0_0
  unfold TS.toSlot at h
  by_cases h0 : t.toInt < 1700352000
  · simp [h0] at h
  · obtain ⟨hd, hti, hge, hlt⟩ := slot_sdiv t h0
    simp only [h0, ↓reduceIte] at h
    split at h
    · cases h
    · rename_i h2
      cases h
      rw [BitVec.toNat_setWidth, hd]
      omega

/-- The acceptance-window test of the report listener rejects exactly the
timeslots more than 432 away from `now`, for every pair of 32-bit values. -/
theorem window (now ts : BitVec 32) (p : BitVec 64) :
    Gen.HandleReport.c0 now p ts = !decide (TS.inWindow ts.toNat now.toNat) := by
  unfold Gen.HandleReport.c0
  rw [inWindow_decide]
  have h1 := now.isLt
  have h2 := ts.isLt
  bv_arith

/-- The sentinel test rejects exactly power 0 and 1. -/
theorem sentinel (now ts : BitVec 32) (p : BitVec 64) :
    Gen.HandleReport.c1 now p ts = decide (p.toNat = 0 ∨ p.toNat = 1) := by
  unfold Gen.HandleReport.c1
  bv_arith

theorem handleReport_kinds : Gen.HandleReport.condKinds = ["if-exit", "if-exit"] := by decide

/-! ### C01 / C12: storage-window guards and the array index of `integrateReport` -/

/-- Too-old / too-new guards: a report is integrated only for
`off ≤ ts < off + 4032` (no wrap-around of `off + 4032`). -/
theorem storage (cap nRecent p slotP : BitVec 64) (slotEq : Bool) (off ts : BitVec 32)
    (hoff : off.toNat + 4032 < 2^32) :
    (Gen.Integrate.c0 cap nRecent off p slotEq slotP ts || Gen.Integrate.c1 cap nRecent off p slotEq slotP ts)
      = !decide (off.toNat ≤ ts.toNat ∧ ts.toNat < off.toNat + 4032) := by
  unfold Gen.Integrate.c0 Gen.Integrate.c1
  have h1 := off.isLt
  have h2 := ts.isLt
  bv_arith

/-- The slot index is `ts - off`, hence below 4032 whenever the guards pass. -/
theorem storage_index (cap nRecent p slotP : BitVec 64) (slotEq : Bool) (off ts : BitVec 32)
    (h : off.toNat ≤ ts.toNat) :
    (Gen.Integrate.index0 cap nRecent off p slotEq slotP ts).toNat = ts.toNat - off.toNat := by
  unfold Gen.Integrate.index0
  have h1 := off.isLt
  have h2 := ts.isLt
  bv_arith

theorem integrate_kinds : Gen.Integrate.condKinds =
    ["if-exit", "if-exit", "if-exit", "if-exit", "if", "if", "if", "if"] := by decide

/-! ### C02: the three slot tests (banned → ignore, identical → ignore, empty → store else ban) -/

theorem slot_banned (cap nRecent p slotP : BitVec 64) (slotEq : Bool) (off ts : BitVec 32) :
    Gen.Integrate.c2 cap nRecent off p slotEq slotP ts = decide (slotP.toNat = 1) := by
  unfold Gen.Integrate.c2
  bv_arith
theorem slot_duplicate (cap nRecent p slotP : BitVec 64) (slotEq : Bool) (off ts : BitVec 32) :
    Gen.Integrate.c3 cap nRecent off p slotEq slotP ts = slotEq := by
  rfl
theorem slot_empty (cap nRecent p slotP : BitVec 64) (slotEq : Bool) (off ts : BitVec 32) :
    Gen.Integrate.c4 cap nRecent off p slotEq slotP ts = decide (slotP.toNat = 0) := by
  unfold Gen.Integrate.c4
  bv_arith

/-! ### C02: capacity rule, for every 64-bit power and capacity (no overflow anywhere) -/

/-- The computed limit is `floor(135 * cap / 100)`, saturated at 2^64 - 1. -/
theorem capacity_limit (cap nRecent p slotP : BitVec 64) (slotEq : Bool) (off ts : BitVec 32) :
    (Gen.Integrate.local_limit cap nRecent off p slotEq slotP ts).toNat
      = min (135 * cap.toNat / 100) (2^64 - 1) := by
  unfold Gen.Integrate.local_limit
  exact limit_toNat cap

/-- A report is banned for over-capacity exactly when its power is non-negative
(below 2^63) and exceeds 135 % of the capacity. -/
theorem capacity (cap nRecent p slotP : BitVec 64) (slotEq : Bool) (off ts : BitVec 32) :
    Gen.Integrate.c6 cap nRecent off p slotEq slotP ts
      = decide (100 * p.toNat > 135 * cap.toNat ∧ p.toNat < 2^63) := by
  have hc := cap.isLt
  have hp := p.isLt
  have e : Gen.Integrate.c6 cap nRecent off p slotEq slotP ts
      = (BitVec.ult (Gen.Integrate.local_limit cap nRecent off p slotEq slotP ts) p
          && BitVec.ule p (9223372036854775807#64)) := rfl
  have hl := capacity_limit cap nRecent p slotP slotEq off ts
  rw [e, Bool.eq_iff_iff]
  simp only [BitVec.ult, BitVec.ule, hl, BitVec.toNat_ofNat, Nat.reducePow, Nat.reduceMod,
    Bool.and_eq_true, decide_eq_true_eq]
  omega

/-! ### C03: rotation triggers, week selection -/

theorem startup_catchup (now off : BitVec 32) :
    Gen.MigrateLoop.c0 now off = decide ((now.toNat : Int) - off.toNat < 4000) := by
  unfold Gen.MigrateLoop.c0
  have h1 := now.isLt
  have h2 := off.isLt
  bv_arith

theorem rotation_trigger (now off : BitVec 32) :
    Gen.MigrateLoop.c1 now off = decide ((now.toNat : Int) - off.toNat > 3200) := by
  unfold Gen.MigrateLoop.c1
  have h1 := now.isLt
  have h2 := off.isLt
  bv_arith

theorem migrateLoop_kinds : Gen.MigrateLoop.condKinds = ["if-exit", "if"] := by decide

theorem stats_misaligned (hoff off tso : BitVec 32) :
    Gen.StatsHandler.c0 hoff off tso = decide (tso.toNat % 2016 ≠ 0) := by
  unfold Gen.StatsHandler.c0
  have h1 := tso.isLt
  bv_arith

theorem stats_archived (hoff off tso : BitVec 32) :
    Gen.StatsHandler.c1 hoff off tso = decide (tso.toNat < off.toNat) := by
  unfold Gen.StatsHandler.c1
  bv_arith

theorem stats_archive_index (hoff off tso : BitVec 32) (h : hoff.toNat ≤ tso.toNat) :
    (Gen.StatsHandler.index0 hoff off tso).toNat = (tso.toNat - hoff.toNat) / 2016 := by
  unfold Gen.StatsHandler.index0
  have h1 := tso.isLt
  have h2 := hoff.isLt
  bv_arith

theorem stats_kinds : Gen.StatsHandler.condKinds = ["if-exit", "if"] := by decide

/-- `buildDeviceStats`: refused iff misaligned, before the window, or beyond its second week. -/
theorem buildStats_refusal (off tso : BitVec 32) (hoff : off.toNat + 2016 < 2^32) :
    (Gen.BuildStats.c0 off tso || Gen.BuildStats.c1 off tso || Gen.BuildStats.c3 off tso)
      = !decide (tso.toNat % 2016 = 0 ∧ off.toNat ≤ tso.toNat ∧ tso.toNat ≤ off.toNat + 2016) := by
  unfold Gen.BuildStats.c0 Gen.BuildStats.c1 Gen.BuildStats.c3
  have h1 := tso.isLt
  have h2 := off.isLt
  bv_arith

/-- ... and the second week is read from array position 2016, the first from 0. -/
theorem buildStats_base (off tso : BitVec 32) (hoff : off.toNat + 2016 < 2^32) :
    (Gen.BuildStats.local_x off tso).toNat = if tso.toNat = off.toNat + 2016 then 2016 else 0 := by
  unfold Gen.BuildStats.local_x
  have h1 := tso.isLt
  have h2 := off.isLt
  have e : (tso == off + 2016#32) = decide (tso.toNat = off.toNat + 2016) := by bv_arith
  rw [e]
  by_cases h : tso.toNat = off.toNat + 2016 <;> simp [h]

theorem buildStats_kinds : Gen.BuildStats.condKinds = ["if-exit", "if-exit", "if", "if-exit"] := by decide

/-! ### C08 / C10: bitfield rule on both sides, resend loop -/

/-- Server: bit `i` is set iff the stored power is non-zero (banned slots
included), in byte `i / 8` at position `i % 8`. -/
theorem sync_bit_rule (i p : BitVec 64) : Gen.SyncConn.c0 i p = decide (p.toNat > 0) := by
  unfold Gen.SyncConn.c0
  bv_arith
theorem sync_byte_index (i p : BitVec 64) (h : i.toNat < 4032) :
    (Gen.SyncConn.local_byteIndex i p).toNat = i.toNat / 8 ∧
    (Gen.SyncConn.index0 i p).toNat = i.toNat / 8 ∧
    (Gen.SyncConn.local_bitIndex i p).toNat = i.toNat % 8 := by
  unfold Gen.SyncConn.local_byteIndex Gen.SyncConn.index0 Gen.SyncConn.local_bitIndex
  have h8 : (8#64).toNat = 8 := by decide
  rw [sdiv64_nonneg i _ (by omega) (by decide), srem64_nonneg i _ (by omega) (by decide), h8]
  exact ⟨rfl, rfl, rfl⟩

/-- Client: the resend loop visits index `i` iff `i ≤ latest - off` (32-bit
wrap-around subtraction, as in the source) and `i / 8 < 504`. -/
theorem resend_loop (bfByte : BitVec 8) (errB : Bool) (i latest off pw : BitVec 32) :
    Gen.SyncRound.c7 bfByte errB i latest off pw
      = decide (i.toNat ≤ (latest.toNat + 2^32 - off.toNat) % 2^32 ∧ i.toNat / 8 < 504) := by
  unfold Gen.SyncRound.c7
  have h1 := i.isLt
  have h2 := latest.isLt
  have h3 := off.isLt
  have hz : (BitVec.setWidth 64 i).toNat = i.toNat := by
    simp only [BitVec.toNat_setWidth, Nat.reducePow]; omega
  have hs : (BitVec.sdiv (BitVec.setWidth 64 i) (8#64)).toNat = i.toNat / 8 := by
    rw [sdiv64_nonneg _ _ (by omega) (by decide), hz]; rfl
  rw [Bool.eq_iff_iff]
  simp only [BitVec.slt, BitVec.ule, toInt64, hs, BitVec.toNat_sub, BitVec.toNat_ofNat,
    Bool.and_eq_true, decide_eq_true_eq, Nat.reducePow, Nat.reduceMod]
  omega

/-- Client: the bit test reads bit `i % 8` of the byte. -/
theorem resend_bit (bfByte : BitVec 8) (errB : Bool) (i latest off pw : BitVec 32) :
    Gen.SyncRound.c8 bfByte errB i latest off pw = decide (bfByte.toNat / 2^(i.toNat % 8) % 2 = 0) := by
  unfold Gen.SyncRound.c8
  have hk : i.toNat % 8 < 8 := Nat.mod_lt _ (by decide)
  have h8 : (BitVec.umod i (8#32)).toNat = i.toNat % 8 := by
    rw [BitVec.umod_eq, BitVec.toNat_umod]; rfl
  rw [h8, Bool.eq_iff_iff]
  simp only [beq_iff_eq, ← BitVec.toNat_inj, BitVec.toNat_and, BitVec.toNat_shiftLeft, BitVec.toNat_ofNat,
    decide_eq_true_eq, Nat.reducePow, Nat.reduceMod, Nat.one_shiftLeft]
  have hp : 2 ^ (i.toNat % 8) % 256 = 2 ^ (i.toNat % 8) := by
    apply Nat.mod_eq_of_lt
    calc 2 ^ (i.toNat % 8) < 2 ^ 8 := Nat.pow_lt_pow_right (by decide) hk
      _ = 256 := by decide
  rw [hp]
  exact and_two_pow_eq_zero _ _

/-- Client: readings below 2 (sentinels, unreadable) are not retransmitted. -/
theorem resend_skip (bfByte : BitVec 8) (errB : Bool) (i latest off pw : BitVec 32) :
    Gen.SyncRound.c9 bfByte errB i latest off pw = (errB || decide (pw.toNat < 2)) := by
  unfold Gen.SyncRound.c9
  bv_arith

/-- Client: the retransmitted power is the stored 32-bit value sign-extended to 64 bits. -/
theorem resend_energy (bfByte : BitVec 8) (errB : Bool) (i latest off pw : BitVec 32) :
    (Gen.SyncRound.field_Energy bfByte errB i latest off pw).toNat
      = if pw.toNat < 2^31 then pw.toNat else 2^64 - 2^32 + pw.toNat := by
  unfold Gen.SyncRound.field_Energy
  have h1 := pw.isLt
  rw [BitVec.toNat_signExtend, BitVec.msb_eq_decide]
  simp only [BitVec.toNat_setWidth, decide_eq_true_eq, Nat.reducePow, Nat.reduceSub]
  split <;> split <;> omega

theorem resend_timeslot (bfByte : BitVec 8) (errB : Bool) (i latest off pw : BitVec 32) :
    (Gen.SyncRound.field_Timeslot bfByte errB i latest off pw).toNat = (i.toNat + off.toNat) % 2^32 := by
  unfold Gen.SyncRound.field_Timeslot
  bv_arith

/-! ### C10 / C11: reply length and freshness -/

theorem reply_min_length (now signingTime : BitVec 64) (respLen : BitVec 16) :
    Gen.ServerSync.c0 now respLen signingTime = decide (respLen.toNat < 712) := by
  unfold Gen.ServerSync.c0
  bv_arith

/-- Freshness: rejected iff the signing time is more than 24 h from the
client's clock, for every pair of 64-bit values with `now` at least a day after
the epoch and a day before 2^64 seconds. -/
theorem reply_freshness (now signingTime : BitVec 64) (respLen : BitVec 16)
    (h1 : 86400 ≤ now.toNat) (h2 : now.toNat + 86400 < 2^64) :
    Gen.ServerSync.c1 now respLen signingTime
      = decide (now.toNat + 86400 < signingTime.toNat ∨ signingTime.toNat < now.toNat - 86400) := by
  unfold Gen.ServerSync.c1
  have h3 := now.isLt
  have h4 := signingTime.isLt
  bv_arith

/-! ### C09: history store guards and byte offset -/

theorem save_before_origin (cur off rd ts : BitVec 32) :
    Gen.SaveReading.c0 cur off rd ts = decide (ts.toNat < off.toNat) := by
  unfold Gen.SaveReading.c0
  bv_arith
theorem save_beyond_range (cur off rd ts : BitVec 32) (h : off.toNat ≤ ts.toNat) :
    Gen.SaveReading.c1 cur off rd ts = decide (2^30 - 1 ≤ ts.toNat - off.toNat) := by
  unfold Gen.SaveReading.c1
  have h1 := off.isLt
  have h2 := ts.isLt
  bv_arith
theorem save_same (cur off rd ts : BitVec 32) :
    Gen.SaveReading.c2 cur off rd ts = decide (cur.toNat = rd.toNat) := by
  unfold Gen.SaveReading.c2
  bv_arith
theorem save_occupied (cur off rd ts : BitVec 32) :
    Gen.SaveReading.c3 cur off rd ts = decide (cur.toNat ≠ 0) := by
  unfold Gen.SaveReading.c3
  bv_arith
/-- Inside the accepted range the byte offset is exact (no 32-bit wrap-around). -/
theorem save_offset (cur off rd ts : BitVec 32) (h : off.toNat ≤ ts.toNat)
    (h2 : ts.toNat - off.toNat < 2^30 - 1) :
    (Gen.SaveReading.local_byteOffset cur off rd ts).toNat = 4 * (1 + (ts.toNat - off.toNat)) := by
  unfold Gen.SaveReading.local_byteOffset
  have h3 := off.isLt
  have h4 := ts.isLt
  bv_arith
theorem save_kinds : Gen.SaveReading.condKinds = ["if-exit", "if-exit", "if-exit", "if-exit"] := by decide

theorem load_before_origin (off ts : BitVec 32) :
    Gen.LoadReading.c0 off ts = decide (ts.toNat < off.toNat) := by
  unfold Gen.LoadReading.c0
  bv_arith
theorem load_beyond_range (off ts : BitVec 32) (h : off.toNat ≤ ts.toNat) :
    Gen.LoadReading.c1 off ts = decide (2^30 - 1 ≤ ts.toNat - off.toNat) := by
  unfold Gen.LoadReading.c1
  have h1 := off.isLt
  have h2 := ts.isLt
  bv_arith
theorem load_offset (off ts : BitVec 32) (h : off.toNat ≤ ts.toNat) (h2 : ts.toNat - off.toNat < 2^30 - 1) :
    (Gen.LoadReading.local_byteOffset off ts).toNat = 4 * (1 + (ts.toNat - off.toNat)) := by
  unfold Gen.LoadReading.local_byteOffset
  have h3 := off.isLt
  have h4 := ts.isLt
  bv_arith
theorem load_kinds : Gen.LoadReading.condKinds = ["if-exit", "if-exit"] := by decide

/-! ### C13 / C12: impact job re-validation -/

theorem impact_guard (ex : Bool) (off ts : BitVec 32) :
    Gen.ImpactRound.c1 ex off ts = (ex && decide (off.toNat ≤ ts.toNat ∧ ts.toNat - off.toNat < 4032)) := by
  unfold Gen.ImpactRound.c1
  have h1 := off.isLt
  have h2 := ts.isLt
  cases ex
  · simp
  · simp only [Bool.true_and]
    bv_arith
theorem impact_index (ex : Bool) (off ts : BitVec 32) (h : off.toNat ≤ ts.toNat) :
    (Gen.ImpactRound.index0 ex off ts).toNat = ts.toNat - off.toNat := by
  unfold Gen.ImpactRound.index0
  have h1 := off.isLt
  have h2 := ts.isLt
  bv_arith

/-! ### C19 / C18: comparisons of the rate limiter and the event log (signed 64-bit, no overflow in range) -/

/-- `t.After(now.Add(-rate))` is `t > now - rate` for clock values and windows below 2^62 ns (146 years). -/
theorem rate_expiry (limit n now rate t : BitVec 64)
    (hn : now.toInt.natAbs < 2^62) (hr : rate.toInt.natAbs < 2^62) :
    Gen.RateAllow.c0 limit n now rate t = decide (t.toInt > now.toInt - rate.toInt) := by
  unfold Gen.RateAllow.c0
  have h1 := now.isLt
  have h2 := rate.isLt
  have h3 := t.isLt
  rw [toInt64] at hn hr
  bv_arith
theorem rate_limit (limit n now rate t : BitVec 64) :
    Gen.RateAllow.c1 limit n now rate t = decide (n.toInt < limit.toInt) := by
  unfold Gen.RateAllow.c1
  simp only [BitVec.slt]
theorem rate_kinds : Gen.RateAllow.condKinds = ["if-exit", "if-exit"] := by decide

theorem log_expiry (expiry now ts : BitVec 64)
    (hn : now.toInt.natAbs < 2^62) (he : expiry.toInt.natAbs < 2^62) :
    Gen.LogExpire.c0 expiry now ts = decide (ts.toInt < now.toInt - expiry.toInt) := by
  unfold Gen.LogExpire.c0
  have h1 := now.isLt
  have h2 := expiry.isLt
  have h3 := ts.isLt
  rw [toInt64] at hn he
  bv_arith
theorem log_cut (klen maxB maxLine size : BitVec 64) :
    Gen.LogPrintf.c0 klen maxB maxLine size = decide (klen.toInt > maxLine.toInt) := by
  unfold Gen.LogPrintf.c0
  simp only [BitVec.slt, gt_iff_lt]
theorem log_unstorable (klen maxB maxLine size : BitVec 64) (hk : klen.toNat < 2^62) :
    Gen.LogPrintf.c1 klen maxB maxLine size = decide (2 * klen.toInt > maxB.toInt) := by
  unfold Gen.LogPrintf.c1
  have h1 := maxB.isLt
  bv_arith
theorem log_evict (klen maxB maxLine size : BitVec 64) (hk : klen.toNat < 2^61) (hs : size.toInt.natAbs < 2^62) :
    Gen.LogPrintf.c2 klen maxB maxLine size = decide (2 * klen.toInt + size.toInt > maxB.toInt) ∧
    Gen.LogPrintf.c3 klen maxB maxLine size = decide (2 * klen.toInt + size.toInt > maxB.toInt) := by
  unfold Gen.LogPrintf.c2 Gen.LogPrintf.c3
  have h1 := maxB.isLt
  have h2 := size.isLt
  rw [toInt64] at hs
  have e : BitVec.slt maxB (2#64 * klen + size) = decide (2 * klen.toInt + size.toInt > maxB.toInt) := by
    bv_arith
  exact ⟨e, e⟩
theorem log_kinds : Gen.LogPrintf.condKinds = ["if", "if-exit", "if", "for"] := by decide

/-! ### C01 / C12: the UDP listener hands over only datagrams of exactly 80 bytes read -/

theorem udp_length_guard (n : BitVec 64) : Gen.ListenUDP.c0 n = decide (n.toNat ≠ 80) := by
  unfold Gen.ListenUDP.c0
  by_cases h : n = 80#64
  · subst h; decide
  · have : n.toNat ≠ 80 := fun hn => h (BitVec.eq_of_toNat_eq (by simpa using hn))
    simp [h, this]
theorem udp_kinds : Gen.ListenUDP.condKinds = ["if-exit"] := by decide

/-! ### C10 / C15 / C17: locations must fit the one-byte length field; ban rule of the server list -/

theorem migration_location_bound (n : BitVec 64) (h : n.toNat < 2^63) :
    Gen.ValidateMigration.c0 n = decide (n.toNat > 255) := by
  unfold Gen.ValidateMigration.c0
  have := n.isLt
  simp only [BitVec.slt, BitVec.toInt_eq_toNat_cond]
  simp
  omega
theorem server_location_bound (n : BitVec 64) (nb ob : Bool) (h : n.toNat < 2^63) :
    Gen.AuthServersPOST.c0 n nb ob = decide (n.toNat > 255) := by
  unfold Gen.AuthServersPOST.c0
  have := n.isLt
  simp only [BitVec.slt, BitVec.toInt_eq_toNat_cond]
  simp
  omega
/-- An entry for a known key is ignored if the known entry is already banned, or if the new one does not ban. -/
theorem server_ban_rule (n : BitVec 64) (nb ob : Bool) :
    Gen.AuthServersPOST.c1 n nb ob = ob ∧ Gen.AuthServersPOST.c2 n nb ob = !nb := ⟨rfl, rfl⟩
theorem authServersPOST_kinds : Gen.AuthServersPOST.condKinds = ["if-exit", "if-exit", "if-exit"] := by decide
theorem validateMigration_kinds : Gen.ValidateMigration.condKinds = ["if-exit"] := by decide

/-! ### C09 / C11: the reporting loop: a record is sent only after its save succeeded and only if newer; sync scheduling -/

/-- The branch after the save is an early `continue` on error (so nothing is sent for a refused
reading), and the send is guarded by "newer than the latest record". -/
theorem sendloop_kinds : Gen.SendLoop.condKinds = ["if", "if-exit", "if", "if", "if"] := by decide
theorem sendloop_save_guard (errB okB : Bool) (latest ts : BitVec 32) (st ticks : BitVec 64) :
    Gen.SendLoop.c1 errB latest okB st ticks ts = errB := rfl
theorem sendloop_newer_only (errB okB : Bool) (latest ts : BitVec 32) (st ticks : BitVec 64) :
    Gen.SendLoop.c2 errB latest okB st ticks ts = decide (ts.toNat > latest.toNat) ∧
    Gen.SendLoop.c3 errB latest okB st ticks ts = decide (ts.toNat > latest.toNat) := by
  unfold Gen.SendLoop.c2 Gen.SendLoop.c3
  simp [BitVec.ult]
/-- A sync round starts when the counter reaches 60, or after a failed round when `ticks % 4 = 3`
(`Cl.shouldSync`), for every counter value that a loop which resets at 60 can reach. -/
theorem sync_schedule (errB okB : Bool) (latest ts : BitVec 32) (st ticks : BitVec 64) (h : ticks.toNat < 2^62) :
    Gen.SendLoop.c4 errB latest okB st ticks ts = Gca.Cl.shouldSync ticks.toNat st.toNat := by
  have hr : (BitVec.srem ticks (4#64)).toNat = ticks.toNat % 4 :=
    srem64_nonneg ticks (4#64) (by omega) (by decide)
  have hi : ticks.toInt = ticks.toNat := by rw [toInt64]; omega
  unfold Gen.SendLoop.c4 Gca.Cl.shouldSync
  rw [Bool.eq_iff_iff]
  simp only [BitVec.sle, Bool.or_eq_true, Bool.and_eq_true, decide_eq_true_eq, beq_iff_eq,
    ← BitVec.toNat_inj, hr, hi, BitVec.toNat_ofNat, Nat.reducePow, Nat.reduceMod, ge_iff_le]
  have h60 : (60#64).toInt = 60 := by decide
  rw [h60]
  omega


/-! ### Shape pins

The conditions of a target function that are outside the translated fragment (error tests, map look-ups,
signature calls, loop bounds over slices) cannot be given a semantic obligation. Their TEXT, in source
order, is pinned instead: a change to one of them - a dropped `.Banned` test, a signature call with another
key, a look-up that lost its comma-ok form - breaks the pin. A harmless rewording breaks it too; the
check then reports the pin by name and looks for a failing input like for any other obligation. -/
theorem shape_syncround : Gen.SyncRound.untranslated = ["i < 6", "i == 5", "!c.tg.Sleep(sendReportTime)", "exists || c.gcaServers[server].Banned", "!found", "err == nil", "newGCA != c.gcaPubKey && newGCA != blank", "!exists || s.Banned", "!exists || s.Banned"] := by decide
theorem shape_serversync : Gen.ServerSync.untranslated = ["err != nil", "err != nil", "err != nil", "err != nil", "n != int(respLen)", "!glow.Verify(gcasKey, respBuf[:respLen - 64], sig)", "equipmentKey != c.staticPubKey", "newGCA != blank && !glow.Verify(gcaKey, newGCASigningBytes, newGCASignature)", "i + 34 > end", "i + locationLen + 70 > end", "newGCA != blank && len(gcaServers) == 0", "newGCA != blank", "!verify"] := by decide
theorem shape_authservers : Gen.AuthServersPOST.untranslated = ["err != nil", "!glow.Verify(gcaPubkey, sb, server.GCAAuthorization)", "i < len(s.gcaServers.servers)", "s.gcaServers.servers[i].PublicKey == server.PublicKey", "as.Banned", "err != nil", "err != nil", "err != nil", "err != nil"] := by decide
theorem shape_validatemigration : Gen.ValidateMigration.untranslated = ["!glow.Verify(gcaPubkey, sb, em.Signature)", "!glow.Verify(em.NewGCA, sb, as.GCAAuthorization)"] := by decide
theorem shape_syncconn : Gen.SyncConn.untranslated = ["err != nil", "exists", "!exists || !exists2", "migrationExists", "s.Banned", "err != nil"] := by decide
theorem shape_statshandler : Gen.StatsHandler.untranslated = ["r.Method != http.MethodGet", "tsoStr == \"\"", "err != nil", "err != nil", "wantNegStr == \"true\"", "i < len(stats.Devices)", "j < len(stats.Devices[i].PowerOutputs)", "rand.Intn(50) != 1", "stats.Devices[i].PowerOutputs[j] < 24", "stats.Devices[i].PowerOutputs[j] > 1e18", "err != nil"] := by decide
theorem shape_loadreading : Gen.LoadReading.untranslated = ["err == io.EOF", "err != nil"] := by decide
theorem shape_savereading : Gen.SaveReading.untranslated = ["err != nil", "err != nil"] := by decide
theorem shape_sendloop : Gen.SendLoop.untranslated = ["!isRecent || err != nil", "c.tg.IsStopped()", "!c.tg.Sleep(sendReportTime + randomTimeExtension())", "success"] := by decide
theorem shape_handlereport : Gen.HandleReport.untranslated = ["err != nil"] := by decide
theorem shape_rateallow : Gen.RateAllow.untranslated = ["idx == -1"] := by decide
theorem shape_logprintf : Gen.LogPrintf.untranslated = ["found"] := by decide
theorem shape_logexpire : Gen.LogExpire.untranslated = ["len(entry.updates) == 0"] := by decide
theorem shape_integrate : Gen.Integrate.untranslated = [] := by decide
theorem shape_migrateloop : Gen.MigrateLoop.untranslated = ["!gcas.tg.Sleep(ReportMigrationFrequency)"] := by decide
theorem shape_impactround : Gen.ImpactRound.untranslated = ["err != nil", "err != nil", "err != nil"] := by decide
theorem shape_listenudp : Gen.ListenUDP.untranslated = ["server.tg.IsStopped()", "err != nil", "!server.tg.IsStopped()"] := by decide
theorem shape_buildstats : Gen.BuildStats.untranslated = ["i < 2016"] := by decide
/-- The three places where a signature decides: a datagram is parsed (length, known id, signature - nothing
else, and nothing that could switch the signature test off), an authorization is verified, a registration is
accepted (not yet registered, signature of the temporary key, the key file written). -/
theorem shape_parsereport : Gen.ParseReport.condKinds = ["if-exit"] ∧
    Gen.ParseReport.untranslated = ["!ok", "!glow.Verify(equipment.PublicKey, sb, report.Signature)"] := by decide
theorem parsereport_length (n : BitVec 64) : Gen.ParseReport.c0 n = decide (n.toNat ≠ 80) := by
  unfold Gen.ParseReport.c0
  bv_arith
/-- The four loaders of a start: what they test is pinned (a missing file is created, any other read error
ends the start, a partial trailing record is dropped, a record that does not verify ends the start -
nothing is skipped, defaulted or retried), and the two length tests are the specified ones. -/
theorem shape_loadequipment : Gen.LoadEquipment.condKinds = ["if"] ∧ Gen.LoadEquipment.untranslated =
    ["err != nil", "os.IsNotExist(err)", "err != nil", "err != nil", "buffer.Len() > 0", "err != nil", "err != nil",
     "exists", "exists", "bytes.Equal(a, b)", "used", "!exists"] := by decide
theorem shape_loadhistory : Gen.LoadHistory.condKinds = ["if-exit"] ∧ Gen.LoadHistory.untranslated =
    ["os.IsNotExist(err)", "err != nil", "err != nil", "err != nil", "err != nil", "terr != nil"] ∧
    (∀ n, Gen.LoadHistory.c0 n = (n == 0#64)) := by
  refine ⟨by decide, by decide, fun n => rfl⟩
theorem shape_loadreports : Gen.LoadReports.condKinds = ["if"] ∧ Gen.LoadReports.untranslated =
    ["err != nil", "!os.IsNotExist(err)", "err != nil", "err != nil", "i < len(rawData) / 80", "banned", "err != nil"] := by decide
theorem shape_loadgcapubkey : Gen.LoadGCAPubkey.condKinds = ["if-exit"] ∧ Gen.LoadGCAPubkey.untranslated =
    ["os.IsNotExist(err) || (err == nil && len(pubkeyData) == 0)", "err != nil"] := by decide
/-- "The log ends inside a record": the remainder of the file length by the record size (a Go `int`, never negative). -/
theorem loadequipment_torn (n : BitVec 64) (h : n.toNat < 2^63) :
    Gen.LoadEquipment.c0 n = decide (n.toNat % 148 ≠ 0) := by
  unfold Gen.LoadEquipment.c0
  have hs := srem64_nonneg n (148#64) h (by decide)
  have h148 : (148#64 : BitVec 64).toNat = 148 := by decide
  by_cases hz : n.toNat % 148 = 0
  · have : BitVec.srem n (148#64) = 0#64 := by
      apply BitVec.eq_of_toNat_eq; rw [hs, h148, hz]; rfl
    simp [this, hz]
  · have : BitVec.srem n (148#64) ≠ 0#64 := by
      intro he; apply hz; have := congrArg BitVec.toNat he; rw [hs, h148] at this; simpa using this
    simp [this, hz]
theorem loadreports_torn (n : BitVec 64) (h : n.toNat < 2^63) :
    Gen.LoadReports.c0 n = decide (n.toNat % 80 ≠ 0) := by
  unfold Gen.LoadReports.c0
  have hs := srem64_nonneg n (80#64) h (by decide)
  have h80 : (80#64 : BitVec 64).toNat = 80 := by decide
  by_cases hz : n.toNat % 80 = 0
  · have : BitVec.srem n (80#64) = 0#64 := by
      apply BitVec.eq_of_toNat_eq; rw [hs, h80, hz]; rfl
    simp [this, hz]
  · have : BitVec.srem n (80#64) ≠ 0#64 := by
      intro he; apply hz; have := congrArg BitVec.toNat he; rw [hs, h80] at this; simpa using this
    simp [this, hz]
theorem loadgcapubkey_length (n : BitVec 64) : Gen.LoadGCAPubkey.c0 n = decide (n.toNat ≠ 32) := by
  unfold Gen.LoadGCAPubkey.c0
  bv_arith
theorem shape_verifyauth : Gen.VerifyAuth.condKinds = [] ∧ Gen.VerifyAuth.untranslated = ["!isValid"] := by decide
theorem shape_registergca : Gen.RegisterGCA.condKinds = ["if-exit"] ∧ Gen.RegisterGCA.untranslated = ["!isValid", "err != nil"] ∧
    (∀ b, Gen.RegisterGCA.c0 b = b) := by decide


/-- `managedGetWattTimeWeekData` (production build) is called by the rotation BEFORE it rotates and has to
come back whatever WattTime does: one early exit for the test build, error returns, two bounded loops over
devices and dates - no retry loop, no sleep. -/
theorem shape_weekdata :
    Gen.WeekData.condKinds = ["if-exit", "if"] ∧
    Gen.WeekData.untranslated = ["err != nil", "err != nil", "i >= 4032", "err != nil", "timeslot >= gcas.equipmentReportsOffset"] := by
  decide

end Gca.Tie
