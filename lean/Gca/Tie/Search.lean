import Gca.Generated.Guards
import Gca.Timeslot
/-!
Search for a concrete input on which a regenerated guard differs from its specification. This is NOT
part of any proof: it runs only after a tie obligation of `Tie/Guards.lean` has stopped checking, to
turn "the proof no longer goes through" into "here is a clock value and a timeslot on which the code
now answers differently from the rule" (the replay of the VIOLATION line). The grid is the set of
boundary values of the rule and of the integer types, and every pair of them.
-/
namespace Gca.Tie.Search
open Gca

def edge32 : List Nat :=
  [0, 1, 2, 431, 432, 433, 434, 863, 864, 865, 2015, 2016, 2017, 3199, 3200, 3201, 3999, 4000, 4001, 4031, 4032, 4033,
   2^31 - 433, 2^31 - 1, 2^31, 2^31 + 432, 2^31 + 433, 2^32 - 4033, 2^32 - 866, 2^32 - 434, 2^32 - 433, 2^32 - 432, 2^32 - 2, 2^32 - 1]

def near (n : Nat) : List Nat :=
  ([n - 4001, n - 4000, n - 3201, n - 3200, n - 433, n - 432, n - 431, n, n + 431, n + 432, n + 433, n + 3200, n + 3201, n + 4000, n + 4001].filter (· < 2^32))

def pairs : List (Nat × Nat) := edge32.flatMap (fun a => (edge32 ++ near a).map (fun b => (a, b)))

/-- The acceptance-window comparison of the report listener. -/
def window : String :=
  (pairs.findSome? (fun (now, ts) =>
    let g := Gen.HandleReport.c0 (BitVec.ofNat 32 now) 0#64 (BitVec.ofNat 32 ts)
    let s := !decide (TS.inWindow ts now)
    if g != s then
      some s!"acceptance window: now={now} timeslot={ts}: the code {if g then "rejects" else "accepts"}, the rule |timeslot - now| <= 432 {if s then "rejects" else "accepts"}"
    else none)).getD ""

/-- The rotation trigger of the background loop. -/
def rotation_trigger : String :=
  (pairs.findSome? (fun (now, off) =>
    let g := Gen.MigrateLoop.c1 (BitVec.ofNat 32 now) (BitVec.ofNat 32 off)
    let s := decide ((now : Int) - off > 3200)
    if g != s then
      some s!"rotation trigger: now={now} offset={off}: the code {if g then "rotates" else "does not rotate"}, the rule now - offset > 3200 {if s then "rotates" else "does not rotate"}"
    else none)).getD ""

/-- The catch-up bound at start-up. -/
def startup_catchup : String :=
  (pairs.findSome? (fun (now, off) =>
    let g := Gen.MigrateLoop.c0 (BitVec.ofNat 32 now) (BitVec.ofNat 32 off)
    let s := decide ((now : Int) - off < 4000)
    if g != s then
      some s!"start-up catch-up: now={now} offset={off}: the code {if g then "stops" else "goes on"} rotating, the rule now - offset < 4000 {if s then "stops" else "goes on"}"
    else none)).getD ""

end Gca.Tie.Search
