import Gca.Generated.Tables
import Gca.Codec.Report
import Gca.Codec.Auth
import Gca.Codec.AuthServer
import Gca.Codec.Stats
/-
Obligations on the regenerated tables: constants, file order, signing
prefixes, key sources of every `glow.Verify` call, byte layouts of the
encoders/decoders, order facts (write-before-memory-update, limiter consulted
first, load order). Each is an equality between the text extracted from the
current source tree and the value the hand-written model assumes; all are
closed by `decide`/`rfl`, so a change of the source changes the left-hand side
and the obligation no longer type-checks.
-/
namespace Gca.Tie

/-! ### Signing prefixes (C15): the model's prefixes are the source's, and they are pairwise prefix-free -/

theorem prefix_report : Gen.prefixReport = [Report.prefixStr] := by decide
theorem prefix_auth : Gen.prefixAuth = [Auth.prefixStr] := by decide
theorem prefix_registration : Gen.prefixRegistration = [Registration.prefixStr] := by decide
theorem prefix_authServer : Gen.prefixAuthServer = [AuthServer.prefixStr] := by decide
theorem prefix_migration : Gen.prefixMigration = [Migration.prefixStr] := by decide
/-- (the first literal is the text of a `panic`, the second is the prefix) -/
theorem prefix_stats : Gen.prefixStats = ["SigningBytes gone wrong", Week.prefixStr] := by decide
/-- The client rebuilds the migration signing bytes with the same prefix. -/
theorem prefix_client_migration : Gen.clientSyncLiterals = [Migration.prefixStr] := by decide

def allPrefixes : List String :=
  [Report.prefixStr, Auth.prefixStr, Registration.prefixStr, AuthServer.prefixStr,
   Migration.prefixStr, Week.prefixStr]

/-- `a` is a prefix of `b` as byte strings. -/
def isPrefix (a b : Bytes) : Bool := a.isPrefixOf b

/-- No signing prefix is a prefix of another one: signing bytes of different
message types can never coincide. -/
theorem prefixes_prefix_free :
    ∀ i j : Fin allPrefixes.length, i ≠ j →
      isPrefix (ascii allPrefixes[i]) (ascii allPrefixes[j]) = false := by decide

/-! ### Public files (C14): archived in reverse dependency order -/

theorem public_files : Gen.publicFiles =
    ["allDeviceStats.dat", "equipment-reports.dat", "equipment-authorizations.dat",
     "gcaPubKey.dat", "gcaTempPubKey.dat"] := by decide

theorem archive_order : Gen.archiveHandlerOrder = ["Allow", "addFile", "addPubKeyFile", "addReadmeFile"] := by decide

/-! ### Key sources (C01, C06, C07, C10, C17) -/

theorem verify_keys_server : Gen.verifyCalls_server =
    [("AuthorizedServersHandlerPOST", "gcaPubkey", "sb"),
     ("managedValidateMigration", "gcaPubkey", "sb"),
     ("managedValidateMigration", "em.NewGCA", "sb"),
     ("parseReport", "equipment.PublicKey", "sb"),
     ("registerGCA", "gcas.gcaTempKey", "sb"),
     ("verifyEquipmentAuthorization", "gcas.gcaPubkey", "signingBytes"),
     ("verifyGCAKey", "gcas.gcaTempKey", "signingBytes")] := by decide

theorem verify_keys_client : Gen.verifyCalls_client =
    [("staticServerSync", "gcasKey", "respBuf[:respLen - 64]"),
     ("staticServerSync", "gcaKey", "newGCASigningBytes"),
     ("staticServerSync", "newGCA", "sb"),
     ("staticServerSync", "gcaKey", "sb")] := by decide

/-! ### Byte layouts (C15) -/

theorem layout_report : Gen.layoutReportSerialize =
    ["bytes@0:4=er.ShortID", "bytes@4:4=er.Timeslot", "bytes@8:8=er.PowerOutput",
     "bytes@16:copy=er.Signature[:]"] := by decide
theorem layout_report_signing : Gen.layoutReportSigning =
    ["bytes@?:copy=prefix", "bytes@15:4=er.ShortID", "bytes@19:4=er.Timeslot",
     "bytes@23:8=er.PowerOutput"] := by decide
theorem layout_report_read : Gen.readsReportDeserialize =
    ["er.ShortID<-binary.LittleEndian.Uint32(i[0:4])", "er.Timeslot<-binary.LittleEndian.Uint32(i[4:8])",
     "er.PowerOutput<-binary.LittleEndian.Uint64(i[8:16])", "copy:er.Signature[:]<-i[16:80]"] := by decide
theorem layout_parse_report : Gen.readsParseReport =
    ["report.ShortID<-binary.LittleEndian.Uint32(rawData[0:4])",
     "report.Timeslot<-binary.LittleEndian.Uint32(rawData[4:8])",
     "report.PowerOutput<-binary.LittleEndian.Uint64(rawData[8:16])",
     "copy:report.Signature[:]<-rawData[16:]", "sb<-report.SigningBytes()"] := by decide
theorem layout_auth : Gen.layoutAuthSerialize =
    ["data@0:4=ea.ShortID", "data@4:copy=ea.PublicKey[:]", "data@36:8=math.Float64bits(ea.Latitude)",
     "data@44:8=math.Float64bits(ea.Longitude)", "data@52:8=ea.Capacity", "data@60:8=ea.Debt",
     "data@68:4=ea.Expiration", "data@72:4=ea.Initialization", "data@76:8=ea.ProtocolFee",
     "data@84:copy=ea.Signature[:]"] := by decide
theorem layout_auth_read : Gen.readsAuthDeserialize =
    ["ea.ShortID<-binary.LittleEndian.Uint32(data[0:4])", "copy:ea.PublicKey[:]<-data[4:36]",
     "ea.Latitude<-math.Float64frombits(binary.LittleEndian.Uint64(data[36:44]))",
     "ea.Longitude<-math.Float64frombits(binary.LittleEndian.Uint64(data[44:52]))",
     "ea.Capacity<-binary.LittleEndian.Uint64(data[52:60])", "ea.Debt<-binary.LittleEndian.Uint64(data[60:68])",
     "ea.Expiration<-binary.LittleEndian.Uint32(data[68:72])",
     "ea.Initialization<-binary.LittleEndian.Uint32(data[72:76])",
     "ea.ProtocolFee<-binary.LittleEndian.Uint64(data[76:84])", "copy:ea.Signature[:]<-data[84:]"] := by decide
theorem layout_auth_server : Gen.layoutAuthServerSerialize =
    ["data@0:copy=as.PublicKey[:]", "data@34:copy=[]byte(as.Location)",
     "data@34 + locationLength:2=as.HttpPort", "data@36 + locationLength:2=as.TcpPort",
     "data@38 + locationLength:2=as.UdpPort", "data@40 + locationLength:copy=as.GCAAuthorization[:]"] := by decide
theorem layout_migration : Gen.layoutMigrationSerialize =
    ["result@?:copy=em.Equipment[:]", "result@32:copy=em.NewGCA[:]", "result@64:4=em.NewShortID"] := by decide
theorem layout_registration : Gen.layoutRegistrationSigning =
    ["data@0:copy=prefixBytes", "data@len(prefixBytes):copy=gr.GCAKey[:]"] := by decide

/-! ### Order facts (C03, C05, C04) -/

/-- Rotation: statistics are built and appended to the file before memory is shifted. -/
theorem migrate_order : Gen.migrateReportsOrder =
    ["buildDeviceStats", "saveAllDeviceStats", "copy", "copy", "copy", "copy",
     "=gcas.equipmentReportsOffset"] := by decide
/-- Rotation: every literal in the body is 2016 (slice bounds, blank lengths, offset step). -/
theorem migrate_ints : Gen.migrateReportsInts = List.replicate 9 "2016" := by decide
/-- Authorization: the file write precedes every memory update. -/
theorem save_equipment_order : Gen.saveEquipmentOrder =
    ["Write", "addRecentEquipmentAuth", "=gcas.equipment[ea.ShortID]", "=gcas.equipmentBans[ea.ShortID]"] := by decide
/-- The three append-only logs are written with exactly one `Write` call per record (and the file is
used for nothing else but the deferred `Close`): a record is never visible half-written to a concurrent
reader of the archive, and a process crash leaves whole records only. -/
theorem single_write_per_record :
    Gen.fileUsesSaveReport = ["file.Close", "file.Write"] ∧
    Gen.fileUsesSaveEquipment = ["file.Close", "file.Write"] ∧
    Gen.fileUsesSaveStats = ["file.Close", "file.Write"] := by decide
/-- The server's own key file (public key followed by private key, 96 bytes) is written with exactly one
`Write` call, outside any loop, and then closed: a process killed while the file is being created leaves it
empty or whole, never a public key without its private key. -/
theorem single_write_key_file : Gen.fileUsesServerKeys = ["file.Write", "file.Close"] := by decide
/-- The calibration loader (production build) assigns each default to its own field when the file is absent,
and the first parsed line to the multiplier and the second to the divider otherwise; nothing else writes a
field of the client there. -/
theorem calibration_assignments : Gen.ctSettingsAssigns =
    ["c.energyMultiplier=EnergyMultiplierDefault", "c.energyDivider=EnergyDividerDefault",
     "c.energyMultiplier=mult", "c.energyDivider=div"] := by decide
/-- The client's history store reads and writes at explicit offsets only: the reporting loop and every
running sync round share one file handle, and positional I/O is what keeps them from moving each other's
file position. -/
theorem history_positional_io :
    Gen.historyUsesLoad = ["file.ReadAt"] ∧ Gen.historyUsesSave = ["file.WriteAt"] := by decide
/-- The sync reply is read with `io.ReadFull` (length prefix, then the body): a reply that arrives in several
TCP segments is still read whole. -/
theorem sync_reply_read_full :
    Gen.syncConnUses = ["conn.Close", "conn.Write", "arg:ReadFull", "arg:ReadFull"] := by decide
/-- Registration: the file write precedes adopting the key. -/
theorem save_gca_key_order : Gen.saveGCAKeyOrder =
    ["WriteFile", "=server.gcaPubkey", "=server.gcaPubkeyAvailable"] := by decide
/-- Start-up: keys, temp key, GCA key, equipment, history (sets the offset),
reports; listeners only afterwards, catch-up rotation after the UDP listener. -/
theorem startup_order : Gen.startupOrder =
    ["loadGCAServerKeys", "loadGCATempKey", "loadGCAPubkey", "loadEquipment", "loadEquipmentHistory",
     "loadEquipmentReports", "launchUDPServer", "launchMigrateReports", "launchListenForSyncRequests",
     "launchAPI"] := by decide

/-! ### Constants (C20 and others) -/

theorem genesis_prod : Gen.ProdGlow.GenesisTime = 1700352000 := by decide
theorem report_size : Gen.ProdServer.equipmentReportSize = 80 ∧ Gen.TestServer.equipmentReportSize = 80 := by decide
theorem capacity_buffer : Gen.ProdServer.MaxCapacityBuffer = 135 ∧ Gen.TestServer.MaxCapacityBuffer = 135 := by decide
/-- Production rotation check period: one hour = 12 timeslots. -/
theorem migration_period_prod : Gen.ProdServer.ReportMigrationFrequency = 12 * (300 * 1000000000) := by decide
/-- Production reporting period (270 s) plus the largest random extension (4 s) is below one slot. -/
theorem send_period_prod : Gen.ProdClient.sendReportTime + 4000 * 1000000 < 300 * 1000000000 := by decide
/-- Calibration defaults of the production build (used when no calibration file exists): multiplier -2000,
divider 1000 - in particular the default divider is not zero and the two differ, which the test build
(1000/1000) cannot show. -/
theorem calibration_defaults_prod :
    Gen.ProdClient.EnergyMultiplierDefault = -2000 ∧ Gen.ProdClient.EnergyDividerDefault = 1000 := by decide
theorem archive_limit : Gen.ProdServer.apiArchiveLimit = 3 ∧ Gen.ProdServer.apiArchiveRate = 3 * 1000000000 := by decide
theorem history_slots : Gen.ProdClient.maxHistorySlots = 2^30 - 1 ∧ Gen.TestClient.maxHistorySlots = 2^30 - 1 := by decide

end Gca.Tie
