import Gca.Generated.Locks
import Gca.LockSkelSound
/-
Obligations on the regenerated lock skeletons (C11, C13, C07, C19): every
function of server, client and glow passes the verified checker
(`Gca.Lock.check_sound`): on every control-flow path every lock is released,
no two mutexes are ever held together, guarded fields of the server, the event
logger and the rate limiter are touched only under their mutex, functions that
lock are never called with a lock held and helpers that assume the lock are only
called with it. Evaluated by the kernel.
-/
namespace Gca.Tie
open Gca.Lock

/-- Entry points, handlers, background loops and goroutine bodies: start with nothing held. -/
theorem locks_entries_ok : Gen.Locks.entries.all (fun p => check p.2 []) = true := by decide +kernel

/-- Helpers that assume their object's mutex: correct when entered with it held. -/
theorem locks_assuming_ok : Gen.Locks.assuming.all (fun p => checkAssuming p.2.2 p.2.1) = true := by
  decide +kernel

/-- Construction-time loaders: checked as if the object's mutex were held (no other thread exists). -/
theorem locks_ctors_ok : Gen.Locks.ctors.all (fun p => checkAssuming p.2 "mu") = true := by decide +kernel

/-- The construction-time loaders are called only from the constructors (and the
key loader, which touches no guarded state, from the archive handler). -/
theorem locks_ctor_callers : Gen.Locks.ctorCallers.all (fun p =>
    p.2 == "server.NewGCAServer" || p.2 == "client.NewClient" ||
    (p.1 == "server.GCAServer.loadGCAServerKeys" && p.2 == "server.GCAServer.addPubKeyFile")) = true := by
  decide +kernel

mutual
/-- No statement of the program takes, releases or defers the release of any mutex. -/
def stmtNoLockOps : Stmt → Bool
  | .lock _ | .unlock _ | .deferUnlock _ => false
  | .ite a b => progNoLockOps a && progNoLockOps b
  | .loop b => progNoLockOps b
  | _ => true
def progNoLockOps : List Stmt → Bool
  | [] => true
  | s :: r => stmtNoLockOps s && progNoLockOps r
end

/-- A function whose whole body is one critical section: lock, deferred unlock, then only code under
the lock - nothing after the first two statements touches a mutex again. -/
def singleSection : Prog → Bool
  | .lock m :: .deferUnlock m' :: rest => m == m' && progNoLockOps rest
  | _ => false

/-- Helpers that run under their caller's lock never release or re-take it (README: a mutex is locked and
unlocked in the same function): an operation built from them stays ONE critical section. This is what
makes the week rotation (`migrateReports`: archive, shift, advance the offset), `saveEquipment`,
`integrateReport` and the loaders atomic with respect to every other operation. -/
theorem locks_assuming_keep : Gen.Locks.assuming.all (fun p => progNoLockOps p.2.2) = true := by decide +kernel

theorem locks_ctors_keep : Gen.Locks.ctors.all (fun p => progNoLockOps p.2) = true := by decide +kernel

/-- A lock-free prelude, then exactly one critical section that lasts to the end of the function. -/
def lockedTail : Prog → Bool
  | [] => false
  | .lock m :: rest =>
    match rest.getLast? with
    | some (.unlock m') => m == m' && progNoLockOps rest.dropLast
    | _ => false
  | s :: rest => stmtNoLockOps s && lockedTail rest

/-- The week rotation `migrateReports` fetches the week's impact data first (its own short sections, through
a function that locks for itself) and then archives, persists, shifts and advances the offset in ONE
critical section: no report or query can run between the archive and the shift. -/
theorem rotation_single_section : lockedTail Gen.Locks.u_server_GCAServer_migrateReports = true := by decide

/-- Fields of the lock-protected objects that no mutex guards are configuration: the only methods that
assign to one are the three listener launchers, which `NewGCAServer` calls before it returns the server
(the port each listener was given). Anything else - a lazily created limiter, a cached value - would be an
unsynchronised write on a running server. -/
theorem unguarded_writes_only_at_start : Gen.Locks.unguardedWrites =
    ["server.GCAServer.launchAPI:httpPort", "server.GCAServer.launchListenForSyncRequests:tcpPort",
     "server.GCAServer.launchUDPServer:udpPort"] := by decide

/-- README naming discipline: a method called `static*` works on what never changes after construction, so
it may run without any lock next to anything else (the history store is read by the reporting loop and by
every running sync round at once). The only other fields such methods mention are the event logger (which
locks for itself), the two calibration values (set once while the client is built) and `shortID`, which
`staticSendReport`/`staticServerSync` read without the mutex while a migration may write it - a known,
benign exception that is pinned here so that no further one appears (a shared scratch buffer, a cache). -/
theorem static_methods_use_static_fields : Gen.Locks.staticFieldUses =
    ["client.Client.staticReadEnergyFile:EventLog", "client.Client.staticReadEnergyFile:energyDivider",
     "client.Client.staticReadEnergyFile:energyMultiplier", "client.Client.staticSendReport:EventLog",
     "client.Client.staticSendReport:shortID", "client.Client.staticServerSync:shortID"] := by decide

/-- `RateLimiter.Allow` (clock read included), `registerGCA`, the datagram handler and
`managedAuthorizeEquipment` are single critical sections: concurrent calls are sequences. -/
theorem single_sections :
    singleSection Gen.Locks.u_glow_RateLimiter_Allow = true ∧
    singleSection Gen.Locks.u_server_GCAServer_registerGCA = true ∧
    singleSection Gen.Locks.u_server_GCAServer_managedHandleEquipmentReport = true ∧
    singleSection Gen.Locks.u_server_GCAServer_managedAuthorizeEquipment = true ∧
    singleSection Gen.Locks.u_server_GCAServer_getRecentReportsWithSignature = true := by decide

/-- No method takes a value receiver whose type holds a mutex (it would lock a copy of the mutex - born locked if
the original happened to be held - and protect nothing). -/
theorem no_lock_copying_receivers : Gen.Locks.lockCopyingReceivers = [] := by decide

/-- No goroutine launched inside a loop is handed a slice, map, pointer, array or channel that was declared
outside the loop, or an alias of one: each datagram (each connection, each request) has its own buffer, which the
next iteration of the loop cannot overwrite while the handler still waits for the mutex. -/
theorem no_loop_shared_captures : Gen.Locks.loopSharedCaptures = [] := by decide

end Gca.Tie
