import Gca.Server.Model
import Gca.Server.InvLemmas
/-
Representation invariant of the server state and well-formedness of
operations (values representable by the Go types that carry them).
`inv_step`/`inv_boot` say that every reachable state satisfies `Inv`.
-/
namespace Gca.Srv

/-- Values the Go types can hold (fixed-size arrays, fixed-width integers). -/
def OpWF : Op → Prop
  | .register k _ => k.length = 32
  | .authorize a => a.WF ∧ Srv.isNaN a.lat = false ∧ Srv.isNaN a.lon = false
  | .restart fresh _ => fresh.length = 32
  | .authServer a => a.key.length = 32 ∧ a.sig.length = 64 ∧ a.http < 2^16 ∧ a.tcp < 2^16 ∧ a.udp < 2^16
  | .migrate m => m.equipment.length = 32 ∧ m.newGCA.length = 32 ∧ m.newId < 2^32 ∧ m.sig.length = 64
  | _ => True

structure Inv (s : State) : Prop where
  /-- every device entry sits under its own id and has full-length arrays -/
  devOk    : ∀ id d, s.devices.get id = some d → d.auth.id = id ∧ d.reports.length = window ∧ d.impact.length = window
  /-- equipment → public-key index -/
  devShort : ∀ id d, s.devices.get id = some d → s.shortIds.get d.auth.key = some id
  /-- public-key index → equipment -/
  shortDev : ∀ k id, s.shortIds.get k = some id → ∃ d, s.devices.get id = some d ∧ d.auth.key = k
  /-- banned ids have no equipment entry -/
  banned   : ∀ id, id ∈ s.bans → s.devices.get id = none
  devNodup   : (s.devices.map (·.1)).Nodup
  shortNodup : (s.shortIds.map (·.1)).Nodup
  /-- weeks are archived contiguously from week 0 and the window starts right after them -/
  offHist  : s.off = week * s.history.length
  histTso  : ∀ k (h : k < s.history.length), (s.history[k]).tso = week * k
  histDisk : s.disk.weeks = s.history
  /-- no registered GCA: zero key in memory, no (or an empty) key file -/
  gcaUn    : s.gcaAvail = false → s.gcaKey = zeros 32 ∧ (s.disk.gcaKey = none ∨ s.disk.gcaKey = some [])
  /-- registered GCA: the key file holds exactly the key in memory -/
  gcaAv    : s.gcaAvail = true → s.disk.gcaKey = some s.gcaKey ∧ s.gcaKey.length = 32

/-- The consistency check the server runs on itself (`CheckInvariants` in
server/testing.go): equal sizes, unique keys, index maps back, impact entry exists. -/
def CheckInvariants (s : State) : Prop :=
  s.devices.length = s.shortIds.length ∧
  (s.devices.map (fun p => p.2.auth.key)).Nodup ∧
  ∀ id d, (id, d) ∈ s.devices → s.shortIds.get d.auth.key = some id

/-! ### Splitting the invariant into its three independent parts -/

theorem Inv.parts {s : State} (h : Inv s) :
    MapsInv s.devices s.shortIds s.bans ∧ HistInv s.off s.history s.disk.weeks ∧
      GcaInv s.gcaKey s.gcaAvail s.disk.gcaKey :=
  ⟨⟨h.devOk, h.devShort, h.shortDev, h.banned, h.devNodup, h.shortNodup⟩,
   ⟨h.offHist, h.histTso, h.histDisk⟩, ⟨h.gcaUn, h.gcaAv⟩⟩

theorem Inv.ofParts {s : State} (hm : MapsInv s.devices s.shortIds s.bans)
    (hh : HistInv s.off s.history s.disk.weeks) (hg : GcaInv s.gcaKey s.gcaAvail s.disk.gcaKey) : Inv s :=
  ⟨hm.devOk, hm.devShort, hm.shortDev, hm.banned, hm.devNodup, hm.shortNodup,
   hh.offHist, hh.histTso, hh.histDisk, hg.gcaUn, hg.gcaAv⟩

theorem inv_integrate (cfg : Cfg) (s s' : State) (r : Report) (b : Bool) (h : Inv s)
    (hi : integrate cfg s r = some (s', b)) : Inv s' := by
  obtain ⟨hm, hh, hg⟩ := h.parts
  unfold integrate at hi
  split at hi
  · cases hi
  · rename_i d hd
    split at hi
    · cases hi
    · cases hi; exact h
    · rename_i d' hd'
      cases hi
      obtain ⟨ha, hl, hi'⟩ := integrateDev_keeps hd'
      have hdo := hm.devOk _ _ hd
      exact Inv.ofParts (hm.setSame hd ha (by rw [hl]; exact hdo.2.1) (by rw [hi']; exact hdo.2.2)) hh hg

theorem inv_rotate (sgn : Bytes → Bytes) (s : State) (h : Inv s) :
    (rotate sgn s).2 = .ok ∧ Inv (rotate sgn s).1 := by
  obtain ⟨hm, hh, hg⟩ := h.parts
  have h0 : s.off % week = 0 := by rw [hh.offHist]; exact Nat.mul_mod_right _ _
  have hb : ∃ w, buildStats sgn s s.off = some w ∧ w.tso = s.off := by
    unfold buildStats
    rw [if_neg (by simp [h0]), if_neg (Nat.lt_irrefl _), if_neg (by omega)]
    exact ⟨_, rfl, rfl⟩
  obtain ⟨w, hw, ht⟩ := hb
  unfold rotate; rw [hw]
  refine ⟨rfl, Inv.ofParts hm.shift ?_ hg⟩
  constructor
  · show s.off + week = week * (s.history ++ [w]).length
    rw [List.length_append, hh.offHist, Nat.mul_add]; simp
  · intro k hk
    by_cases hlt : k < s.history.length
    · show (s.history ++ [w])[k].tso = week * k
      rw [List.getElem_append_left hlt]; exact hh.histTso k hlt
    · have hk' : k < (s.history ++ [w]).length := hk
      have : k = s.history.length := by
        rw [List.length_append] at hk'; simp at hk'; omega
      subst this
      show (s.history ++ [w])[s.history.length].tso = week * s.history.length
      simp [ht, hh.offHist]
  · show s.disk.weeks ++ [w] = s.history ++ [w]
    rw [hh.histDisk]

theorem inv_catchUp (sgn : Bytes → Bytes) (now fuel : Nat) (s : State) (h : Inv s) :
    (catchUp sgn now fuel s).2 = .ok ∧ Inv (catchUp sgn now fuel s).1 := by
  induction fuel generalizing s with
  | zero => exact ⟨rfl, h⟩
  | succ n ih =>
    unfold catchUp
    split
    · exact ⟨rfl, h⟩
    · obtain ⟨h1, h2⟩ := inv_rotate sgn s h
      generalize rotate sgn s = p at h1 h2
      obtain ⟨s', o⟩ := p
      simp only at h1 h2
      subst h1
      exact ih s' h2

theorem inv_saveEquipment (cfg : Cfg) (s : State) (a : Auth) (h : Inv s) :
    Inv (saveEquipment cfg s a).1 := by
  obtain ⟨hm, hh, hg⟩ := h.parts
  unfold saveEquipment
  split
  · exact h
  · rename_i hb
    split
    · rename_i cur hc
      split
      · exact h
      · exact Inv.ofParts (hm.ban hc) hh hg
    · rename_i hc
      split
      · exact h
      · rename_i hk
        exact Inv.ofParts (hm.add hc (by simpa [FMap.has] using hk) (by simpa using hb)) hh hg

/-- What the replay of the authorization file maintains, whatever the disk holds. -/
def LoadP (d : Disk) (gk : Key) (av : Bool) (s : State) : Prop :=
  MapsInv s.devices s.shortIds s.bans ∧ s.disk = d ∧ s.gcaKey = gk ∧ s.gcaAvail = av ∧
    s.history = [] ∧ s.off = 0

theorem replayAuth_LoadP (cfg : Cfg) (d : Disk) (gk : Key) (av : Bool) (s : State) (a : Auth)
    (h : LoadP d gk av s) : LoadP d gk av (replayAuth cfg s a) := by
  obtain ⟨hm, h1, h2, h3, h4, h5⟩ := h
  unfold replayAuth
  split
  · exact ⟨hm, h1, h2, h3, h4, h5⟩
  · rename_i hb
    split
    · rename_i cur hc
      split
      · exact ⟨hm, h1, h2, h3, h4, h5⟩
      · exact ⟨hm.ban hc, h1, h2, h3, h4, h5⟩
    · rename_i hc
      split
      · exact ⟨hm, h1, h2, h3, h4, h5⟩
      · rename_i hk
        exact ⟨hm.add hc (by simpa [FMap.has] using hk) (by simpa using hb), h1, h2, h3, h4, h5⟩

theorem foldl_replayAuth_LoadP (cfg : Cfg) (d : Disk) (gk : Key) (av : Bool) (l : List Auth) (s : State)
    (h : LoadP d gk av s) : LoadP d gk av (l.foldl (replayAuth cfg) s) := by
  induction l generalizing s with
  | nil => exact h
  | cons a t ih => exact ih _ (replayAuth_LoadP cfg d gk av s a h)

theorem inv_replayReports (cfg : Cfg) (V : Verify) (s s' : State) (rs : List Report) (h : Inv s)
    (hr : replayReports cfg V s rs = some s') : Inv s' := by
  induction rs generalizing s with
  | nil => simp only [replayReports] at hr; cases hr; exact h
  | cons r t ih =>
    unfold replayReports at hr
    split at hr
    · exact ih s h hr
    · split at hr
      · cases hr
      · split at hr
        · cases hr
        · split at hr
          · cases hr
          · rename_i s1 b hi
            exact ih s1 (inv_integrate cfg s s1 r b h hi) hr

/-- `server.keys` handling at start-up: the public key in use and the directory afterwards. -/
def loadKeys (d : Disk) (fresh : Key) : Key × Disk :=
  match d.srvKeys with
  | none => (fresh, { d with srvKeys := some fresh })
  | some [] => (fresh, { d with srvKeys := some fresh })
  | some k => (k, d)

/-- `load` after the `server.keys` handling. -/
def loadFrom (cfg : Cfg) (V : Verify) (sgn : Bytes → Bytes) (srvPub : Key) (d : Disk) (tempKey : Key) (now : Nat) :
    Option State :=
  if srvPub.length ≠ 32 then none else
  let gk : Option (Key × Bool) := match d.gcaKey with
    | none => some (zeros 32, false)
    | some [] => some (zeros 32, false)
    | some k => if k.length = 32 then some (k, true) else none
  match gk with
  | none => none
  | some (gcaKey, avail) =>
  if d.auths.any (fun a => !V gcaKey (Auth.signingBytes a) a.sig) then none else
  let s0 : State := { gcaKey := gcaKey, gcaAvail := avail, tempKey := tempKey, srvPub := srvPub, disk := d }
  let s1 := d.auths.foldl (replayAuth cfg) s0
  let s2 := { s1 with history := d.weeks,
                      off := match d.weeks.getLast? with | none => 0 | some w => w.tso + week }
  match replayReports cfg V s2 d.reports with
  | none => none
  | some s3 =>
    match catchUp sgn now (now / week + 2) s3 with
    | (s4, .ok) => some s4
    | _ => none

theorem load_eq (cfg : Cfg) (V : Verify) (sgn : Bytes → Bytes) (d : Disk) (tempKey fresh : Key) (now : Nat) :
    load cfg V sgn d tempKey fresh now =
      loadFrom cfg V sgn (loadKeys d fresh).1 (loadKeys d fresh).2 tempKey now := by
  unfold load loadKeys
  cases hk : d.srvKeys with
  | none => rfl
  | some k => cases k <;> rfl

theorem loadKeys_weeks (d : Disk) (fresh : Key) : (loadKeys d fresh).2.weeks = d.weeks := by
  unfold loadKeys; split <;> rfl

theorem gcaInv_of_disk (dk : Option Bytes) (gk : Key) (av : Bool)
    (h : (match dk with
      | none => some (zeros 32, false)
      | some [] => some (zeros 32, false)
      | some k => if k.length = 32 then some (k, true) else none) = some (gk, av)) :
    GcaInv gk av dk := by
  split at h
  · cases h; exact ⟨fun _ => ⟨rfl, Or.inl rfl⟩, fun h => by cases h⟩
  · cases h; exact ⟨fun _ => ⟨rfl, Or.inr rfl⟩, fun h => by cases h⟩
  · split at h
    · rename_i hl
      cases h; exact ⟨fun h => (by cases h), fun _ => ⟨rfl, hl⟩⟩
    · cases h

theorem histInv_of_weeks (ws : List Week) (hw : ∀ k (h : k < ws.length), (ws[k]).tso = week * k) :
    HistInv (match ws.getLast? with | none => 0 | some w => w.tso + week) ws ws := by
  refine ⟨?_, hw, rfl⟩
  rw [List.getLast?_eq_getElem?]
  by_cases h0 : ws.length = 0
  · have : ws = [] := List.length_eq_zero_iff.mp h0
    subst this; rfl
  · have hlt : ws.length - 1 < ws.length := by omega
    rw [List.getElem?_eq_getElem hlt]
    simp only
    rw [hw _ hlt]
    obtain ⟨n, hn⟩ : ∃ n, ws.length = n + 1 := ⟨ws.length - 1, by omega⟩
    rw [hn, Nat.add_sub_cancel, Nat.mul_add, Nat.mul_one]

theorem inv_loadFrom (cfg : Cfg) (V : Verify) (sgn : Bytes → Bytes) (srvPub : Key) (d : Disk) (tempKey : Key)
    (now : Nat) (s : State) (hw : ∀ k (h : k < d.weeks.length), (d.weeks[k]).tso = week * k)
    (h : loadFrom cfg V sgn srvPub d tempKey now = some s) : Inv s := by
  unfold loadFrom at h
  split at h
  · cases h
  simp only at h
  split at h
  · cases h
  rename_i gcaKey avail hgk
  have hg := gcaInv_of_disk _ _ _ hgk
  split at h
  · cases h
  split at h
  · cases h
  rename_i s3 hs3
  generalize hs1 : d.auths.foldl (replayAuth cfg)
    { gcaKey := gcaKey, gcaAvail := avail, tempKey := tempKey, srvPub := srvPub, disk := d } = s1 at hs3
  have hP : LoadP d gcaKey avail s1 := by
    rw [← hs1]
    exact foldl_replayAuth_LoadP cfg d gcaKey avail d.auths _ ⟨MapsInv.nil, rfl, rfl, rfl, rfl, rfl⟩
  obtain ⟨hm, h1, h2, h3, _, _⟩ := hP
  have hI2 : Inv { s1 with history := d.weeks,
                           off := match d.weeks.getLast? with | none => 0 | some w => w.tso + week } := by
    refine Inv.ofParts hm ?_ ?_
    · show HistInv _ d.weeks s1.disk.weeks
      rw [h1]; exact histInv_of_weeks d.weeks hw
    · show GcaInv s1.gcaKey s1.gcaAvail s1.disk.gcaKey
      rw [h1, h2, h3]; exact hg
  have hs2 := inv_replayReports cfg V _ s3 d.reports hI2 hs3
  have hc := inv_catchUp sgn now (now / week + 2) s3 hs2
  split at h
  · rename_i s4 hs4
    cases h
    rw [hs4] at hc
    exact hc.2
  · cases h

/-- Whatever is on disk, a start that succeeds yields a state satisfying the
invariant, provided the archived weeks on disk are contiguous (which `Inv`
guarantees for every disk the server itself wrote). -/
theorem inv_load (cfg : Cfg) (V : Verify) (sgn : Bytes → Bytes) (d : Disk) (tempKey fresh : Key) (now : Nat)
    (s : State) (hw : ∀ k (h : k < d.weeks.length), (d.weeks[k]).tso = week * k)
    (hf : fresh.length = 32)
    (h : load cfg V sgn d tempKey fresh now = some s) : Inv s := by
  have _ := hf
  rw [load_eq] at h
  exact inv_loadFrom cfg V sgn _ _ tempKey now s (by rw [loadKeys_weeks]; exact hw) h

theorem inv_dgram (cfg : Cfg) (V : Verify) (s : State) (now : Nat) (d : Bytes) (h : Inv s) :
    Inv (dgram cfg V s now d).1 := by
  unfold dgram
  split
  · exact h
  split
  · exact h
  split
  · exact h
  split
  · exact h
  split
  · exact h
  · rename_i s' b hi
    exact inv_integrate cfg s s' _ b h hi

theorem inv_register (V : Verify) (s : State) (key sig : Bytes) (h : Inv s) (hk : key.length = 32) :
    Inv (register V s key sig).1 := by
  obtain ⟨hm, hh, hg⟩ := h.parts
  unfold register
  split
  · exact h
  split
  · exact h
  · exact Inv.ofParts hm hh ⟨fun h => (by cases h), fun _ => ⟨rfl, hk⟩⟩

theorem inv_authorize (cfg : Cfg) (V : Verify) (s : State) (a : Auth) (h : Inv s) :
    Inv (authorize cfg V s a).1 := by
  unfold authorize
  split
  · exact h
  split
  · exact h
  · exact inv_saveEquipment cfg s a h

theorem inv_tick (sgn : Bytes → Bytes) (s : State) (now : Nat) (h : Inv s) : Inv (tick sgn s now).1 := by
  unfold tick
  split
  · exact (inv_rotate sgn s h).2
  · exact h

theorem inv_authServer (V : Verify) (s : State) (a : AuthServer) (h : Inv s) :
    Inv (authServer V s a).1 := by
  obtain ⟨hm, hh, hg⟩ := h.parts
  unfold authServer
  split
  · exact h
  split
  · exact h
  split
  · split
    · exact h
    split
    · exact h
    · exact Inv.ofParts hm hh hg
  · exact Inv.ofParts hm hh hg

theorem inv_migrateOrder (V : Verify) (s : State) (m : Migration) (h : Inv s) :
    Inv (migrateOrder V s m).1 := by
  obtain ⟨hm, hh, hg⟩ := h.parts
  unfold migrateOrder
  split
  · exact h
  split
  · exact h
  · exact Inv.ofParts hm hh hg

theorem inv_impactWrite (s : State) (id ts rate : Nat) (h : Inv s) : Inv (impactWrite s id ts rate) := by
  obtain ⟨hm, hh, hg⟩ := h.parts
  unfold impactWrite
  split
  · exact h
  · rename_i d hd
    split
    · have hdo := hm.devOk _ _ hd
      exact Inv.ofParts (hm.setSame hd rfl hdo.2.1 (by simp [hdo.2.2])) hh hg
    · exact h

/-- Every operation preserves the invariant. -/
theorem inv_step (cfg : Cfg) (V : Verify) (sgn : Bytes → Bytes) (s : State) (op : Op)
    (h : Inv s) (hop : OpWF op) : Inv (step cfg V sgn s op).1 := by
  cases op with
  | dgram now d => exact inv_dgram cfg V s now d h
  | register k sig => exact inv_register V s k sig h hop
  | authorize a => exact inv_authorize cfg V s a h
  | rotate => exact (inv_rotate sgn s h).2
  | tick now => exact inv_tick sgn s now h
  | restart fresh now =>
    show Inv (match load cfg V sgn s.disk s.tempKey fresh now with
      | none => (s, Out.startFailed)
      | some s' => (s', Out.ok)).1
    split
    · exact h
    · rename_i s' hl
      refine inv_load cfg V sgn s.disk s.tempKey fresh now s' ?_ hop hl
      rw [h.histDisk]; exact h.histTso
  | stats tso => exact h
  | sync id => exact h
  | authServer a => exact inv_authServer V s a h
  | migrate m => exact inv_migrateOrder V s m h
  | impact id ts rate => exact inv_impactWrite s id ts rate h

theorem inv_run (cfg : Cfg) (V : Verify) (sgn : Bytes → Bytes) (s : State) (ops : List Op)
    (h : Inv s) (hops : ∀ op ∈ ops, OpWF op) : Inv (run cfg V sgn s ops).1 := by
  induction ops generalizing s with
  | nil => exact h
  | cons op t ih =>
    have h1 := inv_step cfg V sgn s op h (hops op (by simp))
    have h2 := ih (step cfg V sgn s op).1 h1 (fun o ho => hops o (by simp [ho]))
    exact h2

/-- First start on a freshly installed directory. -/
theorem inv_boot (cfg : Cfg) (V : Verify) (sgn : Bytes → Bytes) (tempKey fresh : Key) (now : Nat) (s : State)
    (hf : fresh.length = 32) (h : boot cfg V sgn tempKey fresh now = some s) : Inv s := by
  unfold boot at h
  exact inv_load cfg V sgn {} tempKey fresh now s (fun k hk => absurd hk (Nat.not_lt_zero k)) hf h

/-- The invariant implies the server's own consistency check. -/
theorem inv_checkInvariants (s : State) (h : Inv s) : CheckInvariants s := by
  have hmem : ∀ id d, (id, d) ∈ s.devices → s.shortIds.get d.auth.key = some id := fun id d hm =>
    h.devShort id d (FMap.get_of_mem_nodup h.devNodup hm)
  -- distinct devices have distinct keys
  have hkeys : (s.devices.map (fun p => p.2.auth.key)).Nodup := by
    have hp : s.devices.Pairwise (fun a b => a.1 ≠ b.1) := List.pairwise_map.mp h.devNodup
    refine List.pairwise_map.mpr (hp.imp_of_mem ?_)
    intro a b ha hb hne e
    have h1 := hmem a.1 a.2 ha
    have h2 := hmem b.1 b.2 hb
    rw [e, h2] at h1
    exact hne (Option.some.inj h1).symm
  -- distinct index entries point to distinct ids
  have hids : (s.shortIds.map (·.2)).Nodup := by
    have hp : s.shortIds.Pairwise (fun a b => a.1 ≠ b.1) := List.pairwise_map.mp h.shortNodup
    refine List.pairwise_map.mpr (hp.imp_of_mem ?_)
    intro a b ha hb hne e
    obtain ⟨d1, hd1, hk1⟩ := h.shortDev a.1 a.2 (FMap.get_of_mem_nodup h.shortNodup ha)
    obtain ⟨d2, hd2, hk2⟩ := h.shortDev b.1 b.2 (FMap.get_of_mem_nodup h.shortNodup hb)
    rw [e, hd2] at hd1
    cases hd1
    exact hne (hk1.symm.trans hk2)
  refine ⟨Nat.le_antisymm ?_ ?_, hkeys, hmem⟩
  · have hsub : s.devices.map (fun p => p.2.auth.key) ⊆ s.shortIds.map (·.1) := by
      intro k hk
      obtain ⟨p, hp, rfl⟩ := List.mem_map.mp hk
      rw [FMap.mem_keys_iff, hmem p.1 p.2 hp]; rfl
    have := hkeys.length_le_of_subset hsub
    simpa using this
  · have hsub : s.shortIds.map (·.2) ⊆ s.devices.map (·.1) := by
      intro i hi
      obtain ⟨p, hp, rfl⟩ := List.mem_map.mp hi
      obtain ⟨d, hd, _⟩ := h.shortDev p.1 p.2 (FMap.get_of_mem_nodup h.shortNodup hp)
      rw [FMap.mem_keys_iff, hd]; rfl
    have := hids.length_le_of_subset hsub
    simpa using this

end Gca.Srv
