import Gca.Server.Model
/-
Helper lemmas for `Gca/Server/Inv.lean`: facts about the key lists of
association-list maps (`FMap`) under `set`, `del` and key-preserving `map`.
-/
namespace Gca
namespace FMap
variable {κ : Type} [DecidableEq κ] {α : Type}

theorem mem_keys_iff (m : FMap κ α) (k : κ) : k ∈ m.map (·.1) ↔ (get m k).isSome = true := by
  induction m with
  | nil => simp
  | cons p r ih =>
    obtain ⟨k', v'⟩ := p
    by_cases h : k' = k
    · simp [get, h]
    · have h' : ¬ k = k' := fun e => h e.symm
      simp [get, h, h', ih]

theorem not_mem_keys_of_get_none {m : FMap κ α} {k : κ} (h : get m k = none) : k ∉ m.map (·.1) := by
  rw [mem_keys_iff, h]; simp

theorem get_none_of_not_mem_keys {m : FMap κ α} {k : κ} (h : k ∉ m.map (·.1)) : get m k = none := by
  rw [mem_keys_iff] at h
  cases hg : get m k with
  | none => rfl
  | some v => simp [hg] at h

theorem nodup_set (m : FMap κ α) (k : κ) (v : α) (h : (m.map (·.1)).Nodup) :
    ((set m k v).map (·.1)).Nodup := by
  induction m with
  | nil => simp [set]
  | cons p r ih =>
    obtain ⟨k', v'⟩ := p
    simp only [List.map_cons, List.nodup_cons] at h
    by_cases hk : k' = k
    · subst hk
      simp only [set, if_true, List.map_cons, List.nodup_cons]
      exact h
    · simp only [set, hk, if_false, List.map_cons, List.nodup_cons]
      refine ⟨?_, ih h.2⟩
      apply not_mem_keys_of_get_none
      rw [get_set_ne _ _ _ _ (fun e => hk e.symm)]
      exact get_none_of_not_mem_keys h.1

theorem nodup_del (m : FMap κ α) (k : κ) (h : (m.map (·.1)).Nodup) :
    ((del m k).map (·.1)).Nodup := by
  induction m with
  | nil => simp [del]
  | cons p r ih =>
    obtain ⟨k', v'⟩ := p
    simp only [List.map_cons, List.nodup_cons] at h
    by_cases hk : k' = k
    · simp only [del, hk, if_true]
      exact ih h.2
    · simp only [del, hk, if_false, List.map_cons, List.nodup_cons]
      refine ⟨?_, ih h.2⟩
      apply not_mem_keys_of_get_none
      rw [get_del_ne _ _ _ (fun e => hk e.symm)]
      exact get_none_of_not_mem_keys h.1

omit [DecidableEq κ] in
theorem keys_mapVal {β : Type} (m : FMap κ α) (f : α → β) :
    (m.map (fun p => (p.1, f p.2))).map (·.1) = m.map (·.1) := by
  simp [List.map_map, Function.comp_def]

theorem get_mapVal {β : Type} (m : FMap κ α) (f : α → β) (k : κ) :
    get (m.map (fun p => (p.1, f p.2)) : FMap κ β) k = (get m k).map f := by
  induction m with
  | nil => simp
  | cons p r ih =>
    obtain ⟨k', v'⟩ := p
    by_cases h : k' = k <;> simp [get, h, ih]

theorem get_of_mem_nodup {m : FMap κ α} {k : κ} {v : α} (hn : (m.map (·.1)).Nodup)
    (h : (k, v) ∈ m) : get m k = some v := by
  induction m with
  | nil => simp at h
  | cons p r ih =>
    obtain ⟨k', v'⟩ := p
    simp only [List.map_cons, List.nodup_cons] at hn
    simp only [List.mem_cons, Prod.mk.injEq] at h
    rcases h with ⟨h1, h2⟩ | h
    · simp [get, h1, h2]
    · have hne : k' ≠ k := by
        intro e; apply hn.1; rw [e]
        exact List.mem_map.mpr ⟨(k, v), h, rfl⟩
      simp [get, hne, ih hn.2 h]

end FMap

namespace Srv
open FMap

/-- The part of the invariant that speaks about the device maps. -/
structure MapsInv (dv : FMap Nat Dev) (sh : FMap Key Nat) (bn : List Nat) : Prop where
  devOk    : ∀ id d, dv.get id = some d → d.auth.id = id ∧ d.reports.length = window ∧ d.impact.length = window
  devShort : ∀ id d, dv.get id = some d → sh.get d.auth.key = some id
  shortDev : ∀ k id, sh.get k = some id → ∃ d, dv.get id = some d ∧ d.auth.key = k
  banned   : ∀ id, id ∈ bn → dv.get id = none
  devNodup   : (dv.map (·.1)).Nodup
  shortNodup : (sh.map (·.1)).Nodup

/-- The part that speaks about archived weeks. -/
structure HistInv (off : Nat) (history dweeks : List Week) : Prop where
  offHist  : off = week * history.length
  histTso  : ∀ k (h : k < history.length), (history[k]).tso = week * k
  histDisk : dweeks = history

/-- The part that speaks about the GCA key. -/
structure GcaInv (gcaKey : Key) (avail : Bool) (dk : Option Bytes) : Prop where
  gcaUn : avail = false → gcaKey = zeros 32 ∧ (dk = none ∨ dk = some [])
  gcaAv : avail = true → dk = some gcaKey ∧ gcaKey.length = 32

theorem MapsInv.nil : MapsInv [] [] [] := by
  constructor <;> simp

/-- Replace a present entry by one with the same authorization and full-length arrays. -/
theorem MapsInv.setSame {dv sh bn} (h : MapsInv dv sh bn) {id : Nat} {d d' : Dev}
    (hg : dv.get id = some d) (ha : d'.auth = d.auth)
    (hr : d'.reports.length = window) (hi : d'.impact.length = window) :
    MapsInv (dv.set id d') sh bn := by
  have hd := h.devOk id d hg
  constructor
  · intro i x hx
    by_cases e : id = i
    · subst e
      rw [get_set_same] at hx
      cases hx
      exact ⟨by rw [ha]; exact hd.1, hr, hi⟩
    · rw [get_set_ne _ _ _ _ e] at hx
      exact h.devOk i x hx
  · intro i x hx
    by_cases e : id = i
    · subst e
      rw [get_set_same] at hx
      cases hx
      rw [ha]; exact h.devShort id d hg
    · rw [get_set_ne _ _ _ _ e] at hx
      exact h.devShort i x hx
  · intro k i hk
    obtain ⟨x, hx, hxk⟩ := h.shortDev k i hk
    by_cases e : id = i
    · subst e
      rw [hg] at hx; cases hx
      exact ⟨d', get_set_same _ _ _, by rw [ha]; exact hxk⟩
    · exact ⟨x, by rw [get_set_ne _ _ _ _ e]; exact hx, hxk⟩
  · intro i hi'
    have := h.banned i hi'
    by_cases e : id = i
    · subst e; rw [hg] at this; cases this
    · rw [get_set_ne _ _ _ _ e]; exact this
  · exact nodup_set _ _ _ h.devNodup
  · exact h.shortNodup

/-- Remove a device together with its index entry and ban the id. -/
theorem MapsInv.ban {dv sh bn} (h : MapsInv dv sh bn) {id : Nat} {cur : Dev}
    (hg : dv.get id = some cur) :
    MapsInv (dv.del id) (sh.del cur.auth.key) (bn ++ [id]) := by
  have hcs := h.devShort id cur hg
  constructor
  · intro i x hx
    by_cases e : id = i
    · subst e; rw [get_del_same] at hx; cases hx
    · rw [get_del_ne _ _ _ e] at hx
      exact h.devOk i x hx
  · intro i x hx
    by_cases e : id = i
    · subst e; rw [get_del_same] at hx; cases hx
    · rw [get_del_ne _ _ _ e] at hx
      have hs := h.devShort i x hx
      have hk : cur.auth.key ≠ x.auth.key := by
        intro ek
        rw [ek, hs] at hcs
        cases hcs; exact e rfl
      rw [get_del_ne _ _ _ hk]; exact hs
  · intro k i hk
    by_cases ek : cur.auth.key = k
    · subst ek; rw [get_del_same] at hk; cases hk
    · rw [get_del_ne _ _ _ ek] at hk
      obtain ⟨x, hx, hxk⟩ := h.shortDev k i hk
      have e : id ≠ i := by
        intro e; subst e
        rw [hg] at hx; cases hx
        exact ek hxk
      exact ⟨x, by rw [get_del_ne _ _ _ e]; exact hx, hxk⟩
  · intro i hi
    by_cases e : id = i
    · subst e; exact get_del_same _ _
    · rw [get_del_ne _ _ _ e]
      rcases List.mem_append.mp hi with hi | hi
      · exact h.banned i hi
      · simp at hi; exact absurd hi.symm e
  · exact nodup_del _ _ h.devNodup
  · exact nodup_del _ _ h.shortNodup

theorem newDev_ok (a : Auth) :
    (newDev a).auth = a ∧ (newDev a).reports.length = window ∧ (newDev a).impact.length = window := by
  simp [newDev, blankReports, blankImpact]

/-- Add a new device under an id and a key that are both unused. -/
theorem MapsInv.add {dv sh bn} (h : MapsInv dv sh bn) {a : Auth}
    (hg : dv.get a.id = none) (hk : sh.get a.key = none) (hb : a.id ∉ bn) :
    MapsInv (dv.set a.id (newDev a)) (sh.set a.key a.id) bn := by
  obtain ⟨na, nr, ni⟩ := newDev_ok a
  constructor
  · intro i x hx
    by_cases e : a.id = i
    · subst e
      rw [get_set_same] at hx; cases hx
      exact ⟨by rw [na], nr, ni⟩
    · rw [get_set_ne _ _ _ _ e] at hx
      exact h.devOk i x hx
  · intro i x hx
    by_cases e : a.id = i
    · subst e
      rw [get_set_same] at hx; cases hx
      rw [na]; exact get_set_same _ _ _
    · rw [get_set_ne _ _ _ _ e] at hx
      have hs := h.devShort i x hx
      have hne : a.key ≠ x.auth.key := by
        intro ek; rw [← ek, hk] at hs; cases hs
      rw [get_set_ne _ _ _ _ hne]; exact hs
  · intro k i hki
    by_cases ek : a.key = k
    · subst ek
      rw [get_set_same] at hki; cases hki
      exact ⟨newDev a, get_set_same _ _ _, by rw [na]⟩
    · rw [get_set_ne _ _ _ _ ek] at hki
      obtain ⟨x, hx, hxk⟩ := h.shortDev k i hki
      have e : a.id ≠ i := by
        intro e; subst e; rw [hg] at hx; cases hx
      exact ⟨x, by rw [get_set_ne _ _ _ _ e]; exact hx, hxk⟩
  · intro i hi
    have hb' := h.banned i hi
    by_cases e : a.id = i
    · subst e; exact absurd hi hb
    · rw [get_set_ne _ _ _ _ e]; exact hb'
  · exact nodup_set _ _ _ h.devNodup
  · exact nodup_set _ _ _ h.shortNodup

theorem shiftList_length {α} (blank : α) (l : List α) (h : l.length = window) :
    (shiftList blank l).length = window := by
  simp only [shiftList, List.length_append, List.length_drop, List.length_replicate, h]
  decide

/-- Rotation maps every device key-preservingly with `shiftDev`. -/
theorem MapsInv.shift {dv sh bn} (h : MapsInv dv sh bn) :
    MapsInv (dv.map (fun p => (p.1, shiftDev p.2))) sh bn := by
  constructor
  · intro i x hx
    rw [get_mapVal] at hx
    cases hg : dv.get i with
    | none => rw [hg] at hx; cases hx
    | some d =>
      rw [hg] at hx; cases hx
      obtain ⟨h1, h2, h3⟩ := h.devOk i d hg
      exact ⟨h1, shiftList_length _ _ h2, shiftList_length _ _ h3⟩
  · intro i x hx
    rw [get_mapVal] at hx
    cases hg : dv.get i with
    | none => rw [hg] at hx; cases hx
    | some d =>
      rw [hg] at hx; cases hx
      exact h.devShort i d hg
  · intro k i hk
    obtain ⟨x, hx, hxk⟩ := h.shortDev k i hk
    exact ⟨shiftDev x, by rw [get_mapVal, hx]; rfl, hxk⟩
  · intro i hi
    rw [get_mapVal, h.banned i hi]; rfl
  · rw [keys_mapVal]; exact h.devNodup
  · exact h.shortNodup

theorem integrateDev_keeps {off : Nat} {d d' : Dev} {r : Report} {b : Bool}
    (h : integrateDev off d r = some (d', b)) :
    d'.auth = d.auth ∧ d'.reports.length = d.reports.length ∧ d'.impact = d.impact := by
  unfold integrateDev at h
  split at h
  · cases h; simp
  split at h
  · cases h; simp
  split at h
  · cases h
  split at h
  · cases h; simp
  split at h
  · cases h; simp
  cases h
  simp

end Srv
end Gca
