import Gca.Basic
import Gca.FMap
import Gca.Codec.Report
import Gca.Codec.Auth
import Gca.Codec.AuthServer
import Gca.Codec.Stats
/-
The GCA server as a state machine (server/*.go). One `step` per externally
visible operation; the state carries memory and disk side by side so that
restart (`load`) and crash points can be expressed. Signature verification is a
parameter `V key message signature`; the server's own signing of statistics is
a parameter `sgn`.

Go maps `equipment`, `equipmentReports`, `equipmentImpactRate` always change
together and are one map `devices` here (the snapshot comparison with the real
server checks each of the three against it); `equipmentShortID` is separate.
A step that would panic in Go yields `Out.panic`.
-/
namespace Gca.Srv

abbrev Key := Bytes
abbrev Verify := Key → Bytes → Bytes → Bool

/-- Build constants that differ between test and production builds. -/
structure Cfg where
  maxRecent     : Nat := 1000   -- maxRecentReports
  maxRecentAuth : Nat := 1000   -- maxRecentEquipmentAuths
deriving Repr

def window : Nat := 4032
def week : Nat := 2016
def halfWidth : Nat := 432

structure Dev where
  auth    : Auth
  reports : List Report     -- [4032]EquipmentReport
  impact  : List Nat        -- [4032]float64 as bits
deriving DecidableEq, Repr

/-- The files the server writes (record level; the byte level is `Gca.Codec`). -/
structure Disk where
  srvKeys : Option Bytes := none   -- server.keys: none = absent, some [] = created but empty, some k = public half
  gcaKey  : Option Bytes := none   -- gcaPubKey.dat: none = absent, some [] = truncated/empty
  auths   : List Auth := []        -- equipment-authorizations.dat
  reports : List Report := []      -- equipment-reports.dat
  weeks   : List Week := []        -- allDeviceStats.dat
deriving DecidableEq, Repr

structure State where
  gcaKey   : Key := zeros 32
  gcaAvail : Bool := false
  tempKey  : Key := zeros 32       -- gcaTempPubKey.dat (installed before first start, never written)
  srvPub   : Key := zeros 32
  devices  : FMap Nat Dev := []
  shortIds : FMap Key Nat := []
  bans     : List Nat := []
  off      : Nat := 0              -- equipmentReportsOffset
  history  : List Week := []       -- equipmentStatsHistory
  recentR  : List Report := []
  recentA  : List Auth := []
  servers  : List AuthServer := []
  migs     : FMap Key Migration := []
  disk     : Disk := {}
deriving DecidableEq, Repr

inductive Out where
  | ok                       -- accepted / HTTP 200
  | okNew                    -- authorization accepted and new
  | refused                  -- rejected without effect on the device set
  | banned                   -- authorization conflict: the id was banned (HTTP 500)
  | dropped                  -- datagram ignored
  | stored                   -- datagram integrated
  | stats (w : Week)
  | syncRefused
  | syncReply (key : Key) (off : Nat) (bits : List Bool) (mig : Option Migration) (servers : List AuthServer)
  | startFailed
  | panic
deriving DecidableEq, Repr

/-! ### Helpers -/

def blankReports : List Report := List.replicate window Report.zero
def blankImpact : List Nat := List.replicate window 0

/-- Keep the newest half once the list exceeds `max` (Go: copy + reslice). -/
def pushRecent {α} (max : Nat) (l : List α) (x : α) : List α :=
  let l' := l ++ [x]
  if l'.length > max then (l'.drop (l'.length / 2)).take (l'.length / 2) else l'

/-- 135 % capacity limit, saturated at 2^64-1 (`bits.Mul64`/`Div64`). -/
def capLimit (cap : Nat) : Nat := min (135 * cap / 100) (2^64 - 1)

def overCapacity (p cap : Nat) : Bool := decide (p > capLimit cap) && decide (p ≤ 2^63 - 1)

/-- IEEE-754 equality on bit patterns (Go `==` on float64). -/
def isNaN (b : Nat) : Bool := decide (b / 2^52 % 2^11 = 2^11 - 1) && decide (b % 2^52 ≠ 0)
def floatEq (a b : Nat) : Bool :=
  (a == b && !isNaN a) || (decide (a % 2^63 = 0) && decide (b % 2^63 = 0))

/-- Go struct equality of two authorizations (`current == ea`). -/
def authEq (a b : Auth) : Bool :=
  a.id == b.id && a.key == b.key && floatEq a.lat b.lat && floatEq a.lon b.lon &&
  a.cap == b.cap && a.debt == b.debt && a.exp == b.exp && a.ini == b.ini && a.fee == b.fee &&
  a.sig == b.sig

/-! ### integrateReport -/

/-- Effect of one already-parsed report on the window of its device. `none` = panic
(index out of range). Returns the new device and whether the report was recorded. -/
def integrateDev (off : Nat) (d : Dev) (r : Report) : Option (Dev × Bool) :=
  if r.ts < off then some (d, false) else
  if r.ts ≥ off + window then some (d, false) else
  match d.reports[r.ts - off]? with
  | none => none
  | some slot =>
    if slot.p = 1 then some (d, false) else
    if slot = r then some (d, false) else
    let s1 := if slot.p = 0 then r else { slot with p := 1 }
    let s2 := if overCapacity r.p d.auth.cap then { s1 with p := 1 } else s1
    some ({ d with reports := d.reports.set (r.ts - off) s2 }, true)

/-- `integrateReport` on the whole state (memory, recent list, report file). -/
def integrate (cfg : Cfg) (s : State) (r : Report) : Option (State × Bool) :=
  match s.devices.get r.id with
  | none => none            -- nil array dereference; callers check the id first
  | some d =>
    match integrateDev s.off d r with
    | none => none
    | some (_, false) => some (s, false)
    | some (d', true) =>
      some ({ s with devices := s.devices.set r.id d',
                     recentR := pushRecent cfg.maxRecent s.recentR r,
                     disk := { s.disk with reports := s.disk.reports ++ [r] } }, true)

/-- `parseReport`: exactly 80 bytes, known id, signature by that device's key. -/
def parseReport (V : Verify) (s : State) (b : Bytes) : Option Report :=
  match Report.decode b with
  | none => none
  | some r =>
    match s.devices.get r.id with
    | none => none
    | some d => if V d.auth.key (Report.signingBytes r) r.sig then some r else none

/-- The UDP path: the listener reads into an 80-byte buffer (longer datagrams
are cut, shorter ones dropped), then `managedHandleEquipmentReport`. -/
def dgram (cfg : Cfg) (V : Verify) (s : State) (now : Nat) (d : Bytes) : State × Out :=
  if d.length < 80 then (s, .dropped) else
  match parseReport V s (d.take 80) with
  | none => (s, .dropped)
  | some r =>
    if (r.ts : Int) < (now : Int) - 432 ∨ (r.ts : Int) > (now : Int) + 432 then (s, .dropped) else
    if r.p = 0 ∨ r.p = 1 then (s, .dropped) else
    match integrate cfg s r with
    | none => (s, .panic)
    | some (s', recorded) => (s', if recorded then .stored else .dropped)

/-! ### Registration and authorization -/

def register (V : Verify) (s : State) (key sig : Bytes) : State × Out :=
  if s.gcaAvail then (s, .refused) else
  if !V s.tempKey (Registration.signingBytes key) sig then (s, .refused) else
  ({ s with gcaKey := key, gcaAvail := true, disk := { s.disk with gcaKey := some key } }, .ok)

def newDev (a : Auth) : Dev := ⟨a, blankReports, blankImpact⟩

/-- Remove a device and ban its id (both the live path and the replay at load). -/
def banDevice (s : State) (id : Nat) (cur : Auth) : State :=
  { s with shortIds := s.shortIds.del cur.key, devices := s.devices.del id, bans := s.bans ++ [id] }

/-- `saveEquipment` (live path). -/
def saveEquipment (cfg : Cfg) (s : State) (a : Auth) : State × Out :=
  if s.bans.contains a.id then (s, .refused) else
  match s.devices.get a.id with
  | some cur =>
    if authEq cur.auth a then (s, .ok) else
    let s1 := { s with disk := { s.disk with auths := s.disk.auths ++ [a] },
                       recentA := pushRecent cfg.maxRecentAuth s.recentA a }
    (banDevice s1 a.id cur.auth, .banned)
  | none =>
    if s.shortIds.has a.key then (s, .refused) else
    let s1 := { s with disk := { s.disk with auths := s.disk.auths ++ [a] },
                       recentA := pushRecent cfg.maxRecentAuth s.recentA a }
    ({ s1 with shortIds := s1.shortIds.set a.key a.id, devices := s1.devices.set a.id (newDev a) }, .okNew)

def authorize (cfg : Cfg) (V : Verify) (s : State) (a : Auth) : State × Out :=
  if !s.gcaAvail then (s, .refused) else
  if !V s.gcaKey (Auth.signingBytes a) a.sig then (s, .refused) else
  saveEquipment cfg s a

/-! ### Weekly statistics and rotation -/

def devStats (x : Nat) (d : Dev) : Gca.Dev :=
  ⟨d.auth.key, ((d.reports.drop x).take week).map (·.p), (d.impact.drop x).take week⟩

/-- `buildDeviceStats`; `none` = the error return. `sgn` signs the signing bytes. -/
def buildStats (sgn : Bytes → Bytes) (s : State) (tso : Nat) : Option Week :=
  if tso % week ≠ 0 then none else
  if tso < s.off then none else
  if tso > s.off + week then none else
  let x := if tso = s.off + week then week else 0
  let w : Week := ⟨s.devices.map (fun p => devStats x p.2), tso, []⟩
  some { w with sig := sgn (Week.signingBytes w) }

def shiftList {α} (blank : α) (l : List α) : List α := l.drop week ++ List.replicate week blank

def shiftDev (d : Dev) : Dev :=
  { d with reports := shiftList Report.zero d.reports, impact := shiftList 0 d.impact }

/-- `migrateReports`: archive the first week, append it to the file, shift. -/
def rotate (sgn : Bytes → Bytes) (s : State) : State × Out :=
  match buildStats sgn s s.off with
  | none => (s, .panic)
  | some w =>
    ({ s with history := s.history ++ [w],
              disk := { s.disk with weeks := s.disk.weeks ++ [w] },
              devices := s.devices.map (fun p => (p.1, shiftDev p.2)),
              off := s.off + week }, .ok)

/-- One iteration of the background loop. -/
def tick (sgn : Bytes → Bytes) (s : State) (now : Nat) : State × Out :=
  if (now : Int) - (s.off : Int) > 3200 then rotate sgn s else (s, .ok)

/-- The blocking start-up loop: rotate until `now - off < 4000`. -/
def catchUp (sgn : Bytes → Bytes) (now : Nat) : Nat → State → State × Out
  | 0, s => (s, .ok)
  | fuel+1, s =>
    if (now : Int) - (s.off : Int) < 4000 then (s, .ok) else
    match rotate sgn s with
    | (s', .ok) => catchUp sgn now fuel s'
    | (s', o) => (s', o)

/-- `AllDeviceStatsHandler` (without the `insert_false_negatives` decoration,
which after the repair only edits the response copy). -/
def statsQuery (sgn : Bytes → Bytes) (s : State) (tso : Nat) : Out :=
  if tso % week ≠ 0 then .refused else
  if tso < s.off then
    match s.history[tso / week]? with
    | none => .panic
    | some w => .stats w
  else match buildStats sgn s tso with
    | none => .refused
    | some w => .stats w

/-! ### Sync, authorized servers, migration orders, impact job -/

def sync (s : State) (id : Nat) : Out :=
  match s.devices.get id with
  | none => .syncRefused
  | some d =>
    let bits := d.reports.map (fun r => decide (r.p > 0))
    match s.migs.get d.auth.key with
    | some m => .syncReply d.auth.key s.off bits (some m) []
    | none => .syncReply d.auth.key s.off bits none s.servers

/-- `RecentReportsHandler` / `getRecentReportsWithSignature`: the whole window of the device that owns
`key`; `none` = HTTP 500. The `TimeslotOffset` field of the reply is never set by the code (always 0),
which is what the model says too. A read-only query: no `Op`, the state is untouched by construction. -/
def recentQuery (s : State) (key : Key) : Option (List Report × Nat) :=
  match s.shortIds.get key with
  | none => none
  | some id =>
    match s.devices.get id with
    | none => none
    | some d => some (d.reports, 0)

/-- `EquipmentHandler`: the authorization of every device in the equipment map, by id. -/
def equipmentQuery (s : State) : List (Nat × Auth) := s.devices.map (fun p => (p.1, p.2.auth))

def authServer (V : Verify) (s : State) (a : AuthServer) : State × Out :=
  if a.loc.length > 255 then (s, .refused) else
  if !V s.gcaKey (AuthServer.signingBytes a) a.sig then (s, .refused) else
  match s.servers.find? (fun e => e.key == a.key) with
  | some e =>
    if e.banned then (s, .ok) else
    if !a.banned then (s, .ok) else
    ({ s with servers := s.servers.map (fun e => if e.key == a.key then a else e) }, .ok)
  | none => ({ s with servers := s.servers ++ [a] }, .ok)

def migrateOrder (V : Verify) (s : State) (m : Migration) : State × Out :=
  if !V s.gcaKey (Migration.signingBytes m) m.sig then (s, .refused) else
  if m.servers.any (fun a => decide (a.loc.length > 255) || !V m.newGCA (AuthServer.signingBytes a) a.sig)
  then (s, .refused) else
  ({ s with migs := s.migs.set m.equipment m }, .ok)

/-- Second critical section of the impact job for one device. -/
def impactWrite (s : State) (id ts rate : Nat) : State :=
  match s.devices.get id with
  | none => s
  | some d =>
    if s.off ≤ ts ∧ ts - s.off < window then
      { s with devices := s.devices.set id { d with impact := d.impact.set (ts - s.off) rate } }
    else s

/-! ### Start-up (`NewGCAServer`) -/

/-- Replay of `equipment-authorizations.dat` (`loadEquipment`, second loop). -/
def replayAuth (cfg : Cfg) (s : State) (a : Auth) : State :=
  if s.bans.contains a.id then s else
  match s.devices.get a.id with
  | some cur =>
    if Auth.encode cur.auth = Auth.encode a then s else
    banDevice { s with recentA := pushRecent cfg.maxRecentAuth s.recentA a } a.id cur.auth
  | none =>
    if s.shortIds.has a.key then s else
    { s with recentA := pushRecent cfg.maxRecentAuth s.recentA a,
             shortIds := s.shortIds.set a.key a.id, devices := s.devices.set a.id (newDev a) }

/-- Replay of `equipment-reports.dat` (`loadEquipmentReports`). `none` = start fails or panics. -/
def replayReports (cfg : Cfg) (V : Verify) : State → List Report → Option State
  | s, [] => some s
  | s, r :: rs =>
    if s.bans.contains r.id then replayReports cfg V s rs else
    match s.devices.get r.id with
    | none => none
    | some d =>
      if !V d.auth.key (Report.signingBytes r) r.sig then none else
      match integrate cfg s r with
      | none => none
      | some (s', _) => replayReports cfg V s' rs

/-- `NewGCAServer` on a directory: `fresh` is the key pair a first start would
generate, `tempKey` the installed temporary key. `none` = the start fails. -/
def load (cfg : Cfg) (V : Verify) (sgn : Bytes → Bytes) (d : Disk) (tempKey fresh : Key) (now : Nat) :
    Option State :=
  -- server.keys
  let (srvPub, d) := match d.srvKeys with
    | none => (fresh, { d with srvKeys := some fresh })
    | some [] => (fresh, { d with srvKeys := some fresh })
    | some k => (k, d)
  if srvPub.length ≠ 32 then none else
  -- gcaPubKey.dat
  let gk : Option (Key × Bool) := match d.gcaKey with
    | none => some (zeros 32, false)
    | some [] => some (zeros 32, false)
    | some k => if k.length = 32 then some (k, true) else none
  match gk with
  | none => none
  | some (gcaKey, avail) =>
  -- equipment-authorizations.dat: every record must verify
  if d.auths.any (fun a => !V gcaKey (Auth.signingBytes a) a.sig) then none else
  let s0 : State := { gcaKey := gcaKey, gcaAvail := avail, tempKey := tempKey, srvPub := srvPub, disk := d }
  let s1 := d.auths.foldl (replayAuth cfg) s0
  -- allDeviceStats.dat
  let s2 := { s1 with history := d.weeks,
                      off := match d.weeks.getLast? with | none => 0 | some w => w.tso + week }
  -- equipment-reports.dat (re-integrated, which re-appends what is still in the window)
  match replayReports cfg V s2 d.reports with
  | none => none
  | some s3 =>
    match catchUp sgn now (now / week + 2) s3 with
    | (s4, .ok) => some s4
    | _ => none

/-! ### Operations -/

inductive Op where
  | dgram (now : Nat) (d : Bytes)
  | register (key sig : Bytes)
  | authorize (a : Auth)
  | rotate
  | tick (now : Nat)
  | restart (fresh : Key) (now : Nat)
  | stats (tso : Nat)
  | sync (id : Nat)
  | authServer (a : AuthServer)
  | migrate (m : Migration)
  | impact (id ts rate : Nat)
deriving Repr

def step (cfg : Cfg) (V : Verify) (sgn : Bytes → Bytes) (s : State) : Op → State × Out
  | .dgram now d => dgram cfg V s now d
  | .register k sig => register V s k sig
  | .authorize a => authorize cfg V s a
  | .rotate => rotate sgn s
  | .tick now => tick sgn s now
  | .restart fresh now =>
    match load cfg V sgn s.disk s.tempKey fresh now with
    | none => (s, .startFailed)
    | some s' => (s', .ok)
  | .stats tso => (s, statsQuery sgn s tso)
  | .sync id => (s, sync s id)
  | .authServer a => authServer V s a
  | .migrate m => migrateOrder V s m
  | .impact id ts rate => (impactWrite s id ts rate, .ok)

/-- First start on a freshly installed directory. -/
def boot (cfg : Cfg) (V : Verify) (sgn : Bytes → Bytes) (tempKey fresh : Key) (now : Nat) : Option State :=
  load cfg V sgn {} tempKey fresh now

def run (cfg : Cfg) (V : Verify) (sgn : Bytes → Bytes) : State → List Op → State × List Out
  | s, [] => (s, [])
  | s, op :: ops =>
    let (s', o) := step cfg V sgn s op
    let (s'', os) := run cfg V sgn s' ops
    (s'', o :: os)

end Gca.Srv
