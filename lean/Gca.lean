import Gca.Basic
import Gca.Codec.Report
