import Gca.Driver.Main
def main : IO UInt32 := Gca.Driver.main
