package main

// Lock skeletons: every function and function literal of server, client and
// glow (test files, verif_* files and glow/safeMu.go excluded) is transcribed
// into the structured language of Gca/LockSkel.lean.

import (
	"fmt"
	"go/ast"
	"go/token"
	"go/types"
	"path/filepath"
	"sort"
	"strings"

	"golang.org/x/tools/go/packages"
)

// guarded fields per receiver type: field (or field path) -> mutex name
var guarded = map[string]map[string]string{
	"GCAServer": {
		"equipment": "mu", "equipmentShortID": "mu", "equipmentBans": "mu", "equipmentImpactRate": "mu",
		"equipmentMigrations": "mu", "equipmentReports": "mu", "equipmentReportsOffset": "mu",
		"equipmentStatsHistory": "mu", "equipmentHistoryOffset": "mu", "recentEquipmentAuths": "mu",
		"recentReports": "mu", "gcaPubkey": "mu", "gcaPubkeyAvailable": "mu",
		"gcaServers.servers": "gcaServers.mu",
	},
	"EventLogger": {"logs": "mu", "logSizeBytes": "mu"},
	"RateLimiter": {"reqs": "mu"},
	// Client: only lock balance is claimed (C11); its fields are not listed here.
}

// functions that run only while the object is being constructed (no other thread exists yet)
var ctorFuncs = map[string]bool{
	"server.GCAServer.loadGCAServerKeys": true, "server.GCAServer.loadGCATempKey": true, "server.GCAServer.loadGCAPubkey": true,
	"server.GCAServer.loadEquipment": true, "server.GCAServer.loadEquipmentHistory": true, "server.GCAServer.loadEquipmentReports": true,
	"client.Client.loadKeypair": true, "client.Client.loadGCAPub": true, "client.Client.loadGCAServers": true,
	"client.Client.loadHistory": true, "client.Client.loadShortID": true, "client.Client.readCTSettingsFile": true,
}

type unit struct {
	name     string // pkg.Recv.Func or pkg.Recv.Func$k
	recvType string
	recvVar  string
	body     *ast.BlockStmt
	prog     string
	locks    bool            // takes a lock itself (directly)
	access   map[string]bool // mutexes of guarded fields it touches directly
	calls    []string        // same-package callees (unit names)
	waits    bool            // waits for a peer itself (network read/write, HTTP request, sleep)
}

type lockWalker struct {
	p     *packages.Package
	pkg   string
	units map[string]*unit
	order []string

	ifaceInit bool
	connIface *types.Interface // net.Conn
	rwIface   *types.Interface // net/http.ResponseWriter
}

func recvInfo(fd *ast.FuncDecl) (typ, v string) {
	if fd.Recv == nil || len(fd.Recv.List) != 1 {
		return "", ""
	}
	t := fd.Recv.List[0].Type
	if st, ok := t.(*ast.StarExpr); ok {
		t = st.X
	}
	if id, ok := t.(*ast.Ident); ok {
		typ = id.Name
	}
	if len(fd.Recv.List[0].Names) == 1 {
		v = fd.Recv.List[0].Names[0].Name
	}
	return
}

func collectUnits(p *packages.Package, pkg string) *lockWalker {
	w := &lockWalker{p: p, pkg: pkg, units: map[string]*unit{}}
	for _, f := range p.Syntax {
		fn := filepath.Base(p.Fset.Position(f.Pos()).Filename)
		if strings.HasSuffix(fn, "_test.go") || strings.HasPrefix(fn, "verif_") || fn == "safeMu.go" {
			continue
		}
		for _, d := range f.Decls {
			fd, ok := d.(*ast.FuncDecl)
			if !ok || fd.Body == nil {
				continue
			}
			rt, rv := recvInfo(fd)
			name := pkg + "."
			if rt != "" {
				name += rt + "."
			}
			name += fd.Name.Name
			w.add(name, rt, rv, fd.Body)
		}
	}
	return w
}

func (w *lockWalker) add(name, rt, rv string, body *ast.BlockStmt) {
	u := &unit{name: name, recvType: rt, recvVar: rv, body: body, access: map[string]bool{}}
	w.units[name] = u
	w.order = append(w.order, name)
	// function literals become units of their own
	k := 0
	var visit func(n ast.Node) bool
	visit = func(n ast.Node) bool {
		if fl, ok := n.(*ast.FuncLit); ok {
			k++
			w.add(fmt.Sprintf("%s$%d", name, k), rt, rv, fl.Body)
			return false
		}
		return true
	}
	ast.Inspect(body, visit)
}

// mutexOf recognises X.mu / X.gcaServers.mu receivers of Lock/Unlock calls.
func mutexOf(e ast.Expr) (string, bool) {
	s := types.ExprString(e)
	parts := strings.Split(s, ".")
	if len(parts) < 2 || parts[len(parts)-1] != "mu" {
		return "", false
	}
	return strings.Join(parts[1:], "."), true
}

func (w *lockWalker) isExit(c *ast.CallExpr) bool {
	f := types.ExprString(c.Fun)
	return f == "panic" || f == "os.Exit" || strings.HasSuffix(f, ".Fatal") || strings.HasSuffix(f, ".Fatalf")
}

// accessesIn lists the guarded-field accesses inside an expression/statement (function literals excluded).
func (w *lockWalker) accessesIn(u *unit, n ast.Node) []string {
	tab := guarded[u.recvType]
	if tab == nil || n == nil {
		return nil
	}
	var out []string
	ast.Inspect(n, func(m ast.Node) bool {
		if _, ok := m.(*ast.FuncLit); ok {
			return false
		}
		se, ok := m.(*ast.SelectorExpr)
		if !ok {
			return true
		}
		s := types.ExprString(se)
		if !strings.HasPrefix(s, u.recvVar+".") || u.recvVar == "" {
			return true
		}
		path := strings.TrimPrefix(s, u.recvVar+".")
		if mu, ok := tab[path]; ok {
			out = append(out, mu)
			u.access[mu] = true
			return false
		}
		return true
	})
	return out
}

// callsIn lists same-receiver method calls inside n (function literals excluded).
func (w *lockWalker) callsIn(u *unit, n ast.Node) []string {
	var out []string
	if n == nil {
		return nil
	}
	ast.Inspect(n, func(m ast.Node) bool {
		if _, ok := m.(*ast.FuncLit); ok {
			return false
		}
		c, ok := m.(*ast.CallExpr)
		if !ok {
			return true
		}
		if se, ok := c.Fun.(*ast.SelectorExpr); ok {
			if id, ok := se.X.(*ast.Ident); ok && id.Name == u.recvVar && u.recvVar != "" {
				callee := w.pkg + "." + u.recvType + "." + se.Sel.Name
				if _, ok := w.units[callee]; ok {
					out = append(out, callee)
				}
			}
		}
		return true
	})
	return out
}

// simple renders the non-control part of a statement: accesses, calls, lock operations.
func (w *lockWalker) simple(u *unit, n ast.Node, out *[]string) {
	if n == nil {
		return
	}
	// lock operations (not inside function literals)
	handled := false
	if es, ok := n.(*ast.ExprStmt); ok {
		if c, ok := es.X.(*ast.CallExpr); ok {
			if se, ok := c.Fun.(*ast.SelectorExpr); ok {
				if mu, ok := mutexOf(se.X); ok {
					switch se.Sel.Name {
					case "Lock":
						*out = append(*out, fmt.Sprintf(".lock %q", mu))
						u.locks = true
						handled = true
					case "Unlock":
						*out = append(*out, fmt.Sprintf(".unlock %q", mu))
						handled = true
					}
				}
			}
			if !handled && w.isExit(c) {
				for _, a := range w.accessesIn(u, n) {
					*out = append(*out, fmt.Sprintf(".access %q", a))
				}
				*out = append(*out, ".exit")
				return
			}
		}
	}
	if handled {
		return
	}
	for _, a := range w.accessesIn(u, n) {
		*out = append(*out, fmt.Sprintf(".access %q", a))
	}
	for _, c := range w.callsIn(u, n) {
		*out = append(*out, "CALL:"+c)
		u.calls = append(u.calls, c)
	}
	// a call that waits for a peer is held to the rule for calls that take locks: nothing may be held
	if w.peerCallsIn(n) > 0 {
		*out = append(*out, ".callLocking")
		u.waits = true
	}
}

// findImport looks a package up among the transitive imports of p.
func findImport(p *packages.Package, path string) *types.Package {
	seen := map[string]bool{}
	var walk func(q *packages.Package) *types.Package
	walk = func(q *packages.Package) *types.Package {
		if q == nil || seen[q.PkgPath] {
			return nil
		}
		seen[q.PkgPath] = true
		if q.PkgPath == path && q.Types != nil {
			return q.Types
		}
		for _, im := range q.Imports {
			if r := walk(im); r != nil {
				return r
			}
		}
		return nil
	}
	return walk(p)
}

func ifaceOf(pk *types.Package, name string) *types.Interface {
	if pk == nil {
		return nil
	}
	o := pk.Scope().Lookup(name)
	if o == nil {
		return nil
	}
	i, _ := o.Type().Underlying().(*types.Interface)
	return i
}

// methods of a connection or of a response writer that do not wait for the peer
var peerQuiet = map[string]bool{"SetDeadline": true, "SetReadDeadline": true, "SetWriteDeadline": true, "Close": true,
	"RemoteAddr": true, "LocalAddr": true, "Header": true}

// isPeerValue: the expression is a network connection, an HTTP response writer, or the body of an HTTP
// request or response: reading from it or writing to it lasts as long as the peer likes.
func (w *lockWalker) isPeerValue(e ast.Expr) bool {
	t := w.p.TypesInfo.TypeOf(e)
	if t == nil {
		return false
	}
	if w.connIface == nil && !w.ifaceInit {
		w.ifaceInit = true
		w.connIface = ifaceOf(findImport(w.p, "net"), "Conn")
		w.rwIface = ifaceOf(findImport(w.p, "net/http"), "ResponseWriter")
	}
	for _, i := range []*types.Interface{w.connIface, w.rwIface} {
		if i != nil && types.Implements(t, i) {
			return true
		}
	}
	if se, ok := e.(*ast.SelectorExpr); ok && se.Sel.Name == "Body" {
		if xt := w.p.TypesInfo.TypeOf(se.X); xt != nil {
			s := xt.String()
			return s == "*net/http.Request" || s == "*net/http.Response"
		}
	}
	return false
}

// isPeerCall: a call that waits for a peer or for time to pass. Holding a mutex across such a call lets
// a slow or silent peer stop every other user of that mutex.
func (w *lockWalker) isPeerCall(c *ast.CallExpr) bool {
	var obj types.Object
	var recv ast.Expr
	switch f := c.Fun.(type) {
	case *ast.SelectorExpr:
		obj = w.p.TypesInfo.Uses[f.Sel]
		if sel, ok := w.p.TypesInfo.Selections[f]; ok && sel.Kind() == types.MethodVal {
			recv = f.X
		}
	case *ast.Ident:
		obj = w.p.TypesInfo.Uses[f]
	}
	fn, _ := obj.(*types.Func)
	if fn == nil {
		return false
	}
	name := fn.Name()
	pkgPath := ""
	if fn.Pkg() != nil {
		pkgPath = fn.Pkg().Path()
	}
	switch {
	case pkgPath == "net/http" && (name == "Get" || name == "Post" || name == "PostForm" || name == "Head" || name == "Do"):
		return true
	case pkgPath == "net" && strings.HasPrefix(name, "Dial"):
		return true
	case name == "Sleep":
		return true
	}
	if recv != nil {
		return w.isPeerValue(recv) && !peerQuiet[name]
	}
	for _, a := range c.Args {
		if w.isPeerValue(a) {
			return true
		}
	}
	return false
}

// peerCallsIn counts the calls inside n (function literals excluded) that wait for a peer.
func (w *lockWalker) peerCallsIn(n ast.Node) int {
	k := 0
	if n == nil {
		return 0
	}
	ast.Inspect(n, func(m ast.Node) bool {
		if _, ok := m.(*ast.FuncLit); ok {
			return false
		}
		if c, ok := m.(*ast.CallExpr); ok && w.isPeerCall(c) {
			k++
		}
		return true
	})
	return k
}

func (w *lockWalker) block(u *unit, list []ast.Stmt) []string {
	var out []string
	for _, s := range list {
		w.stmt(u, s, &out)
	}
	return out
}

func lst(xs []string) string { return "[" + strings.Join(xs, ", ") + "]" }

func (w *lockWalker) stmt(u *unit, s ast.Stmt, out *[]string) {
	switch x := s.(type) {
	case *ast.DeferStmt:
		if se, ok := x.Call.Fun.(*ast.SelectorExpr); ok && se.Sel.Name == "Unlock" {
			if mu, ok := mutexOf(se.X); ok {
				*out = append(*out, fmt.Sprintf(".deferUnlock %q", mu))
				return
			}
		}
		// other deferred calls (Close etc.): their arguments are evaluated now
		for _, a := range x.Call.Args {
			w.simple(u, a, out)
		}
	case *ast.ReturnStmt:
		for _, r := range x.Results {
			w.simple(u, r, out)
		}
		*out = append(*out, ".ret")
	case *ast.IfStmt:
		if x.Init != nil {
			w.stmt(u, x.Init, out)
		}
		w.simple(u, x.Cond, out)
		a := w.block(u, x.Body.List)
		var b []string
		if x.Else != nil {
			w.stmt(u, x.Else, &b)
		}
		*out = append(*out, fmt.Sprintf(".ite %s %s", lst(a), lst(b)))
	case *ast.BlockStmt:
		*out = append(*out, w.block(u, x.List)...)
	case *ast.ForStmt:
		if x.Init != nil {
			w.stmt(u, x.Init, out)
		}
		var body []string
		w.simple(u, x.Cond, &body)
		body = append(body, w.block(u, x.Body.List)...)
		if x.Post != nil {
			w.stmt(u, x.Post, &body)
		}
		*out = append(*out, fmt.Sprintf(".loop %s", lst(body)))
	case *ast.RangeStmt:
		w.simple(u, x.X, out)
		*out = append(*out, fmt.Sprintf(".loop %s", lst(w.block(u, x.Body.List))))
	case *ast.SwitchStmt, *ast.TypeSwitchStmt, *ast.SelectStmt:
		// each clause is an alternative; `break` inside leaves the switch, which the
		// skeleton language cannot tell from a loop break: clauses are wrapped in a one-shot loop
		var clauses [][]ast.Stmt
		var bodyOf *ast.BlockStmt
		switch y := x.(type) {
		case *ast.SwitchStmt:
			if y.Init != nil {
				w.stmt(u, y.Init, out)
			}
			w.simple(u, y.Tag, out)
			bodyOf = y.Body
		case *ast.TypeSwitchStmt:
			bodyOf = y.Body
		case *ast.SelectStmt:
			bodyOf = y.Body
		}
		for _, c := range bodyOf.List {
			switch cc := c.(type) {
			case *ast.CaseClause:
				clauses = append(clauses, cc.Body)
			case *ast.CommClause:
				clauses = append(clauses, cc.Body)
			}
		}
		alt := "[]"
		for i := len(clauses) - 1; i >= 0; i-- {
			alt = fmt.Sprintf("[.ite %s %s]", lst(w.block(u, clauses[i])), alt)
		}
		*out = append(*out, fmt.Sprintf(".loop (%s ++ [.brk])", alt))
	case *ast.BranchStmt:
		switch x.Tok {
		case token.BREAK:
			*out = append(*out, ".brk")
		case token.CONTINUE:
			*out = append(*out, ".cont")
		}
	case *ast.LabeledStmt:
		w.stmt(u, x.Stmt, out)
	case *ast.GoStmt:
		for _, a := range x.Call.Args {
			w.simple(u, a, out)
		}
	default:
		w.simple(u, s, out)
	}
}

// emitLocks writes Gca/Generated/Locks.lean.
func emitLocks(ld *loaded, report *[]string) string {
	var b strings.Builder
	b.WriteString("/- GENERATED by /verif/extract from the current /repo working tree. Do not edit. -/\nimport Gca.LockSkel\nset_option maxRecDepth 100000\nnamespace Gen.Locks\nopen Gca.Lock\n")
	var entries, assuming, ctors []string
	var callers []string
	for _, pkg := range []string{"glow", "server", "client"} {
		w := collectUnits(ld.pkgs[pkg], pkg)
		raw := map[string][]string{}
		for _, n := range w.order {
			u := w.units[n]
			raw[n] = w.block(u, u.body.List)
		}
		// transitive: does a unit take locks (itself or through same-receiver calls)?
		locking := map[string]bool{}
		for n, u := range w.units {
			locking[n] = u.locks || u.waits
		}
		for changed := true; changed; {
			changed = false
			for n, u := range w.units {
				if locking[n] {
					continue
				}
				for _, c := range u.calls {
					if locking[c] {
						locking[n] = true
						changed = true
					}
				}
			}
		}
		// lock-assuming: touches guarded fields (directly or through non-locking callees) and never locks
		assumes := map[string]string{}
		for changed := true; changed; {
			changed = false
			for n, u := range w.units {
				if locking[n] || assumes[n] != "" {
					continue
				}
				mu := ""
				for m := range u.access {
					mu = m
				}
				for _, c := range u.calls {
					if assumes[c] != "" {
						mu = assumes[c]
					}
				}
				if mu != "" {
					assumes[n] = mu
					changed = true
				}
			}
		}
		for _, n := range w.order {
			u := w.units[n]
			var items []string
			var render func(xs []string) []string
			render = func(xs []string) []string { return xs }
			_ = render
			txt := strings.Join(raw[n], ", ")
			// resolve CALL: markers (they also occur inside nested lists)
			for _, c := range uniq(u.calls) {
				rep := ""
				switch {
				case ctorFuncs[c]:
					callers = append(callers, fmt.Sprintf("(%s, %s)", leanStr(c), leanStr(n)))
				case locking[c]:
					rep = ".callLocking"
				case assumes[c] != "":
					rep = fmt.Sprintf(".callAssuming %q", assumes[c])
				}
				txt = replaceCall(txt, "CALL:"+c, rep)
			}
			_ = items
			id := leanIdent(n)
			fmt.Fprintf(&b, "def %s : Prog := [%s]\n", id, txt)
			switch {
			case ctorFuncs[n]:
				ctors = append(ctors, fmt.Sprintf("(%s, %s)", leanStr(n), id))
			case assumes[n] != "" && !isFuncLit(n):
				assuming = append(assuming, fmt.Sprintf("(%s, %s, %s)", leanStr(n), leanStr(assumes[n]), id))
			default:
				entries = append(entries, fmt.Sprintf("(%s, %s)", leanStr(n), id))
			}
		}
	}
	sort.Strings(callers)
	fmt.Fprintf(&b, "\n/-- functions entered with no lock held (exported, handlers, background loops, goroutine bodies) -/\ndef entries : List (String × Prog) := [\n  %s]\n", strings.Join(entries, ",\n  "))
	fmt.Fprintf(&b, "\n/-- helpers that touch guarded state without locking: they must be called with the mutex held -/\ndef assuming : List (String × String × Prog) := [\n  %s]\n", strings.Join(assuming, ",\n  "))
	fmt.Fprintf(&b, "\n/-- construction-time loaders (no other thread exists yet) -/\ndef ctors : List (String × Prog) := [\n  %s]\n", strings.Join(ctors, ",\n  "))
	fmt.Fprintf(&b, "\n/-- who calls the construction-time loaders -/\ndef ctorCallers : List (String × String) := [\n  %s]\n", strings.Join(uniq(callers), ",\n  "))
	// writes to fields that no mutex guards: they are configuration, set while the object is built
	var uw []string
	for _, pkg := range []string{"glow", "server"} {
		uw = append(uw, unguardedWrites(ld.pkgs[pkg], pkg)...)
	}
	sort.Strings(uw)
	fmt.Fprintf(&b, "\n/-- every assignment to a field of a lock-protected object that is NOT in the guarded-field table, as function:field -/\ndef unguardedWrites : List String := %s\n", leanStrList(uniq(uw)))
	// README naming discipline: a method called static* uses only the fields that never change after construction
	var su []string
	for _, pkg := range []string{"server", "client"} {
		su = append(su, staticMethodFieldUses(ld.pkgs[pkg], pkg)...)
	}
	sort.Strings(su)
	fmt.Fprintf(&b, "\n/-- every field of the receiver that a method named static* mentions and whose own name does not start with \"static\", as method:field -/\ndef staticFieldUses : List String := %s\n", leanStrList(uniq(su)))
	var lc, ls []string
	for _, pkg := range []string{"glow", "server", "client"} {
		lc = append(lc, lockCopyingReceivers(ld.pkgs[pkg], pkg)...)
		ls = append(ls, loopSharedCaptures(ld.pkgs[pkg], pkg)...)
	}
	sort.Strings(lc)
	sort.Strings(ls)
	fmt.Fprintf(&b, "\n/-- methods with a value receiver whose type holds a mutex (the method would lock a copy) -/\ndef lockCopyingReceivers : List String := %s\n", leanStrList(uniq(lc)))
	fmt.Fprintf(&b, "\n/-- what goroutines launched inside a loop share with the next iteration: a variable of reference kind declared outside the loop, or an alias of one, as function:name -/\ndef loopSharedCaptures : List String := %s\n", leanStrList(uniq(ls)))
	b.WriteString("end Gen.Locks\n")
	*report = append(*report, fmt.Sprintf("Locks: %d entry units, %d lock-assuming helpers, %d constructor loaders", len(entries), len(assuming), len(ctors)))
	return b.String()
}

func isFuncLit(n string) bool { return strings.Contains(n, "$") }

func uniq(xs []string) []string {
	seen := map[string]bool{}
	var out []string
	for _, x := range xs {
		if !seen[x] {
			seen[x] = true
			out = append(out, x)
		}
	}
	return out
}

// replaceCall substitutes a CALL marker inside a comma-separated Lean list text;
// an empty replacement removes the element together with one adjacent comma.
func replaceCall(txt, marker, rep string) string {
	if rep != "" {
		return strings.ReplaceAll(txt, marker, rep)
	}
	txt = strings.ReplaceAll(txt, ", "+marker, "")
	txt = strings.ReplaceAll(txt, marker+", ", "")
	return strings.ReplaceAll(txt, marker, "")
}

func leanIdent(n string) string {
	r := strings.NewReplacer(".", "_", "$", "_fl")
	return "u_" + r.Replace(n)
}

// unguardedWrites lists "pkg.Recv.Func:field" for every statement that assigns to (or deletes from, or
// increments) a field of the receiver when the receiver's type has guarded fields and the field is not
// one of them. Such fields are meant to be written only while the object is constructed.
func unguardedWrites(p *packages.Package, pkg string) []string {
	var out []string
	for _, f := range p.Syntax {
		fn := filepath.Base(p.Fset.Position(f.Pos()).Filename)
		if strings.HasSuffix(fn, "_test.go") || strings.HasPrefix(fn, "verif_") || fn == "safeMu.go" {
			continue
		}
		for _, d := range f.Decls {
			fd, ok := d.(*ast.FuncDecl)
			if !ok || fd.Body == nil {
				continue
			}
			rt, rv := recvInfo(fd)
			tab := guarded[rt]
			if tab == nil || rv == "" {
				continue
			}
			var pathOf func(e ast.Expr) []string
			pathOf = func(e ast.Expr) []string {
				switch x := e.(type) {
				case *ast.Ident:
					return []string{x.Name}
				case *ast.SelectorExpr:
					if p := pathOf(x.X); p != nil {
						return append(p, x.Sel.Name)
					}
				case *ast.IndexExpr:
					return pathOf(x.X)
				case *ast.SliceExpr:
					return pathOf(x.X)
				case *ast.StarExpr:
					return pathOf(x.X)
				case *ast.ParenExpr:
					return pathOf(x.X)
				}
				return nil
			}
			field := func(e ast.Expr) string {
				parts := pathOf(e)
				if len(parts) < 2 || parts[0] != rv {
					return ""
				}
				path := strings.Join(parts[1:], ".")
				for g := range tab {
					if path == g || strings.HasPrefix(path, g+".") {
						return ""
					}
				}
				if parts[len(parts)-1] == "mu" {
					return ""
				}
				return parts[1]
			}
			name := pkg + "." + rt + "." + fd.Name.Name
			ast.Inspect(fd.Body, func(n ast.Node) bool {
				switch x := n.(type) {
				case *ast.AssignStmt:
					for _, l := range x.Lhs {
						if fl := field(l); fl != "" {
							out = append(out, name+":"+fl)
						}
					}
				case *ast.IncDecStmt:
					if fl := field(x.X); fl != "" {
						out = append(out, name+":"+fl)
					}
				case *ast.CallExpr:
					if id, ok := x.Fun.(*ast.Ident); ok && id.Name == "delete" && len(x.Args) > 0 {
						if fl := field(x.Args[0]); fl != "" {
							out = append(out, name+":"+fl)
						}
					}
				}
				return true
			})
		}
	}
	return out
}

// staticMethodFieldUses lists "pkg.Recv.method:field" for every mention of a receiver field inside a
// method whose name starts with "static", when the field's name does not itself start with "static".
func staticMethodFieldUses(p *packages.Package, pkg string) []string {
	var out []string
	for _, f := range p.Syntax {
		fn := filepath.Base(p.Fset.Position(f.Pos()).Filename)
		if strings.HasSuffix(fn, "_test.go") || strings.HasPrefix(fn, "verif_") {
			continue
		}
		for _, d := range f.Decls {
			fd, ok := d.(*ast.FuncDecl)
			if !ok || fd.Body == nil || !strings.HasPrefix(fd.Name.Name, "static") {
				continue
			}
			rt, rv := recvInfo(fd)
			if rt == "" || rv == "" {
				continue
			}
			name := pkg + "." + rt + "." + fd.Name.Name
			ast.Inspect(fd.Body, func(n ast.Node) bool {
				se, ok := n.(*ast.SelectorExpr)
				if !ok {
					return true
				}
				id, ok := se.X.(*ast.Ident)
				if !ok || id.Name != rv {
					return true
				}
				// fields only (methods of the receiver are judged by their own names)
				if sel := p.TypesInfo.Selections[se]; sel != nil && sel.Kind() == types.FieldVal {
					if !strings.HasPrefix(se.Sel.Name, "static") {
						out = append(out, name+":"+se.Sel.Name)
					}
				}
				return true
			})
		}
	}
	return out
}

// containsLock: the type is, or (transitively, through struct fields and arrays) holds, a sync.Mutex or sync.RWMutex.
func containsLock(t types.Type, depth int) bool {
	if t == nil || depth > 6 {
		return false
	}
	if s := t.String(); s == "sync.Mutex" || s == "sync.RWMutex" {
		return true
	}
	switch u := t.Underlying().(type) {
	case *types.Struct:
		for i := 0; i < u.NumFields(); i++ {
			if containsLock(u.Field(i).Type(), depth+1) {
				return true
			}
		}
	case *types.Array:
		return containsLock(u.Elem(), depth+1)
	}
	return false
}

// lockCopyingReceivers lists the methods whose receiver is passed BY VALUE although its type holds a mutex:
// such a method locks a private copy of the mutex (born locked if the original was held) and protects nothing.
func lockCopyingReceivers(p *packages.Package, pkg string) []string {
	var out []string
	for _, f := range p.Syntax {
		fn := filepath.Base(p.Fset.Position(f.Pos()).Filename)
		if strings.HasSuffix(fn, "_test.go") || strings.HasPrefix(fn, "verif_") {
			continue
		}
		for _, d := range f.Decls {
			fd, ok := d.(*ast.FuncDecl)
			if !ok || fd.Recv == nil || len(fd.Recv.List) != 1 {
				continue
			}
			if _, ptr := fd.Recv.List[0].Type.(*ast.StarExpr); ptr {
				continue
			}
			if t := p.TypesInfo.TypeOf(fd.Recv.List[0].Type); containsLock(t, 0) {
				out = append(out, fmt.Sprintf("%s.%s.%s", pkg, types.ExprString(fd.Recv.List[0].Type), fd.Name.Name))
			}
		}
	}
	return out
}

func sharedKind(t types.Type) bool {
	if t == nil {
		return false
	}
	switch t.Underlying().(type) {
	case *types.Slice, *types.Map, *types.Pointer, *types.Array, *types.Chan:
		return true
	}
	return false
}

func rootIdent(e ast.Expr) *ast.Ident {
	for {
		switch x := e.(type) {
		case *ast.Ident:
			return x
		case *ast.SliceExpr:
			e = x.X
		case *ast.IndexExpr:
			e = x.X
		case *ast.ParenExpr:
			e = x.X
		case *ast.StarExpr:
			e = x.X
		case *ast.UnaryExpr:
			e = x.X
		default:
			return nil
		}
	}
}

// loopSharedCaptures: a goroutine is launched inside a loop (go statement, or tg.Launch with a function literal)
// and what it is handed - a captured variable or an argument of slice, map, pointer, array or channel type - was
// declared OUTSIDE that loop, or is a slice/alias of such a variable: every iteration's goroutine then shares it
// with the next iteration. Entries are "pkg.Func:name" (or "pkg.Func:name<-root" for an alias).
func loopSharedCaptures(p *packages.Package, pkg string) []string {
	var out []string
	for _, f := range p.Syntax {
		fn := filepath.Base(p.Fset.Position(f.Pos()).Filename)
		if strings.HasSuffix(fn, "_test.go") || strings.HasPrefix(fn, "verif_") {
			continue
		}
		for _, d := range f.Decls {
			fd, ok := d.(*ast.FuncDecl)
			if !ok || fd.Body == nil {
				continue
			}
			name := pkg + "."
			if rt, _ := recvInfo(fd); rt != "" {
				name += rt + "."
			}
			name += fd.Name.Name
			// initialisers of := definitions
			inits := map[types.Object]ast.Expr{}
			ast.Inspect(fd.Body, func(n ast.Node) bool {
				if as, ok := n.(*ast.AssignStmt); ok && as.Tok == token.DEFINE && len(as.Lhs) == len(as.Rhs) {
					for i, l := range as.Lhs {
						if id, ok := l.(*ast.Ident); ok {
							if o := p.TypesInfo.Defs[id]; o != nil {
								inits[o] = as.Rhs[i]
							}
						}
					}
				}
				return true
			})
			params := map[types.Object]bool{}
			if fd.Recv != nil {
				for _, fl := range fd.Recv.List {
					for _, id := range fl.Names {
						params[p.TypesInfo.Defs[id]] = true
					}
				}
			}
			for _, fl := range fd.Type.Params.List {
				for _, id := range fl.Names {
					params[p.TypesInfo.Defs[id]] = true
				}
			}
			inFunc := func(o types.Object) bool { return o != nil && o.Pos() >= fd.Pos() && o.Pos() < fd.End() }
			judge := func(id *ast.Ident, loop ast.Node, lit ast.Node) {
				o, _ := p.TypesInfo.Uses[id].(*types.Var)
				if o == nil || o.IsField() || !inFunc(o) || params[o] || !sharedKind(o.Type()) {
					return
				}
				if lit != nil && o.Pos() >= lit.Pos() && o.Pos() < lit.End() {
					return // declared inside the literal itself
				}
				inLoop := o.Pos() >= loop.Pos() && o.Pos() < loop.End()
				if !inLoop {
					out = append(out, name+":"+o.Name())
					return
				}
				if init, ok := inits[o]; ok {
					if r := rootIdent(init); r != nil {
						if ro, _ := p.TypesInfo.Uses[r].(*types.Var); ro != nil && !ro.IsField() && inFunc(ro) && !params[ro] && sharedKind(ro.Type()) &&
							!(ro.Pos() >= loop.Pos() && ro.Pos() < loop.End()) {
							if _, isCall := init.(*ast.CallExpr); !isCall {
								out = append(out, name+":"+o.Name()+"<-"+ro.Name())
							}
						}
					}
				}
			}
			var walk func(n ast.Node, loop ast.Node)
			walk = func(n ast.Node, loop ast.Node) {
				ast.Inspect(n, func(m ast.Node) bool {
					if m == nil || m == n {
						return true
					}
					switch x := m.(type) {
					case *ast.ForStmt:
						walk(x.Body, x.Body)
						return false
					case *ast.RangeStmt:
						walk(x.Body, x.Body)
						return false
					case *ast.FuncLit:
						walk(x.Body, nil) // a literal that is not launched: its own loops count from scratch
						return false
					case *ast.GoStmt:
						if loop != nil {
							if lit, ok := x.Call.Fun.(*ast.FuncLit); ok {
								ast.Inspect(lit.Body, func(k ast.Node) bool {
									if id, ok := k.(*ast.Ident); ok {
										judge(id, loop, lit)
									}
									return true
								})
							}
							for _, a := range x.Call.Args {
								if r := rootIdent(a); r != nil {
									judge(r, loop, nil)
								}
							}
						}
						return true
					case *ast.CallExpr:
						if se, ok := x.Fun.(*ast.SelectorExpr); ok && se.Sel.Name == "Launch" && len(x.Args) == 1 && loop != nil {
							if lit, ok := x.Args[0].(*ast.FuncLit); ok {
								ast.Inspect(lit.Body, func(k ast.Node) bool {
									if id, ok := k.(*ast.Ident); ok {
										judge(id, loop, lit)
									}
									return true
								})
								return false
							}
						}
					}
					return true
				})
			}
			walk(fd.Body, nil)
		}
	}
	return uniq(out)
}
