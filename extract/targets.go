package main

import (
	"fmt"
	"go/ast"
	"go/constant"
	"go/token"
	"go/types"
	"os"
	"path/filepath"
	"sort"
	"strings"

	"golang.org/x/tools/go/packages"
)

const slotExpr = "server.equipmentReports[report.ShortID][report.Timeslot-server.equipmentReportsOffset]"

var guardTargets = []target{
	{Name: "Gen.HandleReport", Tags: "test", Pkg: "server", Func: "GCAServer.managedHandleEquipmentReport",
		Leaves: map[string]leaf{
			"report.Timeslot":         {"ts", bv(32)},
			"glow.CurrentTimeslot()":  {"now", bv(32)},
			"report.PowerOutput":      {"p", bv(64)},
		}},
	{Name: "Gen.ParseReport", Tags: "test", Pkg: "server", Func: "GCAServer.parseReport",
		Leaves: map[string]leaf{"len(rawData)": {"n", bv(64)}}},
	{Name: "Gen.VerifyAuth", Tags: "test", Pkg: "server", Func: "GCAServer.verifyEquipmentAuthorization",
		Leaves: map[string]leaf{}},
	{Name: "Gen.RegisterGCA", Tags: "test", Pkg: "server", Func: "GCAServer.registerGCA",
		Leaves: map[string]leaf{"gcas.gcaPubkeyAvailable": {"avail", "Bool"}}},
	{Name: "Gen.LoadEquipment", Tags: "test", Pkg: "server", Func: "GCAServer.loadEquipment",
		Leaves: map[string]leaf{"len(rawData)": {"n", bv(64)}}},
	{Name: "Gen.LoadHistory", Tags: "test", Pkg: "server", Func: "GCAServer.loadEquipmentHistory",
		Leaves: map[string]leaf{"len(data)": {"n", bv(64)}}},
	{Name: "Gen.LoadReports", Tags: "test", Pkg: "server", Func: "GCAServer.loadEquipmentReports",
		Leaves: map[string]leaf{"len(rawData)": {"n", bv(64)}}},
	{Name: "Gen.LoadGCAPubkey", Tags: "test", Pkg: "server", Func: "GCAServer.loadGCAPubkey",
		Leaves: map[string]leaf{"len(pubkeyData)": {"n", bv(64)}}},
	{Name: "Gen.ListenUDP", Tags: "test", Pkg: "server", Func: "GCAServer.threadedListenUDP",
		Leaves: map[string]leaf{"readBytes": {"n", bv(64)}}},
	{Name: "Gen.ValidateMigration", Tags: "test", Pkg: "server", Func: "GCAServer.managedValidateMigration",
		Leaves: map[string]leaf{"len(as.Location)": {"n", bv(64)}}},
	{Name: "Gen.AuthServersPOST", Tags: "test", Pkg: "server", Func: "GCAServer.AuthorizedServersHandlerPOST",
		Leaves: map[string]leaf{"len(server.Location)": {"n", bv(64)}, "s.gcaServers.servers[i].Banned": {"oldBanned", "Bool"}, "server.Banned": {"newBanned", "Bool"}}},
	{Name: "Gen.Integrate", Tags: "test", Pkg: "server", Func: "GCAServer.integrateReport",
		Leaves: map[string]leaf{
			"report.Timeslot":                          {"ts", bv(32)},
			"server.equipmentReportsOffset":            {"off", bv(32)},
			"report.PowerOutput":                       {"p", bv(64)},
			slotExpr + ".PowerOutput":                  {"slotP", bv(64)},
			slotExpr + " == report":                    {"slotEq", "Bool"},
			"server.equipment[report.ShortID].Capacity": {"cap", bv(64)},
			"len(server.recentReports)":                {"nRecent", bv(64)},
		},
		Locals: []string{"limit"},
		Index:  []string{"server.equipmentReports[report.ShortID]"}},
	{Name: "Gen.MigrateLoop", Tags: "test", Pkg: "server", Func: "GCAServer.launchMigrateReports",
		Leaves: map[string]leaf{
			"glow.CurrentTimeslot()":      {"now", bv(32)},
			"gcas.equipmentReportsOffset": {"off", bv(32)},
		}},
	{Name: "Gen.WeekData", Tags: "", Pkg: "server", Func: "GCAServer.managedGetWattTimeWeekData",
		Leaves: map[string]leaf{}},
	{Name: "Gen.StatsHandler", Tags: "test", Pkg: "server", Func: "GCAServer.AllDeviceStatsHandler",
		Leaves: map[string]leaf{
			"uint32(tsoU64)":            {"tso", bv(32)},
			"s.equipmentReportsOffset":  {"off", bv(32)},
			"s.equipmentHistoryOffset":  {"hoff", bv(32)},
		},
		Index: []string{"s.equipmentStatsHistory"}},
	{Name: "Gen.BuildStats", Tags: "test", Pkg: "server", Func: "GCAServer.buildDeviceStats",
		Leaves: map[string]leaf{
			"timeslotOffset":           {"tso", bv(32)},
			"s.equipmentReportsOffset": {"off", bv(32)},
		},
		Locals: []string{"x"}},
	{Name: "Gen.SyncConn", Tags: "test", Pkg: "server", Func: "GCAServer.managedHandleSyncConn",
		Leaves: map[string]leaf{
			"i":                  {"i", bv(64)},
			"report.PowerOutput": {"p", bv(64)},
		},
		Locals: []string{"byteIndex", "bitIndex"},
		Index:  []string{"bitfield"}},
	{Name: "Gen.ImpactRound", Tags: "test", Pkg: "server", Func: "GCAServer.managedGetWattTimeIndexData",
		Leaves: map[string]leaf{
			"timeslot":                    {"ts", bv(32)},
			"gcas.equipmentReportsOffset": {"off", bv(32)},
			"exists":                      {"ex", "Bool"},
		},
		Index: []string{"rates"}},
	{Name: "Gen.UnixToTimeslot", Tags: "", Pkg: "glow", Func: "UnixToTimeslot",
		Leaves: map[string]leaf{"time": {"t", bv(64)}}},
	{Name: "Gen.TimeslotToUnix", Tags: "", Pkg: "glow", Func: "TimeslotToUnix",
		Leaves: map[string]leaf{"timeslot": {"s", bv(32)}}},
	{Name: "Gen.CurrentTimeslot", Tags: "", Pkg: "glow", Func: "CurrentTimeslot",
		Leaves: map[string]leaf{"time.Now().Unix()": {"t", bv(64)}}},
	{Name: "Gen.SaveReading", Tags: "test", Pkg: "client", Func: "Client.staticSaveReading",
		Leaves: map[string]leaf{
			"timeslot":              {"ts", bv(32)},
			"c.staticHistoryOffset": {"off", bv(32)},
			"current":               {"cur", bv(32)},
			"reading":               {"rd", bv(32)},
		},
		Locals: []string{"byteOffset"}},
	{Name: "Gen.LoadReading", Tags: "test", Pkg: "client", Func: "Client.staticLoadReading",
		Leaves: map[string]leaf{
			"timeslot":              {"ts", bv(32)},
			"c.staticHistoryOffset": {"off", bv(32)},
		},
		Locals: []string{"byteOffset"}},
	{Name: "Gen.ServerSync", Tags: "test", Pkg: "client", Func: "Client.staticServerSync",
		Leaves: map[string]leaf{
			"binary.LittleEndian.Uint16(respLenBuf[:])":       {"respLen", bv(16)},
			"binary.LittleEndian.Uint64(respBuf[respLen-72:])": {"signingTime", bv(64)},
			"uint64(time.Now().Unix())":                        {"now", bv(64)},
		}},
	{Name: "Gen.SyncRound", Tags: "test", Pkg: "client", Func: "Client.threadedSyncWithServer",
		Leaves: map[string]leaf{
			"latestReading":  {"latest", bv(32)},
			"timeslotOffset": {"off", bv(32)},
			"i":              {"i", bv(32)},
			"powerOutput":    {"pw", bv(32)},
			"bitfield[i/8]":  {"bfByte", bv(8)},
			"err != nil":     {"errB", "Bool"},
		},
		Locals: []string{"lastIndex"},
		Fields: []string{"Timeslot", "Energy"}},
	{Name: "Gen.SendLoop", Tags: "test", Pkg: "client", Func: "Client.threadedSendReports",
		Leaves: map[string]leaf{
			"ticks":                           {"ticks", bv(64)},
			"atomic.LoadUint64(&syncStatus)": {"st", bv(64)},
			"record.Timeslot":                 {"ts", bv(32)},
			"latestRecord":                    {"latest", bv(32)},
			"err != nil":                      {"errB", "Bool"},
			"err == nil":                      {"okB", "Bool"},
		}},
	{Name: "Gen.RateAllow", Tags: "", Pkg: "glow", Func: "RateLimiter.Allow",
		Leaves: map[string]leaf{
			"time.Now()":  {"now", bv(64)},
			"r.rate":      {"rate", bv(64)},
			"t":           {"t", bv(64)},
			"len(r.reqs)": {"n", bv(64)},
			"r.limit":     {"limit", bv(64)},
		}},
	{Name: "Gen.LogExpire", Tags: "", Pkg: "glow", Func: "EventLogger.ExpireLogs",
		Leaves: map[string]leaf{
			"now":         {"now", bv(64)},
			"l.logExpiry": {"expiry", bv(64)},
			"ts":          {"ts", bv(64)},
		}},
	{Name: "Gen.LogPrintf", Tags: "", Pkg: "glow", Func: "EventLogger.Printf",
		Leaves: map[string]leaf{
			"len(key)":          {"klen", bv(64)},
			"l.logMaxLineBytes": {"maxLine", bv(64)},
			"l.logMaxBytes":     {"maxB", bv(64)},
			"l.logSizeBytes":    {"size", bv(64)},
		}},
}

// ---------------------------------------------------------------------------
// Tables

func emitConsts(out *strings.Builder, ld *loaded, ns string, pkg string, names []string) {
	p := ld.pkgs[pkg]
	fmt.Fprintf(out, "\nnamespace %s\n", ns)
	for _, n := range names {
		o := p.Types.Scope().Lookup(n)
		c, ok := o.(*types.Const)
		if !ok {
			fmt.Fprintf(out, "-- %s: not a constant in this build\n", n)
			continue
		}
		v := c.Val()
		switch v.Kind() {
		case constant.Int:
			fmt.Fprintf(out, "def %s : Int := %s\n", n, v.ExactString())
		case constant.Float:
			iv := constant.ToInt(v)
			if iv.Kind() == constant.Int {
				fmt.Fprintf(out, "def %s : Int := %s\n", n, iv.ExactString())
			} else {
				fmt.Fprintf(out, "-- %s: non-integral constant %s\n", n, v.ExactString())
			}
		case constant.Bool:
			fmt.Fprintf(out, "def %s : Bool := %v\n", n, constant.BoolVal(v))
		case constant.String:
			fmt.Fprintf(out, "def %s : String := %s\n", n, leanStr(constant.StringVal(v)))
		}
	}
	fmt.Fprintf(out, "end %s\n", ns)
}

// stringsIn returns the string literals inside a function body, in source order.
func stringsIn(fd *ast.FuncDecl) []string {
	var r []string
	ast.Inspect(fd.Body, func(n ast.Node) bool {
		if bl, ok := n.(*ast.BasicLit); ok && bl.Kind == token.STRING {
			s := bl.Value
			if len(s) >= 2 {
				s = s[1 : len(s)-1]
			}
			r = append(r, s)
		}
		return true
	})
	return r
}

// intsIn returns the integer literals inside a function body, in source order.
func intsIn(fd *ast.FuncDecl, p *packages.Package) []string {
	var r []string
	ast.Inspect(fd.Body, func(n ast.Node) bool {
		if bl, ok := n.(*ast.BasicLit); ok && bl.Kind == token.INT {
			if tv, ok := p.TypesInfo.Types[bl]; ok && tv.Value != nil {
				r = append(r, tv.Value.ExactString())
			}
		}
		return true
	})
	return r
}

// verifyCalls lists, per function of a package, the first argument of every
// glow.Verify call (the key the signature is checked against) and the message.
func verifyCalls(p *packages.Package) [][3]string {
	var r [][3]string
	for _, f := range p.Syntax {
		name := filepath.Base(p.Fset.Position(f.Pos()).Filename)
		if strings.HasPrefix(name, "verif_") || strings.HasSuffix(name, "_test.go") || name == "testing.go" {
			continue
		}
		for _, d := range f.Decls {
			fd, ok := d.(*ast.FuncDecl)
			if !ok || fd.Body == nil {
				continue
			}
			ast.Inspect(fd.Body, func(n ast.Node) bool {
				c, ok := n.(*ast.CallExpr)
				if !ok {
					return true
				}
				if types.ExprString(c.Fun) == "glow.Verify" && len(c.Args) == 3 {
					r = append(r, [3]string{fd.Name.Name, types.ExprString(c.Args[0]), types.ExprString(c.Args[1])})
				}
				return true
			})
		}
	}
	sort.Slice(r, func(i, j int) bool {
		if r[i][0] != r[j][0] {
			return r[i][0] < r[j][0]
		}
		return false
	})
	return r
}

// layoutOf extracts (offset, width, source) triples from a Serialize-like
// function: binary.LittleEndian.PutUintN(buf[off:...], v) and
// copy(buf[off:...], v[:]) with constant offsets.
func layoutOf(fd *ast.FuncDecl, p *packages.Package) []string {
	var r []string
	constOf := func(e ast.Expr) (string, bool) {
		if e == nil {
			return "0", true
		}
		if tv, ok := p.TypesInfo.Types[e]; ok && tv.Value != nil {
			return tv.Value.ExactString(), true
		}
		return "", false
	}
	ast.Inspect(fd.Body, func(n ast.Node) bool {
		c, ok := n.(*ast.CallExpr)
		if !ok || len(c.Args) != 2 {
			return true
		}
		fn := types.ExprString(c.Fun)
		w := ""
		switch fn {
		case "binary.LittleEndian.PutUint16":
			w = "2"
		case "binary.LittleEndian.PutUint32":
			w = "4"
		case "binary.LittleEndian.PutUint64":
			w = "8"
		case "copy":
			w = "copy"
		default:
			return true
		}
		dst := c.Args[0]
		off := "?"
		base := types.ExprString(dst)
		if se, ok := dst.(*ast.SliceExpr); ok {
			base = types.ExprString(se.X)
			if o, ok := constOf(se.Low); ok {
				off = o
			} else {
				off = types.ExprString(se.Low)
			}
		}
		r = append(r, fmt.Sprintf("%s@%s:%s=%s", base, off, w, types.ExprString(c.Args[1])))
		return true
	})
	return r
}

// readLayoutOf extracts the reads of a Deserialize-like function.
func readLayoutOf(fd *ast.FuncDecl, p *packages.Package) []string {
	var r []string
	ast.Inspect(fd.Body, func(n ast.Node) bool {
		as, ok := n.(*ast.AssignStmt)
		if ok && len(as.Lhs) == 1 && len(as.Rhs) == 1 {
			r = append(r, "")
			r[len(r)-1] = types.ExprString(as.Lhs[0]) + "<-" + types.ExprString(as.Rhs[0])
		}
		if c, ok := n.(*ast.CallExpr); ok && types.ExprString(c.Fun) == "copy" && len(c.Args) == 2 {
			r = append(r, "copy:"+types.ExprString(c.Args[0])+"<-"+types.ExprString(c.Args[1]))
		}
		return true
	})
	return r
}

func stringListVar(p *packages.Package, name string) ([]string, bool) {
	for _, f := range p.Syntax {
		for _, d := range f.Decls {
			gd, ok := d.(*ast.GenDecl)
			if !ok {
				continue
			}
			for _, sp := range gd.Specs {
				vs, ok := sp.(*ast.ValueSpec)
				if !ok {
					continue
				}
				for i, n := range vs.Names {
					if n.Name != name || i >= len(vs.Values) {
						continue
					}
					cl, ok := vs.Values[i].(*ast.CompositeLit)
					if !ok {
						return nil, false
					}
					var r []string
					for _, e := range cl.Elts {
						tv, ok := p.TypesInfo.Types[e]
						if !ok || tv.Value == nil || tv.Value.Kind() != constant.String {
							return nil, false
						}
						r = append(r, constant.StringVal(tv.Value))
					}
					return r, true
				}
			}
		}
	}
	return nil, false
}

// callOrder returns, for a function, the source order of the named calls
// (used for "Allow() is consulted before any file is read" and for
// write-before-memory-update facts).
func callOrder(fd *ast.FuncDecl, names []string) []string {
	var r []string
	ast.Inspect(fd.Body, func(n ast.Node) bool {
		if c, ok := n.(*ast.CallExpr); ok {
			fn := types.ExprString(c.Fun)
			for _, want := range names {
				if fn == want || strings.HasSuffix(fn, "."+want) {
					r = append(r, want)
				}
			}
		}
		if as, ok := n.(*ast.AssignStmt); ok {
			for _, l := range as.Lhs {
				t := types.ExprString(l)
				for _, want := range names {
					if strings.HasPrefix(want, "=") && t == want[1:] {
						r = append(r, want)
					}
				}
			}
		}
		return true
	})
	return r
}

// fileUses lists, in source order, every call on a value of type *os.File ("file.Write") and every call
// that is handed such a value ("arg:WriteTo", "arg:Fprintf"); "@loop" marks calls inside a loop.
func fileUses(fd *ast.FuncDecl, p *packages.Package) []string {
	return typedUses(fd, p, "*os.File", "file")
}

// typedUses is fileUses for any type: calls on, and calls handed, a value whose type prints as typ.
func typedUses(fd *ast.FuncDecl, p *packages.Package, typ, label string) []string {
	var r []string
	isFile := func(e ast.Expr) bool {
		t := p.TypesInfo.TypeOf(e)
		return t != nil && t.String() == typ
	}
	var walk func(n ast.Node, loop bool)
	walk = func(n ast.Node, loop bool) {
		ast.Inspect(n, func(m ast.Node) bool {
			switch x := m.(type) {
			case *ast.ForStmt:
				if m != n {
					walk(x.Body, true)
					return false
				}
			case *ast.RangeStmt:
				if m != n {
					walk(x.Body, true)
					return false
				}
			case *ast.CallExpr:
				suffix := ""
				if loop {
					suffix = "@loop"
				}
				if sel, ok := x.Fun.(*ast.SelectorExpr); ok && isFile(sel.X) {
					r = append(r, label+"."+sel.Sel.Name+suffix)
				}
				for _, a := range x.Args {
					if isFile(a) {
						name := types.ExprString(x.Fun)
						if i := strings.LastIndex(name, "."); i >= 0 {
							name = name[i+1:]
						}
						r = append(r, "arg:"+name+suffix)
					}
				}
			}
			return true
		})
	}
	walk(fd.Body, false)
	return r
}

func writeIfChanged(path string, content string) bool {
	old, err := os.ReadFile(path)
	if err == nil && string(old) == content {
		return false
	}
	os.MkdirAll(filepath.Dir(path), 0755)
	if err := os.WriteFile(path, []byte(content), 0644); err != nil {
		fatal("write %s: %v", path, err)
	}
	return true
}

// recvAssigns lists, in source order, every assignment in fd whose left side is a field of the receiver or
// parameter named recv, as "<lhs>=<rhs>" with both sides printed as written.
func recvAssigns(fd *ast.FuncDecl, recv string) []string {
	var r []string
	ast.Inspect(fd.Body, func(n ast.Node) bool {
		as, ok := n.(*ast.AssignStmt)
		if !ok || len(as.Lhs) != len(as.Rhs) {
			return true
		}
		for i, l := range as.Lhs {
			if sel, ok := l.(*ast.SelectorExpr); ok {
				if id, ok := sel.X.(*ast.Ident); ok && id.Name == recv {
					r = append(r, types.ExprString(l)+"="+types.ExprString(as.Rhs[i]))
				}
			}
		}
		return true
	})
	return r
}
