// Command extract is the translator half of the tie between /repo and the
// Lean model: it reads the current working tree with go/packages (full type
// information) and writes Lean definitions that transcribe, type-directed,
// the integer guards, conversions, constants, layouts, signing prefixes, key
// sources and file order that the properties depend on. The Lean side proves
// `generated = specification` for each of them (Gca/Tie/*.lean).
package main

import (
	"fmt"
	"go/ast"
	"go/constant"
	"go/token"
	"go/types"
	"os"
	"path/filepath"
	"sort"
	"strings"

	"golang.org/x/tools/go/packages"
)

var repo = "/repo"

type loaded struct {
	pkgs map[string]*packages.Package // by last path element
}

func load(tags string) *loaded {
	cfg := &packages.Config{
		Mode: packages.NeedName | packages.NeedFiles | packages.NeedSyntax | packages.NeedTypes | packages.NeedTypesInfo | packages.NeedImports | packages.NeedDeps,
		Dir:  repo,
	}
	if tags != "" {
		cfg.BuildFlags = []string{"-tags=" + tags}
	}
	ps, err := packages.Load(cfg, "./glow", "./server", "./client")
	if err != nil {
		fatal("load: %v", err)
	}
	l := &loaded{pkgs: map[string]*packages.Package{}}
	for _, p := range ps {
		if len(p.Errors) > 0 {
			fatal("package %s has errors: %v", p.PkgPath, p.Errors)
		}
		l.pkgs[filepath.Base(p.PkgPath)] = p
	}
	return l
}

func fatal(f string, a ...interface{}) {
	fmt.Fprintf(os.Stderr, "extract: "+f+"\n", a...)
	os.Exit(2)
}

// findFunc returns the declaration of a function or method by name
// ("Recv.Name" or "Name").
func (l *loaded) findFunc(pkg, name string) (*ast.FuncDecl, *packages.Package) {
	p := l.pkgs[pkg]
	if p == nil {
		return nil, nil
	}
	for _, f := range p.Syntax {
		for _, d := range f.Decls {
			fd, ok := d.(*ast.FuncDecl)
			if !ok {
				continue
			}
			n := fd.Name.Name
			if fd.Recv != nil && len(fd.Recv.List) == 1 {
				t := fd.Recv.List[0].Type
				if st, ok := t.(*ast.StarExpr); ok {
					t = st.X
				}
				if id, ok := t.(*ast.Ident); ok {
					if id.Name+"."+n == name {
						return fd, p
					}
				}
			}
			if n == name {
				return fd, p
			}
		}
	}
	return nil, nil
}

// ---------------------------------------------------------------------------
// Expression translation

type leaf struct {
	Lean string // parameter name
	Type string // Lean type, e.g. "BitVec 32" or "Bool"
}

type val struct {
	Lean string      // Lean term
	T    types.Type  // Go type (nil for Bool results of comparisons on non-basic types)
}

type tr struct {
	p      *packages.Package
	leaves map[string]leaf
	used   map[string]bool
	env    map[string]val // local variable name -> symbolic value
	notes  []string
}

type untranslatable struct{ why string }

func (t *tr) fail(f string, a ...interface{}) { panic(untranslatable{fmt.Sprintf(f, a...)}) }

func width(ty types.Type) (w int, signed bool, ok bool) {
	b, isb := ty.Underlying().(*types.Basic)
	if !isb {
		return 0, false, false
	}
	switch b.Kind() {
	case types.Uint8:
		return 8, false, true
	case types.Uint16:
		return 16, false, true
	case types.Uint32:
		return 32, false, true
	case types.Uint64, types.Uint, types.Uintptr:
		return 64, false, true
	case types.Int8:
		return 8, true, true
	case types.Int16:
		return 16, true, true
	case types.Int32:
		return 32, true, true
	case types.Int64, types.Int:
		return 64, true, true
	}
	return 0, false, false
}

func isBool(ty types.Type) bool {
	b, ok := ty.Underlying().(*types.Basic)
	return ok && (b.Kind() == types.Bool || b.Kind() == types.UntypedBool)
}

// timeLike: time.Time and time.Duration are carried as 64-bit signed integers
// (nanoseconds on one monotonic axis).
func timeLike(ty types.Type) bool {
	s := ty.String()
	return s == "time.Time" || s == "time.Duration"
}

func constLit(v constant.Value, ty types.Type) (string, bool) {
	w, signed, ok := width(ty)
	if !ok {
		if timeLike(ty) {
			w, signed = 64, true
		} else {
			return "", false
		}
	}
	if v.Kind() != constant.Int {
		// float constants that are whole numbers (e.g. 1e3)
		v = constant.ToInt(v)
		if v.Kind() != constant.Int {
			return "", false
		}
	}
	s := v.ExactString()
	if strings.HasPrefix(s, "-") {
		if !signed {
			return "", false
		}
		return fmt.Sprintf("(-(%s#%d))", s[1:], w), true
	}
	return fmt.Sprintf("(%s#%d)", s, w), true
}

func (t *tr) typeOf(e ast.Expr) types.Type {
	tv, ok := t.p.TypesInfo.Types[e]
	if !ok {
		if id, ok := e.(*ast.Ident); ok {
			if o := t.p.TypesInfo.ObjectOf(id); o != nil {
				return o.Type()
			}
		}
		t.fail("no type for %s", types.ExprString(e))
	}
	return tv.Type
}

func norm(s string) string { return strings.ReplaceAll(s, " ", "") }

// leafFits checks that the Go type of e has the width the leaf was declared
// with (two variables of the same name but different types are not confused).
func (t *tr) leafFits(e ast.Expr, lf leaf) bool {
	ty := t.typeOf(e)
	if lf.Type == "Bool" {
		return isBool(ty)
	}
	w, _, ok := width(ty)
	if !ok && timeLike(ty) {
		w, ok = 64, true
	}
	return ok && lf.Type == fmt.Sprintf("BitVec %d", w)
}

func (t *tr) expr(e ast.Expr) val {
	txt := types.ExprString(e)
	if lf, ok := t.leaves[norm(txt)]; ok && t.leafFits(e, lf) {
		t.used[txt] = true
		return val{lf.Lean, t.typeOf(e)}
	}
	if tv, ok := t.p.TypesInfo.Types[e]; ok && tv.Value != nil {
		if isBool(tv.Type) {
			if constant.BoolVal(tv.Value) {
				return val{"true", tv.Type}
			}
			return val{"false", tv.Type}
		}
		if s, ok := constLit(tv.Value, tv.Type); ok {
			return val{s, tv.Type}
		}
		t.fail("constant %s of type %s", txt, tv.Type)
	}
	switch x := e.(type) {
	case *ast.ParenExpr:
		return t.expr(x.X)
	case *ast.Ident:
		if v, ok := t.env[x.Name]; ok {
			return v
		}
		t.fail("unbound identifier %s", x.Name)
	case *ast.UnaryExpr:
		a := t.expr(x.X)
		switch x.Op {
		case token.NOT:
			return val{"(!" + a.Lean + ")", a.T}
		case token.SUB:
			return val{"(-" + a.Lean + ")", a.T}
		}
		t.fail("unary %s", x.Op)
	case *ast.BinaryExpr:
		return t.binary(x)
	case *ast.CallExpr:
		return t.call(x)
	}
	t.fail("expression %s (%T)", txt, e)
	return val{}
}

func (t *tr) binary(x *ast.BinaryExpr) val {
	resT := t.typeOf(x)
	switch x.Op {
	case token.LAND:
		a, b := t.expr(x.X), t.expr(x.Y)
		return val{"(" + a.Lean + " && " + b.Lean + ")", resT}
	case token.LOR:
		a, b := t.expr(x.X), t.expr(x.Y)
		return val{"(" + a.Lean + " || " + b.Lean + ")", resT}
	}
	a, b := t.expr(x.X), t.expr(x.Y)
	opT := t.typeOf(x.X)
	if tv, ok := t.p.TypesInfo.Types[x.X]; ok && tv.Value != nil {
		opT = t.typeOf(x.Y)
	}
	_, signed, ok := width(opT)
	if !ok {
		if timeLike(opT) {
			signed = true
		} else if isBool(opT) && (x.Op == token.EQL || x.Op == token.NEQ) {
			if x.Op == token.EQL {
				return val{"(" + a.Lean + " == " + b.Lean + ")", resT}
			}
			return val{"(" + a.Lean + " != " + b.Lean + ")", resT}
		} else {
			t.fail("operand type %s in %s", opT, types.ExprString(x))
		}
	}
	cmp := func(u, s string, swap bool) val {
		f := u
		if signed {
			f = s
		}
		l, r := a.Lean, b.Lean
		if swap {
			l, r = r, l
		}
		return val{fmt.Sprintf("(BitVec.%s %s %s)", f, l, r), resT}
	}
	switch x.Op {
	case token.LSS:
		return cmp("ult", "slt", false)
	case token.GTR:
		return cmp("ult", "slt", true)
	case token.LEQ:
		return cmp("ule", "sle", false)
	case token.GEQ:
		return cmp("ule", "sle", true)
	case token.EQL:
		return val{"(" + a.Lean + " == " + b.Lean + ")", resT}
	case token.NEQ:
		return val{"(" + a.Lean + " != " + b.Lean + ")", resT}
	case token.ADD:
		return val{"(" + a.Lean + " + " + b.Lean + ")", resT}
	case token.SUB:
		return val{"(" + a.Lean + " - " + b.Lean + ")", resT}
	case token.MUL:
		return val{"(" + a.Lean + " * " + b.Lean + ")", resT}
	case token.AND:
		return val{"(" + a.Lean + " &&& " + b.Lean + ")", resT}
	case token.OR:
		return val{"(" + a.Lean + " ||| " + b.Lean + ")", resT}
	case token.QUO, token.REM:
		// only constant non-zero divisors: Go panics on zero, BitVec does not
		tv, ok := t.p.TypesInfo.Types[x.Y]
		if !ok || tv.Value == nil || constant.Sign(tv.Value) == 0 {
			t.fail("division by a non-constant or zero divisor in %s", types.ExprString(x))
		}
		var f string
		switch {
		case x.Op == token.QUO && signed:
			f = "BitVec.sdiv"
		case x.Op == token.QUO:
			f = "BitVec.udiv"
		case signed:
			f = "BitVec.srem"
		default:
			f = "BitVec.umod"
		}
		return val{fmt.Sprintf("(%s %s %s)", f, a.Lean, b.Lean), resT}
	case token.SHL:
		// shift count is taken as a natural number
		return val{fmt.Sprintf("(%s <<< (%s).toNat)", a.Lean, b.Lean), resT}
	case token.SHR:
		if signed {
			return val{fmt.Sprintf("(BitVec.sshiftRight %s (%s).toNat)", a.Lean, b.Lean), resT}
		}
		return val{fmt.Sprintf("(%s >>> (%s).toNat)", a.Lean, b.Lean), resT}
	}
	t.fail("binary operator %s", x.Op)
	return val{}
}

func (t *tr) convert(a val, to types.Type) val {
	fw, fsigned, ok1 := width(a.T)
	if !ok1 && timeLike(a.T) {
		fw, fsigned, ok1 = 64, true, true
	}
	tw, _, ok2 := width(to)
	if !ok2 && timeLike(to) {
		tw, ok2 = 64, true
	}
	if !ok1 || !ok2 {
		t.fail("conversion from %s to %s", a.T, to)
	}
	switch {
	case tw == fw:
		return val{a.Lean, to}
	case tw < fw:
		return val{fmt.Sprintf("(BitVec.setWidth %d %s)", tw, a.Lean), to}
	case fsigned:
		return val{fmt.Sprintf("(BitVec.signExtend %d %s)", tw, a.Lean), to}
	default:
		return val{fmt.Sprintf("(BitVec.setWidth %d %s)", tw, a.Lean), to}
	}
}

func (t *tr) call(x *ast.CallExpr) val {
	// conversion T(e)
	if tv, ok := t.p.TypesInfo.Types[x.Fun]; ok && tv.IsType() && len(x.Args) == 1 {
		return t.convert(t.expr(x.Args[0]), tv.Type)
	}
	// time methods
	if sel, ok := x.Fun.(*ast.SelectorExpr); ok {
		recvT, hasT := t.p.TypesInfo.Types[sel.X]
		if hasT && timeLike(recvT.Type) {
			switch sel.Sel.Name {
			case "After":
				a, b := t.expr(sel.X), t.expr(x.Args[0])
				return val{fmt.Sprintf("(BitVec.slt %s %s)", b.Lean, a.Lean), t.typeOf(x)}
			case "Before":
				a, b := t.expr(sel.X), t.expr(x.Args[0])
				return val{fmt.Sprintf("(BitVec.slt %s %s)", a.Lean, b.Lean), t.typeOf(x)}
			case "Add":
				a, b := t.expr(sel.X), t.expr(x.Args[0])
				return val{"(" + a.Lean + " + " + b.Lean + ")", t.typeOf(x)}
			}
		}
	}
	t.fail("call %s", types.ExprString(x))
	return val{}
}

// ---------------------------------------------------------------------------
// Statement walking: a small symbolic executor over straight-line code.

type cond struct {
	Lean string
	Src  string
	Kind string // "if", "if-exit", "for"
}

type walker struct {
	*tr
	conds   []cond
	rets    [][]string // translated results of return statements
	retSrc  []string
	indexes map[string][]string // indexed expression text -> translated index terms (distinct)
	skipped []string
	skippedConds []string // text of the conditions that could not be translated (pinned as a shape fact)
	captured map[string]val
	fields  map[string]string
	wantFields []string
}

func endsInExit(b *ast.BlockStmt) bool {
	if len(b.List) == 0 {
		return false
	}
	switch s := b.List[len(b.List)-1].(type) {
	case *ast.ReturnStmt:
		return true
	case *ast.BranchStmt:
		return s.Tok == token.BREAK || s.Tok == token.CONTINUE
	case *ast.ExprStmt:
		if c, ok := s.X.(*ast.CallExpr); ok {
			if id, ok := c.Fun.(*ast.Ident); ok && id.Name == "panic" {
				return true
			}
		}
	}
	return false
}

func (w *walker) try(f func()) (err string) {
	defer func() {
		if r := recover(); r != nil {
			if u, ok := r.(untranslatable); ok {
				err = u.why
				return
			}
			panic(r)
		}
	}()
	f()
	return ""
}

func copyEnv(e map[string]val) map[string]val {
	c := make(map[string]val, len(e))
	for k, v := range e {
		c[k] = v
	}
	return c
}

func (w *walker) assign(lhs []ast.Expr, rhs []ast.Expr, guard string) {
	w.assignT(lhs, rhs, guard, false)
}

func (w *walker) assignT(lhs []ast.Expr, rhs []ast.Expr, guard string, define bool) {
	if define {
		guard = ""
	}
	// bits.Mul64 / bits.Div64
	if len(rhs) == 1 {
		if c, ok := rhs[0].(*ast.CallExpr); ok {
			fn := types.ExprString(c.Fun)
			if fn == "bits.Mul64" && len(lhs) == 2 {
				var a, b val
				if e := w.try(func() { a, b = w.expr(c.Args[0]), w.expr(c.Args[1]) }); e != "" {
					w.forget(lhs)
					return
				}
				u64 := types.Typ[types.Uint64]
				prod := fmt.Sprintf("(BitVec.setWidth 128 %s * BitVec.setWidth 128 %s)", a.Lean, b.Lean)
				w.bind(lhs[0], val{fmt.Sprintf("(BitVec.setWidth 64 (%s >>> 64))", prod), u64}, guard)
				w.bind(lhs[1], val{fmt.Sprintf("(BitVec.setWidth 64 %s)", prod), u64}, guard)
				return
			}
			if fn == "bits.Div64" && len(lhs) == 2 {
				var hi, lo, y val
				if e := w.try(func() { hi, lo, y = w.expr(c.Args[0]), w.expr(c.Args[1]), w.expr(c.Args[2]) }); e != "" {
					w.forget(lhs)
					return
				}
				u64 := types.Typ[types.Uint64]
				n := fmt.Sprintf("((BitVec.setWidth 128 %s <<< 64) ||| BitVec.setWidth 128 %s)", hi.Lean, lo.Lean)
				y128 := fmt.Sprintf("(BitVec.setWidth 128 %s)", y.Lean)
				// Go panics unless y != 0 and hi < y; recorded as a note, the Lean side
				// proves the guard from the enclosing condition.
				w.notes = append(w.notes, "bits.Div64 requires hi < y: "+types.ExprString(c))
				w.bind(lhs[0], val{fmt.Sprintf("(BitVec.setWidth 64 (BitVec.udiv %s %s))", n, y128), u64}, guard)
				w.bind(lhs[1], val{fmt.Sprintf("(BitVec.setWidth 64 (BitVec.umod %s %s))", n, y128), u64}, guard)
				return
			}
		}
	}
	if len(lhs) != len(rhs) {
		w.forget(lhs)
		return
	}
	vals := make([]val, len(rhs))
	for i := range rhs {
		i := i
		if e := w.try(func() { vals[i] = w.expr(rhs[i]) }); e != "" {
			w.forgetOne(lhs[i])
			vals[i] = val{}
		}
	}
	for i := range lhs {
		if vals[i].Lean != "" {
			w.bind(lhs[i], vals[i], guard)
		}
	}
}

func (w *walker) forget(lhs []ast.Expr) {
	for _, l := range lhs {
		w.forgetOne(l)
	}
}

func (w *walker) forgetOne(l ast.Expr) {
	if id, ok := l.(*ast.Ident); ok {
		delete(w.env, id.Name)
	}
}

// bind sets a local; under a guard (assignment inside an `if` without exit) the
// new value is a conditional on the old one.
func (w *walker) bind(l ast.Expr, v val, guard string) {
	id, ok := l.(*ast.Ident)
	if !ok || id.Name == "_" {
		return
	}
	if guard != "" {
		old, have := w.env[id.Name]
		if !have {
			delete(w.env, id.Name)
			return
		}
		v = val{fmt.Sprintf("(if %s then %s else %s)", guard, v.Lean, old.Lean), v.T}
	}
	w.env[id.Name] = v
	if w.captured == nil {
		w.captured = map[string]val{}
	}
	w.captured[id.Name] = v
}

func (w *walker) noteIndexes(n ast.Node) {
	ast.Inspect(n, func(m ast.Node) bool {
		if kv, ok := m.(*ast.KeyValueExpr); ok {
			if id, ok := kv.Key.(*ast.Ident); ok {
				for _, f := range w.wantFields {
					if f == id.Name {
						var v val
						if e := w.try(func() { v = w.expr(kv.Value) }); e == "" {
							if w.fields == nil {
								w.fields = map[string]string{}
							}
							w.fields[f] = v.Lean
						}
					}
				}
			}
		}
		ix, ok := m.(*ast.IndexExpr)
		if !ok {
			return true
		}
		base := norm(types.ExprString(ix.X))
		var v val
		if e := w.try(func() { v = w.expr(ix.Index) }); e == "" {
			found := false
			for _, s := range w.indexes[base] {
				if s == v.Lean {
					found = true
				}
			}
			if !found {
				w.indexes[base] = append(w.indexes[base], v.Lean)
			}
		}
		return true
	})
}

func (w *walker) stmts(list []ast.Stmt, guard string) {
	for _, s := range list {
		w.stmt(s, guard)
	}
}

func (w *walker) stmt(s ast.Stmt, guard string) {
	switch x := s.(type) {
	case *ast.AssignStmt:
		w.noteIndexes(x)
		if x.Tok == token.ASSIGN || x.Tok == token.DEFINE {
			w.assignT(x.Lhs, x.Rhs, guard, x.Tok == token.DEFINE)
		} else {
			w.forget(x.Lhs)
		}
	case *ast.DeclStmt:
		if gd, ok := x.Decl.(*ast.GenDecl); ok {
			for _, sp := range gd.Specs {
				if vs, ok := sp.(*ast.ValueSpec); ok && len(vs.Values) == len(vs.Names) && len(vs.Names) > 0 {
					lhs := make([]ast.Expr, len(vs.Names))
					for i, n := range vs.Names {
						lhs[i] = n
					}
					w.assignT(lhs, vs.Values, guard, true)
				} else if ok && len(vs.Values) == 0 {
					for _, n := range vs.Names {
						if o := w.p.TypesInfo.ObjectOf(n); o != nil {
							if wd, _, ok := width(o.Type()); ok {
								w.bind(n, val{fmt.Sprintf("(0#%d)", wd), o.Type()}, "")
							}
						}
					}
				}
			}
		}
	case *ast.IncDecStmt:
		w.forgetOne(x.X)
	case *ast.ExprStmt:
		w.noteIndexes(x)
	case *ast.ReturnStmt:
		w.noteIndexes(x)
		var rs []string
		for _, r := range x.Results {
			var v val
			if e := w.try(func() { v = w.expr(r) }); e != "" {
				rs = append(rs, "")
				continue
			}
			rs = append(rs, v.Lean)
		}
		if len(rs) > 0 {
			w.rets = append(w.rets, rs)
			w.retSrc = append(w.retSrc, types.ExprString(x.Results[0]))
		}
	case *ast.IfStmt:
		if x.Init != nil {
			w.stmt(x.Init, guard)
		}
		w.noteIndexes(x.Cond)
		var c val
		e := w.try(func() { c = w.expr(x.Cond) })
		if e != "" {
			w.skipped = append(w.skipped, types.ExprString(x.Cond)+": "+e)
			w.skippedConds = append(w.skippedConds, types.ExprString(x.Cond))
			// still walk the bodies for nested conditions, but whatever they assign is unknown afterwards
			saved := copyEnv(w.env)
			w.stmts(x.Body.List, "")
			if x.Else != nil {
				w.stmt(x.Else, "")
			}
			w.env = saved
			w.invalidateAssigned(x)
			return
		}
		exit := endsInExit(x.Body)
		kind := "if"
		if exit && x.Else == nil {
			kind = "if-exit"
		}
		w.conds = append(w.conds, cond{c.Lean, types.ExprString(x.Cond), kind})
		if exit && x.Else == nil {
			saved := copyEnv(w.env)
			w.stmts(x.Body.List, "")
			w.env = saved
			return
		}
		g := c.Lean
		if guard != "" {
			g = "(" + guard + " && " + c.Lean + ")"
		}
		if x.Else == nil {
			w.stmts(x.Body.List, g)
			return
		}
		// if/else: walk both with their guards (assignments become conditionals)
		w.stmts(x.Body.List, g)
		ng := "(!" + c.Lean + ")"
		if guard != "" {
			ng = "(" + guard + " && " + ng + ")"
		}
		w.stmt(x.Else, ng)
	case *ast.BlockStmt:
		w.stmts(x.List, guard)
	case *ast.ForStmt:
		if x.Init != nil {
			// loop variables are unknown (they change per iteration) unless a leaf names them
			if as, ok := x.Init.(*ast.AssignStmt); ok {
				w.forget(as.Lhs)
			}
		}
		if x.Cond != nil {
			var c val
			if e := w.try(func() { c = w.expr(x.Cond) }); e == "" {
				w.conds = append(w.conds, cond{c.Lean, types.ExprString(x.Cond), "for"})
			} else {
				w.skipped = append(w.skipped, types.ExprString(x.Cond)+": "+e)
				w.skippedConds = append(w.skippedConds, types.ExprString(x.Cond))
			}
		}
		w.invalidateAssigned(x.Body)
		saved := copyEnv(w.env)
		w.stmts(x.Body.List, "")
		w.env = saved
		w.invalidateAssigned(x.Body)
	case *ast.RangeStmt:
		if x.Key != nil {
			w.forgetOne(x.Key)
		}
		if x.Value != nil {
			w.forgetOne(x.Value)
		}
		w.invalidateAssigned(x.Body)
		saved := copyEnv(w.env)
		w.stmts(x.Body.List, "")
		w.env = saved
		w.invalidateAssigned(x.Body)
	case *ast.DeferStmt, *ast.GoStmt, *ast.BranchStmt, *ast.EmptyStmt:
	case *ast.SwitchStmt, *ast.SelectStmt, *ast.TypeSwitchStmt, *ast.LabeledStmt:
		w.invalidateAssigned(s)
	}
	// function literals (goroutine bodies) are walked as nested code
	switch x := s.(type) {
	case *ast.ExprStmt:
		w.funcLits(x, guard)
	case *ast.GoStmt:
		w.funcLits(x, guard)
	case *ast.DeferStmt:
		w.funcLits(x, guard)
	}
}

func (w *walker) funcLits(n ast.Node, guard string) {
	ast.Inspect(n, func(m ast.Node) bool {
		if fl, ok := m.(*ast.FuncLit); ok {
			saved := copyEnv(w.env)
			w.stmts(fl.Body.List, "")
			w.env = saved
			return false
		}
		return true
	})
}

// invalidateAssigned forgets every local that is assigned anywhere inside n.
func (w *walker) invalidateAssigned(n ast.Node) {
	ast.Inspect(n, func(m ast.Node) bool {
		switch x := m.(type) {
		case *ast.AssignStmt:
			if x.Tok != token.DEFINE {
				w.forget(x.Lhs)
			}
		case *ast.IncDecStmt:
			w.forgetOne(x.X)
		}
		return true
	})
}

// ---------------------------------------------------------------------------
// Targets

type target struct {
	Name   string // Lean namespace
	Tags   string
	Pkg    string
	Func   string
	Leaves map[string]leaf
	Locals []string // locals whose final symbolic value is emitted
	Index  []string // indexed expressions whose (single) index term is emitted
	Fields []string // composite-literal fields whose value term is emitted
}

func bv(n int) string { return fmt.Sprintf("BitVec %d", n) }

func emitTarget(out *strings.Builder, ld *loaded, tg target, report *[]string) {
	fd, p := ld.findFunc(tg.Pkg, tg.Func)
	fmt.Fprintf(out, "\n/- %s.%s (build tags: %q) -/\nnamespace %s\n", tg.Pkg, tg.Func, tg.Tags, tg.Name)
	if fd == nil || fd.Body == nil {
		fmt.Fprintf(out, "-- anchor not found\nend %s\n", tg.Name)
		*report = append(*report, fmt.Sprintf("%s: anchor %s.%s NOT FOUND", tg.Name, tg.Pkg, tg.Func))
		return
	}
	nl := map[string]leaf{}
	for k, v := range tg.Leaves {
		nl[norm(k)] = v
	}
	w := &walker{tr: &tr{p: p, leaves: nl, used: map[string]bool{}, env: map[string]val{}}, indexes: map[string][]string{}, wantFields: tg.Fields}
	w.stmts(fd.Body.List, "")
	// parameter list: all leaves in a fixed (sorted by Lean name) order, so that
	// signatures are stable whichever leaves a particular condition uses
	type pl struct{ n, t string }
	seen := map[string]bool{}
	var params []pl
	for _, lf := range tg.Leaves {
		if !seen[lf.Lean] {
			seen[lf.Lean] = true
			params = append(params, pl{lf.Lean, lf.Type})
		}
	}
	sort.Slice(params, func(i, j int) bool { return params[i].n < params[j].n })
	var sig strings.Builder
	for _, q := range params {
		fmt.Fprintf(&sig, " (%s : %s)", q.n, q.t)
	}
	for i, c := range w.conds {
		fmt.Fprintf(out, "/-- %s `%s` -/\ndef c%d%s : Bool := %s\n", c.Kind, c.Src, i, sig.String(), c.Lean)
	}
	fmt.Fprintf(out, "def condKinds : List String := %s\n", leanStrList(func() []string {
		var k []string
		for _, c := range w.conds {
			k = append(k, c.Kind)
		}
		return k
	}()))
	for i, rs := range w.rets {
		for j, r := range rs {
			if r == "" {
				continue
			}
			fmt.Fprintf(out, "/-- result %d of `return %s ...` -/\ndef ret%d_%d%s := %s\n", j, w.retSrc[i], i, j, sig.String(), r)
		}
	}
	for _, l := range tg.Locals {
		v, ok := w.env[l]
		if !ok {
			v, ok = w.captured[l]
		}
		if ok {
			fmt.Fprintf(out, "def local_%s%s := %s\n", l, sig.String(), v.Lean)
		} else {
			fmt.Fprintf(out, "-- local %s: not available\n", l)
			*report = append(*report, fmt.Sprintf("%s: local %s not available", tg.Name, l))
		}
	}
	for k, base := range tg.Index {
		ix := w.indexes[norm(base)]
		if len(ix) == 1 {
			fmt.Fprintf(out, "/-- the index applied to `%s` -/\ndef index%d%s := %s\n", base, k, sig.String(), ix[0])
		} else {
			fmt.Fprintf(out, "-- index of %s: %d distinct index terms\n", base, len(ix))
			*report = append(*report, fmt.Sprintf("%s: %d distinct index terms for %s", tg.Name, len(ix), base))
		}
	}
	for _, f := range tg.Fields {
		if v, ok := w.fields[f]; ok {
			fmt.Fprintf(out, "/-- value of composite-literal field `%s` -/\ndef field_%s%s := %s\n", f, f, sig.String(), v)
		} else {
			fmt.Fprintf(out, "-- field %s: not available\n", f)
			*report = append(*report, fmt.Sprintf("%s: field %s not available", tg.Name, f))
		}
	}
	for _, s := range w.skipped {
		fmt.Fprintf(out, "-- not translated: %s\n", strings.ReplaceAll(s, "\n", " "))
	}
	for i := range w.skippedConds {
		w.skippedConds[i] = strings.Join(strings.Fields(w.skippedConds[i]), " ")
	}
	fmt.Fprintf(out, "/-- the conditions of this function that are outside the translated fragment, in source order -/\ndef untranslated : List String := %s\n", leanStrList(w.skippedConds))
	for _, s := range w.notes {
		fmt.Fprintf(out, "-- note: %s\n", s)
	}
	fmt.Fprintf(out, "end %s\n", tg.Name)
	*report = append(*report, fmt.Sprintf("%s: %d conditions, %d returns, %d skipped", tg.Name, len(w.conds), len(w.rets), len(w.skipped)))
}

func leanStr(s string) string {
	return "\"" + strings.ReplaceAll(strings.ReplaceAll(s, "\\", "\\\\"), "\"", "\\\"") + "\""
}

func leanStrList(ss []string) string {
	q := make([]string, len(ss))
	for i, s := range ss {
		q[i] = leanStr(s)
	}
	return "[" + strings.Join(q, ", ") + "]"
}
