#!/bin/sh
# usage: [MUTROOT=/tmp/mut] [LETTERS="A B"] mutbatch.sh <out> <id...>
# runs every seeded change of the given properties against its check (apply, check, undo)
OUT="$1"; shift
ROOT="${MUTROOT:-/tmp/mut}"; LET="${LETTERS:-A B}"
for ID in "$@"; do
  for M in $LET; do
    P=$ROOT/$ID-out/$M.patch.diff
    [ -f "$P" ] || continue
    echo "== $ID-$M" >> "$OUT"
    /verif/mutest.sh "$P" "$ID" >> "$OUT" 2>&1
  done
done
echo "== DONE" >> "$OUT"
