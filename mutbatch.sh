#!/bin/sh
# usage: mutbatch.sh <out> <id...>   runs every seeded mutation of the given properties against its check
OUT="$1"; shift
for ID in "$@"; do
  for M in A B; do
    P=/tmp/mut/$ID-out/$M.patch.diff
    [ -f "$P" ] || continue
    echo "== $ID-$M" >> "$OUT"
    /verif/mutest.sh "$P" "$ID" >> "$OUT" 2>&1
  done
done
echo "== DONE" >> "$OUT"
