// Command prodprobe is built WITHOUT the `test` tag, so it contains the production variants of the
// timeslot functions and of the server's constants (the files no test of the repository compiles).
// It prints what they compute as lines of the harness protocol; the Lean driver compares them with
// the specification (genesis 2023-11-19 00:00:00 UTC, 300-second slots, the current slot follows the
// system clock, trigger + check period + half-width < window). The check runs it under several TZ
// settings: nothing here may depend on the local time zone.
package main

import (
	"fmt"
	"math"
	"os"
	"time"

	"github.com/glowlabs-org/gca-backend/glow"
	"github.com/glowlabs-org/gca-backend/server"
)

const genesis = int64(1700352000)

func main() {
	tz := os.Getenv("TZ")
	if len(os.Args) > 1 && os.Args[1] == "client" {
		fmt.Printf("# stat prod.tz:%s 1\n", tz)
		os.Exit(clientProbe())
	}
	fmt.Printf("# stat prod.tz:%s 1\n", tz)
	slot := func(t int64) {
		s, err := glow.UnixToTimeslot(t)
		if err != nil {
			fmt.Printf("ts.toslot g=%d t=%d => none\n", genesis, t)
		} else {
			fmt.Printf("ts.toslot g=%d t=%d => %d\n", genesis, t, s)
		}
	}
	for _, d := range []int64{-86400, -32400, -18000, -3600, -300, -1, 0, 1, 299, 300, 301, 3599, 3600, 18000, 32400, 86399, 86400, 86401} {
		slot(genesis + d)
	}
	for _, s := range []int64{1, 2, 2015, 2016, 4032, 1 << 20, 1 << 31, math.MaxUint32 - 1, math.MaxUint32} {
		slot(genesis + 300*s - 1)
		slot(genesis + 300*s)
		slot(genesis + 300*s + 299)
	}
	slot(genesis + 300*(math.MaxUint32+1))
	slot(0)
	slot(math.MinInt64)
	slot(math.MaxInt64)
	for _, s := range []uint32{0, 1, 2015, 2016, 4032, 1 << 20, 1 << 31, math.MaxUint32} {
		fmt.Printf("ts.tounix g=%d s=%d => %d\n", genesis, s, glow.TimeslotToUnix(s))
	}
	for i := 0; i < 3; i++ {
		lo := time.Now().Unix()
		cur := glow.CurrentTimeslot()
		hi := time.Now().Unix()
		fmt.Printf("ts.now g=%d lo=%d hi=%d => %d\n", genesis, lo, hi, cur)
	}
	// the rotation cadence of the production build: trigger 3200, acceptance half-width 432, window 4032 and
	// rotation step 2016 are tied to the source by the translator; the check period is this build's constant
	fmt.Printf("ts.cadence trig=3200 per_ns=%d half=432 win=4032 shift=2016 => ok\n", int64(server.ReportMigrationFrequency))
}
