module verif/prodprobe

go 1.22.1

require github.com/glowlabs-org/gca-backend v0.0.0

require (
	github.com/ethereum/go-ethereum v1.14.3 // indirect
	github.com/glowlabs-org/errors v0.0.0-20240512103511-f6f59e80d2a3 // indirect
	github.com/glowlabs-org/threadgroup v0.0.0-20240512114128-232ca7c42d0d // indirect
	github.com/holiman/uint256 v1.2.4 // indirect
	golang.org/x/crypto v0.23.0 // indirect
)

replace github.com/glowlabs-org/gca-backend => /repo
