package main

// The client part of the production probe: the calibration loader of a build WITHOUT the `test` tag (whose
// defaults differ from the test build's: multiplier -2000, divider 1000), run on real directories with the
// calibration file absent, valid, fractional, malformed, short and with a zero divider. Each line gives the
// model what strconv makes of the first two lines of the file and the defaults THE SPECIFICATION names (not
// the build's constants: those are pinned by the tie obligation calibration_defaults_prod), and shows what the
// real loader left in the client. Needs the verif hooks (VerifNewClientNoLoop, VerifCalibration), so the
// probe is built with -tags verif - still without `test`.

import (
	"encoding/binary"
	"fmt"
	"math"
	"os"
	"path/filepath"
	"strconv"
	"strings"

	"github.com/glowlabs-org/gca-backend/client"
	"github.com/glowlabs-org/gca-backend/glow"
)

const (
	specMultiplierDefault = float64(-2000)
	specDividerDefault    = float64(1000)
)

func clientProbe() int {
	cc := client.VerifClientConsts()
	if cc.TestMode {
		fmt.Println("crash seed=0 exit=1 => the production probe was built with the test tag")
		return 1
	}
	cts := []*string{nil}
	for _, s := range []string{"1000\n1000\n", "-2000\n1000\n", "2.5\n0.75\n", "1\n0\n", "abc\n1000\n", "1000\nabc\n", "5\n", "", "16777217\n3\n", "7\n9\nextra\n", "1e3\n-1e-3\n"} {
		s := s
		cts = append(cts, &s)
	}
	for i, ct := range cts {
		dir, err := os.MkdirTemp("", "prodprobe-client")
		if err != nil {
			fmt.Printf("crash seed=0 exit=1 => %v\n", err)
			return 1
		}
		pub, priv := glow.GenerateKeyPair()
		gca, _ := glow.GenerateKeyPair()
		srvKey, _ := glow.GenerateKeyPair()
		var kd [64]byte
		copy(kd[:32], pub[:])
		copy(kd[32:], priv[:])
		raw, err := client.SerializeGCAServerMap(map[glow.PublicKey]client.GCAServer{srvKey: {Location: "127.0.0.1", HttpPort: 1, TcpPort: 2, UdpPort: 3}})
		if err != nil {
			fmt.Printf("crash seed=0 exit=1 => %v\n", err)
			return 1
		}
		var zero, id [4]byte
		binary.LittleEndian.PutUint32(id[:], uint32(i+1))
		files := map[string][]byte{client.ClientKeyFile: kd[:], client.GCAPubKeyFile: gca[:], client.GCAServerMapFile: raw,
			client.HistoryFile: zero[:], client.ShortIDFile: id[:]}
		if ct != nil {
			files[client.CTSettingsFile] = []byte(*ct)
		}
		for name, data := range files {
			if err := os.WriteFile(filepath.Join(dir, name), data, 0644); err != nil {
				fmt.Printf("crash seed=0 exit=1 => %v\n", err)
				return 1
			}
		}
		c, err := client.VerifNewClientNoLoop(dir)
		if err != nil {
			fmt.Printf("cl.ct %s => error\n", ctArgs(ct))
		} else {
			m, d := c.VerifCalibration()
			fmt.Printf("cl.ct %s => %d %d\n", ctArgs(ct), math.Float64bits(m), math.Float64bits(d))
		}
		fmt.Printf("# stat prod.ct:%d 1\n", i)
		os.RemoveAll(dir)
	}
	return 0
}

// ctArgs describes a calibration file to the model (same line format as the harness): which of its first two
// lines exist and what strconv.ParseFloat(64) makes of them.
func ctArgs(ct *string) string {
	dflt := fmt.Sprintf("dm=%d dd=%d", math.Float64bits(specMultiplierDefault), math.Float64bits(specDividerDefault))
	if ct == nil {
		return "present=0 l1=absent l2=absent " + dflt
	}
	lines := strings.Split(strings.TrimSuffix(*ct, "\n"), "\n")
	if *ct == "" {
		lines = nil
	}
	f := func(i int) string {
		if i >= len(lines) {
			return "absent"
		}
		x, err := strconv.ParseFloat(strings.TrimSuffix(lines[i], "\r"), 64)
		if err != nil {
			return "none"
		}
		return strconv.FormatUint(math.Float64bits(x), 10)
	}
	return fmt.Sprintf("present=1 l1=%s l2=%s %s", f(0), f(1), dflt)
}
