"""Claim texts per property (level, what is assumed, deciding technique)."""
TIE = "tie to the source: regenerated BitVec/table obligations (Gca/Tie) + differential run of the real code against the compiled Lean driver"
CLAIMS = {
 "C02": {"text": "Theorems for all finite sequences of valid reports: folding them through the per-slot machine of integrateReport equals the specification slotValue (0 / the single value / ban sentinel), which depends only on the set of reports (order, replays irrelevant), bans are absorbing, other devices/slots are framed out; the capacity rule is proved equal to '100p > 135cap and p < 2^63' for every 64-bit pair on the Go arithmetic itself. " + TIE,
         "note": "Lean kernel; the hand-written per-slot model is tied by the regenerated slot tests/capacity rule (all-input obligations) and by differential runs; signature verification is an oracle parameter.",
         "technique": "Lean 4 refinement proof (fold = set-function spec) + generated BitVec guard obligations + differential correspondence"},
 "C15": {"text": "Round-trip, wrong-length refusal, signing-bytes injectivity and pairwise disjointness of signing bytes across message types proved for every value; layouts/prefixes regenerated from source and proved equal to the model's; Go encoders/decoders compared byte-for-byte with the Lean codecs.",
         "note": "Lean kernel; unforgeability/determinism of secp256k1 signing is assumed and only exercised by execution; JSON float transport is library behaviour validated differentially.",
         "technique": "Lean 4 codec round-trip/injectivity proofs + regenerated layout tables (decide) + byte-level differential testing"},
 "C18": {"text": "Invariant proof over all operation sequences and all non-negative configurations: no panic, exact accounting, size bound, newest loggable line retained, eviction = minimal prefix of least-recently-updated order, dump sorted. Comparisons regenerated from source; real logger compared with the model using read-back timestamps.",
         "note": "Lean kernel; time is an integer parameter; Go map order and unstable sort are compared modulo ties.",
         "technique": "Lean 4 invariant induction over op sequences + generated comparison obligations + differential correspondence"},
 "C19": {"text": "Exact characterisation proved for every non-decreasing call sequence: admitted iff fewer than limit admissions in (t-rate, t]; hence no half-open window of the configured length holds more than limit admissions and no starvation. Comparisons regenerated from source; sequential runs compared exactly, concurrent runs judged by interval arithmetic.",
         "note": "Lean kernel; relies on Allow() being one critical section with the clock read inside it and on a monotonic clock.",
         "technique": "Lean 4 refinement to sliding-window spec (induction with invariant) + generated comparison obligations + differential correspondence"},
 "C20": {"text": "UnixToTimeslot/TimeslotToUnix/production CurrentTimeslot and the acceptance-window comparison are translated from the Go source into BitVec functions on every run and proved equal to the integer specification for ALL int64/uint32 inputs; round-trip, monotonicity, refusal, genesis date (civil-date computation) and the rotation-cadence inequalities are theorems over the extracted production constants.",
         "note": "Lean kernel; the translator (type-directed go/types walk) is trusted to transcribe expressions; supporting differential run on boundaries.",
         "technique": "Go->Lean BitVec translation validated by all-input equivalence proofs + arithmetic theorems (omega/decide)"},
}
NOT_APPLICABLE = {}
