"""Per-property configuration of ./check: Lean modules holding the property
theorems, names of the tie obligations (Gca/Tie/*.lean) the property depends
on, and the correspondence jobs (harness sub-command, sizes per tier)."""

KERNEL = "Lean 4.33.0 kernel; axioms allowed: propext, Classical.choice, Quot.sound (audited with #print axioms on every run)"
TRANSLATOR = "extractor /verif/extract (go/packages + go/types AST walk) that regenerates Gca/Generated/*.lean from /repo on every run"
HARNESS = "Go harness /verif/harness (drives the real packages built with -tags 'test verif') and the Lean driver's line-protocol parser"
CRYPTO = "secp256k1/Keccak (go-ethereum): signature verification is a parameter of the model; the real glow.Verify verdicts are fed to the model as an oracle"

def srv(focus, quick=(28, 150), thorough=(320, 300)):
    return {"name": "srv-" + focus, "cmd": ["srv", focus, "{seed}"], "quick": list(quick), "thorough": list(thorough)}

SERVER_TIE_COMMON = ["udp_length_guard", "udp_kinds", "window", "sentinel", "handleReport_kinds", "storage", "storage_index", "integrate_kinds",
                     "verify_keys_server", "layout_report", "layout_report_signing", "layout_parse_report", "prefix_report", "report_size"]

SRV_TB = [KERNEL, TRANSLATOR, HARNESS, CRYPTO]

PROPS = {
    "C01": {
        "modules": ["Gca.Props.C01"],
        "tie": SERVER_TIE_COMMON,
        "jobs": [srv("C01")],
        "rule": "random histories dominated by datagrams: valid reports at the boundaries now-433/-432/+432/+433, offset-1/offset/offset+4031/offset+4032/+4033, power 0/1/2, limit/limit+1, replays, single and multi bit flips, truncations, extensions beyond 80 bytes, field swaps, re-signing under every other key of the scenario, random bytes, unknown ids; clocks around offset+3200/3600/4000/4032 and beyond; every op line carries the FNV-64 hash of the implementation's full snapshot, compared with the model's; non-trivial = not dropped/refused",
        "trusted_base": SRV_TB,
        "assumptions": ["strength of the signature scheme: the model rejects whenever glow.Verify says false (oracle), it does not prove that a flipped bit makes it say false"],
    },
    "C03": {
        "modules": ["Gca.Props.C03"],
        "tie": ["startup_catchup", "rotation_trigger", "migrateLoop_kinds", "stats_misaligned", "stats_archived", "stats_archive_index", "stats_kinds",
                "buildStats_refusal", "buildStats_base", "buildStats_kinds", "migrate_order", "migrate_ints", "prefix_stats"],
        "jobs": [srv("C03")],
        "rule": "histories interleaving reports, bans, clock jumps (none/one/multi-week), real background-loop iterations, restarts with catch-up, impact rounds (rates read back), statistics queries for archived/first/second/future/misaligned/over-32-bit offsets with and without insert_false_negatives; served signature verified with the real key; non-trivial = not dropped/refused",
        "trusted_base": SRV_TB + ["encoding/json float round-trip of the statistics response"],
        "assumptions": ["the signature of the served record is checked by execution (glow.Verify over the Go signing bytes, whose layout is C15)"],
    },
    "C04": {
        "modules": ["Gca.Props.C04", "Gca.Props.DiskBytes"],
        "tie": ["startup_order", "save_equipment_order", "save_gca_key_order", "migrate_order", "startup_catchup", "verify_keys_server",
                "layout_auth", "layout_report", "slot_banned", "slot_duplicate", "slot_empty", "capacity"],
        "jobs": [srv("C04")],
        "rule": "histories of registrations, authorizations incl. conflicts (bans), reports incl. banned slots, rotations, with a real restart (Close + NewGCAServer on the same directory) after random prefixes and repeated restarts, at clocks that need zero, one or several catch-up rotations; after every restart the full snapshot hash and at the end the files are compared with the model's load; non-trivial = not dropped/refused",
        "trusted_base": SRV_TB + ["os file semantics (append, read whole file)"],
        "assumptions": ["authorizations carry no NaN coordinates (JSON cannot; c04_nan_witness shows the hypothesis is needed)", "authorized-server list and migration orders are documented as not persisted"],
    },
    "C05": {
        "modules": ["Gca.Props.C05"],
        "tie": ["startup_order", "save_equipment_order", "save_gca_key_order", "migrate_order", "startup_catchup"],
        "jobs": [srv("C05", (42, 120), (400, 250))],
        "rule": "histories with restarts at operation boundaries, torn states materialised on the real directory (empty gcaPubKey.dat while unregistered, report file cut after any number of the records a start re-appends), and half of the scenarios killing the process (os.Exit inside a verifPoint) right after the file write of an authorization or of a rotation, followed by a start in a fresh process; the recovered snapshot and files are compared with the model's load of the predicted disk; witnesses F6/F7 replay the two repaired torn-file crashes; non-trivial = not dropped/refused",
        "trusted_base": SRV_TB + ["the property's own crash model: a completed append/write is atomic and durable"],
        "assumptions": ["SIGKILL at random instants is not run (the kill points are the persistence points and operation boundaries)"],
    },
    "C08": {
        "modules": ["Gca.Props.C08"],
        "tie": ["sync_bit_rule", "sync_byte_index", "resend_loop", "resend_bit", "resend_skip", "resend_energy", "resend_timeslot", "window", "storage"],
        "jobs": [{"name": "relay", "cmd": ["relay", "{seed}"], "quick": [14, 25], "thorough": [200, 40]}],
        "rule": "real client and real server with the harness between them: every original datagram is lost / delivered / duplicated / delayed at random, readings positive, negative (two's complement) and sentinel, rotations and server restarts in between, 0..2 failed sync rounds (server unreachable) before the fault-free one through a recording TCP proxy; retransmissions delivered in random order with duplicates and late originals; the property is evaluated on the real server's snapshot and every datagram/round is compared with the model; non-trivial = delivered or retransmitted datagrams",
        "trusted_base": SRV_TB + ["deterministic signing (RFC 6979) - retransmissions are compared byte for byte by the server's duplicate test"],
        "assumptions": ["readings that do not fit 32 signed bits are out of the property's scope (F17)"],
    },
    "C06": {
        "modules": ["Gca.Props.C06"],
        "tie": ["verify_keys_server", "layout_auth", "layout_auth_read", "prefix_auth", "save_equipment_order"],
        "jobs": [srv("C06")],
        "rule": "sequences of authorizations (new, exact duplicate, conflict in each single field incl. public key and sign of zero, reuse of another device's key, bad/foreign signatures, flipped signed bit, banned ids) through the JSON endpoint and the direct hook, interleaved with reports, syncs and restarts; non-trivial = not refused",
        "trusted_base": SRV_TB + ["encoding/json transport of float64 (finite values)"],
        "assumptions": ["authorizations never carry NaN coordinates (JSON cannot)"],
    },
    "C07": {
        "modules": ["Gca.Props.C07"],
        "tie": ["verify_keys_server", "prefix_registration", "layout_registration", "save_gca_key_order", "single_sections", "locks_entries_ok"],
        "jobs": [srv("C07")],
        "rule": "sequences of registrations (valid, wrong signer, altered key, replays, after restart) interleaved with authorizations/server authorizations/migration orders signed by the temp key, losers and the winner; non-trivial = not refused",
        "trusted_base": SRV_TB + ["register is one critical section (lock skeleton of registerGCA)"],
        "assumptions": ["the all-zero key verifies nothing (checked by execution in the codec run)"],
    },
    "C12": {
        "modules": ["Gca.Props.C12"],
        "tie": ["udp_length_guard", "udp_kinds", "storage", "storage_index", "impact_guard", "impact_index", "stats_archive_index", "window", "integrate_kinds",
                "migration_location_bound", "server_location_bound"],
        "jobs": [srv("C12")],
        "rule": "mixed histories with every request kind at clocks from offset to beyond two windows; every scenario runs in its own process so that a panic anywhere (handler goroutines included) is seen as a crash; witnesses F1, F4, F10, F11 replay the repaired crashes/wedges; non-trivial = not dropped/refused",
        "trusted_base": SRV_TB,
        "assumptions": ["idle connections, peer timeouts and shutdown time are runtime behaviour, exercised by the witnesses only (partial)"],
    },
    "C02": {
        "modules": ["Gca.Props.C02"],
        "tie": ["slot_banned", "slot_duplicate", "slot_empty", "capacity_limit", "capacity", "integrate_kinds", "storage_index", "capacity_buffer"],
        "jobs": [srv("C02")],
        "rule": "random histories of reports over <=4 devices and boundary slots/powers (limit, limit+1, 2^63-1, 2^63, replays, conflicting values, re-signed copies); an op is non-trivial if the implementation did not simply drop/refuse it; distinct = distinct op lines",
        "trusted_base": [KERNEL, TRANSLATOR, HARNESS, CRYPTO],
        "assumptions": ["reports reach integrateReport only through the modelled UDP path or the replay at start-up"],
    },
    "C09": {
        "modules": ["Gca.Props.C09"],
        "tie": ["save_before_origin", "save_beyond_range", "save_same", "save_occupied", "save_offset", "save_kinds",
                "load_before_origin", "load_beyond_range", "load_offset", "load_kinds", "history_slots", "resend_energy"],
        "jobs": [{"name": "hist", "cmd": ["hist", "{seed}"], "quick": [24, 90], "thorough": [300, 200]},
                 {"name": "emit", "cmd": ["emit", "{seed}"], "quick": [14, 12], "thorough": [150, 30]}],
        "rule": "random save/load sequences on the real history file for origins 0/100/5000/2^31/2^32-51 with values 0,1,2,3,500,2^31,2^32-1 and random; timeslots before the origin, at it, up to 6000 slots ahead; range boundaries 2^30-3..2^32-1 probed on an empty store; the file bytes are compared with the model after every save; non-trivial = save accepted or load non-zero",
        "trusted_base": [KERNEL, TRANSLATOR, HARNESS, "ReadAt/WriteAt semantics of os.File (sparse extension with zeros)"],
        "assumptions": ["known finding F17: values that differ only above bit 32 are both emitted (c09_mod32_witness); the emission theorem is stated modulo 2^32"],
    },
    "C10": {
        "modules": ["Gca.Props.C10"],
        "tie": ["reply_min_length", "reply_freshness", "sync_bit_rule", "sync_byte_index", "resend_bit", "verify_keys_client",
                "prefix_client_migration", "layout_auth_server", "layout_migration", "migration_location_bound", "server_location_bound"],
        "jobs": [{"name": "reply", "cmd": ["reply", "{seed}"], "quick": [16, 60], "thorough": [200, 200]}, srv("C17", (14, 120), (200, 250)),
                 srv("C10", (14, 120), (200, 250))],
        "rule": "genuine replies of the real server (reports at window edges, 0..3 servers with locations 0..255 and ban flags, with/without migration orders of 0..3 servers incl. badly signed ones) fed to the real client parser through a scripted TCP server, plus per genuine reply: every kind of mutation (single bit flips incl. the length prefix, truncation, extension, wrong server key, wrong GCA, other device, unknown id) and rogue-server variants re-signed with the server's real key (bit flips, time shifts around +-24h, random bodies of critical lengths, truncated entry regions with inflated location length); non-trivial = parser accepted",
        "trusted_base": [KERNEL, TRANSLATOR, HARNESS, CRYPTO, "TCP framing (io.ReadFull)"],
        "assumptions": ["known finding F19: replies longer than 65535 bytes cannot be framed (explicit hypothesis of the round-trip theorems)"],
    },
    "C11": {
        "modules": ["Gca.Props.C11"],
        "tie": ["reply_min_length", "reply_freshness", "verify_keys_client", "locks_entries_ok", "locks_assuming_ok", "locks_ctors_ok"],
        "jobs": [{"name": "round", "cmd": ["round", "{seed}"], "quick": [28, 6], "thorough": [300, 10]},
                 {"name": "reply", "cmd": ["reply", "{seed}"], "quick": [8, 60], "thorough": [120, 200]}],
        "rule": "real sync rounds of a real client against 1..5 scripted servers (valid reply, reset, short read, foreign signature, random bytes; banned and all-banned configurations) with the dial order observed; after every round: mutex try-lock, identity, server map in memory and on disk, retransmitted datagrams at a UDP sink; client restarts in between; plus the reply-parser run (lengths 0..900 incl. rogue correctly signed bodies); non-trivial = round synced / parser accepted",
        "trusted_base": [KERNEL, TRANSLATOR, HARNESS, CRYPTO, "crypto/rand shuffle (the chosen server is an input of the model, checked to be eligible)"],
        "assumptions": ["'keeps emitting reports and syncs again later' is liveness, observed only (partial)"],
    },
    "C16": {
        "modules": ["Gca.Props.C16"],
        "tie": ["unixToTimeslot"],
        "jobs": [{"name": "energy", "cmd": ["energy", "{seed}"], "quick": [24, 40], "thorough": [300, 120]}],
        "rule": "random energy files (header variants, missing header, single-column rows, quoted fields, wrong column counts, broken quoting, readings incl. boundary +-24, huge, negative, scientific, NaN/Inf, unparseable, timestamps before genesis, at the 32-bit slot limit, int64 extremes) x calibration files (absent, valid, fractional, zero divider, malformed, one line); the rows the CSV reader returns and strconv's verdicts are given to the model, the float rule is evaluated with Lean's hardware doubles and compared bit for bit; non-trivial = at least one record produced",
        "trusted_base": [KERNEL, HARNESS, "encoding/csv record splitting, strconv.ParseInt/ParseFloat, IEEE-754 arithmetic and amd64 float->uint64 conversion (compared bit for bit with Lean Float, not proved)"],
        "assumptions": ["scaled values that do not fit 64 signed bits, NaN/Inf and zero dividers are checked for absence of crashes only"],
    },
    "C17": {
        "modules": ["Gca.Props.C17"],
        "tie": ["verify_keys_server", "verify_keys_client", "prefix_authServer", "prefix_migration", "layout_auth_server",
                "migration_location_bound", "server_location_bound", "server_ban_rule", "authServersPOST_kinds", "validateMigration_kinds"],
        "jobs": [{"name": "round", "cmd": ["round", "{seed}"], "quick": [28, 6], "thorough": [300, 10]}, srv("C17")],
        "rule": "client: real sync rounds delivering server lists (re-announcements with changed ports, bans, un-ban attempts, new servers, entries not signed by the GCA) and migration orders (valid, for another device, outer signature by the wrong GCA, inner signatures by the wrong GCA, empty), with client restarts; memory, files and the reloaded state compared with the model; server: POST sequences of server authorizations and migration orders in the C07-focused histories; non-trivial = round synced / post accepted",
        "trusted_base": [KERNEL, TRANSLATOR, HARNESS, CRYPTO],
        "assumptions": ["the server-side list is not persisted (documented in the code), so monotonicity is stated between restarts"],
    },
    "C13": {
        "modules": ["Gca.Props.C13", "Gca.LockSkelSound"],
        "tie": ["locks_entries_ok", "locks_assuming_ok", "locks_ctors_ok", "locks_ctor_callers", "single_sections", "impact_guard", "impact_index"],
        "jobs": [srv("C13")],
        "rule": "at every verifPoint between two critical sections of a multi-section operation (sync reply, statistics, impact job, server authorization) every interfering operation of the menu (report, rotation, ban) is injected on the real server and the answers/final state are compared with the model's sequential explanation; every scenario is its own process, so any panic is seen; the lock discipline itself is decided on the regenerated skeletons of all 164 functions and function literals; non-trivial = not dropped/refused",
        "trusted_base": SRV_TB + ["the skeleton extractor (go/ast walk: lock/unlock/defer/return/exit/guarded-field access/call/if/loop) and its table of guarded fields"],
        "assumptions": ["the Go memory model and scheduler are not modelled: data-race freedom is the lockset condition on the skeletons (partial)", "randomised many-goroutine runs under the race detector are not part of the check"],
    },
    "C14": {
        "modules": ["Gca.Props.C14"],
        "tie": ["public_files", "archive_order", "layout_report", "layout_auth", "single_sections", "rate_limit", "rate_expiry", "archive_limit"],
        "jobs": [{"name": "archive", "cmd": ["archive", "{seed}"], "quick": [28, 8], "thorough": [300, 16]}],
        "rule": "archives downloaded while write bursts (new device + first report, registration + first device, rotation, reports) are injected at the verifPoint before each file; every archive is unzipped, each file checked to be a record-aligned prefix of the file on disk, every report/authorization/statistics record re-verified with glow.Verify against the archived keys, and every file scanned for the private key; request bursts judged on the limiter's own admission times; non-trivial = archives with at least one injection",
        "trusted_base": SRV_TB + ["archive/zip", "the closure oracle of this run is evaluated in the harness (Go), the theorem is about the model"],
        "assumptions": ["a concurrent reader sees a record-aligned prefix of an append-only file (the property's own assumption)"],
    },
    "C15": {
        "modules": ["Gca.Props.C15"],
        "tie": ["prefix_report", "prefix_auth", "prefix_registration", "prefix_authServer", "prefix_migration", "prefix_stats",
                "prefix_client_migration", "prefixes_prefix_free", "layout_report", "layout_report_signing", "layout_report_read",
                "layout_parse_report", "layout_auth", "layout_auth_read", "layout_auth_server", "layout_migration", "layout_registration",
                "migration_location_bound", "server_location_bound", "validateMigration_kinds"],
        "jobs": [{"name": "codec", "cmd": ["codec", "{seed}"], "quick": [250], "thorough": [4000]}, srv("C17", (14, 120), (200, 250))],
        "rule": "random and boundary field values (0, max, 2^63, subnormal, -0, max float), lengths around the valid one, lists of 0..3 servers, locations 0..65536 bytes, streams of 0..2 weeks incl. truncated ones; Go encoder/decoder output compared byte for byte (or by FNV-64 of the hex for 32 KB records) with the Lean codec; non-trivial = decoder accepted / encoder produced bytes",
        "trusted_base": [KERNEL, TRANSLATOR, HARNESS, CRYPTO + "; deterministic signing and rejection of any flipped bit are checked by execution only (crypto.check lines)",
                         "encoding/json float round-trip (exercised through the real endpoint in the server runs)"],
        "assumptions": ["unforgeability of the signature scheme"],
    },
    "C18": {
        "modules": ["Gca.Props.C18"],
        "tie": ["log_expiry", "log_cut", "log_unstorable", "log_evict", "log_kinds"],
        "jobs": [{"name": "el", "cmd": ["el", "{seed}"], "quick": [32, 80], "thorough": [400, 200]}],
        "rule": "random sequences of Printf (line lengths 0..2x limit, repeated and fresh), ExpireLogs at arbitrary cuts, DumpLogEntries over configurations (expiry 0/2ms/40ms/1h, max bytes 0..1000, line limit 0..200); timestamps are read back from the real logger; non-trivial = state non-empty after the call",
        "trusted_base": [KERNEL, TRANSLATOR, HARNESS, "Go map iteration order and sort.Slice tie-breaking (compared modulo ties)", "monotonic time.Now()"],
        "assumptions": ["limits are non-negative (NewClient enforces positive limits)"],
    },
    "C19": {
        "modules": ["Gca.Props.C19"],
        "tie": ["rate_expiry", "rate_limit", "rate_kinds", "single_sections", "locks_entries_ok"],
        "jobs": [{"name": "rl", "cmd": ["rl", "{seed}"], "quick": [32, 80], "thorough": [400, 200]}],
        "rule": "sequential call sequences with exact timestamps read back (grid of limit x window), and every 4th scenario 1..64 concurrent callers judged with caller-side intervals by the driver's evaluation of the C19 conclusions; non-trivial = call admitted",
        "trusted_base": [KERNEL, TRANSLATOR, HARNESS, "monotonic time.Now(); Allow() is one critical section (lock skeleton)"],
        "assumptions": ["clock values and windows below 2^62 ns"],
    },
    "C20": {
        "modules": ["Gca.Props.C20"],
        "tie": ["unixToTimeslot", "timeslotToUnix", "currentTimeslot_guard", "currentTimeslot_value", "window", "startup_catchup",
                "rotation_trigger", "migrateLoop_kinds", "storage", "genesis_prod", "migration_period_prod", "send_period_prod"],
        "jobs": [{"name": "ts", "cmd": ["ts", "{seed}"], "quick": [600], "thorough": [200000]}],
        "rule": "UnixToTimeslot/TimeslotToUnix on slot boundaries by stride, at the uint32/int64 extremes and random inside; the all-inputs statements are the BitVec tie obligations (production build constants), the run is supporting evidence; non-trivial = accepted conversions",
        "trusted_base": [KERNEL, TRANSLATOR, HARNESS],
        "assumptions": ["production constants are those of the files built without the 'test' tag (extracted with go/packages, no tags)"],
    },
}
