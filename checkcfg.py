"""Per-property configuration of ./check: Lean modules holding the property
theorems, names of the tie obligations (Gca/Tie/*.lean) the property depends
on, and the correspondence jobs (harness sub-command, sizes per tier)."""

KERNEL = "Lean 4.33.0 kernel; axioms allowed: propext, Classical.choice, Quot.sound (audited with #print axioms on every run)"
TRANSLATOR = "extractor /verif/extract (go/packages + go/types AST walk) that regenerates Gca/Generated/*.lean from /repo on every run"
HARNESS = "Go harness /verif/harness (drives the real packages built with -tags 'test verif') and the Lean driver's line-protocol parser"
CRYPTO = "secp256k1/Keccak (go-ethereum): signature verification is a parameter of the model; the real glow.Verify verdicts are fed to the model as an oracle"

def srv(focus, quick=(28, 150), thorough=(320, 300)):
    return {"name": "srv-" + focus, "cmd": ["srv", focus, "{seed}"], "quick": list(quick), "thorough": list(thorough)}

SERVER_TIE_COMMON = ["udp_length_guard", "udp_kinds", "window", "sentinel", "handleReport_kinds", "storage", "storage_index", "integrate_kinds",
                     "verify_keys_server", "layout_report", "layout_report_signing", "layout_parse_report", "prefix_report", "report_size"]

SRV_TB = [KERNEL, TRANSLATOR, HARNESS, CRYPTO]

PROPS = {
    "C01": {
        "modules": ["Gca.Props.C01"],
        "tie": SERVER_TIE_COMMON,
        "jobs": [srv("C01")],
        "rule": "random histories dominated by datagrams: valid reports at the boundaries now-433/-432/+432/+433, offset-1/offset/offset+4031/offset+4032/+4033, power 0/1/2, limit/limit+1, replays, single and multi bit flips, truncations, extensions beyond 80 bytes, field swaps, re-signing under every other key of the scenario, random bytes, unknown ids; clocks around offset+3200/3600/4000/4032 and beyond; every op line carries the FNV-64 hash of the implementation's full snapshot, compared with the model's; non-trivial = not dropped/refused",
        "trusted_base": SRV_TB,
        "assumptions": ["strength of the signature scheme: the model rejects whenever glow.Verify says false (oracle), it does not prove that a flipped bit makes it say false"],
    },
    "C03": {
        "modules": ["Gca.Props.C03"],
        "tie": ["startup_catchup", "rotation_trigger", "migrateLoop_kinds", "stats_misaligned", "stats_archived", "stats_archive_index", "stats_kinds",
                "buildStats_refusal", "buildStats_base", "buildStats_kinds", "migrate_order", "migrate_ints", "prefix_stats"],
        "jobs": [srv("C03")],
        "rule": "histories interleaving reports, bans, clock jumps (none/one/multi-week), real background-loop iterations, restarts with catch-up, impact rounds (rates read back), statistics queries for archived/first/second/future/misaligned/over-32-bit offsets with and without insert_false_negatives; served signature verified with the real key; non-trivial = not dropped/refused",
        "trusted_base": SRV_TB + ["encoding/json float round-trip of the statistics response"],
        "assumptions": ["the signature of the served record is checked by execution (glow.Verify over the Go signing bytes, whose layout is C15)"],
    },
    "C06": {
        "modules": ["Gca.Props.C06"],
        "tie": ["verify_keys_server", "layout_auth", "layout_auth_read", "prefix_auth", "save_equipment_order"],
        "jobs": [srv("C06")],
        "rule": "sequences of authorizations (new, exact duplicate, conflict in each single field incl. public key and sign of zero, reuse of another device's key, bad/foreign signatures, flipped signed bit, banned ids) through the JSON endpoint and the direct hook, interleaved with reports, syncs and restarts; non-trivial = not refused",
        "trusted_base": SRV_TB + ["encoding/json transport of float64 (finite values)"],
        "assumptions": ["authorizations never carry NaN coordinates (JSON cannot)"],
    },
    "C07": {
        "modules": ["Gca.Props.C07"],
        "tie": ["verify_keys_server", "prefix_registration", "layout_registration", "save_gca_key_order", "single_sections", "locks_entries_ok"],
        "jobs": [srv("C07")],
        "rule": "sequences of registrations (valid, wrong signer, altered key, replays, after restart) interleaved with authorizations/server authorizations/migration orders signed by the temp key, losers and the winner; non-trivial = not refused",
        "trusted_base": SRV_TB + ["register is one critical section (lock skeleton of registerGCA)"],
        "assumptions": ["the all-zero key verifies nothing (checked by execution in the codec run)"],
    },
    "C12": {
        "modules": ["Gca.Props.C12"],
        "tie": ["udp_length_guard", "udp_kinds", "storage", "storage_index", "impact_guard", "impact_index", "stats_archive_index", "window", "integrate_kinds",
                "migration_location_bound", "server_location_bound"],
        "jobs": [srv("C12")],
        "rule": "mixed histories with every request kind at clocks from offset to beyond two windows; every scenario runs in its own process so that a panic anywhere (handler goroutines included) is seen as a crash; witnesses F1, F4, F10, F11 replay the repaired crashes/wedges; non-trivial = not dropped/refused",
        "trusted_base": SRV_TB,
        "assumptions": ["idle connections, peer timeouts and shutdown time are runtime behaviour, exercised by the witnesses only (partial)"],
    },
    "C02": {
        "modules": ["Gca.Props.C02"],
        "tie": ["slot_banned", "slot_duplicate", "slot_empty", "capacity_limit", "capacity", "integrate_kinds", "storage_index", "capacity_buffer"],
        "jobs": [srv("C02")],
        "rule": "random histories of reports over <=4 devices and boundary slots/powers (limit, limit+1, 2^63-1, 2^63, replays, conflicting values, re-signed copies); an op is non-trivial if the implementation did not simply drop/refuse it; distinct = distinct op lines",
        "trusted_base": [KERNEL, TRANSLATOR, HARNESS, CRYPTO],
        "assumptions": ["reports reach integrateReport only through the modelled UDP path or the replay at start-up"],
    },
    "C09": {
        "modules": ["Gca.Props.C09"],
        "tie": ["save_before_origin", "save_beyond_range", "save_same", "save_occupied", "save_offset", "save_kinds",
                "load_before_origin", "load_beyond_range", "load_offset", "load_kinds", "history_slots", "resend_energy"],
        "jobs": [{"name": "hist", "cmd": ["hist", "{seed}"], "quick": [24, 90], "thorough": [300, 200]}],
        "rule": "random save/load sequences on the real history file for origins 0/100/5000/2^31/2^32-51 with values 0,1,2,3,500,2^31,2^32-1 and random; timeslots before the origin, at it, up to 6000 slots ahead; range boundaries 2^30-3..2^32-1 probed on an empty store; the file bytes are compared with the model after every save; non-trivial = save accepted or load non-zero",
        "trusted_base": [KERNEL, TRANSLATOR, HARNESS, "ReadAt/WriteAt semantics of os.File (sparse extension with zeros)"],
        "assumptions": ["known finding F17: values that differ only above bit 32 are both emitted (c09_mod32_witness); the emission theorem is stated modulo 2^32"],
    },
    "C10": {
        "modules": ["Gca.Props.C10"],
        "tie": ["reply_min_length", "reply_freshness", "sync_bit_rule", "sync_byte_index", "resend_bit", "verify_keys_client",
                "prefix_client_migration", "layout_auth_server", "layout_migration", "migration_location_bound", "server_location_bound"],
        "jobs": [{"name": "reply", "cmd": ["reply", "{seed}"], "quick": [16, 60], "thorough": [200, 200]}, srv("C17", (14, 120), (200, 250))],
        "rule": "genuine replies of the real server (reports at window edges, 0..3 servers with locations 0..255 and ban flags, with/without migration orders of 0..3 servers incl. badly signed ones) fed to the real client parser through a scripted TCP server, plus per genuine reply: every kind of mutation (single bit flips incl. the length prefix, truncation, extension, wrong server key, wrong GCA, other device, unknown id) and rogue-server variants re-signed with the server's real key (bit flips, time shifts around +-24h, random bodies of critical lengths, truncated entry regions with inflated location length); non-trivial = parser accepted",
        "trusted_base": [KERNEL, TRANSLATOR, HARNESS, CRYPTO, "TCP framing (io.ReadFull)"],
        "assumptions": ["known finding F19: replies longer than 65535 bytes cannot be framed (explicit hypothesis of the round-trip theorems)"],
    },
    "C11": {
        "modules": ["Gca.Props.C11"],
        "tie": ["reply_min_length", "reply_freshness", "verify_keys_client", "locks_entries_ok", "locks_assuming_ok", "locks_ctors_ok"],
        "jobs": [{"name": "round", "cmd": ["round", "{seed}"], "quick": [28, 6], "thorough": [300, 10]},
                 {"name": "reply", "cmd": ["reply", "{seed}"], "quick": [8, 60], "thorough": [120, 200]}],
        "rule": "real sync rounds of a real client against 1..5 scripted servers (valid reply, reset, short read, foreign signature, random bytes; banned and all-banned configurations) with the dial order observed; after every round: mutex try-lock, identity, server map in memory and on disk, retransmitted datagrams at a UDP sink; client restarts in between; plus the reply-parser run (lengths 0..900 incl. rogue correctly signed bodies); non-trivial = round synced / parser accepted",
        "trusted_base": [KERNEL, TRANSLATOR, HARNESS, CRYPTO, "crypto/rand shuffle (the chosen server is an input of the model, checked to be eligible)"],
        "assumptions": ["'keeps emitting reports and syncs again later' is liveness, observed only (partial)"],
    },
    "C16": {
        "modules": ["Gca.Props.C16"],
        "tie": ["unixToTimeslot"],
        "jobs": [{"name": "energy", "cmd": ["energy", "{seed}"], "quick": [24, 40], "thorough": [300, 120]}],
        "rule": "random energy files (header variants, missing header, single-column rows, quoted fields, wrong column counts, broken quoting, readings incl. boundary +-24, huge, negative, scientific, NaN/Inf, unparseable, timestamps before genesis, at the 32-bit slot limit, int64 extremes) x calibration files (absent, valid, fractional, zero divider, malformed, one line); the rows the CSV reader returns and strconv's verdicts are given to the model, the float rule is evaluated with Lean's hardware doubles and compared bit for bit; non-trivial = at least one record produced",
        "trusted_base": [KERNEL, HARNESS, "encoding/csv record splitting, strconv.ParseInt/ParseFloat, IEEE-754 arithmetic and amd64 float->uint64 conversion (compared bit for bit with Lean Float, not proved)"],
        "assumptions": ["scaled values that do not fit 64 signed bits, NaN/Inf and zero dividers are checked for absence of crashes only"],
    },
    "C17": {
        "modules": ["Gca.Props.C17"],
        "tie": ["verify_keys_server", "verify_keys_client", "prefix_authServer", "prefix_migration", "layout_auth_server",
                "migration_location_bound", "server_location_bound", "server_ban_rule", "authServersPOST_kinds", "validateMigration_kinds"],
        "jobs": [{"name": "round", "cmd": ["round", "{seed}"], "quick": [28, 6], "thorough": [300, 10]}, srv("C17")],
        "rule": "client: real sync rounds delivering server lists (re-announcements with changed ports, bans, un-ban attempts, new servers, entries not signed by the GCA) and migration orders (valid, for another device, outer signature by the wrong GCA, inner signatures by the wrong GCA, empty), with client restarts; memory, files and the reloaded state compared with the model; server: POST sequences of server authorizations and migration orders in the C07-focused histories; non-trivial = round synced / post accepted",
        "trusted_base": [KERNEL, TRANSLATOR, HARNESS, CRYPTO],
        "assumptions": ["the server-side list is not persisted (documented in the code), so monotonicity is stated between restarts"],
    },
    "C15": {
        "modules": ["Gca.Props.C15"],
        "tie": ["prefix_report", "prefix_auth", "prefix_registration", "prefix_authServer", "prefix_migration", "prefix_stats",
                "prefix_client_migration", "prefixes_prefix_free", "layout_report", "layout_report_signing", "layout_report_read",
                "layout_parse_report", "layout_auth", "layout_auth_read", "layout_auth_server", "layout_migration", "layout_registration",
                "migration_location_bound", "server_location_bound", "validateMigration_kinds"],
        "jobs": [{"name": "codec", "cmd": ["codec", "{seed}"], "quick": [250], "thorough": [4000]}, srv("C17", (14, 120), (200, 250))],
        "rule": "random and boundary field values (0, max, 2^63, subnormal, -0, max float), lengths around the valid one, lists of 0..3 servers, locations 0..65536 bytes, streams of 0..2 weeks incl. truncated ones; Go encoder/decoder output compared byte for byte (or by FNV-64 of the hex for 32 KB records) with the Lean codec; non-trivial = decoder accepted / encoder produced bytes",
        "trusted_base": [KERNEL, TRANSLATOR, HARNESS, CRYPTO + "; deterministic signing and rejection of any flipped bit are checked by execution only (crypto.check lines)",
                         "encoding/json float round-trip (exercised through the real endpoint in the server runs)"],
        "assumptions": ["unforgeability of the signature scheme"],
    },
    "C18": {
        "modules": ["Gca.Props.C18"],
        "tie": ["log_expiry", "log_cut", "log_unstorable", "log_evict", "log_kinds"],
        "jobs": [{"name": "el", "cmd": ["el", "{seed}"], "quick": [32, 80], "thorough": [400, 200]}],
        "rule": "random sequences of Printf (line lengths 0..2x limit, repeated and fresh), ExpireLogs at arbitrary cuts, DumpLogEntries over configurations (expiry 0/2ms/40ms/1h, max bytes 0..1000, line limit 0..200); timestamps are read back from the real logger; non-trivial = state non-empty after the call",
        "trusted_base": [KERNEL, TRANSLATOR, HARNESS, "Go map iteration order and sort.Slice tie-breaking (compared modulo ties)", "monotonic time.Now()"],
        "assumptions": ["limits are non-negative (NewClient enforces positive limits)"],
    },
    "C19": {
        "modules": ["Gca.Props.C19"],
        "tie": ["rate_expiry", "rate_limit", "rate_kinds", "single_sections", "locks_entries_ok"],
        "jobs": [{"name": "rl", "cmd": ["rl", "{seed}"], "quick": [32, 80], "thorough": [400, 200]}],
        "rule": "sequential call sequences with exact timestamps read back (grid of limit x window), and every 4th scenario 1..64 concurrent callers judged with caller-side intervals by the driver's evaluation of the C19 conclusions; non-trivial = call admitted",
        "trusted_base": [KERNEL, TRANSLATOR, HARNESS, "monotonic time.Now(); Allow() is one critical section (lock skeleton)"],
        "assumptions": ["clock values and windows below 2^62 ns"],
    },
    "C20": {
        "modules": ["Gca.Props.C20"],
        "tie": ["unixToTimeslot", "timeslotToUnix", "currentTimeslot_guard", "currentTimeslot_value", "window", "startup_catchup",
                "rotation_trigger", "migrateLoop_kinds", "storage", "genesis_prod", "migration_period_prod", "send_period_prod"],
        "jobs": [{"name": "ts", "cmd": ["ts", "{seed}"], "quick": [600], "thorough": [200000]}],
        "rule": "UnixToTimeslot/TimeslotToUnix on slot boundaries by stride, at the uint32/int64 extremes and random inside; the all-inputs statements are the BitVec tie obligations (production build constants), the run is supporting evidence; non-trivial = accepted conversions",
        "trusted_base": [KERNEL, TRANSLATOR, HARNESS],
        "assumptions": ["production constants are those of the files built without the 'test' tag (extracted with go/packages, no tags)"],
    },
}
