#!/usr/bin/env python3
"""Writes MANIFEST.json from checkcfg.py (claims) and properties.jsonl."""
import json, subprocess, sys
sys.path.insert(0, '/verif')
from checkcfg import PROPS
from claims import CLAIMS, NOT_APPLICABLE

props = [json.loads(l) for l in open('/verif/properties.jsonl')]
log = subprocess.run(['git', '-C', '/repo', 'log', '--format=%h %s'], capture_output=True, text=True).stdout.splitlines()
hook_commits = [l.split()[0] for l in log if l.split(' ', 1)[1].startswith('verif hooks')]
checks = []
for p in props:
    pid = p['id']
    if pid not in PROPS or pid not in CLAIMS:
        continue
    c = CLAIMS[pid]
    checks.append({
        "property_id": pid,
        "quick_cmd": "./check %s --tier quick" % pid,
        "thorough_cmd": "./check %s --tier thorough" % pid,
        "evidence_file": "/verif/evidence/%s.json" % pid,
        "replay_cmd_template": "./check %s --replay {path}" % pid,
        "engine": "lean4-proof+tie",
        "level_claimed": {"category": c.get("category", "proof"), "text": c["text"], "design_ref": c.get("design_ref", "DESIGN.md section 6, " + pid)},
        "level_note": c["note"],
        "technique": c["technique"],
    })
na = [{"property_id": p['id'], "reason": NOT_APPLICABLE.get(p['id'], "check not built yet (work in progress; see DESIGN.md section 6)")}
      for p in props if p['id'] not in {c['property_id'] for c in checks}]
m = {
    "version": 1,
    "setup_cmd": "./setup.sh",
    "hooks": {"guard": "verif",
              "enable": "go build -tags \"test verif\" (server, client, glow packages; the harness module /verif/harness replaces the repository module by /repo)",
              "baseline_off_cmd": "cd /repo && go test -vet=off -count=1 ./...",
              "source_commits": hook_commits, "add_only": True},
    "engines": [{"name": "lean4-proof+tie", "path": "/verif/check",
                 "serves_properties": [c['property_id'] for c in checks],
                 "kind_free_text": "Lean 4 theorems about an executable model (/verif/lean), tied to /repo on every run by (a) a Go->Lean translator of guards, constants, layouts, key sources and order facts with proof obligations generated = spec, and (b) a differential run of the real code against the compiled Lean driver"}],
    "checks": checks,
    "notes": "See DESIGN.md. Fix commits in /repo are listed in known_findings.json (fixed entries); open findings F17 (C09) and F19 (C10).",
    "not_applicable": na,
}
json.dump(m, open('/verif/MANIFEST.json', 'w'), indent=1)
print("checks:", [c['property_id'] for c in checks])
