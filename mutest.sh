#!/bin/sh
# usage: mutest.sh <patch.diff> <Cxx> [tier]  -- apply a seeded change to /repo, run the check, undo it
P="$1"; ID="$2"; TIER="${3:-quick}"
git -C /repo apply "$P" || { echo "PATCH DOES NOT APPLY"; exit 3; }
cd /verif && ./check "$ID" --tier "$TIER" 2>&1 | grep -v conda | grep -E "^(OK|VIOLATION|KNOWN|  \[)" | cut -c1-420
git -C /repo checkout -- . 
git -C /verif checkout -- evidence 2>/dev/null
# regenerate the translated Lean from the restored tree, so /verif/lean/Gca/Generated never keeps a mutated version
( cd /verif/extract && X=$(mktemp -d) && go build -o $X/extract . && VERIF_REPO=/repo $X/extract /verif/lean/Gca/Generated >/dev/null 2>&1; rm -rf $X )
