#!/bin/sh
# MANIFEST.setup_cmd: build everything from files on disk (offline).
set -e
cd "$(dirname "$0")"
export GOFLAGS=-mod=mod GOPROXY=off GOSUMDB=off GOTOOLCHAIN=local
mkdir -p evidence replays
(cd extract && go build -o /dev/null .)
cp /repo/go.sum harness/go.sum
(cd harness && go build -tags "test verif" -o /dev/null .)
(cd lean && lake build Gca driver 2>&1 | grep -v "conda" | tail -5)
echo setup-done
