package main

// Environment helpers: deterministic keys, server directories, gated servers,
// HTTP helpers. Everything that starts real code from /repo lives here.

import (
	"bytes"
	"encoding/binary"
	"encoding/json"
	"fmt"
	"io"
	"net"
	"net/http"
	"os"
	"path/filepath"
	"sync"
	"sync/atomic"
	"time"

	"github.com/ethereum/go-ethereum/crypto"
	"github.com/glowlabs-org/gca-backend/glow"
	"github.com/glowlabs-org/gca-backend/server"
)

// scratchRoot is the directory under which all temporary state is created. It
// is set by the check script (VERIF_SCRATCH) and removed by it afterwards.
func scratchRoot() string {
	r := os.Getenv("VERIF_SCRATCH")
	if r == "" {
		r = filepath.Join(os.TempDir(), "verif-scratch")
	}
	os.MkdirAll(r, 0755)
	return r
}

var scratchCtr int
var scratchMu sync.Mutex

func freshDir(name string) string {
	scratchMu.Lock()
	scratchCtr++
	n := scratchCtr
	scratchMu.Unlock()
	d := filepath.Join(scratchRoot(), fmt.Sprintf("%s-%d-%d", name, os.Getpid(), n))
	os.RemoveAll(d)
	os.MkdirAll(d, 0755)
	return d
}

// Key is a key pair.
// myIP is a loopback address that only this process uses (Linux routes all of 127/8 to lo). Every
// listener the harness owns (scripted servers, proxies, sinks) binds to it and every peer entry that
// is meant to be unreachable points at it, so that scenario processes running at the same time - of
// this check or of another one - can never reach each other through a recycled port number. The real
// server binds 127.0.0.1 (repository constant) and is only ever addressed there.
var myIP = func() string {
	p := os.Getpid()
	return fmt.Sprintf("127.%d.%d.%d", 1+p%250, (p/250)%250, 1+(p/62500)%250)
}()

type Key struct {
	Pub  glow.PublicKey
	Priv glow.PrivateKey
}

// detKey derives a key pair deterministically from (seed, index): the private
// key is Keccak(seed, index, counter) for the first counter whose compressed
// public key starts with 0x02 (the convention glow.GenerateKeyPair enforces).
func detKey(seed uint64, idx int) Key {
	for ctr := uint32(0); ; ctr++ {
		var b [20]byte
		binary.LittleEndian.PutUint64(b[0:], seed)
		binary.LittleEndian.PutUint64(b[8:], uint64(idx))
		binary.LittleEndian.PutUint32(b[16:], ctr)
		h := crypto.Keccak256(b[:])
		pk, err := crypto.ToECDSA(h)
		if err != nil {
			continue
		}
		c := crypto.CompressPubkey(&pk.PublicKey)
		if c[0] != 0x02 {
			continue
		}
		var k Key
		copy(k.Priv[:], crypto.FromECDSA(pk))
		copy(k.Pub[:], c[1:])
		return k
	}
}

// Env is one real server on one directory, with its background jobs gated.
type Env struct {
	Dir    string
	S      *server.GCAServer
	Temp   Key
	GCA    Key
	HoldBG bool // background rotation and impact jobs are held at their gates

	gateMu   sync.Mutex
	gateOpen chan struct{} // closed on release: impact loop gate
	tok      chan struct{} // migrate loop gate: one token = one loop iteration; closed on release
	arrive   chan struct{} // holds a token while the migrate loop waits at its gate
}

// prepareServerDir writes the files a technician installs before first start.
func prepareServerDir(dir string, tempPub glow.PublicKey) error {
	if err := os.MkdirAll(filepath.Join(dir, "watttime_data"), 0755); err != nil {
		return err
	}
	if err := os.WriteFile(filepath.Join(dir, "gcaTempPubKey.dat"), tempPub[:], 0644); err != nil {
		return err
	}
	if err := os.WriteFile(filepath.Join(dir, "watttime_data", "username"), []byte("hi"), 0644); err != nil {
		return err
	}
	return os.WriteFile(filepath.Join(dir, "watttime_data", "password"), []byte("ih"), 0644)
}

// holdBackground installs blocking gates on the two background loops. The
// gates are process-global (as are the hook points).
func (e *Env) holdBackground() {
	e.gateMu.Lock()
	e.gateOpen = make(chan struct{})
	e.tok = make(chan struct{})
	e.arrive = make(chan struct{}, 1)
	ch, tok, arrive := e.gateOpen, e.tok, e.arrive
	e.gateMu.Unlock()
	server.VerifSetPoint("impact-loop", func() { <-ch })
	server.VerifSetPoint("migrate-loop", func() {
		select {
		case arrive <- struct{}{}:
		default:
		}
		<-tok
	})
}

// Tick lets the background rotation loop run exactly one iteration (clock
// check, possibly one rotation, sleep) and waits until it is back at its gate.
func (e *Env) Tick() {
	<-e.arrive
	e.tok <- struct{}{}
	<-e.arrive
	e.arrive <- struct{}{}
}

func (e *Env) releaseBackground() {
	e.gateMu.Lock()
	if e.gateOpen != nil {
		close(e.gateOpen)
		close(e.tok)
		e.gateOpen = nil
	}
	e.gateMu.Unlock()
	server.VerifSetPoint("migrate-loop", nil)
	server.VerifSetPoint("impact-loop", nil)
}

// NewEnv prepares a fresh directory and starts a server on it.
func NewEnv(name string, seed uint64, hold bool) (*Env, error) {
	e := &Env{Dir: freshDir(name), Temp: detKey(seed, 1000), GCA: detKey(seed, 1001), HoldBG: hold}
	if err := prepareServerDir(e.Dir, e.Temp.Pub); err != nil {
		return nil, err
	}
	return e, e.Start()
}

// Start starts the server on e.Dir.
func (e *Env) Start() error {
	if e.HoldBG {
		e.holdBackground()
	}
	s, err := server.NewGCAServer(e.Dir)
	if err != nil {
		if e.HoldBG {
			e.releaseBackground()
		}
		return err
	}
	e.S = s
	return nil
}

// Stop shuts the server down. The clock is parked at zero while the gated
// loops drain so that no rotation happens as a side effect of shutdown.
func (e *Env) Stop() error {
	if e.S == nil {
		return nil
	}
	now := glow.CurrentTimeslot()
	if e.HoldBG {
		glow.SetCurrentTimeslot(0)
		e.releaseBackground()
	}
	err := e.S.Close()
	glow.SetCurrentTimeslot(now)
	e.S = nil
	return err
}

// Restart is Stop followed by Start on the same directory.
func (e *Env) Restart() error {
	if err := e.Stop(); err != nil {
		return fmt.Errorf("stop: %v", err)
	}
	return e.Start()
}

func (e *Env) url(path string) string {
	h, _, _ := e.S.Ports()
	return fmt.Sprintf("http://127.0.0.1:%v%s", h, path)
}

var httpClient = &http.Client{Timeout: 20 * time.Second}

// PostJSON posts v and returns the status code and body.
func (e *Env) PostJSON(path string, v interface{}) (int, []byte, error) {
	j, err := json.Marshal(v)
	if err != nil {
		return 0, nil, err
	}
	return e.PostRaw(path, j)
}

var postCount int64

func (e *Env) PostRaw(path string, body []byte) (int, []byte, error) {
	// every third order is sent with a body of undeclared length (chunked transfer, no Content-Length): the
	// same order to the handler, read by a different path of the HTTP library
	var rd io.Reader = bytes.NewReader(body)
	if atomic.AddInt64(&postCount, 1)%3 == 0 {
		rd = struct{ io.Reader }{bytes.NewReader(body)}
	}
	resp, err := httpClient.Post(e.url(path), "application/json", rd)
	if err != nil {
		return 0, nil, err
	}
	defer resp.Body.Close()
	b, _ := io.ReadAll(resp.Body)
	return resp.StatusCode, b, nil
}

func (e *Env) Get(path string) (int, []byte, error) {
	resp, err := httpClient.Get(e.url(path))
	if err != nil {
		return 0, nil, err
	}
	defer resp.Body.Close()
	b, _ := io.ReadAll(resp.Body)
	return resp.StatusCode, b, nil
}

// Register submits the GCA key signed by signer over HTTP.
func (e *Env) Register(gcaPub glow.PublicKey, signer glow.PrivateKey) (int, error) {
	gr := server.GCARegistration{GCAKey: gcaPub}
	gr.Signature = glow.Sign(gr.SigningBytes(), signer)
	st, _, err := e.PostJSON("/api/v1/register-gca", gr)
	return st, err
}

// RegisterDefault registers e.GCA with the temp key.
func (e *Env) RegisterDefault() error {
	st, err := e.Register(e.GCA.Pub, e.Temp.Priv)
	if err != nil {
		return err
	}
	if st != 200 {
		return fmt.Errorf("register-gca status %d", st)
	}
	return nil
}

// SignAuth signs an authorization with the given key.
func SignAuth(ea glow.EquipmentAuthorization, k glow.PrivateKey) glow.EquipmentAuthorization {
	ea.Signature = glow.Sign(ea.SigningBytes(), k)
	return ea
}

// Authorize posts a (signed) authorization over HTTP and returns the status.
func (e *Env) Authorize(ea glow.EquipmentAuthorization) (int, error) {
	st, _, err := e.PostJSON("/api/v1/authorize-equipment", ea)
	return st, err
}

// MkReport builds and signs a report.
func MkReport(id, ts uint32, p uint64, k glow.PrivateKey) glow.EquipmentReport {
	r := glow.EquipmentReport{ShortID: id, Timeslot: ts, PowerOutput: p}
	r.Signature = glow.Sign(r.SigningBytes(), k)
	return r
}

// SyncRaw performs the TCP sync request for id and returns every byte the
// server sent before closing.
func (e *Env) SyncRaw(id uint32) ([]byte, error) {
	_, tcp, _ := e.S.Ports()
	conn, err := net.DialTimeout("tcp", fmt.Sprintf("127.0.0.1:%d", tcp), 5*time.Second)
	if err != nil {
		return nil, err
	}
	defer conn.Close()
	var b [4]byte
	binary.LittleEndian.PutUint32(b[:], id)
	if _, err := conn.Write(b[:]); err != nil {
		return nil, err
	}
	conn.SetReadDeadline(time.Now().Add(10 * time.Second))
	return io.ReadAll(conn)
}
