package main

// Client-side environment helpers.

import (
	"encoding/binary"
	"os"
	"path/filepath"

	"github.com/glowlabs-org/gca-backend/client"
	"github.com/glowlabs-org/gca-backend/glow"
)

// ClientDir describes what is installed on a device before first start.
type ClientDir struct {
	Dir           string
	Key           Key
	GCAPub        glow.PublicKey
	ShortID       uint32
	Servers       map[glow.PublicKey]client.GCAServer
	HistoryOffset uint32
	Energy        *string // nil: header only
	CT            *string // nil: no calibration file
}

func writeClientDir(cd ClientDir) error {
	os.MkdirAll(cd.Dir, 0755)
	var kd [64]byte
	copy(kd[:32], cd.Key.Pub[:])
	copy(kd[32:], cd.Key.Priv[:])
	if err := os.WriteFile(filepath.Join(cd.Dir, client.ClientKeyFile), kd[:], 0644); err != nil {
		return err
	}
	if err := os.WriteFile(filepath.Join(cd.Dir, client.GCAPubKeyFile), cd.GCAPub[:], 0644); err != nil {
		return err
	}
	raw, err := client.SerializeGCAServerMap(cd.Servers)
	if err != nil {
		return err
	}
	if err := os.WriteFile(filepath.Join(cd.Dir, client.GCAServerMapFile), raw, 0644); err != nil {
		return err
	}
	var ob [4]byte
	binary.LittleEndian.PutUint32(ob[:], cd.HistoryOffset)
	if err := os.WriteFile(filepath.Join(cd.Dir, client.HistoryFile), ob[:], 0644); err != nil {
		return err
	}
	var sb [4]byte
	binary.LittleEndian.PutUint32(sb[:], cd.ShortID)
	if err := os.WriteFile(filepath.Join(cd.Dir, client.ShortIDFile), sb[:], 0644); err != nil {
		return err
	}
	energy := "timestamp,energy (mWh)"
	if cd.Energy != nil {
		energy = *cd.Energy
	}
	if err := os.WriteFile(filepath.Join(cd.Dir, client.EnergyFile), []byte(energy), 0644); err != nil {
		return err
	}
	if cd.CT != nil {
		if err := os.WriteFile(filepath.Join(cd.Dir, client.CTSettingsFile), []byte(*cd.CT), 0644); err != nil {
			return err
		}
	}
	return nil
}

// serverEntry describes a real server as a client-side map entry.
func serverEntry(e *Env) (glow.PublicKey, client.GCAServer) {
	h, t, u := e.S.Ports()
	return e.S.PublicKey(), client.GCAServer{Location: "127.0.0.1", HttpPort: h, TcpPort: t, UdpPort: u}
}
