package main

// C02, exhaustively for short sequences over a small alphabet: every sequence of length 1..L over
// {a, a' (the same content signed again: a different report), b (another value), c (over capacity)}
// is delivered to a slot of its own, and the slot must end up as the model says (0 / the value / the
// ban sentinel) - in every order, with every replay.

import (
	"fmt"
	"os"
	"strconv"

	"github.com/glowlabs-org/gca-backend/glow"
	"github.com/glowlabs-org/gca-backend/server"
)

func runExhaustiveC02(seed uint64, maxLen int, t *Trace) error {
	s, err := NewSrv(fmt.Sprintf("c02x-%d", seed), seed, t)
	if err != nil {
		return err
	}
	defer s.Close()
	now := uint32(2000)
	if err := s.Boot(now); err != nil {
		return err
	}
	gr := server.GCARegistration{GCAKey: s.E.GCA.Pub}
	if s.Register(s.E.GCA.Pub, glow.Sign(gr.SigningBytes(), s.E.Temp.Priv)) != "ok" {
		return fmt.Errorf("registration refused")
	}
	// enough devices for one slot per sequence (800 usable slots per device around `now`)
	total := 0
	for l, p := 1, 4; l <= maxLen; l, p = l+1, p*4 {
		total += p
	}
	ndev := total/800 + 1
	var devs []devInfo
	for i := 0; i < ndev; i++ {
		k := detKey(seed, 10+i)
		ea := glow.EquipmentAuthorization{ShortID: uint32(1 + i), PublicKey: k.Pub, Capacity: 1000, Latitude: 1, Longitude: 2}
		ea = SignAuth(ea, s.E.GCA.Priv)
		if s.Authorize(ea, false) != "new" {
			return fmt.Errorf("device refused")
		}
		devs = append(devs, devInfo{uint32(1 + i), k, ea})
	}
	idx := 0
	for l := 1; l <= maxLen; l++ {
		n := 1
		for i := 0; i < l; i++ {
			n *= 4
		}
		for code := 0; code < n; code++ {
			dv := devs[idx/800]
			ts := now - 400 + uint32(idx%800)
			idx++
			a := MkReport(dv.id, ts, 500, dv.key.Priv)
			a2 := a
			a2.Signature = SignRandom(a.SigningBytes(), dv.key.Priv)
			b := MkReport(dv.id, ts, 501, dv.key.Priv)
			c := MkReport(dv.id, ts, 1351, dv.key.Priv)
			alphabet := [][]byte{a.Serialize(), a2.Serialize(), b.Serialize(), c.Serialize()}
			x := code
			for i := 0; i < l; i++ {
				s.Dgram(alphabet[x%4])
				x /= 4
			}
			t.Count(fmt.Sprintf("c02x.len%d", l))
		}
	}
	s.Snap()
	s.Disk()
	t.DumpStats()
	return nil
}

func init() {
	commands["c02xscenario"] = func(a []string) int {
		seed, _ := strconv.ParseUint(a[0], 10, 64)
		l, _ := strconv.Atoi(a[1])
		if err := runExhaustiveC02(seed, l, NewTrace(os.Stdout)); err != nil {
			fmt.Printf("# scenario error: %v\n", err)
			return 3
		}
		return 0
	}
	commands["c02x"] = func(a []string) int {
		// c02x <seed> <n> <maxlen> <outfile>
		base, _ := strconv.ParseUint(a[0], 10, 64)
		n, _ := strconv.Atoi(a[1])
		l, _ := strconv.Atoi(a[2])
		f, err := os.Create(a[3])
		if err != nil {
			return 2
		}
		defer f.Close()
		c := runMany([]string{"c02xscenario"}, base, n, 4, l, f)
		fmt.Printf("HARNESS scenarios=%d crashes=%d\n", n, c)
		return 0
	}
}
