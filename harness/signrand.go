package main

import (
	"crypto/ecdsa"
	"crypto/rand"
	"math/big"

	"github.com/ethereum/go-ethereum/crypto"
	"github.com/glowlabs-org/gca-backend/glow"
)

// SignRandom produces a valid signature with a random nonce (glow.Sign is
// deterministic, RFC 6979): the same content signed twice gives two different
// valid signatures, which is what a "re-signed variant of the same content" is.
func SignRandom(data []byte, priv glow.PrivateKey) glow.Signature {
	k, err := crypto.ToECDSA(priv[:])
	if err != nil {
		panic(err)
	}
	h := crypto.Keccak256(data)
	r, s, err := ecdsa.Sign(rand.Reader, k, h)
	if err != nil {
		panic(err)
	}
	n := crypto.S256().Params().N
	half := new(big.Int).Rsh(n, 1)
	if s.Cmp(half) > 0 {
		s = new(big.Int).Sub(n, s)
	}
	var sig glow.Signature
	r.FillBytes(sig[:32])
	s.FillBytes(sig[32:])
	return sig
}

// Malleate returns the twin (r, n-s) of an ECDSA signature. It verifies under plain ECDSA, but the
// code base only accepts the canonical low-s form, so the twin of a signature made by glow.Sign
// must be refused: otherwise anyone who sees a report can produce a second, different datagram for it.
func Malleate(sig glow.Signature) glow.Signature {
	n := crypto.S256().Params().N
	s := new(big.Int).SetBytes(sig[32:])
	s = new(big.Int).Sub(n, s)
	var out glow.Signature
	copy(out[:32], sig[:32])
	s.FillBytes(out[32:])
	return out
}

// MirrorKey returns the private key n-d: a different key whose public point has the same x coordinate
// as d's (and the other parity). The code base identifies a key by its x coordinate and fixes the parity,
// so a signature made with the mirror key must not verify under the public key of d.
func MirrorKey(priv glow.PrivateKey) glow.PrivateKey {
	n := crypto.S256().Params().N
	d := new(big.Int).SetBytes(priv[:])
	m := new(big.Int).Sub(n, d)
	var out glow.PrivateKey
	m.FillBytes(out[:])
	return out
}
