package main

// Sync rounds (C11, C17) and the resend loop (C08): a real client against
// scripted servers that produce every per-attempt outcome; the model is told
// which servers were dialed (the shuffle is random) and what each served.

import (
	"encoding/binary"
	"fmt"
	"net"
	"os"
	"path/filepath"
	"sort"
	"strconv"
	"strings"
	"sync"
	"time"

	"github.com/glowlabs-org/gca-backend/client"
	"github.com/glowlabs-org/gca-backend/glow"
	"github.com/glowlabs-org/gca-backend/server"
)

type udpSink struct {
	c    *net.UDPConn
	mu   sync.Mutex
	pkts [][]byte
}

func newUDPSink() *udpSink {
	c, err := net.ListenUDP("udp", &net.UDPAddr{IP: net.ParseIP(myIP)})
	if err != nil {
		panic(err)
	}
	s := &udpSink{c: c}
	go func() {
		for {
			b := make([]byte, 2000)
			n, _, err := c.ReadFromUDP(b)
			if err != nil {
				return
			}
			s.mu.Lock()
			s.pkts = append(s.pkts, b[:n])
			s.mu.Unlock()
		}
	}()
	return s
}
func (s *udpSink) port() uint16 { return uint16(s.c.LocalAddr().(*net.UDPAddr).Port) }

// settle waits until no new datagram has arrived for `quiet` (at most `max`).
func (s *udpSink) settle(quiet, max time.Duration) {
	deadline := time.Now().Add(max)
	last, lastN := time.Now(), -1
	for time.Now().Before(deadline) {
		s.mu.Lock()
		n := len(s.pkts)
		s.mu.Unlock()
		if n != lastN {
			lastN, last = n, time.Now()
		} else if time.Since(last) >= quiet {
			return
		}
		time.Sleep(2 * time.Millisecond)
	}
}

func (s *udpSink) take() [][]byte {
	s.mu.Lock()
	defer s.mu.Unlock()
	p := s.pkts
	s.pkts = nil
	return p
}

// mkReplyBody builds a reply body (without length prefix and server signature).
func mkReplyBody(dev glow.PublicKey, off uint32, bits [504]byte, mig *server.EquipmentMigration, servers []server.AuthorizedServer, ts int64) []byte {
	b := append([]byte(nil), dev[:]...)
	var o [4]byte
	binary.LittleEndian.PutUint32(o[:], off)
	b = append(b, o[:]...)
	b = append(b, bits[:]...)
	if mig != nil {
		b = append(b, mig.Serialize()[32:]...)
	} else {
		b = append(b, make([]byte, 36)...)
		for _, a := range servers {
			a := a
			b = append(b, a.Serialize()...)
		}
		b = append(b, make([]byte, 64)...)
	}
	var tb [8]byte
	binary.LittleEndian.PutUint64(tb[:], uint64(ts))
	return append(b, tb[:]...)
}

func frame(body []byte, k glow.PrivateKey) []byte {
	sig := glow.Sign(body, k)
	out := make([]byte, 2)
	binary.LittleEndian.PutUint16(out, uint16(len(body)+64))
	return append(append(out, body...), sig[:]...)
}

func canonClientServers(m map[glow.PublicKey]client.GCAServer) string {
	var es []string
	for k, s := range m {
		b := 0
		if s.Banned {
			b = 1
		}
		es = append(es, fmt.Sprintf("%s,%d,%s,%d,%d,%d", hx(k[:]), b, hx([]byte(s.Location)), s.HttpPort, s.TcpPort, s.UdpPort))
	}
	sort.Strings(es)
	return strings.Join(es, ";")
}

func canonClientDisk(dir string) string {
	g, _ := os.ReadFile(filepath.Join(dir, client.GCAPubKeyFile))
	sid, _ := os.ReadFile(filepath.Join(dir, client.ShortIDFile))
	raw, _ := os.ReadFile(filepath.Join(dir, client.GCAServerMapFile))
	m, err := client.UntrustedDeserializeGCAServerMap(raw)
	sm := "UNDECODABLE"
	if err == nil {
		sm = canonClientServers(m)
	}
	id := uint32(0)
	if len(sid) >= 4 {
		id = binary.LittleEndian.Uint32(sid)
	}
	return fmt.Sprintf("gca=%s id=%d servers=%s", hx(g), id, sm)
}

func runRoundScenario(seed uint64, size int, t *Trace) error {
	r := &Rng{s: seed*59 + 19}
	dev := detKey(seed, 1)
	gca := detKey(seed, 1001)
	newGCA := detKey(seed, 700)
	nsrv := 1 + r.Intn(5)
	sink := newUDPSink()
	defer sink.c.Close()
	type fsrv struct {
		key Key
		ss  *scriptServer
	}
	var fs []fsrv
	servers := map[glow.PublicKey]client.GCAServer{}
	var acceptLog []int
	var logMu sync.Mutex
	for i := 0; i < nsrv; i++ {
		f := fsrv{detKey(seed, 800+i), newScriptServer()}
		fs = append(fs, f)
		servers[f.key.Pub] = client.GCAServer{Banned: r.Chance(25), Location: myIP, HttpPort: 1, TcpPort: f.ss.port(), UdpPort: sink.port()}
		defer f.ss.close()
	}
	if r.Chance(15) {
		for k, v := range servers {
			v.Banned = true
			servers[k] = v
		}
	}
	origin := uint32(r.Intn(50))
	dir := freshDir("round")
	defer os.RemoveAll(dir)
	if err := writeClientDir(ClientDir{Dir: dir, Key: dev, GCAPub: gca.Pub, ShortID: 1, Servers: servers, HistoryOffset: origin}); err != nil {
		return err
	}
	if r.Chance(40) {
		// leftovers of an earlier run that died while replacing a file (whatever scheme it used): they must not
		// find their way into the real files
		for _, f := range []string{client.GCAServerMapFile, client.GCAPubKeyFile, client.ShortIDFile} {
			os.WriteFile(filepath.Join(dir, f+".tmp"), r.Bytes(600+r.Intn(3000)), 0644)
		}
	}
	c, err := client.VerifNewClientNoLoop(dir)
	if err != nil {
		return err
	}
	t.Line("scenario round-%d", seed)
	t.Line("cl.hist.new origin=%d", origin)
	latest := origin
	for i := 0; i < 3+r.Intn(25); i++ {
		ts := origin + uint32(r.Intn(60))
		v := []uint32{2, 3, 500, 1 << 31, 0xFFFFFFFF, 1, uint32(r.Next())}[r.Intn(7)]
		if c.VerifSaveReading(ts, v) == nil {
			t.Line("cl.hist.save ts=%d v=%d => ok %s", ts, v, histCanon(dir))
			if ts > latest {
				latest = ts
			}
		}
	}
	curGCA := gca
	curID := uint32(1)
	emitState := func() {
		t.Line("cl.client.new ck=%s gk=%s id=%d servers=%s", hx(dev.Pub[:]), hx(curGCA.Pub[:]), curID, canonClientServers(c.VerifState().Servers))
	}
	emitState()
	seen := map[string]bool{}
	for round := 0; round < size; round++ {
		st := c.VerifState()
		// script every server for this round
		type plan struct {
			mode   string
			stream []byte
		}
		plans := make([]plan, nsrv)
		for i := range fs {
			i := i
			fs[i].ss.mu.Lock()
			fs[i].ss.onAccept = func() {
				logMu.Lock()
				acceptLog = append(acceptLog, i)
				logMu.Unlock()
			}
			fs[i].ss.mu.Unlock()
		}
		// overlapping rounds: a first round is started and held inside its first attempt (every server keeps
		// the connection open); the round below runs to its end meanwhile and may learn of a ban; then the held
		// connection is dropped and the first round goes on. It must decide with what the client knows NOW.
		overlap := nsrv >= 3 && r.Chance(20)
		hung := -1
		var rel chan struct{}
		var r1done chan [2]bool
		lat1 := latest
		gcaAtBegin := curGCA.Pub // a round reads the GCA key once, when it starts
		if overlap {
			rel = make(chan struct{})
			for i := range fs {
				fs[i].ss.setHang(rel)
			}
			logMu.Lock()
			acceptLog = acceptLog[:0]
			logMu.Unlock()
			r1done = make(chan [2]bool, 1)
			cc := c
			go func() {
				var ok, died bool
				func() {
					defer func() {
						if recover() != nil {
							died = true
						}
					}()
					ok = cc.VerifSyncRound(lat1)
				}()
				r1done <- [2]bool{ok, died}
			}()
			early := false
			for w := 0; w < 3000 && hung < 0 && !early; w++ {
				logMu.Lock()
				if len(acceptLog) > 0 {
					hung = acceptLog[0]
				}
				logMu.Unlock()
				if hung < 0 {
					select {
					case <-r1done:
						early = true // nothing eligible: the round ended without dialling anybody
					case <-time.After(time.Millisecond):
					}
				}
			}
			if hung < 0 {
				close(rel)
				if !early {
					<-r1done
				}
				overlap = false
				t.Count("round.overlap-not-started")
			} else {
				t.Count("round.overlap")
				t.Line("cl.round.begin latest=%d choices=%s:fail", lat1, hx(fs[hung].key.Pub[:]))
			}
		}
		off := origin + uint32(r.Intn(20)) - uint32(r.Intn(3))
		// the latest reading the round is started with, relative to the window the replies describe: inside it,
		// exactly at its end (4031/4032/4033 slots ahead), far ahead, and behind its start (unsigned wrap)
		lat := latest
		switch r.pick([]int{60, 8, 8, 8, 6, 5, 5}) {
		case 1:
			lat = off + 4031
		case 2:
			lat = off + 4032
		case 3:
			lat = off + 4033
		case 4:
			lat = off + 4032 + uint32(r.Intn(5000))
		case 5:
			off = latest + 1 + uint32(r.Intn(3)) // window starts after the latest reading
		case 6:
			off = latest - 4032 - uint32(r.Intn(3))
		}
		for i := range fs {
			var bits [504]byte
			for k := 0; k < 504; k++ {
				if r.Chance(50) {
					bits[k] = byte(r.Next())
				}
			}
			var list []server.AuthorizedServer
			var mig *server.EquipmentMigration
			signer := curGCA.Priv
			kindL := r.pick([]int{30, 25, 12, 8})
			if overlap && r.Chance(70) {
				kindL = 4
			}
			switch kindL {
			case 4: // (while another round is held) the GCA bans every server but the one that answers
				for j := range fs {
					if j != i {
						cs := st.Servers[fs[j].key.Pub]
						as := server.AuthorizedServer{PublicKey: fs[j].key.Pub, Banned: true, Location: myIP, HttpPort: 5, TcpPort: cs.TcpPort, UdpPort: cs.UdpPort}
						if as.Banned && r.Chance(30) {
							as.Location, as.HttpPort, as.TcpPort, as.UdpPort = "", 0, 0, 0 // a ban that names nothing but the key
						}
						as.GCAAuthorization = glow.Sign(as.SigningBytes(), signer)
						list = append(list, as)
					}
				}
			case 1: // ban / re-announce some of the known servers, add a new one
				for j := range fs {
					if r.Chance(40) {
						cs := st.Servers[fs[j].key.Pub]
						as := server.AuthorizedServer{PublicKey: fs[j].key.Pub, Banned: r.Chance(50), Location: myIP, HttpPort: uint16(2 + r.Intn(3)), TcpPort: cs.TcpPort, UdpPort: cs.UdpPort}
						if as.Banned && r.Chance(30) {
							as.Location, as.HttpPort, as.TcpPort, as.UdpPort = "", 0, 0, 0 // a ban that names nothing but the key
						}
						as.GCAAuthorization = glow.Sign(as.SigningBytes(), signer)
						list = append(list, as)
					}
				}
				if r.Chance(30) {
					as := server.AuthorizedServer{PublicKey: detKey(seed, 900+r.Intn(3)).Pub, Banned: r.Chance(30), Location: myIP, HttpPort: 9, TcpPort: closedPortOnce(), UdpPort: sink.port()}
					as.GCAAuthorization = glow.Sign(as.SigningBytes(), signer)
					list = append(list, as)
				}
				if len(list) > 0 && r.Chance(25) {
					// the same key twice: a second entry for a listed server, either GCA-signed too or forged by
					// the replying server (before or after the genuine one)
					dup := list[r.Intn(len(list))]
					dup.Banned = !dup.Banned || r.Chance(50)
					dup.HttpPort++
					dsigner := signer
					if r.Chance(60) {
						dsigner = fs[i].key.Priv
					}
					dup.GCAAuthorization = glow.Sign(dup.SigningBytes(), dsigner)
					if r.Chance(50) {
						list = append([]server.AuthorizedServer{dup}, list...)
					} else {
						list = append(list, dup)
					}
				}
			case 2: // migration order (sometimes for another device, sometimes with a bad inner signature)
				eq := dev.Pub
				if r.Chance(20) {
					eq = detKey(seed, 2).Pub
				}
				em := server.EquipmentMigration{Equipment: eq, NewGCA: newGCA.Pub, NewShortID: uint32(2 + r.Intn(50))}
				for j := range fs {
					if r.Chance(60) {
						cs := st.Servers[fs[j].key.Pub]
						as := server.AuthorizedServer{PublicKey: fs[j].key.Pub, Banned: r.Chance(20), Location: myIP, HttpPort: 7, TcpPort: cs.TcpPort, UdpPort: cs.UdpPort}
						in := newGCA.Priv
						if r.Chance(10) {
							in = curGCA.Priv
						}
						as.GCAAuthorization = glow.Sign(as.SigningBytes(), in)
						em.NewServers = append(em.NewServers, as)
					}
				}
				out := curGCA.Priv
				if r.Chance(15) {
					out = newGCA.Priv
				}
				em.Signature = glow.Sign(em.SigningBytes(), out)
				mig = &em
			case 3: // entry signed by a key that is not the GCA
				// ... either a new server or a "ban" of a server the client knows (a ban nobody authorised)
				as := server.AuthorizedServer{PublicKey: detKey(seed, 950).Pub, Location: "evil", HttpPort: 1, TcpPort: 2, UdpPort: 3}
				if r.Chance(60) {
					j := r.Intn(len(fs))
					cs := st.Servers[fs[j].key.Pub]
					as = server.AuthorizedServer{PublicKey: fs[j].key.Pub, Banned: true, Location: myIP, HttpPort: 4, TcpPort: cs.TcpPort, UdpPort: cs.UdpPort}
				} else if r.Chance(50) {
					as.Banned = true
				}
				as.GCAAuthorization = glow.Sign(as.SigningBytes(), fs[i].key.Priv)
				list = append(list, as)
			}
			body := mkReplyBody(dev.Pub, off, bits, mig, list, time.Now().Unix())
			good := frame(body, fs[i].key.Priv)
			modeK := r.pick([]int{55, 12, 12, 12, 9})
			if overlap && r.Chance(80) {
				modeK = 0
			}
			switch modeK {
			case 0:
				plans[i] = plan{"reply", good}
			case 1:
				plans[i] = plan{"reset", nil}
			case 2:
				plans[i] = plan{"short", good}
			case 3:
				plans[i] = plan{"reply", frame(body, detKey(seed, 60).Priv)} // signed by another key
			default:
				plans[i] = plan{"reply", r.Bytes(r.Intn(900))}
			}
			if overlap && i == hung {
				plans[i] = plan{"reset", nil}
			}
			deliver := plans[i].mode
			if deliver == "reply" && r.Chance(30) {
				deliver = "chunked" // the same reply, arriving in several TCP segments
			}
			fs[i].ss.set(deliver, plans[i].stream)
			i := i
			fs[i].ss.mu.Lock()
			fs[i].ss.conns = 0
			fs[i].ss.mu.Unlock()
			_ = i
		}
		// dial order: every scripted server logs its accepts itself. The client dials one server at a time and
		// an attempt cannot finish before its server has accepted, so the accept order is the dial order.
		logMu.Lock()
		acceptLog = acceptLog[:0]
		logMu.Unlock()
		stop := make(chan struct{})
		var wg sync.WaitGroup
		sink.take()
		t0 := time.Now().Unix()
		// fault: the server map cannot be written during this round (a directory sits at its path). The client
		// is allowed to die of it (the code panics on purpose) but not to live on with a list in memory that is
		// not the list on disk: if it survives, the round is recorded and compared like any other.
		mapPath := filepath.Join(dir, client.GCAServerMapFile)
		fault := r.Chance(8) && !overlap
		if fault {
			if os.Rename(mapPath, mapPath+".aside") == nil {
				os.Mkdir(mapPath, 0755)
			} else {
				fault = false
			}
		}
		ok, died := func() (ok bool, died bool) {
			defer func() {
				if recover() != nil {
					died = true
				}
			}()
			return c.VerifSyncRound(lat), false
		}()
		if fault {
			os.Remove(mapPath)
			os.Rename(mapPath+".aside", mapPath)
			t.Count(fmt.Sprintf("round.map-write-fault:died=%v", died))
		}
		if died {
			close(stop)
			wg.Wait()
			if !fault {
				t.Line("cl.roundfault what=client-panicked-without-a-fault => PANIC")
			}
			break
		}
		sink.settle(40*time.Millisecond, 600*time.Millisecond)
		close(stop)
		wg.Wait()
		if time.Now().Unix() != t0 {
			t.Count("round.clock-ambiguous")
		}
		lockFree := c.VerifTryLock()
		var choices []string
		for _, i := range acceptLog {
			p := plans[i]
			if p.mode == "reply" {
				replyOracle(t, seen, p.stream, dev.Pub, curGCA.Pub, fs[i].key.Pub)
				choices = append(choices, hx(fs[i].key.Pub[:])+":ok:"+hx(p.stream))
			} else {
				choices = append(choices, hx(fs[i].key.Pub[:])+":fail")
			}
		}
		var resent []string
		idOK := true
		after := c.VerifState()
		for _, p := range sink.take() {
			rep, err := glow.DeserializeReport(p)
			if err != nil || !glow.Verify(dev.Pub, rep.SigningBytes(), rep.Signature) || rep.ShortID != after.ShortID {
				idOK = false
			}
			resent = append(resent, fmt.Sprintf("%d.%d", rep.Timeslot, rep.PowerOutput))
		}
		res := "failed"
		if ok {
			res = "synced"
		}
		lf := 0
		if lockFree {
			lf = 1
		}
		t.Count("round:" + res)
		t.Count(fmt.Sprintf("round.attempts:%d", len(acceptLog)))
		t.Line("cl.round latest=%d now=%d choices=%s => %s lockfree=%d sigs=%v gk=%s id=%d servers=%s disk=[%s] resent=%s primary=%s", lat, t0, strings.Join(choices, ";"),
			res, lf, idOK, hx(after.GCAPubKey[:]), after.ShortID, canonClientServers(after.Servers), canonClientDisk(dir), strings.Join(resent, ","), hx(after.PrimaryServer[:]))
		if after.GCAPubKey != curGCA.Pub {
			curGCA = newGCA
		}
		curID = after.ShortID
		if overlap {
			logMu.Lock()
			acceptLog = acceptLog[:0]
			logMu.Unlock()
			sink.take()
			t1 := time.Now().Unix()
			close(rel)
			var res [2]bool
			select {
			case res = <-r1done:
			case <-time.After(60 * time.Second):
				t.Line("cl.roundfault what=held-round-never-returned => WEDGED")
				return nil
			}
			if res[1] {
				t.Line("cl.roundfault what=client-panicked-without-a-fault => PANIC")
				break
			}
			sink.settle(40*time.Millisecond, 600*time.Millisecond)
			var ch2 []string
			logMu.Lock()
			log2 := append([]int(nil), acceptLog...)
			logMu.Unlock()
			for _, i := range log2 {
				p := plans[i]
				if p.mode == "reply" {
					replyOracle(t, seen, p.stream, dev.Pub, gcaAtBegin, fs[i].key.Pub)
					replyOracle(t, seen, p.stream, dev.Pub, curGCA.Pub, fs[i].key.Pub)
					ch2 = append(ch2, hx(fs[i].key.Pub[:])+":ok:"+hx(p.stream))
				} else {
					ch2 = append(ch2, hx(fs[i].key.Pub[:])+":fail")
				}
			}
			var resent2 []string
			id2 := true
			after2 := c.VerifState()
			for _, p := range sink.take() {
				rep, err := glow.DeserializeReport(p)
				if err != nil || !glow.Verify(dev.Pub, rep.SigningBytes(), rep.Signature) || rep.ShortID != after2.ShortID {
					id2 = false
				}
				resent2 = append(resent2, fmt.Sprintf("%d.%d", rep.Timeslot, rep.PowerOutput))
			}
			res2 := "failed"
			if res[0] {
				res2 = "synced"
			}
			lf2 := 0
			if c.VerifTryLock() {
				lf2 = 1
			}
			t.Count("round.overlap-end:" + res2)
			t.Line("cl.round.end latest=%d now=%d choices=%s => %s lockfree=%d sigs=%v gk=%s id=%d servers=%s disk=[%s] resent=%s primary=%s", lat1, t1, strings.Join(ch2, ";"),
				res2, lf2, id2, hx(after2.GCAPubKey[:]), after2.ShortID, canonClientServers(after2.Servers), canonClientDisk(dir), strings.Join(resent2, ","), hx(after2.PrimaryServer[:]))
			if after2.GCAPubKey != curGCA.Pub {
				curGCA = newGCA
			}
			curID = after2.ShortID
		}
		// restart the client now and then: it must come back with the same identity and list
		if r.Chance(25) {
			c2, err := client.VerifNewClientNoLoop(dir)
			if err != nil {
				t.Line("cl.restart => FAILED %v", strings.ReplaceAll(err.Error(), " => ", " "))
				return nil
			}
			s2 := c2.VerifState()
			t.Count("round.restart")
			t.Line("cl.restart => gk=%s id=%d servers=%s", hx(s2.GCAPubKey[:]), s2.ShortID, canonClientServers(s2.Servers))
			c = c2
		}
	}
	t.DumpStats()
	return nil
}

func init() {
	commands["roundscenario"] = func(a []string) int {
		seed, _ := strconv.ParseUint(a[0], 10, 64)
		size, _ := strconv.Atoi(a[1])
		t := NewTrace(os.Stdout)
		if err := runRoundScenario(seed, size, t); err != nil {
			t.Line("# scenario error: %v", err)
			return 3
		}
		return 0
	}
	commands["round"] = func(a []string) int {
		base, _ := strconv.ParseUint(a[0], 10, 64)
		n, _ := strconv.Atoi(a[1])
		size, _ := strconv.Atoi(a[2])
		f, err := os.Create(a[3])
		if err != nil {
			return 2
		}
		defer f.Close()
		c := runMany([]string{"roundscenario"}, base, n, 14, size, f)
		fmt.Printf("HARNESS scenarios=%d crashes=%d\n", n, c)
		return 0
	}
}
