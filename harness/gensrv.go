package main

// Random-but-structured histories for the server properties (C01..C07, C12).
// Every choice derives from one PRNG state, so (focus, seed) replays exactly.

import (
	"bufio"
	"bytes"
	"encoding/binary"
	"fmt"
	"math"
	"net"
	"os"
	"path/filepath"
	"strconv"
	"strings"
	"sync"
	"time"

	"github.com/glowlabs-org/gca-backend/glow"
	"github.com/glowlabs-org/gca-backend/server"
)

type Rng struct{ s uint64 }

func (r *Rng) Next() uint64 {
	r.s += 0x9e3779b97f4a7c15
	z := r.s
	z = (z ^ (z >> 30)) * 0xbf58476d1ce4e5b9
	z = (z ^ (z >> 27)) * 0x94d049bb133111eb
	return z ^ (z >> 31)
}
func (r *Rng) Intn(n int) int {
	if n <= 0 {
		return 0
	}
	return int(r.Next() % uint64(n))
}
func (r *Rng) Chance(pct int) bool { return r.Intn(100) < pct }
func (r *Rng) Bytes(n int) []byte {
	b := make([]byte, n)
	for i := range b {
		b[i] = byte(r.Next())
	}
	return b
}

// pick chooses an index according to integer weights.
func (r *Rng) pick(w []int) int {
	t := 0
	for _, x := range w {
		t += x
	}
	k := r.Intn(t)
	for i, x := range w {
		if k < x {
			return i
		}
		k -= x
	}
	return len(w) - 1
}

type devInfo struct {
	id   uint32
	key  Key
	auth glow.EquipmentAuthorization
}

type srvGen struct {
	s         *Srv
	r         *Rng
	seed      uint64
	focus     string
	devs      []devInfo // authorizations that were accepted as new (by id)
	keys      []Key     // device key pool
	sent      [][]byte  // datagrams sent so far (for replays)
	regDone   bool
	markerSeq int
	authsSeen []glow.EquipmentAuthorization
	maxOff    int64 // C20X: the last window offset whose arithmetic still fits 32 bits (0 = no bound)
}

func (g *srvGen) off() uint32 { return g.s.E.S.VerifSnapshot().ReportsOffset }

var capChoices = []uint64{1000, 12345, 1 << 40, 1 << 63, math.MaxUint64, 0, 100}

func (g *srvGen) freshAuth(id uint32, k Key) glow.EquipmentAuthorization {
	lats := []float64{38, -0.0, 0, 5e-324, -89.999, 8.9e307, 12.345678, 1e308, 1.7e308}
	// the expiration is a signed field the server stores and never interprets: values in the past, at the
	// current slot and at the ends of its range are as good as any other
	exp := uint32(g.r.Next())
	now := glow.CurrentTimeslot()
	switch g.r.Intn(8) {
	case 0:
		exp = 0
	case 1:
		exp = now
	case 2:
		if now > 0 {
			exp = now - 1 - uint32(g.r.Intn(int(now)))
		}
	case 3:
		exp = now + 1
	case 4:
		exp = math.MaxUint32
	}
	return glow.EquipmentAuthorization{ShortID: id, PublicKey: k.Pub, Latitude: lats[g.r.Intn(len(lats))], Longitude: lats[g.r.Intn(len(lats))],
		Capacity: capChoices[g.r.Intn(len(capChoices))], Debt: uint64(g.r.Intn(1000)), Expiration: exp, Initialization: uint32(g.r.Intn(5)), ProtocolFee: g.r.Next()}
}

func (g *srvGen) signer(kind int) glow.PrivateKey {
	switch kind {
	case 0:
		return g.s.E.GCA.Priv
	case 1:
		return g.s.E.Temp.Priv
	case 2:
		return g.keys[g.r.Intn(len(g.keys))].Priv
	default:
		return detKey(g.seed, 900+g.r.Intn(3)).Priv
	}
}

func (g *srvGen) opAuthorize() {
	r := g.r
	if g.regDone && r.Chance(4) {
		// a valid authorization for a brand-new device while the log cannot be written
		if len(g.authsSeen) > 0 && r.Chance(50) {
			// ... or a valid conflicting authorization (it would ban the id): refused, and no ban either
			ea := g.authsSeen[r.Intn(len(g.authsSeen))]
			ea.Debt += 1 + uint64(r.Intn(9))
			g.s.AuthorizeFault(SignAuth(ea, g.s.E.GCA.Priv))
			return
		}
		g.s.AuthorizeFault(SignAuth(g.freshAuth(uint32(20+r.Intn(5)), detKey(g.seed, 300+r.Intn(5))), g.s.E.GCA.Priv))
		return
	}
	var ea glow.EquipmentAuthorization
	kind := r.pick([]int{30, 15, 20, 8, 12, 8, 7, 4})
	switch {
	case kind == 0 || len(g.authsSeen) == 0: // new device
		ea = SignAuth(g.freshAuth(uint32(r.Intn(5)), g.keys[r.Intn(len(g.keys))]), g.s.E.GCA.Priv) // id 0 is a legal id
	case kind == 1: // exact duplicate
		ea = g.authsSeen[r.Intn(len(g.authsSeen))]
	case kind == 2: // conflict differing in one field
		ea = g.authsSeen[r.Intn(len(g.authsSeen))]
		switch r.Intn(9) {
		case 0:
			ea.PublicKey = g.keys[r.Intn(len(g.keys))].Pub
		case 1:
			ea.Latitude += 1
		case 2:
			ea.Longitude = -ea.Longitude
		case 3:
			ea.Capacity++
		case 4:
			ea.Debt++
		case 5:
			ea.Expiration++
		case 6:
			ea.Initialization++
		case 7:
			ea.ProtocolFee++
		case 8:
			ea.Latitude = math.Copysign(ea.Latitude, -1) // only the sign (matters for 0 / -0)
		}
		ea = SignAuth(ea, g.s.E.GCA.Priv)
	case kind == 3: // new id with a key in use
		ea = SignAuth(g.freshAuth(uint32(5+r.Intn(3)), g.keys[r.Intn(len(g.keys))]), g.s.E.GCA.Priv)
	case kind == 4: // bad or foreign signature
		ea = SignAuth(g.freshAuth(uint32(1+r.Intn(6)), g.keys[r.Intn(len(g.keys))]), g.signer(1+r.Intn(3)))
	case kind == 5: // valid signature, then one bit of the signed content flipped
		ea = g.authsSeen[r.Intn(len(g.authsSeen))]
		ea.Debt ^= 1 << uint(r.Intn(64))
	case kind == 7: // an authorization seen before with the high-s twin of its signature: anybody can make it, nobody's key is needed
		ea = g.authsSeen[r.Intn(len(g.authsSeen))]
		tw := Malleate(ea.Signature)
		obs := "ok"
		if glow.Verify(g.s.E.GCA.Pub, ea.SigningBytes(), ea.Signature) && glow.Verify(g.s.E.GCA.Pub, ea.SigningBytes(), tw) {
			obs = "FAILED"
		}
		g.s.T.Count("crypto.twin-authorization")
		g.s.T.Line("crypto.check what=high-s-twin-of-a-valid-signature-verifies => %s", obs)
		ea.Signature = tw
	default: // same content re-signed: identical for the deterministic signer, a different valid signature with a fresh nonce
		ea = g.authsSeen[r.Intn(len(g.authsSeen))]
		if r.Chance(50) {
			ea.Signature = SignRandom(ea.SigningBytes(), g.s.E.GCA.Priv)
		} else {
			ea = SignAuth(ea, g.s.E.GCA.Priv)
		}
	}
	obs := g.s.Authorize(ea, r.Chance(60))
	g.authsSeen = append(g.authsSeen, ea)
	if obs == "new" {
		for _, k := range g.keys {
			if k.Pub == ea.PublicKey {
				g.devs = append(g.devs, devInfo{ea.ShortID, k, ea})
			}
		}
	}
}

func (g *srvGen) powerChoice(cap uint64) uint64 {
	r := g.r
	hi, lo := mul64(cap, 135)
	limit := uint64(math.MaxUint64)
	if hi < 100 {
		limit = div128(hi, lo, 100)
	}
	switch r.pick([]int{30, 6, 6, 6, 8, 8, 6, 5, 5, 5, 5}) {
	case 0:
		return 2 + uint64(r.Intn(1000))
	case 1:
		return 0
	case 2:
		return 1
	case 3:
		return 2
	case 4:
		return limit
	case 5:
		return limit + 1
	case 6:
		return 1 << 63
	case 7:
		return 1<<63 - 1
	case 8:
		return 1<<63 - 2
	case 9:
		return math.MaxUint64 - uint64(r.Intn(5))
	default:
		return r.Next()
	}
}

func mul64(a, b uint64) (uint64, uint64) {
	const mask = 1<<32 - 1
	a0, a1, b0, b1 := a&mask, a>>32, b&mask, b>>32
	w0 := a0 * b0
	t := a1*b0 + w0>>32
	w1, w2 := t&mask, t>>32
	w1 += a0 * b1
	return a1*b1 + w2 + w1>>32, a * b
}

func div128(hi, lo, y uint64) uint64 {
	// hi < y
	var q uint64
	r := hi
	for i := 63; i >= 0; i-- {
		r = r<<1 | (lo>>uint(i))&1
		q <<= 1
		if r >= y {
			r -= y
			q |= 1
		}
	}
	return q
}

// tsChoice picks a timeslot, emphasising the boundaries of the acceptance
// window and of the storage window.
func (g *srvGen) tsChoice() uint32 {
	r := g.r
	now := int64(glow.CurrentTimeslot())
	off := int64(g.off())
	var c int64
	switch r.pick([]int{40, 6, 6, 6, 6, 5, 5, 5, 5, 4, 4, 4}) {
	case 0:
		c = now - 40 + int64(r.Intn(80))
	case 1:
		c = now - 433
	case 2:
		c = now - 432
	case 3:
		c = now + 432
	case 4:
		c = now + 433
	case 5:
		c = off - 1
	case 6:
		c = off
	case 7:
		c = off + 4031
	case 8:
		c = off + 4032
	case 9:
		c = off + 4033
	case 10:
		c = off + 2015 + int64(r.Intn(3))
	default:
		c = now - 432 + int64(r.Intn(865))
	}
	if c < 0 {
		c = 0
	}
	if c > math.MaxUint32 {
		c = math.MaxUint32
	}
	return uint32(c)
}

func (g *srvGen) opDgram() {
	r := g.r
	var d []byte
	kind := r.pick([]int{45, 10, 6, 6, 6, 5, 6, 5, 4, 4, 3, 6, 2, 8})
	forceUDP := false
	if len(g.devs) == 0 && kind != 8 {
		kind = 9
	}
	mk := func() glow.EquipmentReport {
		dv := g.devs[r.Intn(len(g.devs))]
		return MkReport(dv.id, g.tsChoice(), g.powerChoice(dv.auth.Capacity), dv.key.Priv)
	}
	switch kind {
	case 0: // valid report
		d = mk().Serialize()
	case 1: // replay
		if len(g.sent) > 0 {
			d = g.sent[r.Intn(len(g.sent))]
		} else {
			d = mk().Serialize()
		}
	case 2: // second, different report for a slot already used
		if len(g.sent) > 0 {
			old, err := glow.DeserializeReport(g.sent[r.Intn(len(g.sent))][:80])
			if err == nil {
				for _, dv := range g.devs {
					if dv.id == old.ShortID {
						d = MkReport(old.ShortID, old.Timeslot, old.PowerOutput+uint64(1+r.Intn(3)), dv.key.Priv).Serialize()
					}
				}
			}
		}
		if d == nil {
			d = mk().Serialize()
		}
	case 3: // single bit flip
		d = mk().Serialize()
		i := r.Intn(640)
		d[i/8] ^= 1 << uint(i%8)
	case 4: // too short
		d = mk().Serialize()[:r.Intn(80)]
	case 5: // longer than 80 bytes: leading 80 bytes count
		d = append(mk().Serialize(), r.Bytes(1+r.Intn(120))...)
	case 6: // signed by another key in the system
		dv := g.devs[r.Intn(len(g.devs))]
		d = MkReport(dv.id, g.tsChoice(), 2+uint64(r.Intn(100)), g.signer(r.Intn(4))).Serialize()
		if r.Chance(30) {
			// ... or by the mirror key n-d of the device's own key (same x coordinate, other parity)
			rep := MkReport(dv.id, g.tsChoice(), 2+uint64(r.Intn(100)), MirrorKey(dv.key.Priv))
			d = rep.Serialize()
			obs := "ok"
			if glow.Verify(dv.key.Pub, rep.SigningBytes(), rep.Signature) {
				obs = "FAILED"
			}
			g.s.T.Count("crypto.mirror")
			g.s.T.Line("crypto.check what=signature-by-the-mirror-key-verifies => %s", obs)
		}
	case 7: // field swap: id and timeslot exchanged after signing
		rep := mk()
		rep.ShortID, rep.Timeslot = rep.Timeslot, rep.ShortID
		d = rep.Serialize()
	case 8: // random bytes
		d = r.Bytes(r.Intn(201))
	case 9: // unknown id
		d = MkReport(uint32(50+r.Intn(5)), g.tsChoice(), 5, g.keys[0].Priv).Serialize()
	case 11: // the same content as an earlier report, signed again with a fresh nonce (a distinct valid report)
		if len(g.sent) > 0 {
			old, err := glow.DeserializeReport(g.sent[r.Intn(len(g.sent))][:80])
			if err == nil {
				for _, dv := range g.devs {
					if dv.id == old.ShortID {
						old.Signature = SignRandom(old.SigningBytes(), dv.key.Priv)
						d = old.Serialize()
					}
				}
			}
		}
		if d == nil {
			d = mk().Serialize()
		}
	case 13: // a datagram sent earlier (usually an accepted report) with one bit of id, timeslot, power or signature flipped
		if len(g.sent) > 0 {
			d = append([]byte(nil), g.sent[r.Intn(len(g.sent))]...)
			if len(d) >= 80 && r.Chance(25) {
				// the high-s twin of the signature: a different datagram for the same report, made without any key
				var sig glow.Signature
				copy(sig[:], d[16:80])
				tw := Malleate(sig)
				copy(d[16:80], tw[:])
				if rep, err := glow.DeserializeReport(d[:80]); err == nil {
					obs := "ok"
					for _, dv := range g.devs {
						if dv.id == rep.ShortID && glow.Verify(dv.key.Pub, rep.SigningBytes(), sig) && glow.Verify(dv.key.Pub, rep.SigningBytes(), tw) {
							obs = "FAILED"
						}
					}
					g.s.T.Count("crypto.twin")
					g.s.T.Line("crypto.check what=high-s-twin-of-a-valid-signature-verifies => %s", obs)
				}
			} else if len(d) >= 80 {
				var i int
				switch r.Intn(4) {
				case 0:
					i = r.Intn(32)
				case 1:
					i = 32 + r.Intn(32)
				case 2:
					i = 64 + r.Intn(64)
				default:
					i = 128 + r.Intn(512)
				}
				d[i/8] ^= 1 << uint(i%8)
			}
		} else {
			d = mk().Serialize()
		}
	case 12: // a valid report whose signature ends in a zero byte, sent one byte short (zero padding would complete it)
		dv := g.devs[r.Intn(len(g.devs))]
		ts := g.tsChoice()
		for p := uint64(2 + r.Intn(1000)); ; p++ {
			rep := MkReport(dv.id, ts, p, dv.key.Priv)
			if rep.Signature[63] == 0 {
				d = rep.Serialize()[:79]
				break
			}
		}
		forceUDP = true
	default: // multi-bit mutation
		d = mk().Serialize()
		for k := 0; k < 3; k++ {
			i := r.Intn(640)
			d[i/8] ^= 1 << uint(i%8)
		}
	}
	// a share of the datagrams travels through the real UDP socket, with a marker report behind it
	if len(g.devs) > 0 && (forceUDP || r.Chance(12)) && len(d) <= 1400 {
		dv := g.devs[r.Intn(len(g.devs))]
		now := glow.CurrentTimeslot()
		off := g.off()
		g.markerSeq++
		ts := now
		if ts < off {
			ts = off
		}
		// a fresh slot near now for the marker: walk down from now until an unused one is found
		snap := g.s.E.S.VerifSnapshot()
		reps := snap.Reports[dv.id]
		found := false
		for k := uint32(0); k < 400 && ts >= off+k && ts-k+432 >= now; k++ {
			if i := ts - k - off; i < 4032 && reps[i].PowerOutput == 0 {
				ts = ts - k
				found = true
				break
			}
		}
		if found {
			m := MkReport(dv.id, ts, 2+uint64(g.markerSeq), dv.key.Priv).Serialize()
			g.s.DgramUDP(d, m)
			g.sent = append(g.sent, m)
			if len(d) >= 80 {
				g.sent = append(g.sent, d)
			}
			return
		}
	}
	g.s.Dgram(d)
	if len(d) >= 80 {
		g.sent = append(g.sent, d)
	}
}

func (g *srvGen) opClock() {
	r := g.r
	off := int64(g.off())
	now := int64(glow.CurrentTimeslot())
	var c int64
	switch r.pick([]int{40, 10, 10, 8, 6, 6, 4, 3, 3}) {
	case 8:
		c = off - 1 - int64(r.Intn(2500)) // the clock is set back to before the start of the stored window
	case 0:
		c = now + int64(r.Intn(30))
	case 1:
		c = now + 100 + int64(r.Intn(400))
	case 2:
		c = off + 3195 + int64(r.Intn(12)) // around the rotation trigger
	case 3:
		c = off + 3595 + int64(r.Intn(12)) // window end comes within reach
	case 4:
		c = off + 3995 + int64(r.Intn(10)) // around the start-up catch-up bound
	case 5:
		c = off + 4032 + int64(r.Intn(500))
	case 6:
		c = off + 2016*int64(2+r.Intn(3)) + int64(r.Intn(2016)) // several weeks ahead
	default:
		c = now - int64(r.Intn(50)) // clock steps back
	}
	if c < 0 {
		c = 0
	}
	if g.maxOff > 0 && c > g.maxOff+3200 {
		// no rotation may take the window past the no-overflow bound of the 32-bit offset
		c = g.maxOff + 3200 - int64(r.Intn(3))
	}
	g.s.SetNow(uint32(c))
}

// opBadHTTP: every endpoint with a method, query or body it has to refuse.
func (g *srvGen) opBadHTTP() {
	r := g.r
	paths := []string{"/api/v1/all-device-stats", "/api/v1/authorized-servers", "/api/v1/authorize-equipment", "/api/v1/equipment",
		"/api/v1/equipment-migrate", "/api/v1/register-gca", "/api/v1/recent-reports", "/api/v1/geo-stats", "/api/v1/archive", "/api/v1/nothing", "/"}
	p := paths[r.Intn(len(paths))]
	bodies := [][]byte{nil, []byte("{}"), []byte("null"), []byte("[]"), []byte("\"x\""), []byte("123"), []byte("{\"ShortID\":"), []byte("{\"ShortID\":\"one\"}"),
		[]byte("{\"PublicKey\":[1,2,3]}"), []byte("{\"Location\":\"" + strings.Repeat("x", 300) + "\"}"), []byte("{\"Equipment\":7}"), []byte("{\"NewServers\":[{}]}"),
		r.Bytes(1 + r.Intn(60))}
	switch r.Intn(3) {
	case 0: // a method the endpoint does not serve
		m := []string{"PUT", "DELETE", "PATCH", "HEAD", "OPTIONS"}[r.Intn(5)]
		g.s.HTTP(m, p, bodies[r.Intn(len(bodies))])
	case 1: // POST with a body that is no valid order
		post := []string{"/api/v1/authorized-servers", "/api/v1/authorize-equipment", "/api/v1/equipment-migrate", "/api/v1/register-gca"}
		if r.Chance(50) {
			g.s.HTTPChunked("POST", post[r.Intn(len(post))], bodies[1+r.Intn(len(bodies)-1)])
		} else {
			g.s.HTTP("POST", post[r.Intn(len(post))], bodies[r.Intn(len(bodies))])
		}
	default: // GET with a query the endpoint has to refuse
		qs := []string{"/api/v1/all-device-stats", "/api/v1/all-device-stats?timeslot_offset=", "/api/v1/all-device-stats?timeslot_offset=abc",
			"/api/v1/all-device-stats?timeslot_offset=-2016", "/api/v1/all-device-stats?timeslot_offset=99999999999999999999999",
			"/api/v1/all-device-stats?timeslot_offset=2016.5", "/api/v1/all-device-stats?timeslot_offset=0x7e0", "/api/v1/all-device-stats?timeslot_offset=%zz",
			"/api/v1/all-device-stats?timeslot_offset=1", "/api/v1/all-device-stats?timeslot_offset=18446744073709551615",
			"/api/v1/recent-reports", "/api/v1/recent-reports?publicKey=", "/api/v1/recent-reports?publicKey=zz", "/api/v1/recent-reports?publicKey=abc",
			"/api/v1/recent-reports?publicKey=" + strings.Repeat("ab", 31), "/api/v1/recent-reports?publicKey=" + strings.Repeat("ab", 33),
			"/api/v1/recent-reports?publicKey=" + strings.Repeat("00", 32),
			"/api/v1/geo-stats", "/api/v1/geo-stats?latitude=x&longitude=1", "/api/v1/geo-stats?latitude=1", "/api/v1/nothing?x=1"}
		g.s.HTTP("GET", qs[r.Intn(len(qs))], nil)
	}
}

func (g *srvGen) opStats() {
	r := g.r
	off := uint64(g.off())
	var tso uint64
	switch r.pick([]int{20, 25, 20, 8, 10, 5, 4, 10}) {
	case 7: // misaligned, inside the archived range
		if off > 0 {
			tso = 2016*uint64(r.Intn(int(off/2016))) + uint64(1+r.Intn(2015))
		} else {
			tso = uint64(1 + r.Intn(2015))
		}
	case 0:
		tso = off
	case 1:
		if g.maxOff > 0 {
			// C20X: the history of this directory does not reach back to slot 0 (it holds the seeded week and what
			// the server archived itself); archived weeks are not asked for
			tso = off
		} else if off > 0 {
			tso = 2016 * uint64(r.Intn(int(off/2016)))
		}
	case 2:
		tso = off + 2016
	case 3:
		tso = off + 4032
	case 4:
		tso = off + uint64(1+r.Intn(2015))
	case 5:
		tso = 4294967295 / 2016 * 2016
	default:
		tso = 1<<32 + 2016*uint64(r.Intn(3))
	}
	g.s.Stats(tso, r.Chance(25))
}

func (g *srvGen) opAuthServer() {
	r := g.r
	k := detKey(g.seed, 500+r.Intn(3))
	loc := []string{myIP, "", "example.org", strings.Repeat("a", 255), strings.Repeat("b", 256), " " + myIP, myIP + "\n", "\t", myIP + " "}[r.Intn(9)]
	as := server.AuthorizedServer{PublicKey: k.Pub, Banned: r.Chance(40), Location: loc, HttpPort: closedPortOnce(), TcpPort: uint16(r.Intn(65536)), UdpPort: uint16(r.Intn(65536))}
	if loc != myIP {
		as.HttpPort = 1 // an empty host means "this machine": never a port that another process may own
	}
	if as.Banned && r.Chance(35) {
		// a ban that names nothing but the key: no address, no ports
		as.Location, as.HttpPort, as.TcpPort, as.UdpPort = "", 0, 0, 0
	}
	as.GCAAuthorization = glow.Sign(as.SigningBytes(), g.signer(r.pick([]int{80, 8, 6, 6})))
	if snap := g.s.E.S.VerifSnapshot(); len(snap.Servers) > 0 && r.Chance(20) {
		// a listed entry again, one field changed, the signature it is listed with kept
		as = snap.Servers[r.Intn(len(snap.Servers))]
		switch r.Intn(4) {
		case 0:
			as.Banned = !as.Banned
		case 1:
			as.HttpPort++
		case 2:
			as.Location += "x"
		default:
			as.UdpPort ^= 1
		}
	}
	g.s.AuthServer(as)
}

var cachedClosed uint16

func closedPortOnce() uint16 {
	if cachedClosed == 0 {
		cachedClosed = closedPort()
	}
	return cachedClosed
}

func (g *srvGen) opMigrate() {
	r := g.r
	newGCA := detKey(g.seed, 700+r.Intn(2))
	var eq glow.PublicKey
	if len(g.devs) > 0 && r.Chance(80) {
		eq = g.devs[r.Intn(len(g.devs))].key.Pub
	} else {
		eq = g.keys[r.Intn(len(g.keys))].Pub
	}
	em := server.EquipmentMigration{Equipment: eq, NewGCA: newGCA.Pub, NewShortID: uint32(r.Intn(100))}
	for i := 0; i < r.Intn(3); i++ {
		loc := []string{myIP, "", strings.Repeat("c", 255), strings.Repeat("d", 256), strings.Repeat("e", 300), "example.org"}[r.pick([]int{50, 8, 12, 12, 8, 10})]
		as := server.AuthorizedServer{PublicKey: detKey(g.seed, 600+i).Pub, Location: loc, HttpPort: 1, TcpPort: 2, UdpPort: 3, Banned: r.Chance(20)}
		signer := newGCA.Priv
		if r.Chance(15) {
			signer = g.s.E.GCA.Priv
		}
		as.GCAAuthorization = glow.Sign(as.SigningBytes(), signer)
		em.NewServers = append(em.NewServers, as)
		if r.Chance(20) {
			// the same server twice in one order: listed, then banned (both entries signed)
			as.Banned = !as.Banned
			as.GCAAuthorization = glow.Sign(as.SigningBytes(), signer)
			em.NewServers = append(em.NewServers, as)
		}
	}
	em.Signature = glow.Sign(em.SigningBytes(), g.signer(r.pick([]int{80, 8, 6, 6})))
	if r.Chance(12) {
		// signed by a GCA that earlier orders handed equipment to: it has no say on this server
		em.Signature = glow.Sign(em.SigningBytes(), detKey(g.seed, 700+r.Intn(2)).Priv)
		g.s.T.Count("migrate:signed-by-a-new-gca")
	}
	g.s.Migrate(em)
}

func (g *srvGen) opRegister() {
	r := g.r
	// the last candidate is the all-zero key (nobody can sign for it, but the temporary key can register it:
	// it is then the GCA key for good, also across restarts)
	zeroCand := Key{Priv: detKey(g.seed, 1004).Priv}
	cand := []Key{g.s.E.GCA, detKey(g.seed, 1002), detKey(g.seed, 1003), zeroCand}[r.pick(map[bool][]int{true: {70, 13, 12, 5}, false: {50, 10, 10, 30}}[g.regDone || (g.focus != "C07" && g.focus != "C05" && g.focus != "C04")])]
	gr := server.GCARegistration{GCAKey: cand.Pub}
	signer := g.s.E.Temp.Priv
	switch r.pick([]int{70, 10, 10, 10}) {
	case 1:
		signer = cand.Priv
	case 2:
		signer = g.s.E.GCA.Priv
	case 3:
		signer = detKey(g.seed, 950).Priv
	}
	sig := glow.Sign(gr.SigningBytes(), signer)
	key := cand.Pub
	if r.Chance(8) {
		key[r.Intn(32)] ^= 1 // altered key, signature over the original
	}
	if !g.regDone && (g.focus == "C07" || g.focus == "C05" || g.focus == "C17") && r.Chance(25) {
		// the same order first with the key file unwritable: refused, and nothing of it may stay behind
		g.s.RegisterFault(key, sig)
		if r.Chance(50) {
			g.opAuthServer() // an order signed by whoever just failed to register must not be honoured
		}
	}
	if g.s.Register(key, sig) == "ok" {
		g.regDone = true
		// the scenario's "GCA" is whoever won
		for _, c := range []Key{g.s.E.GCA, detKey(g.seed, 1002), detKey(g.seed, 1003), zeroCand} {
			if c.Pub == key {
				g.s.E.GCA = c
			}
		}
	}
}

// opRegisterRace submits a batch of registrations concurrently (several
// candidate keys, valid and invalid signers). Registration is one critical
// section, so the outcome must equal some sequential order: it is written to
// the trace as "the accepted one first, then the others".
func (g *srvGen) opRegisterRace() {
	r := g.r
	type cand struct {
		gr  server.GCARegistration
		k   Key
		err error
	}
	var cs []*cand
	n := 3 + r.Intn(10)
	for i := 0; i < n; i++ {
		k := []Key{g.s.E.GCA, detKey(g.seed, 1002), detKey(g.seed, 1003)}[r.Intn(3)]
		gr := server.GCARegistration{GCAKey: k.Pub}
		signer := g.s.E.Temp.Priv
		if r.Chance(25) {
			signer = k.Priv
		}
		gr.Signature = glow.Sign(gr.SigningBytes(), signer)
		cs = append(cs, &cand{gr: gr, k: k})
		g.s.Keys[k.Pub] = true
		g.s.oracle(g.s.E.Temp.Pub, gr.SigningBytes(), gr.Signature)
	}
	var wg sync.WaitGroup
	start := make(chan struct{})
	for _, c := range cs {
		wg.Add(1)
		go func(c *cand) {
			defer wg.Done()
			<-start
			c.err = g.s.E.S.VerifRegisterGCA(c.gr)
		}(c)
	}
	close(start)
	wg.Wait()
	g.s.T.Count("register-race")
	// linearisation: accepted ones first
	emit := func(c *cand) {
		obs := "refused"
		if c.err == nil {
			obs = "ok"
			g.regDone = true
			g.s.E.GCA = c.k
		}
		g.s.T.Line("srv.register key=%s sig=%s => %s", hx(c.gr.GCAKey[:]), hx(c.gr.Signature[:]), obs)
	}
	for _, c := range cs {
		if c.err == nil {
			emit(c)
		}
	}
	for _, c := range cs {
		if c.err != nil {
			emit(c)
		}
	}
	g.s.Snap()
}

// injectable picks an interfering operation (report, rotation, ban) and returns a
// closure that performs it on the real server while writing its trace lines into a buffer.
func (g *srvGen) injectable() (string, func()) {
	r := g.r
	switch r.pick([]int{34, 26, 22, 12, 6}) {
	case 3:
		return "authorize", func() {
			ea := SignAuth(g.freshAuth(uint32(r.Intn(7)), g.keys[r.Intn(len(g.keys))]), g.s.E.GCA.Priv)
			g.s.Authorize(ea, false)
			g.authsSeen = append(g.authsSeen, ea)
		}
	case 4:
		return "register", func() { g.opRegister() }
	case 0:
		return "dgram", func() {
			if len(g.devs) > 0 {
				dv := g.devs[r.Intn(len(g.devs))]
				d := MkReport(dv.id, g.tsChoice(), 2+uint64(r.Intn(1000)), dv.key.Priv).Serialize()
				g.s.Dgram(d)
				g.sent = append(g.sent, d)
			}
		}
	case 1:
		return "rotate", func() { g.s.Rotate() }
	default:
		return "ban", func() {
			if len(g.authsSeen) > 0 {
				ea := g.authsSeen[r.Intn(len(g.authsSeen))]
				ea.Debt += 1 + uint64(r.Intn(5))
				ea = SignAuth(ea, g.s.E.GCA.Priv)
				g.s.Authorize(ea, false)
				g.authsSeen = append(g.authsSeen, ea)
			}
		}
	}
}

// opInject runs a multi-section operation of the server and lets an interfering
// operation run exactly between two of its critical sections (verifPoint sites).
// The trace lists the outer operation first (its answer must be explained by
// the state BEFORE the injected operation for the parts computed in the first
// section) and the injected operation after it.
func (g *srvGen) opInject() {
	r := g.r
	kind, inj := g.injectable()
	var buf bytes.Buffer
	orig := g.s.T
	tmp := &Trace{w: bufio.NewWriterSize(&buf, 1<<16), Stats: orig.Stats}
	fired := false
	run := func(point string, outer func()) {
		server.VerifSetPoint(point, func() {
			if fired {
				return
			}
			fired = true
			g.s.T = tmp
			inj()
			tmp.w.Flush()
			g.s.T = orig
		})
		outer()
		server.VerifSetPoint(point, nil)
		orig.Lines += tmp.Lines
		orig.w.Write(buf.Bytes())
		orig.w.Flush()
	}
	switch r.pick([]int{35, 30, 20, 15}) {
	case 0: // sync reply: offset, bitfield, key and migration come from ONE state (the one before the injection)
		id := uint32(1 + r.Intn(5))
		run("sync-between", func() {
			raw, err := g.s.E.SyncRaw(id)
			obs := "refused"
			if err != nil {
				obs = "ERR:" + err.Error()
			} else if !(len(raw) == 1 && raw[0] == 0) {
				obs = canonSyncReply(raw, g.s.E.S.PublicKey())
			}
			orig.Count("inject.sync:" + kind)
			orig.Line("srv.sync id=%d => %s", id, obs)
		})
	case 1: // statistics: the record served is the one of the state before the injection
		off := uint64(g.off())
		tso := []uint64{off, off + 2016, 0}[r.Intn(3)]
		run("stats-between", func() {
			st, body, err := g.s.E.Get(fmt.Sprintf("/api/v1/all-device-stats?timeslot_offset=%d", tso))
			obs := "refused"
			if err != nil {
				obs = "ERR:" + err.Error()
			} else if st == 200 {
				if w, derr := decodeStatsJSON(body); derr == nil {
					obs = canonWeek(w)
				} else {
					obs = "ERR:json"
				}
			}
			orig.Count("inject.stats:" + kind)
			orig.Line("srv.stats tso=%d => %s", tso, obs)
		})
	case 2: // impact job: device list taken in the first section, rates written in later sections
		var before server.VerifSnap
		have := false
		server.VerifSetPoint("impact-between", func() {
			if fired {
				return
			}
			fired = true
			g.s.T = tmp
			inj()
			tmp.w.Flush()
			g.s.T = orig
			before = g.s.E.S.VerifSnapshot()
			have = true
		})
		now := glow.CurrentTimeslot()
		g.s.E.S.VerifImpactRound()
		server.VerifSetPoint("impact-between", nil)
		orig.Lines += tmp.Lines
		orig.w.Write(buf.Bytes())
		orig.w.Flush()
		orig.Count("inject.impact:" + kind)
		if have {
			after := g.s.E.S.VerifSnapshot()
			var lines []string
			for id, imp := range after.Impact {
				old := before.Impact[id]
				for i := range imp {
					if imp[i] != old[i] {
						lines = append(lines, fmt.Sprintf("srv.impact id=%d ts=%d rate=%d", id, now, float64bits(imp[i])))
					}
				}
			}
			for i, l := range lines {
				if i == len(lines)-1 {
					g.s.emit(l, "ok")
				} else {
					orig.Line("%s => ok", l)
				}
			}
		}
	default: // server authorization: list update and equipment listing are separate sections
		k := detKey(g.seed, 500+r.Intn(3))
		as := server.AuthorizedServer{PublicKey: k.Pub, Banned: r.Chance(40), Location: myIP, HttpPort: closedPortOnce(), TcpPort: 1, UdpPort: 2}
		as.GCAAuthorization = glow.Sign(as.SigningBytes(), g.s.E.GCA.Priv)
		run("authservers-between", func() {
			snap := g.s.E.S.VerifSnapshot()
			g.s.oracle(snap.GCAKey, as.SigningBytes(), as.GCAAuthorization)
			st, _, err := g.s.E.PostJSON("/api/v1/authorized-servers", as)
			obs := "refused"
			if err != nil {
				obs = "ERR:" + err.Error()
			} else if st == 200 {
				obs = "ok"
			}
			b := 0
			if as.Banned {
				b = 1
			}
			orig.Count("inject.authserver:" + kind)
			orig.Line("srv.authserver e=%s key=%s banned=%d loc=%s http=%d tcp=%d udp=%d sig=%s => %s", hx(as.Serialize()), hx(as.PublicKey[:]), b,
				hx([]byte(as.Location)), as.HttpPort, as.TcpPort, as.UdpPort, hx(as.GCAAuthorization[:]), obs)
		})
	}
	g.s.Snap()
}

// opTear stops the server, puts the directory into one of the torn states a
// crash can leave behind (empty key file after truncate-before-write, a report
// file cut in the middle of the records a start re-appends), and starts it again.
func (g *srvGen) opTear() error {
	r := g.r
	snap := g.s.E.S.VerifSnapshot()
	dir := g.s.E.Dir
	if r.Chance(12) {
		return g.opStartFault()
	}
	if snap.GCAAvailable && r.Chance(12) {
		return g.opDiskDamage()
	}
	if r.Chance(40) {
		g.strayFiles()
	}
	if !snap.GCAAvailable && r.Chance(60) {
		if err := g.s.E.Stop(); err != nil {
			return err
		}
		os.WriteFile(filepath.Join(dir, "gcaPubKey.dat"), nil, 0644)
		g.s.T.Count("tear:gca-empty")
		g.s.T.Line("srv.tear kind=gca")
		return g.s.restartAfterStop()
	}
	if r.Chance(8) {
		// one of the record logs ends inside a record: an append that a kill cut short (the kernel stops a buffered
		// write at a page boundary when a fatal signal is pending). Every loader drops the partial record (F25)
		files := []string{"equipment-authorizations.dat", "equipment-reports.dat", server.AllDeviceStatsHistoryFile}
		k := r.Intn(3)
		path := filepath.Join(dir, files[k])
		if err := g.s.E.Stop(); err != nil {
			return err
		}
		// the beginning of a record that was being appended when the process was killed
		var junk []byte
		switch k {
		case 0:
			junk = r.Bytes(1 + r.Intn(147))
		case 1:
			junk = r.Bytes(1 + r.Intn(79))
		default:
			d := 1 + r.Intn(3) // "d devices follow": a whole record would have 72 + d*32288 bytes
			n := []int{1, 3, 70, 4096, 20000, 32768, 40000}[r.Intn(7)]
			if n >= 72+d*32288 {
				n = 4096 * (1 + r.Intn(7))
			}
			junk = make([]byte, n)
			junk[0] = byte(d)
			for i := 4; i < n; i++ {
				junk[i] = byte(r.Next())
			}
		}
		if f, err := os.OpenFile(path, os.O_APPEND|os.O_WRONLY|os.O_CREATE, 0644); err == nil {
			f.Write(junk)
			f.Close()
		}
		g.s.T.Count("tear:bytes:" + files[k])
		g.s.T.Line("srv.tear kind=bytes file=%s partial=%d", files[k], len(junk))
		return g.s.restartAfterStop()
	}
	// crash in the middle of a start: first find out what a start appends
	before := fileLen(filepath.Join(dir, "equipment-reports.dat"))
	if err := g.s.Restart(); err != nil {
		return err
	}
	after := fileLen(filepath.Join(dir, "equipment-reports.dat"))
	if after <= before {
		return nil
	}
	if err := g.s.E.Stop(); err != nil {
		return err
	}
	again := (after - before) / 80
	keep := before/80 + int64(r.Intn(int(again)+1))
	os.Truncate(filepath.Join(dir, "equipment-reports.dat"), keep*80)
	g.s.T.Count("tear:reports-prefix")
	g.s.T.Line("srv.tear kind=reports n=%d", keep)
	return g.s.restartAfterStop()
}

// weights per focus: dgram, authorize, clock, tick, restart, stats, sync, authserver, migrate, register, impact, rotate
var focusWeights = map[string][]int{
	"C01":  {70, 6, 8, 2, 1, 3, 3, 1, 1, 1, 1, 1},
	"C02":  {75, 5, 6, 2, 1, 4, 3, 0, 2, 0, 1, 1},
	"C03":  {30, 6, 14, 8, 5, 22, 2, 0, 3, 0, 6, 4, 0, 1},
	"C04":  {30, 14, 10, 4, 18, 6, 3, 2, 2, 3, 2, 3, 0, 1},
	"C06":  {20, 45, 4, 1, 8, 4, 6, 1, 1, 2, 1, 1, 0, 3},
	"C07":  {6, 25, 2, 0, 12, 1, 2, 10, 8, 30, 0, 0, 0, 3},
	"C12":  {35, 10, 14, 5, 4, 10, 6, 6, 5, 3, 1, 1},
	"C17":  {5, 8, 2, 0, 5, 1, 8, 36, 30, 5, 0, 0},
	"C13":  {25, 10, 8, 3, 3, 6, 6, 3, 3, 1, 2, 2, 28},
	"C05":  {30, 12, 10, 4, 8, 4, 2, 1, 1, 6, 1, 3, 0, 16},
	"C10":  {25, 6, 8, 2, 2, 2, 20, 8, 8, 1, 0, 2, 16},
	"C20X": {55, 6, 14, 6, 4, 5, 5, 0, 0, 1, 1, 3},
}

func runSrvScenario(focus string, seed uint64, size int, t *Trace) error {
	r := &Rng{s: seed*7919 + uint64(len(focus))}
	s, err := NewSrv(fmt.Sprintf("%s-%d", focus, seed), seed, t)
	if err != nil {
		return err
	}
	defer s.Close()
	g := &srvGen{s: s, r: r, seed: seed, focus: focus}
	for i := 0; i < 4; i++ {
		g.keys = append(g.keys, detKey(seed, i))
		s.Keys[g.keys[i].Pub] = true
	}
	start := uint32(0)
	if r.Chance(30) {
		start = uint32(r.Intn(3000))
	}
	if focus == "C20X" && seed%6 == 5 {
		// a fresh directory started years after genesis: the start-up catch-up has to rotate the window all the
		// way to the clock (hundreds of empty weeks) before anything else happens
		start = 2016*uint32(521+r.Intn(400)) + uint32(r.Intn(2016))
		t.Count("first-start-long-after-genesis")
	} else if focus == "C20X" {
		// a server at the far end of the 32-bit timeslot range (C20: "all (now, timeslot) pairs at the uint32
		// extremes ... up to the no-overflow bound"): the directory holds one archived week, so the window
		// starts 2016 slots after it. The last offset whose window still ends below 2^32 is 4294963008; the
		// clock never goes further than 3200 slots past the last offset that can still be reached by
		// rotations without crossing that bound.
		// (the server only ever has offsets that are multiples of 2016 and refuses to build statistics for any other)
		const lastOff = ((int64(1)<<32 - 4033) / 2016) * 2016
		var off int64
		switch r.Intn(5) {
		case 0:
			off = lastOff
		case 1:
			off = lastOff - 2016*int64(1+r.Intn(3))
		case 2:
			off = (int64(1)<<31/2016 - 2 + int64(r.Intn(4))) * 2016 // the window contains 2^31, the sign bit of a 32-bit integer
		case 3:
			off = lastOff - 2016*int64(r.Intn(1000))
		default:
			off = 2016 * int64(1+r.Intn(1<<20))
		}
		g.maxOff = off + 2016*((lastOff-off)/2016)
		s.SeedWeek(uint32(off - 2016))
		d := int64(r.Intn(3201))
		switch r.Intn(4) {
		case 0:
			d = 3200 - int64(r.Intn(3))
		case 1:
			d = int64(r.Intn(440))
		}
		start = uint32(off + d)
	}
	if err := s.Boot(start); err != nil {
		if s.Seeded {
			t.DumpStats()
			return nil
		}
		return err
	}
	w := focusWeights[focus]
	if focus == "C04P" {
		w = focusWeights["C04"]
	}
	if w == nil {
		w = focusWeights["C12"]
	}
	if focus == "C05" && r.Chance(50) {
		// die at a persistence point: the file has been written, memory has not been updated yet
		point := []string{"persist:auth-written", "persist:stats-written"}[r.Intn(2)]
		countdown := 1 + r.Intn(4)
		t.Line("# crashdir %s", s.E.Dir)
		server.VerifSetPoint(point, func() {
			if s.InStart {
				return
			}
			countdown--
			if countdown > 0 {
				return
			}
			t.Line("%s => CRASH", s.Pending)
			t.Line("# crashed at %s now=%d", point, glow.CurrentTimeslot())
			os.Exit(77)
		})
	}
	ticks := 0
	if (focus == "C07" && r.Chance(40)) || (focus == "C13" && r.Chance(35)) {
		g.opRegisterRace()
	} else if focus == "C05" && r.Chance(40) {
		// stay unregistered for a while (torn registration states)
	} else if focus != "C07" || r.Chance(50) {
		// most scenarios register right away
		g.opRegister()
	}
	if (focus == "C17" || focus == "C10") && g.regDone {
		// these histories are about server lists and migration orders; a device is there from the start, so that
		// sync replies (which carry both) exist
		ea := SignAuth(g.freshAuth(1, g.keys[0]), s.E.GCA.Priv)
		if s.Authorize(ea, false) == "new" {
			g.devs = append(g.devs, devInfo{1, g.keys[0], ea})
		}
		g.authsSeen = append(g.authsSeen, ea)
	}
	if focus == "C17" && g.regDone && seed%8 == 3 {
		g.opBulkServers()
	}
	if focus == "C04" && g.regDone && seed%32 == 5 {
		// a long-lived server: thousands of accepted reports, and every restart appends the in-window ones
		// again, so after a few restarts the report log is well over a mebibyte
		if glow.CurrentTimeslot() < 500 {
			s.SetNow(500 + uint32(r.Intn(100)))
		}
		now := glow.CurrentTimeslot()
		size = 0 // this scenario is the long history and its restarts; every further operation would hash and replay all of it
		for d := 0; d < 8; d++ {
			k := detKey(seed, 200+d)
			ea := SignAuth(g.freshAuth(uint32(30+d), k), s.E.GCA.Priv)
			if s.Authorize(ea, false) != "new" {
				continue
			}
			for ts := int64(now) - 430; ts <= int64(now)+430; ts++ {
				if ts >= 0 {
					s.DgramQuick(MkReport(uint32(30+d), uint32(ts), 2+uint64(ts%900), k.Priv).Serialize(), k.Pub)
				}
			}
			s.Snap()
		}
		t.Count("bulk-history")
		for k := 0; k < 2; k++ {
			if err := s.Restart(); err != nil {
				t.DumpStats()
				return nil
			}
		}
	}
	for i := 0; i < size; i++ {
		if s.E.S == nil || s.Lost {
			break
		}
		if (focus == "C01" || focus == "C02" || focus == "C06") && r.Chance(12) {
			// the read-only views between the state changes: what they publish is the state of this moment
			// (a view that answers from an earlier moment shows here, right after the change it missed)
			switch {
			case r.Chance(40):
				s.Equipment()
			case len(g.devs) > 0:
				s.Recent(g.devs[r.Intn(len(g.devs))].key.Pub)
			default:
				s.Servers()
			}
		}
		k := r.pick(w)
		if !g.regDone && k != 9 && r.Chance(70) && focus != "C07" {
			k = 9
		}
		switch k {
		case 0:
			if (focus == "C01" || focus == "C13") && r.Chance(4) {
				g.opClockWhileQueued()
			} else if (focus == "C01" || focus == "C13" || focus == "C12") && r.Chance(4) {
				g.opUDPRepeat()
			} else if focus == "C02" && len(g.devs) > 0 && r.Chance(20) {
				// the published view of one device before and after a datagram (often one for that device)
				dv := g.devs[r.Intn(len(g.devs))]
				s.Recent(dv.key.Pub)
				g.opDgram()
				s.Recent(dv.key.Pub)
			} else {
				g.opDgram()
			}
		case 1:
			g.opAuthorize()
		case 2:
			g.opClock()
		case 3:
			if ticks < 12 {
				ticks++
				s.Tick()
			}
		case 4:
			if r.Chance(25) {
				g.strayFiles()
			}
			if err := s.Restart(); err != nil {
				// a failed start is an observation, the scenario ends here
				t.DumpStats()
				return nil
			}
		case 5:
			switch {
			case r.Chance(15):
				s.Equipment()
			case r.Chance(30):
				g.opBadHTTP()
			case r.Chance(25):
				key := g.keys[r.Intn(len(g.keys))].Pub
				if len(g.authsSeen) > 0 && r.Chance(75) {
					key = g.authsSeen[r.Intn(len(g.authsSeen))].PublicKey
				}
				s.Recent(key)
			default:
				g.opStats()
			}
		case 6:
			if r.Chance(12) {
				s.TCPShort(r.Bytes(r.Intn(4)))
			} else {
				id := uint32(r.Intn(8))
				if len(g.devs) > 0 && r.Chance(60) {
					id = g.devs[r.Intn(len(g.devs))].id // a device the server knows: the reply carries the whole server list
				}
				s.Sync(id)
			}
		case 7:
			if r.Chance(25) {
				s.Servers()
			} else {
				g.opAuthServer()
			}
		case 8:
			g.opMigrate()
		case 9:
			was := g.regDone
			g.opRegister()
			if !was && g.regDone && (focus == "C07" || focus == "C05") && r.Chance(25) {
				// right after the registration, before anything else is stored
				if err := g.opStartFault(); err != nil {
					t.DumpStats()
					return nil
				}
			}
		case 10:
			s.ImpactRound()
		case 11:
			if g.maxOff == 0 || int64(g.off())+2016 <= g.maxOff {
				s.Rotate()
			}
		case 12:
			g.opInject()
		case 13:
			if err := g.opTear(); err != nil {
				t.DumpStats()
				return nil
			}
		}
	}
	if focus == "C04P" && !s.Lost && s.E.S != nil {
		// the history ends here: restart, and restart again
		for k := 0; k < 2; k++ {
			if err := s.Restart(); err != nil {
				t.DumpStats()
				return nil
			}
		}
	}
	if (focus == "C12" || focus == "C13") && !s.Lost && s.E.S != nil && r.Chance(25) {
		g.opPeerHang()
	}
	if focus == "C13" && !s.Lost && s.E.S != nil && r.Chance(12) {
		g.opSlowSection()
	}
	if !s.Lost {
		s.Snap()
		s.Disk()
	}
	if focus == "C12" && !s.Lost && s.E.S != nil && r.Chance(35) {
		// connections left idle or half-sent on the sync port must not hold the shutdown for longer than the
		// server's own shutdown bound (5 s in this build; the handler gives a connection half of it)
		httpPort, tcp, _ := s.E.S.Ports()
		n := 1 + r.Intn(3)
		var conns []net.Conn
		for i := 0; i < n; i++ {
			if c, err := net.DialTimeout("tcp", fmt.Sprintf("127.0.0.1:%d", tcp), 2*time.Second); err == nil {
				if r.Chance(50) {
					c.Write(r.Bytes(1 + r.Intn(3)))
				}
				conns = append(conns, c)
			}
		}
		// the same on the HTTP port: a connection that says nothing, one that stops inside the request
		// header, one that sends a complete header and then only part of the announced body
		for i, n := 0, 1+r.Intn(3); i < n; i++ {
			if c, err := net.DialTimeout("tcp", fmt.Sprintf("127.0.0.1:%d", httpPort), 2*time.Second); err == nil {
				paths := []string{"/api/v1/authorize-equipment", "/api/v1/register-gca", "/api/v1/authorized-servers", "/api/v1/equipment-migrate"}
				switch r.Intn(4) {
				case 0:
					t.Count("shutdown-http-idle")
				case 1:
					fmt.Fprintf(c, "POST %s HTTP/1.1\r\nHost: x\r\nContent-Le", paths[r.Intn(len(paths))])
					t.Count("shutdown-http-half-header")
				default:
					fmt.Fprintf(c, "POST %s HTTP/1.1\r\nHost: x\r\nContent-Type: application/json\r\nContent-Length: %d\r\n\r\n{\"ShortID\":", paths[r.Intn(len(paths))], 200+r.Intn(5000))
					t.Count("shutdown-http-half-body")
				}
				conns = append(conns, c)
			}
		}
		// ... or, instead, a forwarded authorization that a listed server never answers: the handler that waits
		// for it may be given up (the stop then reports that it ran out of time), but the stop has to return
		pendingPeer := false
		var peer *moodyPeer
		pendDone := make(chan struct{})
		if g.regDone && r.Chance(30) {
			if p, err := newMoodyPeer(); err == nil {
				as := server.AuthorizedServer{PublicKey: detKey(g.seed, 930).Pub, Location: myIP, HttpPort: p.port(), TcpPort: closedPortOnce(), UdpPort: closedPortOnce()}
				as.GCAAuthorization = glow.Sign(as.SigningBytes(), s.E.GCA.Priv)
				if s.AuthServer(as) == "ok" {
					p.silent.Store(true)
					ea := SignAuth(g.freshAuth(uint32(7000+r.Intn(500)), detKey(g.seed, 990)), s.E.GCA.Priv)
					snap := s.E.S.VerifSnapshot()
					s.Keys[ea.PublicKey] = true
					s.oracle(snap.GCAKey, ea.SigningBytes(), ea.Signature)
					_, had := snap.Equipment[ea.ShortID]
					// either a new device or a new server is announced: both are forwarded to every listed server
					as2 := server.AuthorizedServer{PublicKey: detKey(g.seed, 931).Pub, Location: myIP, HttpPort: closedPortOnce(), TcpPort: 1, UdpPort: 2}
					as2.GCAAuthorization = glow.Sign(as2.SigningBytes(), s.E.GCA.Priv)
					newServer := r.Chance(50)
					if newServer {
						s.oracle(snap.GCAKey, as2.SigningBytes(), as2.GCAAuthorization)
						had = false
						for _, x := range snap.Servers {
							if x.PublicKey == as2.PublicKey {
								had = true
							}
						}
						go func() { s.E.PostJSON("/api/v1/authorized-servers", as2); close(pendDone) }()
					} else {
						go func() { s.E.PostJSON("/api/v1/authorize-equipment", ea); close(pendDone) }()
					}
					t1 := time.Now()
					for p.heldCount() == 0 && time.Since(t1) < 3*time.Second {
						time.Sleep(5 * time.Millisecond)
					}
					if p.heldCount() > 0 && !had {
						// the order itself is done (stored and in memory); only its forwarding is still under way
						if newServer {
							s.authServerEmit(as2, "ok")
						} else {
							s.emit("srv.authorize a="+hx(ea.Serialize()), "new")
						}
						pendingPeer = true
						peer = p
						t.Count("shutdown-with-forwarding-to-a-silent-peer")
					} else {
						p.relent()
						<-pendDone
						p.ln.Close()
						s.Snap()
					}
				} else {
					p.ln.Close()
				}
			}
		}
		time.Sleep(20 * time.Millisecond)
		t0 := time.Now()
		stopErr := make(chan error, 1)
		srvEnv := s.E
		go func() { stopErr <- srvEnv.Stop() }()
		var err error
		stuck := false
		select {
		case err = <-stopErr:
		case <-time.After(12 * time.Second):
			stuck = true
		}
		dt := time.Since(t0)
		obs := "ok"
		switch {
		case stuck:
			obs = fmt.Sprintf("STUCK:the stop had not returned after %v", dt.Round(time.Millisecond))
		case err != nil && !(pendingPeer && strings.Contains(err.Error(), "deadline exceeded")):
			obs = "ERR:" + err.Error()
		case dt > 5*time.Second && !pendingPeer, dt > 8*time.Second:
			obs = fmt.Sprintf("SLOW:%v", dt.Round(time.Millisecond))
		}
		for _, c := range conns {
			c.Close()
		}
		if peer != nil {
			peer.relent()
			select {
			case <-pendDone:
			case <-time.After(5 * time.Second):
			}
			peer.ln.Close()
		}
		t.Count("shutdown-with-idle-connections")
		t.Line("srv.shutdown idle=%d => %s", len(conns), obs)
	}
	t.DumpStats()
	return nil
}

func init() {
	commands["srvscenario"] = func(args []string) int {
		// srvscenario <focus> <seed> <size>
		seed, _ := strconv.ParseUint(args[1], 10, 64)
		size, _ := strconv.Atoi(args[2])
		t := NewTrace(os.Stdout)
		if err := runSrvScenario(args[0], seed, size, t); err != nil {
			t.Line("# scenario error: %v", err)
			return 3
		}
		return 0
	}
}

var _ = binary.LittleEndian

// runMany runs n scenarios (seeds base..base+n-1) in child processes, `par` at
// a time, and writes their traces one after another to out. A child that dies
// leaves its partial trace followed by a `crash` line.
func runMany(child []string, base uint64, n int, par int, size int, out *os.File) (crashes int) {
	type res struct {
		idx  int
		text string
		code int
	}
	sem := make(chan struct{}, par)
	ch := make(chan res, n)
	for i := 0; i < n; i++ {
		go func(i int) {
			sem <- struct{}{}
			args := append(append([]string{}, child...), strconv.FormatUint(base+uint64(i), 10), strconv.Itoa(size))
			code, text := selfExec(100*1e9, args...)
			<-sem
			ch <- res{i, text, code}
		}(i)
	}
	results := make([]res, n)
	for i := 0; i < n; i++ {
		r := <-ch
		results[r.idx] = r
	}
	for _, r := range results {
		lines := strings.Split(r.text, "\n")
		var keep []string
		var panicLine string
		for _, l := range lines {
			if strings.HasPrefix(l, "panic:") || strings.HasPrefix(l, "fatal error:") || strings.HasPrefix(l, "WARNING: DATA RACE") {
				panicLine = l
			}
			if strings.HasPrefix(l, "scenario ") || strings.HasPrefix(l, "srv.") || strings.HasPrefix(l, "v ") || strings.HasPrefix(l, "# ") ||
				strings.HasPrefix(l, "el.") || strings.HasPrefix(l, "rl.") || strings.HasPrefix(l, "c14.") || strings.HasPrefix(l, "c08.") || strings.HasPrefix(l, "c11.") || strings.HasPrefix(l, "c05.") || strings.HasPrefix(l, "crypto.") || strings.HasPrefix(l, "codec.") || strings.HasPrefix(l, "ts.") || strings.HasPrefix(l, "cl.") {
				keep = append(keep, l)
			}
		}
		out.WriteString(strings.Join(keep, "\n") + "\n")
		if r.code == 77 {
			// the scenario killed itself at a persistence point: start again on the same directory
			dir, now := "", "0"
			for _, l := range lines {
				if strings.HasPrefix(l, "# crashdir ") {
					dir = strings.TrimPrefix(l, "# crashdir ")
				}
				if i := strings.Index(l, " now="); strings.HasPrefix(l, "# crashed at") && i > 0 {
					now = l[i+5:]
				}
			}
			code, text := selfExec(60*1e9, "recover", dir, now, strconv.FormatUint(base+uint64(r.idx), 10))
			for _, l := range strings.Split(text, "\n") {
				if strings.HasPrefix(l, "srv.") || strings.HasPrefix(l, "# ") || strings.HasPrefix(l, "c05.") {
					out.WriteString(l + "\n")
				}
			}
			if code != 0 {
				crashes++
				fmt.Fprintf(out, "crash seed=%d exit=%d => start after a crash at a persistence point failed\n", base+uint64(r.idx), code)
			}
			continue
		}
		if r.code != 0 {
			crashes++
			fmt.Fprintf(out, "crash seed=%d exit=%d => %s\n", base+uint64(r.idx), r.code, strings.ReplaceAll(panicLine, " => ", " "))
		}
	}
	return crashes
}

func init() {
	// recover <dir> <now> <seed>: start a server on a directory left behind by a killed scenario
	commands["recover"] = func(args []string) int {
		now, _ := strconv.ParseUint(args[1], 10, 32)
		seed, _ := strconv.ParseUint(args[2], 10, 64)
		t := NewTrace(os.Stdout)
		s := &Srv{T: t, Keys: map[glow.PublicKey]bool{}, seen: map[string]bool{}}
		s.E = &Env{Dir: args[0], Temp: detKey(seed, 1000), GCA: detKey(seed, 1001), HoldBG: true}
		glow.SetCurrentTimeslot(uint32(now))
		defer os.RemoveAll(args[0])
		if err := s.restartAfterStop(); err != nil {
			// what the failed start found on disk (sizes only), for the replay file
			for _, f := range []string{"equipment-authorizations.dat", "equipment-reports.dat", server.AllDeviceStatsHistoryFile, "gcaPubKey.dat", "server.keys"} {
				t.Line("# failed-start file %s size=%d", f, fileLen(args[0]+"/"+f))
			}
			return 3
		}
		t.Count("crashpoint-recovered")
		s.Snap()
		s.Disk()
		s.E.Stop()
		t.DumpStats()
		return 0
	}
	commands["prefix"] = func(args []string) int {
		// prefix <seedbase> <histories> <maxlen> <outfile>: every history of the C04 generator is cut after each
		// of its first maxlen operations and restarted (twice) there
		base, _ := strconv.ParseUint(args[0], 10, 64)
		n, _ := strconv.Atoi(args[1])
		maxlen, _ := strconv.Atoi(args[2])
		f, err := os.Create(args[3])
		if err != nil {
			fmt.Println(err)
			return 2
		}
		defer f.Close()
		type job struct {
			seed uint64
			k    int
		}
		var jobs []job
		for h := 0; h < n; h++ {
			for k := 1; k <= maxlen; k++ {
				jobs = append(jobs, job{base + uint64(h), k})
			}
		}
		out := make([]string, len(jobs))
		codes := make([]int, len(jobs))
		sem := make(chan struct{}, 14)
		var wg sync.WaitGroup
		for i, j := range jobs {
			wg.Add(1)
			go func(i int, j job) {
				defer wg.Done()
				sem <- struct{}{}
				codes[i], out[i] = selfExec(100*1e9, "srvscenario", "C04P", strconv.FormatUint(j.seed, 10), strconv.Itoa(j.k))
				<-sem
			}(i, j)
		}
		wg.Wait()
		crashes := 0
		for i := range jobs {
			for _, l := range strings.Split(out[i], "\n") {
				if strings.HasPrefix(l, "scenario ") || strings.HasPrefix(l, "srv.") || strings.HasPrefix(l, "v ") || strings.HasPrefix(l, "# stat") || strings.HasPrefix(l, "crypto.") {
					f.WriteString(l + "\n")
				}
			}
			if codes[i] != 0 {
				crashes++
				fmt.Fprintf(f, "crash seed=%d exit=%d => prefix %d\n", jobs[i].seed, codes[i], jobs[i].k)
			}
		}
		fmt.Printf("HARNESS scenarios=%d crashes=%d\n", len(jobs), crashes)
		return 0
	}
	commands["srv"] = func(args []string) int {
		// srv <focus> <seedbase> <n> <size> <outfile>
		base, _ := strconv.ParseUint(args[1], 10, 64)
		n, _ := strconv.Atoi(args[2])
		size, _ := strconv.Atoi(args[3])
		f, err := os.Create(args[4])
		if err != nil {
			fmt.Println(err)
			return 2
		}
		defer f.Close()
		c := runMany([]string{"srvscenario", args[0]}, base, n, 14, size, f)
		fmt.Printf("HARNESS scenarios=%d crashes=%d\n", n, c)
		return 0
	}
}
