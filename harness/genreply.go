package main

// Sync replies (C10, C11): genuine replies of the real server in many states,
// and mutations of them, are served to the real client parser by a fake TCP
// server; the same bytes go to the model's parser.

import (
	"bytes"
	"encoding/binary"
	"fmt"
	"net"
	"os"
	"strconv"
	"strings"
	"sync"
	"time"

	"github.com/glowlabs-org/gca-backend/client"
	"github.com/glowlabs-org/gca-backend/glow"
	"github.com/glowlabs-org/gca-backend/server"
)

// scriptServer is a TCP endpoint whose behaviour per connection is scripted.
type scriptServer struct {
	l        net.Listener
	mu       sync.Mutex
	next     []byte // bytes to send to the next connection (nil: close at once)
	mode     string // "reply", "reset", "short"
	conns    int
	onAccept func()        // called (under mu) for every accepted connection, in accept order
	rel      chan struct{} // mode "hang": the connection is held open until this channel is closed, then dropped
}

func newScriptServer() *scriptServer {
	l, err := net.Listen("tcp", myIP+":0")
	if err != nil {
		panic(err)
	}
	s := &scriptServer{l: l, mode: "reply"}
	go func() {
		for {
			c, err := l.Accept()
			if err != nil {
				return
			}
			s.mu.Lock()
			s.conns++
			if s.onAccept != nil {
				s.onAccept()
			}
			data, mode, rel := s.next, s.mode, s.rel
			s.mu.Unlock()
			go func() {
				defer c.Close()
				var b [4]byte
				c.SetDeadline(time.Now().Add(2 * time.Second))
				if _, err := c.Read(b[:]); err != nil {
					return
				}
				switch mode {
				case "hang":
					select {
					case <-rel:
					case <-time.After(60 * time.Second):
					}
				case "reset":
					if tc, ok := c.(*net.TCPConn); ok {
						tc.SetLinger(0)
					}
				case "short":
					if len(data) > 3 {
						c.Write(data[:len(data)/2])
					}
				case "chunked":
					// the same bytes, delivered in several segments with pauses in between
					for len(data) > 0 {
						n := 1 + len(data)/3
						if n > len(data) {
							n = len(data)
						}
						c.Write(data[:n])
						data = data[n:]
						time.Sleep(3 * time.Millisecond)
					}
				default:
					c.Write(data)
				}
			}()
		}
	}()
	return s
}

func (s *scriptServer) port() uint16 { return uint16(s.l.Addr().(*net.TCPAddr).Port) }
func (s *scriptServer) set(mode string, data []byte) {
	s.mu.Lock()
	s.mode, s.next = mode, data
	s.mu.Unlock()
}
func (s *scriptServer) setHang(rel chan struct{}) {
	s.mu.Lock()
	s.mode, s.next, s.rel = "hang", nil, rel
	s.mu.Unlock()
}
func (s *scriptServer) close() { s.l.Close() }

// replyOracle emits the real Verify verdict for every signature check the
// parser can make on these bytes (server signature, migration order, entries).
func replyOracle(t *Trace, seen map[string]bool, stream []byte, ck, gk, sk glow.PublicKey) {
	row := func(key glow.PublicKey, msg []byte, sig []byte) {
		if len(sig) != 64 {
			return
		}
		var sg glow.Signature
		copy(sg[:], sig)
		k := hx(key[:]) + " " + hx(msg) + " " + hx(sig)
		if seen[k] {
			return
		}
		seen[k] = true
		b := 0
		if glow.Verify(key, msg, sg) {
			b = 1
		}
		t.Line("v %s %d", k, b)
	}
	if len(stream) < 2 {
		return
	}
	n := int(binary.LittleEndian.Uint16(stream[:2]))
	if len(stream)-2 < n || n < 712 {
		return
	}
	resp := stream[2 : 2+n]
	row(sk, resp[:n-64], resp[n-64:])
	mig := append(append([]byte("EquipmentMigration"), ck[:]...), resp[540:n-136]...)
	row(gk, mig, resp[n-136:n-72])
	var newGCA glow.PublicKey
	copy(newGCA[:], resp[540:572])
	// server entries, decoded independently of the client's parser (only to know which checks can occur)
	i, end := 576, n-136
	for i < end {
		if i+34 > end {
			break
		}
		ll := int(resp[i+33])
		if i+34+ll+70 > end {
			break
		}
		entry := resp[i : i+104+ll]
		sb := append([]byte("AuthorizedServer"), entry[:len(entry)-64]...)
		row(newGCA, sb, entry[len(entry)-64:])
		row(gk, sb, entry[len(entry)-64:])
		i += 104 + ll
	}
}

func canonParsed(off uint32, bits [504]byte, newGCA glow.PublicKey, newID uint32, servers []server.AuthorizedServer) string {
	var sb []byte
	for _, a := range servers {
		a := a
		sb = append(sb, a.Serialize()...)
	}
	return fmt.Sprintf("off=%d bits=%s newgca=%s newid=%d servers=%s", off, hx(bits[:]), hx(newGCA[:]), newID, hx(sb))
}

// parseVia serves `stream` once to the real client parser and reports the outcome.
func parseVia(c *client.Client, ss *scriptServer, stream []byte, sk, gk glow.PublicKey) (string, int64) {
	for try := 0; try < 3; try++ {
		if len(stream) > 100 && (len(stream)+int(stream[len(stream)-1]))%3 == 0 {
			ss.set("chunked", stream) // the same bytes in several TCP segments
		} else {
			ss.set("reply", stream)
		}
		t0 := time.Now().Unix()
		off, bits, newGCA, newID, servers, err := c.VerifServerSync(client.GCAServer{Location: myIP, TcpPort: ss.port()}, sk, gk)
		if time.Now().Unix() != t0 {
			continue // the second ticked during the call: the clock value the parser saw is ambiguous
		}
		if err != nil {
			return "err", t0
		}
		return canonParsed(off, bits, newGCA, newID, servers), t0
	}
	return "err", time.Now().Unix()
}

func runReplyScenario(seed uint64, size int, t *Trace) error {
	r := &Rng{s: seed*53 + 17}
	e, err := NewEnv("reply", seed, true)
	if err != nil {
		return err
	}
	defer func() { e.Stop(); os.RemoveAll(e.Dir) }()
	if err := e.RegisterDefault(); err != nil {
		return err
	}
	dev := detKey(seed, 1)
	e.mustAuth(mkAuth(1, dev, 1e12))
	other := detKey(seed, 2)
	e.mustAuth(mkAuth(2, other, 1e12))
	now := uint32(r.Intn(3000))
	glow.SetCurrentTimeslot(now)
	// reports at window edges and random slots
	for _, ts := range []uint32{0, 1, 7, 8, 4031, now, now + 1} {
		if int64(ts) >= int64(now)-432 && int64(ts) <= int64(now)+432 {
			e.S.VerifInject(MkReport(1, ts, 500+uint64(ts), dev.Priv).Serialize())
		}
	}
	for i := 0; i < r.Intn(30); i++ {
		ts := uint32(int64(now) - 400 + int64(r.Intn(800)))
		e.S.VerifInject(MkReport(1, ts, 2+uint64(r.Intn(5)), dev.Priv).Serialize())
	}
	// authorized servers (some banned, locations 0..255) and possibly a migration order
	nAS := r.Intn(4)
	if r.Chance(30) {
		nAS = 5 + r.Intn(8) // long lists: the serialized list alone is longer than the fixed part of the reply
	}
	for i := 0; i < nAS; i++ {
		as := server.AuthorizedServer{PublicKey: detKey(seed, 500+i).Pub, Banned: r.Chance(30), Location: strings.Repeat("h", []int{0, 9, 255, r.Intn(256)}[r.Intn(4)]),
			HttpPort: closedPortOnce(), TcpPort: uint16(r.Next()), UdpPort: uint16(r.Next())}
		as.GCAAuthorization = glow.Sign(as.SigningBytes(), e.GCA.Priv)
		e.PostJSON("/api/v1/authorized-servers", as)
	}
	newGCA := detKey(seed, 700)
	if r.Chance(45) {
		em := server.EquipmentMigration{Equipment: dev.Pub, NewGCA: newGCA.Pub, NewShortID: uint32(r.Intn(1000))}
		nMS := r.Intn(4)
		if r.Chance(30) {
			nMS = 5 + r.Intn(6)
		}
		for i := 0; i < nMS; i++ {
			as := server.AuthorizedServer{PublicKey: detKey(seed, 600+i).Pub, Location: strings.Repeat("m", r.Intn(40)), HttpPort: 1, TcpPort: 2, UdpPort: 3, Banned: r.Chance(20)}
			signer := newGCA.Priv
			if r.Chance(12) {
				signer = e.GCA.Priv // inner signature by the wrong GCA: the server refuses the order
			}
			as.GCAAuthorization = glow.Sign(as.SigningBytes(), signer)
			em.NewServers = append(em.NewServers, as)
		}
		em.Signature = glow.Sign(em.SigningBytes(), e.GCA.Priv)
		e.PostJSON("/api/v1/equipment-migrate", em)
	}
	sk := e.S.PublicKey()
	skPriv := e.S.VerifPrivateKey()
	c, dir, err := bareClient("replyc", e, dev, 1, nil, nil, 0, nil)
	if err != nil {
		return err
	}
	defer os.RemoveAll(dir)
	ss := newScriptServer()
	defer ss.close()
	genuine, err := e.SyncRaw(1)
	if err != nil {
		return err
	}
	t.Line("scenario reply-%d", seed)
	seen := map[string]bool{}
	emit := func(label string, stream []byte, sKey, gKey glow.PublicKey) {
		replyOracle(t, seen, stream, dev.Pub, gKey, sKey)
		obs, clock := parseVia(c, ss, stream, sKey, gKey)
		cls := "ok"
		if obs == "err" {
			cls = "err"
		}
		t.Count("reply." + label + ":" + cls)
		t.Line("cl.reply ck=%s gk=%s sk=%s now=%d resp=%s => %s", hx(dev.Pub[:]), hx(gKey[:]), hx(sKey[:]), clock, hx(stream), obs)
	}
	resign := func(body []byte, k glow.PrivateKey) []byte {
		// body = reply without length prefix and without the trailing signature
		sig := glow.Sign(body, k)
		out := make([]byte, 2)
		binary.LittleEndian.PutUint16(out, uint16(len(body)+64))
		return append(append(out, body...), sig[:]...)
	}
	emit("genuine", genuine, sk, e.GCA.Pub)
	emit("unknown-id", mustSync(e, 99), sk, e.GCA.Pub)
	emit("other-device", mustSync(e, 2), sk, e.GCA.Pub)
	emit("wrong-server-key", genuine, detKey(seed, 60).Pub, e.GCA.Pub)
	emit("wrong-gca", genuine, sk, detKey(seed, 61).Pub)
	body := genuine[2 : len(genuine)-64]
	for i := 0; i < size; i++ {
		switch r.pick([]int{25, 10, 10, 15, 10, 10, 10, 10, 12, 10}) {
		case 9: // rogue server: a structured reply that is a little too short (bytes taken out of the bitfield), correctly signed
			m := append([]byte(nil), body...)
			cut := 1 + r.Intn(70)
			if len(m) > 100+cut {
				at := 40 + r.Intn(400)
				m2 := append(append([]byte(nil), m[:at]...), m[at+cut:]...)
				emit("rogue-short-structured", resign(m2, skPriv), sk, e.GCA.Pub)
				break
			}
			emit("genuine-again", genuine, sk, e.GCA.Pub)
		case 8: // rogue server: an entry the GCA never signed, slipped in among the genuine ones (possibly for a key that is listed)
			listed := e.S.VerifSnapshot().Servers
			m := append([]byte(nil), body...)
			if len(m) >= 576+72 && bytes.Equal(m[540:572], make([]byte, 32)) { // no migration order in this reply
				forged := server.AuthorizedServer{PublicKey: detKey(seed, 970).Pub, Banned: r.Chance(60), Location: "x", HttpPort: 1, TcpPort: 2, UdpPort: 3}
				if len(listed) > 0 && r.Chance(70) {
					forged = listed[r.Intn(len(listed))]
					forged.Banned = true
					forged.HttpPort++
				}
				forged.GCAAuthorization = glow.Sign(forged.SigningBytes(), skPriv)
				if r.Chance(15) {
					forged.GCAAuthorization = glow.Signature{}
				}
				fb := forged.Serialize()
				at := 576
				if r.Chance(50) {
					at = len(m) - 72
				}
				m2 := append(append(append([]byte(nil), m[:at]...), fb...), m[at:]...)
				emit("rogue-forged-entry", resign(m2, skPriv), sk, e.GCA.Pub)
				break
			}
			emit("genuine-again", genuine, sk, e.GCA.Pub)
		case 0: // single bit flip anywhere (prefix included)
			m := append([]byte(nil), genuine...)
			b := r.Intn(len(m) * 8)
			m[b/8] ^= 1 << uint(b%8)
			emit("bitflip", m, sk, e.GCA.Pub)
		case 1: // truncation
			emit("truncated", genuine[:r.Intn(len(genuine))], sk, e.GCA.Pub)
		case 2: // extension
			emit("extended", append(append([]byte(nil), genuine...), r.Bytes(1+r.Intn(50))...), sk, e.GCA.Pub)
		case 3: // rogue server: altered content, correctly re-signed with the server's real key
			m := append([]byte(nil), body...)
			for k := 0; k < 1+r.Intn(3); k++ {
				b := r.Intn(len(m) * 8)
				m[b/8] ^= 1 << uint(b%8)
			}
			emit("rogue-bitflip", resign(m, skPriv), sk, e.GCA.Pub)
		case 4: // rogue server: timestamp shifted
			m := append([]byte(nil), body...)
			shift := []int64{-90000, -86401, -86400, -86399, 86399, 86400, 86401, 90000, 30 * 86400}[r.Intn(9)]
			ts := int64(binary.LittleEndian.Uint64(m[len(m)-8:])) + shift
			binary.LittleEndian.PutUint64(m[len(m)-8:], uint64(ts))
			emit("rogue-timeshift", resign(m, skPriv), sk, e.GCA.Pub)
		case 5: // rogue server: arbitrary bytes of arbitrary length, correctly signed
			n := []int{0, 1, 7, 500, 647, 648, 649, 700, 900, 2000}[r.Intn(10)]
			m := r.Bytes(n)
			if n >= 8 {
				binary.LittleEndian.PutUint64(m[n-8:], uint64(time.Now().Unix()))
			}
			if n >= 32 && r.Chance(70) {
				copy(m[:32], dev.Pub[:])
			}
			emit("rogue-random", resign(m, skPriv), sk, e.GCA.Pub)
		case 6: // rogue server: truncated server-entry region with an inflated location length
			m := append([]byte(nil), body...)
			if len(m) > 576+64+8+40 {
				cut := 576 + r.Intn(len(m)-576-72)
				m2 := append(append([]byte(nil), m[:cut]...), m[len(m)-72:]...)
				if cut > 576+34 {
					m2[576+33] = byte(200 + r.Intn(56))
				}
				emit("rogue-truncated-entries", resign(m2, skPriv), sk, e.GCA.Pub)
			} else {
				m2 := append(append([]byte(nil), m[:576]...), r.Bytes(34+r.Intn(80))...)
				m2 = append(m2, m[len(m)-72:]...)
				emit("rogue-garbage-entries", resign(m2, skPriv), sk, e.GCA.Pub)
			}
		case 7: // raw random stream
			emit("random", r.Bytes(r.Intn(900)), sk, e.GCA.Pub)
		}
	}
	t.DumpStats()
	return nil
}

func mustSync(e *Env, id uint32) []byte {
	b, err := e.SyncRaw(id)
	if err != nil {
		return nil
	}
	return b
}

func init() {
	commands["replyscenario"] = func(a []string) int {
		seed, _ := strconv.ParseUint(a[0], 10, 64)
		size, _ := strconv.Atoi(a[1])
		t := NewTrace(os.Stdout)
		if err := runReplyScenario(seed, size, t); err != nil {
			t.Line("# scenario error: %v", err)
			return 3
		}
		return 0
	}
	commands["reply"] = func(a []string) int {
		base, _ := strconv.ParseUint(a[0], 10, 64)
		n, _ := strconv.Atoi(a[1])
		size, _ := strconv.Atoi(a[2])
		f, err := os.Create(a[3])
		if err != nil {
			return 2
		}
		defer f.Close()
		c := runMany([]string{"replyscenario"}, base, n, 12, size, f)
		fmt.Printf("HARNESS scenarios=%d crashes=%d\n", n, c)
		return 0
	}
}
