package main

// A peer that stops answering (C12 "no ... peer failure can ... wedge the server", C13 "deadlock-free").
//
// The server forwards every new equipment authorization to the servers on its list with a plain
// http.Post. A listed server that accepts the connection and then says nothing holds that one handler
// for as long as it likes - that is the peer's privilege. What it must not be able to do is stop anybody
// else: while the handler waits, sync requests, the read-only views and the state snapshot have to be
// answered. The scenario authorizes a server entry that points at a listener of the harness (which
// answers politely at first), switches the listener to silence, authorizes a new device over HTTP in
// the background, waits until the forwarded request has reached the silent listener, probes the
// server, and only then lets the connection go.

import (
	"encoding/binary"
	"fmt"
	"io"
	"math"
	"net"
	"net/http"
	"os"
	"path/filepath"
	"strings"
	"sync"
	"sync/atomic"
	"time"

	"github.com/glowlabs-org/gca-backend/glow"
	"github.com/glowlabs-org/gca-backend/server"
)

type moodyPeer struct {
	ln     net.Listener
	silent atomic.Bool
	mu     sync.Mutex
	held   []net.Conn
}

func newMoodyPeer() (*moodyPeer, error) {
	ln, err := net.Listen("tcp", myIP+":0")
	if err != nil {
		return nil, err
	}
	p := &moodyPeer{ln: ln}
	go func() {
		for {
			c, err := ln.Accept()
			if err != nil {
				return
			}
			if p.silent.Load() {
				p.mu.Lock()
				p.held = append(p.held, c)
				p.mu.Unlock()
				continue
			}
			go func(c net.Conn) {
				defer c.Close()
				c.SetDeadline(time.Now().Add(2 * time.Second))
				buf := make([]byte, 0, 4096)
				tmp := make([]byte, 4096)
				for !strings.Contains(string(buf), "\r\n\r\n") {
					n, err := c.Read(tmp)
					buf = append(buf, tmp[:n]...)
					if err != nil {
						return
					}
				}
				// the body, as far as it is announced
				head := string(buf[:strings.Index(string(buf), "\r\n\r\n")])
				want := 0
				for _, l := range strings.Split(head, "\r\n") {
					if strings.HasPrefix(strings.ToLower(l), "content-length:") {
						fmt.Sscanf(strings.TrimSpace(l[len("content-length:"):]), "%d", &want)
					}
				}
				got := len(buf) - len(head) - 4
				for got < want {
					n, err := c.Read(tmp)
					got += n
					if err != nil {
						break
					}
				}
				io.WriteString(c, "HTTP/1.1 200 OK\r\nContent-Length: 0\r\nConnection: close\r\n\r\n")
			}(c)
		}
	}()
	return p, nil
}

func (p *moodyPeer) port() uint16 { return uint16(p.ln.Addr().(*net.TCPAddr).Port) }

func (p *moodyPeer) heldCount() int {
	p.mu.Lock()
	defer p.mu.Unlock()
	return len(p.held)
}

// relent: answer again, and drop what was held
func (p *moodyPeer) relent() {
	p.silent.Store(false)
	p.mu.Lock()
	for _, c := range p.held {
		c.Close()
	}
	p.held = nil
	p.mu.Unlock()
}

func within(d time.Duration, f func() bool) bool {
	ch := make(chan bool, 1)
	go func() { ch <- f() }()
	select {
	case ok := <-ch:
		return ok
	case <-time.After(d):
		return false
	}
}

func (g *srvGen) opPeerHang() {
	s, r := g.s, g.r
	if !g.regDone || s.E.S == nil {
		return
	}
	p, err := newMoodyPeer()
	if err != nil {
		return
	}
	defer p.ln.Close()
	defer p.relent()
	as := server.AuthorizedServer{PublicKey: detKey(g.seed, 900+r.Intn(20)).Pub, Location: myIP, HttpPort: p.port(),
		TcpPort: closedPortOnce(), UdpPort: closedPortOnce()}
	as.GCAAuthorization = glow.Sign(as.SigningBytes(), s.E.GCA.Priv)
	if s.AuthServer(as) != "ok" {
		return
	}
	listed := false
	for _, x := range s.E.S.VerifSnapshot().Servers {
		if x.PublicKey == as.PublicKey && !x.Banned && x.HttpPort == as.HttpPort {
			listed = true
		}
	}
	if !listed {
		s.T.Count("peerhang:peer-not-listed")
		return
	}
	p.silent.Store(true)
	id := uint32(5000 + r.Intn(1000))
	k := detKey(g.seed, 960+r.Intn(20))
	ea := SignAuth(g.freshAuth(id, k), s.E.GCA.Priv)
	done := make(chan string, 1)
	go func() { done <- s.Authorize(ea, true) }()
	// wait until the forwarded authorization has reached the silent peer
	t0 := time.Now()
	finished := false
	for p.heldCount() == 0 && !finished && time.Since(t0) < 3*time.Second {
		select {
		case <-done:
			// answered before anything reached the peer (for example refused): nothing to probe
			finished = true
		default:
			time.Sleep(5 * time.Millisecond)
		}
	}
	if p.heldCount() == 0 {
		p.relent()
		if !finished {
			select {
			case <-done:
			case <-time.After(25 * time.Second):
			}
		}
		s.T.Count("peerhang:not-reached")
		return
	}
	// the handler of that one request now waits for the peer. Everybody else must be served
	var stuck []string
	httpPort, tcp, _ := s.E.S.Ports()
	quick := &http.Client{Timeout: 4 * time.Second}
	probeID := id
	if len(g.devs) > 0 {
		probeID = g.devs[r.Intn(len(g.devs))].id
	}
	if !within(5*time.Second, func() bool {
		c, err := net.DialTimeout("tcp", fmt.Sprintf("127.0.0.1:%d", tcp), 2*time.Second)
		if err != nil {
			return false
		}
		defer c.Close()
		var b [4]byte
		binary.LittleEndian.PutUint32(b[:], probeID)
		c.Write(b[:])
		c.SetReadDeadline(time.Now().Add(4 * time.Second))
		one := make([]byte, 1)
		_, err = io.ReadFull(c, one)
		return err == nil
	}) {
		stuck = append(stuck, "sync")
	}
	for _, path := range []string{"/api/v1/authorized-servers", "/api/v1/equipment"} {
		resp, err := quick.Get(fmt.Sprintf("http://127.0.0.1:%d%s", httpPort, path))
		if err != nil {
			stuck = append(stuck, "GET"+path)
			continue
		}
		io.Copy(io.Discard, resp.Body)
		resp.Body.Close()
	}
	if !within(4*time.Second, func() bool { s.E.S.VerifSnapshot(); return true }) {
		stuck = append(stuck, "state-mutex")
	}
	p.relent()
	select {
	case <-done:
	case <-time.After(25 * time.Second):
		stuck = append(stuck, "authorize-never-returned")
	}
	obs := "ok"
	if len(stuck) > 0 {
		obs = "STUCK:" + strings.Join(stuck, ",")
	}
	s.T.Count("peerhang:" + obs)
	s.T.Line("srv.parcheck what=silent-peer-during-forwarding => %s", obs)
}

// opClockWhileQueued: the clock moves to the next timeslot while a datagram waits for the server's
// mutex (held by an authorization that is between writing its record and updating memory). The
// datagram is dealt with after the step, so it has to be judged by the new time: a report that was on
// the edge of the acceptance window when it arrived is on the other side of it when it is integrated.
// The history is sequential: the authorization, the clock step, the datagram.
func (g *srvGen) opClockWhileQueued() {
	s, r := g.s, g.r
	if len(g.devs) == 0 || !g.regDone || s.E.S == nil {
		return
	}
	dv := g.devs[r.Intn(len(g.devs))]
	now := glow.CurrentTimeslot()
	ts := int64(now) - 432 // inside at `now`, too old one slot later
	if r.Chance(50) {
		ts = int64(now) + 433 // too new at `now`, inside one slot later
	}
	if ts < 0 || ts > math.MaxUint32 || now == math.MaxUint32 {
		return
	}
	rep := MkReport(dv.id, uint32(ts), 2+uint64(r.Intn(1000)), dv.key.Priv)
	d := rep.Serialize()
	snap := s.E.S.VerifSnapshot()
	if ea, ok := snap.Equipment[dv.id]; ok {
		s.oracle(ea.PublicKey, rep.SigningBytes(), rep.Signature)
	}
	k := detKey(g.seed, 980+r.Intn(10))
	ea := SignAuth(g.freshAuth(uint32(6000+r.Intn(1000)), k), s.E.GCA.Priv)
	s.Keys[ea.PublicKey] = true
	s.oracle(snap.GCAKey, ea.SigningBytes(), ea.Signature)
	_, had := snap.Equipment[ea.ShortID]
	fired := false
	doneB := make(chan struct{})
	before := fileLen(s.E.Dir + "/equipment-reports.dat")
	server.VerifSetPoint("persist:auth-written", func() {
		if fired {
			return
		}
		fired = true
		go func() { s.E.S.VerifInject(d); close(doneB) }()
		time.Sleep(30 * time.Millisecond)
		glow.SetCurrentTimeslot(now + 1)
	})
	_, err := s.E.S.VerifAuthorize(ea)
	server.VerifSetPoint("persist:auth-written", nil)
	wasBanned := false
	for _, b := range snap.Bans {
		if b == ea.ShortID {
			wasBanned = true
		}
	}
	obsA := "new"
	switch {
	case err != nil:
		obsA = "refused"
		for _, b := range s.E.S.VerifSnapshot().Bans {
			if b == ea.ShortID && !wasBanned { // banned by THIS order (an id banned earlier is just refused)
				obsA = "banned"
			}
		}
	case had:
		obsA = "ok"
	}
	if !fired {
		// the authorization never reached its persistence step: an ordinary operation
		s.T.Count("clock-while-queued:not-reached")
		s.emit("srv.authorize a="+hx(ea.Serialize()), obsA)
		return
	}
	select {
	case <-doneB:
	case <-time.After(10 * time.Second):
		s.T.Line("srv.parcheck what=datagram-queued-behind-authorization => STUCK")
		return
	}
	s.T.Line("srv.authorize a=%s => %s", hx(ea.Serialize()), obsA)
	if obsA == "new" {
		g.authsSeen = append(g.authsSeen, ea)
	}
	obs := "dropped"
	if fileLen(s.E.Dir+"/equipment-reports.dat") != before {
		obs = "stored"
	}
	s.T.Count("clock-while-queued:" + obs)
	s.emit(fmt.Sprintf("srv.dgram now=%d d=%s", now+1, hx(d)), obs)
	g.sent = append(g.sent, d)
}

// opBulkServers: a server list far longer than any test of the repository builds (181..240 entries), most
// of them banned, some banned after having been listed as good; then the good originals of the banned
// ones are submitted again. A ban is final however long the list is.
func (g *srvGen) opBulkServers() {
	s, r := g.s, g.r
	n := 181 + r.Intn(60)
	var originals []server.AuthorizedServer
	for i := 0; i < n && s.E.S != nil; i++ {
		as := server.AuthorizedServer{PublicKey: detKey(g.seed, 2000+i).Pub, Banned: r.Chance(70), Location: myIP, HttpPort: closedPortOnce(),
			TcpPort: uint16(1 + i), UdpPort: 2}
		as.GCAAuthorization = glow.Sign(as.SigningBytes(), s.E.GCA.Priv)
		s.AuthServer(as)
		if !as.Banned && r.Chance(30) {
			originals = append(originals, as)
			as.Banned = true
			as.GCAAuthorization = glow.Sign(as.SigningBytes(), s.E.GCA.Priv)
			s.AuthServer(as)
		}
	}
	for _, as := range originals {
		s.AuthServer(as)
	}
	s.T.Count("bulk-server-list")
	s.Servers()
}

// strayFiles leaves files next to the server's own that no version of the server reads: editor backups,
// copies, and what an interrupted write-to-a-temporary-file-and-rename scheme would leave behind (a copy
// of the file as it was, sometimes with a little more). They must not matter to any later start or rotation.
func (g *srvGen) strayFiles() {
	r, dir := g.r, g.s.E.Dir
	names := []string{"equipment-authorizations.dat", "equipment-reports.dat", server.AllDeviceStatsHistoryFile, "gcaPubKey.dat", "server.keys"}
	for _, n := range names {
		if !r.Chance(35) {
			continue
		}
		cur, _ := os.ReadFile(filepath.Join(dir, n))
		body := append([]byte(nil), cur...)
		switch r.Intn(3) {
		case 0:
			body = append(body, r.Bytes(r.Intn(200))...)
		case 1:
			body = r.Bytes(r.Intn(300))
		}
		suffix := []string{".tmp", ".new", "~", ".bak", ".compact", ".swp"}[r.Intn(6)]
		os.WriteFile(filepath.Join(dir, n+suffix), body, 0644)
		g.s.T.Count("stray-file:" + suffix)
	}
}

// opStartFault: the server is started while one of its files cannot be read (a directory sits at its
// path, so the read fails with an error that is not "no such file"). The start has to fail. The file is
// then put back and the server started normally: nothing was lost.
func (g *srvGen) opStartFault() error {
	s, r := g.s, g.r
	var have []string
	for _, n := range []string{"gcaPubKey.dat", "equipment-authorizations.dat", "equipment-reports.dat", server.AllDeviceStatsHistoryFile, "server.keys", "gcaTempPubKey.dat"} {
		if st, err := os.Stat(filepath.Join(s.E.Dir, n)); err == nil && st.Mode().IsRegular() {
			have = append(have, n)
		}
	}
	if len(have) == 0 {
		return nil
	}
	n := have[r.Intn(len(have))]
	if r.Chance(40) {
		// the one file whose absence means "not registered yet": unreadable is not absent
		for _, x := range have {
			if x == "gcaPubKey.dat" {
				n = x
			}
		}
	}
	path := filepath.Join(s.E.Dir, n)
	if err := s.E.Stop(); err != nil {
		return err
	}
	if os.Rename(path, path+".aside") != nil {
		return s.restartAfterStop()
	}
	os.Mkdir(path, 0755)
	s.InStart = true
	err := s.E.Start()
	s.InStart = false
	obs := "fail"
	if err == nil {
		obs = "started"
		s.E.Stop()
	}
	os.RemoveAll(path)
	os.Rename(path+".aside", path)
	s.T.Count("startfault:" + n + ":" + obs)
	s.T.Line("srv.startfault what=unreadable:%s => %s", n, obs)
	return s.restartAfterStop()
}

// opDiskDamage: one bit of one stored authorization or report flips while the server is down.
func (g *srvGen) opDiskDamage() error {
	s, r := g.s, g.r
	file, rec, name := "auths", 148, "equipment-authorizations.dat"
	if r.Chance(50) {
		file, rec, name = "reports", 80, "equipment-reports.dat"
	}
	path := filepath.Join(s.E.Dir, name)
	raw, err := os.ReadFile(path)
	if err != nil || len(raw) < rec || len(raw)%rec != 0 {
		return nil
	}
	snap := s.E.S.VerifSnapshot()
	s.Keys[snap.GCAKey] = true
	for _, ea := range snap.Equipment {
		s.Keys[ea.PublicKey] = true
	}
	if err := s.E.Stop(); err != nil {
		return err
	}
	idx := r.Intn(len(raw) / rec)
	bit := r.Intn(rec * 8)
	raw[idx*rec+bit/8] ^= 1 << uint(bit%8)
	os.WriteFile(path, raw, 0644)
	// what the start will ask the signature check about this record
	b := raw[idx*rec : (idx+1)*rec]
	if file == "auths" {
		if ea, err := glow.DeserializeEquipmentAuthorization(b); err == nil {
			s.Keys[ea.PublicKey] = true
			s.oracleAll(ea.SigningBytes(), ea.Signature)
			// the driver asks in advance for every verdict a start could need, also for the reports of the id
			// this record now names under the key it now carries (the real start never gets that far)
			reps, _ := os.ReadFile(filepath.Join(s.E.Dir, "equipment-reports.dat"))
			for i := 0; i+80 <= len(reps); i += 80 {
				if rep, err := glow.DeserializeReport(reps[i : i+80]); err == nil && rep.ShortID == ea.ShortID {
					s.oracle(ea.PublicKey, rep.SigningBytes(), rep.Signature)
				}
			}
		}
	} else if rep, err := glow.DeserializeReport(b); err == nil {
		s.oracleAll(rep.SigningBytes(), rep.Signature)
	}
	s.T.Count("disk-damage:" + file)
	s.T.Line("srv.damage file=%s idx=%d bit=%d", file, idx, bit)
	return s.restartAfterStop()
}

// opSlowSection: one critical section takes longer than the deadline of a sync connection that is waiting
// for the same mutex (an authorization is held between its write and its memory update for 3.2 s). The
// sync request may go unanswered; what must not happen is that the wait leaves the mutex locked for good.
func (g *srvGen) opSlowSection() {
	s, r := g.s, g.r
	if !g.regDone || s.E.S == nil {
		return
	}
	snap := s.E.S.VerifSnapshot()
	ea := SignAuth(g.freshAuth(uint32(6500+r.Intn(400)), detKey(g.seed, 970+r.Intn(10))), s.E.GCA.Priv)
	s.Keys[ea.PublicKey] = true
	s.oracle(snap.GCAKey, ea.SigningBytes(), ea.Signature)
	_, had := snap.Equipment[ea.ShortID]
	id := ea.ShortID
	if len(g.devs) > 0 {
		id = g.devs[r.Intn(len(g.devs))].id
	}
	_, tcp, _ := s.E.S.Ports()
	fired := false
	doneB := make(chan struct{})
	server.VerifSetPoint("persist:auth-written", func() {
		if fired {
			return
		}
		fired = true
		go func() {
			defer close(doneB)
			c, err := net.DialTimeout("tcp", fmt.Sprintf("127.0.0.1:%d", tcp), 2*time.Second)
			if err != nil {
				return
			}
			defer c.Close()
			var b [4]byte
			binary.LittleEndian.PutUint32(b[:], id)
			c.Write(b[:])
			c.SetReadDeadline(time.Now().Add(8 * time.Second))
			io.Copy(io.Discard, c)
		}()
		time.Sleep(3200 * time.Millisecond)
	})
	_, err := s.E.S.VerifAuthorize(ea)
	server.VerifSetPoint("persist:auth-written", nil)
	if !fired {
		close(doneB)
	}
	obsA := "new"
	if err != nil {
		obsA = "refused"
	} else if had {
		obsA = "ok"
	}
	select {
	case <-doneB:
	case <-time.After(12 * time.Second):
	}
	s.T.Count("slow-critical-section")
	if !within(6*time.Second, func() bool { s.E.S.VerifSnapshot(); return true }) {
		s.T.Line("srv.authorize a=%s => %s", hx(ea.Serialize()), obsA)
		s.T.Line("srv.parcheck what=sync-request-waiting-behind-a-slow-critical-section => STUCK:the state mutex is still held 6 s after the section ended")
		s.Lost = true
		return
	}
	if obsA == "refused" {
		wasBanned := false
		for _, b := range snap.Bans {
			if b == ea.ShortID {
				wasBanned = true
			}
		}
		for _, b := range s.E.S.VerifSnapshot().Bans {
			if b == ea.ShortID && !wasBanned {
				obsA = "banned"
			}
		}
	}
	s.emit("srv.authorize a="+hx(ea.Serialize()), obsA)
	if obsA == "new" {
		g.authsSeen = append(g.authsSeen, ea)
	}
}

// opUDPRepeat: the same datagram arrives twice in a row through the real socket, and between the two
// arrivals the reason why the first was dropped goes away (its device gets authorized, or the clock reaches
// its window). The second copy is a datagram like any other.
func (g *srvGen) opUDPRepeat() {
	s, r := g.s, g.r
	if !g.regDone || s.E.S == nil {
		return
	}
	now := glow.CurrentTimeslot()
	if r.Chance(50) || len(g.devs) == 0 {
		k := detKey(g.seed, 940+r.Intn(20))
		ea := SignAuth(g.freshAuth(uint32(8000+r.Intn(500)), k), s.E.GCA.Priv)
		d := MkReport(ea.ShortID, now, 2+uint64(r.Intn(900)), k.Priv).Serialize()
		if s.DgramUDPPlain(d) == "lost" {
			return
		}
		if s.Authorize(ea, false) == "new" {
			g.authsSeen = append(g.authsSeen, ea)
		}
		s.DgramUDPPlain(d)
		g.sent = append(g.sent, d)
		s.T.Count("udp-repeat:authorized-in-between")
		return
	}
	dv := g.devs[r.Intn(len(g.devs))]
	if uint64(now)+440 > math.MaxUint32 {
		return
	}
	d := MkReport(dv.id, now+433+uint32(r.Intn(5)), 2+uint64(r.Intn(900)), dv.key.Priv).Serialize()
	if s.DgramUDPPlain(d) == "lost" {
		return
	}
	s.SetNow(now + 1 + uint32(r.Intn(6)))
	s.DgramUDPPlain(d)
	g.sent = append(g.sent, d)
	s.T.Count("udp-repeat:clock-in-between")
}
