package main

// A peer that stops answering (C12 "no ... peer failure can ... wedge the server", C13 "deadlock-free").
//
// The server forwards every new equipment authorization to the servers on its list with a plain
// http.Post. A listed server that accepts the connection and then says nothing holds that one handler
// for as long as it likes - that is the peer's privilege. What it must not be able to do is stop anybody
// else: while the handler waits, sync requests, the read-only views and the state snapshot have to be
// answered. The scenario authorizes a server entry that points at a listener of the harness (which
// answers politely at first), switches the listener to silence, authorizes a new device over HTTP in
// the background, waits until the forwarded request has reached the silent listener, probes the
// server, and only then lets the connection go.

import (
	"encoding/binary"
	"fmt"
	"io"
	"math"
	"net"
	"net/http"
	"strings"
	"sync"
	"sync/atomic"
	"time"

	"github.com/glowlabs-org/gca-backend/glow"
	"github.com/glowlabs-org/gca-backend/server"
)

type moodyPeer struct {
	ln     net.Listener
	silent atomic.Bool
	mu     sync.Mutex
	held   []net.Conn
}

func newMoodyPeer() (*moodyPeer, error) {
	ln, err := net.Listen("tcp", myIP+":0")
	if err != nil {
		return nil, err
	}
	p := &moodyPeer{ln: ln}
	go func() {
		for {
			c, err := ln.Accept()
			if err != nil {
				return
			}
			if p.silent.Load() {
				p.mu.Lock()
				p.held = append(p.held, c)
				p.mu.Unlock()
				continue
			}
			go func(c net.Conn) {
				defer c.Close()
				c.SetDeadline(time.Now().Add(2 * time.Second))
				buf := make([]byte, 0, 4096)
				tmp := make([]byte, 4096)
				for !strings.Contains(string(buf), "\r\n\r\n") {
					n, err := c.Read(tmp)
					buf = append(buf, tmp[:n]...)
					if err != nil {
						return
					}
				}
				// the body, as far as it is announced
				head := string(buf[:strings.Index(string(buf), "\r\n\r\n")])
				want := 0
				for _, l := range strings.Split(head, "\r\n") {
					if strings.HasPrefix(strings.ToLower(l), "content-length:") {
						fmt.Sscanf(strings.TrimSpace(l[len("content-length:"):]), "%d", &want)
					}
				}
				got := len(buf) - len(head) - 4
				for got < want {
					n, err := c.Read(tmp)
					got += n
					if err != nil {
						break
					}
				}
				io.WriteString(c, "HTTP/1.1 200 OK\r\nContent-Length: 0\r\nConnection: close\r\n\r\n")
			}(c)
		}
	}()
	return p, nil
}

func (p *moodyPeer) port() uint16 { return uint16(p.ln.Addr().(*net.TCPAddr).Port) }

func (p *moodyPeer) heldCount() int {
	p.mu.Lock()
	defer p.mu.Unlock()
	return len(p.held)
}

// relent: answer again, and drop what was held
func (p *moodyPeer) relent() {
	p.silent.Store(false)
	p.mu.Lock()
	for _, c := range p.held {
		c.Close()
	}
	p.held = nil
	p.mu.Unlock()
}

func within(d time.Duration, f func() bool) bool {
	ch := make(chan bool, 1)
	go func() { ch <- f() }()
	select {
	case ok := <-ch:
		return ok
	case <-time.After(d):
		return false
	}
}

func (g *srvGen) opPeerHang() {
	s, r := g.s, g.r
	if !g.regDone || s.E.S == nil {
		return
	}
	p, err := newMoodyPeer()
	if err != nil {
		return
	}
	defer p.ln.Close()
	defer p.relent()
	as := server.AuthorizedServer{PublicKey: detKey(g.seed, 900+r.Intn(20)).Pub, Location: myIP, HttpPort: p.port(),
		TcpPort: closedPortOnce(), UdpPort: closedPortOnce()}
	as.GCAAuthorization = glow.Sign(as.SigningBytes(), s.E.GCA.Priv)
	if s.AuthServer(as) != "ok" {
		return
	}
	listed := false
	for _, x := range s.E.S.VerifSnapshot().Servers {
		if x.PublicKey == as.PublicKey && !x.Banned && x.HttpPort == as.HttpPort {
			listed = true
		}
	}
	if !listed {
		s.T.Count("peerhang:peer-not-listed")
		return
	}
	p.silent.Store(true)
	id := uint32(5000 + r.Intn(1000))
	k := detKey(g.seed, 960+r.Intn(20))
	ea := SignAuth(g.freshAuth(id, k), s.E.GCA.Priv)
	done := make(chan string, 1)
	go func() { done <- s.Authorize(ea, true) }()
	// wait until the forwarded authorization has reached the silent peer
	t0 := time.Now()
	finished := false
	for p.heldCount() == 0 && !finished && time.Since(t0) < 3*time.Second {
		select {
		case <-done:
			// answered before anything reached the peer (for example refused): nothing to probe
			finished = true
		default:
			time.Sleep(5 * time.Millisecond)
		}
	}
	if p.heldCount() == 0 {
		p.relent()
		if !finished {
			select {
			case <-done:
			case <-time.After(25 * time.Second):
			}
		}
		s.T.Count("peerhang:not-reached")
		return
	}
	// the handler of that one request now waits for the peer. Everybody else must be served
	var stuck []string
	httpPort, tcp, _ := s.E.S.Ports()
	quick := &http.Client{Timeout: 4 * time.Second}
	probeID := id
	if len(g.devs) > 0 {
		probeID = g.devs[r.Intn(len(g.devs))].id
	}
	if !within(5*time.Second, func() bool {
		c, err := net.DialTimeout("tcp", fmt.Sprintf("127.0.0.1:%d", tcp), 2*time.Second)
		if err != nil {
			return false
		}
		defer c.Close()
		var b [4]byte
		binary.LittleEndian.PutUint32(b[:], probeID)
		c.Write(b[:])
		c.SetReadDeadline(time.Now().Add(4 * time.Second))
		one := make([]byte, 1)
		_, err = io.ReadFull(c, one)
		return err == nil
	}) {
		stuck = append(stuck, "sync")
	}
	for _, path := range []string{"/api/v1/authorized-servers", "/api/v1/equipment"} {
		resp, err := quick.Get(fmt.Sprintf("http://127.0.0.1:%d%s", httpPort, path))
		if err != nil {
			stuck = append(stuck, "GET"+path)
			continue
		}
		io.Copy(io.Discard, resp.Body)
		resp.Body.Close()
	}
	if !within(4*time.Second, func() bool { s.E.S.VerifSnapshot(); return true }) {
		stuck = append(stuck, "state-mutex")
	}
	p.relent()
	select {
	case <-done:
	case <-time.After(25 * time.Second):
		stuck = append(stuck, "authorize-never-returned")
	}
	obs := "ok"
	if len(stuck) > 0 {
		obs = "STUCK:" + strings.Join(stuck, ",")
	}
	s.T.Count("peerhang:" + obs)
	s.T.Line("srv.parcheck what=silent-peer-during-forwarding => %s", obs)
}

// opClockWhileQueued: the clock moves to the next timeslot while a datagram waits for the server's
// mutex (held by an authorization that is between writing its record and updating memory). The
// datagram is dealt with after the step, so it has to be judged by the new time: a report that was on
// the edge of the acceptance window when it arrived is on the other side of it when it is integrated.
// The history is sequential: the authorization, the clock step, the datagram.
func (g *srvGen) opClockWhileQueued() {
	s, r := g.s, g.r
	if len(g.devs) == 0 || !g.regDone || s.E.S == nil {
		return
	}
	dv := g.devs[r.Intn(len(g.devs))]
	now := glow.CurrentTimeslot()
	ts := int64(now) - 432 // inside at `now`, too old one slot later
	if r.Chance(50) {
		ts = int64(now) + 433 // too new at `now`, inside one slot later
	}
	if ts < 0 || ts > math.MaxUint32 || now == math.MaxUint32 {
		return
	}
	rep := MkReport(dv.id, uint32(ts), 2+uint64(r.Intn(1000)), dv.key.Priv)
	d := rep.Serialize()
	snap := s.E.S.VerifSnapshot()
	if ea, ok := snap.Equipment[dv.id]; ok {
		s.oracle(ea.PublicKey, rep.SigningBytes(), rep.Signature)
	}
	k := detKey(g.seed, 980+r.Intn(10))
	ea := SignAuth(g.freshAuth(uint32(6000+r.Intn(1000)), k), s.E.GCA.Priv)
	s.Keys[ea.PublicKey] = true
	s.oracle(snap.GCAKey, ea.SigningBytes(), ea.Signature)
	_, had := snap.Equipment[ea.ShortID]
	fired := false
	doneB := make(chan struct{})
	before := fileLen(s.E.Dir + "/equipment-reports.dat")
	server.VerifSetPoint("persist:auth-written", func() {
		if fired {
			return
		}
		fired = true
		go func() { s.E.S.VerifInject(d); close(doneB) }()
		time.Sleep(30 * time.Millisecond)
		glow.SetCurrentTimeslot(now + 1)
	})
	_, err := s.E.S.VerifAuthorize(ea)
	server.VerifSetPoint("persist:auth-written", nil)
	obsA := "new"
	switch {
	case err != nil:
		obsA = "refused"
		for _, b := range s.E.S.VerifSnapshot().Bans {
			if b == ea.ShortID {
				obsA = "banned"
			}
		}
	case had:
		obsA = "ok"
	}
	if !fired {
		// the authorization never reached its persistence step: an ordinary operation
		s.T.Count("clock-while-queued:not-reached")
		s.emit("srv.authorize a="+hx(ea.Serialize()), obsA)
		return
	}
	select {
	case <-doneB:
	case <-time.After(10 * time.Second):
		s.T.Line("srv.parcheck what=datagram-queued-behind-authorization => STUCK")
		return
	}
	s.T.Line("srv.authorize a=%s => %s", hx(ea.Serialize()), obsA)
	if obsA == "new" {
		g.authsSeen = append(g.authsSeen, ea)
	}
	obs := "dropped"
	if fileLen(s.E.Dir+"/equipment-reports.dat") != before {
		obs = "stored"
	}
	s.T.Count("clock-while-queued:" + obs)
	s.emit(fmt.Sprintf("srv.dgram now=%d d=%s", now+1, hx(d)), obs)
	g.sent = append(g.sent, d)
}

// opBulkServers: a server list far longer than any test of the repository builds (181..240 entries), most
// of them banned, some banned after having been listed as good; then the good originals of the banned
// ones are submitted again. A ban is final however long the list is.
func (g *srvGen) opBulkServers() {
	s, r := g.s, g.r
	n := 181 + r.Intn(60)
	var originals []server.AuthorizedServer
	for i := 0; i < n && s.E.S != nil; i++ {
		as := server.AuthorizedServer{PublicKey: detKey(g.seed, 2000+i).Pub, Banned: r.Chance(70), Location: myIP, HttpPort: closedPortOnce(),
			TcpPort: uint16(1 + i), UdpPort: 2}
		as.GCAAuthorization = glow.Sign(as.SigningBytes(), s.E.GCA.Priv)
		s.AuthServer(as)
		if !as.Banned && r.Chance(30) {
			originals = append(originals, as)
			as.Banned = true
			as.GCAAuthorization = glow.Sign(as.SigningBytes(), s.E.GCA.Priv)
			s.AuthServer(as)
		}
	}
	for _, as := range originals {
		s.AuthServer(as)
	}
	s.T.Count("bulk-server-list")
	s.Servers()
}
