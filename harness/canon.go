package main

// Canonical renderings; the same formats are produced by Gca/Driver/Canon.lean.

import (
	"encoding/hex"
	"fmt"
	"math"
	"os"
	"path/filepath"
	"sort"
	"strconv"
	"strings"

	"github.com/glowlabs-org/gca-backend/glow"
	"github.com/glowlabs-org/gca-backend/server"
)

func hx(b []byte) string {
	if len(b) == 0 {
		return "-"
	}
	return hex.EncodeToString(b)
}

func fnv64(s string) string {
	h := uint64(14695981039346656037)
	for i := 0; i < len(s); i++ {
		h ^= uint64(s[i])
		h *= 1099511628211
	}
	return fmt.Sprintf("%016x", h)
}

func canonWeek(w server.AllDeviceStats) string {
	var devs []string
	for _, d := range w.Devices {
		var ps, is []string
		for i, p := range d.PowerOutputs {
			if p != 0 {
				ps = append(ps, fmt.Sprintf("%d.%d", i, p))
			}
		}
		for i, r := range d.ImpactRates {
			if b := math.Float64bits(r); b != 0 {
				is = append(is, fmt.Sprintf("%d.%d", i, b))
			}
		}
		devs = append(devs, hx(d.PublicKey[:])+":"+strings.Join(ps, ",")+":"+strings.Join(is, ","))
	}
	sort.Strings(devs)
	return fmt.Sprintf("tso=%d;", w.TimeslotOffset) + strings.Join(devs, ";")
}

func canonSnapshot(s server.VerifSnap) string {
	var ids []int
	for id := range s.Equipment {
		ids = append(ids, int(id))
	}
	sort.Ints(ids)
	var devs []string
	desync := len(s.Reports) != len(s.Equipment) || len(s.Impact) != len(s.Equipment)
	for _, i := range ids {
		id := uint32(i)
		ea := s.Equipment[id]
		reps, ok1 := s.Reports[id]
		imp, ok2 := s.Impact[id]
		if !ok1 || !ok2 {
			desync = true
		}
		var slots, imps []string
		var zero glow.EquipmentReport
		for j := range reps {
			if reps[j] != zero {
				slots = append(slots, strconv.Itoa(j)+"."+hex.EncodeToString(reps[j].Serialize()))
			}
		}
		for j := range imp {
			if b := math.Float64bits(imp[j]); b != 0 {
				imps = append(imps, fmt.Sprintf("%d.%d", j, b))
			}
		}
		devs = append(devs, fmt.Sprintf("%d:%s:%s:%s", id, hex.EncodeToString(ea.Serialize()), strings.Join(slots, ","), strings.Join(imps, ",")))
	}
	if desync {
		devs = append(devs, "MAPS-OUT-OF-SYNC")
	}
	var short []string
	for k, v := range s.ShortIDs {
		short = append(short, fmt.Sprintf("%s:%d", hx(k[:]), v))
	}
	sort.Strings(short)
	var bans []string
	for _, b := range s.Bans {
		bans = append(bans, strconv.Itoa(int(b)))
	}
	var hist []string
	for _, w := range s.History {
		hist = append(hist, canonWeek(w))
	}
	var rr, ra []string
	for _, r := range s.RecentReports {
		rr = append(rr, hex.EncodeToString(r.Serialize()))
	}
	for _, a := range s.RecentAuths {
		ra = append(ra, hex.EncodeToString(a.Serialize()))
	}
	var srv []byte
	for _, a := range s.Servers {
		a := a
		srv = append(srv, a.Serialize()...)
	}
	var migs []string
	for k, m := range s.Migrations {
		migs = append(migs, hx(k[:])+":"+hx(m.Serialize()))
	}
	sort.Strings(migs)
	avail := 0
	if s.GCAAvailable {
		avail = 1
	}
	return strings.Join([]string{
		fmt.Sprintf("off=%d", s.ReportsOffset), fmt.Sprintf("avail=%d", avail), "gca=" + hx(s.GCAKey[:]),
		"bans=" + strings.Join(bans, ","), "devs=" + strings.Join(devs, ";"), "short=" + strings.Join(short, ","),
		"hist=" + strings.Join(hist, "#"), "rr=" + strings.Join(rr, ","), "ra=" + strings.Join(ra, ","),
		"servers=" + hx(srv), "migs=" + strings.Join(migs, ","),
	}, "|")
}

// canonDisk renders the persisted files of a server directory.
func canonDisk(dir string) string {
	gca := "absent"
	if b, err := os.ReadFile(filepath.Join(dir, "gcaPubKey.dat")); err == nil {
		gca = hx(b)
	}
	auths, _ := os.ReadFile(filepath.Join(dir, "equipment-authorizations.dat"))
	reports, _ := os.ReadFile(filepath.Join(dir, "equipment-reports.dat"))
	weeksRaw, _ := os.ReadFile(filepath.Join(dir, server.AllDeviceStatsHistoryFile))
	var weeks []string
	for len(weeksRaw) > 0 {
		w, n, err := server.DeserializeStreamAllDeviceStats(weeksRaw)
		if err != nil {
			weeks = append(weeks, "UNDECODABLE")
			break
		}
		weeks = append(weeks, canonWeek(w))
		weeksRaw = weeksRaw[n:]
	}
	return strings.Join([]string{"gca=" + gca, "auths=" + hx(auths), "reports=" + hx(reports), "weeks=" + strings.Join(weeks, "#")}, "|")
}
