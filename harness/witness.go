package main

// Defect witnesses: one small scenario per defect found while modelling
// (DESIGN.md section 7). Each runs against the real code in a child process
// (several of them kill the process when the defect is present) and reports
// whether the property-relevant behaviour is CORRECT. They are the regression
// corpus that every property check runs first.

import (
	"bytes"
	"encoding/binary"
	"fmt"
	"net"
	"os"
	"path/filepath"
	"strconv"
	"strings"
	"sync/atomic"
	"time"

	"github.com/glowlabs-org/gca-backend/client"
	"github.com/glowlabs-org/gca-backend/glow"
	"github.com/glowlabs-org/gca-backend/server"
)

type witness struct {
	ID    string
	Props []string
	What  string
	Run   func() (bool, string)
}

func mkAuth(id uint32, k Key, cap uint64) glow.EquipmentAuthorization {
	return glow.EquipmentAuthorization{ShortID: id, PublicKey: k.Pub, Latitude: 38, Longitude: -100, Capacity: cap, Debt: 11, Expiration: 100e6}
}

func mustEnv(name string) *Env {
	e, err := NewEnv(name, 7, true)
	if err != nil {
		panic(err)
	}
	if err := e.RegisterDefault(); err != nil {
		panic(err)
	}
	return e
}

func (e *Env) mustAuth(ea glow.EquipmentAuthorization) {
	st, err := e.Authorize(SignAuth(ea, e.GCA.Priv))
	if err != nil || st != 200 {
		panic(fmt.Sprintf("authorize: %v %v", st, err))
	}
}

func bareClient(name string, e *Env, dev Key, id uint32, energy *string, ct *string, histOff uint32, servers map[glow.PublicKey]client.GCAServer) (*client.Client, string, error) {
	dir := freshDir(name)
	if servers == nil {
		k, v := serverEntry(e)
		servers = map[glow.PublicKey]client.GCAServer{k: v}
	}
	gca := detKey(7, 1001).Pub
	if e != nil {
		gca = e.GCA.Pub
	}
	err := writeClientDir(ClientDir{Dir: dir, Key: dev, GCAPub: gca, ShortID: id, Servers: servers, HistoryOffset: histOff, Energy: energy, CT: ct})
	if err != nil {
		return nil, dir, err
	}
	c, err := client.VerifNewClientNoLoop(dir)
	return c, dir, err
}

// fakeTCP serves exactly the given bytes to every connection.
func fakeTCP(reply []byte) (uint16, func()) {
	l, err := net.Listen("tcp", myIP+":0")
	if err != nil {
		panic(err)
	}
	go func() {
		for {
			c, err := l.Accept()
			if err != nil {
				return
			}
			go func() {
				var b [4]byte
				c.SetDeadline(time.Now().Add(2 * time.Second))
				c.Read(b[:])
				c.Write(reply)
				c.Close()
			}()
		}
	}()
	return uint16(l.Addr().(*net.TCPAddr).Port), func() { l.Close() }
}

func closedPort() uint16 {
	l, _ := net.Listen("tcp", myIP+":0")
	p := uint16(l.Addr().(*net.TCPAddr).Port)
	l.Close()
	return p
}

var witnesses = []witness{
	{"F1", []string{"C01", "C12"}, "valid report with Timeslot = offset+4032 while a rotation is pending", func() (bool, string) {
		e := mustEnv("f1")
		d := detKey(7, 1)
		e.mustAuth(mkAuth(1, d, 1e12))
		glow.SetCurrentTimeslot(3650)
		before := e.S.VerifSnapshot()
		r := MkReport(1, 4032, 500, d.Priv)
		e.S.VerifInject(r.Serialize())
		after := e.S.VerifSnapshot()
		ok := len(after.RecentReports) == len(before.RecentReports)
		e.Stop()
		return ok, fmt.Sprintf("recent %d -> %d", len(before.RecentReports), len(after.RecentReports))
	}},
	{"F2", []string{"C04"}, "restart after a ban with reports on disk", func() (bool, string) {
		e := mustEnv("f2")
		d := detKey(7, 1)
		e.mustAuth(mkAuth(1, d, 1e12))
		glow.SetCurrentTimeslot(10)
		e.S.VerifInject(MkReport(1, 5, 500, d.Priv).Serialize())
		conflict := mkAuth(1, d, 1e12)
		conflict.Debt = 12
		e.Authorize(SignAuth(conflict, e.GCA.Priv))
		if err := e.Restart(); err != nil {
			return false, "restart failed: " + err.Error()
		}
		s := e.S.VerifSnapshot()
		ok := len(s.Bans) == 1 && len(s.Equipment) == 0
		e.Stop()
		return ok, fmt.Sprintf("bans=%v equipment=%d", s.Bans, len(s.Equipment))
	}},
	{"F3", []string{"C06"}, "conflicting authorization with a different public key (own new key, and another device's key)", func() (bool, string) {
		e := mustEnv("f3")
		a, b, c := detKey(7, 1), detKey(7, 2), detKey(7, 3)
		e.mustAuth(mkAuth(1, a, 1e12))
		e.mustAuth(mkAuth(2, c, 1e12))
		e.Authorize(SignAuth(mkAuth(1, b, 1e12), e.GCA.Priv)) // conflict: new key b
		s := e.S.VerifSnapshot()
		_, stale := s.ShortIDs[a.Pub]
		ok1 := !stale && s.ShortIDs[c.Pub] == 2 && len(s.ShortIDs) == 1
		e.mustAuth(mkAuth(3, a, 1e12))
		e.Authorize(SignAuth(mkAuth(3, c, 1e12), e.GCA.Priv)) // conflict reusing device 2's key
		s = e.S.VerifSnapshot()
		id, have := s.ShortIDs[c.Pub]
		ok2 := have && id == 2 && len(s.ShortIDs) == 1
		if err := e.Restart(); err != nil {
			return false, "restart: " + err.Error()
		}
		s = e.S.VerifSnapshot()
		id, have = s.ShortIDs[c.Pub]
		ok3 := have && id == 2 && len(s.ShortIDs) == 1 && len(s.Equipment) == 1
		e.Stop()
		return ok1 && ok2 && ok3, fmt.Sprintf("own-key=%v other-key=%v after-restart=%v", ok1, ok2, ok3)
	}},
	{"F4", []string{"C12"}, "authorize new equipment while an authorized peer is unreachable", func() (bool, string) {
		e := mustEnv("f4")
		peer := detKey(7, 50)
		as := server.AuthorizedServer{PublicKey: peer.Pub, Location: myIP, HttpPort: closedPort(), TcpPort: 1, UdpPort: 1}
		as.GCAAuthorization = glow.Sign(as.SigningBytes(), e.GCA.Priv)
		st, _, err := e.PostJSON("/api/v1/authorized-servers", as)
		if err != nil || st != 200 {
			return false, fmt.Sprintf("authorized-servers post: %v %v", st, err)
		}
		st, err = e.Authorize(SignAuth(mkAuth(1, detKey(7, 1), 1e12), e.GCA.Priv))
		ok := err == nil && st == 200
		e.Stop()
		return ok, fmt.Sprintf("status=%v err=%v", st, err)
	}},
	{"F5", []string{"C03", "C13"}, "GET of an archived week with insert_false_negatives=true must not change the archive", func() (bool, string) {
		e := mustEnv("f5")
		d := detKey(7, 1)
		e.mustAuth(mkAuth(1, d, 1e12))
		glow.SetCurrentTimeslot(200)
		for ts := uint32(0); ts < 400; ts++ {
			e.S.VerifInject(MkReport(1, ts, 1000+uint64(ts), d.Priv).Serialize())
		}
		glow.SetCurrentTimeslot(3300)
		e.S.VerifMigrateNow()
		_, a, _ := e.Get("/api/v1/all-device-stats?timeslot_offset=0")
		for i := 0; i < 6; i++ {
			e.Get("/api/v1/all-device-stats?timeslot_offset=0&insert_false_negatives=true")
		}
		_, b, _ := e.Get("/api/v1/all-device-stats?timeslot_offset=0")
		e.Stop()
		return len(a) > 1000 && bytes.Equal(a, b), fmt.Sprintf("len=%d equal=%v", len(a), bytes.Equal(a, b))
	}},
	{"F6", []string{"C05"}, "crash between create and write of server.keys (empty file)", func() (bool, string) {
		e := &Env{Dir: freshDir("f6"), Temp: detKey(7, 1000), GCA: detKey(7, 1001), HoldBG: true}
		prepareServerDir(e.Dir, e.Temp.Pub)
		os.WriteFile(filepath.Join(e.Dir, "server.keys"), nil, 0644)
		if err := e.Start(); err != nil {
			return false, "start failed: " + err.Error()
		}
		var zero glow.PublicKey
		ok := e.S.PublicKey() != zero
		e.Stop()
		return ok, "started"
	}},
	{"F7", []string{"C05"}, "crash inside the write of gcaPubKey.dat (empty file)", func() (bool, string) {
		e := &Env{Dir: freshDir("f7"), Temp: detKey(7, 1000), GCA: detKey(7, 1001), HoldBG: true}
		prepareServerDir(e.Dir, e.Temp.Pub)
		os.WriteFile(filepath.Join(e.Dir, "gcaPubKey.dat"), nil, 0644)
		if err := e.Start(); err != nil {
			return false, "start failed: " + err.Error()
		}
		err := e.RegisterDefault()
		s := e.S.VerifSnapshot()
		ok := err == nil && s.GCAAvailable && s.GCAKey == e.GCA.Pub
		e.Stop()
		return ok, fmt.Sprintf("register err=%v", err)
	}},
	{"F25", []string{"C05", "C03", "C04"}, "process killed inside an append: a log ends with a partial record (found by the SIGKILL soak: allDeviceStats.dat cut at a page boundary)", func() (bool, string) {
		// a directory with one archived week, two authorizations and a few reports, then each log in turn is
		// given a partial trailing record, the way a write cut short by SIGKILL leaves it
		var msgs []string
		ok := true
		for _, c := range []struct {
			file string
			tail int
		}{{server.AllDeviceStatsHistoryFile, 4096}, {server.AllDeviceStatsHistoryFile, 70}, {"equipment-reports.dat", 17}, {"equipment-authorizations.dat", 100}} {
			e := mustEnv("f25")
			d := detKey(7, 1)
			e.mustAuth(mkAuth(1, d, 1e12))
			e.mustAuth(mkAuth(2, detKey(7, 2), 1e12))
			glow.SetCurrentTimeslot(100)
			for i := 0; i < 5; i++ {
				e.S.VerifInject(MkReport(1, uint32(90+i), 500+uint64(i), d.Priv).Serialize())
			}
			e.S.VerifMigrateNow()
			before := e.S.VerifSnapshot()
			e.Stop()
			f, err := os.OpenFile(filepath.Join(e.Dir, c.file), os.O_APPEND|os.O_WRONLY, 0644)
			if err != nil {
				return false, err.Error()
			}
			junk := make([]byte, c.tail)
			junk[0] = 2 // "two devices follow" for the statistics log; a plausible id for the others
			f.Write(junk)
			f.Close()
			size0 := fileLen(filepath.Join(e.Dir, c.file))
			if err := e.Start(); err != nil {
				ok = false
				msgs = append(msgs, fmt.Sprintf("%s+%d: start failed", c.file, c.tail))
				os.RemoveAll(e.Dir)
				continue
			}
			after := e.S.VerifSnapshot()
			e.Stop()
			size1 := fileLen(filepath.Join(e.Dir, c.file))
			// (the recent-report lists are rebuilt differently by a start; everything durable must be as before)
			before.RecentReports, after.RecentReports, before.RecentAuths, after.RecentAuths = nil, nil, nil, nil
			same := canonSnapshot(before) == canonSnapshot(after)
			if !same || size1 != size0-int64(c.tail) {
				ok = false
			}
			msgs = append(msgs, fmt.Sprintf("%s+%d: started, state kept=%v, partial record dropped=%v", c.file, c.tail, same, size1 == size0-int64(c.tail)))
			os.RemoveAll(e.Dir)
		}
		return ok, strings.Join(msgs, "; ")
	}},
	{"F8", []string{"C11"}, "sync reply shorter than the fixed part (10 bytes)", func() (bool, string) {
		reply := make([]byte, 12)
		binary.LittleEndian.PutUint16(reply, 10)
		port, stop := fakeTCP(reply)
		defer stop()
		dev := detKey(7, 1)
		srv := detKey(7, 60)
		servers := map[glow.PublicKey]client.GCAServer{srv.Pub: {Location: myIP, TcpPort: port, UdpPort: 9, HttpPort: 9}}
		c, _, err := bareClient("f8", nil, dev, 1, nil, nil, 0, servers)
		if err != nil {
			return false, err.Error()
		}
		_, _, _, _, _, err = c.VerifServerSync(servers[srv.Pub], srv.Pub, detKey(7, 1001).Pub)
		// A rogue server: reply of 300 bytes correctly signed by the server key.
		body := make([]byte, 300-64)
		binary.LittleEndian.PutUint64(body[len(body)-8:], uint64(time.Now().Unix()))
		sig := glow.Sign(body, srv.Priv)
		r2 := make([]byte, 2)
		binary.LittleEndian.PutUint16(r2, 300)
		r2 = append(append(r2, body...), sig[:]...)
		port2, stop2 := fakeTCP(r2)
		defer stop2()
		g2 := client.GCAServer{Location: myIP, TcpPort: port2}
		_, _, _, _, _, err2 := c.VerifServerSync(g2, srv.Pub, detKey(7, 1001).Pub)
		return err != nil && err2 != nil, fmt.Sprintf("err=%v err2=%v", err, err2)
	}},
	{"F9", []string{"C11"}, "sync round with every server failed: mutex must be free afterwards", func() (bool, string) {
		dev := detKey(7, 1)
		srv := detKey(7, 60)
		servers := map[glow.PublicKey]client.GCAServer{srv.Pub: {Location: myIP, TcpPort: closedPort(), UdpPort: 9, HttpPort: 9}}
		c, _, err := bareClient("f9", nil, dev, 1, nil, nil, 0, servers)
		if err != nil {
			return false, err.Error()
		}
		res := c.VerifSyncRound(0)
		free := c.VerifTryLock()
		return !res && free, fmt.Sprintf("round=%v mutex-free=%v", res, free)
	}},
	{"F10", []string{"C12"}, "one idle TCP connection to the sync port: shutdown must finish in bounded time", func() (bool, string) {
		e := mustEnv("f10")
		_, tcp, _ := e.S.Ports()
		conn, err := net.Dial("tcp", fmt.Sprintf("127.0.0.1:%d", tcp))
		if err != nil {
			return false, err.Error()
		}
		defer conn.Close()
		time.Sleep(50 * time.Millisecond)
		done := make(chan error, 1)
		t0 := time.Now()
		go func() { done <- e.Stop() }()
		select {
		case <-done:
			return true, fmt.Sprintf("closed in %v", time.Since(t0))
		case <-time.After(12 * time.Second):
			return false, "Close() still blocked after 12s"
		}
	}},
	{"F11", []string{"C13", "C12"}, "device banned between the two critical sections of the impact job", func() (bool, string) {
		e := mustEnv("f11")
		d := detKey(7, 1)
		e.mustAuth(mkAuth(1, d, 1e12))
		fired := false
		server.VerifSetPoint("impact-between", func() {
			if fired {
				return
			}
			fired = true
			c := mkAuth(1, d, 1e12)
			c.Debt = 99
			e.S.VerifAuthorize(SignAuth(c, e.GCA.Priv))
		})
		err := e.S.VerifImpactRound()
		server.VerifSetPoint("impact-between", nil)
		s := e.S.VerifSnapshot()
		e.Stop()
		return fired && err == nil && len(s.Bans) == 1, fmt.Sprintf("fired=%v err=%v bans=%v", fired, err, s.Bans)
	}},
	{"F13", []string{"C18"}, "event log: space freed by expiry must be reusable", func() (bool, string) {
		l := glow.NewEventLogger(5*time.Millisecond, 20, 100)
		l.Printf("%s", "aaaaaaaaaa")
		time.Sleep(15 * time.Millisecond)
		l.Printf("%s", "bbbbbbbbbb")
		m, size := l.VerifLogState()
		_, have := m["bbbbbbbbbb"]
		return have && size == 20 && len(m) == 1, fmt.Sprintf("entries=%d size=%d", len(m), size)
	}},
	{"F14", []string{"C16"}, "energy file with a single-column row", func() (bool, string) {
		energy := "9999999999\n"
		c, _, err := bareClient("f14", nil, detKey(7, 1), 1, &energy, nil, 0, map[glow.PublicKey]client.GCAServer{detKey(7, 60).Pub: {Location: myIP}})
		if err != nil {
			return false, err.Error()
		}
		recs, err := c.VerifReadEnergyFile()
		return true, fmt.Sprintf("records=%d err=%v", len(recs), err)
	}},
	{"F15", []string{"C02"}, "report 2^63-1 for a device of capacity 1000 must be banned like 2^63-2", func() (bool, string) {
		e := mustEnv("f15")
		d := detKey(7, 1)
		e.mustAuth(mkAuth(1, d, 1000))
		glow.SetCurrentTimeslot(10)
		e.S.VerifInject(MkReport(1, 5, 1<<63-2, d.Priv).Serialize())
		e.S.VerifInject(MkReport(1, 6, 1<<63-1, d.Priv).Serialize())
		s := e.S.VerifSnapshot()
		a, b := s.Reports[1][5].PowerOutput, s.Reports[1][6].PowerOutput
		e.Stop()
		return a == 1 && b == 1, fmt.Sprintf("slot5=%d slot6=%d", a, b)
	}},
	{"F16", []string{"C02"}, "capacity 2^63: report 10^17 is far below 135% and must be stored", func() (bool, string) {
		e := mustEnv("f16")
		d := detKey(7, 1)
		e.mustAuth(mkAuth(1, d, 1<<63))
		glow.SetCurrentTimeslot(10)
		e.S.VerifInject(MkReport(1, 5, 1e17, d.Priv).Serialize())
		s := e.S.VerifSnapshot()
		a := s.Reports[1][5].PowerOutput
		e.Stop()
		return a == 1e17, fmt.Sprintf("slot5=%d", a)
	}},
	{"F18", []string{"C10", "C17"}, "GCA-signed server entry with a 300-byte location must be refused", func() (bool, string) {
		e := mustEnv("f18")
		as := server.AuthorizedServer{PublicKey: detKey(7, 50).Pub, Location: strings.Repeat("x", 300), HttpPort: 1, TcpPort: 1, UdpPort: 1, Banned: true}
		as.GCAAuthorization = glow.Sign(as.SigningBytes(), e.GCA.Priv)
		st, _, err := e.PostJSON("/api/v1/authorized-servers", as)
		n := len(e.S.AuthorizedServers())
		e.Stop()
		return err == nil && st != 200 && n == 0, fmt.Sprintf("status=%d servers=%d", st, n)
	}},
	{"F20", []string{"C09"}, "history store: a save 2^30 slots beyond the origin must not land in an early slot", func() (bool, string) {
		c, _, err := bareClient("f20", nil, detKey(7, 1), 1, nil, nil, 100, map[glow.PublicKey]client.GCAServer{detKey(7, 60).Pub: {Location: myIP}})
		if err != nil {
			return false, err.Error()
		}
		e1 := c.VerifSaveReading(100+(1<<30), 777)
		v, e2 := c.VerifLoadReading(100)
		return v == 0, fmt.Sprintf("save err=%v; load(origin)=%d err=%v", e1, v, e2)
	}},
	{"F21", []string{"C20", "C16"}, "timeslot conversion must not wrap around 2^32", func() (bool, string) {
		g := int64(glow.GenesisTime)
		s, err := glow.UnixToTimeslot(g + (1 << 32) + 5)
		ok1 := err != nil || int64(s) == ((1<<32)+5)/300
		u := glow.TimeslotToUnix(14316558)
		ok2 := u == g+14316558*300
		return ok1 && ok2, fmt.Sprintf("UnixToTimeslot(g+2^32+5)=%d,%v TimeslotToUnix(14316558)-g=%d", s, err, u-g)
	}},
	{"F22", []string{"C06"}, "a second id authorized with a key that belongs to another id", func() (bool, string) {
		e := mustEnv("f22")
		a := detKey(7, 1)
		e.mustAuth(mkAuth(1, a, 1e12))
		st, _ := e.Authorize(SignAuth(mkAuth(2, a, 1e12), e.GCA.Priv))
		s := e.S.VerifSnapshot()
		ok := s.ShortIDs[a.Pub] == 1 && len(s.ShortIDs) == len(s.Equipment)
		e.Stop()
		return ok, fmt.Sprintf("status=%d lookup(a)=%d equipment=%d index=%d", st, s.ShortIDs[a.Pub], len(s.Equipment), len(s.ShortIDs))
	}},
	{"F23", []string{"C17"}, "migration order with zero new servers: the device must still be able to restart", func() (bool, string) {
		e := mustEnv("f23")
		d := detKey(7, 1)
		e.mustAuth(mkAuth(1, d, 1e12))
		newGCA := detKey(7, 77)
		em := server.EquipmentMigration{Equipment: d.Pub, NewGCA: newGCA.Pub, NewShortID: 9}
		em.Signature = glow.Sign(em.SigningBytes(), e.GCA.Priv)
		st, _, _ := e.PostJSON("/api/v1/equipment-migrate", em)
		c, dir, err := bareClient("f23c", e, d, 1, nil, nil, 0, nil)
		if err != nil {
			return false, err.Error()
		}
		c.VerifSyncRound(0)
		_, err = client.VerifNewClientNoLoop(dir)
		e.Stop()
		return err == nil, fmt.Sprintf("migrate status=%d restart err=%v", st, err)
	}},
}

func init() {
	witnesses = append(witnesses,
		witness{"F17", []string{"C09"}, "open finding: two rows for one timeslot whose values agree modulo 2^32 are both signed and sent (mod32-equivocation)", func() (bool, string) {
			dev := detKey(7, 1)
			sink := newUDPSink()
			defer sink.c.Close()
			servers := map[glow.PublicKey]client.GCAServer{detKey(7, 60).Pub: {Location: myIP, HttpPort: 1, TcpPort: closedPort(), UdpPort: sink.port()}}
			dir := freshDir("f17")
			defer os.RemoveAll(dir)
			hdr := "timestamp,energy (mWh)\n"
			if err := writeClientDir(ClientDir{Dir: dir, Key: dev, GCAPub: detKey(7, 1001).Pub, ShortID: 1, Servers: servers, Energy: &hdr}); err != nil {
				return false, err.Error()
			}
			os.WriteFile(filepath.Join(dir, client.LastSyncFile), []byte(strconv.FormatInt(time.Now().Unix(), 10)), 0644)
			c, err := client.NewClient(dir)
			if err != nil {
				return false, err.Error()
			}
			defer c.Close()
			g := int64(glow.GenesisTime)
			os.WriteFile(filepath.Join(dir, client.EnergyFile), []byte(fmt.Sprintf("%s%d,500\n%d,4294967796\n", hdr, g+300*7, g+300*7+5)), 0644)
			it0 := atomic.LoadInt64(&loopIters)
			for w := 0; w < 3000 && atomic.LoadInt64(&loopIters) < it0+2; w++ {
				time.Sleep(time.Millisecond)
			}
			sink.settle(10*time.Millisecond, 300*time.Millisecond)
			vals := map[uint64]bool{}
			for _, p := range sink.take() {
				if r, err := glow.DeserializeReport(p); err == nil && r.Timeslot == 7 {
					vals[r.PowerOutput] = true
				}
			}
			return len(vals) <= 1, fmt.Sprintf("distinct values signed for slot 7: %d", len(vals))
		}},
		witness{"F19", []string{"C10"}, "open finding: a server list whose sync reply exceeds 65535 bytes cannot be framed by the 16-bit length prefix (reply-over-65535)", func() (bool, string) {
			e := mustEnv("f19")
			defer e.Stop()
			d := detKey(7, 1)
			e.mustAuth(mkAuth(1, d, 1e12))
			for i := 0; i < 190; i++ {
				as := server.AuthorizedServer{PublicKey: detKey(7, 2000+i).Pub, Banned: true, Location: strings.Repeat("x", 255), HttpPort: 1, TcpPort: 1, UdpPort: 1}
				as.GCAAuthorization = glow.Sign(as.SigningBytes(), e.GCA.Priv)
				if st, _, err := e.PostJSON("/api/v1/authorized-servers", as); err != nil || st != 200 {
					return false, fmt.Sprintf("post %d: %v %v", i, st, err)
				}
			}
			raw, err := e.SyncRaw(1)
			if err != nil || len(raw) < 2 {
				return false, fmt.Sprintf("sync: %v", err)
			}
			prefix := int(binary.LittleEndian.Uint16(raw[:2]))
			return prefix == len(raw)-2, fmt.Sprintf("reply bytes=%d length prefix=%d", len(raw)-2, prefix)
		}},
	)
}

func runWitness(id string) int {
	for _, w := range witnesses {
		if w.ID == id {
			ok, detail := w.Run()
			if ok {
				fmt.Printf("WITNESS %s ok %s\n", id, detail)
				return 0
			}
			fmt.Printf("WITNESS %s DEFECT %s\n", id, detail)
			return 1
		}
	}
	fmt.Printf("WITNESS %s unknown\n", id)
	return 2
}
