package main

// Correspondence runs for the client: history store (C09), energy reader
// (C16), sync-reply parser (C10/C11), sync rounds and server-list handling
// (C11/C17), resend loop and recovery (C08).

import (
	"encoding/binary"
	"encoding/csv"
	"fmt"
	"io"
	"math"
	"os"
	"path/filepath"
	"strconv"
	"strings"

	"github.com/glowlabs-org/gca-backend/client"
	"github.com/glowlabs-org/gca-backend/glow"
)

func dummyServers() map[glow.PublicKey]client.GCAServer {
	return map[glow.PublicKey]client.GCAServer{detKey(7, 60).Pub: {Location: myIP}}
}

func histCanon(dir string) string {
	b, err := os.ReadFile(filepath.Join(dir, client.HistoryFile))
	if err != nil || len(b) < 4 {
		return "UNREADABLE"
	}
	var ws []string
	for i := 4; i+4 <= len(b); i += 4 {
		ws = append(ws, strconv.FormatUint(uint64(binary.LittleEndian.Uint32(b[i:])), 10))
	}
	tail := ""
	if len(b)%4 != 0 {
		tail = " RAGGED"
	}
	return fmt.Sprintf("origin=%d slots=%s%s", binary.LittleEndian.Uint32(b[:4]), strings.Join(ws, ","), tail)
}

// ---------------------------------------------------------------- history store

func runHistScenario(seed uint64, size int, t *Trace) {
	r := &Rng{s: seed*37 + 11}
	origin := []uint32{0, 100, 5000, 1 << 31, math.MaxUint32 - 50}[r.Intn(5)]
	c, dir, err := bareClient("hist", nil, detKey(seed, 1), 1, nil, nil, origin, dummyServers())
	if err != nil {
		t.Line("# hist setup failed: %v", err)
		return
	}
	t.Line("scenario hist-%d", seed)
	t.Line("cl.hist.new origin=%d", origin)
	vals := []uint32{0, 1, 2, 3, 500, 1 << 31, math.MaxUint32}
	for i := 0; i < size; i++ {
		var ts uint32
		switch r.pick([]int{50, 10, 10, 10, 5}) {
		case 0:
			ts = origin + uint32(r.Intn(40))
		case 1:
			ts = origin - 1 - uint32(r.Intn(3)) // before the origin (wraps for origin 0)
		case 2:
			ts = origin + uint32(r.Intn(3000))
		case 3:
			ts = origin
		default:
			ts = uint32(r.Next())
		}
		// far slots would create multi-gigabyte sparse files: probed on a separate empty store below
		if ts >= origin && ts-origin > 6000 {
			ts = origin + uint32(r.Intn(6000))
		}
		if r.Chance(6) {
			// I/O fault: reads of the history fail, writes would succeed. A save cannot check the slot, so it
			// has to refuse and leave the file alone; a load has to report the error, not "nothing stored".
			restore, ferr := c.VerifBreakHistoryReads()
			if ferr == nil {
				v := vals[r.Intn(len(vals))]
				inRange := ts >= origin && ts-origin < 6001
				errS := c.VerifSaveReading(ts, v)
				_, errL := c.VerifLoadReading(ts)
				restore()
				t.Count("hist.readfault")
				t.Line("cl.hist.readfault ts=%d v=%d inrange=%v => save=%v load=%v %s", ts, v, inRange, errS == nil, errL == nil, histCanon(dir))
				continue
			}
		}
		if r.Chance(5) {
			// I/O fault the other way round: writes of the history fail, reads work. A save that has to write
			// reports the failure (the reading is NOT in the store, so it must not be treated as persisted);
			// a save of the value that is already there has nothing to write and succeeds.
			restore, ferr := c.VerifBreakHistoryWrites()
			if ferr == nil {
				v := vals[r.Intn(len(vals))]
				errS := c.VerifSaveReading(ts, v)
				restore()
				t.Count("hist.writefault")
				t.Line("cl.hist.writefault ts=%d v=%d => save=%v %s", ts, v, errS == nil, histCanon(dir))
				continue
			}
		}
		if r.Chance(65) {
			v := vals[r.Intn(len(vals))]
			if r.Chance(30) {
				v = uint32(r.Next())
			}
			err := c.VerifSaveReading(ts, v)
			obs := "ok"
			if err != nil {
				obs = "err"
			}
			t.Count("hist.save:" + obs)
			t.Line("cl.hist.save ts=%d v=%d => %s %s", ts, v, obs, histCanon(dir))
		} else {
			v, err := c.VerifLoadReading(ts)
			obs := strconv.FormatUint(uint64(v), 10)
			if err != nil {
				obs = "err"
			}
			t.Count("hist.load")
			t.Line("cl.hist.load ts=%d => %s", ts, obs)
		}
	}
	// range boundaries on an empty store (outcome only; a success is undone by truncating the sparse file)
	for _, d := range []uint64{1<<30 - 3, 1<<30 - 2, 1<<30 - 1, 1 << 30, 1<<30 + 1, 1<<31 + 5, 1<<32 - 1} {
		c2, dir2, err := bareClient("histfar", nil, detKey(seed, 1), 1, nil, nil, 7, dummyServers())
		if err != nil {
			continue
		}
		ts := uint32(7 + d)
		errS := c2.VerifSaveReading(ts, 777)
		v0, _ := c2.VerifLoadReading(7)
		_, errL := c2.VerifLoadReading(ts)
		os.Truncate(filepath.Join(dir2, client.HistoryFile), 4)
		t.Count("hist.probe")
		t.Line("cl.hist.probe origin=7 ts=%d v=777 => save=%v load=%v origin-slot=%d", ts, errS == nil, errL == nil, v0)
		os.RemoveAll(dir2)
	}
	os.RemoveAll(dir)
	t.DumpStats()
}

// ---------------------------------------------------------------- energy reader

var readingChoices = []string{"0", "5", "23.9", "24", "-24", "-23.999", "24.0000001", "500", "-500", "1e3", "-2.5e3", "1e18", "9.3e18", "-9.3e18",
	"1e19", "1e300", "-1e300", "NaN", "Inf", "-Inf", "abc", "", " 7", "7 ", "0x10", "1_000", "+30", "4294967796", "123456.789", "-0", "2147483648", "-2147483649"}

func runEnergyScenario(seed uint64, size int, t *Trace) {
	r := &Rng{s: seed*41 + 13}
	g := int64(glow.GenesisTime)
	t.Line("scenario energy-%d", seed)
	for it := 0; it < size; it++ {
		// ---- file content
		var sb strings.Builder
		switch r.Intn(5) {
		case 0:
			sb.WriteString("timestamp,energy (mWh)\n")
		case 1:
			sb.WriteString("time,value\n")
		case 2:
			sb.WriteString("timestamp\n") // single-column header: fixes the field count at 1
		}
		n := r.Intn(8)
		if it == 1 && r.Chance(12) {
			// a meter that has been running for most of a year: well over a mebibyte of rows, one per slot
			for i := 0; i < 70000+r.Intn(4000); i++ {
				sb.WriteString(strconv.FormatInt(g+300*int64(i), 10) + "," + []string{"500", "75000001", "-30", "5", "1e3"}[i%5] + "\n")
			}
			t.Count("energy.large-file")
			n = r.Intn(3)
		}
		for i := 0; i < n; i++ {
			var ts string
			switch r.pick([]int{50, 8, 8, 8, 8, 6, 6, 6}) {
			case 0:
				ts = strconv.FormatInt(g+int64(r.Intn(300*50)), 10)
			case 1:
				ts = strconv.FormatInt(g-1-int64(r.Intn(1000)), 10)
			case 2:
				ts = strconv.FormatInt(g+300*(1<<32)-1+int64(r.Intn(3)), 10)
			case 3:
				ts = "notanumber"
			case 4:
				ts = strconv.FormatInt(g+int64(r.Next()%(1<<40)), 10)
			case 5:
				ts = "9223372036854775807"
			case 6:
				ts = "9223372036854775808"
			default:
				ts = fmt.Sprintf("\"%d\"", g+int64(r.Intn(3000))) // quoted field
			}
			val := readingChoices[r.Intn(len(readingChoices))]
			switch r.pick([]int{80, 7, 7, 6}) {
			case 0:
				sb.WriteString(ts + "," + val + "\n")
			case 1:
				sb.WriteString(ts + "\n") // missing column
			case 2:
				sb.WriteString(ts + "," + val + ",extra\n")
			default:
				sb.WriteString(ts + ",\"" + val + "\n") // broken quoting
			}
		}
		content := sb.String()
		// ---- calibration
		var ct *string
		switch r.Intn(11) {
		case 9, 10:
			// ratios far from one: readings of ordinary size scale down to 0, 1, 2 (the sentinel range) or up by orders of magnitude
			ratios := []string{"1\n1000\n", "1\n24\n", "3\n100\n", "1\n1000000\n", "0\n5\n", "1000000\n1\n", "1\n12\n", "2\n1001\n", "-1\n500\n"}
			s := ratios[r.Intn(len(ratios))]
			ct = &s
		case 7, 8:
			// shapes on which "line" and "whitespace-separated token" differ, line ends, blank lines, extra lines
			shapes := []string{"1000 2000\n3\n", "\n1000\n2000\n", "1000\n\n2000\n", " 1000\n2000\n", "1000 \n2000\n", "1000\n 2000\n",
				"1000\t2000\n", "1000\r\n2000\r\n", "1000\n2000", "1000\n2000\n3000\n", "1000\n2000 3000\n", "\n", " \n \n", "1e3\n2e0\n",
				"0x10\n2\n", "+5\n-7\n", "NaN\n1\n", "Inf\n1\n", "1_000\n1\n", "1000,2000\n1\n", "1000\n2000\n\n"}
			s := shapes[r.Intn(len(shapes))]
			ct = &s
		case 1:
			s := "-2000\n1000\n"
			ct = &s
		case 2:
			s := "1.3\n2\n"
			ct = &s
		case 3:
			s := "1\n0\n" // zero divider
			ct = &s
		case 4:
			s := "abc\n1000\n" // malformed: NewClient-style loading must fail, not crash
			ct = &s
		case 5:
			s := "16777217\n3\n"
			ct = &s
		case 6:
			s := "5\n" // second line missing
			ct = &s
		}
		c, dir, err := bareClient("energy", nil, detKey(seed, 1), 1, &content, ct, 0, dummyServers())
		if err != nil {
			t.Count("energy.ct-error")
			t.Line("cl.ct %s => error", ctArgs(ct))
			os.RemoveAll(dir)
			continue
		}
		m, d := c.VerifCalibration()
		t.Line("cl.ct %s => %d %d", ctArgs(ct), math.Float64bits(m), math.Float64bits(d))
		recs, err := c.VerifReadEnergyFile()
		// ---- the rows as the CSV reader returns them, with the outcome of parsing both columns
		var rows []string
		rd := csv.NewReader(strings.NewReader(content))
		for {
			rec, e := rd.Read()
			if e != nil {
				if e != io.EOF {
					t.Count("energy.csv-error")
				}
				break
			}
			tsS := "none"
			if v, e := strconv.ParseInt(rec[0], 10, 64); e == nil {
				tsS = strconv.FormatInt(v, 10)
			}
			xS := "none"
			if len(rec) >= 2 {
				if x, e := strconv.ParseFloat(rec[1], 64); e == nil {
					xS = strconv.FormatUint(math.Float64bits(x), 10)
				}
			}
			rows = append(rows, fmt.Sprintf("%d:%s:%s", len(rec), tsS, xS))
		}
		var out []string
		for _, rc := range recs {
			out = append(out, fmt.Sprintf("%d.%d", rc.Timeslot, rc.Energy))
		}
		obs := strings.Join(out, ",")
		if err != nil {
			obs = "error"
		}
		t.Count("energy.file")
		t.Count(fmt.Sprintf("energy.records:%d", min(len(recs), 5)))
		t.Line("cl.energy g=%d mult=%d div=%d rows=%s => %s", g, math.Float64bits(m), math.Float64bits(d), strings.Join(rows, ";"), obs)
		os.RemoveAll(dir)
	}
	t.DumpStats()
}

// ctArgs describes a calibration file to the model: which of its first two
// lines exist and what strconv.ParseFloat(64) makes of them.
func ctArgs(ct *string) string {
	cc := client.VerifClientConsts()
	dflt := fmt.Sprintf("dm=%d dd=%d", math.Float64bits(cc.EnergyMultiplierDefault), math.Float64bits(cc.EnergyDividerDefault))
	if ct == nil {
		return "present=0 l1=absent l2=absent " + dflt
	}
	lines := strings.Split(strings.TrimSuffix(*ct, "\n"), "\n")
	if *ct == "" {
		lines = nil
	}
	f := func(i int) string {
		if i >= len(lines) {
			return "absent"
		}
		x, err := strconv.ParseFloat(strings.TrimSuffix(lines[i], "\r"), 64)
		if err != nil {
			return "none"
		}
		return strconv.FormatUint(math.Float64bits(x), 10)
	}
	return fmt.Sprintf("present=1 l1=%s l2=%s %s", f(0), f(1), dflt)
}

func init() {
	mk := func(f func(uint64, int, *Trace)) func([]string) int {
		return func(a []string) int {
			seed, _ := strconv.ParseUint(a[0], 10, 64)
			size, _ := strconv.Atoi(a[1])
			f(seed, size, NewTrace(os.Stdout))
			return 0
		}
	}
	commands["histscenario"] = mk(runHistScenario)
	commands["energyscenario"] = mk(runEnergyScenario)
	many := func(child string, par int) func([]string) int {
		return func(a []string) int {
			base, _ := strconv.ParseUint(a[0], 10, 64)
			n, _ := strconv.Atoi(a[1])
			size, _ := strconv.Atoi(a[2])
			f, err := os.Create(a[3])
			if err != nil {
				return 2
			}
			defer f.Close()
			c := runMany([]string{child}, base, n, par, size, f)
			fmt.Printf("HARNESS scenarios=%d crashes=%d\n", n, c)
			return 0
		}
	}
	commands["hist"] = many("histscenario", 8)
	commands["energy"] = many("energyscenario", 8)
}
