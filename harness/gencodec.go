package main

// Correspondence run for the encodings (C15): the Go encoders/decoders against
// the Lean reference codecs, byte for byte; plus execution checks of the
// signature scheme (deterministic signing, any flipped bit is rejected).

import (
	"fmt"
	"math"
	"os"
	"sort"
	"strconv"
	"strings"

	"github.com/glowlabs-org/gca-backend/client"
	"github.com/glowlabs-org/gca-backend/glow"
	"github.com/glowlabs-org/gca-backend/server"
)

var floatBoundary = []float64{0, math.Copysign(0, -1), 5e-324, -5e-324, 2.2250738585072014e-308, 1, -1, 38.123, -100.5,
	math.MaxFloat64, -math.MaxFloat64, math.SmallestNonzeroFloat64, 1e-300, 123456789.123456789}

func u64Boundary(r *Rng) uint64 {
	switch r.Intn(6) {
	case 0:
		return 0
	case 1:
		return math.MaxUint64
	case 2:
		return 1 << 63
	case 3:
		return 1<<63 - 1
	case 4:
		return uint64(r.Intn(300))
	default:
		return r.Next()
	}
}

func u32Boundary(r *Rng) uint32 {
	switch r.Intn(5) {
	case 0:
		return 0
	case 1:
		return math.MaxUint32
	case 2:
		return 1 << 31
	case 3:
		return uint32(r.Intn(300))
	default:
		return uint32(r.Next())
	}
}

func randAuthServer(r *Rng, maxLoc int) server.AuthorizedServer {
	var as server.AuthorizedServer
	copy(as.PublicKey[:], r.Bytes(32))
	as.Banned = r.Chance(50)
	n := []int{0, 1, 9, 254, 255, r.Intn(256)}[r.Intn(6)]
	if n > maxLoc {
		n = maxLoc
	}
	as.Location = string(r.Bytes(n))
	as.HttpPort, as.TcpPort, as.UdpPort = uint16(r.Next()), uint16(r.Next()), uint16(r.Next())
	copy(as.GCAAuthorization[:], r.Bytes(64))
	return as
}

func asFields(as server.AuthorizedServer) string {
	b := 0
	if as.Banned {
		b = 1
	}
	return fmt.Sprintf("key=%s banned=%d loc=%s http=%d tcp=%d udp=%d sig=%s", hx(as.PublicKey[:]), b, hx([]byte(as.Location)), as.HttpPort, as.TcpPort, as.UdpPort, hx(as.GCAAuthorization[:]))
}

func sparseWeekArgs(w server.AllDeviceStats) string {
	var devs []string
	for _, d := range w.Devices {
		var ps, is []string
		for i, p := range d.PowerOutputs {
			if p != 0 {
				ps = append(ps, fmt.Sprintf("%d.%d", i, p))
			}
		}
		for i, x := range d.ImpactRates {
			if b := math.Float64bits(x); b != 0 {
				is = append(is, fmt.Sprintf("%d.%d", i, b))
			}
		}
		devs = append(devs, hx(d.PublicKey[:])+":"+strings.Join(ps, ",")+":"+strings.Join(is, ","))
	}
	return fmt.Sprintf("tso=%d sig=%s devs=%s", w.TimeslotOffset, hx(w.Signature[:]), strings.Join(devs, ";"))
}

func randWeek(r *Rng, ndev int) server.AllDeviceStats {
	var w server.AllDeviceStats
	w.TimeslotOffset = u32Boundary(r)
	copy(w.Signature[:], r.Bytes(64))
	for i := 0; i < ndev; i++ {
		var d server.DeviceStats
		copy(d.PublicKey[:], r.Bytes(32))
		for k := 0; k < 1+r.Intn(12); k++ {
			d.PowerOutputs[[]int{0, 2015, r.Intn(2016)}[r.Intn(3)]] = u64Boundary(r)
			d.ImpactRates[[]int{0, 2015, r.Intn(2016)}[r.Intn(3)]] = floatBoundary[r.Intn(len(floatBoundary))]
		}
		w.Devices = append(w.Devices, d)
	}
	return w
}

func runCodec(seed uint64, n int, t *Trace) {
	r := &Rng{s: seed*101 + 9}
	t.Line("scenario codec-%d", seed)
	for i := 0; i < n; i++ {
		// ---- report
		rep := glow.EquipmentReport{ShortID: u32Boundary(r), Timeslot: u32Boundary(r), PowerOutput: u64Boundary(r)}
		copy(rep.Signature[:], r.Bytes(64))
		t.Count("report")
		t.Line("codec.report.enc id=%d ts=%d p=%d sig=%s => %s", rep.ShortID, rep.Timeslot, rep.PowerOutput, hx(rep.Signature[:]), hx(rep.Serialize()))
		t.Line("codec.report.sb id=%d ts=%d p=%d => %s", rep.ShortID, rep.Timeslot, rep.PowerOutput, hx(rep.SigningBytes()))
		raw := r.Bytes([]int{0, 1, 79, 80, 80, 80, 81, 160}[r.Intn(8)])
		if d, err := glow.DeserializeReport(raw); err != nil {
			t.Line("codec.report.dec b=%s => none", hx(raw))
		} else {
			t.Line("codec.report.dec b=%s => %d %d %d %s", hx(raw), d.ShortID, d.Timeslot, d.PowerOutput, hx(d.Signature[:]))
		}
		// ---- authorization
		ea := glow.EquipmentAuthorization{ShortID: u32Boundary(r), Latitude: floatBoundary[r.Intn(len(floatBoundary))], Longitude: floatBoundary[r.Intn(len(floatBoundary))],
			Capacity: u64Boundary(r), Debt: u64Boundary(r), Expiration: u32Boundary(r), Initialization: u32Boundary(r), ProtocolFee: u64Boundary(r)}
		copy(ea.PublicKey[:], r.Bytes(32))
		copy(ea.Signature[:], r.Bytes(64))
		t.Count("auth")
		t.Line("codec.auth.enc id=%d key=%s lat=%d lon=%d cap=%d debt=%d exp=%d ini=%d fee=%d sig=%s => %s %s", ea.ShortID, hx(ea.PublicKey[:]),
			math.Float64bits(ea.Latitude), math.Float64bits(ea.Longitude), ea.Capacity, ea.Debt, ea.Expiration, ea.Initialization, ea.ProtocolFee, hx(ea.Signature[:]),
			hx(ea.Serialize()), hx(ea.SigningBytes()))
		raw = r.Bytes([]int{0, 147, 148, 148, 148, 149, 296}[r.Intn(7)])
		if d, err := glow.DeserializeEquipmentAuthorization(raw); err != nil {
			t.Line("codec.auth.dec b=%s => none", hx(raw))
		} else {
			t.Line("codec.auth.dec b=%s => %d %s %d %d %d %d %d %d %d %s", hx(raw), d.ShortID, hx(d.PublicKey[:]), math.Float64bits(d.Latitude), math.Float64bits(d.Longitude),
				d.Capacity, d.Debt, d.Expiration, d.Initialization, d.ProtocolFee, hx(d.Signature[:]))
		}
		// ---- authorized server, lists, migration, registration
		as := randAuthServer(r, 300)
		if r.Chance(5) {
			as.Location = string(r.Bytes(256 + r.Intn(100)))
		}
		t.Count("authserver")
		t.Line("codec.as.enc %s => %s %s", asFields(as), hx(as.Serialize()), hx(as.SigningBytes()))
		var list []server.AuthorizedServer
		var lb []byte
		var fs []string
		for k := 0; k < r.Intn(4); k++ {
			a := randAuthServer(r, 255)
			list = append(list, a)
			lb = append(lb, a.Serialize()...)
			b := 0
			if a.Banned {
				b = 1
			}
			fs = append(fs, fmt.Sprintf("%s,%d,%s,%d,%d,%d,%s", hx(a.PublicKey[:]), b, hx([]byte(a.Location)), a.HttpPort, a.TcpPort, a.UdpPort, hx(a.GCAAuthorization[:])))
		}
		t.Line("codec.as.declist b=%s => %s", hx(lb), strings.Join(fs, ";"))
		em := server.EquipmentMigration{NewShortID: u32Boundary(r), NewServers: list}
		copy(em.Equipment[:], r.Bytes(32))
		copy(em.NewGCA[:], r.Bytes(32))
		copy(em.Signature[:], r.Bytes(64))
		t.Count("migration")
		t.Line("codec.mig.enc eq=%s gca=%s id=%d servers=%s sig=%s => %s %s", hx(em.Equipment[:]), hx(em.NewGCA[:]), em.NewShortID, hx(lb), hx(em.Signature[:]), hx(em.Serialize()), hx(em.SigningBytes()))
		var gr server.GCARegistration
		copy(gr.GCAKey[:], r.Bytes(32))
		t.Line("codec.reg.sb key=%s => %s", hx(gr.GCAKey[:]), hx(gr.SigningBytes()))
		// ---- client server map
		var k glow.PublicKey
		copy(k[:], r.Bytes(32))
		cs := client.GCAServer{Banned: r.Chance(50), Location: string(r.Bytes([]int{0, 3, 255, 256, 1000, 65535, 65536}[r.Intn(7)])), HttpPort: uint16(r.Next()), TcpPort: uint16(r.Next()), UdpPort: uint16(r.Next())}
		enc, err := client.SerializeGCAServerMap(map[glow.PublicKey]client.GCAServer{k: cs})
		b := 0
		if cs.Banned {
			b = 1
		}
		t.Count("servermap")
		obs := "none"
		if err == nil {
			obs = hx(enc)
		}
		t.Line("codec.smap.enc1 key=%s banned=%d loc=%s http=%d tcp=%d udp=%d => %s", hx(k[:]), b, hx([]byte(cs.Location)), cs.HttpPort, cs.TcpPort, cs.UdpPort, obs)
		// decoder on: a valid multi-entry map, a truncation, a random string
		m := map[glow.PublicKey]client.GCAServer{}
		for j := 0; j < r.Intn(4); j++ {
			var kk glow.PublicKey
			copy(kk[:], r.Bytes(32))
			m[kk] = client.GCAServer{Banned: r.Chance(30), Location: string(r.Bytes(r.Intn(40))), HttpPort: uint16(r.Next()), TcpPort: uint16(r.Next()), UdpPort: uint16(r.Next())}
		}
		mb, _ := client.SerializeGCAServerMap(m)
		switch r.Intn(4) {
		case 1:
			if len(mb) > 0 {
				mb = mb[:r.Intn(len(mb))]
			}
		case 2:
			mb = r.Bytes(r.Intn(120))
		case 3:
			mb = append(mb, mb...) // every key twice: later entries overwrite
		}
		t.Line("codec.smap.dec b=%s => %s", hx(mb), canonServerMap(mb))
		// ---- weekly statistics: one record and a stream
		if i%8 == 0 {
			var stream []byte
			var ws []string
			nw := r.Intn(3)
			for j := 0; j < nw; j++ {
				w := randWeek(r, r.Intn(3))
				t.Count("week")
				t.Line("codec.week.enc %s => %s %s", sparseWeekArgs(w), fnv64(hx(w.Serialize())), fnv64(hx(w.SigningBytes())))
				stream = append(stream, w.Serialize()...)
				ws = append(ws, canonWeek(w))
			}
			if r.Chance(45) && len(stream) > 0 {
				// cut the tail: half of the time by 1..5 bytes (inside the signature / the offset field in front of it)
				cut := 1 + r.Intn(70)
				if r.Chance(50) {
					cut = 1 + r.Intn(5)
				}
				if r.Chance(15) {
					cut = 64 + r.Intn(5) // around the boundary between timeslot offset and signature
				}
				stream = stream[:len(stream)-cut]
			}
			t.Count("stream")
			t.Line("codec.stream.dec b=%s => %s", hx(stream), canonStream(stream))
		}
		// ---- signatures: deterministic, bound to every bit (execution check of the crypto assumption)
		if i%4 == 0 {
			key := detKey(seed, i%7)
			msg := rep.SigningBytes()
			s1, s2 := glow.Sign(msg, key.Priv), glow.Sign(msg, key.Priv)
			ok := s1 == s2 && glow.Verify(key.Pub, msg, s1)
			bit := r.Intn(len(msg) * 8)
			m2 := append([]byte(nil), msg...)
			m2[bit/8] ^= 1 << uint(bit%8)
			ok = ok && !glow.Verify(key.Pub, m2, s1)
			s3 := s1
			sb := r.Intn(512)
			s3[sb/8] ^= 1 << uint(sb%8)
			ok = ok && !glow.Verify(key.Pub, msg, s3)
			k2 := key.Pub
			kb := r.Intn(256)
			k2[kb/8] ^= 1 << uint(kb%8)
			ok = ok && !glow.Verify(k2, msg, s1)
			ok = ok && !glow.Verify(detKey(seed, 50).Pub, msg, s1) && !glow.Verify(glow.PublicKey{}, msg, s1)
			ok = ok && !glow.Verify(key.Pub, msg, Malleate(s1))                        // the high-s twin of a valid signature
			ok = ok && !glow.Verify(key.Pub, msg, glow.Sign(msg, MirrorKey(key.Priv))) // signed with the mirror key n-d
			t.Count("crypto")
			t.Line("crypto.check msgbit=%d sigbit=%d keybit=%d => %s", bit, sb, kb, map[bool]string{true: "ok", false: "FAILED"}[ok])
		}
	}
	t.DumpStats()
}

func canonServerMap(b []byte) string {
	m, err := client.UntrustedDeserializeGCAServerMap(b)
	if err != nil {
		return "none"
	}
	var es []string
	for k, s := range m {
		bn := 0
		if s.Banned {
			bn = 1
		}
		es = append(es, fmt.Sprintf("%s,%d,%s,%d,%d,%d", hx(k[:]), bn, hx([]byte(s.Location)), s.HttpPort, s.TcpPort, s.UdpPort))
	}
	sort.Strings(es)
	return strings.Join(es, ";")
}

func canonStream(b []byte) string {
	var ws []string
	for len(b) > 0 {
		w, n, err := server.DeserializeStreamAllDeviceStats(b)
		if err != nil {
			return "none"
		}
		if n > len(b) || n <= 0 {
			return fmt.Sprintf("OVERRUN:consumed %d of %d bytes", n, len(b))
		}
		ws = append(ws, canonWeek(w)+"/"+hx(w.Signature[:]))
		b = b[n:]
	}
	return strings.Join(ws, "#")
}

func init() {
	commands["codec"] = func(a []string) int {
		// <seed> <n> <outfile>
		seed, _ := strconv.ParseUint(a[0], 10, 64)
		n, _ := strconv.Atoi(a[1])
		f, err := os.Create(a[2])
		if err != nil {
			return 2
		}
		defer f.Close()
		runCodec(seed, n, NewTrace(f))
		return 0
	}
}
