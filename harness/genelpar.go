package main

// Concurrent use of the event log (job elpar of C18, run with the binary built with -race): writers logging
// fresh and repeated lines, readers dumping and expiring at the same time. The model has nothing to say
// about the interleaving; what is checked is that no data race is reported (exit 66, seen as a crash), that
// nothing panics, and - once the burst is over - that a dump is internally consistent: every dumped line has
// at least one timestamp and the line limit was applied (the order of a line's timestamps is NOT checked: writers
// read the clock before they take the lock, so two of them may store their times in either order).

import (
	"fmt"
	"os"
	"strconv"
	"strings"
	"sync"
	"time"

	"github.com/glowlabs-org/gca-backend/glow"
)

func runELParScenario(seed uint64, size int, t *Trace) {
	r := &Rng{s: seed*131 + 17}
	expiry := []time.Duration{time.Millisecond, 20 * time.Millisecond, time.Hour}[r.Intn(3)]
	maxB := []int{200, 2000, 100000}[r.Intn(3)]
	maxLine := []int{8, 40, 200}[r.Intn(3)]
	l := glow.NewEventLogger(expiry, maxB, maxLine)
	t.Line("scenario elpar-%d", seed)
	writers, readers := 2+r.Intn(5), 1+r.Intn(3)
	var wg sync.WaitGroup
	for w := 0; w < writers; w++ {
		wg.Add(1)
		go func(w int) {
			defer wg.Done()
			for i := 0; i < size; i++ {
				switch i % 3 {
				case 0:
					l.Printf("shared line %d", i%4) // repeated by every writer: the entry's update list grows
				case 1:
					l.Printf("writer %d line %d %s", w, i, strings.Repeat("x", i%(maxLine+3)))
				default:
					l.Printf("shared line %d", (i+w)%4)
				}
			}
		}(w)
	}
	bad := make(chan string, readers)
	for rd := 0; rd < readers; rd++ {
		wg.Add(1)
		go func(rd int) {
			defer wg.Done()
			for i := 0; i < size/2+1; i++ {
				if i%5 == 4 {
					l.ExpireLogs(time.Now().Add(-expiry / 2))
					continue
				}
				m, order := l.DumpLogEntries()
				if msg := dumpConsistent(m, order, maxLine); msg != "" {
					select {
					case bad <- msg:
					default:
					}
				}
			}
		}(rd)
	}
	wg.Wait()
	m, order := l.DumpLogEntries()
	msg := dumpConsistent(m, order, maxLine)
	select {
	case b := <-bad:
		msg = b
	default:
	}
	t.Count("elpar.burst")
	t.Count(fmt.Sprintf("elpar.writers:%d", writers))
	if msg != "" {
		// an inconsistent dump is reported the way a crash is: there is no model line to compare it with
		fmt.Printf("panic: event log dump inconsistent under concurrent use: %s\n", msg)
		t.DumpStats()
		os.Exit(3)
	}
	t.DumpStats()
}

func dumpConsistent(m map[string][]time.Time, order []string, maxLine int) string {
	if len(m) != len(order) {
		return fmt.Sprintf("map has %d lines, order has %d", len(m), len(order))
	}
	for _, line := range order {
		ts, ok := m[line]
		if !ok {
			return "ordered line missing from the map"
		}
		if len(ts) == 0 {
			return "line without a timestamp"
		}
		if len(line) > maxLine {
			return fmt.Sprintf("line of %d bytes above the limit %d", len(line), maxLine)
		}
	}
	return ""
}

func init() {
	commands["elparscenario"] = func(a []string) int {
		seed, _ := strconv.ParseUint(a[0], 10, 64)
		size, _ := strconv.Atoi(a[1])
		runELParScenario(seed, size, NewTrace(os.Stdout))
		return 0
	}
	commands["elpar"] = func(a []string) int {
		base, _ := strconv.ParseUint(a[0], 10, 64)
		n, _ := strconv.Atoi(a[1])
		size, _ := strconv.Atoi(a[2])
		f, err := os.Create(a[3])
		if err != nil {
			return 2
		}
		defer f.Close()
		c := runMany([]string{"elparscenario"}, base, n, 4, size, f)
		fmt.Printf("HARNESS scenarios=%d crashes=%d\n", n, c)
		return 0
	}
}
