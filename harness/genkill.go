package main

// SIGKILL at a random instant of a running workload (C05).
//
// The parent starts a child process that runs a workload of state-changing operations against a real
// server (reports, authorizations, rotations, loop iterations, clock steps). Before each operation the
// child writes "# intent <operation>" and after it the usual result line. The parent reads the child's
// output as it is produced and kills it with SIGKILL at a random point. What it then knows is: every
// operation with a result line has completed; the operation whose intent is the last line may have
// been anywhere between "not begun" and "done". A fresh process starts the server on the directory
// that was left behind; the driver accepts the recovered state if it equals the model's start on the
// disk with or without the single write of the operation in flight (c05_single_action: an operation
// writes at most one record).

import (
	"bufio"
	"fmt"
	"io"
	"os"
	"os/exec"
	"strconv"
	"strings"
	"syscall"
	"time"

	"github.com/glowlabs-org/gca-backend/glow"
	"github.com/glowlabs-org/gca-backend/server"
)

// killWorkload is the child: it never returns normally if the parent kills it.
func killWorkload(seed uint64, size int, t *Trace) error {
	r := &Rng{s: seed*92821 + 3}
	s, err := NewSrv(fmt.Sprintf("kill-%d", seed), seed, t)
	if err != nil {
		return err
	}
	t.Line("# crashdir %s", s.E.Dir)
	start := uint32(r.Intn(2500))
	setNow := func(n uint32) {
		glow.SetCurrentTimeslot(n)
		t.Line("# clock %d", n)
	}
	setNow(start)
	if err := s.Boot(start); err != nil {
		return err
	}
	gr := server.GCARegistration{GCAKey: s.E.GCA.Pub}
	if s.Register(s.E.GCA.Pub, glow.Sign(gr.SigningBytes(), s.E.Temp.Priv)) != "ok" {
		return fmt.Errorf("registration refused")
	}
	g := &srvGen{s: s, r: r, seed: seed, focus: "C05"}
	var devs []devInfo
	for i := 0; i < 2; i++ {
		k := detKey(seed, 10+i)
		ea := SignAuth(g.freshAuth(uint32(1+i), k), s.E.GCA.Priv)
		ea.Capacity = 1 << 40
		ea = SignAuth(ea, s.E.GCA.Priv)
		if s.Authorize(ea, false) == "new" {
			devs = append(devs, devInfo{uint32(1 + i), k, ea})
		}
	}
	if len(devs) == 0 {
		return fmt.Errorf("no device")
	}
	t.Line("# armed")
	nextID := uint32(3)
	var sent [][]byte
	for i := 0; i < size; i++ {
		now := glow.CurrentTimeslot()
		switch r.pick([]int{60, 12, 8, 8, 12}) {
		case 0: // report (new, replayed or conflicting)
			dv := devs[r.Intn(len(devs))]
			var d []byte
			switch {
			case len(sent) > 0 && r.Chance(15):
				d = sent[r.Intn(len(sent))]
			case len(sent) > 0 && r.Chance(15):
				old, _ := glow.DeserializeReport(sent[r.Intn(len(sent))][:80])
				d = MkReport(dv.id, old.Timeslot, old.PowerOutput+1, dv.key.Priv).Serialize()
			default:
				ts := int64(now) + int64(r.Intn(61)) - 30
				if ts < 0 {
					ts = 0
				}
				d = MkReport(dv.id, uint32(ts), 2+uint64(r.Intn(5000)), dv.key.Priv).Serialize()
			}
			rep, _ := glow.DeserializeReport(d[:80])
			for _, x := range devs {
				if x.id == rep.ShortID {
					s.oracle(x.key.Pub, rep.SigningBytes(), rep.Signature)
				}
			}
			t.Line("# intent srv.dgram now=%d d=%s", now, hx(d))
			s.Dgram(d)
			sent = append(sent, d)
		case 1: // authorization: new device, duplicate or conflict (ban)
			var ea glow.EquipmentAuthorization
			if r.Chance(50) || len(devs) == 0 {
				k := detKey(seed, 10+int(nextID))
				ea = SignAuth(g.freshAuth(nextID, k), s.E.GCA.Priv)
				nextID++
			} else {
				ea = devs[r.Intn(len(devs))].auth
				if r.Chance(50) && len(devs) > 1 {
					ea.Debt++
					ea = SignAuth(ea, s.E.GCA.Priv)
				}
			}
			s.oracle(s.E.GCA.Pub, ea.SigningBytes(), ea.Signature)
			t.Line("# intent srv.authorize a=%s", hx(ea.Serialize()))
			obs := s.Authorize(ea, false)
			if obs == "new" {
				devs = append(devs, devInfo{ea.ShortID, detKey(seed, 10+int(ea.ShortID)), ea})
			} else if obs == "banned" {
				var keep []devInfo
				for _, x := range devs {
					if x.id != ea.ShortID {
						keep = append(keep, x)
					}
				}
				devs = keep
				if len(devs) == 0 {
					return nil
				}
			}
		case 2: // the week rotation
			t.Line("# intent srv.rotate")
			s.Rotate()
		case 3: // one iteration of the real background loop
			t.Line("# intent srv.tick now=%d", now)
			s.Tick()
		default: // time passes
			step := uint32(1 + r.Intn(40))
			if r.Chance(25) {
				step = uint32(500 + r.Intn(1500))
			}
			setNow(now + step)
		}
	}
	t.Line("# finished")
	// stay alive: the parent decides when the process ends
	time.Sleep(30 * time.Second)
	return nil
}

// runKillScenario is the parent side for one scenario; it appends the trace to out.
func runKillScenario(seed uint64, size int, out io.Writer) (crashed bool) {
	r := &Rng{s: seed*7 + 99}
	cmd := exec.Command(os.Args[0], "killworkload", strconv.FormatUint(seed, 10), strconv.Itoa(size))
	cmd.Env = os.Environ()
	pipe, err := cmd.StdoutPipe()
	if err != nil {
		return true
	}
	cmd.Stderr = nil
	if err := cmd.Start(); err != nil {
		return true
	}
	target := 1 + r.Intn(size)                              // kill after this many completed operations ...
	extra := time.Duration(r.Intn(1500)) * time.Microsecond // ... plus a little, to land inside the next one
	lines := make(chan string, 4096)
	go func() {
		rd := bufio.NewReaderSize(pipe, 1<<20)
		for {
			l, err := rd.ReadString('\n')
			if strings.HasSuffix(l, "\n") {
				lines <- strings.TrimSuffix(l, "\n")
			}
			if err != nil {
				close(lines)
				return
			}
		}
	}()
	var got []string
	armed, done, killed, timedOut := false, 0, false, false
	timeout := time.After(60 * time.Second)
loop:
	for {
		select {
		case l, ok := <-lines:
			if !ok {
				break loop
			}
			got = append(got, l)
			if l == "# armed" {
				armed = true
			}
			if armed && !killed && strings.Contains(l, " => ") && !strings.HasPrefix(l, "v ") && !strings.HasPrefix(l, "#") {
				done++
			}
			if armed && !killed && (done >= target || l == "# finished") {
				time.Sleep(extra)
				cmd.Process.Signal(syscall.SIGKILL)
				killed = true
			}
		case <-timeout:
			cmd.Process.Signal(syscall.SIGKILL)
			killed = true
			timedOut = true
			timeout = nil
		}
	}
	cmd.Wait()
	// what is known: completed operations, and possibly one operation in flight
	dir, clock, intent := "", "0", ""
	var keep []string
	for _, l := range got {
		switch {
		case strings.HasPrefix(l, "# crashdir "):
			dir = strings.TrimPrefix(l, "# crashdir ")
		case strings.HasPrefix(l, "# clock "):
			clock = strings.TrimPrefix(l, "# clock ")
		case strings.HasPrefix(l, "# intent "):
			intent = strings.TrimPrefix(l, "# intent ")
			continue
		case strings.Contains(l, " => ") && intent != "" && strings.HasPrefix(l, intent+" => "):
			intent = ""
		}
		if strings.HasPrefix(l, "scenario ") || strings.HasPrefix(l, "srv.") || strings.HasPrefix(l, "v ") || strings.HasPrefix(l, "# stat") {
			keep = append(keep, l)
		}
	}
	for _, l := range keep {
		fmt.Fprintln(out, l)
	}
	if (dir == "" || !armed) && timedOut {
		// the machine was too busy for the child to finish its setup in a minute: nothing was tested
		fmt.Fprintf(out, "# stat kill.skipped-setup-timeout 1\n")
		if dir != "" {
			os.RemoveAll(dir)
		}
		return false
	}
	if dir == "" || !armed {
		fmt.Fprintf(out, "crash seed=%d exit=-1 => the kill workload ended by itself before its setup was complete\n", seed)
		return true
	}
	if intent != "" {
		fmt.Fprintf(out, "%s => MAYBE\n", intent)
		fmt.Fprintf(out, "# stat kill.in-flight:%s 1\n", strings.SplitN(intent, " ", 2)[0])
	} else {
		fmt.Fprintf(out, "# stat kill.between-operations 1\n")
	}
	code, text := selfExec(60*1e9, "recover", dir, clock, strconv.FormatUint(seed, 10))
	for _, l := range strings.Split(text, "\n") {
		if strings.HasPrefix(l, "srv.") || strings.HasPrefix(l, "# stat") || strings.HasPrefix(l, "v ") || strings.HasPrefix(l, "# failed-start") {
			fmt.Fprintln(out, l)
		}
	}
	if code != 0 {
		fmt.Fprintf(out, "crash seed=%d exit=%d => start after SIGKILL failed\n", seed, code)
		return true
	}
	return false
}

func init() {
	commands["killworkload"] = func(a []string) int {
		seed, _ := strconv.ParseUint(a[0], 10, 64)
		size, _ := strconv.Atoi(a[1])
		if err := killWorkload(seed, size, NewTrace(os.Stdout)); err != nil {
			fmt.Printf("# scenario error: %v\n", err)
			return 3
		}
		return 0
	}
	commands["kill"] = func(a []string) int {
		// kill <seedbase> <n> <size> <outfile>
		base, _ := strconv.ParseUint(a[0], 10, 64)
		n, _ := strconv.Atoi(a[1])
		size, _ := strconv.Atoi(a[2])
		f, err := os.Create(a[3])
		if err != nil {
			fmt.Println(err)
			return 2
		}
		defer f.Close()
		type res struct {
			idx int
			txt string
			bad bool
		}
		sem := make(chan struct{}, 8)
		ch := make(chan res, n)
		for i := 0; i < n; i++ {
			go func(i int) {
				sem <- struct{}{}
				var sb strings.Builder
				bad := runKillScenario(base+uint64(i), size, &sb)
				<-sem
				ch <- res{i, sb.String(), bad}
			}(i)
		}
		all := make([]res, n)
		crashes := 0
		for i := 0; i < n; i++ {
			x := <-ch
			all[x.idx] = x
			if x.bad {
				crashes++
			}
		}
		for _, x := range all {
			f.WriteString(x.txt)
		}
		fmt.Printf("HARNESS scenarios=%d crashes=%d\n", n, crashes)
		return 0
	}
}
