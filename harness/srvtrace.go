package main

// Driving the real server and writing the line protocol the Lean driver checks.

import (
	"bufio"
	"bytes"
	"encoding/binary"
	"encoding/hex"
	"encoding/json"
	"fmt"
	"io"
	"net"
	"net/http"
	"os"
	"sort"
	"strconv"
	"strings"
	"sync/atomic"
	"time"

	"github.com/glowlabs-org/gca-backend/glow"
	"github.com/glowlabs-org/gca-backend/server"
)

// Trace writes protocol lines.
type Trace struct {
	w     *bufio.Writer
	Lines int
	Stats map[string]int // input distribution: op kinds and outcome classes
}

func NewTrace(w io.Writer) *Trace {
	return &Trace{w: bufio.NewWriterSize(w, 1<<20), Stats: map[string]int{}}
}

func (t *Trace) Line(f string, a ...interface{}) {
	fmt.Fprintf(t.w, f+"\n", a...)
	t.Lines++
	t.w.Flush()
}

func (t *Trace) Count(k string) { t.Stats[k]++ }

func (t *Trace) DumpStats() {
	var ks []string
	for k := range t.Stats {
		ks = append(ks, k)
	}
	sort.Strings(ks)
	for _, k := range ks {
		t.Line("# stat %s %d", k, t.Stats[k])
	}
}

// Srv is a real server plus the trace of what was done to it.
type Srv struct {
	E       *Env
	T       *Trace
	Keys    map[glow.PublicKey]bool // every public key that appeared in the scenario
	Full    bool                    // emit full snapshots instead of hashes
	Lost    bool                    // a loopback UDP datagram never arrived: the scenario is abandoned (not a finding)
	InStart bool                    // a (re)start is in progress (kill points are not armed inside the start-up catch-up)
	Pending string                  // the operation in flight (written to the trace by a crash point that kills the process)
	seen    map[string]bool         // oracle rows already written
	Seeded  bool                    // the directory was installed with a statistics history (C20X)

	chunkedNext bool // the next HTTP request sends its body chunked
}

func NewSrv(name string, seed uint64, t *Trace) (*Srv, error) {
	s := &Srv{T: t, Keys: map[glow.PublicKey]bool{}, seen: map[string]bool{}, Full: os.Getenv("VERIF_FULLSNAP") == "1"}
	gca := detKey(seed, 1001)
	if seed%8 == 6 {
		// a GCA key whose last byte is a line break, a blank or zero: the key file holds 32 raw bytes, not text
		for j := 0; j < 4000; j++ {
			k := detKey(seed, 5000+j)
			if b := k.Pub[31]; b == 0x0a || b == 0x0d || b == 0x20 || b == 0x00 {
				gca = k
				t.Count("gca-key-ends-in-a-text-delimiter")
				break
			}
		}
	}
	e := &Env{Dir: freshDir(name), Temp: detKey(seed, 1000), GCA: gca, HoldBG: true}
	if err := prepareServerDir(e.Dir, e.Temp.Pub); err != nil {
		return nil, err
	}
	s.E = e
	s.Keys[e.Temp.Pub] = true
	s.Keys[e.GCA.Pub] = true
	s.Keys[glow.PublicKey{}] = true
	c := server.VerifConsts()
	t.Line("scenario %s", name)
	t.Line("srv.cfg maxRecent=%d maxRecentAuth=%d", c.MaxRecentReports, c.MaxRecentEquipmentAuths)
	return s, nil
}

// oracle writes the real verdict of glow.Verify for (key, msg, sig).
func (s *Srv) oracle(key glow.PublicKey, msg []byte, sig glow.Signature) {
	row := hx(key[:]) + " " + hx(msg) + " " + hx(sig[:])
	if s.seen[row] {
		return
	}
	s.seen[row] = true
	b := 0
	if glow.Verify(key, msg, sig) {
		b = 1
		// a signature that has just verified must still not verify under somebody else's key
		other := s.E.Temp.Pub
		if other == key {
			other = s.E.GCA.Pub
		}
		if other != key && glow.Verify(other, msg, sig) && !s.seen["x"+row] {
			s.seen["x"+row] = true
			s.T.Count("crypto.two-keys")
			s.T.Line("crypto.check what=a-valid-signature-also-verifies-under-another-key => FAILED")
		}
	}
	s.T.Line("v %s %d", row, b)
}

func (s *Srv) oracleAll(msg []byte, sig glow.Signature) {
	for k := range s.Keys {
		s.oracle(k, msg, sig)
	}
}

// snapWithDisk is the canonical snapshot followed by the sizes of the persisted logs.
func (s *Srv) snapWithDisk() string {
	return canonSnapshot(s.E.S.VerifSnapshot()) + fmt.Sprintf("|dl=%d,%d,%d", fileLen(s.E.Dir+"/equipment-authorizations.dat")/148,
		fileLen(s.E.Dir+"/equipment-reports.dat")/80, countWeeks(s.E.Dir))
}

func countWeeks(dir string) int {
	raw, _ := os.ReadFile(dir + "/" + server.AllDeviceStatsHistoryFile)
	n := 0
	for len(raw) > 0 {
		_, k, err := server.DeserializeStreamAllDeviceStats(raw)
		if err != nil {
			return -1
		}
		raw = raw[k:]
		n++
	}
	return n
}

func (s *Srv) after() string {
	snap := s.snapWithDisk()
	if s.Full {
		return " #FULL " + snap
	}
	return " #" + fnv64(snap)
}

func (s *Srv) emit(line string, obs string) {
	if s.Full {
		s.T.Line("%s => %s", line, obs)
		s.T.Line("srv.snap => %s", s.snapWithDisk())
		return
	}
	s.T.Line("%s => %s%s", line, obs, s.after())
}

func (s *Srv) Boot(now uint32) error {
	glow.SetCurrentTimeslot(now)
	fresh := s.bootStart()
	if fresh == nil && s.Seeded {
		// the installed history was refused: this scenario tests nothing (a new scenario line resets the driver)
		s.T.Count("seeded-directory-refused")
		s.T.Line("scenario void")
		return fmt.Errorf("boot failed")
	}
	if fresh == nil {
		s.T.Line("srv.boot temp=%s fresh=%s now=%d => fail", hx(s.E.Temp.Pub[:]), hx(make([]byte, 32)), now)
		return fmt.Errorf("boot failed")
	}
	s.T.Line("srv.boot temp=%s fresh=%s now=%d => ok", hx(s.E.Temp.Pub[:]), hx(fresh), now)
	return nil
}

// bootStart starts the server; returns the server public key in use afterwards.
func (s *Srv) bootStart() []byte {
	s.InStart = true
	defer func() { s.InStart = false }()
	iter0, rcv0 = atomic.LoadInt64(&udpIter), atomic.LoadInt64(&udpReceived)
	if err := s.E.Start(); err != nil {
		return nil
	}
	pk := s.E.S.PublicKey()
	s.Keys[pk] = true
	return pk[:]
}

// SeedWeek puts one archived week without devices into the statistics history of a directory that has
// not been started yet.
func (s *Srv) SeedWeek(tso uint32) {
	ads := server.AllDeviceStats{TimeslotOffset: tso}
	f, err := os.OpenFile(s.E.Dir+"/"+server.AllDeviceStatsHistoryFile, os.O_APPEND|os.O_CREATE|os.O_WRONLY, 0644)
	if err == nil {
		f.Write(ads.Serialize())
		f.Close()
	}
	s.Seeded = true
	s.T.Count("seeded-week")
	s.T.Line("srv.seedweek tso=%d => ok", tso)
}

func (s *Srv) SetNow(now uint32) { glow.SetCurrentTimeslot(now) }

// Dgram injects a datagram synchronously through the listener's path.
func (s *Srv) Dgram(d []byte) string {
	now := glow.CurrentTimeslot()
	if len(d) >= 80 {
		id := binary.LittleEndian.Uint32(d[0:4])
		r, _ := glow.DeserializeReport(d[:80])
		snap := s.E.S.VerifSnapshot()
		if ea, ok := snap.Equipment[id]; ok {
			s.oracle(ea.PublicKey, r.SigningBytes(), r.Signature)
		}
	}
	before := fileLen(s.E.Dir + "/equipment-reports.dat")
	s.E.S.VerifInject(d)
	obs := "dropped"
	if fileLen(s.E.Dir+"/equipment-reports.dat") != before {
		obs = "stored"
	}
	s.T.Count("dgram:" + obs)
	s.emit(fmt.Sprintf("srv.dgram now=%d d=%s", now, hx(d)), obs)
	return obs
}

// DgramUDP sends the datagram through the real UDP socket (the listener's own
// length handling is on this path), followed by a marker report for a fresh
// slot; it waits until the marker has been integrated, then records both.
func (s *Srv) DgramUDP(d []byte, marker []byte) {
	now := glow.CurrentTimeslot()
	_, _, udp := s.E.S.Ports()
	addr := fmt.Sprintf("127.0.0.1:%d", udp)
	pre := func(b []byte) {
		if len(b) >= 80 {
			id := binary.LittleEndian.Uint32(b[0:4])
			r, _ := glow.DeserializeReport(b[:80])
			if ea, ok := s.E.S.VerifSnapshot().Equipment[id]; ok {
				s.oracle(ea.PublicKey, r.SigningBytes(), r.Signature)
			}
		}
	}
	pre(d)
	pre(marker)
	before := fileLen(s.E.Dir + "/equipment-reports.dat")
	r0 := atomic.LoadInt64(&udpReceived)
	sent := int64(1)
	glow.SendUDPReport(d, addr)
	// the listener counts every datagram it reads and every handler it launches / finishes
	// (verif hook points), so no timing assumption is needed to know that both have been dealt with
	waitUDP := func(n int64) bool {
		for i := 0; i < 3000; i++ {
			rc := atomic.LoadInt64(&udpReceived)
			// the loop is back at its top after the last datagram (so the launch decision has been taken) and every launched handler is done
			if rc >= r0+n && atomic.LoadInt64(&udpIter)-iter0 == rc-rcv0+1 && atomic.LoadInt64(&udpHandled) == atomic.LoadInt64(&udpLaunched) {
				return true
			}
			time.Sleep(time.Millisecond)
		}
		return false
	}
	if !waitUDP(sent) {
		s.T.Line("# udp datagram lost on loopback; pair skipped")
		s.Lost = true
		return
	}
	mid := fileLen(s.E.Dir + "/equipment-reports.dat")
	glow.SendUDPReport(marker, addr)
	if !waitUDP(sent + 1) {
		s.T.Line("# udp datagram lost on loopback; pair skipped")
		s.Lost = true
		return
	}
	obs, mobs := "dropped", "dropped"
	if mid > before {
		obs = "stored"
	}
	if fileLen(s.E.Dir+"/equipment-reports.dat") > mid {
		mobs = "stored"
	}
	s.T.Count("dgram-udp:" + obs)
	s.T.Line("srv.dgram now=%d d=%s => %s", now, hx(d), obs)
	s.emit(fmt.Sprintf("srv.dgram now=%d d=%s", now, hx(marker)), mobs)
}

// DgramUDPPlain sends one datagram through the real UDP socket and nothing after it, and waits (on the
// listener's own counters) until it has been dealt with.
func (s *Srv) DgramUDPPlain(d []byte) string {
	now := glow.CurrentTimeslot()
	_, _, udp := s.E.S.Ports()
	if len(d) >= 80 {
		id := binary.LittleEndian.Uint32(d[0:4])
		r, _ := glow.DeserializeReport(d[:80])
		if ea, ok := s.E.S.VerifSnapshot().Equipment[id]; ok {
			s.oracle(ea.PublicKey, r.SigningBytes(), r.Signature)
		}
	}
	before := fileLen(s.E.Dir + "/equipment-reports.dat")
	r0 := atomic.LoadInt64(&udpReceived)
	glow.SendUDPReport(d, fmt.Sprintf("127.0.0.1:%d", udp))
	done := false
	for i := 0; i < 3000 && !done; i++ {
		rc := atomic.LoadInt64(&udpReceived)
		if rc >= r0+1 && atomic.LoadInt64(&udpIter)-iter0 == rc-rcv0+1 && atomic.LoadInt64(&udpHandled) == atomic.LoadInt64(&udpLaunched) {
			done = true
		} else {
			time.Sleep(time.Millisecond)
		}
	}
	if !done {
		s.T.Line("# udp datagram lost on loopback; skipped")
		s.Lost = true
		return "lost"
	}
	obs := "dropped"
	if fileLen(s.E.Dir+"/equipment-reports.dat") > before {
		obs = "stored"
	}
	s.T.Count("dgram-udp-plain:" + obs)
	s.emit(fmt.Sprintf("srv.dgram now=%d d=%s", now, hx(d)), obs)
	return obs
}

var udpReceived, udpLaunched, udpHandled, udpIter int64

// iter0/rcv0: counter values when the current server's listener started (a new listener starts a new loop)
var iter0, rcv0 int64

func init() {
	server.VerifSetPoint("udp-received", func() { atomic.AddInt64(&udpReceived, 1) })
	server.VerifSetPoint("udp-launch", func() { atomic.AddInt64(&udpLaunched, 1) })
	server.VerifSetPoint("udp-handled", func() { atomic.AddInt64(&udpHandled, 1) })
	server.VerifSetPoint("udp-iter", func() { atomic.AddInt64(&udpIter, 1) })
}

func fileLen(p string) int64 {
	st, err := os.Stat(p)
	if err != nil {
		return -1
	}
	return st.Size()
}

func (s *Srv) Register(key glow.PublicKey, sig glow.Signature) string {
	gr := server.GCARegistration{GCAKey: key, Signature: sig}
	s.Keys[key] = true
	s.oracle(s.E.Temp.Pub, gr.SigningBytes(), sig)
	st, _, err := s.E.PostJSON("/api/v1/register-gca", gr)
	obs := "refused"
	if err == nil && st == 200 {
		obs = "ok"
	} else if err != nil {
		obs = "ERR:" + err.Error()
	}
	s.T.Count("register:" + obs)
	s.emit(fmt.Sprintf("srv.register key=%s sig=%s", hx(key[:]), hx(sig[:])), obs)
	return obs
}

// Authorize submits through the JSON endpoint (viaHTTP) or the direct hook.
func (s *Srv) Authorize(ea glow.EquipmentAuthorization, viaHTTP bool) string {
	s.Keys[ea.PublicKey] = true
	snap := s.E.S.VerifSnapshot()
	s.oracle(snap.GCAKey, ea.SigningBytes(), ea.Signature)
	banned := map[uint32]bool{}
	for _, b := range snap.Bans {
		banned[b] = true
	}
	s.Pending = "srv.authorize a=" + hex.EncodeToString(ea.Serialize())
	var obs string
	if viaHTTP {
		st, _, err := s.E.PostJSON("/api/v1/authorize-equipment", ea)
		switch {
		case err != nil:
			obs = "ERR:" + err.Error()
		case st == 200:
			obs = "ok"
			if _, had := snap.Equipment[ea.ShortID]; !had {
				obs = "new"
			}
		default:
			obs = "refused"
		}
	} else {
		isNew, err := s.E.S.VerifAuthorize(ea)
		switch {
		case err != nil:
			obs = "refused"
		case isNew:
			obs = "new"
		default:
			obs = "ok"
		}
	}
	if obs == "refused" {
		for _, b := range s.E.S.VerifSnapshot().Bans {
			if b == ea.ShortID && !banned[b] {
				obs = "banned"
			}
		}
	}
	s.T.Count("authorize:" + obs)
	s.emit("srv.authorize a="+hex.EncodeToString(ea.Serialize()), obs)
	return obs
}

func (s *Srv) Rotate() {
	s.Pending = "srv.rotate"
	s.E.S.VerifMigrateNow()
	s.T.Count("rotate")
	s.emit("srv.rotate", "ok")
}

// Tick runs one iteration of the real background rotation loop.
func (s *Srv) Tick() {
	s.Pending = fmt.Sprintf("srv.tick now=%d", glow.CurrentTimeslot())
	s.E.Tick()
	s.T.Count("tick")
	s.emit(fmt.Sprintf("srv.tick now=%d", glow.CurrentTimeslot()), "ok")
}

// Restart stops and starts the server on the same directory.
func (s *Srv) Restart() error {
	now := glow.CurrentTimeslot()
	pk := s.E.S.PublicKey()
	s.Pending = fmt.Sprintf("srv.restart fresh=%s now=%d", hx(pk[:]), now)
	if err := s.E.Stop(); err != nil {
		return fmt.Errorf("stop: %v", err)
	}
	fresh := s.bootStart()
	if fresh == nil {
		s.T.Count("restart:fail")
		s.T.Line("srv.restart fresh=%s now=%d => fail", hx(make([]byte, 32)), now)
		return fmt.Errorf("restart failed")
	}
	s.T.Count("restart:ok")
	s.emit(fmt.Sprintf("srv.restart fresh=%s now=%d", hx(fresh), now), "ok")
	return nil
}

// restartAfterStop starts the (already stopped) server again and records the restart.
func (s *Srv) restartAfterStop() error {
	now := glow.CurrentTimeslot()
	if !strings.HasPrefix(s.Pending, "srv.restart") {
		s.Pending = fmt.Sprintf("srv.restart fresh=%s now=%d", hx(make([]byte, 32)), now)
	}
	fresh := s.bootStart()
	if fresh == nil {
		s.T.Count("restart:fail")
		s.T.Line("srv.restart fresh=%s now=%d => fail", hx(make([]byte, 32)), now)
		return fmt.Errorf("restart failed")
	}
	s.T.Count("restart:ok")
	s.emit(fmt.Sprintf("srv.restart fresh=%s now=%d", hx(fresh), now), "ok")
	return nil
}

// Stats queries the statistics endpoint.
func (s *Srv) Stats(tso uint64, falseNeg bool) string {
	q := fmt.Sprintf("/api/v1/all-device-stats?timeslot_offset=%d", tso)
	if falseNeg {
		q += "&insert_false_negatives=true"
	}
	st, body, err := s.E.Get(q)
	var obs string
	switch {
	case err != nil:
		obs = "ERR:" + err.Error()
	case st != 200:
		obs = "refused"
	default:
		w, derr := decodeStatsJSON(body)
		if derr != nil {
			obs = "ERR:json:" + derr.Error()
		} else {
			if !falseNeg {
				pk := s.E.S.PublicKey()
				if !glow.Verify(pk, w.SigningBytes(), w.Signature) {
					obs = "BADSIG "
				}
			}
			obs += canonWeek(w)
		}
	}
	cls := strings.SplitN(obs, ";", 2)[0]
	s.T.Count("stats:" + cls[:min(7, len(cls))])
	if falseNeg {
		// the decorated response is randomised: only the state after it is compared
		s.emitStateOnly(fmt.Sprintf("srv.stats tso=%d", tso))
		return obs
	}
	s.emit(fmt.Sprintf("srv.stats tso=%d", tso), obs)
	return obs
}

func (s *Srv) emitStateOnly(line string) {
	s.T.Line("srv.snap => #%s", fnv64(s.snapWithDisk()))
	_ = line
}

func min(a, b int) int {
	if a < b {
		return a
	}
	return b
}

// Sync performs the TCP sync request and renders the reply's content.
func (s *Srv) Sync(id uint32) string {
	raw, err := s.E.SyncRaw(id)
	var obs string
	switch {
	case err != nil:
		obs = "ERR:" + err.Error()
	case len(raw) == 1 && raw[0] == 0:
		obs = "refused"
	default:
		obs = canonSyncReply(raw, s.E.S.PublicKey())
	}
	s.T.Count("sync:" + obs[:min(7, len(obs))])
	s.emit(fmt.Sprintf("srv.sync id=%d", id), obs)
	return obs
}

// canonSyncReply splits a genuine reply by the server's documented layout.
func canonSyncReply(raw []byte, srvKey glow.PublicKey) string {
	if len(raw) < 2+712 {
		return fmt.Sprintf("SHORT:%d", len(raw))
	}
	n := int(binary.LittleEndian.Uint16(raw[:2]))
	b := raw[2:]
	if n != len(b) {
		return fmt.Sprintf("LENPREFIX:%d:%d", n, len(b))
	}
	var sig glow.Signature
	copy(sig[:], b[len(b)-64:])
	if !glow.Verify(srvKey, b[:len(b)-64], sig) {
		return "BADSIG"
	}
	key := b[0:32]
	off := binary.LittleEndian.Uint32(b[32:36])
	bits := b[36:540]
	mid := b[540 : len(b)-72] // newGCA(32) newShortID(4) servers... gcaSig(64)
	var zero [36]byte
	if string(mid[:36]) == string(zero[:]) {
		return fmt.Sprintf("key=%s off=%d bits=%s servers=%s", hx(key), off, hx(bits), hx(mid[36:len(mid)-64]))
	}
	return fmt.Sprintf("key=%s off=%d bits=%s mig=%s", hx(key), off, hx(bits), hx(mid))
}

func (s *Srv) AuthServer(as server.AuthorizedServer) string {
	snap := s.E.S.VerifSnapshot()
	s.oracle(snap.GCAKey, as.SigningBytes(), as.GCAAuthorization)
	st, _, err := s.E.PostJSON("/api/v1/authorized-servers", as)
	obs := "refused"
	if err != nil {
		obs = "ERR:" + err.Error()
	} else if st == 200 {
		obs = "ok"
	}
	s.authServerEmit(as, obs)
	return obs
}

func (s *Srv) authServerEmit(as server.AuthorizedServer, obs string) {
	b := 0
	if as.Banned {
		b = 1
	}
	s.T.Count("authserver:" + obs)
	s.emit(fmt.Sprintf("srv.authserver e=%s key=%s banned=%d loc=%s http=%d tcp=%d udp=%d sig=%s",
		hx(encodeIfShort(as)), hx(as.PublicKey[:]), b, hx([]byte(as.Location)), as.HttpPort, as.TcpPort, as.UdpPort, hx(as.GCAAuthorization[:])), obs)
}

func encodeIfShort(as server.AuthorizedServer) []byte {
	if len(as.Location) > 255 {
		return nil
	}
	return as.Serialize()
}

func (s *Srv) Migrate(em server.EquipmentMigration) string {
	snap := s.E.S.VerifSnapshot()
	s.Keys[em.NewGCA] = true
	s.oracle(snap.GCAKey, em.SigningBytes(), em.Signature)
	var srv []string
	for _, a := range em.NewServers {
		a := a
		s.oracle(em.NewGCA, a.SigningBytes(), a.GCAAuthorization)
		b := 0
		if a.Banned {
			b = 1
		}
		srv = append(srv, fmt.Sprintf("%s,%d,%s,%d,%d,%d,%s", hx(a.PublicKey[:]), b, hx([]byte(a.Location)), a.HttpPort, a.TcpPort, a.UdpPort, hx(a.GCAAuthorization[:])))
	}
	st, _, err := s.E.PostJSON("/api/v1/equipment-migrate", em)
	obs := "refused"
	if err != nil {
		obs = "ERR:" + err.Error()
	} else if st == 200 {
		obs = "ok"
	}
	s.T.Count("migrate:" + obs)
	s.emit(fmt.Sprintf("srv.migrate eq=%s gca=%s id=%d slist=%s sig=%s", hx(em.Equipment[:]), hx(em.NewGCA[:]), em.NewShortID, strings.Join(srv, ";"), hx(em.Signature[:])), obs)
	return obs
}

// ImpactRound runs one round of the real impact job, reads back what it
// wrote (the test build derives rates from the wall clock) and tells the model.
func (s *Srv) ImpactRound() {
	before := s.E.S.VerifSnapshot()
	// the job stores the rate it fetched for the CURRENT timeslot: the timeslot of every write is taken from
	// the clock, not from where the value landed, so a misplaced write shows in the state comparison
	now := glow.CurrentTimeslot()
	s.E.S.VerifImpactRound()
	after := s.E.S.VerifSnapshot()
	var lines []string
	for id, imp := range after.Impact {
		old := before.Impact[id]
		for i := range imp {
			if imp[i] != old[i] {
				s.T.Count("impact")
				lines = append(lines, fmt.Sprintf("srv.impact id=%d ts=%d rate=%d", id, now, float64bits(imp[i])))
			}
		}
	}
	// the writes of one round are compared as a whole (state hash on the last line only)
	for i, l := range lines {
		if i == len(lines)-1 {
			s.emit(l, "ok")
		} else {
			s.T.Line("%s => ok", l)
		}
	}
}

func (s *Srv) Snap() {
	s.T.Line("srv.snap => %s", s.snapWithDisk())
}

func (s *Srv) Disk() {
	s.T.Line("srv.disk => %s", canonDisk(s.E.Dir))
}

func (s *Srv) Close() {
	if s.E.S != nil {
		s.E.Stop()
	}
	os.RemoveAll(s.E.Dir)
}

// Recent queries the recent-reports endpoint for a device key: the reply must carry the device's whole
// window and a signature of this server over the JSON rendering of the reports.
func (s *Srv) Recent(key glow.PublicKey) string {
	st, body, err := s.E.Get("/api/v1/recent-reports?publicKey=" + hx(key[:]))
	var obs string
	switch {
	case err != nil:
		obs = "ERR:" + err.Error()
	case st != 200:
		obs = "refused"
	default:
		var resp server.RecentReportsResponse
		if derr := json.Unmarshal(body, &resp); derr != nil {
			obs = "ERR:json:" + derr.Error()
			break
		}
		signed, _ := json.Marshal(&resp.Reports)
		if !glow.Verify(s.E.S.PublicKey(), signed, resp.Signature) {
			obs = "BADSIG "
		}
		var slots []string
		var zero glow.EquipmentReport
		for j := range resp.Reports {
			if resp.Reports[j] != zero {
				slots = append(slots, strconv.Itoa(j)+"."+hex.EncodeToString(resp.Reports[j].Serialize()))
			}
		}
		obs += fmt.Sprintf("off=%d reports=%s", resp.TimeslotOffset, strings.Join(slots, ","))
	}
	cls := "reply"
	if obs == "refused" || strings.HasPrefix(obs, "ERR") || strings.HasPrefix(obs, "BADSIG") {
		cls = strings.Fields(obs + " x")[0]
	}
	s.T.Count("recent:" + cls[:min(12, len(cls))])
	if len(obs) > 200 && !s.Full {
		obs = "#" + fnv64(obs)
	}
	s.T.Line("srv.recent key=%s => %s", hx(key[:]), obs)
	return obs
}

// Equipment queries the equipment endpoint.
func (s *Srv) Equipment() string {
	st, body, err := s.E.Get("/api/v1/equipment")
	var obs string
	switch {
	case err != nil:
		obs = "ERR:" + err.Error()
	case st != 200:
		obs = "refused"
	default:
		var resp server.EquipmentResponse
		if derr := json.Unmarshal(body, &resp); derr != nil {
			obs = "ERR:json:" + derr.Error()
			break
		}
		var ids []int
		for id := range resp.EquipmentDetails {
			ids = append(ids, int(id))
		}
		sort.Ints(ids)
		var devs []string
		for _, id := range ids {
			ea := resp.EquipmentDetails[uint32(id)]
			devs = append(devs, fmt.Sprintf("%d:%s", id, hex.EncodeToString(ea.Serialize())))
		}
		obs = strings.Join(devs, ";")
	}
	s.T.Count("equipment")
	s.T.Line("srv.equipment => %s", obs)
	return obs
}

// Servers queries the authorized-servers listing (GET).
func (s *Srv) Servers() string {
	st, body, err := s.E.Get("/api/v1/authorized-servers")
	var obs string
	switch {
	case err != nil:
		obs = "ERR:" + err.Error()
	case st != 200:
		obs = "refused"
	default:
		var resp server.AuthorizedServersResponse
		if derr := json.Unmarshal(body, &resp); derr != nil {
			obs = "ERR:json:" + derr.Error()
			break
		}
		var b []byte
		for _, a := range resp.AuthorizedServers {
			a := a
			b = append(b, a.Serialize()...)
		}
		obs = hx(b)
	}
	s.T.Count("servers")
	s.T.Line("srv.servers => %s", obs)
	return obs
}

// HTTP sends a request that no handler can accept. Only two things are observed: that it is answered
// at all (net/http turns a handler panic into a closed connection) and the state afterwards.
// HTTPChunked is HTTP with a body of undeclared length (Transfer-Encoding: chunked, no Content-Length).
func (s *Srv) HTTPChunked(method, path string, body []byte) string {
	s.chunkedNext = true
	return s.HTTP(method, path, body)
}

func (s *Srv) HTTP(method, path string, body []byte) string {
	var rd io.Reader = bytes.NewReader(body)
	if s.chunkedNext {
		rd = struct{ io.Reader }{bytes.NewReader(body)}
		s.chunkedNext = false
		s.T.Count("http:chunked-body")
	}
	req, err := http.NewRequest(method, s.E.url(path), rd)
	obs := "answered"
	status := 0
	if err != nil {
		obs = "ERR:request:" + err.Error()
	} else {
		req.Header.Set("Content-Type", "application/json")
		resp, err := httpClient.Do(req)
		if err != nil {
			obs = "ERR:" + err.Error()
		} else {
			io.Copy(io.Discard, resp.Body)
			resp.Body.Close()
			status = resp.StatusCode
		}
	}
	s.T.Count(fmt.Sprintf("http:%s:%d", method, status))
	if s.Full {
		s.T.Line("srv.http m=%s path=%s body=%s => %s", method, hx([]byte(path)), hx(body), obs)
		s.T.Line("srv.snap => %s", s.snapWithDisk())
		return obs
	}
	s.T.Line("srv.http m=%s path=%s body=%s => %s%s", method, hx([]byte(path)), hx(body), obs, s.after())
	return obs
}

// TCPShort opens a sync connection, sends fewer than the four request bytes and half-closes.
func (s *Srv) TCPShort(b []byte) string {
	_, tcp, _ := s.E.S.Ports()
	obs := "empty"
	conn, err := net.DialTimeout("tcp", fmt.Sprintf("127.0.0.1:%d", tcp), 5*time.Second)
	if err != nil {
		obs = "ERR:dial:" + err.Error()
	} else {
		conn.Write(b)
		conn.(*net.TCPConn).CloseWrite()
		conn.SetReadDeadline(time.Now().Add(10 * time.Second))
		got, rerr := io.ReadAll(conn)
		conn.Close()
		if rerr != nil {
			obs = "ERR:read:" + rerr.Error()
		} else if len(got) != 0 {
			obs = "reply:" + hx(got)
		}
	}
	s.T.Count("tcpshort")
	if s.Full {
		s.T.Line("srv.tcpshort b=%s => %s", hx(b), obs)
		s.T.Line("srv.snap => %s", s.snapWithDisk())
		return obs
	}
	s.T.Line("srv.tcpshort b=%s => %s%s", hx(b), obs, s.after())
	return obs
}

// RegisterFault submits a correctly signed registration while the key file cannot be written (a
// directory sits at its path). The order must be refused and leave no trace: a key that was not
// persisted must not be honoured.
func (s *Srv) RegisterFault(key glow.PublicKey, sig glow.Signature) string {
	path := s.E.Dir + "/gcaPubKey.dat"
	if _, err := os.Stat(path); err == nil {
		return "skipped"
	}
	// two kinds of fault: the file cannot be opened for writing (a directory sits at its path), or it opens
	// and the write itself fails (the path leads to /dev/full)
	kind := "unopenable"
	if _, err := os.Stat("/dev/full"); err == nil && len(key) > 0 && key[0]%2 == 0 {
		if err := os.Symlink("/dev/full", path); err != nil {
			return "skipped"
		}
		kind = "write-fails"
	} else if err := os.Mkdir(path, 0755); err != nil {
		return "skipped"
	}
	gr := server.GCARegistration{GCAKey: key, Signature: sig}
	st, _, err := s.E.PostJSON("/api/v1/register-gca", gr)
	os.Remove(path)
	obs := "refused"
	if err == nil && st == 200 {
		obs = "ok"
	} else if err != nil {
		obs = "ERR:" + err.Error()
	}
	s.T.Count("registerfault:" + kind + ":" + obs)
	if s.Full {
		s.T.Line("srv.noeffect what=register-with-unwritable-key-file key=%s => %s", hx(key[:]), obs)
		s.T.Line("srv.snap => %s", s.snapWithDisk())
		return obs
	}
	s.T.Line("srv.noeffect what=register-with-unwritable-key-file key=%s => %s%s", hx(key[:]), obs, s.after())
	return obs
}

// AuthorizeFault submits a correctly signed authorization for a new device while the authorization log
// cannot be appended to (its path leads to /dev/full: open succeeds, write fails). It must be refused and
// leave no trace in memory: an authorization that is not on disk would be forgotten by the next start.
func (s *Srv) AuthorizeFault(ea glow.EquipmentAuthorization) string {
	if _, err := os.Stat("/dev/full"); err != nil {
		return "skipped"
	}
	path := s.E.Dir + "/equipment-authorizations.dat"
	if os.Rename(path, path+".aside") != nil {
		return "skipped"
	}
	os.Symlink("/dev/full", path)
	st, _, err := s.E.PostJSON("/api/v1/authorize-equipment", ea)
	os.Remove(path)
	os.Rename(path+".aside", path)
	obs := "refused"
	if err == nil && st == 200 {
		obs = "ok"
	} else if err != nil {
		obs = "ERR:" + err.Error()
	}
	s.T.Count("authorizefault:" + obs)
	if s.Full {
		s.T.Line("srv.noeffect what=authorize-with-unwritable-log a=%s => %s", hex.EncodeToString(ea.Serialize()), obs)
		s.T.Line("srv.snap => %s", s.snapWithDisk())
		return obs
	}
	s.T.Line("srv.noeffect what=authorize-with-unwritable-log a=%s => %s%s", hex.EncodeToString(ea.Serialize()), obs, s.after())
	return obs
}

// DgramQuick is Dgram without the per-operation state hash (for long runs of reports of one known
// device; the state is compared once afterwards).
func (s *Srv) DgramQuick(d []byte, key glow.PublicKey) {
	now := glow.CurrentTimeslot()
	if len(d) >= 80 {
		r, _ := glow.DeserializeReport(d[:80])
		s.oracle(key, r.SigningBytes(), r.Signature)
	}
	before := fileLen(s.E.Dir + "/equipment-reports.dat")
	s.E.S.VerifInject(d)
	obs := "dropped"
	if fileLen(s.E.Dir+"/equipment-reports.dat") != before {
		obs = "stored"
	}
	s.T.Count("dgram:" + obs)
	s.T.Line("srv.dgram now=%d d=%s => %s", now, hx(d), obs)
}
