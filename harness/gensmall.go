package main

// Correspondence runs for the small stand-alone cores: event log (C18), rate
// limiter (C19), timeslot arithmetic (C20).

import (
	"fmt"
	"math"
	"os"
	"sort"
	"strconv"
	"strings"
	"sync"
	"time"

	"github.com/glowlabs-org/gca-backend/glow"
)

// ---------------------------------------------------------------- event log

func elCanon(l *glow.EventLogger, base time.Time) string {
	m, size := l.VerifLogState()
	var es []string
	for k, ups := range m {
		var ts []string
		for _, u := range ups {
			ts = append(ts, strconv.FormatInt(int64(u.Sub(base)), 10))
		}
		es = append(es, hx([]byte(k))+":"+strings.Join(ts, ","))
	}
	sort.Strings(es)
	return fmt.Sprintf("size=%d;", size) + strings.Join(es, ";")
}

func runELScenario(seed uint64, size int, t *Trace) {
	r := &Rng{s: seed*31 + 5}
	expiries := []time.Duration{2 * time.Millisecond, 40 * time.Millisecond, time.Hour, 0}
	maxBs := []int{0, 10, 20, 40, 100, 1000}
	maxLines := []int{0, 5, 10, 50, 200}
	expiry := expiries[r.Intn(len(expiries))]
	maxB := maxBs[r.Intn(len(maxBs))]
	maxLine := maxLines[r.Intn(len(maxLines))]
	base := time.Now()
	l := glow.NewEventLogger(expiry, maxB, maxLine)
	t.Line("scenario el-%d", seed)
	t.Line("el.new expiry=%d maxB=%d maxLine=%d", int64(expiry), maxB, maxLine)
	alphabet := []string{}
	for i := 0; i < 6; i++ {
		n := []int{0, 1, maxLine / 2, maxLine, maxLine + 1, 2 * maxLine, 5, maxB / 2}[r.Intn(8)]
		alphabet = append(alphabet, strings.Repeat(string(rune('a'+i)), n))
	}
	// lines that end in a line break (the logger stores what it is given)
	for _, tail := range []string{"\n", "\r\n", "\n\n"} {
		if r.Chance(40) {
			alphabet = append(alphabet, strings.Repeat("q", r.Intn(maxLine+2))+tail)
		}
	}
	// lines whose bytes are not ASCII: multi-byte characters that straddle the per-line limit and bare
	// continuation bytes (the limit is a limit in bytes, whatever the bytes mean)
	for i, unit := range []string{"\u00e9", "\u20ac", "\U0001F600", "\x80", "\xbf\x80"} {
		if r.Chance(50) {
			n := []int{maxLine + 1, 2*maxLine + 3, maxLine + 2, maxLine, 7}[r.Intn(5)]
			pad := strings.Repeat("x", (i+r.Intn(4))%4)
			line := pad + strings.Repeat(unit, n/len(unit)+1)
			alphabet = append(alphabet, line)
		}
	}
	call := func(f func()) (panicked bool) {
		defer func() {
			if recover() != nil {
				panicked = true
			}
		}()
		f()
		return false
	}
	// one scenario in six logs one line several hundred times in a row (a device that repeats itself for
	// days), then goes on as usual: however often a line was repeated, its newest repeat is what counts
	burstLeft, burstLine, burstDone := 0, "", false
	for i := 0; i < size || burstLeft > 0; i++ {
		if !burstDone && seed%6 == 3 && i == size/3 {
			burstDone = true
			burstLeft = 257 + r.Intn(80)
			burstLine = alphabet[r.Intn(len(alphabet))]
			t.Count("el.burst-of-repeats")
		}
		if burstLeft == 0 && r.Chance(40) {
			time.Sleep(time.Duration(r.Intn(1500)) * time.Microsecond)
		}
		// ambiguity guard: a stored update that sits on the expiry cut of a call whose clock value we only know as an interval
		ambiguous := func(b, a time.Time) bool {
			m, _ := l.VerifLogState()
			for _, ups := range m {
				for _, u := range ups {
					if !u.Add(expiry).Before(b) && !u.Add(expiry).After(a) {
						return true
					}
				}
			}
			return false
		}
		kind := r.pick([]int{60, 20, 20})
		if burstLeft > 0 {
			kind = 0
		}
		switch kind {
		case 0:
			var line string
			if burstLeft > 0 {
				line = burstLine
				burstLeft--
			} else if r.Chance(70) {
				line = alphabet[r.Intn(len(alphabet))]
			} else {
				line = strings.Repeat("z", r.Intn(2*maxLine+3)) + strconv.Itoa(i)
			}
			b := time.Now()
			amb0 := ambiguous(b, b.Add(50*time.Microsecond))
			p := call(func() { l.Printf("%s", line) })
			a := time.Now()
			if p {
				t.Count("el.printf:PANIC")
				t.Line("el.printf now=%d line=%s => PANIC", int64(a.Sub(base)), hx([]byte(line)))
				return
			}
			key := line
			if len(key) > maxLine {
				key = key[:maxLine]
			}
			m, _ := l.VerifLogState()
			now := a
			if ups, ok := m[key]; ok && !ups[len(ups)-1].Before(b) {
				now = ups[len(ups)-1]
			} else if amb0 || ambiguous(b, a) {
				t.Count("el.ambiguous")
				return
			}
			t.Count("el.printf")
			t.Line("el.printf now=%d line=%s => %s", int64(now.Sub(base)), hx([]byte(line)), elCanon(l, base))
		case 1:
			cut := base.Add(time.Duration(r.Intn(int(time.Since(base)+5*time.Millisecond))) - 2*time.Millisecond)
			if r.Chance(10) {
				cut = base.Add(time.Hour * 3)
			}
			p := call(func() { l.ExpireLogs(cut) })
			if p {
				t.Line("el.expire now=%d => PANIC", int64(cut.Sub(base)))
				return
			}
			t.Count("el.expire")
			t.Line("el.expire now=%d => %s", int64(cut.Sub(base)), elCanon(l, base))
		case 2:
			b := time.Now()
			var order []string
			p := call(func() { _, order = l.DumpLogEntries() })
			a := time.Now()
			if p {
				t.Line("el.dump now=%d => PANIC", int64(a.Sub(base)))
				return
			}
			if ambiguous(b, a) {
				t.Count("el.ambiguous")
				return
			}
			var oh []string
			for _, o := range order {
				oh = append(oh, hx([]byte(o)))
			}
			t.Count("el.dump")
			t.Line("el.dump now=%d => %s order=%s", int64(a.Sub(base)), elCanon(l, base), strings.Join(oh, ","))
		}
	}
	t.DumpStats()
}

// ---------------------------------------------------------------- rate limiter

func runRLScenario(seed uint64, size int, t *Trace) {
	r := &Rng{s: seed*17 + 3}
	limits := []int{0, 1, 2, 3, 5, 10, -1}
	rates := []time.Duration{0, 300 * time.Microsecond, 2 * time.Millisecond, 10 * time.Millisecond, time.Hour}
	limit := limits[r.Intn(len(limits))]
	rate := rates[r.Intn(len(rates))]
	rl := glow.NewRateLimiter(limit, rate)
	base := time.Now()
	t.Line("scenario rl-%d", seed)
	t.Line("rl.new limit=%d rate=%d", limit, int64(rate))
	canon := func() string {
		var ts []string
		for _, u := range rl.VerifAdmitted() {
			ts = append(ts, strconv.FormatInt(int64(u.Sub(base)), 10))
		}
		return strings.Join(ts, ",")
	}
	for i := 0; i < size; i++ {
		switch r.pick([]int{50, 30, 20}) {
		case 1:
			time.Sleep(time.Duration(r.Intn(400)) * time.Microsecond)
		case 2:
			d := rate/2 + time.Duration(r.Intn(int(rate/2+1000)))
			if d > 12*time.Millisecond {
				d = 12 * time.Millisecond
			}
			time.Sleep(d)
		}
		before := rl.VerifAdmitted()
		b := time.Now()
		ok := rl.Allow()
		a := time.Now()
		after := rl.VerifAdmitted()
		var now time.Time
		if ok {
			now = after[len(after)-1]
		} else {
			now = a
			amb := false
			for _, u := range before {
				e := u.Add(rate)
				if !e.Before(b) && !e.After(a) {
					amb = true
				}
			}
			if amb {
				t.Count("rl.ambiguous")
				return
			}
		}
		v := 0
		if ok {
			v = 1
		}
		t.Count(fmt.Sprintf("rl.allow:%d", v))
		t.Line("rl.allow now=%d => %d reqs=%s", int64(now.Sub(base)), v, canon())
	}
	t.DumpStats()
}

// Concurrent callers: the admitted timestamps are exact (taken inside the
// critical section); every rejected call is judged with its [before, after]
// interval so that only certain violations count.
func runRLConcurrent(seed uint64, t *Trace) {
	r := &Rng{s: seed*13 + 1}
	limit := 1 + r.Intn(8)
	rate := []time.Duration{500 * time.Microsecond, 3 * time.Millisecond, 20 * time.Millisecond}[r.Intn(3)]
	callers := []int{1, 2, 4, 16, 64}[r.Intn(5)]
	if r.Chance(30) {
		// more room than calls: nobody may be turned away, however the callers collide
		limit = callers*40 + 1 + r.Intn(5)
	}
	rl := glow.NewRateLimiter(limit, rate)
	base := time.Now()
	type rej struct{ b, a int64 }
	var mu sync.Mutex
	var rejected []rej
	var admittedAll []int64
	var admIv []rej // caller-side [before, after] of every admitted call
	var wg sync.WaitGroup
	pattern := r.Intn(3)
	for c := 0; c < callers; c++ {
		wg.Add(1)
		go func(c int) {
			defer wg.Done()
			for k := 0; k < 40; k++ {
				switch pattern {
				case 1:
					if k%10 == 0 {
						time.Sleep(rate)
					}
				case 2:
					time.Sleep(rate / time.Duration(limit+1))
				}
				b := time.Now()
				ok := rl.Allow()
				a := time.Now()
				if !ok {
					mu.Lock()
					rejected = append(rejected, rej{int64(b.Sub(base)), int64(a.Sub(base))})
					mu.Unlock()
				} else {
					// the limiter forgets old admissions; collect them while they are visible
					mu.Lock()
					admIv = append(admIv, rej{int64(b.Sub(base)), int64(a.Sub(base))})
					for _, u := range rl.VerifAdmitted() {
						admittedAll = append(admittedAll, int64(u.Sub(base)))
					}
					mu.Unlock()
				}
			}
		}(c)
	}
	wg.Wait()
	sort.Slice(admittedAll, func(i, j int) bool { return admittedAll[i] < admittedAll[j] })
	var adm []int64
	for i, x := range admittedAll {
		if i == 0 || x != admittedAll[i-1] {
			adm = append(adm, x)
		}
	}
	// window bound on the implementation's admissions
	worst := 0
	for i := range adm {
		n := 0
		for j := i; j >= 0 && adm[j] > adm[i]-int64(rate); j-- {
			n++
		}
		if n > worst {
			worst = n
		}
	}
	starved := 0
	for _, q := range rejected {
		// an upper bound of the admissions the rejected call can have seen: every admitted call whose own
		// [before, after] interval reaches into (q.b - rate, q.a]
		n := 0
		for _, x := range admIv {
			if x.a > q.b-int64(rate) && x.b <= q.a {
				n++
			}
		}
		if n < limit {
			starved++
		}
	}
	t.Line("scenario rlc-%d", seed)
	t.Count("rlc.calls")
	obs := "ok"
	if worst > limit {
		obs = fmt.Sprintf("BOUND-EXCEEDED worst=%d", worst)
	} else if starved > 0 {
		obs = fmt.Sprintf("STARVED %d", starved)
	}
	var as, rs []string
	for _, x := range adm {
		as = append(as, strconv.FormatInt(x, 10))
	}
	for _, q := range rejected {
		rs = append(rs, fmt.Sprintf("%d:%d", q.b, q.a))
	}
	var ai []string
	for _, q := range admIv {
		ai = append(ai, fmt.Sprintf("%d:%d", q.b, q.a))
	}
	t.Line("rl.judge limit=%d rate=%d callers=%d adm=%s admi=%s rej=%s => %s", limit, int64(rate), callers, strings.Join(as, ","), strings.Join(ai, ","), strings.Join(rs, ","), obs)
	t.DumpStats()
}

// ---------------------------------------------------------------- timeslots

func runTS(seed uint64, n int, t *Trace) {
	r := &Rng{s: seed}
	g := int64(glow.GenesisTime)
	t.Line("scenario ts-%d", seed)
	emit := func(x int64) {
		s, err := glow.UnixToTimeslot(x)
		obs := "none"
		if err == nil {
			obs = strconv.FormatUint(uint64(s), 10)
		}
		t.Count("ts.toslot:" + map[bool]string{true: "ok", false: "refused"}[err == nil])
		t.Line("ts.toslot g=%d t=%d => %s", g, x, obs)
	}
	emitU := func(s uint32) {
		t.Count("ts.tounix")
		t.Line("ts.tounix g=%d s=%d => %d", g, s, glow.TimeslotToUnix(s))
	}
	for _, d := range []int64{-1000, -1, 0, 1, 299, 300, 301, 599, 600, 1<<31 - 1, 1 << 31, 1<<32 - 1, 1 << 32, 1<<32 + 5,
		300*(1<<32) - 1, 300 * (1 << 32), 300*(1<<32) + 1, 300*14316557 + 299, 300 * 14316558, math.MaxInt64 - g, math.MinInt64 / 2} {
		emit(g + d)
	}
	for _, s := range []uint32{0, 1, 2, 14316557, 14316558, 1<<31 - 1, 1 << 31, math.MaxUint32} {
		emitU(s)
	}
	// slot boundaries by stride, random inside
	stride := int64(300 * 4001)
	for k := int64(0); k*stride < 300*(1<<32) && int(k) < n; k++ {
		emit(g + k*stride)
		emit(g + k*stride - 1)
		emit(g + k*stride + int64(r.Intn(300)))
	}
	for i := 0; i < n; i++ {
		emit(g + int64(r.Next()%(300*(1<<32)+1000)) - 500)
		emitU(uint32(r.Next()))
	}
	t.DumpStats()
}

func init() {
	commands["elscenario"] = func(a []string) int {
		seed, _ := strconv.ParseUint(a[0], 10, 64)
		size, _ := strconv.Atoi(a[1])
		runELScenario(seed, size, NewTrace(os.Stdout))
		return 0
	}
	commands["rlscenario"] = func(a []string) int {
		seed, _ := strconv.ParseUint(a[0], 10, 64)
		size, _ := strconv.Atoi(a[1])
		t := NewTrace(os.Stdout)
		if seed%4 == 3 {
			runRLConcurrent(seed, t)
		} else {
			runRLScenario(seed, size, t)
		}
		return 0
	}
	many := func(child string) func([]string) int {
		return func(a []string) int {
			// <seedbase> <n> <size> <outfile>
			base, _ := strconv.ParseUint(a[0], 10, 64)
			n, _ := strconv.Atoi(a[1])
			size, _ := strconv.Atoi(a[2])
			f, err := os.Create(a[3])
			if err != nil {
				return 2
			}
			defer f.Close()
			c := runMany([]string{child}, base, n, 8, size, f)
			fmt.Printf("HARNESS scenarios=%d crashes=%d\n", n, c)
			return 0
		}
	}
	commands["el"] = many("elscenario")
	commands["rl"] = many("rlscenario")
	commands["ts"] = func(a []string) int {
		// <seed> <n> <outfile>
		seed, _ := strconv.ParseUint(a[0], 10, 64)
		n, _ := strconv.Atoi(a[1])
		f, err := os.Create(a[2])
		if err != nil {
			return 2
		}
		defer f.Close()
		runTS(seed, n, NewTrace(f))
		return 0
	}
}
