package main

// Recovery (C08): a real client and a real server with the harness between
// them. The client's datagrams land in a sink; the harness decides which are
// lost, duplicated or reordered and hands the rest to the server. Sync requests
// go through a recording TCP proxy so that the model sees the reply bytes.

import (
	"fmt"
	"io"
	"net"
	"os"
	"path/filepath"
	"strconv"
	"strings"
	"sync"
	"time"

	"github.com/glowlabs-org/gca-backend/client"
	"github.com/glowlabs-org/gca-backend/glow"
	"github.com/glowlabs-org/gca-backend/server"
)

type tcpProxy struct {
	l      net.Listener
	target string
	mu     sync.Mutex
	last   []byte // bytes of the last reply relayed
	fail   bool   // refuse to relay (simulates an unreachable server)
	conns  int
}

func newTCPProxy(target string) *tcpProxy {
	l, err := net.Listen("tcp", myIP+":0")
	if err != nil {
		panic(err)
	}
	p := &tcpProxy{l: l, target: target}
	go func() {
		for {
			c, err := l.Accept()
			if err != nil {
				return
			}
			go func() {
				defer c.Close()
				p.mu.Lock()
				p.conns++
				fail := p.fail
				p.mu.Unlock()
				if fail {
					return
				}
				up, err := net.Dial("tcp", p.target)
				if err != nil {
					return
				}
				defer up.Close()
				var req [4]byte
				c.SetDeadline(time.Now().Add(3 * time.Second))
				if _, err := io.ReadFull(c, req[:]); err != nil {
					return
				}
				up.Write(req[:])
				up.SetReadDeadline(time.Now().Add(5 * time.Second))
				reply, _ := io.ReadAll(up)
				p.mu.Lock()
				p.last = reply
				p.mu.Unlock()
				c.Write(reply)
			}()
		}
	}()
	return p
}
func (p *tcpProxy) port() uint16 { return uint16(p.l.Addr().(*net.TCPAddr).Port) }

func signExt32(v uint32) uint64 { return uint64(int32(v)) }

func runRelayScenario(seed uint64, size int, t *Trace) error {
	r := &Rng{s: seed*71 + 31}
	s, err := NewSrv(fmt.Sprintf("relay-%d", seed), seed, t)
	if err != nil {
		return err
	}
	defer s.Close()
	start := uint32(r.Intn(3000))
	if err := s.Boot(start); err != nil {
		return err
	}
	if s.Register(s.E.GCA.Pub, glow.Sign((&gcaReg{s.E.GCA.Pub}).sb(), s.E.Temp.Priv)) != "ok" {
		return fmt.Errorf("register failed")
	}
	dev := detKey(seed, 1)
	s.Keys[dev.Pub] = true
	if s.Authorize(SignAuth(mkAuth(1, dev, 1<<40), s.E.GCA.Priv), true) != "new" {
		return fmt.Errorf("authorize failed")
	}
	sink := newUDPSink()
	defer sink.c.Close()
	_, tcp, _ := s.E.S.Ports()
	proxy := newTCPProxy(fmt.Sprintf("127.0.0.1:%d", tcp))
	defer proxy.l.Close()
	srvKey := s.E.S.PublicKey()
	servers := map[glow.PublicKey]client.GCAServer{srvKey: {Location: myIP, HttpPort: 1, TcpPort: proxy.port(), UdpPort: sink.port()}}
	origin := uint32(0)
	if start > 500 && r.Chance(50) {
		origin = start - uint32(r.Intn(400))
	}
	// an outage: several days of readings, one per slot, none of which reaches the server. More slots are
	// missing than fit the acceptance window; the ones inside it have to be recovered all the same
	outage := seed%6 == 4
	if outage {
		if start > 60 {
			origin = start - uint32(r.Intn(50))
		}
		size = 650 + r.Intn(250)
		t.Count("relay.outage")
	}
	dir := freshDir("relayc")
	defer os.RemoveAll(dir)
	if err := writeClientDir(ClientDir{Dir: dir, Key: dev, GCAPub: s.E.GCA.Pub, ShortID: 1, Servers: servers, HistoryOffset: origin}); err != nil {
		return err
	}
	c, err := client.VerifNewClientNoLoop(dir)
	if err != nil {
		return err
	}
	t.Line("cl.hist.new origin=%d", origin)
	gcas := servers[srvKey]
	latest := uint32(0)
	now := start
	// ---- the device produces readings over time; each original datagram is lost, delivered, duplicated or delayed
	var delayed [][]byte
	var saved [][2]uint32
	for i := 0; i < size; i++ {
		if outage {
			now++
		} else {
			now += uint32(r.Intn(40))
		}
		s.SetNow(now)
		if r.Chance(10) && s.E.S != nil {
			// rotation (if due) or a server restart in between
			if r.Chance(50) {
				s.Tick()
			} else if err := s.Restart(); err != nil {
				return nil
			}
			_, tcp, _ = s.E.S.Ports()
			proxy.mu.Lock()
			proxy.target = fmt.Sprintf("127.0.0.1:%d", tcp)
			proxy.mu.Unlock()
		}
		ts := now - uint32(r.Intn(3))
		if ts < origin {
			continue
		}
		v := []uint32{2, 3, 500, 70000, 1 << 31, 0xFFFFFF00, 0xFFFFFFFF, 1, uint32(2 + r.Intn(1000))}[r.Intn(9)]
		if c.VerifSaveReading(ts, v) != nil {
			continue
		}
		t.Line("cl.hist.save ts=%d v=%d => ok %s", ts, v, histCanon(dir))
		saved = append(saved, [2]uint32{ts, v})
		if ts > latest {
			latest = ts
		}
		c.VerifSendReport(gcas, client.EnergyRecord{Timeslot: ts, Energy: signExt32(v)})
		if outage {
			sink.take()
			t.Count("relay.lost")
			continue
		}
		sink.settle(3*time.Millisecond, 100*time.Millisecond)
		for _, p := range sink.take() {
			switch r.pick([]int{45, 30, 10, 15}) {
			case 0: // lost
				t.Count("relay.lost")
			case 1:
				s.Dgram(p)
				t.Count("relay.delivered")
			case 2:
				s.Dgram(p)
				s.Dgram(p)
				t.Count("relay.duplicated")
			case 3:
				delayed = append(delayed, p)
				t.Count("relay.delayed")
			}
		}
		if len(delayed) > 0 && r.Chance(30) {
			k := r.Intn(len(delayed))
			s.Dgram(delayed[k])
			delayed = append(delayed[:k], delayed[k+1:]...)
		}
	}
	// late originals still in flight count as lost
	sink.settle(40*time.Millisecond, 600*time.Millisecond)
	for range sink.take() {
		t.Count("relay.lost")
	}
	// ---- sync rounds: some fail (server unreachable), the last one completes
	t.Line("cl.client.new ck=%s gk=%s id=1 servers=%s", hx(dev.Pub[:]), hx(s.E.GCA.Pub[:]), canonClientServers(c.VerifState().Servers))
	seen := map[string]bool{}
	for round := 0; round < 1+r.Intn(2); round++ {
		last := round == 0 // decided below: the final round is the fault-free one
		_ = last
	}
	if r.Chance(40) && s.E.S != nil {
		// servers the GCA has banned are on record: the reply lists them (the device must learn of the ban)
		for k, n := 0, 1+r.Intn(2); k < n; k++ {
			as := server.AuthorizedServer{PublicKey: detKey(seed, 40+k).Pub, Banned: true, Location: []string{myIP, myIP, ""}[r.Intn(3)],
				HttpPort: closedPortOnce(), TcpPort: 1, UdpPort: 2}
			as.GCAAuthorization = glow.Sign(as.SigningBytes(), s.E.GCA.Priv)
			s.AuthServer(as)
		}
		t.Count("relay.banned-servers-on-record")
	}
	failing := r.Intn(3)
	// sometimes one more round before the last: the path is fine, but the history store cannot be read
	// (I/O errors), while the meter's file meanwhile says something else for every slot. What cannot be
	// read from the store is not retransmitted - least of all from another source
	extra := 0
	if r.Chance(20) {
		extra = 1
	}
	for round := 0; round <= failing+extra; round++ {
		final := round == failing+extra
		rf := extra == 1 && round == failing
		var restore func()
		if rf {
			var sb strings.Builder
			sb.WriteString("timestamp,energy (mWh)\n")
			for _, x := range saved {
				sb.WriteString(fmt.Sprintf("%d,%d\n", int64(glow.GenesisTime)+300*int64(x[0])+7, int64(x[1]%100000)+1))
			}
			os.WriteFile(filepath.Join(dir, client.EnergyFile), []byte(sb.String()), 0644)
			restore, _ = c.VerifBreakHistoryReads()
			t.Count("relay.round-under-read-faults")
		}
		proxy.mu.Lock()
		proxy.fail = !final && !rf
		proxy.conns = 0
		proxy.last = nil
		proxy.mu.Unlock()
		time.Sleep(5 * time.Millisecond)
		sink.take()
		t0 := time.Now().Unix()
		ok := c.VerifSyncRound(latest)
		sink.settle(40*time.Millisecond, 600*time.Millisecond)
		if restore != nil {
			restore()
		}
		if time.Now().Unix() != t0 {
			t.Count("relay.clock-ambiguous")
		}
		proxy.mu.Lock()
		conns, reply := proxy.conns, proxy.last
		proxy.mu.Unlock()
		var choices []string
		for k := 0; k < conns; k++ {
			if (final || rf) && k == conns-1 && reply != nil {
				replyOracle(t, seen, reply, dev.Pub, s.E.GCA.Pub, srvKey)
				choices = append(choices, hx(srvKey[:])+":ok:"+hx(reply))
			} else {
				choices = append(choices, hx(srvKey[:])+":fail")
			}
		}
		var resent []string
		var pkts [][]byte
		for _, p := range sink.take() {
			rep, err := glow.DeserializeReport(p)
			if err != nil {
				continue
			}
			resent = append(resent, fmt.Sprintf("%d.%d", rep.Timeslot, rep.PowerOutput))
			pkts = append(pkts, p)
		}
		res := "failed"
		if ok {
			res = "synced"
		}
		lf := 0
		if c.VerifTryLock() {
			lf = 1
		}
		after := c.VerifState()
		t.Count("relay.round:" + res)
		rfArg := ""
		if rf {
			rfArg = " readfault=1"
		}
		t.Line("cl.round latest=%d now=%d choices=%s%s => %s lockfree=%d sigs=true gk=%s id=%d servers=%s disk=[%s] resent=%s primary=%s", latest, t0, strings.Join(choices, ";"), rfArg,
			res, lf, hx(after.GCAPubKey[:]), after.ShortID, canonClientServers(after.Servers), canonClientDisk(dir), strings.Join(resent, ","), hx(after.PrimaryServer[:]))
		if final && !ok {
			// nothing stood between the real client and the real server in this round: the reply of a correct
			// server is one a correct client accepts, so recovery cannot fail here
			t.Line("c08.check what=sync-round-over-a-fault-free-path => VIOLATION:the client did not accept the reply of the server (%d connections, reply of %d bytes)", conns, len(reply))
		}
		if !final || !ok {
			continue
		}
		// ---- the retransmissions arrive: any order, some twice, the delayed originals in between
		order := make([]int, len(pkts))
		for i := range order {
			order[i] = i
		}
		for i := len(order) - 1; i > 0; i-- {
			j := r.Intn(i + 1)
			order[i], order[j] = order[j], order[i]
		}
		for _, i := range order {
			s.Dgram(pkts[i])
			if r.Chance(20) {
				s.Dgram(pkts[i])
			}
			if len(delayed) > 0 && r.Chance(30) {
				s.Dgram(delayed[0])
				delayed = delayed[1:]
			}
		}
		// ---- the property, evaluated on the real server
		snap := s.E.S.VerifSnapshot()
		off := snap.ReportsOffset
		reps := snap.Reports[1]
		missing := []string{}
		checked := 0
		for ts := off; ts <= latest && ts < off+4032; ts++ {
			if int64(ts) < int64(now)-432 || int64(ts) > int64(now)+432 {
				continue
			}
			v, err := c.VerifLoadReading(ts)
			if err != nil || v < 2 {
				continue
			}
			checked++
			if reps[ts-off].PowerOutput == 0 {
				missing = append(missing, strconv.Itoa(int(ts)))
			}
		}
		obs := "ok"
		if len(missing) > 0 {
			obs = "VIOLATION:server holds no record for timeslots " + strings.Join(missing, ",")
		}
		t.Count("relay.check")
		t.Count(fmt.Sprintf("relay.slots-checked:%d", min(checked, 9)))
		t.Line("c08.check slots=%d retransmitted=%d => %s", checked, len(pkts), obs)
	}
	s.Snap()
	t.DumpStats()
	return nil
}

type gcaReg struct{ k glow.PublicKey }

func (g *gcaReg) sb() []byte { return append([]byte("GCARegistration"), g.k[:]...) }

func init() {
	commands["relayscenario"] = func(a []string) int {
		seed, _ := strconv.ParseUint(a[0], 10, 64)
		size, _ := strconv.Atoi(a[1])
		t := NewTrace(os.Stdout)
		if err := runRelayScenario(seed, size, t); err != nil {
			t.Line("# scenario error: %v", err)
			return 3
		}
		return 0
	}
	commands["relay"] = func(a []string) int {
		base, _ := strconv.ParseUint(a[0], 10, 64)
		n, _ := strconv.Atoi(a[1])
		size, _ := strconv.Atoi(a[2])
		f, err := os.Create(a[3])
		if err != nil {
			return 2
		}
		defer f.Close()
		c := runMany([]string{"relayscenario"}, base, n, 14, size, f)
		fmt.Printf("HARNESS scenarios=%d crashes=%d\n", n, c)
		return 0
	}
}
