package main

// Archive (C14): downloads taken while write bursts are injected between the
// files being added (verifPoint "archive-before:<file>"); every archive is
// unzipped and re-verified with the real decoders and glow.Verify.

import (
	"archive/zip"
	"bytes"
	"fmt"
	"io"
	"net"
	"net/http"
	"os"
	"path/filepath"
	"sort"
	"strconv"
	"strings"
	"sync"
	"sync/atomic"
	"time"

	"github.com/glowlabs-org/gca-backend/glow"
	"github.com/glowlabs-org/gca-backend/server"
)

func unzipAll(b []byte) (map[string][]byte, error) {
	zr, err := zip.NewReader(bytes.NewReader(b), int64(len(b)))
	if err != nil {
		return nil, err
	}
	out := map[string][]byte{}
	for _, f := range zr.File {
		rc, err := f.Open()
		if err != nil {
			return nil, err
		}
		data, err := io.ReadAll(rc)
		rc.Close()
		if err != nil {
			return nil, err
		}
		out[f.Name] = data
	}
	return out, nil
}

// checkArchive evaluates the closure conditions of the property on one archive.
func checkArchive(files map[string][]byte, dir string, priv glow.PrivateKey) string {
	var problems []string
	bad := func(f string, a ...interface{}) { problems = append(problems, fmt.Sprintf(f, a...)) }
	auths, reports, weeks := files["equipment-authorizations.dat"], files["equipment-reports.dat"], files["allDeviceStats.dat"]
	gca := files["gcaPubKey.dat"]
	spk := files["server.pubkey"]
	if len(auths)%148 != 0 {
		bad("authorizations not record aligned (%d bytes)", len(auths))
	}
	if len(reports)%80 != 0 {
		bad("reports not record aligned (%d bytes)", len(reports))
	}
	// prefixes of the files as they are now
	for name, data := range map[string][]byte{"equipment-authorizations.dat": auths, "equipment-reports.dat": reports, "allDeviceStats.dat": weeks} {
		now, _ := os.ReadFile(filepath.Join(dir, name))
		if len(data) > len(now) || !bytes.Equal(now[:len(data)], data) {
			bad("%s is not a prefix of the file on disk", name)
		}
	}
	var gcaKey glow.PublicKey
	if len(gca) == 32 {
		copy(gcaKey[:], gca)
	} else if len(auths) > 0 {
		bad("authorizations archived without a GCA key (%d bytes)", len(gca))
	}
	type ak struct {
		key glow.PublicKey
	}
	byID := map[uint32][]glow.PublicKey{}
	for i := 0; i+148 <= len(auths); i += 148 {
		ea, err := glow.DeserializeEquipmentAuthorization(auths[i : i+148])
		if err != nil {
			bad("authorization %d undecodable", i/148)
			continue
		}
		if !glow.Verify(gcaKey, ea.SigningBytes(), ea.Signature) {
			bad("authorization %d does not verify under the archived GCA key", i/148)
		}
		byID[ea.ShortID] = append(byID[ea.ShortID], ea.PublicKey)
	}
	for i := 0; i+80 <= len(reports); i += 80 {
		r, _ := glow.DeserializeReport(reports[i : i+80])
		ok := false
		for _, k := range byID[r.ShortID] {
			if glow.Verify(k, r.SigningBytes(), r.Signature) {
				ok = true
			}
		}
		if !ok {
			bad("report %d (id %d) has no verifying authorization in the archive", i/80, r.ShortID)
		}
	}
	var sp glow.PublicKey
	if len(spk) != 32 {
		bad("server.pubkey has %d bytes", len(spk))
	}
	copy(sp[:], spk)
	rest := weeks
	for len(rest) > 0 {
		w, n, err := server.DeserializeStreamAllDeviceStats(rest)
		if err != nil {
			bad("statistics stream not record aligned")
			break
		}
		if !glow.Verify(sp, w.SigningBytes(), w.Signature) {
			bad("archived week %d does not verify under the archived server key", w.TimeslotOffset)
		}
		rest = rest[n:]
	}
	for name, data := range files {
		if bytes.Contains(data, priv[:]) {
			bad("private key bytes found in %s", name)
		}
	}
	if len(problems) == 0 {
		return "ok"
	}
	return "VIOLATION:" + strings.Join(problems, "; ")
}

func runArchiveScenario(seed uint64, size int, t *Trace) error {
	r := &Rng{s: seed*67 + 29}
	e, err := NewEnv("archive", seed, true)
	if err != nil {
		return err
	}
	defer func() { e.Stop(); os.RemoveAll(e.Dir) }()
	t.Line("scenario archive-%d", seed)
	registered := false
	nextID := uint32(1)
	var devs []devInfo
	register := func() {
		if !registered && e.RegisterDefault() == nil {
			registered = true
		}
	}
	newDevice := func() {
		if !registered {
			return
		}
		k := detKey(seed, int(nextID))
		ea := SignAuth(mkAuth(nextID, k, 1e12), e.GCA.Priv)
		if st, _ := e.Authorize(ea); st == 200 {
			devs = append(devs, devInfo{nextID, k, ea})
			now := glow.CurrentTimeslot()
			e.S.VerifInject(MkReport(nextID, now, 500+uint64(nextID), k.Priv).Serialize())
		}
		nextID++
	}
	// an authorization submitted while its log cannot be appended to (the path leads to /dev/full: the open
	// succeeds, the write fails). It has to be refused; if it is answered with success the device is used
	// like any other, and its reports end up in archives that hold no authorization for them.
	faultDevice := func() {
		if !registered {
			return
		}
		if _, err := os.Stat("/dev/full"); err != nil {
			return
		}
		path := filepath.Join(e.Dir, "equipment-authorizations.dat")
		if os.Rename(path, path+".aside") != nil {
			return
		}
		os.Symlink("/dev/full", path)
		k := detKey(seed, int(nextID))
		ea := SignAuth(mkAuth(nextID, k, 1e12), e.GCA.Priv)
		st, _ := e.Authorize(ea)
		os.Remove(path)
		os.Rename(path+".aside", path)
		t.Count(fmt.Sprintf("archive.fault-authorize:%d", st))
		if st == 200 {
			devs = append(devs, devInfo{nextID, k, ea})
			e.S.VerifInject(MkReport(nextID, glow.CurrentTimeslot(), 500+uint64(nextID), k.Priv).Serialize())
		}
		nextID++
	}
	report := func() {
		if len(devs) == 0 {
			return
		}
		dv := devs[r.Intn(len(devs))]
		now := glow.CurrentTimeslot()
		e.S.VerifInject(MkReport(dv.id, now-uint32(r.Intn(int(min(int(now), 300))+1)), 2+uint64(r.Intn(900)), dv.key.Priv).Serialize())
	}
	glow.SetCurrentTimeslot(400)
	if r.Chance(15) {
		// the directory of a server that was killed while its registration was being written: the key file is there
		// and empty. An archive is asked for in that state, before the registration is made again
		if e.Stop() == nil {
			os.WriteFile(filepath.Join(e.Dir, "gcaPubKey.dat"), nil, 0644)
			if err := e.Start(); err != nil {
				return err
			}
			time.Sleep(70 * time.Millisecond)
			e.Get("/api/v1/archive")
			t.Count("archive.asked-for-with-an-empty-key-file")
		}
	}
	if r.Chance(70) {
		register()
		for i := 0; i < r.Intn(4); i++ {
			newDevice()
		}
		for i := 0; i < r.Intn(30); i++ {
			report()
		}
	}
	regAgain := ""
	reRegister := func() {
		// the registration that was accepted, submitted again (same key, same signature): refused, and the key
		// file - the only public file that is written by truncating - is not touched a second time
		if !registered {
			return
		}
		before, _ := os.Stat(filepath.Join(e.Dir, "gcaPubKey.dat"))
		err := e.RegisterDefault()
		after, _ := os.Stat(filepath.Join(e.Dir, "gcaPubKey.dat"))
		if err == nil {
			regAgain = "a second registration was accepted"
		} else if before != nil && after != nil && !after.ModTime().Equal(before.ModTime()) {
			regAgain = "the GCA key file was written again"
		}
	}
	bursts := map[string]func(){
		"register-again":         reRegister,
		"device+report":          newDevice,
		"register+device":        func() { register(); newDevice() },
		"rotation":               func() { glow.SetCurrentTimeslot(glow.CurrentTimeslot() + 1); e.S.VerifMigrateNow() },
		"reports":                func() { report(); report(); report() },
		"device+report+rotation": func() { newDevice(); e.S.VerifMigrateNow(); newDevice() },
	}
	names := []string{"device+report", "register+device", "rotation", "reports", "device+report+rotation", "register-again"}
	files := append(append([]string{}, server.PublicFiles...), "server.pubkey")
	priv := e.S.VerifPrivateKey()
	// the process is killed inside an append and started again: one of the three logs ends in a proper prefix
	// of a record (also when it is the very first record of that log). The start drops it, so what is
	// appended later is aligned and every later archive is made of whole records
	tornRestart := func() {
		if e.Stop() != nil {
			return
		}
		var name string
		var partial []byte
		switch r.Intn(3) {
		case 0:
			name = server.AllDeviceStatsHistoryFile
			full := server.AllDeviceStats{Devices: make([]server.DeviceStats, 1), TimeslotOffset: 2016 * uint32(r.Intn(3))}.Serialize()
			partial = full[:1+r.Intn(len(full)-1)]
		case 1:
			name = "equipment-authorizations.dat"
			partial = r.Bytes(1 + r.Intn(147))
		default:
			name = "equipment-reports.dat"
			partial = r.Bytes(1 + r.Intn(79))
		}
		if f, err := os.OpenFile(filepath.Join(e.Dir, name), os.O_APPEND|os.O_CREATE|os.O_WRONLY, 0644); err == nil {
			f.Write(partial)
			f.Close()
		}
		t.Count("archive.torn-restart:" + name)
		if err := e.Start(); err != nil {
			t.Line("c14.archive inject=torn-restart:%s => VIOLATION:the server does not start on a log that ends inside a record: %v", name, err)
		}
	}
	for it := 0; it < size; it++ {
		if r.Chance(15) && e.S != nil {
			tornRestart()
			if e.S == nil {
				break
			}
		}
		// inject a burst before each of 1..3 of the files
		var where []string
		for _, f := range files {
			if r.Chance(40) {
				name := names[r.Intn(len(names))]
				where = append(where, name+"@"+f)
				fn := bursts[name]
				server.VerifSetPoint("archive-before:"+f, fn)
			}
		}
		if r.Chance(20) {
			faultDevice()
		}
		// one of the public files cannot be opened when its turn comes and is back, with more in it, when the
		// next file's turn comes. No archive is the honest answer; an archive, if there is one, is judged as any other
		hidden := ""
		if registered && r.Chance(18) {
			k := r.Intn(len(server.PublicFiles) - 1)
			if r.Chance(50) {
				k = 1 // the reports, which come before the authorizations they depend on
			}
			f, next := server.PublicFiles[k], files[k+1]
			if st, err := os.Stat(filepath.Join(e.Dir, f)); err == nil && st.Mode().IsRegular() {
				hidden = filepath.Join(e.Dir, f)
				server.VerifSetPoint("archive-before:"+f, func() { os.Rename(hidden, hidden+".hidden") })
				last := server.PublicFiles[len(server.PublicFiles)-1]
				if next != last {
					server.VerifSetPoint("archive-before:"+next, func() { os.Rename(hidden+".hidden", hidden) })
					server.VerifSetPoint("archive-before:"+last, func() { newDevice(); report() })
				} else {
					server.VerifSetPoint("archive-before:"+next, func() { os.Rename(hidden+".hidden", hidden); newDevice(); report() })
				}
				where = append(where, "hidden@"+f)
				t.Count("archive.file-hidden-at-its-turn")
			}
		}
		time.Sleep(70 * time.Millisecond) // let the rate window pass
		regAtStart := registered
		st, body, err := e.Get("/api/v1/archive")
		for _, f := range files {
			server.VerifSetPoint("archive-before:"+f, nil)
		}
		if hidden != "" {
			os.Rename(hidden+".hidden", hidden)
		}
		obs := ""
		switch {
		case err != nil:
			obs = "VIOLATION:request failed: " + err.Error()
		case st != 200 && !regAtStart:
			// no GCA key file yet: the server produces no archive at all (nothing to judge)
			obs = "ok"
			t.Count("archive.unavailable")
		case st != 200 && hidden != "":
			obs = "ok"
			t.Count("archive.refused-under-fault")
		case st != 200:
			obs = fmt.Sprintf("VIOLATION:status %d", st)
		default:
			fs, zerr := unzipAll(body)
			if zerr != nil {
				obs = "VIOLATION:unzip: " + zerr.Error()
			} else {
				obs = checkArchive(fs, e.Dir, priv)
			}
		}
		if regAgain != "" && obs == "ok" {
			obs = "VIOLATION:" + regAgain
		}
		t.Count("archive")
		t.Count(fmt.Sprintf("archive.injections:%d", len(where)))
		t.Line("c14.archive inject=%s => %s", strings.Join(where, ","), obs)
	}
	// rate limit: paced and bursty request patterns, judged on the limiter's own admission times
	// (collected after every request, because the limiter forgets old admissions)
	c := server.VerifConsts()
	rate := time.Duration(c.ApiArchiveRate)
	seen := map[int64]bool{}
	var adm []time.Time
	okCount := 0
	var mu sync.Mutex
	collect := func() {
		mu.Lock()
		for _, u := range e.S.ApiArchiveRateLimiter.VerifAdmitted() {
			if !seen[u.UnixNano()] {
				seen[u.UnixNano()] = true
				adm = append(adm, u)
			}
		}
		mu.Unlock()
	}
	// every request that got past the limiter (any answer but 429), with the caller's before/after times
	type span struct{ b, a time.Time }
	var passed []span
	// every other request comes from a second source address: the limit is the server's, not the caller's
	second := &http.Client{Timeout: 20 * time.Second, Transport: &http.Transport{DisableKeepAlives: true,
		DialContext: (&net.Dialer{Timeout: 5 * time.Second, LocalAddr: &net.TCPAddr{IP: net.ParseIP(myIP)}}).DialContext}}
	var calls int64
	get := func() int {
		b := time.Now()
		var st int
		var err error
		if atomic.AddInt64(&calls, 1)%2 == 0 {
			var resp *http.Response
			if resp, err = second.Get(e.url("/api/v1/archive")); err == nil {
				io.Copy(io.Discard, resp.Body)
				resp.Body.Close()
				st = resp.StatusCode
			}
		} else {
			st, _, err = e.Get("/api/v1/archive")
		}
		a := time.Now()
		mu.Lock()
		if err == nil && st == 200 {
			okCount++
		}
		if err == nil && st != 429 {
			passed = append(passed, span{b, a})
		}
		mu.Unlock()
		collect()
		return st
	}
	starvedBy := ""
	for rep := 0; rep < 3; rep++ {
		time.Sleep(rate + 10*time.Millisecond)
		// requests the handler refuses for their own sake (method, body) are no downloads: they must not use
		// up the allowance of the window
		for k := 0; k < c.ApiArchiveLimit+1; k++ {
			m := []string{"POST", "PUT", "DELETE", "GET"}[k%4]
			if req, err := http.NewRequest(m, e.url("/api/v1/archive"), strings.NewReader("x")); err == nil {
				if resp, err := httpClient.Do(req); err == nil {
					io.Copy(io.Discard, resp.Body)
					resp.Body.Close()
				}
			}
		}
		// ... and neither may requests to OTHER endpoints (a well-formed geo-stats query fails for want of a
		// network here, which is beside the point)
		quick := &http.Client{Timeout: 3 * time.Second}
		for k := 0; k < c.ApiArchiveLimit+1; k++ {
			if resp, err := quick.Get(e.url(fmt.Sprintf("/api/v1/geo-stats?latitude=%d&longitude=%d", 10+k, 20+k))); err == nil {
				io.Copy(io.Discard, resp.Body)
				resp.Body.Close()
			}
		}
		t0 := time.Now()
		if get() == 429 && starvedBy == "" { // one early admission
			starvedBy = fmt.Sprintf("a download was refused although nothing had been admitted for %v (only refused requests and requests to other endpoints came before it)", rate)
		}
		time.Sleep(time.Until(t0.Add(rate * 7 / 10)))
		for k := 0; k < c.ApiArchiveLimit-1; k++ {
			get() // fill the window late
		}
		time.Sleep(time.Until(t0.Add(rate + 2*time.Millisecond)))
		var wg sync.WaitGroup
		for k := 0; k < c.ApiArchiveLimit+1; k++ { // burst right after the first admission expired
			wg.Add(1)
			go func() { defer wg.Done(); get() }()
		}
		wg.Wait()
	}
	// a crowd: many requests at the same instant, twice (whichever of them takes the limiter's mutex first, no more
	// than the limit get past it within a window)
	for rep := 0; rep < 4; rep++ {
		time.Sleep(rate + 10*time.Millisecond)
		var wg sync.WaitGroup
		for k := 0; k < 64; k++ {
			wg.Add(1)
			go func() { defer wg.Done(); get() }()
		}
		wg.Wait()
	}
	t.Count("archive.crowd")
	// a phase in which building the archive fails (a public file is missing): the requests still went through
	// the limiter, so no more than the limit of them may get past it within a window, whatever their outcome
	pub := filepath.Join(e.Dir, "gcaTempPubKey.dat")
	if os.Rename(pub, pub+".aside") == nil {
		time.Sleep(rate + 10*time.Millisecond)
		var wg sync.WaitGroup
		for k := 0; k < c.ApiArchiveLimit+4; k++ {
			wg.Add(1)
			go func() { defer wg.Done(); get() }()
		}
		wg.Wait()
		os.Rename(pub+".aside", pub)
		t.Count("archive.failing-burst")
	}
	// judged on the callers' clocks: requests whose whole [before, after] lies inside a span shorter than the
	// window were all admitted within one window
	overPassed := 0
	for i := range passed {
		n := 0
		for j := range passed {
			if !passed[j].b.Before(passed[i].b) && passed[j].a.Before(passed[i].b.Add(rate)) {
				n++
			}
		}
		if n > overPassed {
			overPassed = n
		}
	}
	sort.Slice(adm, func(i, j int) bool { return adm[i].Before(adm[j]) })
	worst := 0
	for i := range adm {
		n := 0
		for j := i; j >= 0 && adm[j].After(adm[i].Add(-rate)); j-- {
			n++
		}
		if n > worst {
			worst = n
		}
	}
	obs := "ok"
	if worst > c.ApiArchiveLimit {
		obs = fmt.Sprintf("VIOLATION:%d archives admitted within one window of %v (limit %d)", worst, rate, c.ApiArchiveLimit)
	} else if overPassed > c.ApiArchiveLimit {
		obs = fmt.Sprintf("VIOLATION:%d requests got past the limiter within one window of %v (limit %d)", overPassed, rate, c.ApiArchiveLimit)
	} else if starvedBy != "" {
		obs = "VIOLATION:" + starvedBy
	}
	t.Count("archive.rate")
	t.Line("c14.rate served=%d => %s", okCount, obs)
	t.DumpStats()
	return nil
}

func init() {
	commands["archivescenario"] = func(a []string) int {
		seed, _ := strconv.ParseUint(a[0], 10, 64)
		size, _ := strconv.Atoi(a[1])
		t := NewTrace(os.Stdout)
		if err := runArchiveScenario(seed, size, t); err != nil {
			t.Line("# scenario error: %v", err)
			return 3
		}
		return 0
	}
	commands["archive"] = func(a []string) int {
		base, _ := strconv.ParseUint(a[0], 10, 64)
		n, _ := strconv.Atoi(a[1])
		size, _ := strconv.Atoi(a[2])
		f, err := os.Create(a[3])
		if err != nil {
			return 2
		}
		defer f.Close()
		c := runMany([]string{"archivescenario"}, base, n, 14, size, f)
		fmt.Printf("HARNESS scenarios=%d crashes=%d\n", n, c)
		return 0
	}
}
